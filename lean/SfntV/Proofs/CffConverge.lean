/-
The offset fixed point of `(*Font).Write` settles: the section sizes depend on the offsets only
through the encoded length of the offset operands, which is monotone; the offset of the last
section strictly grows in every pass that is not the last one, and it is bounded.
-/
import SfntV.Proofs.CffFontRtCid

namespace SfntV.Cff
open SfntV

/-! ### the loop, abstractly -/

/-- pointwise comparison of section sizes -/
def BLe (a b : List Bytes) : Prop := a.length = b.length ∧ ∀ i, (a.getD i []).length ≤ (b.getD i []).length

theorem BLe.refl (a : List Bytes) : BLe a a := ⟨rfl, fun _ => Nat.le_refl _⟩

theorem cumsum_go_length (blobs : List Bytes) : ∀ acc, (cumsum.go blobs acc).length = blobs.length + 1 := by
  induction blobs with
  | nil => intro acc; simp [cumsum.go]
  | cons b bs ih => intro acc; simp [cumsum.go, ih]

theorem cumsum_length (blobs : List Bytes) : (cumsum blobs).length = blobs.length + 1 := by
  simp [cumsum, cumsum_go_length]

theorem cumsum_secPos (blobs : List Bytes) (i : Nat) (hi : i ≤ blobs.length) :
    (cumsum blobs).getD i 0 = (secPos blobs i : Int) := cumsum_getD blobs i hi

/-- the growth of a position is the sum of the growths of the sections before it -/
theorem secPos_diff_mono (a b : List Bytes) (h : BLe a b) : ∀ (m j : Nat), j ≤ m → m ≤ a.length →
    secPos a j ≤ secPos b j ∧ secPos a m + secPos b j ≤ secPos b m + secPos a j := by
  intro m
  induction m with
  | zero =>
    intro j hj _
    have : j = 0 := by omega
    subst this
    simp [secPos]
  | succ m ih =>
    intro j hj hm
    have h1 := secPos_succ a m (by omega)
    have h2 := secPos_succ b m (by rw [← h.1]; omega)
    have h3 := h.2 m
    by_cases hjm : j = m + 1
    · subst hjm
      have := ih m (Nat.le_refl _) (by omega)
      constructor <;> omega
    · have := ih j (by omega) (by omega)
      constructor <;> omega

theorem take_eq_of_getD (a b : List Int) (n : Nat) (ha : n ≤ a.length) (hb : n ≤ b.length)
    (h : ∀ j, j < n → a.getD j 0 = b.getD j 0) : a.take n = b.take n := by
  apply List.ext_getElem
  · simp [List.length_take, Nat.min_eq_left ha, Nat.min_eq_left hb]
  · intro j h1 h2
    simp only [List.length_take] at h1
    have hj : j < n := by omega
    have := h j hj
    simp only [List.getD_eq_getElem?_getD, List.getElem?_eq_getElem (show j < a.length by omega),
      List.getElem?_eq_getElem (show j < b.length by omega), Option.getD_some] at this
    simp [List.getElem_take, this]

/-- a pass that is not the last one moves the last section -/
theorem grows_of_not_same (a b : List Bytes) (n : Nat) (hn : 1 ≤ n) (hla : a.length = n) (h : BLe a b)
    (hs : sameOffs n (cumsum b) (cumsum a) = false) : secPos a (n - 1) < secPos b (n - 1) := by
  have hlb : b.length = n := by rw [← h.1]; exact hla
  apply Classical.byContradiction
  intro hcon
  have hall : ∀ j, j < n → (cumsum b).getD j 0 = (cumsum a).getD j 0 := by
    intro j hj
    rw [cumsum_secPos b j (by omega), cumsum_secPos a j (by omega)]
    have := secPos_diff_mono a b h (n - 1) j (by omega) (by omega)
    omega
  have := take_eq_of_getD (cumsum b) (cumsum a) n (by rw [cumsum_length]; omega) (by rw [cumsum_length]; omega) hall
  simp [sameOffs, this] at hs

/-- the loop ends: sizes monotone in the sizes of the previous pass, last offset bounded; the number
of passes is at most the room left for the last section, plus one -/
theorem writeLoop_converges (mk : List Int → List Bytes) (n U : Nat) (hn : 1 ≤ n)
    (hlen : ∀ offs, (mk offs).length = n)
    (hmono : ∀ b b', b.length = n → BLe b b' → BLe (mk (cumsum b)) (mk (cumsum b')))
    (hU : ∀ b, b.length = n → secPos (mk (cumsum b)) (n - 1) ≤ U) :
    ∀ (fuel : Nat) (b : List Bytes) (k : Nat), b.length = n → BLe b (mk (cumsum b)) →
      U < secPos b (n - 1) + fuel →
      ∃ blobs b' k', b'.length = n ∧ writeLoop mk n fuel (cumsum b) k = some (blobs, cumsum b', k') ∧
        k' + secPos b (n - 1) ≤ k + U + 1 := by
  intro fuel
  induction fuel with
  | zero =>
    intro b k hb hle hf
    exfalso
    have h1 := (secPos_diff_mono b _ hle (n - 1) (n - 1) (Nat.le_refl _) (by omega)).1
    have h2 := hU b hb
    omega
  | succ fuel ih =>
    intro b k hb hle hf
    have h1 := (secPos_diff_mono b _ hle (n - 1) (n - 1) (Nat.le_refl _) (by omega)).1
    have h2 := hU b hb
    simp only [writeLoop]
    by_cases hs : sameOffs n (cumsum (mk (cumsum b))) (cumsum b) = true
    · rw [if_pos hs]; exact ⟨_, b, _, hb, rfl, by omega⟩
    · rw [if_neg hs]
      have hs' : sameOffs n (cumsum (mk (cumsum b))) (cumsum b) = false := by
        cases h : sameOffs n (cumsum (mk (cumsum b))) (cumsum b) <;> simp_all
      have hg := grows_of_not_same b (mk (cumsum b)) n hn hb hle hs'
      obtain ⟨blobs, b', k', hb', hw, hk⟩ :=
        ih (mk (cumsum b)) (k + 1) (hlen _) (hmono b _ hb hle) (by omega)
      exact ⟨blobs, b', k', hb', hw, by omega⟩

/-! ### DICT sizes are monotone in the encoded length of their integer operands -/

def lenI (v : Int) : Nat := (encodeInt v).length

theorem lenI_range (v : Int) : 1 ≤ lenI v ∧ lenI v ≤ 5 := by
  unfold lenI encodeInt
  split
  · simp
  · split
    · simp
    · split
      · simp
      · split <;> simp

theorem lenI_eq (v : Int) : lenI v =
    if -107 ≤ v ∧ v ≤ 107 then 1 else if -1131 ≤ v ∧ v ≤ 1131 then 2 else if -32768 ≤ v ∧ v ≤ 32767 then 3 else 5 := by
  unfold lenI encodeInt
  by_cases h1 : -107 ≤ v ∧ v ≤ 107
  · rw [if_pos h1, if_pos h1]; rfl
  · rw [if_neg h1, if_neg h1]
    by_cases h2 : 108 ≤ v ∧ v ≤ 1131
    · have g : -1131 ≤ v ∧ v ≤ 1131 := by omega
      rw [if_pos h2, if_pos g]; rfl
    · rw [if_neg h2]
      by_cases h3 : -1131 ≤ v ∧ v ≤ -108
      · have g : -1131 ≤ v ∧ v ≤ 1131 := by omega
        rw [if_pos h3, if_pos g]; rfl
      · have g : ¬ (-1131 ≤ v ∧ v ≤ 1131) := by omega
        rw [if_neg h3, if_neg g]
        by_cases h4 : -32768 ≤ v ∧ v ≤ 32767
        · rw [if_pos h4, if_pos h4]; rfl
        · rw [if_neg h4, if_neg h4]; rfl

theorem lenI_mono (v v' : Int) (h0 : 0 ≤ v) (h : v ≤ v') : lenI v ≤ lenI v' := by
  rw [lenI_eq, lenI_eq]
  repeat' split
  all_goals omega

theorem lenI_big (v : Int) (h : 32768 ≤ v) : lenI v = 5 := by
  have g1 : ¬ (-107 ≤ v ∧ v ≤ 107) := by omega
  have g2 : ¬ (-1131 ≤ v ∧ v ≤ 1131) := by omega
  have g3 : ¬ (-32768 ≤ v ∧ v ≤ 32767) := by omega
  rw [lenI_eq, if_neg g1, if_neg g2, if_neg g3]

/-- the same operand, or two integers of which the second is not shorter -/
def OpLe (o o' : Operand) : Prop := o = o' ∨ ∃ v v', o = .int v ∧ o' = .int v' ∧ lenI v ≤ lenI v'

def EntLe (e e' : Nat × List Operand) : Prop := e.1 = e'.1 ∧ Rel2 OpLe e.2 e'.2

theorem rel2_refl {α : Type} {R : α → α → Prop} (hr : ∀ a, R a a) : ∀ l : List α, Rel2 R l l
  | [] => .nil
  | a :: l => .cons (hr a) (rel2_refl hr l)

theorem rel2_append {α β : Type} {R : α → β → Prop} {a1 a2 : List α} {b1 b2 : List β}
    (h1 : Rel2 R a1 b1) (h2 : Rel2 R a2 b2) : Rel2 R (a1 ++ a2) (b1 ++ b2) := by
  induction h1 with
  | nil => exact h2
  | cons h _ ih => exact .cons h ih

theorem OpLe.refl (o : Operand) : OpLe o o := Or.inl rfl
theorem EntLe.refl (e : Nat × List Operand) : EntLe e e := ⟨rfl, rel2_refl OpLe.refl _⟩
theorem entLe_refl_list (d : DictL) : Rel2 EntLe d d := rel2_refl EntLe.refl d

theorem resolveArgs_le (std : List String) : ∀ (a a' : List Operand) (c : List String), Rel2 OpLe a a' →
    (resolveArgs std c a).2 = (resolveArgs std c a').2 ∧
    ((resolveArgs std c a).1.flatMap encodeOperand).length ≤ ((resolveArgs std c a').1.flatMap encodeOperand).length := by
  intro a a' c h
  induction h generalizing c with
  | nil => exact ⟨rfl, Nat.le_refl _⟩
  | @cons o o' l l' ho _ ih =>
    rcases ho with rfl | ⟨v, v', rfl, rfl, hv⟩
    · cases o with
      | str s =>
        simp only [resolveArgs]
        have := ih (stringsLookup std c s).2
        exact ⟨this.1, by simp only [List.flatMap_cons, List.length_append]; omega⟩
      | int v =>
        simp only [resolveArgs]
        have := ih c
        exact ⟨this.1, by simp only [List.flatMap_cons, List.length_append]; omega⟩
      | real n m e =>
        simp only [resolveArgs]
        have := ih c
        exact ⟨this.1, by simp only [List.flatMap_cons, List.length_append]; omega⟩
    · simp only [resolveArgs]
      have := ih c
      refine ⟨this.1, ?_⟩
      simp only [List.flatMap_cons, List.length_append, encodeOperand]
      unfold lenI at hv
      omega

theorem resolveEntries_le (std : List String) : ∀ (E E' : DictL) (c : List String), Rel2 EntLe E E' →
    (resolveEntries std c E).2 = (resolveEntries std c E').2 ∧
    (encodeEntries (resolveEntries std c E).1).length ≤ (encodeEntries (resolveEntries std c E').1).length := by
  intro E E' c h
  induction h generalizing c with
  | nil => exact ⟨rfl, Nat.le_refl _⟩
  | @cons e e' l l' he _ ih =>
    obtain ⟨hk, ha⟩ := he
    have h1 := resolveArgs_le std e.2 e'.2 c ha
    simp only [resolveEntries]
    rw [h1.1]
    have h2 := ih (resolveArgs std c e'.2).2
    refine ⟨h2.1, ?_⟩
    simp only [encodeEntries, List.flatMap_cons, List.length_append] at h2 ⊢
    rw [hk]
    omega

theorem insertByRank_rel (e e' : Nat × List Operand) (he : EntLe e e') : ∀ (l l' : DictL), Rel2 EntLe l l' →
    Rel2 EntLe (insertByRank e l) (insertByRank e' l') := by
  intro l l' h
  induction h with
  | nil => exact .cons he .nil
  | @cons x x' t t' hx ht ih =>
    simp only [insertByRank]
    rw [← he.1, ← hx.1]
    split
    · exact .cons he (.cons hx ht)
    · exact .cons hx ih

theorem sortDict_rel (d d' : DictL) (h : Rel2 EntLe d d') : Rel2 EntLe (sortDict d) (sortDict d') := by
  unfold sortDict
  have : ∀ (acc acc' : DictL), Rel2 EntLe acc acc' →
      Rel2 EntLe (d.foldl (fun acc e => insertByRank e acc) acc) (d'.foldl (fun acc e => insertByRank e acc) acc') := by
    induction h with
    | nil => intro acc acc' ha; exact ha
    | cons he _ ih => intro acc acc' ha; exact ih _ _ (insertByRank_rel _ _ he _ _ ha)
  exact this [] [] .nil

/-- `cffDict.encode`: same string table afterwards, and a length that is monotone in the operand lengths -/
theorem encodeDictS_le (std c : List String) (d d' : DictL) (h : Rel2 EntLe d d') :
    (encodeDictS std c d).2 = (encodeDictS std c d').2 ∧
    (encodeDictS std c d).1.length ≤ (encodeDictS std c d').1.length := by
  rw [encodeDictS_eq, encodeDictS_eq]
  exact resolveEntries_le std _ _ c (sortDict_rel d d' h)


/-! ### INDEX sizes -/

theorem index_len (blobs : List Bytes) (h : idxOk blobs = true) (hne : blobs ≠ []) :
    (outOk (indexEncode blobs)).length
      = 3 + (blobs.length + 1) * chooseOffSize (bodyLength blobs) + bodyLength blobs := by
  obtain ⟨h1, h2⟩ := idxOk_bounds blobs h hne
  have hl : ¬ blobs.length = 0 := fun h0 => hne (List.eq_nil_of_length_eq_zero h0)
  have h4 : ¬ chooseOffSize (bodyLength blobs) > 4 := by
    have := (chooseOffSize_le_iff (bodyLength blobs)).mpr h2; omega
  unfold indexEncode
  rw [if_neg (by omega), if_neg hl]
  simp only [h4, if_false, outOk, List.length_append, length_flatMap_beN, offsetsFrom_length, length_flatten_eq,
    List.length_singleton]
  have : (be16 blobs.length).length = 2 := by simp [be16]
  omega

theorem chooseOffSize_mono (a b : Nat) (h : a ≤ b) : chooseOffSize a ≤ chooseOffSize b := by
  unfold chooseOffSize
  repeat' split
  all_goals omega

theorem bodyLength_le (a b : List Bytes) (h : BLe a b) : bodyLength a ≤ bodyLength b := by
  obtain ⟨hl, hp⟩ := h
  induction a generalizing b with
  | nil => simp [bodyLength]
  | cons x xs ih =>
    cases b with
    | nil => simp at hl
    | cons y ys =>
      have h0 := hp 0
      simp only [List.getD_cons_zero] at h0
      have := ih ys (by simpa using hl) (fun i => by have := hp (i + 1); simpa using this)
      simp only [bodyLength, List.map_cons, List.sum_cons] at this ⊢
      omega

/-- a smaller list of blobs fits if the larger one does, and its INDEX is not longer -/
theorem index_le (a b : List Bytes) (h : BLe a b) (hb : idxOk b = true) :
    idxOk a = true ∧ (outOk (indexEncode a)).length ≤ (outOk (indexEncode b)).length := by
  by_cases hne : a = []
  · subst hne
    have : b = [] := List.eq_nil_of_length_eq_zero h.1.symm
    subst this
    exact ⟨hb, Nat.le_refl _⟩
  · have hbne : b ≠ [] := by
      intro h0; subst h0; exact hne (List.eq_nil_of_length_eq_zero h.1)
    obtain ⟨h1, h2⟩ := idxOk_bounds b hb hbne
    have hbody := bodyLength_le a b h
    have ha : idxOk a = true := idxOk_of_bounds a (by rw [h.1]; exact h1) (by omega)
    refine ⟨ha, ?_⟩
    rw [index_len a ha hne, index_len b hb hbne, h.1]
    have := chooseOffSize_mono _ _ hbody
    have := Nat.mul_le_mul_left (b.length + 1) this
    omega


/-! ### one pass of the loop body, in named pieces -/

/-- the section numbers `mkSecs` hands out, for `np` private DICTs -/
def StdSecs (sc : Secs) (np : Nat) : Prop :=
  sc.charsets = 6 ∧ sc.charStrings = 8 ∧ sc.fontDictIndex = 9 ∧ sc.priv0 = 10 ∧ sc.subrs = 10 + np ∧ sc.num = 11 + np

theorem stdSecs_mkSecs (f : FontIn) : StdSecs (mkSecs f) f.privs.length := by
  simp [StdSecs, mkSecs]

def privBlobAt (std : List String) (fx : Fixed) (o : List Int) (i : Nat) : Bytes :=
  (encodeDictS std [] ((fx.privBase.getD i []) ++
    [(19, [.int (o.getD (10 + fx.privBase.length) 0 - o.getD (10 + i) 0)])])).1

def privBlobsAt (std : List String) (fx : Fixed) (o : List Int) : List Bytes :=
  (List.range fx.privBase.length).map (privBlobAt std fx o)

def pdDescAt (std : List String) (fx : Fixed) (o : List Int) (i : Nat) : List Operand :=
  [.int (((privBlobsAt std fx o).getD i []).length), .int (o.getD (10 + i) 0)]

def fdDictAt (std : List String) (fx : Fixed) (o : List Int) (i : Nat) : Bytes :=
  (encodeDictS std [] ((fx.fdBase.getD i []) ++ [(18, pdDescAt std fx o i)])).1

def topAt (std : List String) (isCID : Bool) (fx : Fixed) (o : List Int) : DictL :=
  fx.topBase ++
    (if isCID then [] else
      (if fx.privBase.length > 0 then [(18, pdDescAt std fx o (fx.privBase.length - 1))] else [])) ++
    [(15, [.int (o.getD 6 0)])] ++
    (match fx.encoding with
     | some _ => [(16, [.int (o.getD 5 0)])]
     | none => if fx.expert then [(16, [.int 1])] else []) ++
    [(17, [.int (o.getD 8 0)])] ++
    (match fx.fdSelect with
     | some _ => [(3109, [.int (o.getD 7 0)]), (3108, [.int (o.getD 9 0)])]
     | none => [])

theorem mkBlobs_eq (std : List String) (isCID : Bool) (fx : Fixed) (sc : Secs) (o : List Int)
    (hsc : StdSecs sc fx.privBase.length) :
    mkBlobs std isCID fx sc o =
      [[1, 0, 4, UInt8.ofNat (offsSize (o.getD (11 + fx.privBase.length) 0))], fx.nameIndex,
        outOk (indexEncode [(encodeDictS std fx.custom0 (topAt std isCID fx o)).1]),
        outOk (indexEncode ((encodeDictS std fx.custom0 (topAt std isCID fx o)).2.map strToBlob)), [0, 0],
        fx.encoding.getD [], fx.charsets, fx.fdSelect.getD [], fx.charStrings,
        if isCID then outOk (indexEncode ((List.range fx.privBase.length).map (fdDictAt std fx o))) else []]
      ++ privBlobsAt std fx o ++ [[0, 0]] := by
  obtain ⟨h1, h2, h3, h4, h5, h6⟩ := hsc
  unfold mkBlobs
  simp only [h1, h2, h3, h4, h5, h6]
  rfl

theorem mkBlobsFits_eq (std : List String) (isCID : Bool) (fx : Fixed) (sc : Secs) (o : List Int)
    (hsc : StdSecs sc fx.privBase.length) :
    mkBlobsFits std isCID fx sc o =
      ((if isCID then idxOk ((List.range fx.privBase.length).map (fdDictAt std fx o)) else true) &&
        idxOk [(encodeDictS std fx.custom0 (topAt std isCID fx o)).1] &&
        idxOk ((encodeDictS std fx.custom0 (topAt std isCID fx o)).2.map strToBlob)) := by
  obtain ⟨h1, h2, h3, h4, h5, h6⟩ := hsc
  unfold mkBlobsFits
  simp only [h1, h2, h3, h4, h5, h6]
  rfl


/-! ### one pass is monotone in the operand lengths of the offsets -/

/-- every offset operand (and every Subrs operand, a difference of offsets) written from `o` is at
most as long as the one written from `o'` -/
def OffLe (np : Nat) (o o' : List Int) : Prop :=
  (∀ i, i ≤ 10 + np → lenI (o.getD i 0) ≤ lenI (o'.getD i 0)) ∧
  (∀ k, k < np → lenI (o.getD (10 + np) 0 - o.getD (10 + k) 0) ≤ lenI (o'.getD (10 + np) 0 - o'.getD (10 + k) 0))

def LenLe (a b : Bytes) : Prop := a.length ≤ b.length

theorem ble_of_rel2 {a b : List Bytes} (h : Rel2 LenLe a b) : BLe a b := by
  induction h with
  | nil => exact BLe.refl _
  | @cons x y l1 l2 hxy _ ih =>
    refine ⟨by simp [ih.1], ?_⟩
    intro i
    cases i with
    | zero => exact hxy
    | succ i => simpa using ih.2 i

theorem rel2_of_ble : ∀ {a b : List Bytes}, BLe a b → Rel2 LenLe a b
  | [], [], _ => .nil
  | [], _ :: _, h => absurd h.1 (by simp)
  | _ :: _, [], h => absurd h.1 (by simp)
  | x :: xs, y :: ys, h =>
    .cons (show x.length ≤ y.length by have := h.2 0; simpa using this)
      (rel2_of_ble ⟨by simpa using h.1, fun i => by have := h.2 (i + 1); simpa using this⟩)

theorem rel2_map_list {α β γ : Type} {R : β → γ → Prop} (g : α → β) (g' : α → γ) :
    ∀ (l : List α), (∀ x ∈ l, R (g x) (g' x)) → Rel2 R (l.map g) (l.map g')
  | [], _ => .nil
  | x :: xs, h => .cons (h x (List.mem_cons_self ..)) (rel2_map_list g g' xs (fun y hy => h y (List.mem_cons_of_mem _ hy)))

theorem entLe_mk (k : Nat) (a a' : List Operand) (h : Rel2 OpLe a a') : EntLe (k, a) (k, a') := ⟨rfl, h⟩

theorem intOp_le (v v' : Int) (h : lenI v ≤ lenI v') : OpLe (.int v) (.int v') := Or.inr ⟨v, v', rfl, rfl, h⟩

theorem privBlob_le (std : List String) (fx : Fixed) (o o' : List Int) (h : OffLe fx.privBase.length o o')
    (i : Nat) (hi : i < fx.privBase.length) :
    (privBlobAt std fx o i).length ≤ (privBlobAt std fx o' i).length := by
  unfold privBlobAt
  exact (encodeDictS_le std [] _ _
    (rel2_append (entLe_refl_list _) (.cons (entLe_mk _ _ _ (.cons (intOp_le _ _ (h.2 i hi)) .nil)) .nil))).2

theorem privBlobs_le (std : List String) (fx : Fixed) (o o' : List Int) (h : OffLe fx.privBase.length o o') :
    BLe (privBlobsAt std fx o) (privBlobsAt std fx o') := by
  apply ble_of_rel2
  unfold privBlobsAt
  apply rel2_map_list
  intro i hi
  exact privBlob_le std fx o o' h i (List.mem_range.mp hi)

theorem pdDesc_le (std : List String) (fx : Fixed) (o o' : List Int) (h : OffLe fx.privBase.length o o')
    (i : Nat) (hi : i < fx.privBase.length) :
    Rel2 OpLe (pdDescAt std fx o i) (pdDescAt std fx o' i) := by
  unfold pdDescAt
  refine .cons (intOp_le _ _ ?_) (.cons (intOp_le _ _ (h.1 (10 + i) (by omega))) .nil)
  exact lenI_mono _ _ (by omega) (by have := (privBlobs_le std fx o o' h).2 i; omega)

theorem fdDict_le (std : List String) (fx : Fixed) (o o' : List Int) (h : OffLe fx.privBase.length o o')
    (i : Nat) (hi : i < fx.privBase.length) :
    (fdDictAt std fx o i).length ≤ (fdDictAt std fx o' i).length := by
  unfold fdDictAt
  exact (encodeDictS_le std [] _ _
    (rel2_append (entLe_refl_list _) (.cons (entLe_mk _ _ _ (pdDesc_le std fx o o' h i hi)) .nil))).2

theorem fdDicts_le (std : List String) (fx : Fixed) (o o' : List Int) (h : OffLe fx.privBase.length o o') :
    BLe ((List.range fx.privBase.length).map (fdDictAt std fx o)) ((List.range fx.privBase.length).map (fdDictAt std fx o')) := by
  apply ble_of_rel2
  apply rel2_map_list
  intro i hi
  exact fdDict_le std fx o o' h i (List.mem_range.mp hi)

theorem top_le (std : List String) (isCID : Bool) (fx : Fixed) (o o' : List Int) (h : OffLe fx.privBase.length o o') :
    Rel2 EntLe (topAt std isCID fx o) (topAt std isCID fx o') := by
  unfold topAt
  have one : ∀ (k i : Nat), i ≤ 10 + fx.privBase.length →
      Rel2 EntLe [(k, [Operand.int (o.getD i 0)])] [(k, [Operand.int (o'.getD i 0)])] :=
    fun k i hi => .cons (entLe_mk _ _ _ (.cons (intOp_le _ _ (h.1 i hi)) .nil)) .nil
  refine rel2_append (rel2_append (rel2_append (rel2_append (rel2_append (entLe_refl_list _) ?_) (one 15 6 (by omega))) ?_)
    (one 17 8 (by omega))) ?_
  · cases isCID with
    | true => exact .nil
    | false =>
      simp only [Bool.false_eq_true, if_false]
      split
      · rename_i hp
        exact .cons (entLe_mk _ _ _ (pdDesc_le std fx o o' h _ (by omega))) .nil
      · exact .nil
  · cases fx.encoding with
    | some _ => exact one 16 5 (by omega)
    | none => exact entLe_refl_list _
  · cases fx.fdSelect with
    | some _ =>
      exact .cons (entLe_mk _ _ _ (.cons (intOp_le _ _ (h.1 7 (by omega))) .nil))
        (.cons (entLe_mk _ _ _ (.cons (intOp_le _ _ (h.1 9 (by omega))) .nil)) .nil)
    | none => exact .nil

/-- one pass: if the pass from `o'` fits its INDEXes, so does the pass from `o`, and no section is longer -/
theorem mkBlobs_le (std : List String) (isCID : Bool) (fx : Fixed) (sc : Secs) (o o' : List Int)
    (hsc : StdSecs sc fx.privBase.length) (h : OffLe fx.privBase.length o o')
    (hfit : mkBlobsFits std isCID fx sc o' = true) :
    mkBlobsFits std isCID fx sc o = true ∧ BLe (mkBlobs std isCID fx sc o) (mkBlobs std isCID fx sc o') := by
  rw [mkBlobsFits_eq std isCID fx sc o' hsc] at hfit
  rw [mkBlobsFits_eq std isCID fx sc o hsc, mkBlobs_eq std isCID fx sc o hsc, mkBlobs_eq std isCID fx sc o' hsc]
  simp only [Bool.and_eq_true] at hfit ⊢
  obtain ⟨⟨hf1, hf2⟩, hf3⟩ := hfit
  obtain ⟨htop2, htop1⟩ := encodeDictS_le std fx.custom0 _ _ (top_le std isCID fx o o' h)
  have hTop := index_le [(encodeDictS std fx.custom0 (topAt std isCID fx o)).1]
    [(encodeDictS std fx.custom0 (topAt std isCID fx o')).1]
    (ble_of_rel2 (.cons htop1 .nil)) hf2
  have hFd : (if isCID = true then idxOk ((List.range fx.privBase.length).map (fdDictAt std fx o)) else true) = true ∧
      LenLe (if isCID = true then outOk (indexEncode ((List.range fx.privBase.length).map (fdDictAt std fx o))) else [])
        (if isCID = true then outOk (indexEncode ((List.range fx.privBase.length).map (fdDictAt std fx o'))) else []) := by
    cases isCID with
    | true =>
      simp only [if_true] at hf1 ⊢
      exact index_le _ _ (fdDicts_le std fx o o' h) hf1
    | false => exact ⟨rfl, Nat.le_refl _⟩
  refine ⟨⟨⟨hFd.1, hTop.1⟩, by rw [htop2]; exact hf3⟩, ?_⟩
  apply ble_of_rel2
  rw [htop2]
  have r : ∀ x : Bytes, LenLe x x := fun _ => Nat.le_refl _
  refine rel2_append (rel2_append ?_ (rel2_of_ble (privBlobs_le std fx o o' h))) (.cons (r _) .nil)
  exact .cons (Nat.le_refl 4) (.cons (r _) (.cons hTop.2 (.cons (r _) (.cons (r _) (.cons (r _) (.cons (r _)
    (.cons (r _) (.cons (r _) (.cons hFd.2 .nil)))))))))


/-! ### `Write` settles -/

theorem bigOffs_getD (n i : Nat) (hi : i ≤ n) : (bigOffs n).getD i 0 = ((i : Int) + 1) * 65536 := by
  unfold bigOffs
  simp [List.getD_eq_getElem?_getD, List.getElem?_map, List.getElem?_range (show i < n + 1 by omega)]

/-- no offsets need longer operands than `bigOffs` -/
theorem offLe_big (np : Nat) (o : List Int) : OffLe np o (bigOffs (11 + np)) := by
  constructor
  · intro i hi
    have h5 : lenI ((((i : Nat) : Int) + 1) * 65536) = 5 := lenI_big _ (by omega)
    rw [bigOffs_getD _ _ (by omega), h5]
    exact (lenI_range _).2
  · intro k hk
    have h5 : lenI ((((10 + np : Nat) : Int) + 1) * 65536 - (((10 + k : Nat) : Int) + 1) * 65536) = 5 :=
      lenI_big _ (by omega)
    rw [bigOffs_getD _ _ (by omega), bigOffs_getD _ _ (by omega), h5]
    exact (lenI_range _).2

/-- larger sections give offsets with operands that are not shorter -/
theorem offLe_cumsum (np : Nat) (b b' : List Bytes) (hb : b.length = 11 + np) (h : BLe b b') :
    OffLe np (cumsum b) (cumsum b') := by
  have hb' : b'.length = 11 + np := by rw [← h.1]; exact hb
  constructor
  · intro i hi
    rw [cumsum_secPos b i (by omega), cumsum_secPos b' i (by omega)]
    have := (secPos_diff_mono b b' h i i (Nat.le_refl _) (by omega)).1
    exact lenI_mono _ _ (by omega) (by omega)
  · intro k hk
    rw [cumsum_secPos b _ (by omega), cumsum_secPos b' _ (by omega), cumsum_secPos b _ (by omega),
      cumsum_secPos b' _ (by omega)]
    have h1 := secPos_diff_mono b b' h (10 + np) (10 + k) (by omega) (by omega)
    have h2 := secPos_mono b (10 + k) (10 + np) (by omega)
    exact lenI_mono _ _ (by omega) (by omega)

theorem rel2_nil_left {α : Type} : ∀ (l : List α) (l2 : List Bytes), l.length = l2.length →
    Rel2 LenLe (l.map fun _ => ([] : Bytes)) l2
  | [], [], _ => .nil
  | [], _ :: _, h => absurd h (by simp)
  | _ :: _, [], h => absurd h (by simp)
  | _ :: xs, _ :: ys, h => .cons (Nat.zero_le _) (rel2_nil_left xs ys (by simpa using h))

/-- the first pass does not shrink any section -/
theorem initial_le (std : List String) (isCID : Bool) (fx : Fixed) (sc : Secs) (o : List Int)
    (hsc : StdSecs sc fx.privBase.length) : BLe (initialBlobs fx) (mkBlobs std isCID fx sc o) := by
  rw [mkBlobs_eq std isCID fx sc o hsc]
  apply ble_of_rel2
  unfold initialBlobs
  have r : ∀ x : Bytes, LenLe x x := fun _ => Nat.le_refl _
  have z : ∀ x : Bytes, LenLe [] x := fun _ => Nat.zero_le _
  refine rel2_append (rel2_append ?_ (rel2_nil_left _ _ (by simp [privBlobsAt]))) (.cons (r _) .nil)
  exact .cons (Nat.le_refl 4) (.cons (r _) (.cons (z _) (.cons (z _) (.cons (r _) (.cons (r _) (.cons (r _)
    (.cons (r _) (.cons (r _) (.cons (z _) .nil)))))))))

theorem mkBlobs_length (std : List String) (isCID : Bool) (fx : Fixed) (sc : Secs) (o : List Int)
    (hsc : StdSecs sc fx.privBase.length) : (mkBlobs std isCID fx sc o).length = 11 + fx.privBase.length := by
  rw [mkBlobs_eq std isCID fx sc o hsc]
  simp [privBlobsAt]; omega

/-! ### a closed bound on the number of passes: only the offset operands can grow, by four bytes each -/

def opSlack (o o' : Operand) : Nat :=
  match o, o' with
  | .int v, .int v' => lenI v' - lenI v
  | _, _ => 0

def argsSlack : List Operand → List Operand → Nat
  | a :: as, b :: bs => opSlack a b + argsSlack as bs
  | _, _ => 0

def entsSlack : DictL → DictL → Nat
  | e :: es, e' :: es' => argsSlack e.2 e'.2 + entsSlack es es'
  | _, _ => 0

theorem opSlack_self (o : Operand) : opSlack o o = 0 := by
  cases o <;> simp [opSlack]

theorem argsSlack_self : ∀ a : List Operand, argsSlack a a = 0
  | [] => rfl
  | o :: as => by simp [argsSlack, opSlack_self, argsSlack_self as]

theorem entsSlack_self : ∀ d : DictL, entsSlack d d = 0
  | [] => rfl
  | e :: es => by simp [entsSlack, argsSlack_self, entsSlack_self es]

theorem entsSlack_append : ∀ (a a' b b' : DictL), a.length = a'.length →
    entsSlack (a ++ b) (a' ++ b') = entsSlack a a' + entsSlack b b'
  | [], [], b, b', _ => by simp [entsSlack]
  | [], _ :: _, _, _, h => absurd h (by simp)
  | _ :: _, [], _, _, h => absurd h (by simp)
  | e :: es, e' :: es', b, b', h => by
    simp only [List.cons_append, entsSlack, entsSlack_append es es' b b' (by simpa using h)]
    omega

theorem resolveArgs_slack (std : List String) : ∀ (a a' : List Operand) (c : List String), Rel2 OpLe a a' →
    ((resolveArgs std c a').1.flatMap encodeOperand).length
      ≤ ((resolveArgs std c a).1.flatMap encodeOperand).length + argsSlack a a' := by
  intro a a' c h
  induction h generalizing c with
  | nil => exact Nat.le_refl _
  | @cons o o' l l' ho _ ih =>
    rcases ho with rfl | ⟨v, v', rfl, rfl, hv⟩
    · cases o with
      | str s =>
        simp only [resolveArgs, argsSlack, opSlack]
        have := ih (stringsLookup std c s).2
        simp only [List.flatMap_cons, List.length_append]; omega
      | int v =>
        simp only [resolveArgs, argsSlack, opSlack]
        have := ih c
        simp only [List.flatMap_cons, List.length_append]; omega
      | real n m e =>
        simp only [resolveArgs, argsSlack, opSlack]
        have := ih c
        simp only [List.flatMap_cons, List.length_append]; omega
    · simp only [resolveArgs, argsSlack, opSlack]
      have := ih c
      simp only [List.flatMap_cons, List.length_append, encodeOperand]
      unfold lenI at hv ⊢
      omega

theorem resolveEntries_slack (std : List String) : ∀ (E E' : DictL) (c : List String), Rel2 EntLe E E' →
    (encodeEntries (resolveEntries std c E').1).length
      ≤ (encodeEntries (resolveEntries std c E).1).length + entsSlack E E' := by
  intro E E' c h
  induction h generalizing c with
  | nil => exact Nat.le_refl _
  | @cons e e' l l' he hl ih =>
    obtain ⟨hk, ha⟩ := he
    have h1 := resolveArgs_le std e.2 e'.2 c ha
    have h3 := resolveArgs_slack std e.2 e'.2 c ha
    simp only [resolveEntries, entsSlack]
    rw [h1.1]
    have h2 := ih (resolveArgs std c e'.2).2
    simp only [encodeEntries, List.flatMap_cons, List.length_append] at h2 ⊢
    rw [hk]
    omega

theorem insertByRank_slack (e e' : Nat × List Operand) (he : EntLe e e') : ∀ (l l' : DictL), Rel2 EntLe l l' →
    entsSlack (insertByRank e l) (insertByRank e' l') = argsSlack e.2 e'.2 + entsSlack l l' := by
  intro l l' h
  induction h with
  | nil => simp [insertByRank, entsSlack]
  | @cons x x' t t' hx ht ih =>
    simp only [insertByRank]
    rw [← he.1, ← hx.1]
    split
    · simp [entsSlack]
    · simp only [entsSlack, ih]; omega

theorem sortDict_slack (d d' : DictL) (h : Rel2 EntLe d d') :
    entsSlack (sortDict d) (sortDict d') = entsSlack d d' := by
  unfold sortDict
  have : ∀ (acc acc' : DictL), Rel2 EntLe acc acc' →
      entsSlack (d.foldl (fun acc e => insertByRank e acc) acc) (d'.foldl (fun acc e => insertByRank e acc) acc')
        = entsSlack acc acc' + entsSlack d d' := by
    induction h with
    | nil => intro acc acc' _; simp [entsSlack]
    | cons he _ ih =>
      intro acc acc' ha
      simp only [List.foldl_cons, entsSlack]
      rw [ih _ _ (insertByRank_rel _ _ he _ _ ha), insertByRank_slack _ _ he _ _ ha]
      omega
  have := this [] [] .nil
  simpa [entsSlack] using this

theorem encodeDictS_slack (std c : List String) (d d' : DictL) (h : Rel2 EntLe d d') :
    (encodeDictS std c d').1.length ≤ (encodeDictS std c d).1.length + entsSlack d d' := by
  rw [encodeDictS_eq, encodeDictS_eq, ← sortDict_slack d d' h]
  exact resolveEntries_slack std _ _ c (sortDict_rel d d' h)

theorem opSlack_le (o o' : Operand) : opSlack o o' ≤ 4 := by
  cases o <;> cases o' <;> simp [opSlack]
  rename_i v v'
  have := lenI_range v; have := lenI_range v'; omega


theorem argsSlack_le : ∀ (a a' : List Operand), argsSlack a a' ≤ 4 * a.length
  | [], _ => by simp [argsSlack]
  | _ :: _, [] => by simp [argsSlack]
  | o :: as, o' :: bs => by
    have := opSlack_le o o'
    have := argsSlack_le as bs
    simp only [argsSlack, List.length_cons]; omega

theorem entsSlack_tail (base : DictL) (k : Nat) (a a' : List Operand) :
    entsSlack (base ++ [(k, a)]) (base ++ [(k, a')]) ≤ 4 * a.length := by
  rw [entsSlack_append _ _ _ _ rfl, entsSlack_self]
  have := argsSlack_le a a'
  simp [entsSlack]; omega

theorem privBlob_slack (std : List String) (fx : Fixed) (o o' : List Int) (h : OffLe fx.privBase.length o o')
    (i : Nat) (hi : i < fx.privBase.length) :
    (privBlobAt std fx o' i).length ≤ (privBlobAt std fx o i).length + 4 := by
  unfold privBlobAt
  have h1 := encodeDictS_slack std [] _ _
    (rel2_append (entLe_refl_list (fx.privBase.getD i [])) (.cons (entLe_mk 19 _ _ (.cons (intOp_le _ _ (h.2 i hi)) .nil)) .nil))
  have h2 := entsSlack_tail (fx.privBase.getD i []) 19
    [.int (o.getD (10 + fx.privBase.length) 0 - o.getD (10 + i) 0)]
    [.int (o'.getD (10 + fx.privBase.length) 0 - o'.getD (10 + i) 0)]
  simp only [List.length_singleton] at h2
  omega

theorem fdDict_slack (std : List String) (fx : Fixed) (o o' : List Int) (h : OffLe fx.privBase.length o o')
    (i : Nat) (hi : i < fx.privBase.length) :
    (fdDictAt std fx o' i).length ≤ (fdDictAt std fx o i).length + 8 := by
  unfold fdDictAt
  have h1 := encodeDictS_slack std [] _ _
    (rel2_append (entLe_refl_list (fx.fdBase.getD i [])) (.cons (entLe_mk 18 _ _ (pdDesc_le std fx o o' h i hi)) .nil))
  have h2 := entsSlack_tail (fx.fdBase.getD i []) 18 (pdDescAt std fx o i) (pdDescAt std fx o' i)
  have : (pdDescAt std fx o i).length = 2 := rfl
  omega

theorem slack6 (a b b' c c' d d' e e' f f' : DictL) (hb : b.length = b'.length) (hc : c.length = c'.length)
    (hd : d.length = d'.length) (he : e.length = e'.length) :
    entsSlack (a ++ b ++ c ++ d ++ e ++ f) (a ++ b' ++ c' ++ d' ++ e' ++ f')
      = entsSlack b b' + entsSlack c c' + entsSlack d d' + entsSlack e e' + entsSlack f f' := by
  rw [entsSlack_append _ _ _ _ (by simp only [List.length_append, hb, hc, hd, he]),
    entsSlack_append _ _ _ _ (by simp only [List.length_append, hb, hc, hd]),
    entsSlack_append _ _ _ _ (by simp only [List.length_append, hb, hc]),
    entsSlack_append _ _ _ _ (by simp only [List.length_append, hb]),
    entsSlack_append _ _ _ _ rfl, entsSlack_self]
  omega

theorem top_slack (std : List String) (isCID : Bool) (fx : Fixed) (o o' : List Int) :
    entsSlack (topAt std isCID fx o) (topAt std isCID fx o') ≤ 28 := by
  have one : ∀ (k : Nat) (a a' : List Operand), entsSlack [(k, a)] [(k, a')] ≤ 4 * a.length := by
    intro k a a'
    have := argsSlack_le a a'
    simp [entsSlack]; omega
  have hp : (if isCID then [] else
        (if fx.privBase.length > 0 then [(18, pdDescAt std fx o (fx.privBase.length - 1))] else [])).length
      = (if isCID then [] else
        (if fx.privBase.length > 0 then [(18, pdDescAt std fx o' (fx.privBase.length - 1))] else [])).length ∧
      entsSlack
      (if isCID then [] else
        (if fx.privBase.length > 0 then [(18, pdDescAt std fx o (fx.privBase.length - 1))] else []))
      (if isCID then [] else
        (if fx.privBase.length > 0 then [(18, pdDescAt std fx o' (fx.privBase.length - 1))] else [])) ≤ 8 := by
    cases isCID with
    | true => simp [entsSlack]
    | false =>
      simp only [Bool.false_eq_true, if_false]
      split
      · have := one 18 (pdDescAt std fx o (fx.privBase.length - 1)) (pdDescAt std fx o' (fx.privBase.length - 1))
        have h2 : (pdDescAt std fx o (fx.privBase.length - 1)).length = 2 := rfl
        exact ⟨rfl, by omega⟩
      · simp [entsSlack]
  have h15 := one 15 [.int (o.getD 6 0)] [.int (o'.getD 6 0)]
  have h17 := one 17 [.int (o.getD 8 0)] [.int (o'.getD 8 0)]
  have h16 := one 16 [.int (o.getD 5 0)] [.int (o'.getD 5 0)]
  have h7 := opSlack_le (.int (o.getD 7 0)) (.int (o'.getD 7 0))
  have h9 := opSlack_le (.int (o.getD 9 0)) (.int (o'.getD 9 0))
  simp only [List.length_singleton] at h15 h17 h16
  unfold topAt
  cases fx.encoding <;> cases fx.fdSelect <;> simp only <;> rw [slack6 (hb := hp.1)]
  all_goals first
    | rfl
    | (simp only [entsSlack_self, entsSlack, argsSlack] at *; omega)

theorem chooseOffSize_pos (a : Nat) : 1 ≤ chooseOffSize a := by
  unfold chooseOffSize
  repeat' split
  all_goals omega

theorem index_slack (a b : List Bytes) (h : BLe a b) (hb : idxOk b = true) :
    (outOk (indexEncode b)).length + bodyLength a
      ≤ (outOk (indexEncode a)).length + 3 * (a.length + 1) + bodyLength b := by
  by_cases hne : a = []
  · subst hne
    have : b = [] := List.eq_nil_of_length_eq_zero h.1.symm
    subst this
    omega
  · have hbne : b ≠ [] := by
      intro h0; subst h0; exact hne (List.eq_nil_of_length_eq_zero h.1)
    obtain ⟨h1, h2⟩ := idxOk_bounds b hb hbne
    have ha := (index_le a b h hb).1
    rw [index_len a ha hne, index_len b hb hbne, h.1]
    have p1 := chooseOffSize_pos (bodyLength a)
    have p2 := (chooseOffSize_le_iff (bodyLength b)).mpr h2
    have m1 : (b.length + 1) * chooseOffSize (bodyLength b) ≤ (b.length + 1) * 4 := Nat.mul_le_mul_left _ p2
    have m2 : (b.length + 1) * 1 ≤ (b.length + 1) * chooseOffSize (bodyLength a) := Nat.mul_le_mul_left _ p1
    omega

theorem bodyLength_slack {α : Type} (g g' : α → Bytes) (c : Nat) : ∀ (l : List α),
    (∀ x ∈ l, (g' x).length ≤ (g x).length + c) → bodyLength (l.map g') ≤ bodyLength (l.map g) + c * l.length
  | [], _ => by simp [bodyLength]
  | x :: xs, h => by
    have h1 := h x (List.mem_cons_self ..)
    have h2 := bodyLength_slack g g' c xs (fun y hy => h y (List.mem_cons_of_mem _ hy))
    simp only [bodyLength, List.map_cons, List.sum_cons, List.length_cons, Nat.mul_succ] at h2 ⊢
    omega

theorem secPos_app (A P : List Bytes) (x : Bytes) :
    secPos (A ++ P ++ [x]) (A.length + P.length) = bodyLength A + bodyLength P := by
  unfold secPos
  have : (A ++ P ++ [x]).take (A.length + P.length) = A ++ P := by
    rw [← List.length_append]; exact List.take_left' rfl
  rw [this, length_flatten_eq]
  simp [bodyLength, List.map_append, List.sum_append]

theorem secPos_app10 (A P : List Bytes) (x : Bytes) (hA : A.length = 10) (np : Nat) (hP : P.length = np) :
    secPos (A ++ P ++ [x]) (10 + np) = bodyLength A + bodyLength P := by
  rw [← hA, ← hP]; exact secPos_app A P x

/-- with longer offset operands the last section moves by at most 37 + 15 bytes per private DICT -/
theorem lastSection_slack (std : List String) (isCID : Bool) (fx : Fixed) (sc : Secs) (o o' : List Int)
    (hsc : StdSecs sc fx.privBase.length) (h : OffLe fx.privBase.length o o')
    (hfit : mkBlobsFits std isCID fx sc o' = true) :
    secPos (mkBlobs std isCID fx sc o') (sc.num - 1)
      ≤ secPos (mkBlobs std isCID fx sc o) (sc.num - 1) + 37 + 15 * fx.privBase.length := by
  have hnum : sc.num = 11 + fx.privBase.length := hsc.2.2.2.2.2
  rw [mkBlobsFits_eq std isCID fx sc o' hsc] at hfit
  rw [mkBlobs_eq std isCID fx sc o hsc, mkBlobs_eq std isCID fx sc o' hsc]
  simp only [Bool.and_eq_true] at hfit
  obtain ⟨⟨hf1, hf2⟩, hf3⟩ := hfit
  obtain ⟨htop2, htop1⟩ := encodeDictS_le std fx.custom0 _ _ (top_le std isCID fx o o' h)
  have htopS := encodeDictS_slack std fx.custom0 _ _ (top_le std isCID fx o o' h)
  have hts := top_slack std isCID fx o o'
  have hTop := index_slack [(encodeDictS std fx.custom0 (topAt std isCID fx o)).1]
    [(encodeDictS std fx.custom0 (topAt std isCID fx o')).1] (ble_of_rel2 (.cons htop1 .nil)) hf2
  simp only [bodyLength, List.map_cons, List.map_nil, List.sum_cons, List.sum_nil, List.length_singleton] at hTop
  have hP := bodyLength_slack (privBlobAt std fx o) (privBlobAt std fx o') 4 (List.range fx.privBase.length)
    (fun i hi => privBlob_slack std fx o o' h i (List.mem_range.mp hi))
  have hFd : (if isCID = true then outOk (indexEncode ((List.range fx.privBase.length).map (fdDictAt std fx o'))) else []).length
      ≤ (if isCID = true then outOk (indexEncode ((List.range fx.privBase.length).map (fdDictAt std fx o))) else []).length
        + 3 + 11 * fx.privBase.length := by
    cases isCID with
    | true =>
      simp only [if_true] at hf1 ⊢
      have h1 := index_slack _ _ (fdDicts_le std fx o o' h) hf1
      have h2 := bodyLength_slack (fdDictAt std fx o) (fdDictAt std fx o') 8 (List.range fx.privBase.length)
        (fun i hi => fdDict_slack std fx o o' h i (List.mem_range.mp hi))
      simp only [List.length_map, List.length_range] at h1 h2
      omega
    | false => simp
  have lp : ∀ q, (privBlobsAt std fx q).length = fx.privBase.length := by intro q; simp [privBlobsAt]
  rw [show sc.num - 1 = 10 + fx.privBase.length by omega, secPos_app10 _ _ _ rfl _ (lp o'),
    secPos_app10 _ _ _ rfl _ (lp o), htop2]
  simp only [bodyLength, List.map_cons, List.map_nil, List.sum_cons, List.sum_nil, List.length_cons, List.length_nil]
  simp only [bodyLength, privBlobsAt, List.length_range] at hP ⊢
  omega

/-- The offset loop of `Write` reaches its fixed point: provided the Top DICT, the string INDEX and
the FDArray fit an INDEX even when every offset operand takes five bytes (`hfit`; otherwise the Go
code panics in `cffIndex.encode`), `writeLoop` with fuel `writeFuel` = 40 + 15·(number of private
DICTs) returns after at most 39 + 15·(number of private DICTs) passes, and the INDEXes of the final
pass fit. -/
theorem write_settles (std : List String) (isCID : Bool) (fx : Fixed) (sc : Secs)
    (hsc : StdSecs sc fx.privBase.length)
    (hfit : mkBlobsFits std isCID fx sc (bigOffs sc.num) = true) :
    ∃ blobs offs k, writeLoop (mkBlobs std isCID fx sc) sc.num (writeFuel fx)
        (cumsum (initialBlobs fx)) 0 = some (blobs, offs, k) ∧
      mkBlobsFits std isCID fx sc offs = true ∧ k ≤ 39 + 15 * fx.privBase.length := by
  have hnum : sc.num = 11 + fx.privBase.length := hsc.2.2.2.2.2
  have hslack := lastSection_slack std isCID fx sc (cumsum (initialBlobs fx)) (bigOffs sc.num) hsc
    (by rw [hnum]; exact offLe_big _ _) hfit
  rw [hnum] at hfit hslack ⊢
  have hfitAll : ∀ b : List Bytes, mkBlobsFits std isCID fx sc (cumsum b) = true ∧
      BLe (mkBlobs std isCID fx sc (cumsum b)) (mkBlobs std isCID fx sc (bigOffs (11 + fx.privBase.length))) :=
    fun b => mkBlobs_le std isCID fx sc _ _ hsc (offLe_big _ _) hfit
  have hinitLen : (initialBlobs fx).length = 11 + fx.privBase.length := by
    simp [initialBlobs]; omega
  have hlen := fun o => mkBlobs_length std isCID fx sc o hsc
  have hmono : ∀ b b', b.length = 11 + fx.privBase.length → BLe b b' →
      BLe (mkBlobs std isCID fx sc (cumsum b)) (mkBlobs std isCID fx sc (cumsum b')) :=
    fun b b' hb hle => (mkBlobs_le std isCID fx sc _ _ hsc (offLe_cumsum _ b b' hb hle) (hfitAll b').1).2
  have hU : ∀ b, b.length = 11 + fx.privBase.length →
      secPos (mkBlobs std isCID fx sc (cumsum b)) (11 + fx.privBase.length - 1)
        ≤ secPos (mkBlobs std isCID fx sc (bigOffs (11 + fx.privBase.length))) (11 + fx.privBase.length - 1) :=
    fun b hb => (secPos_diff_mono _ _ (hfitAll b).2 _ _ (Nat.le_refl _) (by rw [hlen]; omega)).1
  have hinit := initial_le std isCID fx sc (cumsum (initialBlobs fx)) hsc
  have hfuel : writeFuel fx = (39 + 15 * fx.privBase.length) + 1 := by unfold writeFuel; omega
  rw [hfuel]
  simp only [writeLoop]
  by_cases hs : sameOffs (11 + fx.privBase.length) (cumsum (mkBlobs std isCID fx sc (cumsum (initialBlobs fx))))
      (cumsum (initialBlobs fx)) = true
  · rw [if_pos hs]
    exact ⟨_, _, _, rfl, (hfitAll _).1, by omega⟩
  · rw [if_neg hs]
    obtain ⟨blobs, b', k, hb', hw, hk⟩ := writeLoop_converges (mkBlobs std isCID fx sc) (11 + fx.privBase.length)
      (secPos (mkBlobs std isCID fx sc (bigOffs (11 + fx.privBase.length))) (11 + fx.privBase.length - 1)) (by omega)
      hlen hmono hU (39 + 15 * fx.privBase.length)
      (mkBlobs std isCID fx sc (cumsum (initialBlobs fx))) (0 + 1) (hlen _) (hmono _ _ hinitLen hinit) (by omega)
    exact ⟨blobs, cumsum b', k, hw, (hfitAll b').1, by omega⟩

theorem prepare_secs (std : List String) (f : FontIn) (fx : Fixed) (sc : Secs) (h : prepare std f = .ok (fx, sc)) :
    StdSecs sc fx.privBase.length := by
  unfold prepare at h
  simp only at h
  split at h
  · cases h
  · cases h
  · split at h
    · cases h
    · cases h
    · split at h
      · cases h
      · injection h with h
        injection h with h1 h2
        subst h1; subst h2
        simpa using stdSecs_mkSecs f

theorem prepare_privs (std : List String) (f : FontIn) (fx : Fixed) (sc : Secs) (h : prepare std f = .ok (fx, sc)) :
    fx.privBase.length = f.privs.length := by
  unfold prepare at h
  simp only at h
  split at h
  · cases h
  · cases h
  · split at h
    · cases h
    · cases h
    · split at h
      · cases h
      · injection h with h
        injection h with h1 h2
        subst h1
        simp

/-- `Write` never runs out of passes: whenever the part before the loop succeeds and the INDEXes fit
with five-byte offset operands, the model of `(*Font).Write` returns a file, after at most
39 + 15·(number of private DICTs) passes. -/
theorem writeFont_ok (std : List String) (f : FontIn) (fx : Fixed) (sc : Secs) (hprep : prepare std f = .ok (fx, sc))
    (hfit : mkBlobsFits std f.ros.isSome fx sc (bigOffs sc.num) = true) :
    ∃ file k, writeFont std f = .ok (file, k) ∧ k ≤ 39 + 15 * f.privs.length := by
  obtain ⟨blobs, offs, k, hw, hf, hk⟩ := write_settles std f.ros.isSome fx sc (prepare_secs std f fx sc hprep) hfit
  rw [prepare_privs std f fx sc hprep] at hk
  refine ⟨blobs.flatten, k, ?_, hk⟩
  unfold writeFont
  rw [hprep]
  simp only [hw, hf, if_true]

/-- the INDEXes written inside the loop fit even with five-byte offset operands everywhere (if not,
`cffIndex.encode` panics in the Go code: more than 4 GiB of DICT or string data) -/
def writeFits (std : List String) (f : FontIn) : Bool :=
  match prepare std f with
  | .ok (fx, sc) => mkBlobsFits std f.ros.isSome fx sc (bigOffs sc.num)
  | _ => true

theorem writeFont_ok' (std : List String) (f : FontIn) (fx : Fixed) (sc : Secs) (hprep : prepare std f = .ok (fx, sc))
    (hfit : writeFits std f = true) : ∃ file k, writeFont std f = .ok (file, k) := by
  unfold writeFits at hfit
  rw [hprep] at hfit
  obtain ⟨file, k, h, _⟩ := writeFont_ok std f fx sc hprep hfit
  exact ⟨file, k, h⟩

/-- the part of `Write` before the loop succeeds for a simple font in the domain whose encoding was accepted -/
theorem simple_prepare_ok (std : List String) (f : FontIn) (p : PrivIn) (hd : SimpleDom std f p)
    (henc : ∃ r, encPlan std f = .ok r) : ∃ fx sc, prepare std f = .ok (fx, sc) := by
  obtain ⟨⟨encB, expert⟩, henc⟩ := henc
  have hi1 : idxOk [f.fontName] = true := idxOk_of_bounds _ (by simp) (by simp [bodyLength]; exact hd.nameLen)
  have hi2 : idxOk f.charStrings = true :=
    idxOk_of_bounds _ (by have := hd.nGlyphs; have := hd.nMax; omega) hd.csBody
  obtain ⟨sb1, sb2, sb3⟩ := stringsLookupAll_bound std f.names []
  have hnotdef := hd.notdef
  have hnMax := hd.nMax
  have hcs : ∃ cs, encodeCharset ((stringsLookupAll std [] f.names).1.map fun (n : Nat) => (n : Int)) = .ok cs := by
    generalize (stringsLookupAll std [] f.names).1 = sids at *
    obtain ⟨tl, htl⟩ : ∃ tl, sids = 0 :: tl := by
      cases sids with
      | nil => simp at hnotdef
      | cons a b => simp at hnotdef; exact ⟨b, by rw [hnotdef]⟩
    have hcsR := readCharset_encodeCharset (tl.map fun (n : Nat) => (n : Int))
      (by simp only [List.length_map]; rw [htl] at sb3; simp at sb3; omega)
      (by
        intro x hx
        obtain ⟨n, hn, rfl⟩ := List.mem_map.mp hx
        have := sb1 n (by rw [htl]; exact List.mem_cons_of_mem _ hn)
        simp only [List.length_nil] at *
        omega)
      [] []
    obtain ⟨bs, hbs1, _⟩ := hcsR
    exact ⟨bs, by rw [htl]; exact hbs1⟩
  obtain ⟨cs, hcs⟩ := hcs
  exact ⟨_, _, prepare_simple std f hd.ros encB expert henc cs hcs hi1 hi2⟩


/-- the part of `Write` before the loop succeeds for a CID-keyed font in the domain -/
theorem cid_prepare_ok (std : List String) (f : FontIn) (r o : String) (sup : Int) (hd : CidDom std f r o sup) :
    ∃ fx sc, prepare std f = .ok (fx, sc) := by
  have hi1 : idxOk [f.fontName] = true := idxOk_of_bounds _ (by simp) (by simp [bodyLength]; exact hd.nameLen)
  have hi2 : idxOk f.charStrings = true := idxOk_of_bounds _ hd.nMax hd.csBody
  obtain ⟨tl, htl⟩ : ∃ tl, f.cids = 0 :: tl := by
    have := hd.notdef
    cases hc : f.cids with
    | nil => rw [hc] at this; simp at this
    | cons a b => rw [hc] at this; simp at this; exact ⟨b, by rw [this]⟩
  obtain ⟨bs, hbs1, _⟩ := readCharset_encodeCharset tl
    (by have := hd.nCids; rw [htl] at this; simp at this; have := hd.nMax; omega)
    (by intro x hx; exact hd.cidR x (by rw [htl]; exact List.mem_cons_of_mem _ hx))
    [] []
  exact ⟨_, _, prepare_cid std f r o sup hd.ros bs (by rw [htl]; exact hbs1) hi1 hi2⟩



end SfntV.Cff
