/-
The offset fixed point of `(*Font).Write` settles: the section sizes depend on the offsets only
through the encoded length of the offset operands, which is monotone; the offset of the last
section strictly grows in every pass that is not the last one, and it is bounded.
-/
import SfntV.Proofs.CffFontRt

namespace SfntV.Cff
open SfntV

/-! ### the loop, abstractly -/

/-- pointwise comparison of section sizes -/
def BLe (a b : List Bytes) : Prop := a.length = b.length ∧ ∀ i, (a.getD i []).length ≤ (b.getD i []).length

theorem BLe.refl (a : List Bytes) : BLe a a := ⟨rfl, fun _ => Nat.le_refl _⟩

theorem cumsum_go_length (blobs : List Bytes) : ∀ acc, (cumsum.go blobs acc).length = blobs.length + 1 := by
  induction blobs with
  | nil => intro acc; simp [cumsum.go]
  | cons b bs ih => intro acc; simp [cumsum.go, ih]

theorem cumsum_length (blobs : List Bytes) : (cumsum blobs).length = blobs.length + 1 := by
  simp [cumsum, cumsum_go_length]

theorem cumsum_secPos (blobs : List Bytes) (i : Nat) (hi : i ≤ blobs.length) :
    (cumsum blobs).getD i 0 = (secPos blobs i : Int) := cumsum_getD blobs i hi

/-- the growth of a position is the sum of the growths of the sections before it -/
theorem secPos_diff_mono (a b : List Bytes) (h : BLe a b) : ∀ (m j : Nat), j ≤ m → m ≤ a.length →
    secPos a j ≤ secPos b j ∧ secPos a m + secPos b j ≤ secPos b m + secPos a j := by
  intro m
  induction m with
  | zero =>
    intro j hj _
    have : j = 0 := by omega
    subst this
    simp [secPos]
  | succ m ih =>
    intro j hj hm
    have h1 := secPos_succ a m (by omega)
    have h2 := secPos_succ b m (by rw [← h.1]; omega)
    have h3 := h.2 m
    by_cases hjm : j = m + 1
    · subst hjm
      have := ih m (Nat.le_refl _) (by omega)
      constructor <;> omega
    · have := ih j (by omega) (by omega)
      constructor <;> omega

theorem take_eq_of_getD (a b : List Int) (n : Nat) (ha : n ≤ a.length) (hb : n ≤ b.length)
    (h : ∀ j, j < n → a.getD j 0 = b.getD j 0) : a.take n = b.take n := by
  apply List.ext_getElem
  · simp [List.length_take, Nat.min_eq_left ha, Nat.min_eq_left hb]
  · intro j h1 h2
    simp only [List.length_take] at h1
    have hj : j < n := by omega
    have := h j hj
    simp only [List.getD_eq_getElem?_getD, List.getElem?_eq_getElem (show j < a.length by omega),
      List.getElem?_eq_getElem (show j < b.length by omega), Option.getD_some] at this
    simp [List.getElem_take, this]

/-- a pass that is not the last one moves the last section -/
theorem grows_of_not_same (a b : List Bytes) (n : Nat) (hn : 1 ≤ n) (hla : a.length = n) (h : BLe a b)
    (hs : sameOffs n (cumsum b) (cumsum a) = false) : secPos a (n - 1) < secPos b (n - 1) := by
  have hlb : b.length = n := by rw [← h.1]; exact hla
  apply Classical.byContradiction
  intro hcon
  have hall : ∀ j, j < n → (cumsum b).getD j 0 = (cumsum a).getD j 0 := by
    intro j hj
    rw [cumsum_secPos b j (by omega), cumsum_secPos a j (by omega)]
    have := secPos_diff_mono a b h (n - 1) j (by omega) (by omega)
    omega
  have := take_eq_of_getD (cumsum b) (cumsum a) n (by rw [cumsum_length]; omega) (by rw [cumsum_length]; omega) hall
  simp [sameOffs, this] at hs

/-- the loop ends: sizes monotone in the sizes of the previous pass, last offset bounded -/
theorem writeLoop_converges (mk : List Int → List Bytes) (n U : Nat) (hn : 1 ≤ n)
    (hlen : ∀ offs, (mk offs).length = n)
    (hmono : ∀ b b', b.length = n → BLe b b' → BLe (mk (cumsum b)) (mk (cumsum b')))
    (hU : ∀ b, b.length = n → secPos (mk (cumsum b)) (n - 1) ≤ U) :
    ∀ (fuel : Nat) (b : List Bytes) (k : Nat), b.length = n → BLe b (mk (cumsum b)) →
      U < secPos b (n - 1) + fuel → ∃ r, writeLoop mk n fuel (cumsum b) k = some r := by
  intro fuel
  induction fuel with
  | zero =>
    intro b k hb hle hf
    exfalso
    have h1 := (secPos_diff_mono b _ hle (n - 1) (n - 1) (Nat.le_refl _) (by omega)).1
    have h2 := hU b hb
    omega
  | succ fuel ih =>
    intro b k hb hle hf
    simp only [writeLoop]
    by_cases hs : sameOffs n (cumsum (mk (cumsum b))) (cumsum b) = true
    · rw [if_pos hs]; exact ⟨_, rfl⟩
    · rw [if_neg hs]
      have hs' : sameOffs n (cumsum (mk (cumsum b))) (cumsum b) = false := by
        cases h : sameOffs n (cumsum (mk (cumsum b))) (cumsum b) <;> simp_all
      have hg := grows_of_not_same b (mk (cumsum b)) n hn hb hle hs'
      exact ih (mk (cumsum b)) (k + 1) (hlen _) (hmono b _ hb hle) (by omega)

/-! ### DICT sizes are monotone in the encoded length of their integer operands -/

def lenI (v : Int) : Nat := (encodeInt v).length

theorem lenI_range (v : Int) : 1 ≤ lenI v ∧ lenI v ≤ 5 := by
  unfold lenI encodeInt
  split
  · simp
  · split
    · simp
    · split
      · simp
      · split <;> simp

theorem lenI_eq (v : Int) : lenI v =
    if -107 ≤ v ∧ v ≤ 107 then 1 else if -1131 ≤ v ∧ v ≤ 1131 then 2 else if -32768 ≤ v ∧ v ≤ 32767 then 3 else 5 := by
  unfold lenI encodeInt
  by_cases h1 : -107 ≤ v ∧ v ≤ 107
  · rw [if_pos h1, if_pos h1]; rfl
  · rw [if_neg h1, if_neg h1]
    by_cases h2 : 108 ≤ v ∧ v ≤ 1131
    · have g : -1131 ≤ v ∧ v ≤ 1131 := by omega
      rw [if_pos h2, if_pos g]; rfl
    · rw [if_neg h2]
      by_cases h3 : -1131 ≤ v ∧ v ≤ -108
      · have g : -1131 ≤ v ∧ v ≤ 1131 := by omega
        rw [if_pos h3, if_pos g]; rfl
      · have g : ¬ (-1131 ≤ v ∧ v ≤ 1131) := by omega
        rw [if_neg h3, if_neg g]
        by_cases h4 : -32768 ≤ v ∧ v ≤ 32767
        · rw [if_pos h4, if_pos h4]; rfl
        · rw [if_neg h4, if_neg h4]; rfl

theorem lenI_mono (v v' : Int) (h0 : 0 ≤ v) (h : v ≤ v') : lenI v ≤ lenI v' := by
  rw [lenI_eq, lenI_eq]
  repeat' split
  all_goals omega

theorem lenI_big (v : Int) (h : 32768 ≤ v) : lenI v = 5 := by
  have g1 : ¬ (-107 ≤ v ∧ v ≤ 107) := by omega
  have g2 : ¬ (-1131 ≤ v ∧ v ≤ 1131) := by omega
  have g3 : ¬ (-32768 ≤ v ∧ v ≤ 32767) := by omega
  rw [lenI_eq, if_neg g1, if_neg g2, if_neg g3]

/-- the same operand, or two integers of which the second is not shorter -/
def OpLe (o o' : Operand) : Prop := o = o' ∨ ∃ v v', o = .int v ∧ o' = .int v' ∧ lenI v ≤ lenI v'

def EntLe (e e' : Nat × List Operand) : Prop := e.1 = e'.1 ∧ Rel2 OpLe e.2 e'.2

theorem rel2_refl {α : Type} {R : α → α → Prop} (hr : ∀ a, R a a) : ∀ l : List α, Rel2 R l l
  | [] => .nil
  | a :: l => .cons (hr a) (rel2_refl hr l)

theorem rel2_append {α β : Type} {R : α → β → Prop} {a1 a2 : List α} {b1 b2 : List β}
    (h1 : Rel2 R a1 b1) (h2 : Rel2 R a2 b2) : Rel2 R (a1 ++ a2) (b1 ++ b2) := by
  induction h1 with
  | nil => exact h2
  | cons h _ ih => exact .cons h ih

theorem OpLe.refl (o : Operand) : OpLe o o := Or.inl rfl
theorem EntLe.refl (e : Nat × List Operand) : EntLe e e := ⟨rfl, rel2_refl OpLe.refl _⟩
theorem entLe_refl_list (d : DictL) : Rel2 EntLe d d := rel2_refl EntLe.refl d

theorem resolveArgs_le (std : List String) : ∀ (a a' : List Operand) (c : List String), Rel2 OpLe a a' →
    (resolveArgs std c a).2 = (resolveArgs std c a').2 ∧
    ((resolveArgs std c a).1.flatMap encodeOperand).length ≤ ((resolveArgs std c a').1.flatMap encodeOperand).length := by
  intro a a' c h
  induction h generalizing c with
  | nil => exact ⟨rfl, Nat.le_refl _⟩
  | @cons o o' l l' ho _ ih =>
    rcases ho with rfl | ⟨v, v', rfl, rfl, hv⟩
    · cases o with
      | str s =>
        simp only [resolveArgs]
        have := ih (stringsLookup std c s).2
        exact ⟨this.1, by simp only [List.flatMap_cons, List.length_append]; omega⟩
      | int v =>
        simp only [resolveArgs]
        have := ih c
        exact ⟨this.1, by simp only [List.flatMap_cons, List.length_append]; omega⟩
      | real n m e =>
        simp only [resolveArgs]
        have := ih c
        exact ⟨this.1, by simp only [List.flatMap_cons, List.length_append]; omega⟩
    · simp only [resolveArgs]
      have := ih c
      refine ⟨this.1, ?_⟩
      simp only [List.flatMap_cons, List.length_append, encodeOperand]
      unfold lenI at hv
      omega

theorem resolveEntries_le (std : List String) : ∀ (E E' : DictL) (c : List String), Rel2 EntLe E E' →
    (resolveEntries std c E).2 = (resolveEntries std c E').2 ∧
    (encodeEntries (resolveEntries std c E).1).length ≤ (encodeEntries (resolveEntries std c E').1).length := by
  intro E E' c h
  induction h generalizing c with
  | nil => exact ⟨rfl, Nat.le_refl _⟩
  | @cons e e' l l' he _ ih =>
    obtain ⟨hk, ha⟩ := he
    have h1 := resolveArgs_le std e.2 e'.2 c ha
    simp only [resolveEntries]
    rw [h1.1]
    have h2 := ih (resolveArgs std c e'.2).2
    refine ⟨h2.1, ?_⟩
    simp only [encodeEntries, List.flatMap_cons, List.length_append] at h2 ⊢
    rw [hk]
    omega

theorem insertByRank_rel (e e' : Nat × List Operand) (he : EntLe e e') : ∀ (l l' : DictL), Rel2 EntLe l l' →
    Rel2 EntLe (insertByRank e l) (insertByRank e' l') := by
  intro l l' h
  induction h with
  | nil => exact .cons he .nil
  | @cons x x' t t' hx ht ih =>
    simp only [insertByRank]
    rw [← he.1, ← hx.1]
    split
    · exact .cons he (.cons hx ht)
    · exact .cons hx ih

theorem sortDict_rel (d d' : DictL) (h : Rel2 EntLe d d') : Rel2 EntLe (sortDict d) (sortDict d') := by
  unfold sortDict
  have : ∀ (acc acc' : DictL), Rel2 EntLe acc acc' →
      Rel2 EntLe (d.foldl (fun acc e => insertByRank e acc) acc) (d'.foldl (fun acc e => insertByRank e acc) acc') := by
    induction h with
    | nil => intro acc acc' ha; exact ha
    | cons he _ ih => intro acc acc' ha; exact ih _ _ (insertByRank_rel _ _ he _ _ ha)
  exact this [] [] .nil

/-- `cffDict.encode`: same string table afterwards, and a length that is monotone in the operand lengths -/
theorem encodeDictS_le (std c : List String) (d d' : DictL) (h : Rel2 EntLe d d') :
    (encodeDictS std c d).2 = (encodeDictS std c d').2 ∧
    (encodeDictS std c d).1.length ≤ (encodeDictS std c d').1.length := by
  rw [encodeDictS_eq, encodeDictS_eq]
  exact resolveEntries_le std _ _ c (sortDict_rel d d' h)


/-! ### INDEX sizes -/

theorem index_len (blobs : List Bytes) (h : idxOk blobs = true) (hne : blobs ≠ []) :
    (outOk (indexEncode blobs)).length
      = 3 + (blobs.length + 1) * chooseOffSize (bodyLength blobs) + bodyLength blobs := by
  obtain ⟨h1, h2⟩ := idxOk_bounds blobs h hne
  have hl : ¬ blobs.length = 0 := fun h0 => hne (List.eq_nil_of_length_eq_zero h0)
  have h4 : ¬ chooseOffSize (bodyLength blobs) > 4 := by
    have := (chooseOffSize_le_iff (bodyLength blobs)).mpr h2; omega
  unfold indexEncode
  rw [if_neg (by omega), if_neg hl]
  simp only [h4, if_false, outOk, List.length_append, length_flatMap_beN, offsetsFrom_length, length_flatten_eq,
    List.length_singleton]
  have : (be16 blobs.length).length = 2 := by simp [be16]
  omega

theorem chooseOffSize_mono (a b : Nat) (h : a ≤ b) : chooseOffSize a ≤ chooseOffSize b := by
  unfold chooseOffSize
  repeat' split
  all_goals omega

theorem bodyLength_le (a b : List Bytes) (h : BLe a b) : bodyLength a ≤ bodyLength b := by
  obtain ⟨hl, hp⟩ := h
  induction a generalizing b with
  | nil => simp [bodyLength]
  | cons x xs ih =>
    cases b with
    | nil => simp at hl
    | cons y ys =>
      have h0 := hp 0
      simp only [List.getD_cons_zero] at h0
      have := ih ys (by simpa using hl) (fun i => by have := hp (i + 1); simpa using this)
      simp only [bodyLength, List.map_cons, List.sum_cons] at this ⊢
      omega

/-- a smaller list of blobs fits if the larger one does, and its INDEX is not longer -/
theorem index_le (a b : List Bytes) (h : BLe a b) (hb : idxOk b = true) :
    idxOk a = true ∧ (outOk (indexEncode a)).length ≤ (outOk (indexEncode b)).length := by
  by_cases hne : a = []
  · subst hne
    have : b = [] := List.eq_nil_of_length_eq_zero h.1.symm
    subst this
    exact ⟨hb, Nat.le_refl _⟩
  · have hbne : b ≠ [] := by
      intro h0; subst h0; exact hne (List.eq_nil_of_length_eq_zero h.1)
    obtain ⟨h1, h2⟩ := idxOk_bounds b hb hbne
    have hbody := bodyLength_le a b h
    have ha : idxOk a = true := idxOk_of_bounds a (by rw [h.1]; exact h1) (by omega)
    refine ⟨ha, ?_⟩
    rw [index_len a ha hne, index_len b hb hbne, h.1]
    have := chooseOffSize_mono _ _ hbody
    have := Nat.mul_le_mul_left (b.length + 1) this
    omega


end SfntV.Cff
