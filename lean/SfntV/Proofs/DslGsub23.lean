/-
C19 — GSUB 2 and GSUB 3: subtable fragments, forms and the round-trip theorems
`roundtrip_gsub2`, `roundtrip_gsub3` for every font of the domain.
-/
import SfntV.Proofs.DslForms
set_option linter.unusedSimpArgs false
set_option linter.unusedVariables false
namespace SfntV.Dsl

theorem writeGlyph_typ (e : Explainer) (g : Nat) :
    ∃ typ val, e.writeGlyph g = .tok typ val ∧ (typ = tIdentifier ∨ typ = tInteger ∨ typ = tString) := by
  have hn : ∃ typ val, e.nameP g = .tok typ val ∧ (typ = tIdentifier ∨ typ = tInteger ∨ typ = tString) := by
    unfold Explainer.nameP
    split
    · exact ⟨_, _, rfl, Or.inl rfl⟩
    · exact ⟨_, _, rfl, Or.inr (Or.inl rfl)⟩
  unfold Explainer.writeGlyph
  split
  · split
    · exact hn
    · exact ⟨_, _, rfl, Or.inr (Or.inr rfl)⟩
  · exact hn

/-- the keyword of a GSUB lookup of type 1–4 is an identifier, followed by a colon -/
theorem gsub_kw_ok (k : Nat) (hk : k < 10) :
    TokOk tIdentifier (ascii ([71, 83, 85, 66] ++ decimal k)) (some 58) ∧
      ∀ rb ∈ ascii ([71, 83, 85, 66] ++ decimal k), Canon rb := by
  have hd : decimal k = [48 + k] := by
    unfold decimal decimalAux
    simp [hk]
  rw [hd]
  refine ⟨?_, ?_⟩
  · left
    refine ⟨rfl, a1 71, ascii [83, 85, 66, 48 + k], rfl, by decide, ?_, ?_⟩
    · intro x hx
      simp [ascii] at hx
      rcases hx with rfl | rfl | rfl | rfl
      · decide
      · decide
      · decide
      · have lt : 48 + k < 128 := by omega
        simp [isIdentChar, isLetter, isDigit, lt, inR]
        omega
    · intro r hr; cases hr; decide
  · apply ascii_canon
    intro c hc
    simp at hc
    rcases hc with rfl | rfl | rfl | rfl | rfl <;> omega

def Gsub2Sub (f : Font) (st : Subtable) : Prop := ∃ cov repl, st = .gsub2_1 cov repl ∧ Gsub2Ok f cov repl

theorem gsub2_form (f : Font) (hf : FontOk f) : SubForm f (gsub2Sub f) (Gsub2Sub f) := by
  refine ⟨?_, ?_, ?_⟩
  · rintro st ⟨cov, repl, rfl, hok⟩ first fuel hfuel
    exact frag_gsub2 f hf first cov repl hok fuel hfuel
  · rintro st ⟨cov, repl, rfl, hok⟩ first
    cases hz : cov.zip repl with
    | nil =>
      exfalso
      cases cov with
      | nil => exact hok.ne rfl
      | cons g cov' =>
        cases repl with
        | nil => have := hok.len; simp at this
        | cons r repl' => simp at hz
    | cons p0 rest =>
      refine ⟨((newExplainer f).writeGlyph p0.1 :: (arrow ++ (newExplainer f).writeGlyphList p0.2)) ++
        (rest.map fun p => [(newExplainer f).writeGlyph p.1] ++ arrow ++ (newExplainer f).writeGlyphList p.2).flatMap
          (fun y => [commaP, sp] ++ y), ?_⟩
      simp [Explainer.subtable, hz, entries, sp]
  · rintro st ⟨cov, repl, rfl, hok⟩ first line
    cases hz : cov.zip repl with
    | nil =>
      exfalso
      cases cov with
      | nil => exact hok.ne rfl
      | cons g cov' =>
        cases repl with
        | nil => have := hok.len; simp at this
        | cons r repl' => simp at hz
    | cons p0 rest =>
      obtain ⟨typ, val, hw, hty⟩ := writeGlyph_typ (newExplainer f) p0.1
      refine ⟨{ typ := typ, val := val, line := line }, by simp [Explainer.subtable, hz, entries, sp, hw, mkToks], ?_⟩
      rcases hty with h | h | h <;> simp [h, tIdentifier, tInteger, tString, tHyphen, tEOL]

theorem gsub2_dispatch (f : Font) (fuel : Nat) (t : Tok) (n : Nat) (acc : List Lookup) (s s1 : PS)
    (h : readItem s = .ok (t, s1)) (ht : t.typ = tIdentifier) (hb : t.bytes = [71, 83, 85, 66] ++ decimal 2) :
    parseLoop f fuel (n + 1) acc s = (readGsub2 f fuel >>= fun l => parseLoop f fuel n (acc ++ [l])) s1 := by
  have hd : decimal 2 = [50] := by decide
  rw [hd] at hb
  conv => lhs; unfold parseLoop
  rw [bind_run, h]
  simp [ht, isIdent, hb, kwGSUB, tIdentifier, tEOF, tError, tSemicolon, tEOL]

structure Lookup2Ok (f : Font) (l : Lookup) : Prop where
  typ : l.typ = 2
  flags : l.flags < 16
  ne : l.subtables ≠ []
  subs : ∀ st ∈ l.subtables, Gsub2Sub f st

theorem normalize_gsub2 (f : Font) (ls : List Lookup) (h : ∀ l ∈ ls, Lookup2Ok f l) : normalize ls = ls := by
  unfold normalize
  rw [List.map_congr_left (g := id)]
  · simp
  · intro l hl
    have : l.subtables.map normSub = l.subtables := by
      rw [List.map_congr_left (g := id)]
      · simp
      · intro st hst
        obtain ⟨cov, repl, rfl, _⟩ := (h l hl).subs st hst
        rfl
    simp [this]

theorem roundtrip_gsub2 (f : Font) (hf : FontOk f) (ls : List Lookup) (h : ∀ l ∈ ls, Lookup2Ok f l) :
    parseBytes f (explainGsub f ls) = .ok ls := by
  have := roundtrip_gsub_generic f 2 (readGsub2 f) (gsub2Sub f) (Gsub2Sub f) (gsub2_form f hf)
    (fun fuel => rfl) (gsub_kw_ok 2 (by decide)) (gsub2_dispatch f) ls
    (fun l hl => ⟨(h l hl).typ, (h l hl).flags, (h l hl).ne, (h l hl).subs⟩)
  rw [normalize_gsub2 f ls h] at this
  exact this

/-! ### GSUB 3 -/

structure Gsub3Ok (f : Font) (cov : List Nat) (alt : List (List Nat)) : Prop where
  ne : cov ≠ []
  asc : Asc cov
  len : cov.length = alt.length
  covIn : ∀ g ∈ cov, g < f.numGlyphs
  altOk : ∀ r ∈ alt, ∀ g ∈ r, g < f.numGlyphs

theorem bracket_open_ok (nx : Option Nat) : TokOk tSquareBracketOpen (ascii [91]) nx := by
  right; right; right; left; exact ⟨91, rfl, by decide⟩
theorem bracket_close_ok (nx : Option Nat) : TokOk tSquareBracketClose (ascii [93]) nx := by
  right; right; right; left; exact ⟨93, rfl, by decide⟩

theorem safe_bracket : Safe (some 93) := safe_ascii 93 (by decide) (by decide) (by decide)

theorem frag_gsub3 (f : Font) (hf : FontOk f) (first : Bool) (cov : List Nat) (alt : List (List Nat))
    (h : Gsub3Ok f cov alt) (fuel : Nat)
    (hfuel : tokCount ((newExplainer f).subtable first (.gsub3_1 cov alt)) < fuel) :
    Frag (gsub3Sub f fuel) ((newExplainer f).subtable first (.gsub3_1 cov alt)) (.gsub3_1 cov alt)
      SubStop Safe := by
  obtain ⟨hne, hasc, hlen, hcov, halt⟩ := h
  let pc : Nat × List Nat → List Piece := fun p =>
    [(newExplainer f).writeGlyph p.1] ++ arrow ++ (newExplainer f).writeGlyphSet p.2
  cases hz : cov.zip alt with
  | nil =>
    cases cov with
    | nil => exact absurd rfl hne
    | cons g cov' => cases alt with
      | nil => simp at hlen
      | cons r alt' => simp at hz
  | cons p0 rest =>
    have hmem : ∀ p ∈ p0 :: rest, p.1 < f.numGlyphs ∧ ∀ g ∈ p.2, g < f.numGlyphs := by
      intro p hp
      rw [← hz] at hp
      have := List.of_mem_zip hp
      exact ⟨hcov _ this.1, halt _ this.2⟩
    have hpieces : (newExplainer f).subtable first (.gsub3_1 cov alt) =
        .ws [a1 32] :: (pc p0 ++ rest.flatMap (fun y => [commaP, sp] ++ pc y)) := by
      simp only [Explainer.subtable, hz, List.map_cons, entries, List.flatMap_map]
      rfl
    rw [hpieces] at hfuel ⊢
    have hfuel' : tokCount (pc p0 ++ rest.flatMap (fun y => [commaP, sp] ++ pc y)) < fuel := by
      simpa [tokCount] using hfuel
    have hpc_le : ∀ p ∈ p0 :: rest, tokCount (pc p) < fuel := by
      intro p hp
      simp only [List.mem_cons] at hp
      rw [tokCount_append] at hfuel'
      rcases hp with rfl | hp
      · omega
      · have := tokCount_flatMap_mem (fun y => [commaP, sp] ++ pc y) rest p hp
        simp only [tokCount_append] at this
        omega
    apply frag_ws [a1 32] ws_sp
    unfold gsub3Sub
    have hlenr : rest.length < fuel := by
      have := length_le_tokCount_flatMap (fun y => [commaP, sp] ++ pc y) rest (by
        intro x _; simp [tokCount_append, commaP, tk, tokCount])
      rw [tokCount_append] at hfuel'
      omega
    have hres : (p0 :: rest).foldl (fun (m : List (Nat × List Nat)) (p : Nat × List Nat) => m ++ [(p.1, p.2)]) [] = cov.zip alt := by
      rw [hz]
      have := foldl_snoc (p0 :: rest) ([] : List (Nat × List Nat))
      simpa using this
    have hp : pc p0 ++ rest.flatMap (fun y => [commaP, sp] ++ pc y) =
        (pc p0 ++ rest.flatMap (fun y => [commaP, sp] ++ pc y)) ++ [] := by simp
    rw [hp]
    refine frag_bind (frag_pairsLoop _ pc (fun (m : List (Nat × List Nat)) (p : Nat × List Nat) => m ++ [(p.1, p.2)])
      SubStop anyTok Safe anyNext
      (fun t ht => ⟨by rcases ht with h | h | h <;> simp [h, tOr, tEOL, tEOF, tComma], trivial⟩)
      (fun t ht => trivial) (fun _ _ => trivial) trivial
      rest [] p0 fuel hlenr (fun i _ line => ?_) ?_) ?_ (fun nx h => by simpa [nextRune, render] using h)
        (fun line t ht => by simpa [mkToks] using ht)
    · obtain ⟨typ, val, hw, hty⟩ := writeGlyph_isTok (newExplainer f) i.1
      refine ⟨{ typ := typ, val := val, line := line }, by simp [pc, hw, mkToks], by simpa using hty⟩
    · intro pre i post e
      have hi : i ∈ p0 :: rest := by rw [e]; simp
      obtain ⟨hi1, hi3⟩ := hmem i hi
      have hpre : pre.foldl (fun (m : List (Nat × List Nat)) (p : Nat × List Nat) => m ++ [(p.1, p.2)]) [] = pre := by
        have := foldl_snoc pre ([] : List (Nat × List Nat)); simpa using this
      have hpre' : (pre ++ [i]).foldl (fun (m : List (Nat × List Nat)) (p : Nat × List Nat) => m ++ [(p.1, p.2)]) [] = pre ++ [i] := by
        have := foldl_snoc (pre ++ [i]) ([] : List (Nat × List Nat)); simpa using this
      rw [hpre, hpre']
      have hnone : aget pre i.1 = none := by
        apply aget_none_of_asc pre post i
        rw [← e, ← hz, List.map_fst_zip (by omega)]
        exact hasc
      have hfi := hpc_le i hi
      simp only [pc, Explainer.writeGlyphSet, tokCount_append, arrow, sp, tk, tokCount] at hfi
      have hg := frag_glyph f hf i.1 hi1 fuel (by omega)
      have hl := frag_glyphList f hf i.2 hi3 fuel (by omega)
      have hpcs : pc i = [(newExplainer f).writeGlyph i.1] ++ (arrow ++ ([.tok tSquareBracketOpen (ascii [91])] ++
          ((newExplainer f).writeGlyphList i.2 ++ ([.tok tSquareBracketClose (ascii [93])] ++ [])))) := by
        simp [pc, Explainer.writeGlyphSet, tk]
      rw [hpcs]
      refine frag_bind hg ?_ (fun nx _ => by
          have : nextRune (arrow ++ ([Piece.tok tSquareBracketOpen (ascii [91])] ++
              ((newExplainer f).writeGlyphList i.2 ++ ([Piece.tok tSquareBracketClose (ascii [93])] ++ [])))) nx = some 32 := by
            simp [nextRune, render, arrow, sp, Piece.rbs, a1]
          rw [this]; exact safe_space)
        (fun line t _ => by apply arrow_noGlyph; simp [mkToks, arrow, sp, tk])
      simp only [List.length_singleton, bne_self_eq_false, Bool.false_eq_true, if_false]
      apply frag_arrow_then
      refine frag_then (fragU_required tSquareBracketOpen _ anyNext (fun nx _ => bracket_open_ok nx)
        (tk_canon tSquareBracketOpen _ (by decide))) ?_ (fun _ _ => trivial) (fun _ _ _ => trivial)
      refine frag_bind hl ?_ (fun nx _ => by
          have : nextRune ([Piece.tok tSquareBracketClose (ascii [93])] ++ []) nx = some 93 := by
            simp [nextRune, render, ascii, Piece.rbs]
          rw [this]; exact safe_bracket)
        (fun line t _ => by simp [mkToks, glyphItem, tSquareBracketClose, tIdentifier, tString, tInteger, tHyphen])
      refine frag_then (fragU_required tSquareBracketClose _ anyNext (fun nx _ => bracket_close_ok nx)
        (tk_canon tSquareBracketClose _ (by decide))) ?_ (fun _ _ => trivial) (fun _ _ _ => trivial)
      simp only [List.headD_cons, hnone, Option.isSome_none, Bool.false_eq_true, if_false]
      exact frag_weaken (frag_pure _ _) (fun _ h => h) (fun _ _ => trivial)
    · rw [hres]
      have hne' : (cov.zip alt).isEmpty = false := by rw [hz]; rfl
      simp only [hne', Bool.false_eq_true, if_false]
      rw [keys_zip cov alt hasc hlen, aget_zip [] cov alt hasc hlen]
      exact frag_weaken (frag_pure _ SubStop) (fun _ h => h) (fun _ _ => trivial)

def Gsub3Sub (f : Font) (st : Subtable) : Prop := ∃ cov alt, st = .gsub3_1 cov alt ∧ Gsub3Ok f cov alt

theorem gsub3_form (f : Font) (hf : FontOk f) : SubForm f (gsub3Sub f) (Gsub3Sub f) := by
  refine ⟨?_, ?_, ?_⟩
  · rintro st ⟨cov, alt, rfl, hok⟩ first fuel hfuel
    exact frag_gsub3 f hf first cov alt hok fuel hfuel
  · rintro st ⟨cov, alt, rfl, hok⟩ first
    cases hz : cov.zip alt with
    | nil =>
      exfalso
      cases cov with
      | nil => exact hok.ne rfl
      | cons g cov' =>
        cases alt with
        | nil => have := hok.len; simp at this
        | cons r alt' => simp at hz
    | cons p0 rest =>
      refine ⟨((newExplainer f).writeGlyph p0.1 :: (arrow ++ (newExplainer f).writeGlyphSet p0.2)) ++
        (rest.map fun p => [(newExplainer f).writeGlyph p.1] ++ arrow ++ (newExplainer f).writeGlyphSet p.2).flatMap
          (fun y => [commaP, sp] ++ y), ?_⟩
      simp [Explainer.subtable, hz, entries, sp]
  · rintro st ⟨cov, alt, rfl, hok⟩ first line
    cases hz : cov.zip alt with
    | nil =>
      exfalso
      cases cov with
      | nil => exact hok.ne rfl
      | cons g cov' =>
        cases alt with
        | nil => have := hok.len; simp at this
        | cons r alt' => simp at hz
    | cons p0 rest =>
      obtain ⟨typ, val, hw, hty⟩ := writeGlyph_typ (newExplainer f) p0.1
      refine ⟨{ typ := typ, val := val, line := line }, by simp [Explainer.subtable, hz, entries, sp, hw, mkToks], ?_⟩
      rcases hty with h | h | h <;> simp [h, tIdentifier, tInteger, tString, tHyphen, tEOL]

theorem gsub3_dispatch (f : Font) (fuel : Nat) (t : Tok) (n : Nat) (acc : List Lookup) (s s1 : PS)
    (h : readItem s = .ok (t, s1)) (ht : t.typ = tIdentifier) (hb : t.bytes = [71, 83, 85, 66] ++ decimal 3) :
    parseLoop f fuel (n + 1) acc s = (readGsub3 f fuel >>= fun l => parseLoop f fuel n (acc ++ [l])) s1 := by
  have hd : decimal 3 = [51] := by decide
  rw [hd] at hb
  conv => lhs; unfold parseLoop
  rw [bind_run, h]
  simp [ht, isIdent, hb, kwGSUB, tIdentifier, tEOF, tError, tSemicolon, tEOL]

structure Lookup3Ok (f : Font) (l : Lookup) : Prop where
  typ : l.typ = 3
  flags : l.flags < 16
  ne : l.subtables ≠ []
  subs : ∀ st ∈ l.subtables, Gsub3Sub f st

theorem normalize_gsub3 (f : Font) (ls : List Lookup) (h : ∀ l ∈ ls, Lookup3Ok f l) : normalize ls = ls := by
  unfold normalize
  rw [List.map_congr_left (g := id)]
  · simp
  · intro l hl
    have : l.subtables.map normSub = l.subtables := by
      rw [List.map_congr_left (g := id)]
      · simp
      · intro st hst
        obtain ⟨cov, alt, rfl, _⟩ := (h l hl).subs st hst
        rfl
    simp [this]

theorem roundtrip_gsub3 (f : Font) (hf : FontOk f) (ls : List Lookup) (h : ∀ l ∈ ls, Lookup3Ok f l) :
    parseBytes f (explainGsub f ls) = .ok ls := by
  have := roundtrip_gsub_generic f 3 (readGsub3 f) (gsub3Sub f) (Gsub3Sub f) (gsub3_form f hf)
    (fun fuel => rfl) (gsub_kw_ok 3 (by decide)) (gsub3_dispatch f) ls
    (fun l hl => ⟨(h l hl).typ, (h l hl).flags, (h l hl).ne, (h l hl).subs⟩)
  rw [normalize_gsub3 f ls h] at this
  exact this

/-! ### names of ASCII letters, digits, `.` and `_` are in the domain (non-vacuity) -/

theorem flatMap_utf8_ascii (s : List Nat) (h : ∀ c ∈ s, c < 128) : s.flatMap utf8Encode = s := by
  induction s with
  | nil => rfl
  | cons c s ih =>
    have hc := h c (by simp)
    simp [utf8Encode, hc, ih (fun x hx => h x (by simp [hx]))]

theorem nameOk_ascii (c : Nat) (cs : List Nat) (hc : c < 128 ∧ isIdentStart c = true)
    (hcs : ∀ x ∈ cs, x < 128 ∧ isIdentChar x = true) : NameOk (c :: cs) := by
  refine ⟨c, cs, ?_, hc.2, ⟨by omega, by omega⟩, fun r hr => ⟨⟨by have := (hcs r hr).1; omega, by have := (hcs r hr).1; omega⟩, (hcs r hr).2⟩⟩
  rw [flatMap_utf8_ascii]
  intro x hx
  simp at hx
  rcases hx with rfl | hx
  · exact hc.1
  · exact (hcs x hx).1

end SfntV.Dsl
