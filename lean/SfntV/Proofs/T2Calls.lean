/-
Subroutine calls: big-step runs of the Type 2 interpreter through nested bodies, and their
connection with `runAt` / `interp` (C05).
-/
import SfntV.Proofs.T2Loop

set_option linter.unusedSimpArgs false
set_option linter.unusedVariables false

namespace SfntV.T2
open SfntV

/-- the subroutine handler `runAt` passes to its loop when `d` nesting levels are available -/
def handler (q : Quirks) (env : Env) : Nat → St → Bool → Int → Outcome Fin
  | 0 => fun _ _ _ => .err "depth"
  | d + 1 => fun s' glob biased =>
    match getSubr (if glob then env.gsubrs else env.subrs) biased with
    | .ok body => runAt q env d s' body
    | .err e => .err e
    | .panic p => .panic p

theorem runAt_eq (q : Quirks) (env : Env) (d : Nat) (s : St) (code : List Nat) :
    runAt q env d s code = loop q env (handler q env d) (code.length + 1) s code := by
  cases d <;> rfl

/-- a run through successful steps and complete subroutine calls (each body runs to its `return`),
with `d` nesting levels available -/
inductive Run (q : Quirks) (env : Env) : Nat → St → List Nat → St → List Nat → Prop
  | refl (d : Nat) (s : St) (c : List Nat) : Run q env d s c s c
  | step {d : Nat} {s s1 s2 : St} {c c1 c2 : List Nat} : T2.step q env s c = .ok (.cont s1 c1) →
      Run q env d s1 c1 s2 c2 → Run q env d s c s2 c2
  | call {d : Nat} {s s' sr s'' s2 : St} {c rest body cr c2 : List Nat} {g : Bool} {b : Int} :
      T2.step q env s c = .ok (.call s' rest g b) →
      getSubr (if g then env.gsubrs else env.subrs) b = .ok body →
      Run q env d s' body sr cr → cr ≠ [] → T2.step q env sr cr = .ok (.ret s'') →
      Run q env (d + 1) s'' rest s2 c2 → Run q env (d + 1) s c s2 c2

theorem Run.trans {q : Quirks} {env : Env} {d : Nat} {s1 s2 s3 : St} {c1 c2 c3 : List Nat}
    (h1 : Run q env d s1 c1 s2 c2) (h2 : Run q env d s2 c2 s3 c3) : Run q env d s1 c1 s3 c3 := by
  induction h1 with
  | refl d s c => exact h2
  | step hs _ ih => exact Run.step hs (ih h2)
  | call hs hg hb hne hr _ _ ih2 => exact Run.call hs hg hb hne hr (ih2 h2)

theorem Run.of_reaches {q : Quirks} {env : Env} (d : Nat) {s s' : St} {c c' : List Nat}
    (h : Reaches q env s c s' c') : Run q env d s c s' c' := by
  induction h with
  | refl s c => exact Run.refl d s c
  | step hs _ _ ih => exact Run.step hs ih

/-- the run ends the glyph: `endchar` is reached, possibly inside nested subroutines -/
inductive Ends (q : Quirks) (env : Env) : Nat → St → List Nat → St → Prop
  | here {d : Nat} {s s1 s2 : St} {c c1 : List Nat} : Run q env d s c s1 c1 →
      T2.step q env s1 c1 = .ok (.done s2) → Ends q env d s c s2
  | inCall {d : Nat} {s s1 s' s2 : St} {c c1 rest body : List Nat} {g : Bool} {b : Int} :
      Run q env (d + 1) s c s1 c1 → T2.step q env s1 c1 = .ok (.call s' rest g b) →
      getSubr (if g then env.gsubrs else env.subrs) b = .ok body →
      Ends q env d s' body s2 → Ends q env (d + 1) s c s2

theorem step_nonempty {q : Quirks} {env : Env} {s : St} {c : List Nat} {r : Res}
    (h : T2.step q env s c = .ok r) (hr : ∀ s', r ≠ .ret s') : c ≠ [] := by
  intro hc
  subst hc
  simp only [T2.step, Outcome.ok.injEq] at h
  exact hr s h.symm

/-- the main loop follows a run -/
theorem loop_of_run (q : Quirks) (env : Env) {d : Nat} {s s' : St} {c c' : List Nat}
    (h : Run q env d s c s' c') :
    ∀ f, c.length < f → ∃ f', c'.length < f' ∧
      loop q env (handler q env d) f s c = loop q env (handler q env d) f' s' c' := by
  induction h with
  | refl d s c => intro f hf; exact ⟨f, hf, rfl⟩
  | @step d s s1 s2 c c1 c2 hs _ ih =>
    intro f hf
    have hne : c ≠ [] := step_nonempty hs (by intro s' h; cases h)
    cases c with
    | nil => exact absurd rfl hne
    | cons b rest =>
      have hl := step_code q env s b rest _ hs
      simp only [Res.code] at hl
      cases f with
      | zero => omega
      | succ f =>
        obtain ⟨f', hf', heq⟩ := ih f (by omega)
        exact ⟨f', hf', by simp only [loop, hs]; exact heq⟩
  | @call d s s' sr s'' s2 c rest body cr c2 g b hs hg hb hne hr _ ihb ih =>
    intro f hf
    have hne0 : c ≠ [] := step_nonempty hs (by intro s' h; cases h)
    cases c with
    | nil => exact absurd rfl hne0
    | cons b0 rest0 =>
      have hl := step_code q env s b0 rest0 _ hs
      simp only [Res.code] at hl
      cases f with
      | zero => omega
      | succ f =>
        obtain ⟨f', hf', heq⟩ := ih f (by omega)
        refine ⟨f', hf', ?_⟩
        -- the body runs to its `return`
        have hbody : handler q env (d + 1) s' g b = .ok (.ret s'') := by
          show (match getSubr (if g = true then env.gsubrs else env.subrs) b with
            | .ok body => runAt q env d s' body
            | .err e => .err e
            | .panic p => .panic p) = _
          rw [hg]
          show runAt q env d s' body = _
          rw [runAt_eq]
          obtain ⟨fb, hfb, hbeq⟩ := ihb (body.length + 1) (by omega)
          rw [hbeq]
          cases fb with
          | zero => omega
          | succ fb =>
            cases cr with
            | nil => exact absurd rfl hne
            | cons x xs => simp only [loop, hr]
        simp only [loop, hs, hbody]
        exact heq

theorem runAt_of_ends (q : Quirks) (env : Env) {d : Nat} {s s2 : St} {c : List Nat}
    (h : Ends q env d s c s2) : runAt q env d s c = .ok (.done s2) := by
  induction h with
  | @here d s s1 s2 c c1 hrun hdone =>
    rw [runAt_eq]
    obtain ⟨f', hf', heq⟩ := loop_of_run q env hrun (c.length + 1) (by omega)
    rw [heq]
    have hne : c1 ≠ [] := step_nonempty hdone (by intro s' h; cases h)
    cases f' with
    | zero => omega
    | succ f' =>
      cases c1 with
      | nil => exact absurd rfl hne
      | cons x xs => simp only [loop, hdone]
  | @inCall d s s1 s' s2 c c1 rest body g b hrun hcall hg _ ih =>
    rw [runAt_eq]
    obtain ⟨f', hf', heq⟩ := loop_of_run q env hrun (c.length + 1) (by omega)
    rw [heq]
    have hne : c1 ≠ [] := step_nonempty hcall (by intro s' h; cases h)
    cases f' with
    | zero => omega
    | succ f' =>
      cases c1 with
      | nil => exact absurd rfl hne
      | cons x xs =>
        have hh : handler q env (d + 1) s' g b = .ok (.done s2) := by
          show (match getSubr (if g = true then env.gsubrs else env.subrs) b with
            | .ok body => runAt q env d s' body
            | .err e => .err e
            | .panic p => .panic p) = _
          rw [hg]
          exact ih
        simp only [loop, hcall, hh]

/-- a run from the initial state that ends the glyph: the interpreter returns that glyph -/
theorem interp_of_ends (q : Quirks) (env : Env) (code : List Nat) (s2 : St)
    (h : Ends q env Gen.t2callDepth (St.init env) code s2) : interp q env code = .ok s2.glyph := by
  unfold interp interpSt
  rw [runAt_of_ends q env h]

end SfntV.T2
