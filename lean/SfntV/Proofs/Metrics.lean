/-
C12 — helper lemmas about the models in Model/Metrics.lean (hmtx/hhea, head, time, maxp, post).
-/
import SfntV.Model.Metrics
import SfntV.Spec.Metrics

namespace SfntV.Metrics
open SfntV

/-- the value range of a Go `int16` / `funit.Int16` -/
def I16 (x : Int) : Prop := -32768 ≤ x ∧ x ≤ 32767

theorem u8n (n : Nat) : (UInt8.ofNat n).toNat = n % 256 := by simp

theorem i16_rt (x : Int) (h : I16 x) :
    i16ofNat ((UInt8.ofNat ((x % 65536).toNat / 256 % 256)).toNat * 256 +
      (UInt8.ofNat ((x % 65536).toNat % 256)).toNat) = x := by
  obtain ⟨h1, h2⟩ := h
  simp only [u8n, i16ofNat]
  split <;> omega

/-! ## hmtx body: every admissible numberOfHMetrics round-trips -/

/-- `TailConst k prev ws`: with `k` long records still to come and `prev` the last width read,
the short records of `ws` all repeat the right width. -/
def TailConst : Nat → Int → List Int → Prop
  | 0, prev, ws => ∀ w ∈ ws, w = prev
  | _ + 1, _, [] => False
  | k + 1, _, w :: ws => TailConst k w ws

theorem decHm_encHm : ∀ (ws ls : List Int) (k : Nat) (prev : Int), ws.length = ls.length →
    TailConst k prev ws → (∀ w ∈ ws, I16 w) → (∀ l ∈ ls, I16 l) →
    decHm k prev (encHm k ws ls) = some (ws, ls) := by
  intro ws
  induction ws with
  | nil =>
    intro ls k prev hlen htc _ _
    cases ls with
    | cons _ _ => simp at hlen
    | nil =>
      cases k with
      | zero => simp [encHm, decHm]
      | succ k => simp [TailConst] at htc
  | cons w ws ih =>
    intro ls k prev hlen htc hw hl
    cases ls with
    | nil => simp at hlen
    | cons l ls =>
      have hlen' : ws.length = ls.length := by simpa using hlen
      have hw1 : I16 w := hw w (by simp)
      have hl1 : I16 l := hl l (by simp)
      have hw' : ∀ x ∈ ws, I16 x := fun x hx => hw x (by simp [hx])
      have hl' : ∀ x ∈ ls, I16 x := fun x hx => hl x (by simp [hx])
      cases k with
      | zero =>
        have h0 : w = prev := htc w (by simp)
        have htc' : TailConst 0 prev ws := fun x hx => htc x (by simp [hx])
        have := ih ls 0 prev hlen' htc' hw' hl'
        simp only [encHm, Nat.lt_irrefl, if_false, i16enc, be16, List.nil_append, List.cons_append,
          Nat.zero_sub, decHm, this, i16_rt l hl1, h0, gt_iff_lt]
      | succ k =>
        have htc' : TailConst k w ws := htc
        have := ih ls k w hlen' htc' hw' hl'
        simp only [encHm, Nat.zero_lt_succ, if_true, i16enc, be16, List.nil_append, List.cons_append,
          Nat.add_sub_cancel, decHm, i16_rt w hw1, this, i16_rt l hl1, gt_iff_lt]

theorem tailConst_append (pre : List Int) (v prev : Int) (tl : List Int) :
    TailConst (pre.length + 1) prev (pre ++ v :: tl) ↔ ∀ w ∈ tl, w = v := by
  induction pre generalizing prev with
  | nil => simp [TailConst]
  | cons p ps ih => simpa [TailConst] using ih p

/-- shape of `dropRun`: a maximal run of the head value is removed, one copy stays -/
theorem dropRun_shape : ∀ (l : List Int), l ≠ [] →
    ∃ (m : Nat) (v : Int) (rest : List Int), l = List.replicate m v ++ v :: rest ∧
      dropRun l = v :: rest ∧ rest.head? ≠ some v := by
  intro l
  induction l using dropRun.induct with
  | case1 a rest ih =>
    -- l = a :: a :: rest, equal heads
    intro _
    obtain ⟨m, v, r, h1, h2, h3⟩ := ih (by simp)
    refine ⟨m + 1, v, r, ?_, ?_, h3⟩
    · have hv : a = v := by
        cases m with
        | zero => simpa using (List.cons.inj h1).1
        | succ m => simpa [List.replicate_succ] using (List.cons.inj h1).1
      subst hv
      rw [List.replicate_succ, List.cons_append, ← h1]
    · simp [dropRun, h2]
  | case2 a b rest hne =>
    intro _
    refine ⟨0, a, b :: rest, by simp, by simp [dropRun, hne], by simpa using fun h => hne h.symm⟩
  | case3 l hl =>
    intro hne
    match l, hne, hl with
    | [a], _, _ => exact ⟨0, a, [], by simp, by simp [dropRun], by simp⟩
    | a :: b :: r, _, hl => exact absurd rfl (hl a b r)

/-- the compression chosen by `Encode`: `ws = pre ++ v :: replicate m v`, `numLong = |pre| + 1`,
and it is maximal (`pre` does not end in `v`). -/
theorem numLong_shape (ws : List Int) (hne : ws ≠ []) :
    ∃ (pre : List Int) (v : Int) (m : Nat), ws = pre ++ v :: List.replicate m v ∧
      numLong ws = pre.length + 1 ∧ pre.getLast? ≠ some v := by
  obtain ⟨m, v, rest, h1, h2, h3⟩ := dropRun_shape ws.reverse (by simpa using hne)
  refine ⟨rest.reverse, v, m, ?_, ?_, ?_⟩
  · have := congrArg List.reverse h1
    simpa [List.reverse_append, List.reverse_replicate] using this
  · simp [numLong, h2]
  · simpa [List.getLast?_reverse] using h3

theorem numLong_tailConst (ws : List Int) (hne : ws ≠ []) (prev : Int) :
    TailConst (numLong ws) prev ws := by
  obtain ⟨pre, v, m, h1, h2, _⟩ := numLong_shape ws hne
  rw [h2]
  conv => rhs; rw [h1]
  exact (tailConst_append pre v prev _).2 (fun w hw => (List.mem_replicate.1 hw).2)

theorem numLong_le (ws : List Int) (hne : ws ≠ []) : 1 ≤ numLong ws ∧ numLong ws ≤ ws.length := by
  obtain ⟨pre, v, m, h1, h2, _⟩ := numLong_shape ws hne
  have := congrArg List.length h1
  simp at this
  omega

/-! ## hhea bytes read back -/

theorem hhea_bytes_length (h : Hhea) : h.bytes.length = 36 := by
  simp [Hhea.bytes, be32, be16, i16enc]

theorem hhea_read (h : Hhea) (ha : I16 h.ascent) (hd : I16 h.descent) (hg : I16 h.lineGap)
    (hr : I16 h.rise) (hu : I16 h.run) (hc : I16 h.caretOffset) (hk : h.numLong < 65536) :
    rdU32 h.bytes 0 = 0x00010000 ∧ rdI16 h.bytes 32 = 0 ∧
    rdI16 h.bytes 4 = h.ascent ∧ rdI16 h.bytes 6 = h.descent ∧ rdI16 h.bytes 8 = h.lineGap ∧
    rdI16 h.bytes 18 = h.rise ∧ rdI16 h.bytes 20 = h.run ∧ rdI16 h.bytes 22 = h.caretOffset ∧
    rdU16 h.bytes 34 = h.numLong := by
  have e1 := i16_rt _ ha; have e2 := i16_rt _ hd; have e3 := i16_rt _ hg
  have e4 := i16_rt _ hr; have e5 := i16_rt _ hu; have e6 := i16_rt _ hc
  simp only [Hhea.bytes, be32, be16, i16enc, List.cons_append, List.nil_append, rdU32, rdI16, rdU16,
    rdU8, List.getD_cons_succ, List.getD_cons_zero]
  refine ⟨by simp, by simp [i16ofNat], e1, e2, e3, e4, e5, e6, ?_⟩
  simp only [u8n]; omega

theorem hhea_read_derived (h : Hhea) (h1 : I16 h.advanceWidthMax) (h2 : I16 h.minLsb)
    (h3 : I16 h.minRsb) (h4 : I16 h.xMaxExtent) (hk : h.numLong < 65536) :
    hheaDerived h.bytes = (h.advanceWidthMax, h.minLsb, h.minRsb, h.xMaxExtent, h.numLong) := by
  have e1 := i16_rt _ h1; have e2 := i16_rt _ h2; have e3 := i16_rt _ h3; have e4 := i16_rt _ h4
  simp only [hheaDerived, Hhea.bytes, be32, be16, i16enc, List.cons_append, List.nil_append, rdI16,
    rdU16, rdU8, List.getD_cons_succ, List.getD_cons_zero]
  rw [e1, e2, e3, e4]
  simp only [u8n]
  congr 4; omega

/-- the bearings `Encode` writes: `info.LSB`, or the boxes' xMin when that is nil -/
def lsbsOf (info : Info) : Option (List Int) :=
  match info.lsb, info.extents with
  | some l, _ => some l
  | none, some es => some (es.map (·.llx))
  | none, none => none

theorem derive_fields (info : Info) (rise run : Int) (h : Hhea) (lsbs : Option (List Int))
    (hd : derive info rise run = .ok (h, lsbs)) :
    h.ascent = info.ascent ∧ h.descent = info.descent ∧ h.lineGap = info.lineGap ∧ h.rise = rise ∧
    h.run = run ∧ h.caretOffset = info.caretOffset ∧ lsbs = lsbsOf info := by
  unfold derive at hd
  simp only at hd
  split at hd
  · cases hd
  · cases hd
  · split at hd
    · cases hd
    · cases hd
    · injection hd with hd
      injection hd with h1 h2
      subst h1
      refine ⟨rfl, rfl, rfl, rfl, rfl, rfl, ?_⟩
      rw [← h2]; rfl

/-- `Decode ∘ Encode` on hmtx/hhea: whenever `Encode` returns (does not panic) for a non-empty
width vector, decoding its two tables gives back every width, every bearing and the vertical
metrics, whatever the length of the constant tail. -/
theorem encode_decode (info : Info) (rise run : Int) (ws ls : List Int)
    (hws : info.widths = some ws) (hls : lsbsOf info = some ls) (hne : ws ≠ [])
    (hn : ws.length < 65536)
    (hw : ∀ w ∈ ws, I16 w) (hl : ∀ l ∈ ls, I16 l)
    (ha : I16 info.ascent) (hd : I16 info.descent) (hg : I16 info.lineGap)
    (hr : I16 rise) (hu : I16 run) (hc : I16 info.caretOffset)
    (hb : Bytes) (hm : Option Bytes) (he : encode info rise run = .ok (hb, hm)) :
    ∃ m, hm = some m ∧ m = encHm (numLong ws) ws ls ∧
      decode hb (some m) = .ok ⟨info.ascent, info.descent, info.lineGap, rise, run,
        info.caretOffset, ws, ls⟩ := by
  unfold encode at he
  split at he
  · cases he
  · cases he
  · rename_i h lsbs hder
    obtain ⟨f1, f2, f3, f4, f5, f6, f7⟩ := derive_fields info rise run h lsbs hder
    rw [hws] at he
    rw [f7, hls] at he
    simp only at he
    split at he
    · cases he
    · rename_i hlen
      have hlen' : ws.length = ls.length := by
        have : ¬ (ls.length ≠ ws.length) := hlen
        omega
      injection he with he
      injection he with he1 he2
      refine ⟨_, he2.symm, rfl, ?_⟩
      have hk := numLong_le ws hne
      have hk' : numLong ws % 65536 = numLong ws := Nat.mod_eq_of_lt (by omega)
      subst he1
      have g1 : ({ h with numLong := numLong ws % 65536 } : Hhea).ascent = info.ascent := f1
      have g2 : ({ h with numLong := numLong ws % 65536 } : Hhea).descent = info.descent := f2
      have g3 : ({ h with numLong := numLong ws % 65536 } : Hhea).lineGap = info.lineGap := f3
      have g4 : ({ h with numLong := numLong ws % 65536 } : Hhea).rise = rise := f4
      have g5 : ({ h with numLong := numLong ws % 65536 } : Hhea).run = run := f5
      have g6 : ({ h with numLong := numLong ws % 65536 } : Hhea).caretOffset = info.caretOffset := f6
      have gk : ({ h with numLong := numLong ws % 65536 } : Hhea).numLong = numLong ws := hk'
      generalize ({ h with numLong := numLong ws % 65536 } : Hhea) = h' at *
      obtain ⟨r1, r2, r3, r4, r5, r6, r7, r8, r9⟩ := hhea_read h'
        (by rw [g1]; exact ha) (by rw [g2]; exact hd) (by rw [g3]; exact hg)
        (by rw [g4]; exact hr) (by rw [g5]; exact hu) (by rw [g6]; exact hc) (by rw [gk]; omega)
      have hdec := decHm_encHm ws ls (numLong ws) 0 hlen' (numLong_tailConst ws hne 0) hw hl
      unfold decode
      simp only [hhea_bytes_length, Gen.metricsHheaLength, Nat.lt_irrefl, if_false, r1, r2, r3, r4, r5,
        r6, r7, r8, r9, ne_eq, not_true_eq_false, gk, hdec, g1, g2, g3, g4, g5, g6]

end SfntV.Metrics
