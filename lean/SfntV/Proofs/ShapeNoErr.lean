/-
No function of the engine below the two fuelled loops ever reports an error: `err` is
reserved for "out of fuel" (C07_terminates).
-/
import SfntV.Proofs.ShapeSub

namespace SfntV.Shape
open SfntV

/-- decompose a goal `NoErr (do …)` along binds, matches and ifs -/
macro "noerr_step" : tactic => `(tactic| first
  | exact NoErr.ok | exact NoErr.panic | exact NoErr.pure | exact idx_noErr | exact idxI_noErr
  | assumption
  | (refine NoErr.bind ?_ (fun _ _ => ?_))
  | split)

macro "noerr" : tactic => `(tactic| repeat noerr_step)

theorem skipFwd_noErr (kp : Nat → Bool) : ∀ (rest : List Glyph) p limit needed, NoErr (skipFwd kp rest p limit needed) := by
  intro rest
  induction rest with
  | nil => intro p limit needed; simp only [skipFwd]; noerr
  | cons g rest ih =>
    intro p limit needed; simp only [skipFwd]
    have := ih (p + 1) limit needed
    noerr

theorem matchFwd_noErr (kp : Nat → Bool) (seq : List Glyph) : ∀ (prs : List (Nat → Bool)) p limit,
    NoErr (matchFwd kp seq prs p limit) := by
  intro prs
  induction prs with
  | nil => intro p limit; simp only [matchFwd]; noerr
  | cons pr prs ih =>
    intro p limit; simp only [matchFwd]
    refine NoErr.bind (skipFwd_noErr _ _ _ _ _) ?_
    intro q _
    have := ih q limit
    noerr

theorem matchRule_noErr (kp : Nat → Bool) (seq : List Glyph) (a : Nat) (b : Int) (back input look : List (Nat → Bool)) :
    NoErr (matchRule kp seq a b back input look) := by
  unfold matchRule
  split
  · exact NoErr.ok
  · refine NoErr.bind (matchFwd_noErr _ _ _ _ _) ?_
    intro x _
    split
    · exact NoErr.ok
    · refine NoErr.bind (matchFwd_noErr _ _ _ _ _) ?_
      intro y _
      split
      · exact NoErr.ok
      · refine NoErr.bind (skipFwd_noErr _ _ _ _ _) ?_
        intro _ _; exact NoErr.ok

theorem firstRule_noErr (kp : Nat → Bool) (st : St) (a : Nat) (b : Int) (mb mi ml : Nat → Nat → Bool) :
    ∀ rs, NoErr (firstRule kp st a b mb mi ml rs) := by
  intro rs
  induction rs with
  | nil => simp only [firstRule]; exact NoErr.ok
  | cons r rs ih =>
    simp only [firstRule]
    refine NoErr.bind (matchRule_noErr _ _ _ _ _ _ _) ?_
    intro x _
    split
    · exact NoErr.ok
    · exact ih

theorem chain3Input_noErr (kp : Nat → Bool) (seq : List Glyph) : ∀ (cs : List GSet) p limit,
    NoErr (chain3Input kp seq cs p limit) := by
  intro cs
  induction cs with
  | nil => intro p limit; simp only [chain3Input]; noerr
  | cons c cs ih =>
    intro p limit; simp only [chain3Input]
    split
    · exact NoErr.ok
    · refine NoErr.bind idx_noErr ?_
      intro g _
      split
      · exact NoErr.ok
      · refine NoErr.bind (skipFwd_noErr _ _ _ _ _) ?_
        intro q _
        have := ih q limit
        noerr

theorem matchComps_noErr (kp : Nat → Bool) : ∀ (rest : List Glyph) cs p b, NoErr (matchComps kp cs rest p b) := by
  intro rest
  induction rest with
  | nil => intro cs p b; cases cs <;> simp only [matchComps] <;> noerr
  | cons g rest ih =>
    intro cs p b
    cases cs with
    | nil => simp only [matchComps]; noerr
    | cons c cs =>
      simp only [matchComps]
      have h1 := ih cs (p + 1) b
      have h2 := ih (c :: cs) (p + 1) b
      noerr

theorem firstLig_noErr (kp : Nat → Bool) (rest : List Glyph) (a : Nat) (b : Int) : ∀ ligs, NoErr (firstLig kp rest a b ligs) := by
  intro ligs
  induction ligs with
  | nil => simp only [firstLig]; exact NoErr.ok
  | cons l ls ih =>
    simp only [firstLig]
    refine NoErr.bind (matchComps_noErr _ _ _ _ _) ?_
    intro x _
    split
    · exact NoErr.ok
    · exact ih

theorem applyValue_noErr (v : Option ValueRec) (g : Glyph) : NoErr (applyValue v g) := by
  unfold applyValue; noerr

theorem applyPair_noErr (st : St) (a p : Nat) (g1 g2 : Glyph) (adj : PairAdj) : NoErr (applyPair st a p g1 g2 adj) := by
  unfold applyPair
  refine NoErr.bind (applyValue_noErr _ _) (fun _ _ => ?_)
  split
  · exact NoErr.ok
  · exact NoErr.bind (applyValue_noErr _ _) (fun _ _ => NoErr.ok)

theorem applyMark_noErr (add : Nat → Bool) (st : St) (a : Nat) (markCov baseCov : Cov) (marks : List MarkRec)
    (bases : List (List Anchor)) : NoErr (applyMark add st a markCov baseCov marks bases) := by
  unfold applyMark; noerr

theorem applySub_noErr (kp : Nat → Bool) (st : St) (a : Nat) (b : Int) (s : Subtable) : NoErr (applySub kp st a b s) := by
  have hf := firstRule_noErr kp st a b
  have hmf := matchFwd_noErr kp st.seq
  have hmr := matchRule_noErr kp st.seq a b
  have hc3 := chain3Input_noErr kp st.seq
  have hfl := firstLig_noErr kp (st.seq.drop (a + 1)) a b
  cases s <;> simp only [applySub]
  all_goals
    repeat (first
      | noerr_step
      | exact hf _ _ _ _
      | exact hmf _ _ _
      | exact hmr _ _ _
      | exact hc3 _ _ _
      | exact hfl _
      | exact skipFwd_noErr _ _ _ _ _
      | exact applyPair_noErr _ _ _ _ _ _
      | exact applyMark_noErr _ _ _ _ _ _ _
      | exact applyValue_noErr _ _)

theorem applyAt_noErr (kp : Nat → Bool) (st : St) (a : Nat) (b : Int) : ∀ ss, NoErr (applyAt kp st a b ss) := by
  intro ss
  induction ss with
  | nil => simp only [applyAt]; exact NoErr.ok
  | cons s ss ih =>
    simp only [applyAt]
    refine NoErr.bind (applySub_noErr _ _ _ _ _) ?_
    intro x _
    split
    · exact NoErr.ok
    · exact ih

/-- `applyAt` yields the effect of one subtable of the list -/
theorem applyAt_ok (kp : Nat → Bool) (st : St) (a : Nat) (b : Int) : ∀ (ss : List Subtable) st' n,
    applyAt kp st a b ss = .ok (some (st', n)) → ∃ s ∈ ss, StepOK s.growth st st' := by
  intro ss
  induction ss with
  | nil => intro st' n h; simp only [applyAt] at h; cases h
  | cons s ss ih =>
    intro st' n h
    simp only [applyAt] at h
    obtain ⟨x, hx, h⟩ := bind_ok h
    split at h
    · injection h with h; injection h with h; subst h
      exact ⟨s, List.mem_cons_self, applySub_ok _ _ _ _ _ _ _ hx⟩
    · obtain ⟨s', hs', hok⟩ := ih _ _ h
      exact ⟨s', List.mem_cons_of_mem _ hs', hok⟩

end SfntV.Shape
