import SfntV.Proofs.DslGpos4
/-! C19, contextual lookups (GSUB 5/6, GPOS 7/8): fragments shared by all formats — primitives with
two items of lookahead, nested actions, class references, class definitions. -/
set_option linter.unusedSimpArgs false
set_option linter.unusedVariables false
namespace SfntV.Dsl

/-! ### primitives -/

theorem frag_bind0 {α β : Type} {m : PM α} {f : α → PM β} {b : List Piece} {x : α} {y : β}
    {P1 P : Tok → Prop} {N1 N : Option Nat → Prop}
    (ha : Frag m [] x P1 N1) (hb : Frag (f x) b y P N)
    (hN : ∀ nx, N nx → N1 (nextRune b nx))
    (hP : ∀ line t, P t → P1 ((mkToks line b).head?.getD t)) : Frag (m >>= f) b y P N := by
  have := frag_bind ha hb hN hP
  simpa using this

theorem runs_optKeyword_yes (t : Tok) (kw : List Nat) (h : isIdent t kw = true) :
    Runs (optionalKeyword kw) [t] true (fun u => u.typ = tColon) := by
  intro s u rest hs hu
  obtain ⟨s1, e1, hs1⟩ := readItem_stream s t _ (by simpa using hs)
  obtain ⟨s2, e2, hs2⟩ := readItem_stream s1 u rest hs1
  refine ⟨{ s2 with backlog := u :: s2.backlog }, ?_, ?_⟩
  · unfold optionalKeyword
    rw [bind_run, e1]
    simp only [h, if_true]
    unfold peek
    rw [bind_run, bind_run, e2]
    simp only [bind_run, pushBack_run, pure_run, hu, beq_self_eq_true, if_true]
  · simp [PS.stream] at hs2 ⊢; exact hs2

theorem frag_optKeyword_yes (kw : List Nat) (N : Option Nat → Prop) (hok : ∀ nx, N nx → TokOk tIdentifier (ascii kw) nx)
    (hc : ∀ rb ∈ ascii kw, Canon rb) :
    Frag (optionalKeyword kw) [.tok tIdentifier (ascii kw)] true (fun u => u.typ = tColon) N := by
  refine ⟨fun nx hn => ⟨hok _ hn, trivial⟩, by simpa [render, Piece.rbs] using hc, fun line => ?_⟩
  have := runs_optKeyword_yes { typ := tIdentifier, val := ascii kw, line := line } kw
    (by simp [isIdent, Tok.bytes, ascii_bytes])
  simpa [mkToks] using this

theorem frag_optKeyword_no (kw : List Nat) :
    Frag (optionalKeyword kw) [] false (fun t => isIdent t kw = false) anyNext := by
  refine ⟨fun _ _ => trivial, by simp [render], fun line => ?_⟩
  intro s u rest hs hu
  obtain ⟨s1, e1, hs1⟩ := readItem_stream s u rest (by simpa [mkToks] using hs)
  refine ⟨{ s1 with backlog := u :: s1.backlog }, ?_, ?_⟩
  · unfold optionalKeyword
    rw [bind_run, e1]
    simp only [hu, Bool.false_eq_true, if_false, bind_run, pushBack_run, pure_run]
  · simp [PS.stream] at hs1 ⊢; exact hs1

/-- the stream does not start with the class-definition keyword `kw` followed by `:` -/
def kwNoOf (kw : List Nat) : List Tok → Prop
  | t1 :: t2 :: _ => isIdent t1 kw = false ∨ (t2.typ == tColon) = false
  | [t1] => isIdent t1 kw = false
  | [] => False

theorem kwNoOf_append (kw : List Nat) (X Y : List Tok) (h : kwNoOf kw X) : kwNoOf kw (X ++ Y) := by
  cases X with
  | nil => exact absurd h id
  | cons t1 X1 =>
    cases X1 with
    | nil =>
      cases Y with
      | nil => exact h
      | cons y Y' => exact Or.inl h
    | cons t2 X2 => exact h

theorem kwNoOf_head (kw : List Nat) (X : List Tok) (t : Tok) (h : X.head? = some t) (hi : isIdent t kw = false) :
    kwNoOf kw X := by
  cases X with
  | nil => cases h
  | cons t1 X1 =>
    simp at h; subst h
    cases X1 with
    | nil => exact hi
    | cons t2 X2 => exact Or.inl hi

/-- a non-empty run of items none of which is `:`, followed by an item that is not `:` -/
theorem kwNoOf_run (kw : List Nat) (T1 T2 : List Tok) (a : Tok) (hne : T1 ≠ []) (h1 : ∀ t ∈ T1, (t.typ == tColon) = false)
    (h2 : T2.head? = some a) (ha : (a.typ == tColon) = false) : kwNoOf kw (T1 ++ T2) := by
  cases T1 with
  | nil => exact absurd rfl hne
  | cons t1 X1 =>
    cases X1 with
    | nil =>
      cases T2 with
      | nil => cases h2
      | cons b T2' => simp at h2; subst h2; exact Or.inr ha
    | cons t2 X2 => exact Or.inr (h1 t2 (by simp))

theorem runs_optKeyword_no_then {β : Type} (kw : List Nat) (k : Bool → PM β) (X : List Tok) (r : β) (P : Tok → Prop)
    (h : kwNoOf kw X) (hr : Runs (k false) X r P) : Runs (optionalKeyword kw >>= k) X r P := by
  intro s t rest hs ht
  cases X with
  | nil => exact absurd h id
  | cons t1 X1 =>
    obtain ⟨s1, e1, hs1⟩ := readItem_stream s t1 _ (by simpa using hs)
    by_cases hi : isIdent t1 kw = true
    · cases X1 with
      | nil => simp [kwNoOf, hi] at h
      | cons t2 X2 =>
        have hcol : (t2.typ == tColon) = false := by
          rcases h with h | h
          · rw [hi] at h; cases h
          · exact h
        obtain ⟨s2, e2, hs2⟩ := readItem_stream s1 t2 _ (by simpa using hs1)
        obtain ⟨s', e', hs'⟩ := hr { s2 with backlog := t1 :: t2 :: s2.backlog } t rest
          (by simp [PS.stream] at hs2 ⊢; simp [hs2]) ht
        refine ⟨s', ?_, hs'⟩
        rw [bind_run]
        unfold optionalKeyword
        rw [bind_run, e1]
        simp only [hi, if_true]
        unfold peek
        rw [bind_run, bind_run, e2]
        simp only [bind_run, pushBack_run, pure_run, hcol, Bool.false_eq_true, if_false]
        exact e'
    · have hi' : isIdent t1 kw = false := by simpa using hi
      obtain ⟨s', e', hs'⟩ := hr { s1 with backlog := t1 :: s1.backlog } t rest
        (by simp [PS.stream] at hs1 ⊢; simp [hs1]) ht
      refine ⟨s', ?_, hs'⟩
      rw [bind_run]
      unfold optionalKeyword
      rw [bind_run, e1]
      simp only [hi', Bool.false_eq_true, if_false, bind_run, pushBack_run, pure_run]
      exact e'

theorem frag_optKeyword_no_then {β : Type} (kw : List Nat) (k : Bool → PM β) (ps : List Piece) (y : β)
    (P : Tok → Prop) (N : Option Nat → Prop) (h : ∀ line, kwNoOf kw (mkToks line ps))
    (hb : Frag (k false) ps y P N) : Frag (optionalKeyword kw >>= k) ps y P N :=
  ⟨hb.chain, hb.canon, fun line => runs_optKeyword_no_then kw k _ y P (h line) (hb.runs line)⟩

theorem frag_takeIf_no (p : Tok → Bool) : Frag (takeIf p) [] none (fun t => p t = false) anyNext :=
  ⟨fun _ _ => trivial, by simp [render], fun _ => runs_takeIf_no p⟩

/-- the kind `peekType2` reports for a stream -/
def peekTypeOf : List Tok → Option Nat
  | t1 :: t2 :: _ => if t1.typ == tBar then some t2.typ else some t1.typ
  | [t1] => if t1.typ == tBar then none else some t1.typ
  | [] => none

theorem runs_peekType2_then {β : Type} (k : Nat → PM β) (X : List Tok) (r : β) (P : Tok → Prop) (ty : Nat)
    (hty : peekTypeOf X = some ty) (h : Runs (k ty) X r P) : Runs (peekType2 >>= k) X r P := by
  intro s t rest hs ht
  cases X with
  | nil => simp [peekTypeOf] at hty
  | cons t1 X1 =>
    obtain ⟨s1, e1, hs1⟩ := readItem_stream s t1 _ (by simpa using hs)
    by_cases hb : (t1.typ == tBar) = true
    · cases X1 with
      | nil => simp [peekTypeOf, hb] at hty
      | cons t2 X2 =>
        have hty' : t2.typ = ty := by simpa [peekTypeOf, hb] using hty
        obtain ⟨s2, e2, hs2⟩ := readItem_stream s1 t2 _ (by simpa using hs1)
        have hfin := h { s2 with backlog := t1 :: t2 :: s2.backlog } t rest
          (by simp [PS.stream] at hs2 ⊢; simp [hs2]) ht
        obtain ⟨s', e', hs'⟩ := hfin
        refine ⟨s', ?_, hs'⟩
        rw [bind_run]
        unfold peekType2
        rw [bind_run, e1]
        simp only [hb, if_true]
        unfold peek
        rw [bind_run, bind_run, e2]
        simp only [bind_run, pushBack_run, pure_run, hty']
        exact e'
    · have hb' : (t1.typ == tBar) = false := by simpa using hb
      have hty' : t1.typ = ty := by
        cases X1 with
        | nil => simpa [peekTypeOf, hb'] using hty
        | cons t2 X2 => simpa [peekTypeOf, hb'] using hty
      have hfin := h { s1 with backlog := t1 :: s1.backlog } t rest
        (by simp [PS.stream] at hs1 ⊢; simp [hs1]) ht
      obtain ⟨s', e', hs'⟩ := hfin
      refine ⟨s', ?_, hs'⟩
      rw [bind_run]
      unfold peekType2
      rw [bind_run, e1]
      simp only [hb', Bool.false_eq_true, if_false, bind_run, pushBack_run, pure_run]
      rw [hty']
      exact e'

theorem frag_peekType2_then {β : Type} (k : Nat → PM β) (ps : List Piece) (y : β) (P : Tok → Prop)
    (N : Option Nat → Prop) (ty : Nat) (hty : ∀ line, peekTypeOf (mkToks line ps) = some ty)
    (hb : Frag (k ty) ps y P N) : Frag (peekType2 >>= k) ps y P N :=
  ⟨hb.chain, hb.canon, fun line => runs_peekType2_then k _ y P ty (hty line) (hb.runs line)⟩

/-! ### nested actions -/

theorem u16_decimal (n : Nat) (h : n < 65536) (line : Nat) :
    u16Of { typ := tInteger, val := ascii (decimal n), line := line } = some n := by
  unfold u16Of
  simp only [Tok.bytes, ascii_bytes, atoi_decimal n h]
  have c : (decide (Int.ofNat n < 0) || decide (Int.ofNat n ≥ 65536)) = false := by simp; omega
  simp only [c, Bool.false_eq_true, if_false]
  simp

theorem int_tokOk (n : Nat) (nx : Option Nat) (hn : ∀ r, nx = some r → inR 48 57 r = false) :
    TokOk tInteger (ascii (decimal n)) nx := by
  right; left
  exact ⟨rfl, plain_shape (Int.ofNat n), hn⟩

theorem int_canon (n : Nat) : ∀ rb ∈ ascii (decimal n), Canon rb :=
  ascii_canon _ (plain_ascii (Int.ofNat n))

def ActOk (a : Action) : Prop := a.1 < 65536 ∧ a.2 < 65536

/-- one action `i@p` at the head, then the rest of the loop -/
theorem frag_nested_step (n : Nat) (acc : List Action) (a : Action) (ha : ActOk a) (b : List Piece) (y : List Action)
    (P : Tok → Prop) (N : Option Nat → Prop)
    (hb : Frag (nestedLoop n (acc ++ [a])) b y P N)
    (hN : ∀ nx, N nx → ∀ r, nextRune b nx = some r → inR 48 57 r = false) :
    Frag (nestedLoop (n + 1) acc) (actP a ++ b) y P N := by
  unfold nestedLoop
  simp only [actP, tk, List.cons_append, List.nil_append]
  refine frag_takeIf_then isInt tInteger _ _ _ _ P N (fun nx => ∀ r, nx = some r → inR 48 57 r = false)
    (fun line => by simp [isInt]) (fun nx h => int_tokOk a.1 nx h) (int_canon a.1) (fun line => ?_)
    (fun nx _ r hr => by simp [nextRune, render, ascii, Piece.rbs, a1] at hr; subst hr; decide)
  simp only [u16_decimal a.1 ha.1 line]
  refine frag_then1 fragU_at ?_ (fun _ _ => trivial) (fun _ _ _ => trivial)
  refine frag_readItem_then tInteger _ _ _ _ P N (fun nx => ∀ r, nx = some r → inR 48 57 r = false)
    (fun nx h => int_tokOk a.2 nx h) (int_canon a.2) (fun line2 => ?_) hN
  simp only [bne_self_eq_false, Bool.false_eq_true, if_false, u16_decimal a.2 ha.2 line2]
  exact hb

theorem frag_nested_rest : ∀ (rest : List Action) (n : Nat) (acc : List Action), rest.length < n →
    (∀ a ∈ rest, ActOk a) →
    Frag (nestedLoop n acc) (rest.flatMap fun b => [sp] ++ actP b) (acc ++ rest) (fun t => isInt t = false) notDigit := by
  intro rest
  induction rest with
  | nil =>
    intro n acc hn _
    cases n with
    | zero => omega
    | succ m =>
      unfold nestedLoop
      simp only [List.flatMap_nil, List.append_nil]
      refine frag_weaken (N := anyNext) (P := (fun t => isInt t = false)) ?_ (fun _ h => h) (fun _ _ => trivial)
      refine frag_bind (a := []) (b := []) (frag_takeIf_no isInt) ?_ (fun _ _ => trivial)
        (fun line t ht => by simpa [mkToks] using ht)
      exact frag_pure acc _
  | cons a rest ih =>
    intro n acc hn hall
    cases n with
    | zero => omega
    | succ m =>
      have hih := ih m (acc ++ [a]) (by simp at hn; omega) (fun b hb => hall b (by simp [hb]))
      have hr : acc ++ a :: rest = (acc ++ [a]) ++ rest := by simp
      rw [hr]
      simp only [List.flatMap_cons, sp, List.cons_append, List.nil_append]
      apply frag_ws [a1 32] ws_sp
      refine frag_nested_step m acc a (hall a (by simp)) _ _ _ _ hih ?_
      intro nx hnx r hr
      cases rest with
      | nil => simp [nextRune, render] at hr; exact hnx r hr
      | cons b rest' => simp [nextRune, render, sp, Piece.rbs, a1] at hr; subst hr; decide

theorem frag_nested (acts : List Action) (n : Nat) (hn : acts.length < n) (hall : ∀ a ∈ acts, ActOk a) :
    Frag (nestedLoop n []) (nestedP acts) acts (fun t => isInt t = false) notDigit := by
  cases acts with
  | nil => simpa [nestedP] using frag_nested_rest [] n [] hn hall
  | cons a rest =>
    cases n with
    | zero => simp at hn
    | succ m =>
      have hrest := frag_nested_rest rest m ([] ++ [a]) (by simp at hn; omega) (fun b hb => hall b (by simp [hb]))
      simp only [nestedP]
      have := frag_nested_step m [] a (hall a (by simp)) _ _ _ _ hrest (by
        intro nx hnx r hr
        cases rest with
        | nil => simp [nextRune, render] at hr; exact hnx r hr
        | cons b rest' => simp [nextRune, render, sp, Piece.rbs, a1] at hr; subst hr; decide)
      simpa using this

/-! ### glyph sets -/

theorem frag_readGlyphSet (f : Font) (hf : FontOk f) (s : List Nat) (hs : Asc s) (hin : ∀ g ∈ s, g < f.numGlyphs)
    (fuel : Nat) (hfuel : tokCount ((newExplainer f).writeGlyphList s) < fuel) :
    Frag (readGlyphSet f fuel) ((newExplainer f).writeGlyphSet s) s anyTok anyNext := by
  unfold readGlyphSet
  simp only [Explainer.writeGlyphSet, tk, List.cons_append, List.nil_append]
  have hopen := fragU_required tSquareBracketOpen (ascii [91]) anyNext (fun nx _ => bracket_open_ok nx)
    (tk_canon tSquareBracketOpen _ (by decide))
  refine frag_then1 hopen ?_ (fun _ _ => trivial) (fun _ _ _ => trivial)
  refine frag_bind (frag_glyphList f hf s hin fuel hfuel) ?_ (fun nx _ => by
      simpa [nextRune, render, ascii, Piece.rbs, a1] using safe_bracket)
    (fun line t _ => by simp [mkToks, glyphItem, tSquareBracketClose, tIdentifier, tString, tInteger, tHyphen])
  have hclose := fragU_required tSquareBracketClose (ascii [93]) anyNext (fun nx _ => bracket_close_ok nx)
    (tk_canon tSquareBracketClose _ (by decide))
  refine frag_then1 hclose ?_ (fun _ _ => trivial) (fun _ _ _ => trivial)
  rw [sortUnique_asc s hs]
  exact frag_pure _ _

def SetOk (f : Font) (s : List Nat) : Prop := Asc s ∧ ∀ g ∈ s, g < f.numGlyphs

/-- `[…] […] stop`: at least one set, then the item that ends the list -/
theorem frag_setsThen (f : Font) (hf : FontOk f) (fuel stop : Nat) (sv : List Nat) (Ns : Option Nat → Prop)
    (hstop : ∀ nx, Ns nx → TokOk stop (ascii sv) nx) (hsc : ∀ c ∈ sv, c < 128) (hnb : stop ≠ tSquareBracketOpen) :
    ∀ (rest : List (List Nat)) (s0 : List Nat) (n : Nat) (acc : List (List Nat)), rest.length < n →
      (∀ s ∈ s0 :: rest, SetOk f s ∧ tokCount ((newExplainer f).writeGlyphList s) < fuel) →
      Frag (setsThen f fuel stop n acc)
        ((newExplainer f).writeGlyphSet s0 ++ (rest.flatMap (fun s => [sp] ++ (newExplainer f).writeGlyphSet s) ++
          [sp, .tok stop (ascii sv)]))
        (acc ++ s0 :: rest) anyTok Ns := by
  intro rest
  induction rest with
  | nil =>
    intro s0 n acc hn hall
    cases n with
    | zero => omega
    | succ m =>
      obtain ⟨⟨h1, h2⟩, h3⟩ := hall s0 (by simp)
      unfold setsThen
      refine frag_bind (frag_readGlyphSet f hf s0 h1 h2 fuel h3) ?_ (fun _ _ => trivial) (fun _ _ _ => trivial)
      simp only [List.flatMap_nil, List.nil_append, sp]
      apply frag_ws [a1 32] ws_sp
      have hy := frag_optional_yes [stop] stop (ascii sv) Ns (by simp) hstop (tk_canon stop sv hsc)
      have hpp : [Piece.tok stop (ascii sv)] = [Piece.tok stop (ascii sv)] ++ [] := by simp
      rw [hpp]
      refine frag_bind hy ?_ (fun nx h => by simpa [nextRune, render] using h) (fun _ _ _ => trivial)
      simp only [if_true]
      exact frag_weaken (frag_pure _ _) (fun _ h => h) (fun _ _ => trivial)
  | cons s1 rest ih =>
    intro s0 n acc hn hall
    cases n with
    | zero => omega
    | succ m =>
      obtain ⟨⟨h1, h2⟩, h3⟩ := hall s0 (by simp)
      have hih := ih s1 m (acc ++ [s0]) (by simp at hn; omega) (fun s hs => hall s (by simp only [List.mem_cons] at hs ⊢; exact Or.inr hs))
      unfold setsThen
      refine frag_bind (frag_readGlyphSet f hf s0 h1 h2 fuel h3) ?_ (fun _ _ => trivial) (fun _ _ _ => trivial)
      simp only [List.flatMap_cons, sp, List.cons_append, List.nil_append, List.append_assoc] at hih ⊢
      apply frag_ws [a1 32] ws_sp
      refine frag_bind0 (frag_optional_no [stop]) ?_ (fun _ _ => trivial) (fun line t _ => by
        simp [Explainer.writeGlyphSet, mkToks, tk]
        exact fun h => hnb h.symm)
      simp only [Bool.false_eq_true, if_false]
      exact hih

/-- `{ […]} stop`: any number of sets, each preceded by a space, then the item that ends the list -/
theorem frag_setsUntil (f : Font) (hf : FontOk f) (fuel stop : Nat) (sv : List Nat) (Ns : Option Nat → Prop)
    (hstop : ∀ nx, Ns nx → TokOk stop (ascii sv) nx) (hsc : ∀ c ∈ sv, c < 128) (hnb : stop ≠ tSquareBracketOpen) :
    ∀ (sets : List (List Nat)) (n : Nat) (acc : List (List Nat)), sets.length < n →
      (∀ s ∈ sets, SetOk f s ∧ tokCount ((newExplainer f).writeGlyphList s) < fuel) →
      Frag (setsUntil f fuel stop n acc)
        (sets.flatMap (fun s => [sp] ++ (newExplainer f).writeGlyphSet s) ++ [sp, .tok stop (ascii sv)])
        (acc ++ sets) anyTok Ns := by
  intro sets
  induction sets with
  | nil =>
    intro n acc hn _
    cases n with
    | zero => omega
    | succ m =>
      unfold setsUntil
      simp only [List.flatMap_nil, List.nil_append, sp, List.append_nil]
      apply frag_ws [a1 32] ws_sp
      have hy := frag_optional_yes [stop] stop (ascii sv) Ns (by simp) hstop (tk_canon stop sv hsc)
      have hpp : [Piece.tok stop (ascii sv)] = [Piece.tok stop (ascii sv)] ++ [] := by simp
      rw [hpp]
      refine frag_bind hy ?_ (fun nx h => by simpa [nextRune, render] using h) (fun _ _ _ => trivial)
      simp only [if_true]
      exact frag_weaken (frag_pure _ _) (fun _ h => h) (fun _ _ => trivial)
  | cons s0 rest ih =>
    intro n acc hn hall
    cases n with
    | zero => omega
    | succ m =>
      obtain ⟨⟨h1, h2⟩, h3⟩ := hall s0 (by simp)
      have hih := ih m (acc ++ [s0]) (by simp at hn; omega) (fun s hs => hall s (by simp [hs]))
      unfold setsUntil
      simp only [List.flatMap_cons, sp, List.cons_append, List.nil_append, List.append_assoc] at hih ⊢
      apply frag_ws [a1 32] ws_sp
      refine frag_bind0 (frag_optional_no [stop]) ?_ (fun _ _ => trivial) (fun line t _ => by
        simp [Explainer.writeGlyphSet, mkToks, tk]
        exact fun h => hnb h.symm)
      simp only [Bool.false_eq_true, if_false]
      refine frag_bind (frag_readGlyphSet f hf s0 h1 h2 fuel h3) ?_ (fun _ _ => trivial) (fun _ _ _ => trivial)
      exact hih

/-! ### class references -/

/-- the name a class number is written with: `c<n>`, nothing for class 0 -/
def clsName (c : Nat) : List Nat := if c == 0 then [] else 99 :: decimal c

theorem digit_identChar (d : Nat) (h : inR 48 57 d = true) : isIdentChar d = true := by
  have hb : 48 ≤ d ∧ d ≤ 57 := by simpa [inR] using h
  have lt : d < 128 := by omega
  have : isDigit d = true := by simp [isDigit, lt, inR]; omega
  simp [isIdentChar, this]

theorem clsIdent_tokOk (c : Nat) (nx : Option Nat) (hn : ∀ r, nx = some r → isIdentChar r = false) :
    TokOk tIdentifier (ascii (99 :: decimal c)) nx := by
  refine Or.inl ⟨rfl, a1 99, ascii (decimal c), rfl, (lower_ident 99 (by decide)).1, ?_, hn⟩
  intro x hx
  simp only [ascii, List.mem_map] at hx
  obtain ⟨d, hd, rfl⟩ := hx
  exact digit_identChar d (decimal_digits c d hd)

theorem clsIdent_canon (c : Nat) : ∀ rb ∈ ascii (99 :: decimal c), Canon rb := by
  apply ascii_canon
  intro x hx
  simp only [List.mem_cons] at hx
  rcases hx with rfl | hx
  · decide
  · have := decimal_digits c x hx; simp [inR] at this; omega

theorem fragU_colon : FragU (required tColon) [.tok tColon (ascii [58])] anyTok anyNext :=
  fragU_required tColon _ anyNext (fun nx _ => colon_tokOk nx) (tk_canon tColon _ (by decide))

/-- one class reference read by `readClassName` -/
theorem frag_readClassName (c : Nat) : Frag readClassName (classRefP c) (clsName c) anyTok anyNext := by
  unfold readClassName classRefP clsName
  by_cases hc : (c == 0) = true
  · simp only [hc, if_true, tk]
    refine frag_then1 fragU_colon ?_ (fun _ _ => trivial) (fun _ _ _ => trivial)
    have hpp : [Piece.tok tColon (ascii [58])] = Piece.tok tColon (ascii [58]) :: [] := rfl
    refine frag_readItem_then tColon _ _ _ _ anyTok anyNext anyNext (fun nx _ => colon_tokOk nx)
      (tk_canon tColon _ (by decide)) (fun line => ?_) (fun _ _ => trivial)
    have h1 : (tColon == tIdentifier) = false := by decide
    simp only [h1, Bool.false_eq_true, if_false, beq_self_eq_true, if_true]
    exact frag_pure _ _
  · have hc' : (c == 0) = false := by simpa using hc
    simp only [hc', Bool.false_eq_true, if_false, tk]
    refine frag_then1 fragU_colon ?_ (fun _ _ => trivial) (fun _ _ _ => trivial)
    refine frag_readItem_then tIdentifier _ _ _ _ anyTok anyNext (fun nx => ∀ r, nx = some r → isIdentChar r = false)
      (fun nx h => clsIdent_tokOk c nx h) (clsIdent_canon c) (fun line => ?_)
      (fun nx _ r hr => by simp [nextRune, render, ascii, Piece.rbs, a1] at hr; subst hr; exact (safe_colon 58 rfl).1)
    simp only [beq_self_eq_true, if_true, Tok.bytes, ascii_bytes]
    have hpp : [Piece.tok tColon (ascii [58])] = [Piece.tok tColon (ascii [58])] ++ [] := rfl
    rw [hpp]
    refine frag_then fragU_colon (frag_pure _ _) (fun _ _ => trivial) (fun _ _ _ => trivial)

theorem frag_classNames : ∀ (l : List Nat) (n : Nat) (acc : List (List Nat)), l.length < n →
    Frag (classNamesLoop n acc) (clsListP l) (acc ++ l.map clsName) (fun t => (t.typ != tColon) = true) anyNext := by
  intro l
  induction l with
  | nil =>
    intro n acc hn
    cases n with
    | zero => omega
    | succ m =>
      unfold classNamesLoop
      simp only [clsListP, List.flatMap_nil, List.map_nil, List.append_nil]
      refine ⟨fun _ _ => trivial, by simp [render], fun line => ?_⟩
      intro s t rest hs ht
      obtain ⟨s1, e1, hs1⟩ := readItem_stream s t rest (by simpa [mkToks] using hs)
      refine ⟨{ s1 with backlog := t :: s1.backlog }, ?_, by simp [PS.stream] at hs1 ⊢; exact hs1⟩
      unfold peek
      rw [bind_run, bind_run, e1]
      simp only [bind_run, pushBack_run, pure_run, ht, if_true]
  | cons c rest ih =>
    intro n acc hn
    cases n with
    | zero => omega
    | succ m =>
      have hih := ih m (acc ++ [clsName c]) (by simp at hn; omega)
      unfold classNamesLoop
      have hp : clsListP (c :: rest) = .ws [a1 32] :: (classRefP c ++ clsListP rest) := by
        simp [clsListP, sp]
      rw [hp]
      apply frag_ws [a1 32] ws_sp
      have hr : acc ++ (c :: rest).map clsName = (acc ++ [clsName c]) ++ rest.map clsName := by simp
      rw [hr]
      have hhead : ∃ ps, classRefP c = .tok tColon (ascii [58]) :: ps := by
        unfold classRefP; split <;> exact ⟨_, rfl⟩
      obtain ⟨ps, hps⟩ := hhead
      rw [hps, List.cons_append]
      refine frag_peek_then _ _ _ _ _ _ _ (fun line => ?_)
      have h1 : (tColon != tColon) = false := by decide
      simp only [h1, Bool.false_eq_true, if_false]
      rw [← List.cons_append, ← hps]
      exact frag_bind (frag_readClassName c) hih (fun _ _ => trivial) (fun _ _ _ => trivial)

theorem decimal_inj (a b : Nat) (ha : a < 65536) (hb : b < 65536) (h : decimal a = decimal b) : a = b := by
  have h1 := decimal_val a ha
  have h2 := decimal_val b hb
  rw [h] at h1
  omega

/-- the names `c<i> … c<i+k-1>` in the order of definition -/
def clsFrom : Nat → Nat → List (List Nat)
  | _, 0 => []
  | i, k + 1 => (99 :: decimal i) :: clsFrom (i + 1) k

theorem clsFrom_length : ∀ (k i : Nat), (clsFrom i k).length = k := by
  intro k; induction k with
  | zero => intro i; rfl
  | succ k ih => intro i; simp [clsFrom, ih]

theorem clsFrom_snoc : ∀ (k i : Nat), clsFrom i (k + 1) = clsFrom i k ++ [99 :: decimal (i + k)] := by
  intro k
  induction k with
  | zero => intro i; simp [clsFrom]
  | succ k ih =>
    intro i
    have := ih (i + 1)
    rw [clsFrom, this, clsFrom]
    simp [Nat.add_assoc, Nat.add_comm 1 k]

theorem findCls_clsFrom : ∀ (k i c : Nat), i ≤ c → c < i + k → i + k ≤ 65536 →
    findCls (clsFrom i k) (99 :: decimal c) i = some c := by
  intro k
  induction k with
  | zero => intro i c h1 h2 _; omega
  | succ k ih =>
    intro i c h1 h2 h3
    unfold clsFrom findCls
    by_cases hic : i = c
    · subst hic; simp
    · have : ((99 :: decimal i) == (99 :: decimal c)) = false := by
        simp only [beq_eq_false_iff_ne, ne_eq, List.cons.injEq, true_and]
        intro he
        exact hic (decimal_inj i c (by omega) (by omega) he)
      simp only [this, Bool.false_eq_true, if_false]
      exact ih (i + 1) c (by omega) (by omega) (by omega)

theorem findCls_none_clsFrom : ∀ (k i c : Nat), i + k ≤ c → c < 65536 →
    findCls (clsFrom i k) (99 :: decimal c) i = none := by
  intro k
  induction k with
  | zero => intro i c _ _; rfl
  | succ k ih =>
    intro i c h1 h2
    unfold clsFrom findCls
    have : ((99 :: decimal i) == (99 :: decimal c)) = false := by
      simp only [beq_eq_false_iff_ne, ne_eq, List.cons.injEq, true_and]
      intro he
      have := decimal_inj i c (by omega) (by omega) he
      omega
    simp only [this, Bool.false_eq_true, if_false]
    exact ih (i + 1) c (by omega) h2

theorem contains_clsFrom_false (k i c : Nat) (h1 : i + k ≤ c) (h2 : c < 65536) :
    (clsFrom i k).contains (99 :: decimal c) = false := by
  induction k generalizing i with
  | zero => rfl
  | succ k ih =>
    unfold clsFrom
    simp only [List.contains_cons, Bool.or_eq_false_iff]
    refine ⟨?_, ih (i + 1) (by omega)⟩
    simp only [beq_eq_false_iff_ne, ne_eq, List.cons.injEq, true_and]
    intro he
    have := decimal_inj c i (by omega) (by omega) he
    omega

/-- the written names resolve to the class numbers -/
theorem resolve_ok (k : Nat) (hk : k < 65536) : ∀ (l : List Nat), (∀ c ∈ l, c ≤ k) → ∀ s,
    resolveNames (clsFrom 1 k) (l.map clsName) s = .ok (l, s) := by
  intro l
  induction l with
  | nil => intro _ s; rfl
  | cons c rest ih =>
    intro h s
    have hc := h c (by simp)
    have hrest := ih (fun x hx => h x (by simp [hx])) s
    simp only [List.map_cons]
    unfold resolveNames
    by_cases h0 : c = 0
    · subst h0
      simp only [clsName, beq_self_eq_true, if_true, List.isEmpty_nil, bind_run, hrest, pure_run]
    · have hne : (c == 0) = false := by simpa using h0
      have hf := findCls_clsFrom k 1 c (by omega) (by omega) (by omega)
      simp only [clsName, hne, Bool.false_eq_true, if_false, List.isEmpty_cons, hf, Option.isSome_some, if_true,
        bind_run, hrest, pure_run, Option.getD_some]

theorem frag_resolve (k : Nat) (hk : k < 65536) (l : List Nat) (h : ∀ c ∈ l, c ≤ k) (P : Tok → Prop) :
    Frag (resolveNames (clsFrom 1 k) (l.map clsName)) [] l P anyNext :=
  ⟨fun _ _ => trivial, by simp [render],
    fun line s t rest hs _ => ⟨s, resolve_ok k hk l h s, by simpa [mkToks] using hs⟩⟩

theorem assign_append : ∀ (a b : List (List Nat)) (cnt : Nat),
    assign cnt (a ++ b) = assign cnt a ++ assign (cnt + a.length) b := by
  intro a
  induction a with
  | nil => intro b cnt; simp [assign]
  | cons x a ih =>
    intro b cnt
    simp only [List.cons_append, assign, ih, List.length_cons, List.append_assoc]
    have : cnt + 1 + a.length = cnt + (a.length + 1) := by omega
    rw [this]

/-- registering class `j + 1` after the classes `1 … j` -/
theorem addClass_ok (m1 m2 : String) (pre : List (List Nat)) (gg : List Nat) (hj : pre.length + 1 < 65536)
    (hfresh : ∀ g ∈ gg, g ∉ pre.flatten) (s : PS) :
    addClass m1 m2 (clsFrom 1 pre.length, assign 1 pre) (99 :: decimal (pre.length + 1)) gg s =
      .ok ((clsFrom 1 (pre.length + 1), assign 1 (pre ++ [gg])), s) := by
  unfold addClass
  have h1 := contains_clsFrom_false pre.length 1 (pre.length + 1) (by omega) hj
  have h2 : gg.any (fun g => (aget (assign 1 pre) g).isSome) = false := by
    rw [List.any_eq_false]
    intro g hg
    have := aget_none_of_not_mem (assign 1 pre) g (by rw [assign_fst]; exact hfresh g hg)
    simp [this]
  simp only [h1, h2, Bool.false_eq_true, if_false, pure_run, clsFrom_length]
  rw [clsFrom_snoc, assign_append]
  simp [assign, Nat.add_comm]

/-- `:c<i>: = [glyphs]` after the keyword -/
theorem frag_classDef (f : Font) (hf : FontOk f) (i : Nat) (gg : List Nat) (hgg : SetOk f gg) (hne : gg ≠ [])
    (fuel : Nat) (hfuel : tokCount ((newExplainer f).writeGlyphList gg) < fuel) :
    Frag (parseClassDef f fuel)
      ([.tok tColon (ascii [58]), .tok tIdentifier (ascii (99 :: decimal i)), .tok tColon (ascii [58]), .ws [a1 32],
        .tok tEqual (ascii [61]), .ws [a1 32]] ++ (newExplainer f).writeGlyphSet gg)
      (99 :: decimal i, gg) anyTok anyNext := by
  unfold parseClassDef
  simp only [List.cons_append, List.nil_append]
  refine frag_then1 fragU_colon ?_ (fun _ _ => trivial) (fun _ _ _ => trivial)
  have hid : Frag readIdentifier [.tok tIdentifier (ascii (99 :: decimal i))] (99 :: decimal i) anyTok
      (fun nx => ∀ r, nx = some r → isIdentChar r = false) := by
    refine ⟨fun nx hn => ⟨clsIdent_tokOk i nx hn, trivial⟩, by simpa [render, Piece.rbs] using clsIdent_canon i, fun line => ?_⟩
    intro u t rest hs' _
    obtain ⟨s1, e1, hs1⟩ := readItem_stream u { typ := tIdentifier, val := ascii (99 :: decimal i), line := line } _
      (by simpa [mkToks] using hs')
    refine ⟨s1, ?_, hs1⟩
    unfold readIdentifier
    rw [bind_run, e1]
    simp [Tok.bytes, ascii_bytes, pure_run]
  refine frag_bind1 hid ?_ (fun nx _ r hr => by
      simp [nextRune, render, ascii, Piece.rbs, a1] at hr; subst hr; exact (safe_colon 58 rfl).1) (fun _ _ _ => trivial)
  refine frag_then1 fragU_colon ?_ (fun _ _ => trivial) (fun _ _ _ => trivial)
  apply frag_ws [a1 32] ws_sp
  have heq := frag_optional_yes [tEqual] tEqual (ascii [61]) anyNext (by decide)
    (fun nx _ => (by right; right; right; left; exact ⟨61, rfl, by decide⟩ : TokOk tEqual (ascii [61]) nx))
    (tk_canon tEqual _ (by decide))
  refine frag_then1 heq.toU ?_ (fun _ _ => trivial) (fun _ _ _ => trivial)
  apply frag_ws [a1 32] ws_sp
  have hp : (newExplainer f).writeGlyphSet gg = (newExplainer f).writeGlyphSet gg ++ [] := by simp
  rw [hp]
  refine frag_bind (frag_readGlyphSet f hf gg hgg.1 hgg.2 fuel hfuel) ?_ (fun _ _ => trivial) (fun _ _ _ => trivial)
  have : gg.isEmpty = false := by cases gg with
    | nil => exact absurd rfl hne
    | cons _ _ => rfl
  simp only [this, Bool.false_eq_true, if_false]
  exact frag_pure _ _

end SfntV.Dsl
