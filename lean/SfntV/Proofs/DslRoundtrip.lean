/-
C19 — executable round-trip checkers and exhaustive small universes for the bounded
round-trip theorems (`decide +kernel`), and the shape lemmas for the process model's
concrete systems.
-/
import SfntV.Model.DslExplain
import SfntV.Proofs.DslProc

namespace SfntV.Dsl

/-- `Parse(ExplainGsub(ls)) = ls` on the model (up to the 1.1/1.2 identification) -/
def rtOk (f : Font) (ls : List Lookup) : Bool :=
  match parseBytes f (explainGsub f ls) with
  | .ok r => r == normalize ls
  | .error _ => false

/-- all sublists (as ascending coverage lists) of `l` -/
def sublists : List Nat → List (List Nat)
  | [] => [[]]
  | x :: xs => (sublists xs).map (x :: ·) ++ sublists xs

/-- all lists over `alphabet` of length ≤ `n` -/
def listsUpTo (alphabet : List Nat) : Nat → List (List Nat)
  | 0 => [[]]
  | n + 1 => [] :: (listsUpTo alphabet n).flatMap fun l => alphabet.map (· :: l)

/-- all functions from the keys `ks` to `vals`, as value lists -/
def assignments {β : Type} (vals : List β) : List Nat → List (List β)
  | [] => [[]]
  | _ :: ks => (assignments vals ks).flatMap fun l => vals.map (· :: l)

end SfntV.Dsl

namespace SfntV.Dsl.Proc

theorem okP_prog (n : Nat) : okP ((List.replicate n [PInstr.tau, .send]).flatten ++ [.close]) = true := by
  induction n with
  | zero => rfl
  | succ n ih => simpa [List.replicate_succ, okP] using ih

theorem sends_prog (n : Nat) : sends ((List.replicate n [PInstr.tau, .send]).flatten ++ [.close]) = n := by
  induction n with
  | zero => rfl
  | succ n ih => simp [List.replicate_succ, sends, ih]

theorem recvs_prog (k : Nat) (tail : List CInstr) :
    recvs ((List.replicate k [CInstr.tau, .recvT]).flatten ++ tail) = k + recvs tail := by
  induction k with
  | zero => simp
  | succ k ih => simp [List.replicate_succ, recvs, ih]; omega

theorem plainC_prog (k : Nat) (tail : List CInstr) (h : plainC tail = true) :
    plainC ((List.replicate k [CInstr.tau, .recvT]).flatten ++ tail) = true := by
  induction k with
  | zero => simpa using h
  | succ k ih => simpa [List.replicate_succ, plainC] using ih

theorem hasDrain_prog (k : Nat) :
    hasDrain ((List.replicate k [CInstr.tau, .recvT]).flatten ++ [.drainT]) = true := by
  induction k with
  | zero => rfl
  | succ k ih => simpa [List.replicate_succ, hasDrain] using ih

/-- the repaired `Parse` satisfies the invariant whenever it either drains after a `fatal` or
takes all the items (it returns normally only on the EOF item, which the lexer sends last) -/
theorem inv_repaired (n k : Nat) (fatal : Bool) (h : fatal = true ∨ n ≤ k) : Inv (repaired n k fatal) := by
  refine ⟨rfl, ?_, ?_, ?_⟩
  · cases fatal with
    | true => exact plainC_prog k [.drainT] rfl
    | false =>
      have := plainC_prog k [] rfl
      simpa [repaired] using this
  · simp [repaired, okP_prog]
  · cases fatal with
    | true => left; exact hasDrain_prog k
    | false =>
      right
      have hk : n ≤ k := by simpa using h
      have h1 := recvs_prog k []
      have h2 := sends_prog n
      simp only [List.append_nil] at h1
      show sends _ ≤ recvs _
      simp only [repaired, Bool.false_eq_true, if_false, List.append_nil]
      rw [h1, h2]
      simp [recvs]
      exact hk

end SfntV.Dsl.Proc
