/-
C02 ↔ C14: erasing panic sites and costs from the checked-index model of `post.Read`
(`SfntV.Total.Metrics.postRead`) gives the value-level model `SfntV.Names.postReadWith` of C14 on
EVERY input (all versions, version 2.0 glyph names included), error classes included.  The two
models differ in representation only: C14 works on `List Nat` and consumes the input as a list, the
checked-index model works on `List UInt8` with an explicit parser position.
-/
import SfntV.Proofs.TotalMetricsErase
import SfntV.Model.NamesPost

namespace SfntV.Total.Metrics
open SfntV SfntV.Total
open SfntV.Total.Gdef (idx_ok ok_bind bind_noPanic bind_eq_ok mkSlice_ok)

/-- bytes as the numbers below 256 that C14 uses -/
def toNats (b : Bytes) : List Nat := b.map UInt8.toNat

/-- C14's result type: header fields, names as lists of numbers; error class "unsupported" is
`PostRes.unsupported`, every other error is `PostRes.err` -/
def postResOf : Outcome PostInfo → SfntV.Names.PostRes
  | .ok p => .ok ⟨p.angle, p.upos, p.uthick, p.fixed⟩ (p.names.map (·.map toNats))
  | .err e => if e = "unsupported" then .unsupported else .err
  | .panic _ => .err

/-! ## list facts -/

theorem drop_getD (l : Bytes) (p : Nat) (h : p < l.length) :
    l.drop p = l.getD p 0 :: l.drop (p + 1) := by
  rw [List.drop_eq_getElem_cons h, List.getD_eq_getElem?_getD, List.getElem?_eq_getElem h]
  rfl

theorem toNats_drop_length (b : Bytes) (p : Nat) : (toNats (b.drop p)).length = b.length - p := by
  unfold toNats
  rw [List.length_map, List.length_drop]

/-! ## single reads -/

theorem rd16_N (b : Bytes) (p : Nat) (h : p + 2 ≤ b.length) :
    SfntV.Names.rd16 (toNats (b.drop p)) = some (SfntV.Metrics.rdU16 b p, toNats (b.drop (p + 2))) := by
  rw [drop_getD b p (by omega), drop_getD b (p + 1) (by omega)]
  rfl

theorem rd16_N_none (b : Bytes) (p : Nat) (h : ¬ p + 2 ≤ b.length) :
    SfntV.Names.rd16 (toNats (b.drop p)) = none := by
  have hl : (b.drop p).length < 2 := by rw [List.length_drop]; omega
  generalize b.drop p = l at hl
  match l, hl with
  | [], _ => rfl
  | [_], _ => rfl
  | _ :: _ :: _, hl => simp only [List.length_cons] at hl; omega

theorem drop4 (b : Bytes) (p : Nat) (h : p + 4 ≤ b.length) :
    b.drop p = b.getD p 0 :: b.getD (p + 1) 0 :: b.getD (p + 2) 0 :: b.getD (p + 3) 0 ::
      b.drop (p + 4) := by
  rw [drop_getD b p (by omega), drop_getD b (p + 1) (by omega), drop_getD b (p + 1 + 1) (by omega),
    drop_getD b (p + 1 + 1 + 1) (by omega)]

theorem rd32_N (b : Bytes) (p : Nat) (h : p + 4 ≤ b.length) :
    SfntV.Names.rd32 (toNats (b.drop p)) = some (SfntV.Metrics.rdU32 b p, toNats (b.drop (p + 4))) := by
  rw [drop4 b p h]
  show some ((((b.getD p 0).toNat * 256 + (b.getD (p + 1) 0).toNat) * 256 + (b.getD (p + 2) 0).toNat) * 256 +
    (b.getD (p + 3) 0).toNat, toNats (b.drop (p + 4))) = _
  unfold SfntV.Metrics.rdU32 SfntV.Metrics.rdU16 SfntV.Metrics.rdU8
  have e : ∀ a b c d : Nat, ((a * 256 + b) * 256 + c) * 256 + d = (a * 256 + b) * 65536 + (c * 256 + d) := by
    intro a b c d; omega
  rw [e]

theorem rdBytes_N (b : Bytes) (p n : Nat) (hp : p ≤ b.length) :
    SfntV.Names.rdBytes n (toNats (b.drop p)) =
      if p + n ≤ b.length then some (toNats ((b.drop p).take n), toNats (b.drop (p + n))) else none := by
  unfold SfntV.Names.rdBytes
  rw [toNats_drop_length]
  by_cases h : p + n ≤ b.length
  · rw [if_pos (by omega), if_pos h]
    unfold toNats
    rw [List.map_take, List.map_drop, List.map_drop, List.drop_drop]
  · rw [if_neg (by omega), if_neg h]

theorem rdParser_eq (site : String) (b : Bytes) (p n : Nat) (hn : n ≤ 1024) (h : p + n ≤ b.length) :
    rdParser site b p n = .ok ((b.drop p).take n) := by
  unfold rdParser readBytes
  rw [if_neg (by omega), if_pos h]

theorem rdParser_short (site : String) (b : Bytes) (p n : Nat) (hn : n ≤ 1024) (h : ¬ p + n ≤ b.length) :
    rdParser site b p n = .err "short" := by
  unfold rdParser readBytes
  rw [if_neg (by omega), if_neg h]

theorem take2 (b : Bytes) (p : Nat) (h : p + 2 ≤ b.length) :
    (b.drop p).take 2 = [b.getD p 0, b.getD (p + 1) 0] := by
  rw [drop_getD b p (by omega), drop_getD b (p + 1) (by omega)]
  rfl

theorem take1 (b : Bytes) (p : Nat) (h : p + 1 ≤ b.length) : (b.drop p).take 1 = [b.getD p 0] := by
  rw [drop_getD b p (by omega)]
  rfl

theorem rdU16_lt (b : Bytes) (p : Nat) : SfntV.Metrics.rdU16 b p < 65536 := by
  unfold SfntV.Metrics.rdU16 SfntV.Metrics.rdU8
  have h1 := (b.getD p 0).toNat_lt
  have h2 := (b.getD (p + 1) 0).toNat_lt
  omega

/-! ## `ReadUint16Slice` -/

def u16sRel (b : Bytes) (acc : List Nat) (pos n : Nat) :
    Option (List Nat × List Nat) → Outcome ((List Nat × Nat) × Cost) → Prop
  | none, r => r = .err "short"
  | some (vs, rest), r =>
    ∃ c', r = .ok ((acc.reverse ++ vs, pos + 2 * n), c') ∧ rest = toNats (b.drop (pos + 2 * n))

theorem readU16s_rel (b : Bytes) : ∀ (n pos : Nat) (acc : List Nat) (c : Cost),
    u16sRel b acc pos n (SfntV.Names.rd16s n (toNats (b.drop pos))) (readU16s b n pos acc c)
  | 0, pos, acc, c => by
    unfold SfntV.Names.rd16s readU16s u16sRel
    exact ⟨c, by simp, rfl⟩
  | n+1, pos, acc, c => by
    unfold SfntV.Names.rd16s readU16s
    by_cases h : pos + 2 ≤ b.length
    · rw [rd16_N b pos h, rdParser_eq _ b pos 2 (by omega) h, ok_bind, take2 b pos h]
      rw [show w16 "parser.go:125#buf[0],buf[1]" [b.getD pos 0, b.getD (pos + 1) 0] 0 =
        .ok (SfntV.Metrics.rdU16 b pos) from rfl, ok_bind]
      have ih := readU16s_rel b n (pos + 2) (SfntV.Metrics.rdU16 b pos :: acc) c.tick
      dsimp only
      cases hr : SfntV.Names.rd16s n (toNats (b.drop (pos + 2))) with
      | none =>
        rw [hr] at ih
        exact ih
      | some p =>
        obtain ⟨vs, rest⟩ := p
        rw [hr] at ih
        obtain ⟨c', h1, h2⟩ := ih
        refine ⟨c', ?_, ?_⟩
        · rw [h1]
          simp only [List.reverse_cons, List.append_assoc, List.singleton_append]
          congr 3
          omega
        · rw [h2]
          congr 2
          omega
    · rw [rd16_N_none b pos h, rdParser_short _ b pos 2 (by omega) h]
      rfl

/-! ## the Pascal strings -/

def fillRel (b : Bytes) : Option (List SfntV.Names.GName × List Nat) →
    Outcome ((List Bytes × Nat) × Cost) → Prop
  | none, r => r = .err "short"
  | some (ns, rest), r =>
    ∃ names' pos' c', r = .ok ((names', pos'), c') ∧ ns = names'.map toNats ∧
      rest = toNats (b.drop pos')

theorem postFill_rel (b : Bytes) : ∀ (cnt : Nat) (names : List Bytes) (pos : Nat) (c : Cost),
    fillRel b (SfntV.Names.postFill cnt (names.map toNats) (toNats (b.drop pos)))
      (postFill b cnt names pos c)
  | 0, names, pos, c => by
    unfold SfntV.Names.postFill postFill fillRel
    exact ⟨names, pos, c, rfl, rfl, rfl⟩
  | cnt+1, names, pos, c => by
    unfold SfntV.Names.postFill postFill
    by_cases h : pos + 1 ≤ b.length
    · rw [drop_getD b pos (by omega)]
      rw [show toNats (b.getD pos 0 :: b.drop (pos + 1)) =
        (b.getD pos 0).toNat :: toNats (b.drop (pos + 1)) from rfl]
      dsimp only
      rw [rdBytes_N b (pos + 1) _ h, rdParser_eq _ b pos 1 (by omega) h, ok_bind, take1 b pos h,
        show idx "parser.go:116#buf[0]" [b.getD pos 0] 0 = .ok (b.getD pos 0) from rfl, ok_bind]
      have hlt := (b.getD pos 0).toNat_lt
      by_cases h2 : pos + 1 + (b.getD pos 0).toNat ≤ b.length
      · rw [if_pos h2, rdParser_eq _ b (pos + 1) _ (by omega) h2, ok_bind]
        dsimp only
        have ih := postFill_rel b cnt (names ++ [(b.drop (pos + 1)).take (b.getD pos 0).toNat])
          (pos + 1 + (b.getD pos 0).toNat) ((c.tick 2).mem (1 + (b.getD pos 0).toNat))
        rw [List.map_append] at ih
        exact ih
      · rw [if_neg h2, rdParser_short _ b (pos + 1) _ (by omega) h2]
        rfl
    · rw [List.drop_eq_nil_of_le (by omega), rdParser_short _ b pos 1 (by omega) h]
      rfl

/-! ## the loop over `glyphNameIndex` -/

theorem getD_map_toNats (l : List Bytes) (j : Nat) (h : j < l.length) :
    (l.map toNats).getD j [] = toNats l[j] := by
  rw [List.getD_eq_getElem?_getD, List.getElem?_map, List.getElem?_eq_getElem h]
  rfl

/-- writing `nm` at `i` and then the block `rs` behind it = writing the block `nm :: rs` at `i` -/
theorem set_split (out : List Bytes) (i k : Nat) (nm : Bytes) (rs : List Bytes) (h : i < out.length) :
    (out.set i nm).take (i + 1) ++ rs ++ (out.set i nm).drop (i + 1 + k) =
      out.take i ++ (nm :: rs) ++ out.drop (i + (k + 1)) := by
  have hs : out.set i nm = out.take i ++ nm :: out.drop (i + 1) := by
    rw [List.set_eq_take_append_cons_drop, if_pos h]
  have hl : (out.take i).length = i := by rw [List.length_take]; omega
  rw [hs]
  have h1 : (out.take i ++ nm :: out.drop (i + 1)).take (i + 1) = out.take i ++ [nm] := by
    rw [List.take_append, hl, List.take_of_length_le (by omega)]
    simp
  have h2 : (out.take i ++ nm :: out.drop (i + 1)).drop (i + 1 + k) = out.drop (i + (k + 1)) := by
    rw [List.drop_append, hl, List.drop_of_length_le (by omega), List.nil_append,
      show i + 1 + k - i = k + 1 by omega, List.drop_succ_cons, List.drop_drop]
    congr 1
    omega
  rw [h1, h2]
  simp

def namesRel (out : List Bytes) (i k : Nat) : Option (List SfntV.Names.GName) →
    Outcome (List Bytes × Cost) → Prop
  | none, r => r = .err "short"
  | some rs, r =>
    ∃ rs' c', r = .ok (out.take i ++ rs' ++ out.drop (i + k), c') ∧ rs = rs'.map toNats

theorem postNames_rel (tbl : List Bytes) (b : Bytes) : ∀ (idxs : List Nat) (i : Nat)
    (out names : List Bytes) (pos : Nat) (c : Cost), i + idxs.length ≤ out.length →
    namesRel out i idxs.length
      (SfntV.Names.postReadNames (tbl.map toNats) idxs (names.map toNats) (toNats (b.drop pos)))
      (postNames tbl b idxs i out names pos c)
  | [], i, out, names, pos, c, _ => by
    unfold SfntV.Names.postReadNames postNames namesRel
    refine ⟨[], c, ?_, rfl⟩
    simp
  | gi :: rest, i, out, names, pos, c, h => by
    simp only [List.length_cons] at h
    unfold SfntV.Names.postReadNames postNames
    rw [List.length_map]
    dsimp only
    by_cases hm : gi < tbl.length
    · rw [if_pos hm, if_pos hm, idx_ok _ tbl gi hm, ok_bind, setAt_ok _ _ _ _ (by omega), ok_bind,
        getD_map_toNats tbl gi hm]
      have ih := postNames_rel tbl b rest (i + 1) (out.set i tbl[gi]) names pos c.tick
        (by rw [List.length_set]; omega)
      cases hr : SfntV.Names.postReadNames (tbl.map toNats) rest (names.map toNats)
          (toNats (b.drop pos)) with
      | none =>
        rw [hr] at ih
        exact ih
      | some rs =>
        rw [hr] at ih
        obtain ⟨rs', c', h1, h2⟩ := ih
        refine ⟨tbl[gi] :: rs', c', ?_, ?_⟩
        · rw [h1, set_split out i rest.length _ _ (by omega)]
          rfl
        · rw [h2]
          rfl
    · rw [if_neg hm, if_neg hm]
      have hf := postFill_rel b (gi - tbl.length + 1 - names.length) names pos c.tick
      rw [show (names.map toNats).length = names.length from List.length_map _]
      cases hfill : SfntV.Names.postFill (gi - tbl.length + 1 - names.length) (names.map toNats)
          (toNats (b.drop pos)) with
      | none =>
        rw [hfill] at hf
        unfold fillRel at hf
        rw [hf]
        rfl
      | some q =>
        obtain ⟨ns, rest2⟩ := q
        rw [hfill] at hf
        obtain ⟨names', pos', c1, hf1, hf2, hf3⟩ := hf
        obtain ⟨hl, _⟩ := postFill_ok _ _ _ _ _ _ _ _ hf1
        have hj : gi - tbl.length < names'.length := by omega
        rw [hf1, ok_bind]
        dsimp only
        rw [idx_ok _ names' _ hj, ok_bind, setAt_ok _ _ _ _ (by omega), ok_bind, hf2, hf3,
          getD_map_toNats names' _ hj]
        have ih := postNames_rel tbl b rest (i + 1) (out.set i names'[gi - tbl.length]) names' pos' c1
          (by rw [List.length_set]; omega)
        cases hr : SfntV.Names.postReadNames (tbl.map toNats) rest (names'.map toNats)
            (toNats (b.drop pos')) with
        | none =>
          rw [hr] at ih
          exact ih
        | some rs =>
          rw [hr] at ih
          obtain ⟨rs', c', h1, h2⟩ := ih
          refine ⟨names'[gi - tbl.length] :: rs', c', ?_, ?_⟩
          · rw [h1, set_split out i rest.length _ _ (by omega)]
            rfl
          · rw [h2]
            rfl

/-! ## the header -/

theorem rd32_N_none (b : Bytes) (p : Nat) (h : ¬ p + 4 ≤ b.length) :
    SfntV.Names.rd32 (toNats (b.drop p)) = none := by
  have hl : (b.drop p).length < 4 := by rw [List.length_drop]; omega
  generalize b.drop p = l at hl
  match l, hl with
  | [], _ => rfl
  | [_], _ => rfl
  | [_, _], _ => rfl
  | [_, _, _], _ => rfl
  | _ :: _ :: _ :: _ :: _, hl => simp only [List.length_cons] at hl; omega

/-- what C14's reader does after the 32-byte header -/
def c14Body (tbl' : List SfntV.Names.GName) (b : Bytes) : SfntV.Names.PostRes :=
  let version := SfntV.Metrics.rdU32 b 0
  let h : SfntV.Names.PostHdr := ⟨SfntV.Metrics.rdU32 b 4, SfntV.Metrics.rdU16 b 8,
    SfntV.Metrics.rdU16 b 10, SfntV.Metrics.rdU32 b 12 != 0⟩
  if version = 0x00010000 then .ok h (some tbl')
  else if version = 0x00020000 then
    match SfntV.Names.rd16 (toNats (b.drop 32)) with
    | none => .err
    | some (n, b1) =>
      match SfntV.Names.rd16s n b1 with
      | none => .err
      | some (idxs, b2) =>
        match SfntV.Names.postReadNames tbl' idxs [] b2 with
        | none => .err
        | some names => .ok h (some names)
  else if version = 0x00030000 || version = 0x00040000 then .ok h none
  else .unsupported

theorem c14_header (tbl' : List SfntV.Names.GName) (b : Bytes) :
    SfntV.Names.postReadWith tbl' (toNats b) = if b.length < 32 then .err else c14Body tbl' b := by
  unfold SfntV.Names.postReadWith
  rw [show toNats b = toNats (b.drop 0) from rfl]
  by_cases h4 : b.length < 4
  · rw [rd32_N_none b (0) (by omega), if_pos (by omega)]
  rw [rd32_N b (0) (by omega)]
  dsimp only
  by_cases h8 : b.length < 8
  · rw [rd32_N_none b (0 + 4) (by omega), if_pos (by omega)]
  rw [rd32_N b (0 + 4) (by omega)]
  dsimp only
  by_cases h10 : b.length < 10
  · rw [rd16_N_none b (0 + 4 + 4) (by omega), if_pos (by omega)]
  rw [rd16_N b (0 + 4 + 4) (by omega)]
  dsimp only
  by_cases h12 : b.length < 12
  · rw [rd16_N_none b (0 + 4 + 4 + 2) (by omega), if_pos (by omega)]
  rw [rd16_N b (0 + 4 + 4 + 2) (by omega)]
  dsimp only
  by_cases h16 : b.length < 16
  · rw [rd32_N_none b (0 + 4 + 4 + 2 + 2) (by omega), if_pos (by omega)]
  rw [rd32_N b (0 + 4 + 4 + 2 + 2) (by omega)]
  dsimp only
  rw [rdBytes_N b (0 + 4 + 4 + 2 + 2 + 4) 16 (by omega)]
  by_cases h32 : b.length < 32
  · rw [if_neg (by omega), if_pos h32]
  rw [if_pos (by omega), if_neg h32]
  rfl

/-! ## `post.Read` -/

/-- Erasing panic sites and costs from the checked-index model of `post.Read` gives C14's model
`SfntV.Names.postReadWith` on the same bytes and the same standard-name table — on EVERY input, all
versions (in particular every input whose version word is 0x00020000), error classes included. -/
theorem postRead_erase_names (tbl : List Bytes) (b : Bytes) :
    postResOf (erase (postRead tbl b)) = SfntV.Names.postReadWith (tbl.map toNats) (toNats b) := by
  rw [c14_header]
  unfold postRead
  by_cases hlen : b.length < 32
  · rw [if_pos hlen, rdParser_short _ b 0 32 (by omega) (by omega)]
    rfl
  rw [if_neg hlen, rdParser_eq _ b 0 32 (by omega) (by omega), ok_bind]
  unfold c14Body
  simp (disch := omega) only [rdU32_win, rdU16_win, Nat.zero_add]
  by_cases h1 : SfntV.Metrics.rdU32 b 0 = 0x00010000
  · rw [if_pos h1, if_pos h1]
    rfl
  rw [if_neg h1, if_neg h1]
  by_cases h2 : SfntV.Metrics.rdU32 b 0 = 0x00020000
  · rw [if_pos h2, if_pos h2]
    by_cases h34 : ¬ 32 + 2 ≤ b.length
    · rw [rdParser_short _ b 32 2 (by omega) h34, rd16_N_none b 32 h34]
      rfl
    have h34' : 32 + 2 ≤ b.length := by omega
    rw [rdParser_eq _ b 32 2 (by omega) h34', ok_bind, take2 b 32 h34', rd16_N b 32 h34',
      show w16 "parser.go:125#buf[0],buf[1]" [b.getD 32 0, b.getD (32 + 1) 0] 0 =
        .ok (SfntV.Metrics.rdU16 b 32) from rfl, ok_bind,
      mkSlice_ok _ _ _ (rdU16_lt b 32), ok_bind]
    dsimp only
    generalize hn : SfntV.Metrics.rdU16 b 32 = n
    have hn16 : n < 65536 := by rw [← hn]; exact rdU16_lt b 32
    have hu := readU16s_rel b n (32 + 2) [] (((Cost.zero.tick.mem 1).tick).mem n)
    simp only [Nat.reduceAdd] at hu ⊢
    cases hr : SfntV.Names.rd16s n (toNats (b.drop 34)) with
    | none =>
      rw [hr] at hu
      unfold u16sRel at hu
      rw [hu]
      rfl
    | some q =>
      obtain ⟨idxs, b2⟩ := q
      rw [hr] at hu
      obtain ⟨c1, hu1, hu2⟩ := hu
      obtain ⟨hil, _⟩ := readU16s_ok _ _ _ _ _ _ _ _ hu1
      simp only [List.reverse_nil, List.nil_append, List.length_nil, Nat.zero_add] at hu1 hil
      rw [hu1, ok_bind]
      dsimp only
      rw [mkSlice_ok _ _ _ (by omega), ok_bind, hu2]
      have hp := postNames_rel tbl b idxs 0 (List.replicate idxs.length []) [] (34 + 2 * n)
        (c1.mem idxs.length) (by rw [List.length_replicate]; omega)
      rw [show (([] : List Bytes).map toNats) = [] from rfl] at hp
      cases hq : SfntV.Names.postReadNames (tbl.map toNats) idxs [] (toNats (b.drop (34 + 2 * n))) with
      | none =>
        rw [hq] at hp
        unfold namesRel at hp
        rw [hp]
        rfl
      | some rs =>
        rw [hq] at hp
        obtain ⟨rs', c2, hp1, hp2⟩ := hp
        rw [hp1, ok_bind, hp2]
        have hd : (List.replicate idxs.length ([] : Bytes)).drop (0 + idxs.length) = [] :=
          List.drop_of_length_le (by rw [List.length_replicate]; omega)
        rw [hd]
        simp only [List.take_zero, List.nil_append, List.append_nil]
        rfl
  rw [if_neg h2, if_neg h2]
  by_cases h34 : SfntV.Metrics.rdU32 b 0 = 0x00030000 ∨ SfntV.Metrics.rdU32 b 0 = 0x00040000
  · rw [if_pos h34, if_pos (by simpa using h34)]
    rfl
  · rw [if_neg h34, if_neg (by simpa using h34)]
    rfl

/-- the instance used on the verdict stream (`Drive/TotalMetrics.macTable`): with the regenerated
table `post.macRoman` the erased checked-index model IS C14's `SfntV.Names.postRead` -/
theorem postRead_erase_names_mac (b : Bytes) :
    postResOf (erase (postRead (SfntV.Gen.postMacRoman.map fun s => s.toUTF8.toList) b)) =
      SfntV.Names.postRead (toNats b) := by
  rw [postRead_erase_names]
  unfold SfntV.Names.postRead SfntV.Names.postTable toNats
  rw [List.map_map]
  rfl

/-- non-vacuity: a version 2.0 table with standard and Pascal-string names, through the bridge -/
example : SfntV.Names.postReadWith [[46,110],[65]]
    ([0,2,0,0, 255,244,0,0, 255,156, 0,50, 0,0,0,1] ++ List.replicate 16 0 ++
      [0,3, 0,1, 0,3, 0,2] ++ [1,120] ++ [0] ++ [2,121,122]) =
    .ok ⟨4294180864, 65436, 50, true⟩ (some [[65], [], [120]]) := by
  have h := postRead_erase_names [[46,110],[65]]
    ([0,2,0,0, 255,244,0,0, 255,156, 0,50, 0,0,0,1] ++ List.replicate 16 0 ++
      [0,3, 0,1, 0,3, 0,2] ++ [1,120] ++ [0] ++ [2,121,122])
  rw [show postRead [[46,110],[65]]
    ([0,2,0,0, 255,244,0,0, 255,156, 0,50, 0,0,0,1] ++ List.replicate 16 0 ++
      [0,3, 0,1, 0,3, 0,2] ++ [1,120] ++ [0] ++ [2,121,122]) =
    .ok (⟨0x00020000, 4294180864, 65436, 50, true, some [[65], [], [120]]⟩, ⟨12, 10⟩) by
      decide +kernel] at h
  exact h.symm

end SfntV.Total.Metrics
