/-
C10 — the subset's rebuilt tables lie in the domains of the other areas' codec theorems:
C08 (coverage tables, GSUB 1.2 / 4.1, GPOS 2.1), C09b (cmap format 12 maps; format 4 needs only
16-bit values), C13 (CFF built-in encoding).  Nothing here is linked into the driver.
-/
import SfntV.Proofs.SubsetOrder
import SfntV.Proofs.SubsetWritable
import SfntV.Proofs.OtlGsub
import SfntV.Proofs.OtlGpos

namespace SfntV.Subset
open SfntV.Otl

/-- The domain predicate of `C09_fmt12` / `C09_fmt12_lib`, restated verbatim from
`SfntV.C09b.Map32` (Props/C09b.lean is not imported: a Props file of another area; it did not build
when this was written): a Go map `uint32 → glyph.ID` as the list of its entries sorted by key — keys
strictly ascending and 32-bit, glyph ids 16-bit. -/
def Map32 (m : List (Nat × Nat)) : Prop :=
  m.Pairwise (fun a b => a.1 < b.1) ∧ ∀ k ∈ m, k.1 < 4294967296 ∧ k.2 < 65536

/-! ### sorting by key -/

/-- entries of a Go map in the order of their keys (what the encoders iterate over) -/
def sortKeys {α : Type} (l : List (Nat × α)) : List (Nat × α) :=
  l.mergeSort fun a b => decide (a.1 ≤ b.1)

theorem sortKeys_perm {α : Type} (l : List (Nat × α)) : (sortKeys l).Perm l :=
  List.mergeSort_perm l _

theorem sortKeys_strict {α : Type} (l : List (Nat × α)) (h : (l.map (·.1)).Nodup) :
    (sortKeys l).Pairwise (fun a b => a.1 < b.1) := by
  have hsorted := List.pairwise_mergeSort (le := fun (a b : Nat × α) => decide (a.1 ≤ b.1))
    (by intro a b c h1 h2; simp only [decide_eq_true_eq] at *; omega)
    (by intro a b; simp only [Bool.or_eq_true, decide_eq_true_eq]; omega) l
  have hnd : ((sortKeys l).map (·.1)).Nodup :=
    ((sortKeys_perm l).map (·.1)).nodup_iff.2 h
  have hnd' : (sortKeys l).Pairwise (fun a b => a.1 ≠ b.1) := by
    unfold List.Nodup at hnd; rw [List.pairwise_map] at hnd; exact hnd
  refine List.Pairwise.imp ?_ (hsorted.and hnd')
  intro a b hab
  have : a.1 ≤ b.1 := by simpa using hab.1
  have := hab.2
  omega

theorem strict_length_le : ∀ (l : List Nat) (k n : Nat), l.Pairwise (· < ·) →
    (∀ x ∈ l, k ≤ x ∧ x < n) → l.length ≤ n - k := by
  intro l
  induction l with
  | nil => intro k n _ _; simp
  | cons a t ih =>
    intro k n hp hb
    rw [List.pairwise_cons] at hp
    have ha := hb a List.mem_cons_self
    have := ih (a + 1) n hp.2 (fun x hx =>
      ⟨hp.1 x hx, (hb x (List.mem_cons_of_mem _ hx)).2⟩)
    simp only [List.length_cons]; omega

/-- pigeonhole: a duplicate-free list of naturals below `n` has at most `n` elements -/
theorem nodup_length_le (l : List Nat) (n : Nat) (h : l.Nodup) (hb : ∀ x ∈ l, x < n) :
    l.length ≤ n := by
  have hs := sortKeys_strict (l.map fun x => (x, ())) (by simpa [List.map_map, Function.comp_def] using h)
  have hp := sortKeys_perm (l.map fun x => (x, ()))
  have h1 : ((sortKeys (l.map fun x => (x, ()))).map (·.1)).Pairwise (· < ·) := by
    rw [List.pairwise_map]; exact hs
  have h2 := strict_length_le _ 0 n h1 (by
    intro x hx
    have : x ∈ (l.map fun x => (x, ())).map (·.1) := ((hp.map (·.1)).mem_iff).1 hx
    simp only [List.map_map, Function.comp_def, List.map_id'] at this
    exact ⟨Nat.zero_le _, hb x this⟩)
  have h3 : (sortKeys (l.map fun x => (x, ()))).length = l.length := by
    rw [hp.length_eq]; simp
  simp only [List.length_map] at h2
  omega

/-! ### new glyph ids are small -/

theorem look_lt {s : St} (h : Inv s) (hne : s.glyphs ≠ []) (g : Gid) : look s g < s.glyphs.length := by
  unfold look
  cases hl : s.newGid.lookup g with
  | none =>
    simp only [Option.getD_none]
    cases hg : s.glyphs with
    | nil => exact absurd hg hne
    | cons a t => simp
  | some n =>
    simp only [Option.getD_some]
    have := (h g n).1 hl
    rcases Nat.lt_or_ge n s.glyphs.length with h1 | h1
    · exact h1
    · rw [List.getElem?_eq_none h1] at this; cases this

/-! ### the rebuilt GSUB subtables -/

/-- keys distinct, all glyph ids below `n` -/
def GsubOutOK (n : Nat) : GsubOut → Prop
  | .multi m => (m.map (·.1)).Nodup ∧ ∀ e ∈ m, e.1 < n ∧ e.2 < n
  | .ligs es => (es.map (·.1)).Nodup ∧
      ∀ e ∈ es, e.1 < n ∧ ∀ lig ∈ e.2, lig.2 < n ∧ ∀ x ∈ lig.1, x < n

/-- the covered glyphs of the original subtables are distinct (keys of Go maps) -/
def GsubSubWF : GsubSub → Prop
  | .single cov _ => cov.Nodup
  | .ligs es => (es.map (·.1)).Nodup

theorem subSingle_ok {s : St} (h : Inv s) (hne : s.glyphs ≠ []) (d : Nat) : ∀ (cov : List Gid),
    cov.Nodup → (subSingle s d cov).1 = s →
    (∀ r ∈ rulesOfSub (.single cov d), Fires s r) →
    ((subSingle s d cov).2.map (·.1)).Nodup ∧
    (∀ e ∈ (subSingle s d cov).2, (∃ g ∈ cov, s.has g = true ∧ e.1 = look s g) ∧
      e.1 < s.glyphs.length ∧ e.2 < s.glyphs.length) := by
  intro cov
  induction cov with
  | nil => intro _ _ _; simp [subSingle]
  | cons g gs ih =>
    intro hnd _ hf
    have hnd' := List.nodup_cons.1 hnd
    have hf' : ∀ r ∈ rulesOfSub (.single gs d), Fires s r := by
      intro r hr; apply hf; simp only [rulesOfSub, List.map_cons] at hr ⊢
      exact List.mem_cons_of_mem _ hr
    have hst := (subSingle_closed s d gs hf').1
    have hi := ih hnd'.2 hst hf'
    simp only [subSingle]
    cases hl : s.newGid.lookup g with
    | none =>
      simp only
      refine ⟨hi.1, ?_⟩
      intro e he
      obtain ⟨⟨g', hg', hx⟩, hb⟩ := hi.2 e he
      exact ⟨⟨g', List.mem_cons_of_mem _ hg', hx⟩, hb⟩
    | some nf =>
      have hh := has_of_lookup hl
      have hout : s.has ((g + d) % 65536) = true := by
        have := hf ⟨[g], [(g + d) % 65536]⟩ (by simp [rulesOfSub])
        exact this (by simpa using hh.1) _ (by simp)
      simp only [getNewGid_has hout, List.map_cons, List.nodup_cons, List.mem_cons]
      refine ⟨⟨?_, hi.1⟩, ?_⟩
      · intro hmem
        obtain ⟨e, he, hk⟩ := List.mem_map.1 hmem
        obtain ⟨⟨g', hg', hhas, hx⟩, _⟩ := hi.2 e he
        have : g = g' := look_inj h hh.1 hhas (by rw [hh.2, ← hk, hx])
        exact hnd'.1 (this ▸ hg')
      · intro e he
        rcases he with rfl | he
        · refine ⟨⟨g, Or.inl rfl, hh.1, hh.2.symm⟩, ?_, look_lt h hne _⟩
          rw [← hh.2]; exact look_lt h hne g
        · obtain ⟨⟨g', hg', hx⟩, hb⟩ := hi.2 e he
          exact ⟨⟨g', Or.inr hg', hx⟩, hb⟩

theorem subLigs_ok {s : St} (h : Inv s) (hne : s.glyphs ≠ []) : ∀ (ligs : List Lig),
    (subLigs s ligs).1 = s → (∀ lig ∈ ligs, lig.1.all s.has = true → s.has lig.2 = true) →
    ∀ lig ∈ (subLigs s ligs).2, lig.2 < s.glyphs.length ∧ ∀ x ∈ lig.1, x < s.glyphs.length := by
  intro ligs
  induction ligs with
  | nil => intro _ _ lig hl; simp [subLigs] at hl
  | cons lig rest ih =>
    intro _ hcl
    have hcl' : ∀ l ∈ rest, l.1.all s.has = true → s.has l.2 = true :=
      fun l hl => hcl l (List.mem_cons_of_mem _ hl)
    simp only [subLigs]
    cases hall : lig.1.all s.has with
    | false =>
      simp only [Bool.false_eq_true, if_false]
      -- state unchanged on the rest as well
      intro l' hl'
      have hst : (subLigs s rest).1 = s := by
        have := ‹(subLigs s (lig :: rest)).1 = s›
        simpa [subLigs, hall] using this
      exact ih hst hcl' l' hl'
    | true =>
      have hins : ∀ g ∈ lig.1, s.has g = true := by simpa using hall
      have hout := hcl lig List.mem_cons_self hall
      simp only [if_true, getNewGid_has hout, getMany_has lig.1 s hins]
      have hst : (subLigs s rest).1 = s := by
        have := ‹(subLigs s (lig :: rest)).1 = s›
        simpa [subLigs, hall, getNewGid_has hout, getMany_has lig.1 s hins] using this
      intro l' hl'
      rcases List.mem_cons.1 hl' with rfl | hl'
      · refine ⟨look_lt h hne _, ?_⟩
        intro x hx
        obtain ⟨g, _, rfl⟩ := List.mem_map.1 hx
        exact look_lt h hne g
      · exact ih hst hcl' l' hl'

theorem subEntries_ok {s : St} (h : Inv s) (hne : s.glyphs ≠ []) : ∀ (es : List (Gid × List Lig)),
    (es.map (·.1)).Nodup → (∀ r ∈ entriesRules es, Fires s r) →
    ((subEntries s es).2.map (·.1)).Nodup ∧
    (∀ e ∈ (subEntries s es).2, (∃ e0 ∈ es, s.has e0.1 = true ∧ e.1 = look s e0.1) ∧
      e.1 < s.glyphs.length ∧
      ∀ lig ∈ e.2, lig.2 < s.glyphs.length ∧ ∀ x ∈ lig.1, x < s.glyphs.length) := by
  intro es
  induction es with
  | nil => intro _ _; simp [subEntries]
  | cons e0 rest ih =>
    intro hnd hf
    have hnd' : e0.1 ∉ rest.map (·.1) ∧ (rest.map (·.1)).Nodup := by
      rw [List.map_cons] at hnd; exact List.nodup_cons.1 hnd
    have hf1 : ∀ r ∈ entryRules e0.1 e0.2, Fires s r := by
      intro r hr; apply hf; simp only [entriesRules, List.flatMap_cons]
      exact List.mem_append_left _ hr
    have hf2 : ∀ r ∈ entriesRules rest, Fires s r := by
      intro r hr; apply hf; simp only [entriesRules, List.flatMap_cons]
      exact List.mem_append_right _ hr
    have hi := ih hnd'.2 hf2
    have lift : ∀ e ∈ (subEntries s rest).2,
        (∃ e1 ∈ e0 :: rest, s.has e1.1 = true ∧ e.1 = look s e1.1) ∧ e.1 < s.glyphs.length ∧
        ∀ lig ∈ e.2, lig.2 < s.glyphs.length ∧ ∀ x ∈ lig.1, x < s.glyphs.length := by
      intro e he
      obtain ⟨⟨e1, he1, hx⟩, hb⟩ := hi.2 e he
      exact ⟨⟨e1, List.mem_cons_of_mem _ he1, hx⟩, hb⟩
    simp only [subEntries]
    cases hl : s.newGid.lookup e0.1 with
    | none => exact ⟨hi.1, lift⟩
    | some nf =>
      have hh := has_of_lookup hl
      have hlg := subLigs_closed s e0.1 nf hh.1 hh.2 e0.2 hf1
      have hlo := subLigs_ok h hne e0.2 hlg.1 (by
        intro lig hlig hall
        have := hf1 ⟨e0.1 :: lig.1, [lig.2]⟩ (by
          simp only [entryRules]; exact List.mem_map.2 ⟨lig, hlig, rfl⟩)
        exact this (by
          intro g hg
          rcases List.mem_cons.1 hg with rfl | hg
          · exact hh.1
          · exact (List.all_eq_true.1 hall) g hg) _ (by simp))
      simp only
      rw [hlg.1]
      split
      · exact ⟨hi.1, lift⟩
      · simp only [List.map_cons, List.nodup_cons]
        refine ⟨⟨?_, hi.1⟩, ?_⟩
        · intro hmem
          obtain ⟨e, he, hk⟩ := List.mem_map.1 hmem
          obtain ⟨⟨e1, he1, hhas, hx⟩, _⟩ := hi.2 e he
          have : e0.1 = e1.1 := look_inj h hh.1 hhas (by rw [hh.2, ← hk, hx])
          exact hnd'.1 (List.mem_map.2 ⟨e1, he1, this.symm⟩)
        · intro e he
          rcases List.mem_cons.1 he with rfl | he
          · refine ⟨⟨e0, List.mem_cons_self, hh.1, hh.2.symm⟩, ?_, hlo⟩
            rw [← hh.2]; exact look_lt h hne e0.1
          · exact lift e he

theorem subGsubSub_ok {s : St} (h : Inv s) (hne : s.glyphs ≠ []) (t : GsubSub) (hwf : GsubSubWF t)
    (hf : ∀ r ∈ rulesOfSub t, Fires s r) :
    ∀ x, (subGsubSub s t).2 = some x → GsubOutOK s.glyphs.length x := by
  intro x hx
  cases t with
  | single cov d =>
    have hst := (subSingle_closed s d cov hf).1
    have hok := subSingle_ok h hne d cov hwf hst hf
    simp only [subGsubSub] at hx
    split at hx
    · cases hx
    · injection hx with hx; subst hx
      exact ⟨hok.1, fun e he => (hok.2 e he).2⟩
  | ligs es =>
    have hok := subEntries_ok h hne es hwf hf
    simp only [subGsubSub] at hx
    split at hx
    · cases hx
    · injection hx with hx; subst hx
      exact ⟨hok.1, fun e he => ⟨(hok.2 e he).2.1, (hok.2 e he).2.2⟩⟩

theorem subSubtables_ok {s : St} (h : Inv s) (hne : s.glyphs ≠ []) : ∀ (ts : List GsubSub),
    (∀ t ∈ ts, GsubSubWF t) → (∀ r ∈ ts.flatMap rulesOfSub, Fires s r) →
    ∀ x ∈ (subSubtables s ts).2, GsubOutOK s.glyphs.length x := by
  intro ts
  induction ts with
  | nil => intro _ _ x hx; simp [subSubtables] at hx
  | cons t rest ih =>
    intro hwf hf x hx
    have hf1 : ∀ r ∈ rulesOfSub t, Fires s r := fun r hr => hf r (by
      simp only [List.flatMap_cons]; exact List.mem_append_left _ hr)
    have hf2 : ∀ r ∈ rest.flatMap rulesOfSub, Fires s r := fun r hr => hf r (by
      simp only [List.flatMap_cons]; exact List.mem_append_right _ hr)
    have h1 := subGsubSub_closed s t hf1
    simp only [subSubtables] at hx
    rw [h1.1] at hx
    have hrest := ih (fun t' ht' => hwf t' (List.mem_cons_of_mem _ ht')) hf2
    cases hs : (subGsubSub s t).2 with
    | none => rw [hs] at hx; exact hrest x hx
    | some y =>
      rw [hs] at hx
      rcases List.mem_cons.1 hx with rfl | hx
      · exact subGsubSub_ok h hne t (hwf t List.mem_cons_self) hf1 _ hs
      · exact hrest x hx

theorem subLookups_ok {s : St} (h : Inv s) (hne : s.glyphs ≠ []) : ∀ (ls : List (List GsubSub)),
    (∀ l ∈ ls, ∀ t ∈ l, GsubSubWF t) →
    (∀ r ∈ ls.flatMap (fun subs => subs.flatMap rulesOfSub), Fires s r) →
    ∀ subs ∈ (subLookups s ls).2, ∀ x ∈ subs, GsubOutOK s.glyphs.length x := by
  intro ls
  induction ls with
  | nil => intro _ _ subs hs; simp [subLookups] at hs
  | cons l rest ih =>
    intro hwf hf subs hs x hx
    have hf1 : ∀ r ∈ l.flatMap rulesOfSub, Fires s r := fun r hr => hf r (by
      simp only [List.flatMap_cons]; exact List.mem_append_left _ hr)
    have hf2 : ∀ r ∈ rest.flatMap (fun subs => subs.flatMap rulesOfSub), Fires s r :=
      fun r hr => hf r (by simp only [List.flatMap_cons]; exact List.mem_append_right _ hr)
    have h1 := subSubtables_closed s l hf1
    simp only [subLookups] at hs
    rw [h1.1] at hs
    rcases List.mem_cons.1 hs with rfl | hs
    · exact subSubtables_ok h hne l (hwf l List.mem_cons_self) hf1 x hx
    · exact ih (fun l' hl' => hwf l' (List.mem_cons_of_mem _ hl')) hf2 subs hs x hx

/-! ### C08: coverage + GSUB 1.2 / 4.1 domains -/

def toLig (l : Lig) : Gsub.Lig := ⟨l.1, l.2⟩

/-- the hypotheses of `C08_st_roundtrip_gsub1_2` / `C08_st_roundtrip_gsub4_1` for a rebuilt subtable
whose entries are listed in coverage-index order (= by glyph id, `sortedByNewGid`) -/
def GsubDomC08 : GsubOut → Prop
  | .multi m =>
    Cov.Valid ((sortKeys m).map (·.1)) ∧
    ((sortKeys m).map (·.2)).length = ((sortKeys m).map (·.1)).length ∧
    ∀ x ∈ (sortKeys m).map (·.2), x < 65536
  | .ligs es =>
    Cov.Valid ((sortKeys es).map (·.1)) ∧
    ((sortKeys es).map fun e => e.2.map toLig).length = ((sortKeys es).map (·.1)).length ∧
    ∀ st ∈ (sortKeys es).map (fun e => e.2.map toLig), ∀ l ∈ st, Gsub.LigOk l

theorem gsubDom_of_ok {n : Nat} (hn : n ≤ 65536) {x : GsubOut} (h : GsubOutOK n x) :
    GsubDomC08 x := by
  cases x with
  | multi m =>
    obtain ⟨hnd, hb⟩ := h
    have hp := sortKeys_perm m
    refine ⟨⟨?_, ?_⟩, by simp, ?_⟩
    · rw [List.pairwise_map]; exact sortKeys_strict m hnd
    · intro g hg
      obtain ⟨e, he, rfl⟩ := List.mem_map.1 hg
      exact Nat.lt_of_lt_of_le (hb e (hp.mem_iff.1 he)).1 hn
    · intro g hg
      obtain ⟨e, he, rfl⟩ := List.mem_map.1 hg
      exact Nat.lt_of_lt_of_le (hb e (hp.mem_iff.1 he)).2 hn
  | ligs es =>
    obtain ⟨hnd, hb⟩ := h
    have hp := sortKeys_perm es
    refine ⟨⟨?_, ?_⟩, by simp, ?_⟩
    · rw [List.pairwise_map]; exact sortKeys_strict es hnd
    · intro g hg
      obtain ⟨e, he, rfl⟩ := List.mem_map.1 hg
      exact Nat.lt_of_lt_of_le (hb e (hp.mem_iff.1 he)).1 hn
    · intro st hst l hl
      obtain ⟨e, he, rfl⟩ := List.mem_map.1 hst
      obtain ⟨lig, hlig, rfl⟩ := List.mem_map.1 hl
      have := (hb e (hp.mem_iff.1 he)).2 lig hlig
      refine ⟨Nat.lt_of_lt_of_le this.1 hn, ?_⟩
      intro x hx
      exact Nat.lt_of_lt_of_le (this.2 x hx) hn

/-! ### C08: GPOS 2.1 domain -/

/-- the pair set of a first glyph: (second glyph, adjustment) -/
def leftSet (ps : Pairs) (l : Nat) : List (Nat × Nat) := (ps.filter fun p => p.1 == l).map (·.2)

/-- the hypotheses of `C08_st_roundtrip_gpos2_1` that concern the table contents: first glyphs
(the encoder sorts them into the coverage table itself) and second glyphs are 16-bit values, the
value records (`vr adj`, copied verbatim from the original) are well-typed, and no first glyph has
65536 or more pairs -/
def GposDomC08 (vr : Nat → Gpos.VR × Gpos.VR) (ps : Pairs) : Prop :=
  (∀ p ∈ ps, p.1 < 65536 ∧ p.2.1 < 65536) ∧
  ∀ l, Gpos.PairSetOk ((leftSet ps l).map fun ra => (ra.1, (vr ra.2).1, (vr ra.2).2)) ∧
    (leftSet ps l).length < 65536

theorem subPairs_mem {s : St} (h : Inv s) (hne : s.glyphs ≠ []) (ps : Pairs) :
    ∀ p' ∈ subPairs s.newGid ps, ∃ l r, (l, r, p'.2.2) ∈ ps ∧ s.has l = true ∧ s.has r = true ∧
      p'.1 = look s l ∧ p'.2.1 = look s r := by
  intro p' hp'
  simp only [subPairs, List.mem_filterMap] at hp'
  obtain ⟨⟨l, r, a⟩, hm, he⟩ := hp'
  simp only at he
  cases h1 : s.newGid.lookup l with
  | none => rw [h1] at he; simp at he
  | some x =>
    cases h2 : s.newGid.lookup r with
    | none => rw [h1, h2] at he; simp at he
    | some y =>
      rw [h1, h2] at he
      simp only [Option.some.injEq] at he
      subst he
      exact ⟨l, r, hm, (has_of_lookup h1).1, (has_of_lookup h2).1,
        (has_of_lookup h1).2.symm, (has_of_lookup h2).2.symm⟩

theorem subPairs_left_length {s : St} (h : Inv s) (l : Gid) (hl : s.has l = true) :
    ∀ ps : Pairs, ((subPairs s.newGid ps).filter fun p => p.1 == look s l).length ≤
      (ps.filter fun p => p.1 == l).length := by
  intro ps
  induction ps with
  | nil => simp [subPairs]
  | cons p rest ih =>
    have hcons : subPairs s.newGid (p :: rest) =
        (match s.newGid.lookup p.1, s.newGid.lookup p.2.1 with
          | some a, some b => [(a, b, p.2.2)]
          | _, _ => []) ++ subPairs s.newGid rest := by
      simp only [subPairs, List.filterMap_cons]
      cases s.newGid.lookup p.1 <;> cases s.newGid.lookup p.2.1 <;> simp
    rw [hcons, List.filter_append, List.length_append, List.filter_cons]
    cases h1 : s.newGid.lookup p.1 with
    | none =>
      simp only [List.filter_nil, List.length_nil, Nat.zero_add]
      split
      · simp only [List.length_cons]; omega
      · exact ih
    | some a =>
      cases h2 : s.newGid.lookup p.2.1 with
      | none =>
        simp only [List.filter_nil, List.length_nil, Nat.zero_add]
        split
        · simp only [List.length_cons]; omega
        · exact ih
      | some b =>
        have ha := has_of_lookup h1
        by_cases hpl : p.1 = l
        · have : (p.1 == l) = true := by simpa using hpl
          simp only [this, if_true, List.length_cons]
          have : ((([(a, b, p.2.2)] : Pairs).filter fun q => q.1 == look s l)).length ≤ 1 := by
            simp only [List.filter_cons, List.filter_nil]; split <;> simp
          omega
        · have hb' : (p.1 == l) = false := by simpa using hpl
          have hne : (a == look s l) = false := by
            cases hx : (a == look s l)
            · rfl
            · exfalso; apply hpl
              have : a = look s l := by simpa using hx
              exact look_inj h ha.1 hl (by rw [ha.2, this])
          simp only [hb', Bool.false_eq_true, if_false, List.filter_cons, hne, List.filter_nil,
            List.length_nil, Nat.zero_add]
          exact ih

theorem subPairs_dom {s : St} (h : Inv s) (hne : s.glyphs ≠ []) (hn : s.glyphs.length ≤ 65536)
    (vr : Nat → Gpos.VR × Gpos.VR) (hvr : ∀ a, Gpos.VROk (vr a).1 ∧ Gpos.VROk (vr a).2)
    (ps : Pairs) (hps : ∀ l, (leftSet ps l).length < 65536) :
    GposDomC08 vr (subPairs s.newGid ps) := by
  have hmem := subPairs_mem h hne ps
  refine ⟨?_, ?_⟩
  · intro p hp
    obtain ⟨l, r, _, _, _, h1, h2⟩ := hmem p hp
    rw [h1, h2]
    exact ⟨Nat.lt_of_lt_of_le (look_lt h hne l) hn, Nat.lt_of_lt_of_le (look_lt h hne r) hn⟩
  · intro nl
    refine ⟨?_, ?_⟩
    · intro q hq
      obtain ⟨ra, hra, rfl⟩ := List.mem_map.1 hq
      simp only [leftSet] at hra
      obtain ⟨p, hp, rfl⟩ := List.mem_map.1 hra
      have hp' := (List.mem_filter.1 hp).1
      obtain ⟨l, r, _, _, _, _, h2⟩ := hmem p hp'
      exact ⟨by simp only; rw [h2]; exact Nat.lt_of_lt_of_le (look_lt h hne r) hn,
        (hvr _).1, (hvr _).2⟩
    · simp only [leftSet, List.length_map]
      by_cases hex : ∃ p ∈ subPairs s.newGid ps, p.1 = nl
      · obtain ⟨p, hp, hpn⟩ := hex
        obtain ⟨l, r, _, hl, _, h1, _⟩ := hmem p hp
        have := subPairs_left_length h l hl ps
        have h3 := hps l
        simp only [leftSet, List.length_map] at h3
        rw [← hpn, h1]; omega
      · have : ((subPairs s.newGid ps).filter fun p => p.1 == nl) = [] := by
          rw [List.filter_eq_nil_iff]
          intro p hp hpe
          exact hex ⟨p, hp, by simpa using hpe⟩
        rw [this]; simp

/-! ### C09b: cmap subtables -/

theorem subCMap_keys_nodup (m : GMap) : ∀ c : CMap, (c.map (·.1)).Nodup →
    ((subCMap m c).map (·.1)).Nodup ∧ ∀ e ∈ subCMap m c, e.1 ∈ c.map (·.1) := by
  intro c
  induction c with
  | nil => intro _; simp [subCMap]
  | cons e rest ih =>
    intro hnd
    rw [List.map_cons] at hnd
    have hnd' := List.nodup_cons.1 hnd
    have hi := ih hnd'.2
    have hcons : subCMap m (e :: rest) =
        (match m.lookup e.2 with | some n => [(e.1, n)] | none => []) ++ subCMap m rest := by
      simp only [subCMap, List.filterMap_cons]
      cases m.lookup e.2 <;> simp
    rw [hcons]
    cases m.lookup e.2 with
    | none =>
      simp only [List.nil_append]
      exact ⟨hi.1, fun x hx => by rw [List.map_cons]; exact List.mem_cons_of_mem _ (hi.2 x hx)⟩
    | some n =>
      simp only [List.cons_append, List.nil_append, List.map_cons, List.nodup_cons]
      refine ⟨⟨?_, hi.1⟩, ?_⟩
      · intro hmem
        obtain ⟨x, hx, hk⟩ := List.mem_map.1 hmem
        exact hnd'.1 (hk ▸ hi.2 x hx)
      · intro x hx
        rcases List.mem_cons.1 hx with rfl | hx
        · exact List.mem_cons_self
        · exact List.mem_cons_of_mem _ (hi.2 x hx)

/-- the subset's cmap subtable, as the sorted entry list the encoders work on, is a `Map32` (the
domain of `C09_fmt12`, `C09_fmt12_lib`); for format 4 the relevant part is: glyph ids 16-bit -/
theorem subCMap_dom {s : St} (h : Inv s) (hne : s.glyphs ≠ []) (hn : s.glyphs.length ≤ 65536)
    (c : CMap) (hnd : (c.map (·.1)).Nodup) (hk : ∀ e ∈ c, e.1 < 4294967296) :
    Map32 (sortKeys (subCMap s.newGid c)) := by
  have hkn := subCMap_keys_nodup s.newGid c hnd
  have hp := sortKeys_perm (subCMap s.newGid c)
  refine ⟨sortKeys_strict _ hkn.1, ?_⟩
  intro e he
  have he' := hp.mem_iff.1 he
  refine ⟨?_, ?_⟩
  · obtain ⟨e0, he0, hk0⟩ := List.mem_map.1 (hkn.2 e he')
    rw [← hk0]; exact hk e0 he0
  · simp only [subCMap, List.mem_filterMap, Option.map_eq_some_iff] at he'
    obtain ⟨e0, _, n, hl, rfl⟩ := he'
    have := look_lt h hne e0.2
    unfold look at this; rw [hl] at this
    simp only [Option.getD_some] at this
    omega

end SfntV.Subset
