/-
C10 — the subset's rebuilt tables lie in the domains of the other areas' codec theorems:
C08 (coverage tables, GSUB 1.2 / 4.1, GPOS 2.1), C09b (cmap format 12 maps; format 4 needs only
16-bit values), C13 (CFF built-in encoding).  Nothing here is linked into the driver.
-/
import SfntV.Proofs.SubsetOrder
import SfntV.Proofs.SubsetWritable
import SfntV.Proofs.OtlGsub
import SfntV.Proofs.OtlGpos
import SfntV.Props.C09b

namespace SfntV.Subset
open SfntV.Otl

/-! ### sorting by key -/

/-- entries of a Go map in the order of their keys (what the encoders iterate over) -/
def sortKeys {α : Type} (l : List (Nat × α)) : List (Nat × α) :=
  l.mergeSort fun a b => decide (a.1 ≤ b.1)

theorem sortKeys_perm {α : Type} (l : List (Nat × α)) : (sortKeys l).Perm l :=
  List.mergeSort_perm l _

theorem sortKeys_strict {α : Type} (l : List (Nat × α)) (h : (l.map (·.1)).Nodup) :
    (sortKeys l).Pairwise (fun a b => a.1 < b.1) := by
  have hsorted := List.pairwise_mergeSort (le := fun (a b : Nat × α) => decide (a.1 ≤ b.1))
    (by intro a b c h1 h2; simp only [decide_eq_true_eq] at *; omega)
    (by intro a b; simp only [Bool.or_eq_true, decide_eq_true_eq]; omega) l
  have hnd : ((sortKeys l).map (·.1)).Nodup :=
    ((sortKeys_perm l).map (·.1)).nodup_iff.2 h
  have hnd' : (sortKeys l).Pairwise (fun a b => a.1 ≠ b.1) := by
    unfold List.Nodup at hnd; rw [List.pairwise_map] at hnd; exact hnd
  refine List.Pairwise.imp ?_ (hsorted.and hnd')
  intro a b hab
  have : a.1 ≤ b.1 := by simpa using hab.1
  have := hab.2
  omega

theorem strict_length_le : ∀ (l : List Nat) (k n : Nat), l.Pairwise (· < ·) →
    (∀ x ∈ l, k ≤ x ∧ x < n) → l.length ≤ n - k := by
  intro l
  induction l with
  | nil => intro k n _ _; simp
  | cons a t ih =>
    intro k n hp hb
    rw [List.pairwise_cons] at hp
    have ha := hb a List.mem_cons_self
    have := ih (a + 1) n hp.2 (fun x hx =>
      ⟨hp.1 x hx, (hb x (List.mem_cons_of_mem _ hx)).2⟩)
    simp only [List.length_cons]; omega

/-- pigeonhole: a duplicate-free list of naturals below `n` has at most `n` elements -/
theorem nodup_length_le (l : List Nat) (n : Nat) (h : l.Nodup) (hb : ∀ x ∈ l, x < n) :
    l.length ≤ n := by
  have hs := sortKeys_strict (l.map fun x => (x, ())) (by simpa [List.map_map, Function.comp_def] using h)
  have hp := sortKeys_perm (l.map fun x => (x, ()))
  have h1 : ((sortKeys (l.map fun x => (x, ()))).map (·.1)).Pairwise (· < ·) := by
    rw [List.pairwise_map]; exact hs
  have h2 := strict_length_le _ 0 n h1 (by
    intro x hx
    have : x ∈ (l.map fun x => (x, ())).map (·.1) := ((hp.map (·.1)).mem_iff).1 hx
    simp only [List.map_map, Function.comp_def, List.map_id'] at this
    exact ⟨Nat.zero_le _, hb x this⟩)
  have h3 : (sortKeys (l.map fun x => (x, ()))).length = l.length := by
    rw [hp.length_eq]; simp
  simp only [List.length_map] at h2
  omega

/-! ### new glyph ids are small -/

theorem look_lt {s : St} (h : Inv s) (hne : s.glyphs ≠ []) (g : Gid) : look s g < s.glyphs.length := by
  unfold look
  cases hl : s.newGid.lookup g with
  | none =>
    simp only [Option.getD_none]
    cases hg : s.glyphs with
    | nil => exact absurd hg hne
    | cons a t => simp
  | some n =>
    simp only [Option.getD_some]
    have := (h g n).1 hl
    rcases Nat.lt_or_ge n s.glyphs.length with h1 | h1
    · exact h1
    · rw [List.getElem?_eq_none h1] at this; cases this

/-! ### the rebuilt GSUB subtables -/

/-- keys distinct, all glyph ids below `n` -/
def GsubOutOK (n : Nat) : GsubOut → Prop
  | .multi m => (m.map (·.1)).Nodup ∧ ∀ e ∈ m, e.1 < n ∧ e.2 < n
  | .ligs es => (es.map (·.1)).Nodup ∧
      ∀ e ∈ es, e.1 < n ∧ ∀ lig ∈ e.2, lig.2 < n ∧ ∀ x ∈ lig.1, x < n

/-- the covered glyphs of the original subtables are distinct (keys of Go maps) -/
def GsubSubWF : GsubSub → Prop
  | .single cov _ => cov.Nodup
  | .ligs es => (es.map (·.1)).Nodup

theorem subSingle_ok {s : St} (h : Inv s) (hne : s.glyphs ≠ []) (d : Nat) : ∀ (cov : List Gid),
    cov.Nodup → (subSingle s d cov).1 = s →
    (∀ r ∈ rulesOfSub (.single cov d), Fires s r) →
    ((subSingle s d cov).2.map (·.1)).Nodup ∧
    (∀ e ∈ (subSingle s d cov).2, (∃ g ∈ cov, s.has g = true ∧ e.1 = look s g) ∧
      e.1 < s.glyphs.length ∧ e.2 < s.glyphs.length) := by
  intro cov
  induction cov with
  | nil => intro _ _ _; simp [subSingle]
  | cons g gs ih =>
    intro hnd _ hf
    have hnd' := List.nodup_cons.1 hnd
    have hf' : ∀ r ∈ rulesOfSub (.single gs d), Fires s r := by
      intro r hr; apply hf; simp only [rulesOfSub, List.map_cons] at hr ⊢
      exact List.mem_cons_of_mem _ hr
    have hst := (subSingle_closed s d gs hf').1
    have hi := ih hnd'.2 hst hf'
    simp only [subSingle]
    cases hl : s.newGid.lookup g with
    | none =>
      simp only
      refine ⟨hi.1, ?_⟩
      intro e he
      obtain ⟨⟨g', hg', hx⟩, hb⟩ := hi.2 e he
      exact ⟨⟨g', List.mem_cons_of_mem _ hg', hx⟩, hb⟩
    | some nf =>
      have hh := has_of_lookup hl
      have hout : s.has ((g + d) % 65536) = true := by
        have := hf ⟨[g], [(g + d) % 65536]⟩ (by simp [rulesOfSub])
        exact this (by simpa using hh.1) _ (by simp)
      simp only [getNewGid_has hout, List.map_cons, List.nodup_cons, List.mem_cons]
      refine ⟨⟨?_, hi.1⟩, ?_⟩
      · intro hmem
        obtain ⟨e, he, hk⟩ := List.mem_map.1 hmem
        obtain ⟨⟨g', hg', hhas, hx⟩, _⟩ := hi.2 e he
        have : g = g' := look_inj h hh.1 hhas (by rw [hh.2, ← hk, hx])
        exact hnd'.1 (this ▸ hg')
      · intro e he
        rcases he with rfl | he
        · refine ⟨⟨g, Or.inl rfl, hh.1, hh.2.symm⟩, ?_, look_lt h hne _⟩
          rw [← hh.2]; exact look_lt h hne g
        · obtain ⟨⟨g', hg', hx⟩, hb⟩ := hi.2 e he
          exact ⟨⟨g', Or.inr hg', hx⟩, hb⟩

theorem subLigs_ok {s : St} (h : Inv s) (hne : s.glyphs ≠ []) : ∀ (ligs : List Lig),
    (subLigs s ligs).1 = s → (∀ lig ∈ ligs, lig.1.all s.has = true → s.has lig.2 = true) →
    ∀ lig ∈ (subLigs s ligs).2, lig.2 < s.glyphs.length ∧ ∀ x ∈ lig.1, x < s.glyphs.length := by
  intro ligs
  induction ligs with
  | nil => intro _ _ lig hl; simp [subLigs] at hl
  | cons lig rest ih =>
    intro _ hcl
    have hcl' : ∀ l ∈ rest, l.1.all s.has = true → s.has l.2 = true :=
      fun l hl => hcl l (List.mem_cons_of_mem _ hl)
    simp only [subLigs]
    cases hall : lig.1.all s.has with
    | false =>
      simp only [Bool.false_eq_true, if_false]
      -- state unchanged on the rest as well
      intro l' hl'
      have hst : (subLigs s rest).1 = s := by
        have := ‹(subLigs s (lig :: rest)).1 = s›
        simpa [subLigs, hall] using this
      exact ih hst hcl' l' hl'
    | true =>
      have hins : ∀ g ∈ lig.1, s.has g = true := by simpa using hall
      have hout := hcl lig List.mem_cons_self hall
      simp only [if_true, getNewGid_has hout, getMany_has lig.1 s hins]
      have hst : (subLigs s rest).1 = s := by
        have := ‹(subLigs s (lig :: rest)).1 = s›
        simpa [subLigs, hall, getNewGid_has hout, getMany_has lig.1 s hins] using this
      intro l' hl'
      rcases List.mem_cons.1 hl' with rfl | hl'
      · refine ⟨look_lt h hne _, ?_⟩
        intro x hx
        obtain ⟨g, _, rfl⟩ := List.mem_map.1 hx
        exact look_lt h hne g
      · exact ih hst hcl' l' hl'

theorem subEntries_ok {s : St} (h : Inv s) (hne : s.glyphs ≠ []) : ∀ (es : List (Gid × List Lig)),
    (es.map (·.1)).Nodup → (∀ r ∈ entriesRules es, Fires s r) →
    ((subEntries s es).2.map (·.1)).Nodup ∧
    (∀ e ∈ (subEntries s es).2, (∃ e0 ∈ es, s.has e0.1 = true ∧ e.1 = look s e0.1) ∧
      e.1 < s.glyphs.length ∧
      ∀ lig ∈ e.2, lig.2 < s.glyphs.length ∧ ∀ x ∈ lig.1, x < s.glyphs.length) := by
  intro es
  induction es with
  | nil => intro _ _; simp [subEntries]
  | cons e0 rest ih =>
    intro hnd hf
    have hnd' := List.nodup_cons.1 (by simpa using hnd)
    have hf1 : ∀ r ∈ entryRules e0.1 e0.2, Fires s r := by
      intro r hr; apply hf; simp only [entriesRules, List.flatMap_cons]
      exact List.mem_append_left _ hr
    have hf2 : ∀ r ∈ entriesRules rest, Fires s r := by
      intro r hr; apply hf; simp only [entriesRules, List.flatMap_cons]
      exact List.mem_append_right _ hr
    have hi := ih hnd'.2 hf2
    have lift : ∀ e ∈ (subEntries s rest).2,
        (∃ e1 ∈ e0 :: rest, s.has e1.1 = true ∧ e.1 = look s e1.1) ∧ e.1 < s.glyphs.length ∧
        ∀ lig ∈ e.2, lig.2 < s.glyphs.length ∧ ∀ x ∈ lig.1, x < s.glyphs.length := by
      intro e he
      obtain ⟨⟨e1, he1, hx⟩, hb⟩ := hi.2 e he
      exact ⟨⟨e1, List.mem_cons_of_mem _ he1, hx⟩, hb⟩
    simp only [subEntries]
    cases hl : s.newGid.lookup e0.1 with
    | none => exact ⟨hi.1, lift⟩
    | some nf =>
      have hh := has_of_lookup hl
      have hlg := subLigs_closed s e0.1 nf hh.1 hh.2 e0.2 hf1
      have hlo := subLigs_ok h hne e0.2 hlg.1 (by
        intro lig hlig hall
        have := hf1 ⟨e0.1 :: lig.1, [lig.2]⟩ (by
          simp only [entryRules]; exact List.mem_map.2 ⟨lig, hlig, rfl⟩)
        exact this (by
          intro g hg
          rcases List.mem_cons.1 hg with rfl | hg
          · exact hh.1
          · exact (List.all_eq_true.1 hall) g hg) _ (by simp))
      simp only
      rw [hlg.1]
      split
      · exact ⟨hi.1, lift⟩
      · simp only [List.map_cons, List.nodup_cons]
        refine ⟨⟨?_, hi.1⟩, ?_⟩
        · intro hmem
          obtain ⟨e, he, hk⟩ := List.mem_map.1 hmem
          obtain ⟨⟨e1, he1, hhas, hx⟩, _⟩ := hi.2 e he
          have : e0.1 = e1.1 := look_inj h hh.1 hhas (by rw [hh.2, ← hk, hx])
          exact hnd'.1 (List.mem_map.2 ⟨e1, he1, this.symm⟩)
        · intro e he
          rcases List.mem_cons.1 he with rfl | he
          · refine ⟨⟨e0, List.mem_cons_self, hh.1, hh.2.symm⟩, ?_, hlo⟩
            rw [← hh.2]; exact look_lt h hne e0.1
          · exact lift e he

theorem subGsubSub_ok {s : St} (h : Inv s) (hne : s.glyphs ≠ []) (t : GsubSub) (hwf : GsubSubWF t)
    (hf : ∀ r ∈ rulesOfSub t, Fires s r) :
    ∀ x, (subGsubSub s t).2 = some x → GsubOutOK s.glyphs.length x := by
  intro x hx
  cases t with
  | single cov d =>
    have hst := (subSingle_closed s d cov hf).1
    have hok := subSingle_ok h hne d cov hwf hst hf
    simp only [subGsubSub] at hx
    split at hx
    · cases hx
    · injection hx with hx; subst hx
      exact ⟨hok.1, fun e he => (hok.2 e he).2⟩
  | ligs es =>
    have hok := subEntries_ok h hne es hwf hf
    simp only [subGsubSub] at hx
    split at hx
    · cases hx
    · injection hx with hx; subst hx
      exact ⟨hok.1, fun e he => ⟨(hok.2 e he).2.1, (hok.2 e he).2.2⟩⟩

theorem subSubtables_ok {s : St} (h : Inv s) (hne : s.glyphs ≠ []) : ∀ (ts : List GsubSub),
    (∀ t ∈ ts, GsubSubWF t) → (∀ r ∈ ts.flatMap rulesOfSub, Fires s r) →
    ∀ x ∈ (subSubtables s ts).2, GsubOutOK s.glyphs.length x := by
  intro ts
  induction ts with
  | nil => intro _ _ x hx; simp [subSubtables] at hx
  | cons t rest ih =>
    intro hwf hf x hx
    have hf1 : ∀ r ∈ rulesOfSub t, Fires s r := fun r hr => hf r (by
      simp only [List.flatMap_cons]; exact List.mem_append_left _ hr)
    have hf2 : ∀ r ∈ rest.flatMap rulesOfSub, Fires s r := fun r hr => hf r (by
      simp only [List.flatMap_cons]; exact List.mem_append_right _ hr)
    have h1 := subGsubSub_closed s t hf1
    simp only [subSubtables] at hx
    rw [h1.1] at hx
    have hrest := ih (fun t' ht' => hwf t' (List.mem_cons_of_mem _ ht')) hf2
    cases hs : (subGsubSub s t).2 with
    | none => rw [hs] at hx; exact hrest x hx
    | some y =>
      rw [hs] at hx
      rcases List.mem_cons.1 hx with rfl | hx
      · exact subGsubSub_ok h hne t (hwf t List.mem_cons_self) hf1 _ hs
      · exact hrest x hx

theorem subLookups_ok {s : St} (h : Inv s) (hne : s.glyphs ≠ []) : ∀ (ls : List (List GsubSub)),
    (∀ l ∈ ls, ∀ t ∈ l, GsubSubWF t) →
    (∀ r ∈ ls.flatMap (fun subs => subs.flatMap rulesOfSub), Fires s r) →
    ∀ subs ∈ (subLookups s ls).2, ∀ x ∈ subs, GsubOutOK s.glyphs.length x := by
  intro ls
  induction ls with
  | nil => intro _ _ subs hs; simp [subLookups] at hs
  | cons l rest ih =>
    intro hwf hf subs hs x hx
    have hf1 : ∀ r ∈ l.flatMap rulesOfSub, Fires s r := fun r hr => hf r (by
      simp only [List.flatMap_cons]; exact List.mem_append_left _ hr)
    have hf2 : ∀ r ∈ rest.flatMap (fun subs => subs.flatMap rulesOfSub), Fires s r :=
      fun r hr => hf r (by simp only [List.flatMap_cons]; exact List.mem_append_right _ hr)
    have h1 := subSubtables_closed s l hf1
    simp only [subLookups] at hs
    rw [h1.1] at hs
    rcases List.mem_cons.1 hs with rfl | hs
    · exact subSubtables_ok h hne l (hwf l List.mem_cons_self) hf1 x hx
    · exact ih (fun l' hl' => hwf l' (List.mem_cons_of_mem _ hl')) hf2 subs hs x hx

end SfntV.Subset
