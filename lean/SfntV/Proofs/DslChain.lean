import SfntV.Proofs.DslCtxLook
/-! C19, chained contextual lookups (GSUB 6, GPOS 8): the subtable loop. -/
set_option linter.unusedSimpArgs false
set_option linter.unusedVariables false
namespace SfntV.Dsl

def chainBranch (f : Font) (fuel : Nat) (st : ChSt) (nextType : Nat) : PM (Subtable × ChSt) :=
  if nextType == tSlash then do
    let _ ← required tSlash
    let firstGlyphs ← readGlyphList f fuel
    let _ ← required tSlash
    let rules ← pairsLoop (chain2Rule fuel st.b.1 st.i.1 st.l.1) fuel (List.replicate (st.i.1.length + 1) [])
    pure (Subtable.chain2 (sortUnique firstGlyphs) (sortByGlyph st.b.2) (sortByGlyph st.i.2)
      (sortByGlyph st.l.2) rules, ChSt.empty)
  else if nextType == tSquareBracketOpen then do
    let back ← setsUntil f fuel tBar fuel []
    let input ← setsThen f fuel tBar fuel []
    let look ← setsUntil f fuel tArrow fuel []
    let actions ← nestedLoop fuel []
    pure (Subtable.chain3 back.reverse input look actions, st)
  else do
    let res ← pairsLoop (chain1Rule f fuel) fuel []
    pure (Subtable.chain1 (byGlyph res), st)

def chainCont (f : Font) (fuel n : Nat) (acc : List Subtable) (r : Subtable × ChSt) : PM (List Subtable) := do
  if !(← optional [tOr]) then pure (acc ++ [r.1])
  else do
    let _ ← optional [tEOL]
    chainLoop f fuel n r.2 (acc ++ [r.1])

def chainDef (f : Font) (fuel : Nat) (m1 m2 : String) (c0 : ClsSt) (k : ClsSt → PM (List Subtable)) : PM (List Subtable) :=
  parseClassDef f fuel >>= fun d => addClass m1 m2 c0 d.1 d.2 >>= fun c => optional [tEOL] >>= fun _ => k c

theorem chainLoop_succ (f : Font) (fuel n : Nat) (st : ChSt) (acc : List Subtable) :
    chainLoop f fuel (n + 1) st acc =
      (optionalKeyword kwInputclass >>= fun b1 =>
        if b1 = true then
          chainDef f fuel "duplicate input class" "overlapping input classes" st.i
            (fun c => chainLoop f fuel n { st with i := c } acc)
        else optionalKeyword kwBacktrackclass >>= fun b2 =>
          if b2 = true then
            chainDef f fuel "duplicate backtrack class" "overlapping backtrack classes" st.b
              (fun c => chainLoop f fuel n { st with b := c } acc)
          else optionalKeyword kwLookaheadclass >>= fun b3 =>
            if b3 = true then
              chainDef f fuel "duplicate lookahead class" "overlapping lookahead classes" st.l
                (fun c => chainLoop f fuel n { st with l := c } acc)
            else
              (peekType2 >>= fun nextType => chainBranch f fuel st nextType >>= fun r => chainCont f fuel n acc r)) := rfl

/-- the pieces of one class definition: `keyword :c<i>: = [glyphs]⏎⇥` -/
def defPieces (kw : List Nat) (f : Font) (gg : List Nat) (i : Nat) : List Piece :=
  [tk tIdentifier kw, sp, tk tColon [58], tk tIdentifier (99 :: decimal i), tk tColon [58], sp, tk tEqual [61], sp] ++
    (newExplainer f).writeGlyphSet gg ++ [eolP, tab]

theorem classDefsP_cons (kw : List Nat) (f : Font) (gg : List Nat) (more : List (List Nat)) (i : Nat) :
    classDefsP kw (newExplainer f).writeGlyphSet (gg :: more) i =
      defPieces kw f gg i ++ classDefsP kw (newExplainer f).writeGlyphSet more (i + 1) := by
  simp [classDefsP, defPieces]

structure DefOk (f : Font) (fuel : Nat) (pre : List (List Nat)) (gg : List Nat) : Prop where
  set : SetOk f gg
  ne : gg ≠ []
  fuel : tokCount ((newExplainer f).writeGlyphList gg) < fuel
  fresh : ∀ g ∈ gg, g ∉ pre.flatten
  small : pre.length + 1 < 65536

/-- a class definition after its keyword has been taken -/
theorem frag_chainDef (f : Font) (hf : FontOk f) (fuel : Nat) (m1 m2 : String) (pre : List (List Nat)) (gg : List Nat)
    (hd : DefOk f fuel pre gg) (k : ClsSt → PM (List Subtable)) (REST : List Piece) (y : List Subtable)
    (P : Tok → Prop) (N : Option Nat → Prop)
    (hk : Frag (k (clsFrom 1 (pre.length + 1), assign 1 (pre ++ [gg]))) REST y P N) :
    Frag (chainDef f fuel m1 m2 (clsFrom 1 pre.length, assign 1 pre) k)
      ([.tok tColon (ascii [58]), .tok tIdentifier (ascii (99 :: decimal (pre.length + 1))), .tok tColon (ascii [58]),
        .ws [a1 32], .tok tEqual (ascii [61]), .ws [a1 32]] ++ (newExplainer f).writeGlyphSet gg ++
        (.tok tEOL (ascii [10]) :: .ws [a1 9] :: REST)) y P N := by
  unfold chainDef
  have hdef := frag_classDef f hf (pre.length + 1) gg hd.set hd.ne fuel hd.fuel
  have hadd : Frag (addClass m1 m2 (clsFrom 1 pre.length, assign 1 pre)
      (99 :: decimal (pre.length + 1)) gg) [] (clsFrom 1 (pre.length + 1), assign 1 (pre ++ [gg])) anyTok anyNext :=
    frag_pureRun _ _ (addClass_ok _ _ pre gg hd.small hd.fresh) _
  have hy2 := (frag_optional_yes [tEOL] tEOL (ascii [10]) anyNext (by decide)
    (fun nx _ => eol_tokOk nx) (tk_canon tEOL _ (by decide))).toU
  have htail : Frag (optional [tEOL] >>= fun _ => k (clsFrom 1 (pre.length + 1), assign 1 (pre ++ [gg])))
      (.tok tEOL (ascii [10]) :: .ws [a1 9] :: REST) y P N :=
    frag_then1 hy2 (frag_ws [a1 9] ws_tab hk) (fun _ _ => trivial) (fun _ _ _ => trivial)
  have h2 := frag_bind0 hadd htail (fun _ _ => trivial) (fun _ _ _ => trivial)
    (f := fun c => optional [tEOL] >>= fun _ => k c)
  exact frag_bind hdef h2 (fun _ _ => trivial) (fun _ _ _ => trivial)
    (f := fun d => addClass m1 m2 (clsFrom 1 pre.length, assign 1 pre) d.1 d.2 >>= fun c =>
      optional [tEOL] >>= fun _ => k c)

theorem defPieces_eq (kw : List Nat) (f : Font) (gg : List Nat) (i : Nat) (REST : List Piece) :
    defPieces kw f gg i ++ REST = .tok tIdentifier (ascii kw) :: .ws [a1 32] ::
      ([.tok tColon (ascii [58]), .tok tIdentifier (ascii (99 :: decimal i)), .tok tColon (ascii [58]),
        .ws [a1 32], .tok tEqual (ascii [61]), .ws [a1 32]] ++ (newExplainer f).writeGlyphSet gg ++
        (.tok tEOL (ascii [10]) :: .ws [a1 9] :: REST)) := by
  simp [defPieces, sp, tab, eolP, tk]

theorem inputclass_lower : ∀ c ∈ kwInputclass, inR 97 122 c = true := by decide
theorem backtrackclass_lower : ∀ c ∈ kwBacktrackclass, inR 97 122 c = true := by decide
theorem lookaheadclass_lower : ∀ c ∈ kwLookaheadclass, inR 97 122 c = true := by decide

theorem kwYes (kw : List Nat) (hne : kw ≠ []) (hs : ∀ c ∈ kw, inR 97 122 c = true) :
    Frag (optionalKeyword kw) [.tok tIdentifier (ascii kw)] true (fun u => u.typ = tColon) (fun nx => nx = some 32) := by
  obtain ⟨hk1, hk2⟩ := kw_tokOk32 kw hne hs
  exact frag_optKeyword_yes kw (fun nx => nx = some 32) (fun nx h => by rw [h]; exact hk1) hk2

theorem chain_defI (f : Font) (hf : FontOk f) (fuel n : Nat) (st : ChSt) (acc : List Subtable) (pre : List (List Nat))
    (gg : List Nat) (hd : DefOk f fuel pre gg) (REST : List Piece) (y : List Subtable) (P : Tok → Prop)
    (N : Option Nat → Prop) (hi : st.i = (clsFrom 1 pre.length, assign 1 pre))
    (hk : Frag (chainLoop f fuel n { st with i := (clsFrom 1 (pre.length + 1), assign 1 (pre ++ [gg])) } acc) REST y P N) :
    Frag (chainLoop f fuel (n + 1) st acc) (defPieces kwInputclass f gg (pre.length + 1) ++ REST) y P N := by
  rw [chainLoop_succ, defPieces_eq, hi]
  refine frag_bind1 (kwYes kwInputclass (by decide) inputclass_lower) ?_
    (fun nx _ => by simp [nextRune, render, Piece.rbs, a1]) (fun line t _ => by simp [mkToks])
  simp only [if_true]
  apply frag_ws [a1 32] ws_sp
  exact frag_chainDef f hf fuel _ _ pre gg hd _ REST y P N hk

theorem chain_defB (f : Font) (hf : FontOk f) (fuel n : Nat) (st : ChSt) (acc : List Subtable) (pre : List (List Nat))
    (gg : List Nat) (hd : DefOk f fuel pre gg) (REST : List Piece) (y : List Subtable) (P : Tok → Prop)
    (N : Option Nat → Prop) (hi : st.b = (clsFrom 1 pre.length, assign 1 pre))
    (hk : Frag (chainLoop f fuel n { st with b := (clsFrom 1 (pre.length + 1), assign 1 (pre ++ [gg])) } acc) REST y P N) :
    Frag (chainLoop f fuel (n + 1) st acc) (defPieces kwBacktrackclass f gg (pre.length + 1) ++ REST) y P N := by
  rw [chainLoop_succ, defPieces_eq, hi]
  refine frag_bind0 (frag_optKeyword_no kwInputclass) ?_ (fun _ _ => trivial) (fun line t _ => by
    simp [mkToks, isIdent, Tok.bytes, ascii_bytes, kwInputclass, kwBacktrackclass, kwClass])
  simp only [Bool.false_eq_true, if_false]
  refine frag_bind1 (kwYes kwBacktrackclass (by decide) backtrackclass_lower) ?_
    (fun nx _ => by simp [nextRune, render, Piece.rbs, a1]) (fun line t _ => by simp [mkToks])
  simp only [if_true]
  apply frag_ws [a1 32] ws_sp
  exact frag_chainDef f hf fuel _ _ pre gg hd _ REST y P N hk

theorem chain_defL (f : Font) (hf : FontOk f) (fuel n : Nat) (st : ChSt) (acc : List Subtable) (pre : List (List Nat))
    (gg : List Nat) (hd : DefOk f fuel pre gg) (REST : List Piece) (y : List Subtable) (P : Tok → Prop)
    (N : Option Nat → Prop) (hi : st.l = (clsFrom 1 pre.length, assign 1 pre))
    (hk : Frag (chainLoop f fuel n { st with l := (clsFrom 1 (pre.length + 1), assign 1 (pre ++ [gg])) } acc) REST y P N) :
    Frag (chainLoop f fuel (n + 1) st acc) (defPieces kwLookaheadclass f gg (pre.length + 1) ++ REST) y P N := by
  rw [chainLoop_succ, defPieces_eq, hi]
  refine frag_bind0 (frag_optKeyword_no kwInputclass) ?_ (fun _ _ => trivial) (fun line t _ => by
    simp [mkToks, isIdent, Tok.bytes, ascii_bytes, kwInputclass, kwLookaheadclass, kwClass])
  simp only [Bool.false_eq_true, if_false]
  refine frag_bind0 (frag_optKeyword_no kwBacktrackclass) ?_ (fun _ _ => trivial) (fun line t _ => by
    simp [mkToks, isIdent, Tok.bytes, ascii_bytes, kwBacktrackclass, kwLookaheadclass, kwClass])
  simp only [Bool.false_eq_true, if_false]
  refine frag_bind1 (kwYes kwLookaheadclass (by decide) lookaheadclass_lower) ?_
    (fun nx _ => by simp [nextRune, render, Piece.rbs, a1]) (fun line t _ => by simp [mkToks])
  simp only [if_true]
  apply frag_ws [a1 32] ws_sp
  exact frag_chainDef f hf fuel _ _ pre gg hd _ REST y P N hk

/-- a list of class definitions of one kind, given the step for one definition -/
theorem defs_induct (kw : List Nat) (f : Font) (fuel : Nat) (L : Nat → ClsSt → PM (List Subtable))
    (step : ∀ (n : Nat) (pre : List (List Nat)) (gg : List Nat) (REST : List Piece) (y : List Subtable) (P : Tok → Prop)
      (N : Option Nat → Prop), DefOk f fuel pre gg →
      Frag (L n (clsFrom 1 (pre.length + 1), assign 1 (pre ++ [gg]))) REST y P N →
      Frag (L (n + 1) (clsFrom 1 pre.length, assign 1 pre)) (defPieces kw f gg (pre.length + 1) ++ REST) y P N) :
    ∀ (more pre : List (List Nat)) (n : Nat) (X : List Piece) (y : List Subtable) (P : Tok → Prop) (N : Option Nat → Prop),
    (∀ gg ∈ more, SetOk f gg ∧ gg ≠ [] ∧ tokCount ((newExplainer f).writeGlyphList gg) < fuel) →
    (pre ++ more).flatten.Nodup → (pre ++ more).length + 1 < 65536 →
    Frag (L n (clsFrom 1 (pre ++ more).length, assign 1 (pre ++ more))) X y P N →
    Frag (L (n + more.length) (clsFrom 1 pre.length, assign 1 pre))
      (classDefsP kw (newExplainer f).writeGlyphSet more (pre.length + 1) ++ X) y P N := by
  intro more
  induction more with
  | nil =>
    intro pre n X y P N _ _ _ h
    simpa [classDefsP] using h
  | cons gg more ih =>
    intro pre n X y P N hall hnd hlen h
    obtain ⟨hset, hne, hfu⟩ := hall gg (by simp)
    have hih := ih (pre ++ [gg]) n X y P N (fun x hx => hall x (by simp [hx]))
      (by simpa [List.append_assoc] using hnd) (by simpa [List.append_assoc] using hlen)
      (by simpa [List.append_assoc] using h)
    have hfresh : ∀ g ∈ gg, g ∉ pre.flatten := by
      intro g hg hin
      simp only [List.flatten_append, List.flatten_cons] at hnd
      have := (List.nodup_append.mp hnd).2.2 g hin g (by simp [hg])
      exact this rfl
    have hn : n + (gg :: more).length = (n + more.length) + 1 := by simp; omega
    rw [hn, classDefsP_cons, List.append_assoc]
    refine step _ pre gg _ y P N ⟨hset, hne, hfu, hfresh, by simp at hlen; omega⟩ ?_
    simpa using hih

theorem peekTypeOf_append (X Y : List Tok) (ty : Nat) (h : peekTypeOf X = some ty) : peekTypeOf (X ++ Y) = some ty := by
  cases X with
  | nil => simp [peekTypeOf] at h
  | cons t1 X1 =>
    cases X1 with
    | nil =>
      by_cases hb : (t1.typ == tBar) = true
      · simp [peekTypeOf, hb] at h
      · have hb' : (t1.typ == tBar) = false := by simpa using hb
        cases Y with
        | nil => simpa using h
        | cons y Y' => simpa [peekTypeOf, hb'] using h
    | cons t2 X2 => simpa [peekTypeOf] using h

/-- the stream does not start with a class definition of the chained forms -/
def KwFree (X : List Tok) : Prop :=
  kwNoOf kwInputclass X ∧ kwNoOf kwBacktrackclass X ∧ kwNoOf kwLookaheadclass X

theorem kwFree_head (X : List Tok) (t : Tok) (h : X.head? = some t) (ht : t.typ ≠ tIdentifier) : KwFree X := by
  have hi : ∀ kw, isIdent t kw = false := by intro kw; simp [isIdent, ht]
  exact ⟨kwNoOf_head _ X t h (hi _), kwNoOf_head _ X t h (hi _), kwNoOf_head _ X t h (hi _)⟩

theorem kwFree_append (X Y : List Tok) (h : KwFree X) : KwFree (X ++ Y) :=
  ⟨kwNoOf_append _ X Y h.1, kwNoOf_append _ X Y h.2.1, kwNoOf_append _ X Y h.2.2⟩

/-- a subtable without (further) class definitions at the head of the chained loop -/
theorem chain_unit (f : Font) (fuel n : Nat) (st : ChSt) (acc : List Subtable) (ps TAIL : List Piece) (ty : Nat)
    (sub : Subtable) (y : List Subtable) (P : Tok → Prop) (N : Option Nat → Prop)
    (hkw : ∀ line, KwFree (mkToks line ps))
    (hty : ∀ line, peekTypeOf (mkToks line ps) = some ty)
    (hbr : Frag (chainBranch f fuel st ty) ps (sub, ChSt.empty) SubStop Safe)
    (hcont : Frag (chainCont f fuel n acc (sub, ChSt.empty)) TAIL y P N)
    (hN : ∀ nx, N nx → Safe (nextRune TAIL nx))
    (hP : ∀ line t, P t → SubStop ((mkToks line TAIL).head?.getD t)) :
    Frag (chainLoop f fuel (n + 1) st acc) (ps ++ TAIL) y P N := by
  have hfree : ∀ line, KwFree (mkToks line (ps ++ TAIL)) := by
    intro line; rw [mkToks_append]; exact kwFree_append _ _ (hkw line)
  rw [chainLoop_succ]
  refine frag_optKeyword_no_then kwInputclass _ _ _ _ _ (fun line => (hfree line).1) ?_
  simp only [Bool.false_eq_true, if_false]
  refine frag_optKeyword_no_then kwBacktrackclass _ _ _ _ _ (fun line => (hfree line).2.1) ?_
  simp only [Bool.false_eq_true, if_false]
  refine frag_optKeyword_no_then kwLookaheadclass _ _ _ _ _ (fun line => (hfree line).2.2) ?_
  simp only [Bool.false_eq_true, if_false]
  refine frag_peekType2_then _ _ _ _ _ ty (fun line => by
    rw [mkToks_append]; exact peekTypeOf_append _ _ ty (hty line)) ?_
  exact frag_bind hbr hcont hN hP

theorem chain_cont_end (f : Font) (fuel n : Nat) (acc : List Subtable) (r : Subtable × ChSt) :
    Frag (chainCont f fuel n acc r) [] (acc ++ [r.1]) (fun t => [tOr].contains t.typ = false) anyNext := by
  unfold chainCont
  refine frag_bind0 (frag_optional_no [tOr]) ?_ (fun _ _ => trivial) (fun line t ht => by simpa [mkToks] using ht)
  simp only [Bool.not_false, if_true]
  exact frag_pure _ _

theorem chain_cont_more (f : Font) (fuel n : Nat) (acc : List Subtable) (r : Subtable × ChSt) (X : List Piece)
    (y : List Subtable) (P : Tok → Prop) (N : Option Nat → Prop)
    (h : Frag (chainLoop f fuel n r.2 (acc ++ [r.1])) X y P N) :
    Frag (chainCont f fuel n acc r) (orSep ++ X) y P N := by
  unfold chainCont
  simp only [orSep, sp, tab, eolP, tk, List.cons_append, List.nil_append]
  apply frag_ws [a1 32] ws_sp
  have hy := frag_optional_yes [tOr] tOr (ascii [124, 124]) anyNext (by decide)
    (fun nx _ => or_tokOk nx) (tk_canon tOr _ (by decide))
  refine frag_bind1 hy ?_ (fun _ _ => trivial) (fun _ _ _ => trivial)
  simp only [Bool.not_true, Bool.false_eq_true, if_false]
  have hy2 := (frag_optional_yes [tEOL] tEOL (ascii [10]) anyNext (by decide)
    (fun nx _ => eol_tokOk nx) (tk_canon tEOL _ (by decide))).toU
  refine frag_then1 hy2 ?_ (fun _ _ => trivial) (fun _ _ _ => trivial)
  exact frag_ws [a1 9] ws_tab h

/-! ### format 3 -/

/-- `|` must not be followed by another `|` -/
def notBarNext : Option Nat → Prop := fun nx => ∀ r, nx = some r → r ≠ 124

theorem bar_tokOk (nx : Option Nat) (h : notBarNext nx) : TokOk tBar (ascii [124]) nx := by
  right; right; right; right; right; right; right; right
  exact ⟨rfl, rfl, h⟩

theorem wgs_count (f : Font) (s : List Nat) :
    tokCount ((newExplainer f).writeGlyphSet s) = tokCount ((newExplainer f).writeGlyphList s) + 2 := by
  simp [Explainer.writeGlyphSet, tokCount_append, tokCount, tk]

/-- `[…] […] stop` without a leading space (the backtrack sets) -/
theorem frag_setsUntil_join (f : Font) (hf : FontOk f) (fuel stop : Nat) (sv : List Nat) (Ns : Option Nat → Prop)
    (hstop : ∀ nx, Ns nx → TokOk stop (ascii sv) nx) (hsc : ∀ c ∈ sv, c < 128) (hnb : stop ≠ tSquareBracketOpen)
    (sets : List (List Nat)) (n : Nat) (hn : sets.length < n)
    (hall : ∀ s ∈ sets, SetOk f s ∧ tokCount ((newExplainer f).writeGlyphList s) < fuel) :
    Frag (setsUntil f fuel stop n [])
      (spaceJoin (sets.map (newExplainer f).writeGlyphSet) ++ [sp, .tok stop (ascii sv)]) sets anyTok Ns := by
  cases sets with
  | nil =>
    have := frag_setsUntil f hf fuel stop sv Ns hstop hsc hnb [] n [] hn hall
    simpa [spaceJoin] using this
  | cons s0 rest =>
    cases n with
    | zero => simp at hn
    | succ m =>
      obtain ⟨⟨h1, h2⟩, h3⟩ := hall s0 (by simp)
      have hrest := frag_setsUntil f hf fuel stop sv Ns hstop hsc hnb rest m [s0] (by simp at hn; omega)
        (fun s hs => hall s (by simp [hs]))
      unfold setsUntil
      have hp : spaceJoin ((s0 :: rest).map (newExplainer f).writeGlyphSet) ++ [sp, .tok stop (ascii sv)] =
          (newExplainer f).writeGlyphSet s0 ++ (rest.flatMap (fun s => [sp] ++ (newExplainer f).writeGlyphSet s) ++
            [sp, .tok stop (ascii sv)]) := by
        simp [spaceJoin, List.flatMap_map]
      rw [hp]
      refine frag_bind0 (frag_optional_no [stop]) ?_ (fun _ _ => trivial) (fun line t _ => by
        simp [Explainer.writeGlyphSet, mkToks, tk]
        exact fun h => hnb h.symm)
      simp only [Bool.false_eq_true, if_false]
      refine frag_bind (frag_readGlyphSet f hf s0 h1 h2 fuel h3) ?_ (fun _ _ => trivial) (fun _ _ _ => trivial)
      simpa using hrest

structure Chain3Ok (f : Font) (back input look : List (List Nat)) (acts : List Action) : Prop where
  ne : input ≠ []
  back : ∀ s ∈ back, SetOk f s
  input : ∀ s ∈ input, SetOk f s
  look : ∀ s ∈ look, SetOk f s
  acts : ∀ a ∈ acts, ActOk a

/-- the pieces of a chained format 3 subtable, grouped as the parser reads them -/
def chain3P (f : Font) (back input look : List (List Nat)) (acts : List Action) : List Piece :=
  (spaceJoin (back.reverse.map (newExplainer f).writeGlyphSet) ++ [sp, .tok tBar (ascii [124])]) ++
    ((input.flatMap (fun s => [sp] ++ (newExplainer f).writeGlyphSet s) ++ [sp, .tok tBar (ascii [124])]) ++
      ((look.flatMap (fun s => [sp] ++ (newExplainer f).writeGlyphSet s) ++ [sp, .tok tArrow (ascii [45, 62])]) ++
        (.ws [a1 32] :: (nestedP acts ++ []))))

theorem chain3P_eq (f : Font) (back input look : List (List Nat)) (acts : List Action) :
    subP f (.chain3 back input look acts) = chain3P f back input look acts := by
  simp [subP, Explainer.subtable, chain3P, arrow, sp, tk]

theorem sets_count (f : Font) (sets : List (List Nat)) :
    (∀ s ∈ sets, tokCount ((newExplainer f).writeGlyphList s) ≤
      tokCount (sets.flatMap fun s => [sp] ++ (newExplainer f).writeGlyphSet s)) ∧
    sets.length ≤ tokCount (sets.flatMap fun s => [sp] ++ (newExplainer f).writeGlyphSet s) := by
  refine ⟨fun s hs => ?_, ?_⟩
  · have := tokCount_flatMap_mem (fun s => [sp] ++ (newExplainer f).writeGlyphSet s) sets s hs
    simp only [tokCount_append, wgs_count] at this
    omega
  · exact length_le_tokCount_flatMap _ sets (by
      intro x _; simp only [tokCount_append, wgs_count]; omega)

theorem join_count (f : Font) (sets : List (List Nat)) :
    (∀ s ∈ sets, tokCount ((newExplainer f).writeGlyphList s) ≤
      tokCount (spaceJoin (sets.map (newExplainer f).writeGlyphSet))) ∧
    sets.length ≤ tokCount (spaceJoin (sets.map (newExplainer f).writeGlyphSet)) := by
  cases sets with
  | nil => simp [spaceJoin]
  | cons s0 rest =>
    obtain ⟨h1, h2⟩ := sets_count f rest
    have hp : spaceJoin ((s0 :: rest).map (newExplainer f).writeGlyphSet) =
        (newExplainer f).writeGlyphSet s0 ++ rest.flatMap (fun s => [sp] ++ (newExplainer f).writeGlyphSet s) := by
      simp [spaceJoin, List.flatMap_map]
    rw [hp]
    refine ⟨fun s hs => ?_, ?_⟩
    · simp only [List.mem_cons] at hs
      simp only [tokCount_append, wgs_count]
      rcases hs with rfl | hs
      · omega
      · have := h1 s hs; omega
    · simp only [tokCount_append, wgs_count, List.length_cons]
      omega

theorem chain3_branch (f : Font) (hf : FontOk f) (fuel : Nat) (st : ChSt) (back input look : List (List Nat))
    (acts : List Action) (h : Chain3Ok f back input look acts)
    (hfuel : tokCount (chain3P f back input look acts) < fuel) :
    Frag (chainBranch f fuel st tSquareBracketOpen) (chain3P f back input look acts)
      (.chain3 back input look acts, st) SubStop Safe := by
  cases input with
  | nil => exact absurd rfl h.ne
  | cons s0 rest =>
    obtain ⟨hb1, hb2⟩ := join_count f back.reverse
    obtain ⟨hi1, hi2⟩ := sets_count f (s0 :: rest)
    obtain ⟨hl1, hl2⟩ := sets_count f look
    have hnl := nested_len acts
    unfold chain3P at hfuel ⊢
    simp only [tokCount_append, tokCount] at hfuel
    have hback := frag_setsUntil_join f hf fuel tBar [124] notBarNext bar_tokOk (by decide) (by decide) back.reverse fuel
      (by omega) (fun s hs => ⟨h.back s (by simpa using hs), by have := hb1 s hs; omega⟩)
    have hinput := frag_setsThen f hf fuel tBar [124] notBarNext bar_tokOk (by decide) (by decide) rest s0 fuel []
      (by have : rest.length < (s0 :: rest).length := by simp
          omega) (fun s hs => ⟨h.input s hs, by have := hi1 s hs; omega⟩)
    have hlook := frag_setsUntil f hf fuel tArrow [45, 62] anyNext (fun nx _ => arrow_tokOk nx) (by decide) (by decide) look fuel []
      (by omega) (fun s hs => ⟨h.look s hs, by have := hl1 s hs; omega⟩)
    have hnest := frag_nested acts fuel (by omega) h.acts
    unfold chainBranch
    have e1 : (tSquareBracketOpen == tSlash) = false := by decide
    simp only [e1, Bool.false_eq_true, if_false, beq_self_eq_true, if_true]
    refine frag_bind hback ?_ (fun nx _ r hr => by
        simp [nextRune, render, sp, Piece.rbs, a1] at hr; subst hr; decide) (fun _ _ _ => trivial)
    have hinp : (s0 :: rest).flatMap (fun s => [sp] ++ (newExplainer f).writeGlyphSet s) ++ [sp, .tok tBar (ascii [124])] =
        .ws [a1 32] :: ((newExplainer f).writeGlyphSet s0 ++ (rest.flatMap (fun s => [sp] ++ (newExplainer f).writeGlyphSet s) ++
          [sp, .tok tBar (ascii [124])])) := by
      simp [sp]
    rw [hinp, List.cons_append]
    apply frag_ws [a1 32] ws_sp
    refine frag_bind hinput ?_ (fun nx _ r hr => ?_) (fun _ _ _ => trivial)
    rotate_left
    · cases look with
      | nil => simp [nextRune, render, sp, Piece.rbs, a1] at hr; subst hr; decide
      | cons l0 ls => simp [nextRune, render, sp, Piece.rbs, a1] at hr; subst hr; decide
    refine frag_bind hlook ?_ (fun _ _ => trivial) (fun _ _ _ => trivial)
    apply frag_ws [a1 32] ws_sp
    refine frag_bind hnest ?_ (fun nx h => by simpa [nextRune, render] using safe_notDigit nx h)
      (fun line t ht => by simpa [mkToks] using substop_notInt t ht)
    simp only [List.nil_append, List.reverse_reverse]
    exact frag_weaken (frag_pure _ SubStop) (fun _ h => h) (fun _ _ => trivial)

end SfntV.Dsl
