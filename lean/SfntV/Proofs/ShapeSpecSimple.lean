/-
C06: every non-contextual subtable agrees (engine `applySub` = reference `matchSub`), hence
lookup lists without contextual subtables do.
-/
import SfntV.Proofs.ShapeSpecGsub
import SfntV.Proofs.ShapeSpecGpos
import SfntV.Proofs.ShapeSpecMatch
import SfntV.Proofs.ShapeSpecLoop

namespace SfntV.C06
open SfntV
open SfntV.Shape (Glyph Gdef Lookup LookupList Subtable)
open SfntV.Spec.Shape (TG gl SubEq subtableOk tablesOk)

theorem subEq_simple (kp : Nat → Bool) (gd : Gdef) (pre : List TG) (cur : TG) (post : List TG) (s : Subtable)
    (hs : s.contextual = false) (hok : subtableOk s = true) : SubEq kp gd pre cur post s := by
  cases s with
  | gsub11 cov delta => exact Spec.Shape.subEq_gsub11 kp gd pre cur post cov delta (by simpa [subtableOk] using hok)
  | gsub12 cov subst => exact Spec.Shape.subEq_gsub12 kp gd pre cur post cov subst
  | gsub21 cov repl => exact Spec.Shape.subEq_gsub21 kp gd pre cur post cov repl
  | gsub31 cov alts => exact Spec.Shape.subEq_gsub31 kp gd pre cur post cov alts
  | gsub41 cov ligs => exact Spec.Shape.subEq_gsub41 kp gd pre cur post cov ligs
  | gsub81 input back look subst => exact Spec.Shape.subEq_gsub81 kp gd pre cur post input back look subst
  | gpos11 cov adj => exact Spec.Shape.subEq_gpos11 kp gd pre cur post cov adj
  | gpos12 cov adj => exact Spec.Shape.subEq_gpos12 kp gd pre cur post cov adj
  | gpos21 pairs => exact Spec.Shape.subEq_gpos21 kp gd pre cur post pairs
  | gpos22 cov c1 c2 adj => exact Spec.Shape.subEq_gpos22 kp gd pre cur post cov c1 c2 adj (by simpa [subtableOk] using hok)
  | gpos31 cov recs => exact Spec.Shape.subEq_gpos31 kp gd pre cur post cov recs
  | gpos41 mc bc m b gc => exact Spec.Shape.subEq_gpos41 kp gd pre cur post mc bc m b gc
  | gpos61 mc bc m b => exact Spec.Shape.subEq_gpos61 kp gd pre cur post mc bc m b
  | ctx1 _ _ => simp [Subtable.contextual] at hs
  | ctx2 _ _ _ => simp [Subtable.contextual] at hs
  | ctx3 _ _ => simp [Subtable.contextual] at hs
  | chain1 _ _ => simp [Subtable.contextual] at hs
  | chain2 _ _ _ _ _ => simp [Subtable.contextual] at hs
  | chain3 _ _ _ _ => simp [Subtable.contextual] at hs

theorem listEq_simple (ll : LookupList) (gd : Gdef) (hs : Shape.simpleLL ll = true) (hok : tablesOk ll gd = true) :
    ListEq ll gd := by
  intro lk hlk pre cur post s hsub
  have h1 : lk.simple = true := List.all_eq_true.mp hs lk hlk
  have h2 : (!s.contextual) = true := List.all_eq_true.mp h1 s hsub
  unfold tablesOk at hok
  simp only [Bool.and_eq_true] at hok
  have h3 : lk.subtables.all subtableOk = true := List.all_eq_true.mp hok.2 lk hlk
  have h4 : subtableOk s = true := List.all_eq_true.mp h3 s hsub
  exact subEq_simple _ gd pre cur post s (by simpa using h2) h4

/-- **Engine = reference for lookup lists without contextual subtables** (GSUB 1.1, 1.2, 2.1, 3.1,
4.1, 8.1, GPOS 1.1, 1.2, 2.1, 2.2, 4.1, 6.1; GPOS 3.1 is outside the reference): for all GDEF
data, all lookup flags, all lookup orders and all glyph sequences, whenever the reference shaper
is defined the engine model returns exactly its glyphs (ids, text, offsets, advances), does not
panic, does not run out of fuel, and leaves the stack empty. -/
theorem engine_eq_spec_simple (B : Nat) (ll : LookupList) (gd : Gdef) (lookups : List Nat) (seq r : List Glyph)
    (hs : Shape.simpleLL ll = true) (h : Spec.Shape.shape B ll gd lookups seq = .ok r) :
    Shape.apply B ll gd lookups [] seq = .ok ⟨r, []⟩ := by
  have hok : tablesOk ll gd = true := by
    unfold Spec.Shape.shape at h
    split at h
    · simp [Spec.Shape.undef] at h
    · rename_i hn; simpa using hn
  exact shape_eq B ll gd (listEq_simple ll gd hs hok) lookups seq r h

end SfntV.C06
