/-
Helper lemmas about the string table model (cff/strings.go).
-/
import SfntV.Model.CffStrings

namespace SfntV.Cff
open SfntV

theorem lastIdx_go_spec (l : List String) (s : String) : ∀ (i : Nat) (found : Option Nat) (r : Nat),
    lastIdx.go s l i found = some r →
      (found = some r) ∨ (i ≤ r ∧ l[r - i]? = some s) := by
  induction l with
  | nil => intro i found r h; simp [lastIdx.go] at h; exact Or.inl h
  | cons x xs ih =>
    intro i found r h
    simp only [lastIdx.go] at h
    rcases ih (i + 1) _ r h with h1 | ⟨h1, h2⟩
    · by_cases hx : x = s
      · simp only [hx, if_true] at h1
        injection h1 with h1
        subst h1
        right
        exact ⟨Nat.le_refl _, by simp [hx]⟩
      · simp only [hx, if_false] at h1
        exact Or.inl h1
    · right
      refine ⟨by omega, ?_⟩
      have : r - i = (r - (i + 1)) + 1 := by omega
      rw [this, List.getElem?_cons_succ]
      exact h2

theorem lastIdx_some (l : List String) (s : String) (r : Nat) (h : lastIdx l s = some r) :
    l[r]? = some s := by
  rcases lastIdx_go_spec l s 0 none r h with h1 | ⟨_, h2⟩
  · cases h1
  · simpa using h2

/-- `get (lookup s) = s`: the SID returned for a string reads back as that string, and the custom
strings allocated before keep their place. -/
theorem stringsGet_lookup (std custom : List String) (s : String) :
    stringsGet std.toArray (stringsLookup std custom s).2.toArray (stringsLookup std custom s).1 = some s ∧
      ∃ ext, (stringsLookup std custom s).2 = custom ++ ext := by
  unfold stringsLookup
  cases hc : lastIdx custom s with
  | some i =>
    have := lastIdx_some custom s i hc
    have hi : i < custom.length := by
      rcases Nat.lt_or_ge i custom.length with h | h
      · exact h
      · rw [List.getElem?_eq_none h] at this; cases this
    refine ⟨?_, [], by simp⟩
    have h1 : ¬ ((std.length + i : Nat) : Int) < 0 := by omega
    have h2 : ¬ (std.length + i < std.length) := by omega
    simp only [stringsGet, Int.toNat_natCast, List.size_toArray, h1, h2, if_false]
    have h3 : std.length + i - std.length = i := by omega
    rw [h3]
    simpa using this
  | none =>
    cases hs : lastIdx std s with
    | some i =>
      have := lastIdx_some std s i hs
      have hi : i < std.length := by
        rcases Nat.lt_or_ge i std.length with h | h
        · exact h
        · rw [List.getElem?_eq_none h] at this; cases this
      refine ⟨?_, [], by simp⟩
      have h1 : ¬ ((i : Nat) : Int) < 0 := by omega
      simp only [stringsGet, Int.toNat_natCast, List.size_toArray, h1, hi, if_false, if_true]
      simpa using this
    | none =>
      refine ⟨?_, [s], rfl⟩
      have h1 : ¬ ((std.length + custom.length : Nat) : Int) < 0 := by omega
      have h2 : ¬ (std.length + custom.length < std.length) := by omega
      simp only [stringsGet, Int.toNat_natCast, List.size_toArray, h1, h2, if_false]
      have h3 : std.length + custom.length - std.length = custom.length := by omega
      rw [h3]
      simp

end SfntV.Cff
