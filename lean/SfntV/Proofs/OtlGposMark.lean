/-
GPOS 3.1 (cursive attachment) with its anchor tables: decode ∘ encode = id and the declared size is the
emitted size, for the model of the repaired `Gpos3_1.encode` and of `readGpos3_1`.
-/
import SfntV.Proofs.OtlGpos
import SfntV.Model.OtlGposMark

namespace SfntV.Otl.GposMark
open SfntV SfntV.Otl

/-- anchor coordinates are 16-bit values -/
def AOk (a : Anchor) : Prop := a.1 < 65536 ∧ a.2 < 65536

/-- **anchor round trip**: an anchor table written at word position `P.length` is read back -/
theorem anchor_at (P T : List Nat) (c : Bytes) (a : Anchor) (ha : AOk a) :
    readAnchor (wordsToBytes (P ++ (anchorWords a ++ T)) ++ c) (2 * P.length) = .ok a := by
  unfold readAnchor
  rw [drop_wordsToBytes_append', wordsToBytes_append, List.append_assoc,
    bytesToWords_append _ (by
      intro w hw
      simp only [anchorWords, List.mem_cons, List.not_mem_nil, or_false] at hw
      rcases hw with rfl | rfl | rfl
      · decide
      · exact ha.1
      · exact ha.2)]
  simp [anchorWords]

theorem isEmpty_iff (a : Anchor) : isEmpty a = true ↔ a = (0, 0) := by
  obtain ⟨x, y⟩ := a
  simp [isEmpty]

/-- the words of an anchor in a cursive record: none for the empty anchor -/
def aW (a : Anchor) : List Nat := if isEmpty a then [] else anchorWords a

def eeW (recs : List EntryExit) : List Nat := recs.flatMap fun r => aW r.1 ++ aW r.2

theorem aW_length (a : Anchor) : 2 * (aW a).length = if isEmpty a then 0 else 6 := by
  unfold aW; split <;> simp [anchorWords]

theorem eeOffsets_length : ∀ (recs : List EntryExit) (total : Nat),
    (eeOffsets recs total).1.length = 2 * recs.length
  | [], _ => rfl
  | r :: rs, total => by simp only [eeOffsets, List.length_cons, eeOffsets_length rs]; omega

theorem eeOffsets_lt : ∀ (recs : List EntryExit) (total : Nat), ∀ w ∈ (eeOffsets recs total).1, w < 65536
  | [], _, w, hw => by simp [eeOffsets] at hw
  | r :: rs, total, w, hw => by
    simp only [eeOffsets, List.mem_cons] at hw
    rcases hw with rfl | rfl | hw
    · split
      · decide
      · exact w16_lt _
    · split
      · decide
      · exact w16_lt _
    · exact eeOffsets_lt rs _ w hw

/-- what the encoder writes after the offsets, and where it ends -/
theorem eeWords_eq : ∀ (recs : List EntryExit) (total : Nat), 0 < total →
    total + 2 * (eeW recs).length ≤ 65535 →
    ((recs.zip (pairs (eeOffsets recs total).1)).flatMap (fun q =>
        (if q.2.1 != 0 then anchorWords q.1.1 else []) ++
        (if q.2.2 != 0 then anchorWords q.1.2 else [])) = eeW recs) ∧
    (eeOffsets recs total).2 = total + 2 * (eeW recs).length
  | [], total, _, _ => by simp [eeOffsets, eeW, pairs]
  | r :: rs, total, h0, hfit => by
    have hl : (eeW (r :: rs)).length = (aW r.1).length + (aW r.2).length + (eeW rs).length := by
      simp [eeW, List.length_append, Nat.add_assoc]
    rw [hl] at hfit ⊢
    have e1 := aW_length r.1
    have e2 := aW_length r.2
    simp only [eeOffsets, pairs, List.zip_cons_cons, List.flatMap_cons]
    by_cases h1 : isEmpty r.1 = true <;> by_cases h2 : isEmpty r.2 = true
    · simp only [h1, h2, if_true] at e1 e2 ⊢
      obtain ⟨i1, i2⟩ := eeWords_eq rs total h0 (by omega)
      rw [i1, i2]
      refine ⟨?_, by omega⟩
      simp [eeW, aW, h1, h2]
    · simp only [h1, h2, if_true, if_false, Bool.false_eq_true] at e1 e2 ⊢
      obtain ⟨i1, i2⟩ := eeWords_eq rs (total + 6) (by omega) (by omega)
      rw [i1, i2]
      refine ⟨?_, by omega⟩
      have : (w16 total != 0) = true := by rw [w16_of_lt (by omega)]; simp; omega
      simp [eeW, aW, h1, h2, this]
    · simp only [h1, h2, if_true, if_false, Bool.false_eq_true] at e1 e2 ⊢
      obtain ⟨i1, i2⟩ := eeWords_eq rs (total + 6) (by omega) (by omega)
      rw [i1, i2]
      refine ⟨?_, by omega⟩
      have : (w16 total != 0) = true := by rw [w16_of_lt (by omega)]; simp; omega
      simp [eeW, aW, h1, h2, this]
    · simp only [h1, h2, if_false, Bool.false_eq_true] at e1 e2 ⊢
      obtain ⟨i1, i2⟩ := eeWords_eq rs (total + 6 + 6) (by omega) (by omega)
      rw [i1, i2]
      refine ⟨?_, by omega⟩
      have : (w16 total != 0) = true := by rw [w16_of_lt (by omega)]; simp; omega
      have : (w16 (total + 6) != 0) = true := by rw [w16_of_lt (by omega)]; simp
      simp [eeW, aW, *]

/-- the reader finds every anchor through the written offsets -/
theorem readEE_spec (c : Bytes) : ∀ (recs : List EntryExit) (P T : List Nat),
    (∀ r ∈ recs, AOk r.1 ∧ AOk r.2) → 0 < P.length → 2 * P.length + 2 * (eeW recs).length ≤ 65535 →
    readEE (wordsToBytes (P ++ (eeW recs ++ T)) ++ c) (pairs (eeOffsets recs (2 * P.length)).1) = .ok recs
  | [], _, _, _, _, _ => by simp [eeOffsets, pairs, readEE]
  | r :: rs, P, T, hok, h0, hfit => by
    have hl : (eeW (r :: rs)).length = (aW r.1).length + (aW r.2).length + (eeW rs).length := by
      simp [eeW, List.length_append, Nat.add_assoc]
    rw [hl] at hfit
    have e1 := aW_length r.1
    have e2 := aW_length r.2
    obtain ⟨ok1, ok2⟩ := hok r (by simp)
    have hrs : ∀ r' ∈ rs, AOk r'.1 ∧ AOk r'.2 := fun r' hr' => hok r' (by simp [hr'])
    have hsplit : eeW (r :: rs) = aW r.1 ++ (aW r.2 ++ eeW rs) := by simp [eeW]
    -- the bytes, seen from the three positions
    have hB1 : P ++ (eeW (r :: rs) ++ T) = P ++ (aW r.1 ++ (aW r.2 ++ eeW rs ++ T)) := by
      rw [hsplit]; simp [List.append_assoc]
    have hB2 : P ++ (eeW (r :: rs) ++ T) = (P ++ aW r.1) ++ (aW r.2 ++ (eeW rs ++ T)) := by
      rw [hsplit]; simp [List.append_assoc]
    have hB3 : P ++ (eeW (r :: rs) ++ T) = (P ++ aW r.1 ++ aW r.2) ++ (eeW rs ++ T) := by
      rw [hsplit]; simp [List.append_assoc]
    have hP2 : 2 * (P ++ aW r.1).length = 2 * P.length + if isEmpty r.1 then 0 else 6 := by
      rw [List.length_append]; omega
    have hP3 : 2 * (P ++ aW r.1 ++ aW r.2).length =
        (2 * P.length + if isEmpty r.1 then 0 else 6) + if isEmpty r.2 then 0 else 6 := by
      rw [List.length_append, List.length_append]; omega
    have ih := readEE_spec c rs (P ++ aW r.1 ++ aW r.2) T hrs
      (by rw [List.length_append, List.length_append]; omega)
      (by rw [List.length_append, List.length_append]; omega)
    rw [← hB3, hP3] at ih
    simp only [eeOffsets, pairs, readEE]
    by_cases h1 : isEmpty r.1 = true <;> by_cases h2 : isEmpty r.2 = true
    · simp only [h1, h2, if_true, Nat.add_zero] at ih e1 e2 ⊢
      simp only [bne_self_eq_false, Bool.false_eq_true, if_false, ih]
      have : r = ((0, 0), (0, 0)) := Prod.ext ((isEmpty_iff r.1).mp h1) ((isEmpty_iff r.2).mp h2)
      rw [this]
    · simp only [h1, h2, if_true, if_false, Bool.false_eq_true, Nat.add_zero] at ih hP2 e1 e2 ⊢
      have hne : (w16 (2 * P.length) != 0) = true := by rw [w16_of_lt (by omega)]; simp; omega
      have ha : readAnchor (wordsToBytes (P ++ (eeW (r :: rs) ++ T)) ++ c) (w16 (2 * P.length)) = .ok r.2 := by
        rw [w16_of_lt (by omega), hB2, ← hP2]
        have : aW r.2 = anchorWords r.2 := by simp [aW, h2]
        rw [this]
        exact anchor_at _ _ c r.2 ok2
      simp only [bne_self_eq_false, Bool.false_eq_true, if_false, hne, if_true, ha, ih]
      have : (0, 0) = r.1 := ((isEmpty_iff r.1).mp h1).symm
      rw [this]
    · simp only [h1, h2, if_true, if_false, Bool.false_eq_true, Nat.add_zero] at ih hP2 e1 e2 ⊢
      have hne : (w16 (2 * P.length) != 0) = true := by rw [w16_of_lt (by omega)]; simp; omega
      have ha : readAnchor (wordsToBytes (P ++ (eeW (r :: rs) ++ T)) ++ c) (w16 (2 * P.length)) = .ok r.1 := by
        rw [w16_of_lt (by omega), hB1]
        have : aW r.1 = anchorWords r.1 := by simp [aW, h1]
        rw [this]
        exact anchor_at _ _ c r.1 ok1
      simp only [bne_self_eq_false, Bool.false_eq_true, if_false, hne, if_true, ha, ih]
      have : (0, 0) = r.2 := ((isEmpty_iff r.2).mp h2).symm
      rw [this]
    · simp only [h1, h2, if_false, Bool.false_eq_true] at ih hP2 e1 e2 ⊢
      have hne : (w16 (2 * P.length) != 0) = true := by rw [w16_of_lt (by omega)]; simp; omega
      have hne2 : (w16 (2 * P.length + 6) != 0) = true := by rw [w16_of_lt (by omega)]; simp
      have ha : readAnchor (wordsToBytes (P ++ (eeW (r :: rs) ++ T)) ++ c) (w16 (2 * P.length)) = .ok r.1 := by
        rw [w16_of_lt (by omega), hB1]
        have : aW r.1 = anchorWords r.1 := by simp [aW, h1]
        rw [this]
        exact anchor_at _ _ c r.1 ok1
      have ha2 : readAnchor (wordsToBytes (P ++ (eeW (r :: rs) ++ T)) ++ c) (w16 (2 * P.length + 6)) = .ok r.2 := by
        rw [w16_of_lt (by omega), hB2, ← hP2]
        have : aW r.2 = anchorWords r.2 := by simp [aW, h2]
        rw [this]
        exact anchor_at _ _ c r.2 ok2
      simp only [hne, hne2, if_true, ha, ha2, ih]

theorem eeOffsets_snd : ∀ (recs : List EntryExit) (total : Nat),
    (eeOffsets recs total).2 = total + 2 * (eeW recs).length
  | [], _ => by simp [eeOffsets, eeW]
  | r :: rs, total => by
    have hl : (eeW (r :: rs)).length = (aW r.1).length + (aW r.2).length + (eeW rs).length := by
      simp [eeW, List.length_append, Nat.add_assoc]
    have e1 := aW_length r.1
    have e2 := aW_length r.2
    simp only [eeOffsets, eeOffsets_snd rs, hl]
    by_cases h1 : isEmpty r.1 = true <;> by_cases h2 : isEmpty r.2 = true <;>
      simp only [h1, h2, if_true, if_false, Bool.false_eq_true] at e1 e2 ⊢ <;> omega

theorem eeW_lt (recs : List EntryExit) (hok : ∀ r ∈ recs, AOk r.1 ∧ AOk r.2) : ∀ w ∈ eeW recs, w < 65536 := by
  intro w hw
  unfold eeW at hw
  rw [List.mem_flatMap] at hw
  obtain ⟨r, hr, hw⟩ := hw
  have hA : ∀ (a : Anchor), AOk a → ∀ w ∈ aW a, w < 65536 := by
    intro a ha w hw
    unfold aW at hw
    split at hw
    · simp at hw
    · simp only [anchorWords, List.mem_cons, List.not_mem_nil, or_false] at hw
      rcases hw with rfl | rfl | rfl
      · decide
      · exact ha.1
      · exact ha.2
  rw [List.mem_append] at hw
  rcases hw with hw | hw
  · exact hA _ (hok r hr).1 w hw
  · exact hA _ (hok r hr).2 w hw

theorem sum_eq_eeW : ∀ (recs : List EntryExit),
    (recs.map fun r => (if isEmpty r.1 then 0 else 6) + (if isEmpty r.2 then 0 else 6)).sum =
      2 * (eeW recs).length
  | [] => by simp [eeW]
  | r :: rs => by
    have hl' : (eeW (r :: rs)).length = (aW r.1).length + (aW r.2).length + (eeW rs).length := by
      simp [eeW, List.length_append, Nat.add_assoc]
    have e1 := aW_length r.1
    have e2 := aW_length r.2
    have ih := sum_eq_eeW rs
    simp only [List.map_cons, List.sum_cons, hl']
    by_cases h1 : isEmpty r.1 = true <;> by_cases h2 : isEmpty r.2 = true <;>
      simp only [h1, h2, if_true, if_false, Bool.false_eq_true] at e1 e2 ⊢ <;> omega

/-- **GPOS 3.1 round trip**: whenever the encoder returns bytes, the reader gives the coverage table and
the entry/exit anchors back and `encodeLen` is the number of bytes written -/
theorem roundtrip31 (rev : List Nat) (recs : List EntryExit) (h : Cov.Valid rev)
    (hl : recs.length = rev.length) (hok : ∀ r ∈ recs, AOk r.1 ∧ AOk r.2) (b : Bytes)
    (henc : encode31 rev recs = .ok b) :
    read31 b = .ok (rev.zipIdx, recs) ∧ encodeLen31 rev recs = .ok b.length := by
  unfold encode31 at henc
  simp only [Cov.encodeLen_eq rev h, Cov.encode_eq rev h] at henc
  split at henc
  · simp at henc
  rename_i hfit
  simp only [Outcome.ok.injEq] at henc
  have hsnd := eeOffsets_snd recs (6 + 4 * recs.length)
  rw [hsnd] at hfit henc
  obtain ⟨hz, _⟩ := eeWords_eq recs (6 + 4 * recs.length) (by omega) (by omega)
  rw [hz] at henc
  have hol := eeOffsets_length recs (6 + 4 * recs.length)
  have holt := eeOffsets_lt recs (6 + 4 * recs.length)
  have w1 : w16 (6 + 4 * recs.length + 2 * (eeW recs).length) = 6 + 4 * recs.length + 2 * (eeW recs).length :=
    w16_of_lt (by omega)
  have w2 : w16 recs.length = recs.length := w16_of_lt (by omega)
  rw [w1, w2] at henc
  have hrd := readEE_spec (wordsToBytes (Cov.encodeW rev)) recs
    ([1, 6 + 4 * recs.length + 2 * (eeW recs).length, recs.length] ++ (eeOffsets recs (6 + 4 * recs.length)).1) []
    hok (by simp) (by simp only [List.length_append, List.length_cons, List.length_nil, hol]; omega)
  have hP : 2 * ([1, 6 + 4 * recs.length + 2 * (eeW recs).length, recs.length] ++
      (eeOffsets recs (6 + 4 * recs.length)).1).length = 6 + 4 * recs.length := by
    simp only [List.length_append, List.length_cons, List.length_nil, hol]; omega
  rw [hP, List.append_nil, henc] at hrd
  generalize hO : (eeOffsets recs (6 + 4 * recs.length)).1 = offs at *
  have hlt : ∀ w ∈ [1, 6 + 4 * recs.length + 2 * (eeW recs).length, recs.length] ++ offs ++ eeW recs, w < 65536 := by
    intro w hw
    simp only [List.mem_append, List.mem_cons, List.not_mem_nil, or_false] at hw
    rcases hw with ((rfl | rfl | rfl) | hw) | hw
    · decide
    · omega
    · omega
    · exact holt w hw
    · exact eeW_lt recs hok w hw
  have hw : bytesToWords b = 1 :: (6 + 4 * recs.length + 2 * (eeW recs).length) :: recs.length ::
      (offs ++ (eeW recs ++ Cov.encodeW rev)) := by
    rw [← henc, bytesToWords_append _ hlt, bytesToWords_wordsToBytes _ (Cov.encodeW_lt rev h)]
    simp [List.append_assoc]
  have hdrop : b.drop (6 + 4 * recs.length + 2 * (eeW recs).length) = wordsToBytes (Cov.encodeW rev) := by
    have e : 6 + 4 * recs.length + 2 * (eeW recs).length =
        2 * ([1, 6 + 4 * recs.length + 2 * (eeW recs).length, recs.length] ++ offs ++ eeW recs).length := by
      simp only [List.length_append, List.length_cons, List.length_nil, hol]; omega
    rw [← henc, e]
    exact drop_wordsToBytes_append _ _
  have hcov : Cov.read (wordsToBytes (Cov.encodeW rev)) = .ok rev.zipIdx := by
    unfold Cov.read
    rw [bytesToWords_wordsToBytes _ (Cov.encodeW_lt rev h)]
    exact (Cov.readW_encodeW rev h).1
  refine ⟨?_, ?_⟩
  · simp only [read31, hw]
    rw [if_neg (by simp only [List.length_append, hol]; omega)]
    have ht : (offs ++ (eeW recs ++ Cov.encodeW rev)).take (2 * recs.length) = offs := by
      rw [← hol]; exact List.take_left
    rw [ht, hrd]
    simp only [hdrop, hcov]
    unfold Gpos.prune
    rw [if_neg (by simp [hl]), if_neg (by simp [hl])]
  · simp only [encodeLen31, Cov.encodeLen_eq rev h, ← Cov.encodeW_length rev h]
    rw [← henc]
    simp only [List.length_append, length_wordsToBytes, List.length_cons, List.length_nil, hol]
    congr 1
    have := sum_eq_eeW recs
    omega

end SfntV.Otl.GposMark
