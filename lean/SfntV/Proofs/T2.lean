/-
Helper lemmas about the Type 2 interpreter (C05).
-/
import SfntV.Model.T2Interp
import SfntV.Spec.T2

namespace SfntV.T2
open SfntV SfntV.Spec.T2

theorem maxStack_eq : Gen.t2maxStack = 48 := rfl

/-! ### operand decoding -/

theorem step_encodeInt (q : Quirks) (env : Env) (s : St) (v : Int) (rest : List Nat)
    (h : -32768 ≤ v ∧ v ≤ 32767) (hs : s.stack.length ≤ 48) :
    step q env s (encodeInt v ++ rest) = .ok (.cont { s with stack := s.stack ++ [v * one] } rest) := by
  have hov : ¬ s.stack.length > Gen.t2maxStack := by rw [maxStack_eq]; omega
  unfold encodeInt
  split
  · simp only [List.cons_append, List.nil_append, step, hov, if_false]
    have : 32 ≤ (v + 139).toNat ∧ (v + 139).toNat ≤ 246 := by omega
    simp only [this, and_self, if_true, pushNum]
    have e : (((v + 139).toNat : Nat) : Int) - 139 = v := by omega
    rw [e]
  · split
    · simp only [List.cons_append, List.nil_append, step, hov, if_false]
      have hn : ¬ (32 ≤ ((v - 108) / 256 + 247).toNat ∧ ((v - 108) / 256 + 247).toNat ≤ 246) := by omega
      have hy : 247 ≤ ((v - 108) / 256 + 247).toNat ∧ ((v - 108) / 256 + 247).toNat ≤ 250 := by omega
      simp only [hn, hy, and_self, if_true, if_false, pushNum]
      have e : (((((v - 108) / 256 + 247).toNat : Nat) : Int) - 247) * 256 + ((((v - 108) % 256).toNat : Nat) : Int) + 108 = v := by omega
      rw [e]
    · split
      · simp only [List.cons_append, List.nil_append, step, hov, if_false]
        have hn : ¬ (32 ≤ ((-108 - v) / 256 + 251).toNat ∧ ((-108 - v) / 256 + 251).toNat ≤ 246) := by omega
        have hn2 : ¬ (247 ≤ ((-108 - v) / 256 + 251).toNat ∧ ((-108 - v) / 256 + 251).toNat ≤ 250) := by omega
        have hy : 251 ≤ ((-108 - v) / 256 + 251).toNat ∧ ((-108 - v) / 256 + 251).toNat ≤ 254 := by omega
        simp only [hn, hn2, hy, and_self, if_true, if_false, pushNum]
        have e : (251 - ((((-108 - v) / 256 + 251).toNat : Nat) : Int)) * 256 - ((((-108 - v) % 256).toNat : Nat) : Int) - 108 = v := by omega
        rw [e]
      · have hu : (v % 65536).toNat < 65536 := by omega
        simp only [List.cons_append, List.nil_append, step, hov, if_false]
        simp only [show ¬ (32 ≤ 28 ∧ 28 ≤ 246) by omega, show ¬ (247 ≤ 28 ∧ 28 ≤ 250) by omega,
          show ¬ (251 ≤ 28 ∧ 28 ≤ 254) by omega, if_false, if_true, pushNum]
        have e : toI16 ((v % 65536).toNat / 256 * 256 + (v % 65536).toNat % 256) = v := by
          unfold toI16
          have : (v % 65536).toNat / 256 * 256 + (v % 65536).toNat % 256 = (v % 65536).toNat := by omega
          rw [this]
          split <;> omega
        rw [e]

theorem step_encodeFixed (q : Quirks) (env : Env) (s : St) (u : Int) (rest : List Nat)
    (h : -2147483648 ≤ u ∧ u ≤ 2147483647) (hs : s.stack.length ≤ 48) :
    step q env s (encodeFixed u ++ rest) = .ok (.cont { s with stack := s.stack ++ [u] } rest) := by
  have hov : ¬ s.stack.length > Gen.t2maxStack := by rw [maxStack_eq]; omega
  unfold encodeFixed
  simp only [List.cons_append, List.nil_append, step, hov, if_false]
  simp only [show ¬ (32 ≤ 255 ∧ 255 ≤ 246) by omega, show ¬ (247 ≤ 255 ∧ 255 ≤ 250) by omega,
    show ¬ (251 ≤ 255 ∧ 255 ≤ 254) by omega, show ¬ (255 = 28) by omega, if_false, if_true, pushNum]
  have hw : (u % 4294967296).toNat < 4294967296 := by omega
  have e : toI32 ((((u % 4294967296).toNat / 16777216 * 256 + (u % 4294967296).toNat / 65536 % 256) * 256
      + (u % 4294967296).toNat / 256 % 256) * 256 + (u % 4294967296).toNat % 256) = u := by
    have : (((u % 4294967296).toNat / 16777216 * 256 + (u % 4294967296).toNat / 65536 % 256) * 256
      + (u % 4294967296).toNat / 256 % 256) * 256 + (u % 4294967296).toNat % 256 = (u % 4294967296).toNat := by omega
    rw [this]
    unfold toI32
    split <;> omega
  rw [e]


/-! ### rejection of malformed programs -/

theorem step_overflow (q : Quirks) (env : Env) (s : St) (b : Nat) (rest : List Nat)
    (h : s.stack.length > 48) : step q env s (b :: rest) = .err "overflow" := by
  simp [step, maxStack_eq, h]

/-- operands needed by the arithmetic, storage, conditional and call operators (TN5177 §4.4–4.6) -/
def arity : Op → Nat
  | .and | .or | .add | .sub | .div | .eq | .mul | .exch | .put | .roll => 2
  | .not | .abs | .neg | .drop | .get | .sqrt | .dup | .index | .callsubr | .callgsubr => 1
  | .ifelse => 4
  | _ => 0

theorem exec_underflow (q : Quirks) (env : Env) (s : St) (op : Op) (code : List Nat)
    (h : s.stack.length < arity op) : exec q env s op code = .err "underflow" := by
  rcases hst : s.stack with _ | ⟨a, _ | ⟨b, _ | ⟨c, _ | ⟨d, t⟩⟩⟩⟩ <;> rw [hst] at h <;>
    cases op <;> simp only [arity, List.length_cons, List.length_nil] at h <;>
    first | omega | simp [exec, pop1, pop2, hst]

theorem checkMove_err (e : String) : checkMove (.err e) = .err e := rfl

theorem getSubr_bad (subrs : List (List Nat)) (biased : Int)
    (h : biased + bias subrs.length < 0 ∨ (subrs.length : Int) ≤ biased + bias subrs.length) :
    getSubr subrs biased = .err "subr" := by
  unfold getSubr
  simp only
  split
  · rfl
  · rename_i hn
    have : subrs[(biased + ↑(bias subrs.length)).toNat]? = none := by
      apply List.getElem?_eq_none
      omega
    rw [this]

theorem runAt_zero_call (q : Quirks) (env : Env) (s s' : St) (c : Nat) (cs rest : List Nat) (g : Bool) (b : Int)
    (h : step q env s (c :: cs) = .ok (.call s' rest g b)) :
    runAt q env 0 s (c :: cs) = .err "depth" := by
  simp [runAt, loop, h]

theorem runAt_succ_badsubr (q : Quirks) (env : Env) (d : Nat) (s s' : St) (c : Nat) (cs rest : List Nat)
    (g : Bool) (b : Int) (h : step q env s (c :: cs) = .ok (.call s' rest g b))
    (hb : getSubr (if g then env.gsubrs else env.subrs) b = .err "subr") :
    runAt q env (d + 1) s (c :: cs) = .err "subr" := by
  simp [runAt, loop, h, hb]

theorem rLineTo_moveErr (q : Quirks) (s : St) (dx dy : Int) (h : s.moveErr = true) :
    (rLineTo q s dx dy).moveErr = true := by simp [rLineTo, h]

theorem rlineLoop_moveErr (q : Quirks) (s : St) (l : List Int) (h : s.moveErr = true) :
    (rlineLoop q s l).moveErr = true := by
  fun_induction rlineLoop q s l with
  | case1 s dx dy t ih => exact ih (rLineTo_moveErr q s dx dy h)
  | case2 s l hl => exact h

/-! ### operator-level facts -/

theorem exec_rlineto_one (env : Env) (s : St) (dx dy : Int) (code : List Nat) (hst : s.stack = [dx, dy]) :
    exec strict env s .rlineto code =
      .ok (.cont { s with stack := [], moveErr := s.moveErr || !s.hasMoved, x := s.x + dx, y := s.y + dy,
                          cmds := s.cmds ++ [.lineTo (s.x + dx) (s.y + dy)] } code) := by
  simp [exec, pathOp, countCheck, hst, rlineLoop, rLineTo, fixq, strict, clear]

end SfntV.T2
