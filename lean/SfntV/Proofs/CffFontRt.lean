/-
Composition: `readFont (writeFont f) = nf f` — the sections written by the model of
`(*Font).Write` are found and decoded by the model of `cff.Read`.
-/
import SfntV.Proofs.CffWrite
import SfntV.Proofs.CffTopDict
import SfntV.Proofs.CffCharset
import SfntV.Proofs.CffFdselect
import SfntV.Proofs.CffEncodingRt
import SfntV.Proofs.CffWidths

namespace SfntV.Cff
open SfntV

/-- exit state of `writeFont` (as in `C13_layout_consistent`) -/
theorem writeFont_exit (std : List String) (f : FontIn) (file : Bytes) (passes : Nat)
    (h : writeFont std f = .ok (file, passes)) :
    ∃ fx sc offs, prepare std f = .ok (fx, sc) ∧
      file = (mkBlobs std f.ros.isSome fx sc offs).flatten ∧
      mkBlobsFits std f.ros.isSome fx sc offs = true ∧
      ∀ i, i < sc.num → i ≤ (mkBlobs std f.ros.isSome fx sc offs).length →
        offs.getD i 0 = ((((mkBlobs std f.ros.isSome fx sc offs).take i).flatten.length : Nat) : Int) := by
  unfold writeFont at h
  cases hp : prepare std f with
  | err x => rw [hp] at h; cases h
  | panic s => rw [hp] at h; cases h
  | ok v =>
    obtain ⟨fx, sc⟩ := v
    rw [hp] at h
    simp only at h
    cases hl : writeLoop (mkBlobs std f.ros.isSome fx sc) sc.num (writeFuel fx) (cumsum (initialBlobs fx)) 0 with
    | none => rw [hl] at h; cases h
    | some r =>
      obtain ⟨blobs, offs, k⟩ := r
      rw [hl] at h
      simp only at h
      split at h
      case isFalse => cases h
      rename_i hfits
      injection h with h
      injection h with h1 h2
      obtain ⟨hb, hs⟩ := writeLoop_exit _ _ _ _ _ _ _ _ hl
      refine ⟨fx, sc, offs, rfl, by rw [← h1, hb], hfits, ?_⟩
      intro i hi hlen
      have hs' : (cumsum blobs).take sc.num = offs.take sc.num := by
        simpa [sameOffs] using hs
      rw [← getD_of_take_eq _ _ _ _ hs' hi, ← hb]
      exact cumsum_getD blobs i (by rw [hb]; exact hlen)

/-- a section of a file made of sections -/
theorem section_split (B : List Bytes) (i : Nat) (hi : i < B.length) :
    B.flatten = (B.take i).flatten ++ (B.getD i []) ++ (B.drop (i + 1)).flatten := by
  have h1 : B = B.take i ++ (B.getD i [] :: B.drop (i + 1)) := by
    have : B.getD i [] = B[i] := by simp [List.getD_eq_getElem?_getD, List.getElem?_eq_getElem hi]
    rw [this, List.getElem_cons_drop_succ_eq_drop, List.take_append_drop]
  conv => lhs; rw [h1]
  simp [List.flatten_append, List.append_assoc]

theorem idxOk_of_bounds (blobs : List Bytes) (hc : blobs.length < 65536) (hb : bodyLength blobs + 1 < 4294967296) :
    idxOk blobs = true := by
  obtain ⟨bs, h, _⟩ := readIndex_indexEncode blobs hc hb [] []
  simp [idxOk, h]

theorem idxOk_bounds (blobs : List Bytes) (h : idxOk blobs = true) (hne : blobs ≠ []) :
    blobs.length < 65536 ∧ bodyLength blobs + 1 < 4294967296 := by
  unfold idxOk indexEncode at h
  have hl : ¬ blobs.length = 0 := fun h0 => hne (List.eq_nil_of_length_eq_zero h0)
  by_cases h1 : blobs.length ≥ 65536
  · simp [h1] at h
  · simp only [h1, if_false, hl] at h
    by_cases h4 : chooseOffSize (bodyLength blobs) > 4
    · simp [h4] at h
    · exact ⟨by omega, (chooseOffSize_le_iff _).mp (by omega)⟩

/-- reading an INDEX that is a whole section -/
theorem readIndex_section (B : List Bytes) (i : Nat) (hi : i < B.length) (blobs : List Bytes)
    (hc : blobs.length < 65536) (hb : bodyLength blobs + 1 < 4294967296)
    (hsec : B.getD i [] = outOk (indexEncode blobs)) :
    readIndex B.flatten (B.take i).flatten.length
      = .ok (blobs, (B.take (i + 1)).flatten.length) := by
  obtain ⟨bs, hbs, hr⟩ := readIndex_indexEncode blobs hc hb (B.take i).flatten (B.drop (i + 1)).flatten
  have hsec' : B.getD i [] = bs := by rw [hsec, hbs]; rfl
  rw [section_split B i hi, hsec', hr]
  congr 2
  have : B.take (i + 1) = B.take i ++ [B.getD i []] := by
    rw [List.take_succ]
    simp [List.getD_eq_getElem?_getD, List.getElem?_eq_getElem hi]
  rw [this, hsec']
  simp


/-! ### simple fonts with a predefined encoding -/

def isExpert : EncChoice → Bool
  | .expert => true
  | _ => false

/-- the Top DICT entries of a simple font that do not depend on offsets (`makeTopDict`,
`setFontMatrix`, and `Encoding = 1` for the Expert encoding) -/
def topBaseSimple (f : FontIn) : DictL :=
  (optEntry (decide (f.strs.getD 0 "" ≠ "")) 0 [.str (f.strs.getD 0 "")] ++
   optEntry (decide (f.strs.getD 1 "" ≠ "")) 1 [.str (f.strs.getD 1 "")] ++
   optEntry (decide (f.strs.getD 2 "" ≠ "")) 3072 [.str (f.strs.getD 2 "")] ++
   optEntry (decide (f.strs.getD 3 "" ≠ "")) 2 [.str (f.strs.getD 3 "")] ++
   optEntry (decide (f.strs.getD 4 "" ≠ "")) 3 [.str (f.strs.getD 4 "")] ++
   optEntry (decide (f.strs.getD 5 "" ≠ "")) 4 [.str (f.strs.getD 5 "")] ++
   optEntry f.isFixedPitch 3073 [.int 1] ++
   optEntry (decide (f.italicAngle.2.1 ≠ 0)) 3074 [realOperand f.italicAngle] ++
   optEntry (!f.ulPosDefault) 3075 [f.ulPos] ++
   optEntry (!f.ulThickDefault) 3076 [f.ulThick]) ++
  fontMatrixEntry (f.fontMatrix.getD defaultFM) false

/-- what `prepare` decides about the encoding of a simple font -/
def encPlan (std : List String) (f : FontIn) : Outcome (Option Bytes × Bool) :=
  match f.enc with
  | .standard => .ok (none, false)
  | .expert => .ok (none, true)
  | .custom e =>
    match encodeEncoding e ((stringsLookupAll std [] f.names).1.map fun (n : Nat) => (n : Int)) with
    | .ok b => .ok (some b, false)
    | .err x => .err x
    | .panic s => .panic s

theorem prepare_simple (std : List String) (f : FontIn) (hros : f.ros = none) (encB : Option Bytes) (expert : Bool)
    (henc : encPlan std f = .ok (encB, expert)) (cs : Bytes)
    (hcs : encodeCharset ((stringsLookupAll std [] f.names).1.map fun (n : Nat) => (n : Int)) = .ok cs)
    (hi1 : idxOk [f.fontName] = true) (hi2 : idxOk f.charStrings = true) :
    prepare std f = .ok
      ({ nameIndex := outOk (indexEncode [f.fontName]), encoding := encB, charsets := cs, fdSelect := none,
         charStrings := outOk (indexEncode f.charStrings), custom0 := (stringsLookupAll std [] f.names).2,
         topBase := topBaseSimple f, expert := expert,
         privBase := f.privs.map fun p => makePrivateDict p f.defWidth f.nomWidth,
         fdBase := (List.range f.privs.length).map fun i => fontMatrixEntry (f.fdMatrices.getD i defaultFM) false },
       mkSecs f) := by
  unfold prepare
  simp only [hros, Option.isSome_none, Bool.false_eq_true, if_false]
  unfold encPlan at henc
  cases he : f.enc with
  | standard =>
    rw [he] at henc; simp only at henc
    injection henc with henc; injection henc with h1 h2; subst h1; subst h2
    simp [hcs, topBaseSimple, hi1, hi2]
  | expert =>
    rw [he] at henc; simp only at henc
    injection henc with henc; injection henc with h1 h2; subst h1; subst h2
    simp [hcs, topBaseSimple, hi1, hi2]
  | custom e =>
    rw [he] at henc; simp only at henc
    cases hee : encodeEncoding e ((stringsLookupAll std [] f.names).1.map fun (n : Nat) => (n : Int)) with
    | err x => rw [hee] at henc; cases henc
    | panic x => rw [hee] at henc; cases henc
    | ok bb =>
      rw [hee] at henc; simp only at henc
      injection henc with henc; injection henc with h1 h2; subst h1; subst h2
      simp [hee, hcs, topBaseSimple, hi1, hi2]

/-- the value of the Encoding operator: the offset of the encoding section, or 1 (Expert) -/
def enc16 (encB : Option Bytes) (expert : Bool) (off5 : Int) : Option Int :=
  match encB with
  | some _ => some off5
  | none => if expert then some 1 else none

/-- the top DICT of a simple font, given the numbers that depend on the layout -/
def topSimple (f : FontIn) (e16 : Option Int) (pdSize pdOffs csOffs cstrOffs : Int) : DictL :=
  topBaseSimple f ++ [(18, [.int pdSize, .int pdOffs])] ++ [(15, [.int csOffs])] ++
    optEntry e16.isSome 16 [.int (e16.getD 0)] ++ [(17, [.int cstrOffs])]

/-- the sections of a simple font with one private DICT, as a function of the offsets -/
structure SimpleSecs where
  privBlob : Bytes
  top : DictL
  topData : Bytes
  custom : List String
  B : List Bytes

def simpleSecs (std : List String) (f : FontIn) (p : PrivIn) (encB : Option Bytes) (expert : Bool) (cs : Bytes)
    (offs : List Int) : SimpleSecs :=
  let off (i : Nat) : Int := offs.getD i 0
  let privBlob := (encodeDictS std [] (privDictOf p f.defWidth f.nomWidth (off 11 - off 10))).1
  let top := topSimple f (enc16 encB expert (off 5)) privBlob.length (off 10) (off 6) (off 8)
  let e := encodeDictS std (stringsLookupAll std [] f.names).2 top
  { privBlob := privBlob, top := top, topData := e.1, custom := e.2,
    B := [[1, 0, 4, UInt8.ofNat (offsSize (off 12))], outOk (indexEncode [f.fontName]), outOk (indexEncode [e.1]),
          outOk (indexEncode (e.2.map strToBlob)), [0, 0], encB.getD [], cs, [], outOk (indexEncode f.charStrings), [],
          privBlob, [0, 0]] }

theorem mkBlobs_simple (std : List String) (f : FontIn) (p : PrivIn) (hp : f.privs = [p]) (encB : Option Bytes)
    (expert : Bool) (cs : Bytes) (offs : List Int) :
    mkBlobs std false
      { nameIndex := outOk (indexEncode [f.fontName]), encoding := encB, charsets := cs, fdSelect := none,
        charStrings := outOk (indexEncode f.charStrings), custom0 := (stringsLookupAll std [] f.names).2,
        topBase := topBaseSimple f, expert := expert,
        privBase := f.privs.map fun p => makePrivateDict p f.defWidth f.nomWidth,
        fdBase := (List.range f.privs.length).map fun i => fontMatrixEntry (f.fdMatrices.getD i defaultFM) false }
      (mkSecs f) offs = (simpleSecs std f p encB expert cs offs).B := by
  cases encB <;> cases expert <;>
    simp [mkBlobs, mkSecs, hp, simpleSecs, privDictOf, List.range_succ, topSimple, enc16, optEntry]

/-! ### the Top DICT of a simple font -/

def I32 (v : Int) : Prop := -2147483648 ≤ v ∧ v ≤ 2147483647

structure TopDom (f : FontIn) : Prop where
  ulPos : ValidOperand f.ulPos
  ulThick : ValidOperand f.ulThick
  angle : RealDom f.italicAngle
  fm : ∀ x ∈ f.fontMatrix.getD defaultFM, RealDom x

theorem keys_fontMatrixEntry (fm : List Rl) (b : Bool) : ((fontMatrixEntry fm b).map (·.1)).Sublist [3079] :=
  keys_optEntry _ _ _

theorem mem_fontMatrixEntry {fm : List Rl} {b : Bool} {e : Nat × List Operand} (h : e ∈ fontMatrixEntry fm b) :
    e = (3079, fm.map realOperand) := mem_optEntry h

theorem topSimple_keys_nodup (f : FontIn) (e16 : Option Int) (a b c d : Int) :
    ((topSimple f e16 a b c d).map (·.1)).Nodup := by
  have hsub : ((topSimple f e16 a b c d).map (·.1)).Sublist
      [0, 1, 3072, 2, 3, 4, 3073, 3074, 3075, 3076, 3079, 18, 15, 16, 17] := by
    simp only [topSimple, topBaseSimple, List.map_append]
    have e : ([0, 1, 3072, 2, 3, 4, 3073, 3074, 3075, 3076, 3079, 18, 15, 16, 17] : List Nat)
        = ([0] ++ [1] ++ [3072] ++ [2] ++ [3] ++ [4] ++ [3073] ++ [3074] ++ [3075] ++ [3076] ++ [3079])
          ++ [18] ++ [15] ++ [16] ++ [17] := rfl
    rw [e]
    repeat' apply List.Sublist.append
    all_goals first
      | exact keys_optEntry _ _ _
      | exact keys_fontMatrixEntry _ _
      | exact List.Sublist.refl _
  exact List.Nodup.sublist hsub (by decide)

theorem topSimple_kinds (std c : List String) (f : FontIn) (h : TopDom f) (e16 : Option Int) (a b cc d : Int)
    (he : I32 (e16.getD 0)) (ha : I32 a) (hb : I32 b) (hc : I32 cc) (hd : I32 d) :
    ∀ e ∈ topSimple f e16 a b cc d, EntryKind std c e (e.1, e.2.map decOperand) := by
  intro e he'
  have one : ∀ (o : Operand), ValidOperand o → ∀ o' ∈ [o], ValidOperand o' := by
    intro o ho o' h'; simp at h'; subst h'; exact ho
  have strK : ∀ (op : Nat) (s : String), op ∈ [0, 1, 3072, 2, 3, 4] →
      EntryKind std c (op, [.str s]) ((op, [Operand.str s]).1, (op, [Operand.str s]).2.map decOperand) := by
    intro op s hop
    simp only [List.mem_cons, List.mem_nil_iff, or_false] at hop
    rcases hop with rfl | rfl | rfl | rfl | rfl | rfl <;>
      exact .single _ s (by unfold EncOp; omega) (by decide) (by decide)
  have plainK : ∀ (op : Nat) (args : List Operand), op ∈ [3073, 3074, 3075, 3076, 3079, 16, 18, 15, 17] →
      (∀ o ∈ args, ValidOperand o) → EntryKind std c (op, args) (op, args.map decOperand) := by
    intro op args hop hv
    simp only [List.mem_cons, List.mem_nil_iff, or_false] at hop
    rcases hop with rfl | rfl | rfl | rfl | rfl | rfl | rfl | rfl | rfl <;>
      exact .plain _ args (by unfold EncOp; omega) (by decide) hv
  simp only [topSimple, topBaseSimple, List.mem_append, List.mem_singleton] at he'
  rcases he' with ((((((((((((((he' | he') | he') | he') | he') | he') | he') | he') | he') | he') | he') | he') | he') | he') | he')
  · rw [mem_optEntry he']; exact strK 0 _ (by simp)
  · rw [mem_optEntry he']; exact strK 1 _ (by simp)
  · rw [mem_optEntry he']; exact strK 3072 _ (by simp)
  · rw [mem_optEntry he']; exact strK 2 _ (by simp)
  · rw [mem_optEntry he']; exact strK 3 _ (by simp)
  · rw [mem_optEntry he']; exact strK 4 _ (by simp)
  · rw [mem_optEntry he']; exact plainK 3073 _ (by simp) (one _ (by simp [ValidOperand]))
  · rw [mem_optEntry he']; exact plainK 3074 _ (by simp) (one _ (realOperand_valid _ h.angle))
  · rw [mem_optEntry he']; exact plainK 3075 _ (by simp) (one _ h.ulPos)
  · rw [mem_optEntry he']; exact plainK 3076 _ (by simp) (one _ h.ulThick)
  · rw [mem_fontMatrixEntry he']
    exact plainK 3079 _ (by simp) (by
      intro o ho
      obtain ⟨x, hx, rfl⟩ := List.mem_map.mp ho
      exact realOperand_valid _ (h.fm x hx))
  · rw [he']; exact plainK 18 _ (by simp) (by
      intro o ho
      simp only [List.mem_cons, List.mem_nil_iff, or_false] at ho
      rcases ho with rfl | rfl
      · exact ha
      · exact hb)
  · rw [he']; exact plainK 15 _ (by simp) (one _ hc)
  · rw [mem_optEntry he']; exact plainK 16 _ (by simp) (one _ he)
  · rw [he']; exact plainK 17 _ (by simp) (one _ hd)

/-- the Top DICT of a simple font decodes to its own entries (sorted), with respect to the final
string table -/
theorem topSimple_decode (std c : List String) (f : FontIn) (h : TopDom f) (e16 : Option Int) (a b cc d : Int)
    (he : I32 (e16.getD 0)) (ha : I32 a) (hb : I32 b) (hc : I32 cc) (hd : I32 d)
    (hlen : std.length + (encodeDictS std c (topSimple f e16 a b cc d)).2.length < 2147483647) :
    decodeDict std.toArray (encodeDictS std c (topSimple f e16 a b cc d)).2.toArray
        (encodeDictS std c (topSimple f e16 a b cc d)).1
      = .ok ((sortDict (topSimple f e16 a b cc d)).map fun e => (e.1, e.2.map decOperand)) := by
  have := decode_encodeDictS std c (topSimple f e16 a b cc d) (fun e => (e.1, e.2.map decOperand))
    (fun _ => rfl) (topSimple_keys_nodup f e16 a b cc d) (topSimple_kinds std c f h e16 a b cc d he ha hb hc hd) hlen []
  simpa using this

/-- what the Top DICT of a simple font holds for every operator `Read` looks at -/
theorem dGet_topSimple (f : FontIn) (e16 : Option Int) (a b c d : Int) :
    dGet (topSimple f e16 a b c d) 17 = [.int d] ∧ dGet (topSimple f e16 a b c d) 15 = [.int c] ∧
    dGet (topSimple f e16 a b c d) 18 = [.int a, .int b] ∧
    dGet (topSimple f e16 a b c d) 3078 = [] ∧ dGet (topSimple f e16 a b c d) 3102 = [] ∧
    dGet (topSimple f e16 a b c d) 16 = (if e16.isSome then [Operand.int (e16.getD 0)] else []) ∧
    dGet (topSimple f e16 a b c d) 3079
      = (if fontMatrixNeeded (f.fontMatrix.getD defaultFM) false then (f.fontMatrix.getD defaultFM).map realOperand else []) ∧
    dGet (topSimple f e16 a b c d) 3073 = (if f.isFixedPitch then [.int 1] else []) ∧
    dGet (topSimple f e16 a b c d) 3074 = (if f.italicAngle.2.1 ≠ 0 then [realOperand f.italicAngle] else []) ∧
    dGet (topSimple f e16 a b c d) 3075 = (if f.ulPosDefault then [] else [f.ulPos]) ∧
    dGet (topSimple f e16 a b c d) 3076 = (if f.ulThickDefault then [] else [f.ulThick]) ∧
    (∀ (i op : Nat), (i, op) ∈ [(0, 0), (1, 1), (2, 3072), (3, 2), (4, 3), (5, 4)] →
      dGet (topSimple f e16 a b c d) op = (if f.strs.getD i "" ≠ "" then [.str (f.strs.getD i "")] else [])) := by
  refine ⟨?_, ?_, ?_, ?_, ?_, ?_, ?_, ?_, ?_, ?_, ?_, ?_⟩
  all_goals first
    | (intro i op hm
       simp only [List.mem_cons, List.mem_nil_iff, or_false, Prod.mk.injEq] at hm
       rcases hm with ⟨rfl, rfl⟩ | ⟨rfl, rfl⟩ | ⟨rfl, rfl⟩ | ⟨rfl, rfl⟩ | ⟨rfl, rfl⟩ | ⟨rfl, rfl⟩ <;>
       · simp (disch := decide) only [topSimple, topBaseSimple, fontMatrixEntry, dGet, List.find?_append,
           find_optEntry_eq, find_optEntry_ne, List.find?_cons, List.find?_nil, Option.or_none, Option.none_or]
         first | (split <;> simp_all) | simp)
    | (simp (disch := decide) only [topSimple, topBaseSimple, fontMatrixEntry, dGet, List.find?_append,
         find_optEntry_eq, find_optEntry_ne, List.find?_cons, List.find?_nil, Option.or_none, Option.none_or]
       first | (cases e16 <;> simp; done) | (split <;> simp_all) | simp)

/-! ### reading the sections of a simple font -/

/-- position of section `i` -/
def secPos (B : List Bytes) (i : Nat) : Nat := (B.take i).flatten.length

theorem secPos_succ (B : List Bytes) (i : Nat) (hi : i < B.length) :
    secPos B (i + 1) = secPos B i + (B.getD i []).length := by
  unfold secPos
  have : B.take (i + 1) = B.take i ++ [B.getD i []] := by
    rw [List.take_succ]
    simp [List.getD_eq_getElem?_getD, List.getElem?_eq_getElem hi]
  rw [this]; simp

theorem secPos_le (B : List Bytes) (i : Nat) : secPos B i ≤ B.flatten.length := by
  unfold secPos
  have : B.flatten = (B.take i).flatten ++ (B.drop i).flatten := by
    rw [← List.flatten_append, List.take_append_drop]
  rw [this, List.length_append]
  omega

/-- reading raw bytes of a whole section -/
theorem rd_section (B : List Bytes) (i : Nat) (hi : i < B.length) :
    rd B.flatten (secPos B i) (B.getD i []).length = some (B.getD i []) := by
  rw [section_split B i hi]
  exact rd_mid _ _ _ _ _ rfl rfl

theorem readIndex_section' (B : List Bytes) (i : Nat) (hi : i < B.length) (blobs : List Bytes)
    (hc : blobs.length < 65536) (hb : bodyLength blobs + 1 < 4294967296)
    (hsec : B.getD i [] = outOk (indexEncode blobs)) :
    readIndex B.flatten (secPos B i) = .ok (blobs, secPos B (i + 1)) :=
  readIndex_section B i hi blobs hc hb hsec

/-- an empty INDEX section `[0, 0]` -/
theorem readIndex_empty_section (B : List Bytes) (i : Nat) (hi : i < B.length) (hsec : B.getD i [] = [0, 0]) :
    readIndex B.flatten (secPos B i) = .ok ([], secPos B (i + 1)) := by
  have := readIndex_section' B i hi [] (by simp) (by simp [bodyLength]) (by rw [hsec]; rfl)
  exact this

/-- Latin-1 carriers: bytes → string → bytes and back -/
theorem blobToStr_strToBlob (s : String) (h : ∀ c ∈ s.toList, c.toNat < 256) : blobToStr (strToBlob s) = s := by
  unfold blobToStr strToBlob
  rw [List.map_map]
  have : s.toList.map ((fun x : UInt8 => Char.ofNat x.toNat) ∘ fun c => UInt8.ofNat c.toNat) = s.toList := by
    conv => rhs; rw [← List.map_id s.toList]
    apply List.map_congr_left
    intro c hc
    have hlt := h c hc
    simp only [Function.comp, id]
    have : (UInt8.ofNat c.toNat).toNat = c.toNat := by simp [UInt8.toNat_ofNat']; omega
    rw [this]
    exact Char.ofNat_toNat c
  rw [this]
  exact String.ofList_toList


theorem simpleSecs_top (std : List String) (f : FontIn) (p : PrivIn) (encB : Option Bytes) (expert : Bool)
    (cs : Bytes) (offs : List Int) :
    (simpleSecs std f p encB expert cs offs).top
      = topSimple f (enc16 encB expert (offs.getD 5 0)) (simpleSecs std f p encB expert cs offs).privBlob.length
          (offs.getD 10 0) (offs.getD 6 0) (offs.getD 8 0) := by
  simp only [simpleSecs, topSimple]

theorem simpleSecs_enc (std : List String) (f : FontIn) (p : PrivIn) (encB : Option Bytes) (expert : Bool)
    (cs : Bytes) (offs : List Int) :
    ((simpleSecs std f p encB expert cs offs).topData, (simpleSecs std f p encB expert cs offs).custom)
      = encodeDictS std (stringsLookupAll std [] f.names).2 (simpleSecs std f p encB expert cs offs).top := by
  simp only [simpleSecs]

theorem simpleSecs_priv (std : List String) (f : FontIn) (p : PrivIn) (encB : Option Bytes) (expert : Bool)
    (cs : Bytes) (offs : List Int) :
    (simpleSecs std f p encB expert cs offs).privBlob
      = (encodeDictS std [] (privDictOf p f.defWidth f.nomWidth (offs.getD 11 0 - offs.getD 10 0))).1 := by
  simp only [simpleSecs]

theorem secPos_mono (B : List Bytes) (i j : Nat) (h : i ≤ j) : secPos B i ≤ secPos B j := by
  unfold secPos
  have : B.take j = B.take i ++ (B.take j).drop i := by
    have h1 : B.take i = (B.take j).take i := by rw [List.take_take]; congr 1; omega
    rw [h1, List.take_append_drop]
  rw [this, List.flatten_append, List.length_append]
  omega

theorem find_topSimple_ros (f : FontIn) (e16 : Option Int) (a b c d : Int) :
    (topSimple f e16 a b c d).find? (fun x => decide (x.1 = 3102)) = none := by
  simp (disch := decide) only [topSimple, topBaseSimple, fontMatrixEntry, List.find?_append,
    find_optEntry_eq, find_optEntry_ne, List.find?_cons, List.find?_nil, Option.or_none, Option.none_or]
  simp

theorem stringsLookup_bound (std c : List String) (s : String) :
    (stringsLookup std c s).1 < std.length + c.length + 1 ∧ (stringsLookup std c s).2.length ≤ c.length + 1 := by
  unfold stringsLookup
  cases hc : lastIdx c s with
  | some i =>
    have := lastIdx_some c s i hc
    have hi : i < c.length := by
      rcases Nat.lt_or_ge i c.length with h | h
      · exact h
      · rw [List.getElem?_eq_none h] at this; cases this
    simp only; omega
  | none =>
    cases hs : lastIdx std s with
    | some i =>
      have := lastIdx_some std s i hs
      have hi : i < std.length := by
        rcases Nat.lt_or_ge i std.length with h | h
        · exact h
        · rw [List.getElem?_eq_none h] at this; cases this
      simp only; omega
    | none => simp only [List.length_append, List.length_cons, List.length_nil]; omega

theorem stringsLookupAll_bound (std : List String) (l : List String) : ∀ (c : List String),
    (∀ sid ∈ (stringsLookupAll std c l).1, sid < std.length + c.length + l.length) ∧
      (stringsLookupAll std c l).2.length ≤ c.length + l.length ∧
      (stringsLookupAll std c l).1.length = l.length := by
  induction l with
  | nil => intro c; simp [stringsLookupAll]
  | cons s ss ih =>
    intro c
    obtain ⟨h1, h2⟩ := stringsLookup_bound std c s
    obtain ⟨i1, i2, i3⟩ := ih (stringsLookup std c s).2
    simp only [stringsLookupAll, List.length_cons]
    refine ⟨?_, by omega, by omega⟩
    intro sid hsid
    rcases List.mem_cons.mp hsid with rfl | hsid
    · omega
    · have := i1 sid hsid; omega

theorem resolveEntries_nostr (std : List String) (E : DictL) (h : ∀ e ∈ E, NoStr e.2) : ∀ (c : List String),
    resolveEntries std c E = (E, c) := by
  induction E with
  | nil => intro c; rfl
  | cons e es ih =>
    intro c
    simp only [resolveEntries, resolveArgs_nostr std c e.2 (h e (List.mem_cons_self ..)),
      ih (fun x hx => h x (List.mem_cons_of_mem _ hx))]

theorem encodeDictS_nostr (std c : List String) (d : DictL) (h : ∀ e ∈ d, NoStr e.2) :
    encodeDictS std c d = (encodeDict d, c) := by
  rw [encodeDictS_eq, resolveEntries_nostr std (sortDict d) (fun e he => h e ((sortDict_perm d).mem_iff.mp he)) c]
  rfl

theorem privDict_nostr (p : PrivIn) (dw nw sub : Int) (h : PrivDom p dw nw sub) :
    ∀ e ∈ privDictOf p dw nw sub, NoStr e.2 := by
  intro e he o ho s hs
  subst hs
  exact absurd ((privDict_valid p dw nw sub h e he).2 _ ho) (by simp [ValidOperand])

theorem stringsLookupAll_ext (std : List String) (l : List String) : ∀ (c : List String),
    ∃ ext, (stringsLookupAll std c l).2 = c ++ ext := by
  induction l with
  | nil => intro c; exact ⟨[], by simp [stringsLookupAll]⟩
  | cons s ss ih =>
    intro c
    obtain ⟨e1, h1⟩ := (stringsGet_lookup std c s).2
    obtain ⟨e2, h2⟩ := ih (stringsLookup std c s).2
    exact ⟨e1 ++ e2, by simp only [stringsLookupAll]; rw [h2, h1, List.append_assoc]⟩

/-- the names come back through their SIDs, with respect to any later state of the string table -/
theorem names_back (std : List String) (l : List String) : ∀ (c ext : List String),
    mapOutcomeL (sidName std.toArray ((stringsLookupAll std c l).2 ++ ext).toArray)
      ((stringsLookupAll std c l).1.map fun (n : Nat) => (n : Int)) = .ok l := by
  induction l with
  | nil => intro c ext; rfl
  | cons s ss ih =>
    intro c ext
    simp only [stringsLookupAll, List.map_cons, mapOutcomeL, sidName]
    obtain ⟨e2, h2⟩ := stringsLookupAll_ext std ss (stringsLookup std c s).2
    have hg := (stringsGet_lookup std c s).1
    have hg' : stringsGet std.toArray ((stringsLookupAll std (stringsLookup std c s).2 ss).2 ++ ext).toArray
        ((stringsLookup std c s).1 : Nat) = some s := by
      rw [h2, List.append_assoc]
      exact stringsGet_mono std _ _ _ _ hg
    rw [hg']
    simp only
    rw [ih (stringsLookup std c s).2 ext]

theorem mapM_real_back (fm : List Rl) (h : ∀ x ∈ fm, RealDom x) :
    (fm.map (fun d => decOperand (realOperand d))).mapM realOf = some fm := by
  induction fm with
  | nil => rfl
  | cons x xs ih =>
    have hx := h x (List.mem_cons_self ..)
    simp only [List.map_cons, List.mapM_cons, decOperand_realOperand x hx, realOf, normReal_normal x hx,
      ih (fun y hy => h y (List.mem_cons_of_mem _ hy))]
    rfl

/-! ### where the custom strings come from -/

theorem stringsLookup_mem (std c : List String) (s : String) :
    ∀ x ∈ (stringsLookup std c s).2, x ∈ c ∨ x = s := by
  intro x hx
  unfold stringsLookup at hx
  cases hc : lastIdx c s with
  | some i => simp only [hc] at hx; exact Or.inl hx
  | none =>
    simp only [hc] at hx
    cases hs : lastIdx std s with
    | some i => simp only [hs] at hx; exact Or.inl hx
    | none =>
      simp only [hs] at hx
      rcases List.mem_append.mp hx with h | h
      · exact Or.inl h
      · exact Or.inr (by simpa using h)

theorem stringsLookupAll_mem (std : List String) (l : List String) : ∀ (c : List String),
    ∀ x ∈ (stringsLookupAll std c l).2, x ∈ c ∨ x ∈ l := by
  induction l with
  | nil => intro c x hx; exact Or.inl (by simpa [stringsLookupAll] using hx)
  | cons s ss ih =>
    intro c x hx
    simp only [stringsLookupAll] at hx
    rcases ih _ x hx with h | h
    · rcases stringsLookup_mem std c s x h with h' | h'
      · exact Or.inl h'
      · exact Or.inr (by rw [h']; exact List.mem_cons_self ..)
    · exact Or.inr (List.mem_cons_of_mem _ h)

theorem resolveArgs_mem (std : List String) (args : List Operand) : ∀ (c : List String),
    ∀ x ∈ (resolveArgs std c args).2, x ∈ c ∨ Operand.str x ∈ args := by
  induction args with
  | nil => intro c x hx; exact Or.inl (by simpa [resolveArgs] using hx)
  | cons o os ih =>
    intro c x hx
    cases o with
    | str s =>
      simp only [resolveArgs] at hx
      rcases ih _ x hx with h | h
      · rcases stringsLookup_mem std c s x h with h' | h'
        · exact Or.inl h'
        · exact Or.inr (by rw [h']; exact List.mem_cons_self ..)
      · exact Or.inr (List.mem_cons_of_mem _ h)
    | int v =>
      simp only [resolveArgs] at hx
      rcases ih _ x hx with h | h
      · exact Or.inl h
      · exact Or.inr (List.mem_cons_of_mem _ h)
    | real n m e =>
      simp only [resolveArgs] at hx
      rcases ih _ x hx with h | h
      · exact Or.inl h
      · exact Or.inr (List.mem_cons_of_mem _ h)

theorem resolveEntries_mem (std : List String) (E : DictL) : ∀ (c : List String),
    ∀ x ∈ (resolveEntries std c E).2, x ∈ c ∨ ∃ e ∈ E, Operand.str x ∈ e.2 := by
  induction E with
  | nil => intro c x hx; exact Or.inl (by simpa [resolveEntries] using hx)
  | cons e es ih =>
    intro c x hx
    simp only [resolveEntries] at hx
    rcases ih _ x hx with h | ⟨e', he', hs⟩
    · rcases resolveArgs_mem std e.2 c x h with h' | h'
      · exact Or.inl h'
      · exact Or.inr ⟨e, List.mem_cons_self .., h'⟩
    · exact Or.inr ⟨e', List.mem_cons_of_mem _ he', hs⟩

theorem encodeDictS_mem (std c : List String) (d : DictL) :
    ∀ x ∈ (encodeDictS std c d).2, x ∈ c ∨ ∃ e ∈ d, Operand.str x ∈ e.2 := by
  intro x hx
  rw [encodeDictS_eq] at hx
  rcases resolveEntries_mem std _ c x hx with h | ⟨e, he, hs⟩
  · exact Or.inl h
  · exact Or.inr ⟨e, (sortDict_perm d).mem_iff.mp he, hs⟩

theorem realOperand_ne_str (d : Rl) (x : String) : realOperand d ≠ .str x := by
  unfold realOperand; split <;> simp

/-- the strings in the Top DICT of a simple font are FontInfo strings -/
theorem topSimple_strs (f : FontIn) (ht : TopDom f) (e16 : Option Int) (a b c d : Int) (x : String) :
    (∃ e ∈ topSimple f e16 a b c d, Operand.str x ∈ e.2) → x ∈ f.strs ∨ x = "" := by
  rintro ⟨e, he, hx⟩
  simp only [topSimple, topBaseSimple, fontMatrixEntry, List.mem_append, List.mem_singleton] at he
  have getD_mem : ∀ i, f.strs.getD i "" ∈ f.strs ∨ f.strs.getD i "" = "" := by
    intro i
    rw [List.getD_eq_getElem?_getD]
    cases hh : f.strs[i]? with
    | none => right; rfl
    | some v => left; simp; exact List.mem_of_getElem? hh
  have strCase : ∀ (op i : Nat), e = (op, [Operand.str (f.strs.getD i "")]) → x ∈ f.strs ∨ x = "" := by
    intro op i hee
    rw [hee] at hx
    simp only [List.mem_singleton] at hx
    injection hx with hx
    rw [hx]
    exact getD_mem i
  have numCase : ∀ (op : Nat) (args : List Operand), (∀ o ∈ args, ∀ s, o ≠ Operand.str s) → e = (op, args) →
      x ∈ f.strs ∨ x = "" := by
    intro op args hno hee
    rw [hee] at hx
    exact absurd rfl (hno _ hx x)
  have validNo : ∀ (o : Operand), ValidOperand o → ∀ o' ∈ [o], ∀ s, o' ≠ Operand.str s := by
    intro o ho o' h' s hs
    simp only [List.mem_singleton] at h'
    subst h'; subst hs
    simp [ValidOperand] at ho
  have intNo : ∀ (l : List Int), ∀ o ∈ l.map Operand.int, ∀ s, o ≠ Operand.str s := by
    intro l o ho s hs
    obtain ⟨v, _, rfl⟩ := List.mem_map.mp ho
    cases hs
  rcases he with ((((((((((((((he | he) | he) | he) | he) | he) | he) | he) | he) | he) | he) | he) | he) | he) | he)
  · exact strCase _ 0 (mem_optEntry he)
  · exact strCase _ 1 (mem_optEntry he)
  · exact strCase _ 2 (mem_optEntry he)
  · exact strCase _ 3 (mem_optEntry he)
  · exact strCase _ 4 (mem_optEntry he)
  · exact strCase _ 5 (mem_optEntry he)
  · exact numCase _ _ (intNo [1]) (mem_optEntry he)
  · exact numCase _ _ (validNo _ (realOperand_valid _ ht.angle)) (mem_optEntry he)
  · exact numCase _ _ (validNo _ ht.ulPos) (mem_optEntry he)
  · exact numCase _ _ (validNo _ ht.ulThick) (mem_optEntry he)
  · refine numCase _ _ ?_ (mem_optEntry he)
    intro o ho s hs
    obtain ⟨y, _, rfl⟩ := List.mem_map.mp ho
    exact realOperand_ne_str y s hs
  · exact numCase _ _ (intNo [a, b]) he
  · exact numCase _ _ (intNo [c]) he
  · exact numCase _ _ (intNo [e16.getD 0]) (mem_optEntry he)
  · exact numCase _ _ (intNo [d]) he

/-! ### readers at a shifted position -/

theorem rd_shift (pre data : Bytes) (c n : Nat) : rd (pre ++ data) (pre.length + c) n = rd data c n := by
  unfold rd
  by_cases hn : n = 0
  · simp [hn]
  · simp only [hn, if_false, List.length_append]
    have e : (pre ++ data).drop (pre.length + c) = data.drop c := by
      simp [List.drop_append]
    rw [e]
    by_cases h : c + n ≤ data.length
    · rw [if_pos h, if_pos (by omega)]
    · rw [if_neg h, if_neg (by omega)]

def shiftC (k : Nat) : Outcome (List Nat × Nat × Nat) → Outcome (List Nat × Nat × Nat)
  | .ok (r, cur, c) => .ok (r, cur, k + c)
  | .err e => .err e
  | .panic s => .panic s

theorem readEncRanges_shift (pre data : Bytes) (n : Nat) : ∀ (k c : Nat) (res : List Nat) (cur : Nat),
    readEncRanges (pre ++ data) n k (pre.length + c) res cur = shiftC pre.length (readEncRanges data n k c res cur) := by
  intro k
  induction k with
  | zero => intro c res cur; simp [readEncRanges, shiftC]
  | succ k ih =>
    intro c res cur
    unfold readEncRanges
    rw [Nat.add_assoc, rd_shift, rd_shift]
    cases rd data c 1 with
    | none => rfl
    | some fb =>
      cases rd data (c + 1) 1 with
      | none => rfl
      | some nb =>
        simp only
        split
        · rfl
        · cases readRange n (beVal nb + 1) (beVal fb) res cur with
          | ok v => simp only [Nat.add_assoc, ih]
          | err e => rfl
          | panic s => rfl

theorem readSups_shift (pre data : Bytes) (cs : List Int) : ∀ (k c : Nat) (res : List Nat) (cur : Nat),
    readSups (pre ++ data) cs k (pre.length + c) res cur = readSups data cs k c res cur := by
  intro k
  induction k with
  | zero => intro c res cur; simp [readSups]
  | succ k ih =>
    intro c res cur
    unfold readSups
    rw [Nat.add_assoc, rd_shift, rd_shift]
    cases rd data c 1 with
    | none => rfl
    | some cb =>
      simp only
      split
      · rfl
      · cases rd data (c + 1) 2 with
        | none => rfl
        | some sb =>
          simp only [Nat.add_assoc, ih]

theorem readPrimary_shift (pre data : Bytes) (c format n : Nat) :
    readPrimary (pre ++ data) (pre.length + c) format n = shiftC pre.length (readPrimary data c format n) := by
  unfold readPrimary
  simp only [Nat.add_assoc, rd_shift, readEncRanges_shift]
  split
  · cases rd data (c + 1) 1 with
    | none => rfl
    | some nb =>
      simp only
      split
      · rfl
      · cases rd data (c + 2) (beVal nb) with
        | none => rfl
        | some codes =>
          simp only
          cases readCodes codes (List.replicate 256 0) 1 with
          | ok v => simp [shiftC]
          | err e => rfl
          | panic s => rfl
  · split
    · cases rd data (c + 1) 1 with
      | none => rfl
      | some nb => rfl
    · rfl

theorem readEncoding_shift (pre data : Bytes) (c : Nat) (cs : List Int) :
    readEncoding (pre ++ data) (pre.length + c) cs = readEncoding data c cs := by
  unfold readEncoding
  rw [rd_shift]
  cases rd data c 1 with
  | none => rfl
  | some fb =>
    simp only [readPrimary_shift]
    cases readPrimary data c (beVal fb) cs.length with
    | err e => rfl
    | panic s => rfl
    | ok v =>
      obtain ⟨r, cur, c'⟩ := v
      simp only [shiftC, rd_shift, Nat.add_assoc, readSups_shift]

/-! ### the composition for simple fonts -/

/-- the domain: a simple font (one private DICT); a custom encoding vector obeys the rules of
`encodeEncoding` (256 entries, glyph ids inside the font and contiguous) and the glyph names are distinct -/
structure SimpleDom (std : List String) (f : FontIn) (p : PrivIn) : Prop where
  ros : f.ros = none
  privs : f.privs = [p]
  enc : ∀ e, f.enc = .custom e → e.length = 256 ∧ (∀ g ∈ e, g < f.names.length) ∧
    (∀ g ∈ e, ∀ g', 0 < g' → g' < g → g' ∈ e) ∧
    ((stringsLookupAll std [] f.names).1.map fun (n : Nat) => (n : Int)).Nodup
  top : TopDom f
  priv : ∀ sub, I32 sub → PrivDom p f.defWidth f.nomWidth sub
  nameLen : f.fontName.length + 1 < 4294967296
  nGlyphs : f.names.length = f.charStrings.length
  nPos : 1 ≤ f.names.length
  nMax : std.length + f.names.length + 8 < 65536
  csBody : bodyLength f.charStrings + 1 < 4294967296
  notdef : (stringsLookupAll std [] f.names).1.head? = some 0
  latin : ∀ s, s ∈ f.names ∨ s ∈ f.strs → ∀ c ∈ s.toList, c.toNat < 256
  fmLen : (f.fontMatrix.getD defaultFM).length = 6

/-- what `Read` is expected to deliver for the private DICT -/
def nfPriv (p : PrivIn) (dw nw : Int) : PrivOut :=
  { blueValues := p.blueValues, otherBlues := p.otherBlues,
    blueScale := Rl.clamp (if farApart p.blueScale (false, 39625, -6) (-6) then p.blueScale else (false, 39625, -6))
      Rl.zero (false, 1, 0),
    blueShift := p.blueShift, blueFuzz := p.blueFuzz,
    stdHW := Rl.clamp p.stdHW Rl.zero (false, 1, 4), stdVW := Rl.clamp p.stdVW Rl.zero (false, 1, 4),
    forceBold := p.forceBold, subrs := [], defaultWidth := Rl.ofInt dw, nominalWidth := Rl.ofInt nw }

/-- the value of a number operand as `getFloat` sees it -/
def operandRl (o : Operand) : Rl :=
  match decOperand o with
  | .int v => Rl.ofInt v
  | .real n m e => normReal n m e
  | .str _ => Rl.zero

/-- the encoding vector `Read` is expected to deliver -/
def nfEncoding (T : Tables) (f : FontIn) : List Nat :=
  match f.enc with
  | .standard => encodingByName T.standardEncRev f.names
  | .expert => encodingByName T.expertEnc f.names
  | .custom e => e

/-- the normal form of a simple font: what `Read` is expected to deliver -/
def nfSimple (T : Tables) (f : FontIn) (p : PrivIn) : FontOut :=
  { fontName := f.fontName,
    strs := (List.range 6).map fun i => f.strs.getD i "",
    isFixedPitch := f.isFixedPitch,
    italicAngle := normaliseAngle f.italicAngle,
    ulPos := if f.ulPosDefault then Rl.ofInt (-100) else operandRl f.ulPos,
    ulThick := if f.ulThickDefault then Rl.ofInt 50 else operandRl f.ulThick,
    fontMatrix := if fontMatrixNeeded (f.fontMatrix.getD defaultFM) false then f.fontMatrix.getD defaultFM else defaultFM,
    charStrings := f.charStrings, isCID := false, ros := ("", "", 0), fontMatrices := [],
    privs := [nfPriv p f.defWidth f.nomWidth],
    fds := List.replicate f.charStrings.length 0,
    charset := (stringsLookupAll T.std.toList [] f.names).1.map fun (n : Nat) => (n : Int),
    names := f.names,
    encoding := nfEncoding T f,
    gsubrs := [] }


theorem prepare_ok_inv (std : List String) (f : FontIn) (hros : f.ros = none) (v : Fixed × Secs)
    (h : prepare std f = .ok v) :
    ∃ encB expert cs, encPlan std f = .ok (encB, expert) ∧
      encodeCharset ((stringsLookupAll std [] f.names).1.map fun (n : Nat) => (n : Int)) = .ok cs := by
  unfold prepare at h
  simp only [hros, Option.isSome_none, Bool.false_eq_true, if_false] at h
  unfold encPlan
  cases hcs : encodeCharset ((stringsLookupAll std [] f.names).1.map fun (n : Nat) => (n : Int)) with
  | err x => exfalso; cases he : f.enc <;> simp [he, hcs] at h <;> (split at h <;> simp at h)
  | panic x => exfalso; cases he : f.enc <;> simp [he, hcs] at h <;> (split at h <;> simp at h)
  | ok cs =>
    cases he : f.enc with
    | standard => exact ⟨_, _, cs, rfl, rfl⟩
    | expert => exact ⟨_, _, cs, rfl, rfl⟩
    | custom e =>
      simp only
      cases hee : encodeEncoding e ((stringsLookupAll std [] f.names).1.map fun (n : Nat) => (n : Int)) with
      | ok bb => exact ⟨_, _, cs, rfl, rfl⟩
      | err x => simp [he, hee] at h
      | panic x => simp [he, hee] at h

theorem encPlan_cases (std : List String) (f : FontIn) (encB : Option Bytes) (expert : Bool)
    (h : encPlan std f = .ok (encB, expert)) :
    (f.enc = .standard ∧ encB = none ∧ expert = false) ∨ (f.enc = .expert ∧ encB = none ∧ expert = true) ∨
    (∃ e bb, f.enc = .custom e ∧
      encodeEncoding e ((stringsLookupAll std [] f.names).1.map fun (n : Nat) => (n : Int)) = .ok bb ∧
      encB = some bb ∧ expert = false) := by
  unfold encPlan at h
  cases he : f.enc with
  | standard =>
    rw [he] at h; simp only at h
    injection h with h; injection h with h1 h2
    exact Or.inl ⟨rfl, h1.symm, h2.symm⟩
  | expert =>
    rw [he] at h; simp only at h
    injection h with h; injection h with h1 h2
    exact Or.inr (Or.inl ⟨rfl, h1.symm, h2.symm⟩)
  | custom e =>
    rw [he] at h; simp only at h
    cases hee : encodeEncoding e ((stringsLookupAll std [] f.names).1.map fun (n : Nat) => (n : Int)) with
    | err x => rw [hee] at h; cases h
    | panic x => rw [hee] at h; cases h
    | ok bb =>
      rw [hee] at h; simp only at h
      injection h with h; injection h with h1 h2
      exact Or.inr (Or.inr ⟨e, bb, rfl, hee, h1.symm, h2.symm⟩)

/-- from a successful `writeFont` of a simple font: the encoding and charset bytes, the offsets and the layout -/
theorem simple_layout (std : List String) (f : FontIn) (p : PrivIn) (hd : SimpleDom std f p)
    (file : Bytes) (passes : Nat) (h : writeFont std f = .ok (file, passes)) :
    ∃ encB expert cs offs,
      encPlan std f = .ok (encB, expert) ∧
      encodeCharset ((stringsLookupAll std [] f.names).1.map fun (n : Nat) => (n : Int)) = .ok cs ∧
      file = (simpleSecs std f p encB expert cs offs).B.flatten ∧
      idxOk [(simpleSecs std f p encB expert cs offs).topData] = true ∧
      idxOk ((simpleSecs std f p encB expert cs offs).custom.map strToBlob) = true ∧
      ∀ i, i < 12 → offs.getD i 0 = (secPos (simpleSecs std f p encB expert cs offs).B i : Int) := by
  have hi1 : idxOk [f.fontName] = true := idxOk_of_bounds _ (by simp) (by simp [bodyLength]; exact hd.nameLen)
  have hi2 : idxOk f.charStrings = true :=
    idxOk_of_bounds _ (by have := hd.nGlyphs; have := hd.nMax; omega) hd.csBody
  obtain ⟨fx, sc, offs, hprep, hfile, hfits, hoffs⟩ := writeFont_exit std f file passes h
  obtain ⟨encB, expert, cs, hplan, hcs⟩ := prepare_ok_inv std f hd.ros _ hprep
  rw [prepare_simple std f hd.ros encB expert hplan cs hcs hi1 hi2] at hprep
  injection hprep with hprep
  injection hprep with hfx hsc
  subst hfx; subst hsc
  simp only [hd.ros, Option.isSome_none] at hfile hoffs hfits
  rw [mkBlobs_simple std f p hd.privs encB expert cs offs] at hfile hoffs
  have hf2 : idxOk [(simpleSecs std f p encB expert cs offs).topData] = true ∧
      idxOk ((simpleSecs std f p encB expert cs offs).custom.map strToBlob) = true := by
    cases encB <;> cases expert <;>
      simpa [mkBlobsFits, mkSecs, hd.privs, simpleSecs, privDictOf, List.range_succ, topSimple, enc16, optEntry]
        using hfits
  refine ⟨encB, expert, cs, offs, hplan, hcs, hfile, hf2.1, hf2.2, ?_⟩
  intro i hi
  have hnum : (mkSecs f).num = 12 := by simp [mkSecs, hd.privs]
  have hlenB : (simpleSecs std f p encB expert cs offs).B.length = 12 := by simp [simpleSecs]
  exact hoffs i (by rw [hnum]; exact hi) (by rw [hlenB]; omega)

theorem offsSize_le (i : Int) : 1 ≤ offsSize i ∧ offsSize i ≤ 4 := by
  unfold offsSize; split <;> (try split) <;> (try split) <;> omega

theorem readFont_writeFont_simple (T : Tables) (f : FontIn) (p : PrivIn) (hd : SimpleDom T.std.toList f p)
    (file : Bytes) (passes : Nat) (h : writeFont T.std.toList f = .ok (file, passes))
    (hsize : file.length < 2147483648) :
    readFont T file = .ok (nfSimple T f p) := by
  obtain ⟨encB, expert, cs, offs, hplan, hcs, hfile, hfitTop, hfitStr, hoffs⟩ :=
    simple_layout T.std.toList f p hd file passes h
  subst hfile
  have hencC := encPlan_cases T.std.toList f encB expert hplan
  generalize hS : simpleSecs T.std.toList f p encB expert cs offs = S at *
  have hlenB : S.B.length = 12 := by rw [← hS]; simp [simpleSecs]
  -- the sections
  have hB0 : S.B.getD 0 [] = [1, 0, 4, UInt8.ofNat (offsSize (offs.getD 12 0))] := by rw [← hS]; simp [simpleSecs]
  have hB1 : S.B.getD 1 [] = outOk (indexEncode [f.fontName]) := by rw [← hS]; simp [simpleSecs]
  have hB2 : S.B.getD 2 [] = outOk (indexEncode [S.topData]) := by rw [← hS]; simp [simpleSecs]
  have hB3 : S.B.getD 3 [] = outOk (indexEncode (S.custom.map strToBlob)) := by rw [← hS]; simp [simpleSecs]
  have hB4 : S.B.getD 4 [] = [0, 0] := by rw [← hS]; simp [simpleSecs]
  have hB5 : S.B.getD 5 [] = encB.getD [] := by rw [← hS]; simp [simpleSecs]
  have hB6 : S.B.getD 6 [] = cs := by rw [← hS]; simp [simpleSecs]
  have hB7 : S.B.getD 7 [] = [] := by rw [← hS]; simp [simpleSecs]
  have hB8 : S.B.getD 8 [] = outOk (indexEncode f.charStrings) := by rw [← hS]; simp [simpleSecs]
  have hB9 : S.B.getD 9 [] = [] := by rw [← hS]; simp [simpleSecs]
  have hB10 : S.B.getD 10 [] = S.privBlob := by rw [← hS]; simp [simpleSecs]
  have hB11 : S.B.getD 11 [] = [0, 0] := by rw [← hS]; simp [simpleSecs]
  -- positions
  have hP0 : secPos S.B 0 = 0 := by simp [secPos]
  have hP1 : secPos S.B 1 = 4 := by rw [secPos_succ _ 0 (by omega), hP0, hB0]; rfl
  -- step 1: the header
  have hos := offsSize_le (offs.getD 12 0)
  generalize offsSize (offs.getD 12 0) = os at hB0 hos
  have hrd0 : rd S.B.flatten 0 4 = some [1, 0, 4, UInt8.ofNat os] := by
    have := rd_section S.B 0 (by omega)
    rw [hP0, hB0] at this
    exact this
  unfold readFont
  rw [hrd0]
  simp only
  have hx : beVal [1, 0, 4, UInt8.ofNat os] = 16777216 + 1024 + os := by
    have : (UInt8.ofNat os).toNat = os := by simp [UInt8.toNat_ofNat']; omega
    simp [beVal, this]; omega
  rw [hx]
  have e1 : (16777216 + 1024 + os) / 16777216 = 1 := by omega
  have e2 : (16777216 + 1024 + os) / 256 % 256 = 4 := by omega
  have e3 : (16777216 + 1024 + os) % 256 = os := by omega
  simp only [e1, e2, e3]
  rw [if_neg (by omega), if_neg (by omega)]
  -- steps 2-4: Name INDEX, Top DICT INDEX, String INDEX
  have hI1 := readIndex_section' S.B 1 (by omega) [f.fontName] (by simp) (by simp [bodyLength]; exact hd.nameLen) hB1
  rw [hP1] at hI1
  rw [hI1]
  simp only [List.length_singleton, show ¬ (1 = 0) by omega, if_false, show ¬ (1 > 1) by omega]
  have hsz2 : secPos S.B 3 ≤ S.B.flatten.length := secPos_le _ _
  have hB2len : (S.B.getD 2 []).length = secPos S.B 3 - secPos S.B 2 := by
    rw [secPos_succ _ 2 (by omega)]; omega
  have htdlen : S.topData.length + 1 < 4294967296 := by
    have := (idxOk_bounds _ hfitTop (by simp)).2
    simpa [bodyLength] using this
  have hI2 := readIndex_section' S.B 2 (by omega) [S.topData] (by simp) (by simp [bodyLength]; exact htdlen) hB2
  rw [hI2]
  simp only [List.length_singleton, ne_eq, not_true_eq_false, if_false]
  -- String INDEX
  have hcustomLen : (S.custom.map strToBlob).length < 65536 ∧ bodyLength (S.custom.map strToBlob) + 1 < 4294967296 := by
    by_cases hne : S.custom.map strToBlob = []
    · rw [hne]; simp [bodyLength]
    · exact idxOk_bounds _ hfitStr hne
  have hI3 := readIndex_section' S.B 3 (by omega) (S.custom.map strToBlob) hcustomLen.1 hcustomLen.2 hB3
  rw [hI3]
  simp only
  -- the custom strings come back (Latin-1 carriers)
  generalize he16 : enc16 encB expert (offs.getD 5 0) = e16
  have hStop : S.top = topSimple f e16 S.privBlob.length (offs.getD 10 0) (offs.getD 6 0) (offs.getD 8 0) := by
    have := simpleSecs_top T.std.toList f p encB expert cs offs; rw [hS, he16] at this; exact this
  have hSenc : (S.topData, S.custom) = encodeDictS T.std.toList (stringsLookupAll T.std.toList [] f.names).2 S.top := by
    have := simpleSecs_enc T.std.toList f p encB expert cs offs; rw [hS] at this; exact this
  have hcustomL1 : ∀ s ∈ S.custom, ∀ c ∈ s.toList, c.toNat < 256 := by
    intro s hs
    have hs' : s ∈ (encodeDictS T.std.toList (stringsLookupAll T.std.toList [] f.names).2 S.top).2 := by
      rw [← hSenc]; exact hs
    rcases encodeDictS_mem _ _ _ s hs' with h1 | h1
    · rcases stringsLookupAll_mem _ _ _ s h1 with h2 | h2
      · simp at h2
      · exact hd.latin s (Or.inl h2)
    · rw [hStop] at h1
      rcases topSimple_strs f hd.top _ _ _ _ _ s h1 with h2 | h2
      · exact hd.latin s (Or.inr h2)
      · rw [h2]; intro c hc; simp at hc
  have hcustomBack : (S.custom.map strToBlob).map blobToStr = S.custom := by
    rw [List.map_map]
    conv => rhs; rw [← List.map_id S.custom]
    apply List.map_congr_left
    intro s hs
    exact blobToStr_strToBlob s (hcustomL1 s hs)
  rw [hcustomBack]
  simp only [List.headD_cons]
  -- bounds on the numbers in the Top DICT
  have hoffB : ∀ i, i < 12 → I32 (offs.getD i 0) := by
    intro i hi
    rw [hoffs i hi]
    have := secPos_le S.B i
    unfold I32; omega
  have hprivLen : I32 (S.privBlob.length : Int) := by
    have h1 : secPos S.B 11 = secPos S.B 10 + (S.B.getD 10 []).length := secPos_succ S.B 10 (by omega)
    rw [hB10] at h1
    have := secPos_le S.B 11
    unfold I32; omega
  have he16B : I32 (e16.getD 0) := by
    rw [← he16]
    cases encB with
    | some bb => exact hoffB 5 (by omega)
    | none => cases expert <;> simp [enc16, I32]
  have htopDec := topSimple_decode T.std.toList (stringsLookupAll T.std.toList [] f.names).2 f hd.top e16
    S.privBlob.length (offs.getD 10 0) (offs.getD 6 0) (offs.getD 8 0) he16B hprivLen (hoffB 10 (by omega))
    (hoffB 6 (by omega)) (hoffB 8 (by omega))
    (by
      rw [← hStop, ← hSenc]
      have h1 := hcustomLen.1
      have h2 := hd.nMax
      simp only [List.length_map] at h1
      show T.std.toList.length + S.custom.length < 2147483647
      omega)
  rw [← hStop, ← hSenc] at htopDec
  simp only [Array.toArray_toList] at htopDec
  rw [htopDec]
  simp only
  -- what `Read` finds in the Top DICT
  have hnd := topSimple_keys_nodup f e16 S.privBlob.length (offs.getD 10 0) (offs.getD 6 0) (offs.getD 8 0)
  rw [← hStop] at hnd
  have key : ∀ op, dGet ((sortDict S.top).map fun e => (e.1, e.2.map decOperand)) op
      = (dGet S.top op).map decOperand := dGet_decoded S.top hnd
  obtain ⟨g17, g15, g18, g3078, g3102, g16, g3079, g3073, g3074, g3075, g3076, gstr⟩ :=
    dGet_topSimple f e16 S.privBlob.length (offs.getD 10 0) (offs.getD 6 0) (offs.getD 8 0)
  rw [← hStop] at g17 g15 g18 g3078 g3102 g16 g3079 g3073 g3074 g3075 g3076 gstr
  have hhas : dHas ((sortDict S.top).map fun e => (e.1, e.2.map decOperand)) 3102 = false := by
    unfold dHas
    rw [dGet_expected S.top (fun e => (e.1, e.2.map decOperand)) (fun _ => rfl) hnd 3102, hStop, find_topSimple_ros]
    rfl
  generalize hD : (sortDict S.top).map (fun e => (e.1, e.2.map decOperand)) = D at *
  have hct : dInt D 3078 2 = 2 := by unfold dInt; rw [key, g3078]; rfl
  have h17 : dInt D 17 0 = offs.getD 8 0 := by unfold dInt; rw [key, g17]; rfl
  have h15 : dInt D 15 0 = offs.getD 6 0 := by unfold dInt; rw [key, g15]; rfl
  rw [hct]
  simp only [ne_eq, not_true_eq_false, if_false]
  -- Global Subr INDEX
  have hI4 := readIndex_empty_section S.B 4 (by omega) hB4
  rw [hI4]
  simp only
  -- CharStrings INDEX
  have hpos8 : offs.getD 8 0 = (secPos S.B 8 : Int) := hoffs 8 (by omega)
  have h48 : 4 ≤ secPos S.B 8 := by rw [← hP1]; exact secPos_mono _ _ _ (by omega)
  have hI8 := readIndex_section' S.B 8 (by omega) f.charStrings
    (by have := hd.nGlyphs; have := hd.nMax; omega) hd.csBody hB8
  have hcsRead : readIndexAt S.B.flatten (dInt D 17 0) = .ok f.charStrings := by
    unfold readIndexAt
    rw [h17, hpos8]
    rw [if_neg (by omega)]
    simp only [Int.toNat_natCast, hI8]
  rw [hcsRead]
  simp only
  have hn0 : ¬ f.charStrings.length = 0 := by have := hd.nGlyphs; have := hd.nPos; omega
  rw [if_neg hn0]
  simp only [hhas, Bool.false_eq_true, if_false]
  -- charset
  have hpos6 : offs.getD 6 0 = (secPos S.B 6 : Int) := hoffs 6 (by omega)
  have h46 : 4 ≤ secPos S.B 6 := by rw [← hP1]; exact secPos_mono _ _ _ (by omega)
  rw [h15, hpos6]
  simp only [not_false_eq_true, true_and]
  rw [if_neg (by omega), if_neg (by omega), if_neg (by omega), if_neg (by omega)]
  simp only [Int.toNat_natCast]
  -- the charset section
  obtain ⟨sb1, sb2, sb3⟩ := stringsLookupAll_bound T.std.toList f.names []
  have hnotdef := hd.notdef
  have hencdom := hd.enc
  generalize hsids : (stringsLookupAll T.std.toList [] f.names).1 = sids at *
  obtain ⟨tl, htl⟩ : ∃ tl, sids = 0 :: tl := by
    have := hnotdef
    cases sids with
    | nil => simp at this
    | cons a b => simp at this; exact ⟨b, by rw [this]⟩
  have hgn : sids.map (fun (n : Nat) => (n : Int)) = 0 :: tl.map (fun (n : Nat) => (n : Int)) := by
    rw [htl]; rfl
  have hcsR := readCharset_encodeCharset (tl.map fun (n : Nat) => (n : Int))
    (by simp only [List.length_map]; have := hd.nMax; rw [htl] at sb3; simp at sb3; omega)
    (by
      intro x hx
      obtain ⟨n, hn, rfl⟩ := List.mem_map.mp hx
      have := sb1 n (by rw [htl]; exact List.mem_cons_of_mem _ hn)
      have := hd.nMax
      simp only [List.length_nil] at *
      omega)
    (S.B.take 6).flatten (S.B.drop 7).flatten
  obtain ⟨bs, hbs1, hbs2⟩ := hcsR
  rw [← hgn, hcs] at hbs1
  injection hbs1 with hbs1
  subst hbs1
  have hnlen : f.charStrings.length = (tl.map fun (n : Nat) => (n : Int)).length + 1 := by
    rw [← hd.nGlyphs, ← sb3, htl]; simp
  have hfileSplit : S.B.flatten = (S.B.take 6).flatten ++ cs ++ (S.B.drop 7).flatten := by
    have := section_split S.B 6 (by omega)
    rw [hB6] at this; exact this
  have hcsRead' : readCharset S.B.flatten (secPos S.B 6) f.charStrings.length
      = .ok (sids.map (fun (n : Nat) => (n : Int)), (S.B.take 6).flatten.length + cs.length) := by
    rw [hnlen, hgn]
    conv => lhs; rw [hfileSplit]
    exact hbs2
  rw [hcsRead']
  simp only
  -- the Private DICT
  have hpos10 : offs.getD 10 0 = (secPos S.B 10 : Int) := hoffs 10 (by omega)
  have hpos11 : offs.getD 11 0 = (secPos S.B 11 : Int) := hoffs 11 (by omega)
  have h410 : 4 ≤ secPos S.B 10 := by rw [← hP1]; exact secPos_mono _ _ _ (by omega)
  have hP11 : secPos S.B 11 = secPos S.B 10 + S.privBlob.length := by
    have := secPos_succ S.B 10 (by omega); rw [hB10] at this; exact this
  have hP12 : secPos S.B 11 ≤ S.B.flatten.length := secPos_le _ _
  have hsubI : I32 (offs.getD 11 0 - offs.getD 10 0) := by rw [hpos10, hpos11]; unfold I32; omega
  have hpdom := hd.priv _ hsubI
  have hprivBlob : S.privBlob = encodeDict (privDictOf p f.defWidth f.nomWidth (offs.getD 11 0 - offs.getD 10 0)) := by
    have := simpleSecs_priv T.std.toList f p encB expert cs offs
    rw [hS, encodeDictS_nostr _ _ _ (privDict_nostr p _ _ _ hpdom)] at this
    exact this
  obtain ⟨pd, hpd, f6, f7, f3082, f3083, f3086, f3081, f10, f11, f20, f21, f19⟩ :=
    privatedict_fields T.std S.custom.toArray p f.defWidth f.nomWidth _ hpdom
  have hrdP : rd S.B.flatten (secPos S.B 10) S.privBlob.length = some S.privBlob := by
    have := rd_section S.B 10 (by omega); rw [hB10] at this; exact this
  have hsubrs : (if dInt pd 19 0 > 0 then readIndexAt S.B.flatten (wrap32 (offs.getD 10 0 + dInt pd 19 0)) else .ok [])
      = (.ok [] : Outcome (List Bytes)) := by
    rw [f19]
    split
    · have e : wrap32 (offs.getD 10 0 + (offs.getD 11 0 - offs.getD 10 0)) = (secPos S.B 11 : Int) := by
        rw [hpos10, hpos11]; unfold wrap32 toI32; split <;> omega
      rw [e]
      unfold readIndexAt
      rw [if_neg (by omega)]
      have := readIndex_empty_section S.B 11 (by omega) hB11
      simp only [Int.toNat_natCast, this]
    · rfl
  have hreadPriv : readPrivate T.std S.custom.toArray S.B.flatten D = .ok (nfPriv p f.defWidth f.nomWidth) := by
    unfold readPrivate
    have hpair : dPair D 18 = some ((S.privBlob.length : Int), offs.getD 10 0) := by
      unfold dPair; rw [key, g18]; rfl
    rw [hpair]
    simp only
    rw [if_neg (by rw [hpos10]; omega), if_neg (by rw [hpos10]; omega)]
    rw [hpos10]
    simp only [Int.toNat_natCast, hrdP]
    rw [hprivBlob, hpd]
    simp only
    rw [← hpos10, hsubrs]
    simp only [nfPriv, f6, f7, f3082, f3083, f3081, f10, f11, f20, f21]
    congr 1
    simpa using f3086
  rw [hreadPriv]
  simp only
  -- glyph names
  have hnames : mapOutcomeL (sidName T.std S.custom.toArray) (sids.map fun (n : Nat) => (n : Int)) = .ok f.names := by
    have hext : ∃ ext, S.custom = (stringsLookupAll T.std.toList [] f.names).2 ++ ext := by
      have h1 : S.custom = (encodeDictS T.std.toList (stringsLookupAll T.std.toList [] f.names).2 S.top).2 := by
        rw [← hSenc]
      rw [h1, encodeDictS_eq]
      exact resolveEntries_ext _ _ _
    obtain ⟨ext, hext⟩ := hext
    have := names_back T.std.toList f.names [] ext
    rw [hsids, ← hext] at this
    simpa using this
  rw [hnames]
  simp only
  -- the encoding
  have h16 : dInt D 16 0 = e16.getD 0 := by
    unfold dInt; rw [key, g16]
    cases e16 <;> rfl
  have hpos5 : offs.getD 5 0 = (secPos S.B 5 : Int) := hoffs 5 (by omega)
  have h45 : 4 ≤ secPos S.B 5 := by rw [← hP1]; exact secPos_mono _ _ _ (by omega)
  have hencR : (if dInt D 16 0 = 0 then (Outcome.ok (encodingByName T.standardEncRev f.names) : Outcome (List Nat))
      else if dInt D 16 0 = 1 then .ok (encodingByName T.expertEnc f.names)
      else if dInt D 16 0 < 0 then .err "other"
      else readEncoding S.B.flatten (dInt D 16 0).toNat (sids.map fun (n : Nat) => (n : Int)))
      = .ok (nfEncoding T f) := by
    rw [h16, ← he16]
    unfold nfEncoding
    rcases hencC with ⟨h1, h2, h3⟩ | ⟨h1, h2, h3⟩ | ⟨e, bb, h1, h2, h3, h4⟩
    · subst h2; subst h3; rw [h1]; simp [enc16]
    · subst h2; subst h3; rw [h1]; simp [enc16]
    · subst h3; subst h4; rw [h1]
      simp only [enc16, Option.getD_some, hpos5]
      rw [if_neg (by omega), if_neg (by omega), if_neg (by omega)]
      simp only [Int.toNat_natCast]
      obtain ⟨d1, d2, d3, d4⟩ := hencdom e h1
      have hsplit : S.B.flatten = (S.B.take 5).flatten ++ (bb ++ (S.B.drop 6).flatten) := by
        have := section_split S.B 5 (by omega)
        rw [hB5] at this
        simpa [List.append_assoc] using this
      have hpos : secPos S.B 5 = (S.B.take 5).flatten.length + 0 := by simp [secPos]
      rw [hsplit, hpos, readEncoding_shift]
      have hlenS : (sids.map fun (n : Nat) => (n : Int)).length = f.names.length := by
        simp only [List.length_map]; exact sb3
      exact readEncoding_encodeEncoding e _ bb _ d1 (by rw [hlenS]; exact d2) d3
        (by rw [hlenS]; exact hd.nPos) (by rw [hlenS]; have := hd.nMax; omega) d4
        (by
          intro x hx
          obtain ⟨n, hn, rfl⟩ := List.mem_map.mp hx
          have := sb1 n hn
          have := hd.nMax
          simp only [List.length_nil] at *
          omega)
        h2
  rw [hencR]
  simp only
  -- the fields
  have hstr : ∀ (i op : Nat), (i, op) ∈ [(0, 0), (1, 1), (2, 3072), (3, 2), (4, 3), (5, 4)] →
      dString D op = f.strs.getD i "" := by
    intro i op hm
    unfold dString
    rw [key, gstr i op hm]
    generalize f.strs.getD i "" = s0
    by_cases hs : s0 = ""
    · subst hs; rfl
    · simp only [ne_eq, hs, not_false_eq_true, if_true, List.map_cons, List.map_nil, decOperand]
  have hfixed : decide (¬ dInt D 3073 0 = 0) = f.isFixedPitch := by
    unfold dInt; rw [key, g3073]
    cases f.isFixedPitch <;> simp [decOperand]
  have hangle : dFloat D 3074 Rl.zero = f.italicAngle := by
    unfold dFloat; rw [key, g3074]
    by_cases hc : f.italicAngle.2.1 = 0
    · have hz : f.italicAngle = Rl.zero := by
        rcases hd.top.angle with ⟨h1, h2, h3⟩ | ⟨h1, _⟩
        · generalize f.italicAngle = q at *
          obtain ⟨n, m, e⟩ := q
          simp only at h1 h2 h3
          subst h1; subst h2; subst h3
          rfl
        · omega
      rw [hz]; rfl
    · simp only [hc, ne_eq, not_false_eq_true, if_true, List.map_cons, List.map_nil,
        decOperand_realOperand _ hd.top.angle]
      exact normReal_normal _ hd.top.angle
  have hnum : ∀ (o : Operand) (dflt : Rl), ValidOperand o →
      (match [o].map decOperand with
        | [Operand.int v] => Rl.ofInt v
        | [Operand.real n m e] => normReal n m e
        | _ => dflt) = operandRl o := by
    intro o dflt ho
    cases o with
    | int v => rfl
    | real n m e => simp [operandRl, decOperand]
    | str s => simp [ValidOperand] at ho
  have hulp : dFloat D 3075 (Rl.ofInt (-100)) = if f.ulPosDefault then Rl.ofInt (-100) else operandRl f.ulPos := by
    unfold dFloat; rw [key, g3075]
    cases f.ulPosDefault with
    | true => rfl
    | false => simp only [Bool.false_eq_true, if_false]; exact hnum _ _ hd.top.ulPos
  have hult : dFloat D 3076 (Rl.ofInt 50) = if f.ulThickDefault then Rl.ofInt 50 else operandRl f.ulThick := by
    unfold dFloat; rw [key, g3076]
    cases f.ulThickDefault with
    | true => rfl
    | false => simp only [Bool.false_eq_true, if_false]; exact hnum _ _ hd.top.ulThick
  have hfm : dFontMatrix D 3079 false
      = if fontMatrixNeeded (f.fontMatrix.getD defaultFM) false then f.fontMatrix.getD defaultFM else defaultFM := by
    unfold dFontMatrix
    rw [key, g3079]
    cases fontMatrixNeeded (f.fontMatrix.getD defaultFM) false with
    | false => simp
    | true =>
      simp only [if_true, List.length_map, hd.fmLen, ne_eq, not_true_eq_false, if_false, Bool.false_eq_true,
        List.map_map]
      have := mapM_real_back (f.fontMatrix.getD defaultFM) hd.top.fm
      simp only [Function.comp_def] at this ⊢
      rw [this]
  unfold nfSimple
  rw [hstr 0 0 (by simp), hstr 1 1 (by simp), hstr 2 3072 (by simp), hstr 3 2 (by simp), hstr 4 3 (by simp),
    hstr 5 4 (by simp), hfixed, hangle, hulp, hult, hfm, hsids]
  rfl

end SfntV.Cff
