/-
Composition: `readFont (writeFont f) = nf f` — the sections written by the model of
`(*Font).Write` are found and decoded by the model of `cff.Read`.
-/
import SfntV.Proofs.CffWrite
import SfntV.Proofs.CffTopDict
import SfntV.Proofs.CffCharset
import SfntV.Proofs.CffFdselect
import SfntV.Proofs.CffEncodingRt
import SfntV.Proofs.CffWidths

namespace SfntV.Cff
open SfntV

/-- exit state of `writeFont` (as in `C13_layout_consistent`) -/
theorem writeFont_exit (std : List String) (f : FontIn) (file : Bytes) (passes : Nat)
    (h : writeFont std f = .ok (file, passes)) :
    ∃ fx sc offs, prepare std f = .ok (fx, sc) ∧
      file = (mkBlobs std f.ros.isSome fx sc offs).flatten ∧
      ∀ i, i < sc.num → i ≤ (mkBlobs std f.ros.isSome fx sc offs).length →
        offs.getD i 0 = ((((mkBlobs std f.ros.isSome fx sc offs).take i).flatten.length : Nat) : Int) := by
  unfold writeFont at h
  cases hp : prepare std f with
  | err x => rw [hp] at h; cases h
  | panic s => rw [hp] at h; cases h
  | ok v =>
    obtain ⟨fx, sc⟩ := v
    rw [hp] at h
    simp only at h
    cases hl : writeLoop (mkBlobs std f.ros.isSome fx sc) sc.num 64 (cumsum (initialBlobs fx)) 0 with
    | none => rw [hl] at h; cases h
    | some r =>
      obtain ⟨blobs, offs, k⟩ := r
      rw [hl] at h
      simp only at h
      injection h with h
      injection h with h1 h2
      obtain ⟨hb, hs⟩ := writeLoop_exit _ _ _ _ _ _ _ _ hl
      refine ⟨fx, sc, offs, rfl, by rw [← h1, hb], ?_⟩
      intro i hi hlen
      have hs' : (cumsum blobs).take sc.num = offs.take sc.num := by
        simpa [sameOffs] using hs
      rw [← getD_of_take_eq _ _ _ _ hs' hi, ← hb]
      exact cumsum_getD blobs i (by rw [hb]; exact hlen)

/-- a section of a file made of sections -/
theorem section_split (B : List Bytes) (i : Nat) (hi : i < B.length) :
    B.flatten = (B.take i).flatten ++ (B.getD i []) ++ (B.drop (i + 1)).flatten := by
  have h1 : B = B.take i ++ (B.getD i [] :: B.drop (i + 1)) := by
    have : B.getD i [] = B[i] := by simp [List.getD_eq_getElem?_getD, List.getElem?_eq_getElem hi]
    rw [this, List.getElem_cons_drop_succ_eq_drop, List.take_append_drop]
  conv => lhs; rw [h1]
  simp [List.flatten_append, List.append_assoc]

/-- reading an INDEX that is a whole section -/
theorem readIndex_section (B : List Bytes) (i : Nat) (hi : i < B.length) (blobs : List Bytes)
    (hc : blobs.length < 65536) (hb : bodyLength blobs + 1 < 4294967296)
    (hsec : B.getD i [] = outOk (indexEncode blobs)) :
    readIndex B.flatten (B.take i).flatten.length
      = .ok (blobs, (B.take (i + 1)).flatten.length) := by
  obtain ⟨bs, hbs, hr⟩ := readIndex_indexEncode blobs hc hb (B.take i).flatten (B.drop (i + 1)).flatten
  have hsec' : B.getD i [] = bs := by rw [hsec, hbs]; rfl
  rw [section_split B i hi, hsec', hr]
  congr 2
  have : B.take (i + 1) = B.take i ++ [B.getD i []] := by
    rw [List.take_succ]
    simp [List.getD_eq_getElem?_getD, List.getElem?_eq_getElem hi]
  rw [this, hsec']
  simp


/-! ### simple fonts with a predefined encoding -/

def isExpert : EncChoice → Bool
  | .expert => true
  | _ => false

/-- the Top DICT entries of a simple font that do not depend on offsets (`makeTopDict`,
`setFontMatrix`, and `Encoding = 1` for the Expert encoding) -/
def topBaseSimple (f : FontIn) : DictL :=
  (optEntry (decide (f.strs.getD 0 "" ≠ "")) 0 [.str (f.strs.getD 0 "")] ++
   optEntry (decide (f.strs.getD 1 "" ≠ "")) 1 [.str (f.strs.getD 1 "")] ++
   optEntry (decide (f.strs.getD 2 "" ≠ "")) 3072 [.str (f.strs.getD 2 "")] ++
   optEntry (decide (f.strs.getD 3 "" ≠ "")) 2 [.str (f.strs.getD 3 "")] ++
   optEntry (decide (f.strs.getD 4 "" ≠ "")) 3 [.str (f.strs.getD 4 "")] ++
   optEntry (decide (f.strs.getD 5 "" ≠ "")) 4 [.str (f.strs.getD 5 "")] ++
   optEntry f.isFixedPitch 3073 [.int 1] ++
   optEntry (decide (f.italicAngle.2.1 ≠ 0)) 3074 [realOperand f.italicAngle] ++
   optEntry (!f.ulPosDefault) 3075 [f.ulPos] ++
   optEntry (!f.ulThickDefault) 3076 [f.ulThick]) ++
  fontMatrixEntry (f.fontMatrix.getD defaultFM) false

theorem prepare_simple (std : List String) (f : FontIn) (hros : f.ros = none)
    (henc : f.enc = .standard ∨ f.enc = .expert) (cs : Bytes)
    (hcs : encodeCharset ((stringsLookupAll std [] f.names).1.map fun (n : Nat) => (n : Int)) = .ok cs) :
    prepare std f = .ok
      ({ nameIndex := outOk (indexEncode [f.fontName]), encoding := none, charsets := cs, fdSelect := none,
         charStrings := outOk (indexEncode f.charStrings), custom0 := (stringsLookupAll std [] f.names).2,
         topBase := topBaseSimple f ++ optEntry (isExpert f.enc) 16 [Operand.int 1],
         privBase := f.privs.map fun p => makePrivateDict p f.defWidth f.nomWidth,
         fdBase := (List.range f.privs.length).map fun i => fontMatrixEntry (f.fdMatrices.getD i defaultFM) false },
       mkSecs f) := by
  unfold prepare
  simp only [hros, Option.isSome_none, Bool.false_eq_true, if_false]
  rcases henc with he | he
  · simp [he, hcs, topBaseSimple, isExpert, optEntry]
  · simp [he, hcs, topBaseSimple, isExpert, optEntry]


/-- the sections of a simple font with one private DICT, as a function of the offsets -/
structure SimpleSecs (std : List String) (f : FontIn) (p : PrivIn) (cs : Bytes) (offs : List Int) where
  privBlob : Bytes
  top : DictL
  topData : Bytes
  custom : List String
  B : List Bytes

def simpleSecs (std : List String) (f : FontIn) (p : PrivIn) (cs : Bytes) (offs : List Int) :
    SimpleSecs std f p cs offs :=
  let off (i : Nat) : Int := offs.getD i 0
  let privBlob := (encodeDictS std [] (privDictOf p f.defWidth f.nomWidth (off 11 - off 10))).1
  let top := (topBaseSimple f ++ optEntry (isExpert f.enc) 16 [Operand.int 1]) ++
    [(18, [.int privBlob.length, .int (off 10)])] ++ [(15, [.int (off 6)])] ++ [(17, [.int (off 8)])]
  let e := encodeDictS std (stringsLookupAll std [] f.names).2 top
  { privBlob := privBlob, top := top, topData := e.1, custom := e.2,
    B := [[1, 0, 4, UInt8.ofNat (offsSize (off 12))], outOk (indexEncode [f.fontName]), outOk (indexEncode [e.1]),
          outOk (indexEncode (e.2.map strToBlob)), [0, 0], [], cs, [], outOk (indexEncode f.charStrings), [],
          privBlob, [0, 0]] }

theorem mkBlobs_simple (std : List String) (f : FontIn) (p : PrivIn) (hp : f.privs = [p]) (cs : Bytes) (offs : List Int) :
    mkBlobs std false
      { nameIndex := outOk (indexEncode [f.fontName]), encoding := none, charsets := cs, fdSelect := none,
        charStrings := outOk (indexEncode f.charStrings), custom0 := (stringsLookupAll std [] f.names).2,
        topBase := topBaseSimple f ++ optEntry (isExpert f.enc) 16 [Operand.int 1],
        privBase := f.privs.map fun p => makePrivateDict p f.defWidth f.nomWidth,
        fdBase := (List.range f.privs.length).map fun i => fontMatrixEntry (f.fdMatrices.getD i defaultFM) false }
      (mkSecs f) offs = (simpleSecs std f p cs offs).B := by
  simp [mkBlobs, mkSecs, hp, simpleSecs, privDictOf, List.range_succ]


/-! ### the Top DICT of a simple font -/

def I32 (v : Int) : Prop := -2147483648 ≤ v ∧ v ≤ 2147483647

structure TopDom (f : FontIn) : Prop where
  ulPos : ValidOperand f.ulPos
  ulThick : ValidOperand f.ulThick
  angle : RealDom f.italicAngle
  fm : ∀ x ∈ f.fontMatrix.getD defaultFM, RealDom x

theorem keys_fontMatrixEntry (fm : List Rl) (b : Bool) : ((fontMatrixEntry fm b).map (·.1)).Sublist [3079] :=
  keys_optEntry _ _ _

theorem mem_fontMatrixEntry {fm : List Rl} {b : Bool} {e : Nat × List Operand} (h : e ∈ fontMatrixEntry fm b) :
    e = (3079, fm.map realOperand) := mem_optEntry h

/-- the top DICT of a simple font, given the numbers that depend on the layout -/
def topSimple (f : FontIn) (pdSize pdOffs csOffs cstrOffs : Int) : DictL :=
  (topBaseSimple f ++ optEntry (isExpert f.enc) 16 [Operand.int 1]) ++
    [(18, [.int pdSize, .int pdOffs])] ++ [(15, [.int csOffs])] ++ [(17, [.int cstrOffs])]

theorem topSimple_keys_nodup (f : FontIn) (a b c d : Int) : ((topSimple f a b c d).map (·.1)).Nodup := by
  have hsub : ((topSimple f a b c d).map (·.1)).Sublist
      [0, 1, 3072, 2, 3, 4, 3073, 3074, 3075, 3076, 3079, 16, 18, 15, 17] := by
    simp only [topSimple, topBaseSimple, List.map_append]
    have e : ([0, 1, 3072, 2, 3, 4, 3073, 3074, 3075, 3076, 3079, 16, 18, 15, 17] : List Nat)
        = ([0] ++ [1] ++ [3072] ++ [2] ++ [3] ++ [4] ++ [3073] ++ [3074] ++ [3075] ++ [3076] ++ [3079] ++ [16])
          ++ [18] ++ [15] ++ [17] := rfl
    rw [e]
    repeat' apply List.Sublist.append
    all_goals first
      | exact keys_optEntry _ _ _
      | exact keys_fontMatrixEntry _ _
      | exact List.Sublist.refl _
  exact List.Nodup.sublist hsub (by decide)

theorem topSimple_kinds (std c : List String) (f : FontIn) (h : TopDom f) (a b cc d : Int)
    (ha : I32 a) (hb : I32 b) (hc : I32 cc) (hd : I32 d) :
    ∀ e ∈ topSimple f a b cc d, EntryKind std c e (e.1, e.2.map decOperand) := by
  intro e he
  have one : ∀ (o : Operand), ValidOperand o → ∀ o' ∈ [o], ValidOperand o' := by
    intro o ho o' h'; simp at h'; subst h'; exact ho
  have strK : ∀ (op : Nat) (s : String), op ∈ [0, 1, 3072, 2, 3, 4] →
      EntryKind std c (op, [.str s]) ((op, [Operand.str s]).1, (op, [Operand.str s]).2.map decOperand) := by
    intro op s hop
    simp only [List.mem_cons, List.mem_nil_iff, or_false] at hop
    rcases hop with rfl | rfl | rfl | rfl | rfl | rfl <;>
      exact .single _ s (by unfold EncOp; omega) (by decide) (by decide)
  have plainK : ∀ (op : Nat) (args : List Operand), op ∈ [3073, 3074, 3075, 3076, 3079, 16, 18, 15, 17] →
      (∀ o ∈ args, ValidOperand o) → EntryKind std c (op, args) (op, args.map decOperand) := by
    intro op args hop hv
    simp only [List.mem_cons, List.mem_nil_iff, or_false] at hop
    rcases hop with rfl | rfl | rfl | rfl | rfl | rfl | rfl | rfl | rfl <;>
      exact .plain _ args (by unfold EncOp; omega) (by decide) hv
  simp only [topSimple, topBaseSimple, List.mem_append, List.mem_singleton] at he
  rcases he with ((((((((((((((he | he) | he) | he) | he) | he) | he) | he) | he) | he) | he) | he) | he) | he) | he)
  · rw [mem_optEntry he]; exact strK 0 _ (by simp)
  · rw [mem_optEntry he]; exact strK 1 _ (by simp)
  · rw [mem_optEntry he]; exact strK 3072 _ (by simp)
  · rw [mem_optEntry he]; exact strK 2 _ (by simp)
  · rw [mem_optEntry he]; exact strK 3 _ (by simp)
  · rw [mem_optEntry he]; exact strK 4 _ (by simp)
  · rw [mem_optEntry he]; exact plainK 3073 _ (by simp) (one _ (by simp [ValidOperand]))
  · rw [mem_optEntry he]; exact plainK 3074 _ (by simp) (one _ (realOperand_valid _ h.angle))
  · rw [mem_optEntry he]; exact plainK 3075 _ (by simp) (one _ h.ulPos)
  · rw [mem_optEntry he]; exact plainK 3076 _ (by simp) (one _ h.ulThick)
  · rw [mem_fontMatrixEntry he]
    exact plainK 3079 _ (by simp) (by
      intro o ho
      obtain ⟨x, hx, rfl⟩ := List.mem_map.mp ho
      exact realOperand_valid _ (h.fm x hx))
  · rw [mem_optEntry he]; exact plainK 16 _ (by simp) (one _ (by simp [ValidOperand]))
  · rw [he]; exact plainK 18 _ (by simp) (by
      intro o ho
      simp only [List.mem_cons, List.mem_nil_iff, or_false] at ho
      rcases ho with rfl | rfl
      · exact ha
      · exact hb)
  · rw [he]; exact plainK 15 _ (by simp) (one _ hc)
  · rw [he]; exact plainK 17 _ (by simp) (one _ hd)


/-- the Top DICT of a simple font decodes to its own entries (sorted), with respect to the final
string table -/
theorem topSimple_decode (std c : List String) (f : FontIn) (h : TopDom f) (a b cc d : Int)
    (ha : I32 a) (hb : I32 b) (hc : I32 cc) (hd : I32 d)
    (hlen : std.length + (encodeDictS std c (topSimple f a b cc d)).2.length < 2147483647) :
    decodeDict std.toArray (encodeDictS std c (topSimple f a b cc d)).2.toArray
        (encodeDictS std c (topSimple f a b cc d)).1
      = .ok ((sortDict (topSimple f a b cc d)).map fun e => (e.1, e.2.map decOperand)) := by
  have := decode_encodeDictS std c (topSimple f a b cc d) (fun e => (e.1, e.2.map decOperand))
    (fun _ => rfl) (topSimple_keys_nodup f a b cc d) (topSimple_kinds std c f h a b cc d ha hb hc hd) hlen []
  simpa using this

/-- what the Top DICT of a simple font holds for every operator `Read` looks at -/
theorem dGet_topSimple (f : FontIn) (a b c d : Int) :
    dGet (topSimple f a b c d) 17 = [.int d] ∧ dGet (topSimple f a b c d) 15 = [.int c] ∧
    dGet (topSimple f a b c d) 18 = [.int a, .int b] ∧
    dGet (topSimple f a b c d) 3078 = [] ∧ dGet (topSimple f a b c d) 3102 = [] ∧
    dGet (topSimple f a b c d) 16 = (if isExpert f.enc then [Operand.int 1] else []) ∧
    dGet (topSimple f a b c d) 3079
      = (if fontMatrixNeeded (f.fontMatrix.getD defaultFM) false then (f.fontMatrix.getD defaultFM).map realOperand else []) ∧
    dGet (topSimple f a b c d) 3073 = (if f.isFixedPitch then [.int 1] else []) ∧
    dGet (topSimple f a b c d) 3074 = (if f.italicAngle.2.1 ≠ 0 then [realOperand f.italicAngle] else []) ∧
    dGet (topSimple f a b c d) 3075 = (if f.ulPosDefault then [] else [f.ulPos]) ∧
    dGet (topSimple f a b c d) 3076 = (if f.ulThickDefault then [] else [f.ulThick]) ∧
    (∀ (i op : Nat), (i, op) ∈ [(0, 0), (1, 1), (2, 3072), (3, 2), (4, 3), (5, 4)] →
      dGet (topSimple f a b c d) op = (if f.strs.getD i "" ≠ "" then [.str (f.strs.getD i "")] else [])) := by
  refine ⟨?_, ?_, ?_, ?_, ?_, ?_, ?_, ?_, ?_, ?_, ?_, ?_⟩
  all_goals first
    | (intro i op hm
       simp only [List.mem_cons, List.mem_nil_iff, or_false, Prod.mk.injEq] at hm
       rcases hm with ⟨rfl, rfl⟩ | ⟨rfl, rfl⟩ | ⟨rfl, rfl⟩ | ⟨rfl, rfl⟩ | ⟨rfl, rfl⟩ | ⟨rfl, rfl⟩ <;>
       · simp (disch := decide) only [topSimple, topBaseSimple, fontMatrixEntry, dGet, List.find?_append,
           find_optEntry_eq, find_optEntry_ne, List.find?_cons, List.find?_nil, Option.or_none, Option.none_or]
         first | (split <;> simp_all) | simp)
    | (simp (disch := decide) only [topSimple, topBaseSimple, fontMatrixEntry, dGet, List.find?_append,
         find_optEntry_eq, find_optEntry_ne, List.find?_cons, List.find?_nil, Option.or_none, Option.none_or]
       first | (split <;> simp_all) | simp)


/-! ### reading the sections of a simple font -/

/-- position of section `i` -/
def secPos (B : List Bytes) (i : Nat) : Nat := (B.take i).flatten.length

theorem secPos_succ (B : List Bytes) (i : Nat) (hi : i < B.length) :
    secPos B (i + 1) = secPos B i + (B.getD i []).length := by
  unfold secPos
  have : B.take (i + 1) = B.take i ++ [B.getD i []] := by
    rw [List.take_succ]
    simp [List.getD_eq_getElem?_getD, List.getElem?_eq_getElem hi]
  rw [this]; simp

theorem secPos_le (B : List Bytes) (i : Nat) : secPos B i ≤ B.flatten.length := by
  unfold secPos
  have : B.flatten = (B.take i).flatten ++ (B.drop i).flatten := by
    rw [← List.flatten_append, List.take_append_drop]
  rw [this, List.length_append]
  omega

/-- reading raw bytes of a whole section -/
theorem rd_section (B : List Bytes) (i : Nat) (hi : i < B.length) :
    rd B.flatten (secPos B i) (B.getD i []).length = some (B.getD i []) := by
  rw [section_split B i hi]
  exact rd_mid _ _ _ _ _ rfl rfl

theorem readIndex_section' (B : List Bytes) (i : Nat) (hi : i < B.length) (blobs : List Bytes)
    (hc : blobs.length < 65536) (hb : bodyLength blobs + 1 < 4294967296)
    (hsec : B.getD i [] = outOk (indexEncode blobs)) :
    readIndex B.flatten (secPos B i) = .ok (blobs, secPos B (i + 1)) :=
  readIndex_section B i hi blobs hc hb hsec

/-- an empty INDEX section `[0, 0]` -/
theorem readIndex_empty_section (B : List Bytes) (i : Nat) (hi : i < B.length) (hsec : B.getD i [] = [0, 0]) :
    readIndex B.flatten (secPos B i) = .ok ([], secPos B (i + 1)) := by
  have := readIndex_section' B i hi [] (by simp) (by simp [bodyLength]) (by rw [hsec]; rfl)
  exact this

/-- Latin-1 carriers: bytes → string → bytes and back -/
theorem blobToStr_strToBlob (s : String) (h : ∀ c ∈ s.toList, c.toNat < 256) : blobToStr (strToBlob s) = s := by
  unfold blobToStr strToBlob
  rw [List.map_map]
  have : s.toList.map ((fun x : UInt8 => Char.ofNat x.toNat) ∘ fun c => UInt8.ofNat c.toNat) = s.toList := by
    conv => rhs; rw [← List.map_id s.toList]
    apply List.map_congr_left
    intro c hc
    have hlt := h c hc
    simp only [Function.comp, id]
    have : (UInt8.ofNat c.toNat).toNat = c.toNat := by simp [UInt8.toNat_ofNat']; omega
    rw [this]
    exact Char.ofNat_toNat c
  rw [this]
  exact String.ofList_toList


/-! ### the composition for simple fonts with a predefined encoding -/

/-- the domain: a simple font (one private DICT), Standard or Expert encoding -/
structure SimpleDom (std : List String) (f : FontIn) (p : PrivIn) : Prop where
  ros : f.ros = none
  privs : f.privs = [p]
  enc : f.enc = .standard ∨ f.enc = .expert
  top : TopDom f
  priv : ∀ sub, I32 sub → PrivDom p f.defWidth f.nomWidth sub
  nameLen : f.fontName.length + 1 < 4294967296
  nGlyphs : f.names.length = f.charStrings.length
  nPos : 1 ≤ f.names.length
  nMax : std.length + f.names.length + 8 < 65536
  csBody : bodyLength f.charStrings + 1 < 4294967296
  notdef : (stringsLookupAll std [] f.names).1.head? = some 0
  latin : ∀ s, s ∈ f.names ∨ s ∈ f.strs → ∀ c ∈ s.toList, c.toNat < 256

/-- what `Read` is expected to deliver for the private DICT -/
def nfPriv (p : PrivIn) (dw nw : Int) : PrivOut :=
  { blueValues := p.blueValues, otherBlues := p.otherBlues,
    blueScale := Rl.clamp (if farApart p.blueScale (false, 39625, -6) (-6) then p.blueScale else (false, 39625, -6))
      Rl.zero (false, 1, 0),
    blueShift := p.blueShift, blueFuzz := p.blueFuzz,
    stdHW := Rl.clamp p.stdHW Rl.zero (false, 1, 4), stdVW := Rl.clamp p.stdVW Rl.zero (false, 1, 4),
    forceBold := p.forceBold, subrs := [], defaultWidth := Rl.ofInt dw, nominalWidth := Rl.ofInt nw }

/-- the value of a number operand as `getFloat` sees it -/
def operandRl (o : Operand) : Rl :=
  match decOperand o with
  | .int v => Rl.ofInt v
  | .real n m e => normReal n m e
  | .str _ => Rl.zero

/-- the normal form of a simple font: what `Read` is expected to deliver -/
def nfSimple (T : Tables) (f : FontIn) (p : PrivIn) : FontOut :=
  { fontName := f.fontName,
    strs := (List.range 6).map fun i => f.strs.getD i "",
    isFixedPitch := f.isFixedPitch,
    italicAngle := normaliseAngle f.italicAngle,
    ulPos := if f.ulPosDefault then Rl.ofInt (-100) else operandRl f.ulPos,
    ulThick := if f.ulThickDefault then Rl.ofInt 50 else operandRl f.ulThick,
    fontMatrix := if fontMatrixNeeded (f.fontMatrix.getD defaultFM) false then f.fontMatrix.getD defaultFM else defaultFM,
    charStrings := f.charStrings, isCID := false, ros := ("", "", 0), fontMatrices := [],
    privs := [nfPriv p f.defWidth f.nomWidth],
    fds := List.replicate f.charStrings.length 0,
    charset := (stringsLookupAll T.std.toList [] f.names).1.map fun (n : Nat) => (n : Int),
    names := f.names,
    encoding := encodingByName (if isExpert f.enc then T.expertEnc else T.standardEncRev) f.names,
    gsubrs := [] }


/-- from a successful `writeFont` of a simple font: the charset bytes, the offsets and the layout -/
theorem simple_layout (std : List String) (f : FontIn) (p : PrivIn) (hd : SimpleDom std f p)
    (file : Bytes) (passes : Nat) (h : writeFont std f = .ok (file, passes)) :
    ∃ cs offs,
      encodeCharset ((stringsLookupAll std [] f.names).1.map fun (n : Nat) => (n : Int)) = .ok cs ∧
      file = (simpleSecs std f p cs offs).B.flatten ∧
      ∀ i, i < 12 → offs.getD i 0 = (secPos (simpleSecs std f p cs offs).B i : Int) := by
  cases hcs : encodeCharset ((stringsLookupAll std [] f.names).1.map fun (n : Nat) => (n : Int)) with
  | err x =>
    exfalso
    have : prepare std f = .err x := by
      unfold prepare
      simp only [hd.ros, Option.isSome_none, Bool.false_eq_true, if_false]
      rcases hd.enc with he | he <;> simp [he, hcs]
    unfold writeFont at h; rw [this] at h; cases h
  | panic x =>
    exfalso
    have : prepare std f = .panic x := by
      unfold prepare
      simp only [hd.ros, Option.isSome_none, Bool.false_eq_true, if_false]
      rcases hd.enc with he | he <;> simp [he, hcs]
    unfold writeFont at h; rw [this] at h; cases h
  | ok cs =>
    obtain ⟨fx, sc, offs, hprep, hfile, hoffs⟩ := writeFont_exit std f file passes h
    rw [prepare_simple std f hd.ros hd.enc cs hcs] at hprep
    injection hprep with hprep
    injection hprep with hfx hsc
    subst hfx; subst hsc
    simp only [hd.ros, Option.isSome_none] at hfile hoffs
    rw [mkBlobs_simple std f p hd.privs cs offs] at hfile hoffs
    refine ⟨cs, offs, rfl, hfile, ?_⟩
    intro i hi
    have hnum : (mkSecs f).num = 12 := by simp [mkSecs, hd.privs]
    have hlenB : (simpleSecs std f p cs offs).B.length = 12 := by simp [simpleSecs]
    exact hoffs i (by rw [hnum]; exact hi) (by rw [hlenB]; omega)


theorem offsSize_le (i : Int) : 1 ≤ offsSize i ∧ offsSize i ≤ 4 := by
  unfold offsSize; split <;> (try split) <;> (try split) <;> omega

theorem readFont_writeFont_simple (T : Tables) (f : FontIn) (p : PrivIn) (hd : SimpleDom T.std.toList f p)
    (file : Bytes) (passes : Nat) (h : writeFont T.std.toList f = .ok (file, passes))
    (hsize : file.length < 2147483648) :
    readFont T file = .ok (nfSimple T f p) := by
  obtain ⟨cs, offs, hcs, hfile, hoffs⟩ := simple_layout T.std.toList f p hd file passes h
  subst hfile
  generalize hS : simpleSecs T.std.toList f p cs offs = S at *
  have hlenB : S.B.length = 12 := by rw [← hS]; simp [simpleSecs]
  -- the sections
  have hB0 : S.B.getD 0 [] = [1, 0, 4, UInt8.ofNat (offsSize (offs.getD 12 0))] := by rw [← hS]; simp [simpleSecs]
  have hB1 : S.B.getD 1 [] = outOk (indexEncode [f.fontName]) := by rw [← hS]; simp [simpleSecs]
  have hB2 : S.B.getD 2 [] = outOk (indexEncode [S.topData]) := by rw [← hS]; simp [simpleSecs]
  have hB3 : S.B.getD 3 [] = outOk (indexEncode (S.custom.map strToBlob)) := by rw [← hS]; simp [simpleSecs]
  have hB4 : S.B.getD 4 [] = [0, 0] := by rw [← hS]; simp [simpleSecs]
  have hB5 : S.B.getD 5 [] = [] := by rw [← hS]; simp [simpleSecs]
  have hB6 : S.B.getD 6 [] = cs := by rw [← hS]; simp [simpleSecs]
  have hB7 : S.B.getD 7 [] = [] := by rw [← hS]; simp [simpleSecs]
  have hB8 : S.B.getD 8 [] = outOk (indexEncode f.charStrings) := by rw [← hS]; simp [simpleSecs]
  have hB9 : S.B.getD 9 [] = [] := by rw [← hS]; simp [simpleSecs]
  have hB10 : S.B.getD 10 [] = S.privBlob := by rw [← hS]; simp [simpleSecs]
  have hB11 : S.B.getD 11 [] = [0, 0] := by rw [← hS]; simp [simpleSecs]
  -- positions
  have hP0 : secPos S.B 0 = 0 := by simp [secPos]
  have hP1 : secPos S.B 1 = 4 := by rw [secPos_succ _ 0 (by omega), hP0, hB0]; rfl
  -- step 1: the header
  have hos := offsSize_le (offs.getD 12 0)
  generalize offsSize (offs.getD 12 0) = os at hB0 hos
  have hrd0 : rd S.B.flatten 0 4 = some [1, 0, 4, UInt8.ofNat os] := by
    have := rd_section S.B 0 (by omega)
    rw [hP0, hB0] at this
    exact this
  unfold readFont
  rw [hrd0]
  simp only
  have hx : beVal [1, 0, 4, UInt8.ofNat os] = 16777216 + 1024 + os := by
    have : (UInt8.ofNat os).toNat = os := by simp [UInt8.toNat_ofNat']; omega
    simp [beVal, this]
  rw [hx]
  have e1 : (16777216 + 1024 + os) / 16777216 = 1 := by omega
  have e2 : (16777216 + 1024 + os) / 256 % 256 = 4 := by omega
  have e3 : (16777216 + 1024 + os) % 256 = os := by omega
  simp only [e1, e2, e3]
  rw [if_neg (by omega), if_neg (by omega)]
  sorry

end SfntV.Cff
