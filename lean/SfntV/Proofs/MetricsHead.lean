import SfntV.Proofs.Metrics
namespace SfntV.Metrics
open SfntV

def I64 (x : Int) : Prop := -9223372036854775808 ≤ x ∧ x ≤ 9223372036854775807

theorem wrap64_range (x : Int) : I64 (wrap64 x) := by
  unfold wrap64 I64; omega

theorem wrap64_id (x : Int) (h : I64 x) : wrap64 x = x := by
  unfold wrap64; unfold I64 at h; omega

theorem u16_rt (n : Nat) (h : n < 65536) :
    (UInt8.ofNat (n / 256 % 256)).toNat * 256 + (UInt8.ofNat (n % 256)).toNat = n := by
  simp only [u8n]; omega

theorem u32_rt' (n : Nat) :
    ((UInt8.ofNat (n / 16777216 % 256)).toNat * 256 + (UInt8.ofNat (n / 65536 % 256)).toNat) * 65536 +
    ((UInt8.ofNat (n / 256 % 256)).toNat * 256 + (UInt8.ofNat (n % 256)).toNat) = n % 4294967296 := by
  simp only [u8n]; omega

theorem u32_rt (n : Nat) (h : n < 4294967296) :
    ((UInt8.ofNat (n / 16777216 % 256)).toNat * 256 + (UInt8.ofNat (n / 65536 % 256)).toNat) * 65536 +
    ((UInt8.ofNat (n / 256 % 256)).toNat * 256 + (UInt8.ofNat (n % 256)).toNat) = n := by
  rw [u32_rt']; omega

/-- the eight bytes `i64enc x` read back as a signed big-endian value -/
theorem i64_rt (x : Int) (h : I64 x) (b : Bytes) (off : Nat)
    (hb : ∀ i, i < 8 → b.getD (off + i) 0 = (i64enc x).getD i 0) : rdI64 b off = x := by
  unfold I64 at h
  have h0 := hb 0 (by omega); have h1 := hb 1 (by omega); have h2 := hb 2 (by omega)
  have h3 := hb 3 (by omega); have h4 := hb 4 (by omega); have h5 := hb 5 (by omega)
  have h6 := hb 6 (by omega); have h7 := hb 7 (by omega)
  simp only [i64enc, be64, be32, List.cons_append, List.nil_append, List.getD_cons_succ,
    List.getD_cons_zero, Nat.add_zero] at h0 h1 h2 h3 h4 h5 h6 h7
  simp only [rdI64, rdU64, rdU32, rdU16, rdU8, Nat.add_assoc, Nat.reduceAdd, h0, h1, h2, h3, h4, h5, h6, h7]
  generalize hn : (x % 18446744073709551616).toNat = n
  rw [u32_rt' (n / 4294967296), u32_rt' n]
  split <;> omega

theorem encodeTime_range (t : GoTime) : I64 (encodeTime t) := by
  unfold encodeTime
  split
  · unfold I64; omega
  · exact wrap64_range _

/-- what a timestamp looks like after a trip through the head table -/
def timeImage (t : GoTime) : GoTime :=
  if t.isZero ∨ t.sec = Gen.metricsZeroTime then GoTime.zero else ⟨t.sec, 0⟩

theorem time_roundtrip (t : GoTime) (hlo : -4611686018427387904 ≤ t.sec)
    (hhi : t.sec ≤ 4611686018427387904) : decodeTime (encodeTime t) = timeImage t := by
  unfold timeImage encodeTime decodeTime
  by_cases hz : t.isZero = true
  · simp [hz]
  · simp only [hz, false_or, Bool.false_eq_true, if_false]
    have hw : wrap64 (t.sec - Gen.metricsZeroTime) = t.sec - Gen.metricsZeroTime := by
      apply wrap64_id; unfold I64; simp only [Gen.metricsZeroTime]; omega
    rw [hw]
    by_cases he : t.sec = Gen.metricsZeroTime
    · simp [he]
    · have : t.sec - Gen.metricsZeroTime ≠ 0 := by omega
      simp only [this, he, if_false]
      have : Gen.metricsZeroTime + (t.sec - Gen.metricsZeroTime) = t.sec := by omega
      rw [this, wrap64_id]
      unfold I64; omega

theorem flags_bits (y x n : Bool) :
    let f := b2n y + 2 * b2n x + (if n then 4 + 16 else 0) + 8 + 2048 + 4096 + 8192
    f < 65536 ∧ bit f 0 = y ∧ bit f 1 = x ∧ (bit f 2 || bit f 4) = n := by
  cases y <;> cases x <;> cases n <;> decide

theorem style_bits (a b c d e : Bool) :
    let f := b2n a + 2 * b2n b + 16 * b2n c + 32 * b2n d + 64 * b2n e
    f < 65536 ∧ bit f 0 = a ∧ bit f 1 = b ∧ bit f 4 = c ∧ bit f 5 = d ∧ bit f 6 = e := by
  cases a <;> cases b <;> cases c <;> cases d <;> cases e <;> decide

/-- the explicit field domain of `head.Info` -/
structure HeadDom (h : Head) : Prop where
  rev : h.fontRevision < 4294967296
  upm : h.unitsPerEm < 65536
  llx : I16 h.bbox.llx
  lly : I16 h.bbox.lly
  urx : I16 h.bbox.urx
  ury : I16 h.bbox.ury
  ppem : h.lowestRecPPEM < 65536
  loca : I16 h.locaFormat

theorem cases8 (i : Nat) (h : i < 8) : i = 0 ∨ i = 1 ∨ i = 2 ∨ i = 3 ∨ i = 4 ∨ i = 5 ∨ i = 6 ∨ i = 7 := by
  omega

theorem head_roundtrip (h : Head) (d : HeadDom h) :
    decodeHead (encodeHead h) = .ok { h with created := decodeTime (encodeTime h.created),
                                             modified := decodeTime (encodeTime h.modified) } := by
  have hlen : (encodeHead h).length = 54 := by
    simp [encodeHead, be32, be16, i16enc, i64enc, be64]
  have c1 : rdI64 (encodeHead h) 20 = encodeTime h.created := by
    apply i64_rt _ (encodeTime_range _)
    intro i hi
    rcases cases8 i hi with rfl | rfl | rfl | rfl | rfl | rfl | rfl | rfl <;>
      simp only [encodeHead, i64enc, be64, be32, be16, i16enc, List.cons_append, List.nil_append,
        List.getD_cons_succ, List.getD_cons_zero, Nat.reduceAdd]
  have c2 : rdI64 (encodeHead h) 28 = encodeTime h.modified := by
    apply i64_rt _ (encodeTime_range _)
    intro i hi
    rcases cases8 i hi with rfl | rfl | rfl | rfl | rfl | rfl | rfl | rfl <;>
      simp only [encodeHead, i64enc, be64, be32, be16, i16enc, List.cons_append, List.nil_append,
        List.getD_cons_succ, List.getD_cons_zero, Nat.reduceAdd]
  obtain ⟨fl, f0, f1, f2⟩ := flags_bits h.hasYBaseAt0 h.hasXBaseAt0 h.isNonlinear
  obtain ⟨sl, s0, s1, s4, s5, s6⟩ := style_bits h.isBold h.isItalic h.hasShadow h.isCondensed h.isExtended
  have e0 : rdU32 (encodeHead h) 0 = 0x00010000 := by
    simp [encodeHead, be32, be16, i16enc, i64enc, be64, rdU32, rdU16, rdU8]
  have e12 : rdU32 (encodeHead h) 12 = 0x5F0F3CF5 := by
    simp [encodeHead, be32, be16, i16enc, i64enc, be64, rdU32, rdU16, rdU8]
  have e4 : rdU32 (encodeHead h) 4 = h.fontRevision := by
    simp only [encodeHead, i64enc, be64, be32, be16, i16enc, List.cons_append, List.nil_append,
      rdU32, rdU16, rdU8, List.getD_cons_succ, List.getD_cons_zero, Nat.reduceAdd]
    exact u32_rt _ d.rev
  have e16 : rdU16 (encodeHead h) 16 = headFlags h := by
    simp only [encodeHead, i64enc, be64, be32, be16, i16enc, List.cons_append, List.nil_append,
      rdU32, rdU16, rdU8, List.getD_cons_succ, List.getD_cons_zero, Nat.reduceAdd]
    exact u16_rt _ fl
  have e18 : rdU16 (encodeHead h) 18 = h.unitsPerEm := by
    simp only [encodeHead, i64enc, be64, be32, be16, i16enc, List.cons_append, List.nil_append,
      rdU32, rdU16, rdU8, List.getD_cons_succ, List.getD_cons_zero, Nat.reduceAdd]
    exact u16_rt _ d.upm
  have e36 : rdI16 (encodeHead h) 36 = h.bbox.llx := by
    simp only [encodeHead, i64enc, be64, be32, be16, i16enc, List.cons_append, List.nil_append,
      rdI16, rdU16, rdU8, List.getD_cons_succ, List.getD_cons_zero, Nat.reduceAdd]
    exact i16_rt _ d.llx
  have e38 : rdI16 (encodeHead h) 38 = h.bbox.lly := by
    simp only [encodeHead, i64enc, be64, be32, be16, i16enc, List.cons_append, List.nil_append,
      rdI16, rdU16, rdU8, List.getD_cons_succ, List.getD_cons_zero, Nat.reduceAdd]
    exact i16_rt _ d.lly
  have e40 : rdI16 (encodeHead h) 40 = h.bbox.urx := by
    simp only [encodeHead, i64enc, be64, be32, be16, i16enc, List.cons_append, List.nil_append,
      rdI16, rdU16, rdU8, List.getD_cons_succ, List.getD_cons_zero, Nat.reduceAdd]
    exact i16_rt _ d.urx
  have e42 : rdI16 (encodeHead h) 42 = h.bbox.ury := by
    simp only [encodeHead, i64enc, be64, be32, be16, i16enc, List.cons_append, List.nil_append,
      rdI16, rdU16, rdU8, List.getD_cons_succ, List.getD_cons_zero, Nat.reduceAdd]
    exact i16_rt _ d.ury
  have e44 : rdU16 (encodeHead h) 44 = headMacStyle h := by
    simp only [encodeHead, i64enc, be64, be32, be16, i16enc, List.cons_append, List.nil_append,
      rdU32, rdU16, rdU8, List.getD_cons_succ, List.getD_cons_zero, Nat.reduceAdd]
    exact u16_rt _ sl
  have e46 : rdU16 (encodeHead h) 46 = h.lowestRecPPEM := by
    simp only [encodeHead, i64enc, be64, be32, be16, i16enc, List.cons_append, List.nil_append,
      rdU32, rdU16, rdU8, List.getD_cons_succ, List.getD_cons_zero, Nat.reduceAdd]
    exact u16_rt _ d.ppem
  have e50 : rdI16 (encodeHead h) 50 = h.locaFormat := by
    simp only [encodeHead, i64enc, be64, be32, be16, i16enc, List.cons_append, List.nil_append,
      rdI16, rdU16, rdU8, List.getD_cons_succ, List.getD_cons_zero, Nat.reduceAdd]
    exact i16_rt _ d.loca
  unfold decodeHead
  simp only [hlen, Gen.metricsHeadLength, Nat.lt_irrefl, if_false, e0, e12, ne_eq, not_true_eq_false,
    e4, e16, e18, c1, c2, e36, e38, e40, e42, e44, e46, e50]
  unfold headFlags headMacStyle
  simp only [f0, f1, f2, s0, s1, s4, s5, s6]

/-! ## post header -/

theorem i32_rt (x : Int) (h1 : -2147483648 ≤ x) (h2 : x ≤ 2147483647) :
    i32ofNat ((x % 4294967296).toNat % 4294967296) = x := by
  unfold i32ofNat; split <;> omega

theorem post_roundtrip (v : Nat) (p : PostHdr)
    (hv : v = 0x00010000 ∨ v = 0x00030000 ∨ v = 0x00040000)
    (ha : -2147483648 ≤ p.italicAngle ∧ p.italicAngle ≤ 2147483647)
    (hp : I16 p.underlinePosition) (ht : I16 p.underlineThickness) :
    decodePost (encodePost v p) = .ok (v, p) := by
  have hlen : (encodePost v p).length = 32 := by simp [encodePost, be32, i16enc, be16]
  have e0 : rdU32 (encodePost v p) 0 = v := by
    simp only [encodePost, be32, be16, i16enc, List.cons_append, List.nil_append, rdU32, rdU16, rdU8,
      List.getD_cons_succ, List.getD_cons_zero, Nat.reduceAdd]
    exact u32_rt _ (by omega)
  have e4 : i32ofNat (rdU32 (encodePost v p) 4) = p.italicAngle := by
    simp only [encodePost, be32, be16, i16enc, List.cons_append, List.nil_append, rdU32, rdU16, rdU8,
      List.getD_cons_succ, List.getD_cons_zero, Nat.reduceAdd]
    rw [u32_rt']
    exact i32_rt _ ha.1 ha.2
  have e8 : rdI16 (encodePost v p) 8 = p.underlinePosition := by
    simp only [encodePost, be32, be16, i16enc, List.cons_append, List.nil_append, rdI16, rdU16, rdU8,
      List.getD_cons_succ, List.getD_cons_zero, Nat.reduceAdd]
    exact i16_rt _ hp
  have e10 : rdI16 (encodePost v p) 10 = p.underlineThickness := by
    simp only [encodePost, be32, be16, i16enc, List.cons_append, List.nil_append, rdI16, rdU16, rdU8,
      List.getD_cons_succ, List.getD_cons_zero, Nat.reduceAdd]
    exact i16_rt _ ht
  have e12 : rdU32 (encodePost v p) 12 = b2n p.isFixedPitch := by
    simp only [encodePost, be32, be16, i16enc, List.cons_append, List.nil_append, rdU32, rdU16, rdU8,
      List.getD_cons_succ, List.getD_cons_zero, Nat.reduceAdd]
    exact u32_rt _ (by cases p.isFixedPitch <;> simp [b2n])
  unfold decodePost
  simp only [hlen, Nat.lt_irrefl, if_false, e0, e4, e8, e10, e12, hv, if_true]
  cases p with
  | mk a b c d => cases d <;> simp [b2n]

end SfntV.Metrics
