/-
C02 bridging, group `seqctx`: erasing panic sites and costs from the checked-index models of
`readNested` and `readSeqContext3` (`SfntV.Total.SeqCtx`) gives the value-level model of C08
(`SfntV.Otl.Ctx.read3`, Model/OtlContext.lean) on the bytes from the subtable position on — on EVERY
input and position (the parser stands behind the format word, as `readGsubSubtable` leaves it).
The word loops (`u16Loop`, `nestedLoop`) are bridged to `takeN` / `pairsOf` of the word view, which
is also what the value-level `readRule` of formats 1 and 2 uses.
-/
import SfntV.Proofs.TotalSeqCtx
import SfntV.Proofs.TotalOtlBridge
import SfntV.Model.OtlContext

namespace SfntV.Total.SeqCtx
open SfntV SfntV.Total SfntV.Total.Gdef SfntV.Total.Otl
open SfntV.Otl (bytesToWords eIO eInvalid)
open SfntV.Otl.Ctx (takeN pairsOf readCovSets)

/-- the 16-bit words from byte position `q` on -/
abbrev wordsAt (b : Bytes) (q : Nat) : List Nat := bytesToWords (b.drop q)

/-! ## the word loops against `takeN` -/

/-- `n` words are there: the loop returns them and stands behind them; otherwise it is the I/O
error of `takeN` -/
theorem u16Loop_words (site : String) (b : Bytes) : ∀ (n q : Nat) (acc : List Nat) (c : Cost),
    (n ≤ (wordsAt b q).length →
      ∃ q' c', u16Loop site b n q acc c = .ok (acc.reverse ++ (wordsAt b q).take n, q', c') ∧
        q' = q + 2 * n ∧ wordsAt b q' = (wordsAt b q).drop n) ∧
    ((wordsAt b q).length < n → u16Loop site b n q acc c = .err "io")
  | 0, q, acc, c => by
    refine ⟨fun _ => ⟨q, c, ?_, rfl, rfl⟩, fun h => absurd h (Nat.not_lt_zero _)⟩
    simp [u16Loop]
  | n+1, q, acc, c => by
    unfold u16Loop
    rcases word_cases site b q with ⟨w, hw, hws⟩ | ⟨hw, hws⟩
    · have ih := u16Loop_words site b n (q + 2) (w :: acc) c.tick
      simp only [wordsAt] at ih ⊢
      rw [hw, hws, ok_bind]
      simp only [List.length_cons, List.take_succ_cons, List.drop_succ_cons]
      refine ⟨fun h => ?_, fun h => ih.2 (by omega)⟩
      obtain ⟨q', c', hr, hq, hd⟩ := ih.1 (by omega)
      refine ⟨q', c', ?_, by omega, hd⟩
      rw [hr, List.reverse_cons, List.append_assoc]
      rfl
    · simp only [wordsAt]
      rw [hw, hws]
      exact ⟨fun h => by simp at h, fun _ => rfl⟩

theorem pairsOf_take_succ (s c : Nat) (rest : List Nat) (n : Nat) :
    pairsOf ((s :: c :: rest).take (2 * (n + 1))) = (s, c) :: pairsOf (rest.take (2 * n)) := by
  rw [show 2 * (n + 1) = 2 * n + 1 + 1 by omega, List.take_succ_cons, List.take_succ_cons]
  rfl

theorem nestedLoop_words (b : Bytes) : ∀ (n q : Nat) (acc : List Action) (c : Cost),
    (2 * n ≤ (wordsAt b q).length →
      ∃ q' c', nestedLoop b n q acc c
          = .ok (acc.reverse ++ pairsOf ((wordsAt b q).take (2 * n)), q', c') ∧ q' = q + 4 * n) ∧
    ((wordsAt b q).length < 2 * n → nestedLoop b n q acc c = .err "io")
  | 0, q, acc, c => by
    refine ⟨fun _ => ⟨q, c, ?_, rfl⟩, fun h => absurd h (Nat.not_lt_zero _)⟩
    simp [nestedLoop, pairsOf]
  | n+1, q, acc, c => by
    unfold nestedLoop
    rcases rec4_cases "nested.go:36#ReadBytes(4)" "nested.go:40#buf[0],buf[1]"
      "nested.go:41#buf[2],buf[3]" b q with ⟨buf, s, l, hbuf, hs, hl, _, _, hws⟩ | ⟨hbuf, hws⟩
    · have ih := nestedLoop_words b n (q + 4) ((s, l) :: acc) c.tick
      simp only [wordsAt] at ih ⊢
      rw [hbuf, ok_bind, hs, ok_bind, hl, ok_bind, hws, pairsOf_take_succ]
      simp only [List.length_cons]
      refine ⟨fun h => ?_, fun h => ih.2 (by omega)⟩
      obtain ⟨q', c', hr, hq⟩ := ih.1 (by omega)
      refine ⟨q', c', ?_, by omega⟩
      rw [hr, List.reverse_cons, List.append_assoc]
      rfl
    · simp only [wordsAt] at hws ⊢
      rw [hbuf]
      exact ⟨fun h => by omega, fun _ => rfl⟩

/-- forget position and cost of `readNested` -/
def eraseN : Outcome (List Action × Nat × Cost) → Outcome (List Action)
  | .ok (v, _, _) => .ok v
  | .err e => .err e
  | .panic s => .panic s

/-- BRIDGE: `readNested` — the actions are `pairsOf` of the next `2·count` words (`takeN`), as in
the value-level readers of C08, for all bytes, positions and 16-bit counts -/
theorem readNested_erase (b : Bytes) (q count : Nat) (c : Cost) (h : count < 65536) :
    eraseN (readNested b q count c) =
      match takeN (wordsAt b q) (2 * count) with
      | .ok (acts, _) => .ok (pairsOf acts)
      | .err e => .err e
      | .panic s => .panic s := by
  unfold readNested takeN
  rw [mkSlice_ok _ _ _ h, ok_bind]
  have k := nestedLoop_words b count q [] (c.mem count)
  by_cases hlt : (wordsAt b q).length < 2 * count
  · rw [if_pos hlt, k.2 hlt]
    rfl
  · rw [if_neg hlt]
    obtain ⟨q', c', hr, _⟩ := k.1 (by omega)
    rw [hr]
    rfl

/-! ## readSeqContext3 -/

theorem covsLoop_erase (b : Bytes) (pos gc : Nat) :
    ∀ (os : List Nat) (i : Nat) (acc : List (List Nat)) (c : Cost), i + os.length ≤ gc →
      (match readCovSets (b.drop pos) os with
        | .ok r => ∃ c', covsLoop b pos gc os i acc c = .ok (acc.reverse ++ r, c')
        | .err e => covsLoop b pos gc os i acc c = .err e
        | .panic s => covsLoop b pos gc os i acc c = .panic s)
  | [], i, acc, c, _ => by
    simp [readCovSets, covsLoop]
  | o :: os, i, acc, c, hi => by
    simp only [List.length_cons] at hi
    have hb := readSet_erase b (pos + o)
    rw [← List.drop_drop] at hb
    unfold readCovSets covsLoop
    cases hrs : readSet b (pos + o) with
    | ok v =>
      obtain ⟨s, cc⟩ := v
      rw [hrs] at hb
      simp only [erase] at hb
      rw [← hb, ok_bind]
      dsimp only
      rw [chk_ok _ (by omega : i < gc), ok_bind]
      have ih := covsLoop_erase b pos gc os (i + 1) (s :: acc) (plus c.tick cc) (by omega)
      cases hrc : readCovSets (b.drop pos) os with
      | ok r =>
        rw [hrc] at ih
        obtain ⟨c', hc'⟩ := ih
        exact ⟨c', by rw [hc', List.reverse_cons, List.append_assoc]; rfl⟩
      | err e => rw [hrc] at ih; exact ih
      | panic s' => rw [hrc] at ih; exact ih
    | err e =>
      rw [hrs] at hb
      simp only [erase] at hb
      rw [← hb]
      rfl
    | panic s' =>
      rw [hrs] at hb
      simp only [erase] at hb
      rw [← hb]
      rfl

/-- the value of `readSeqContext3` as the value-level model of C08 presents it -/
def erase3 : Outcome (Ctx3 × Cost) → Outcome SfntV.Otl.Ctx.Sub
  | .ok (v, _) => .ok (.c3 [] v.covs [] v.actions false)
  | .err e => .err e
  | .panic s => .panic s

/-- BRIDGE: `readSeqContext3` as `readGsubSubtable` calls it (parser behind the format word) —
the checked-index model without sites and cost is `SfntV.Otl.Ctx.read3` on the bytes from the
subtable position on, for all bytes and all positions -/
theorem readSeqContext3_erase (b : Bytes) (pos : Nat) :
    erase3 (readSeqContext3 b (pos + 2) pos) = SfntV.Otl.Ctx.read3 (b.drop pos) := by
  unfold readSeqContext3 SfntV.Otl.Ctx.read3
  rcases word_cases "gsub.go:36#ReadUint16" b pos with ⟨f, _, hws⟩ | ⟨_, hws⟩
  · rw [hws]
    rcases rec4_cases "nested.go:537#ReadBytes(4)" "nested.go:541#buf[0],buf[1]"
      "nested.go:548#buf[2],buf[3]" b (pos + 2) with
      ⟨buf, gc, lc, hbuf, hg, hl, hglt, hllt, hws2⟩ | ⟨hbuf, hws2⟩
    · rw [hbuf, ok_bind, hg, ok_bind, hws2]
      dsimp only
      split
      · rfl
      rw [hl, ok_bind, mkSlice_ok _ _ _ hglt, ok_bind]
      have ku := u16Loop_words "nested.go:551#ReadUint16" b gc (pos + 2 + 4) []
        ((Cost.zero.tick).mem gc)
      simp only [wordsAt] at ku
      unfold takeN
      by_cases hlt : (bytesToWords (b.drop (pos + 2 + 4))).length < gc
      · rw [if_pos hlt, ku.2 hlt]
        rfl
      rw [if_neg hlt]
      obtain ⟨q1, c1, hu, _, hrest⟩ := ku.1 (by omega)
      rw [hu, ok_bind]
      dsimp only
      simp only [List.reverse_nil, List.nil_append]
      have kn := readNested_erase b q1 lc c1 hllt
      simp only [wordsAt] at kn
      rw [hrest] at kn
      unfold takeN at kn
      by_cases hlt2 : ((bytesToWords (b.drop (pos + 2 + 4))).drop gc).length < 2 * lc
      · rw [if_pos hlt2] at kn ⊢
        cases hrn : readNested b q1 lc c1 with
        | ok v => rw [hrn] at kn; simp [eraseN] at kn
        | err e =>
          rw [hrn] at kn
          simp only [eraseN] at kn
          cases kn
          rfl
        | panic s => rw [hrn] at kn; simp [eraseN] at kn
      rw [if_neg hlt2] at kn ⊢
      cases hrn : readNested b q1 lc c1 with
      | err e => rw [hrn] at kn; simp [eraseN] at kn
      | panic s => rw [hrn] at kn; simp [eraseN] at kn
      | ok v =>
        obtain ⟨acts, q2, c2⟩ := v
        rw [hrn] at kn
        simp only [eraseN] at kn
        cases kn
        rw [ok_bind]
        dsimp only
        rw [mkSlice_ok _ _ _ hglt, ok_bind]
        have hlen : ((bytesToWords (b.drop (pos + 2 + 4))).take gc).length = gc := by
          rw [List.length_take]; omega
        have kc := covsLoop_erase b pos gc ((bytesToWords (b.drop (pos + 2 + 4))).take gc) 0 []
          (c2.mem gc) (by omega)
        cases hrc : readCovSets (b.drop pos) ((bytesToWords (b.drop (pos + 2 + 4))).take gc) with
        | ok r =>
          rw [hrc] at kc
          obtain ⟨c', hc'⟩ := kc
          rw [hc']
          rfl
        | err e => rw [hrc] at kc; rw [kc]; rfl
        | panic s => rw [hrc] at kc; rw [kc]; rfl
    · rw [hbuf]
      rcases short2 hws2 with h | ⟨a, h⟩ <;> rw [h] <;> rfl
  · rw [hws]
    have hlen := bytesToWords_length (b.drop pos)
    rw [hws, List.length_nil, List.length_drop] at hlen
    unfold readBytes
    rw [if_neg (by omega), if_neg (by omega)]
    rfl

/-! ## one rule of formats 1 and 2 -/

/-- the value of `readRule` as the value-level model of C08 presents it (no backtrack, no
lookahead) -/
def eraseR : Outcome (Rule × Nat × Cost) → Outcome SfntV.Otl.Ctx.Rule
  | .ok (r, _, _) => .ok ⟨[], r.input, [], r.actions⟩
  | .err e => .err e
  | .panic s => .panic s

/-- BRIDGE: one SeqRule / ClassSeqRule — the checked-index model without sites, size and cost is
`SfntV.Otl.Ctx.readRule` on the bytes from the subtable position on, at every offset -/
theorem readRule_erase (f2 : Bool) (b : Bytes) (pos off : Nat) (c : Cost) :
    eraseR (readRule f2 b (pos + off) c) = SfntV.Otl.Ctx.readRule (b.drop pos) off := by
  unfold readRule SfntV.Otl.Ctx.readRule
  rw [List.drop_drop]
  rcases rec4_cases (st f2 "nested.go:107#ReadBytes(4)" "nested.go:344#ReadBytes(4)")
    (st f2 "nested.go:111#buf[0],buf[1]" "nested.go:348#buf[0],buf[1]")
    (st f2 "nested.go:118#buf[2],buf[3]" "nested.go:355#buf[2],buf[3]") b (pos + off) with
    ⟨buf, gc, lc, hbuf, hg, hl, hglt, hllt, hws⟩ | ⟨hbuf, hws⟩
  · rw [hbuf, ok_bind]
    dsimp only
    rw [hg, ok_bind, hws]
    dsimp only
    by_cases hg0 : gc = 0
    · subst hg0
      rfl
    have hbeq : (gc == 0) = false := by simp [hg0]
    rw [if_neg hg0, hbeq]
    simp only [Bool.false_eq_true, if_false]
    rw [hl, ok_bind, mkSliceI_ok _ gc _ (by omega) hglt, ok_bind]
    have htn : ((gc : Int) - 1).toNat = gc - 1 := by omega
    rw [htn]
    have ku := u16Loop_words (st f2 "nested.go:121#ReadUint16" "nested.go:358#ReadUint16") b
      (gc - 1) (pos + off + 4) [] ((c.tick).mem (gc - 1))
    simp only [wordsAt] at ku
    unfold takeN
    by_cases hlt : (bytesToWords (b.drop (pos + off + 4))).length < gc - 1
    · rw [if_pos hlt, ku.2 hlt]
      rfl
    rw [if_neg hlt]
    obtain ⟨q1, c1, hu, _, hrest⟩ := ku.1 (by omega)
    rw [hu, ok_bind]
    dsimp only
    simp only [List.reverse_nil, List.nil_append]
    have kn := readNested_erase b q1 lc c1 hllt
    simp only [wordsAt] at kn
    rw [hrest] at kn
    unfold takeN at kn
    by_cases hlt2 : ((bytesToWords (b.drop (pos + off + 4))).drop (gc - 1)).length < 2 * lc
    · rw [if_pos hlt2] at kn ⊢
      cases hrn : readNested b q1 lc c1 with
      | ok v => rw [hrn] at kn; simp [eraseN] at kn
      | err e =>
        rw [hrn] at kn
        simp only [eraseN] at kn
        cases kn
        rfl
      | panic s => rw [hrn] at kn; simp [eraseN] at kn
    rw [if_neg hlt2] at kn ⊢
    cases hrn : readNested b q1 lc c1 with
    | err e => rw [hrn] at kn; simp [eraseN] at kn
    | panic s => rw [hrn] at kn; simp [eraseN] at kn
    | ok v =>
      obtain ⟨acts, q2, c2⟩ := v
      rw [hrn] at kn
      simp only [eraseN] at kn
      cases kn
      rfl
  · rw [hbuf]
    rcases short2 hws with h | ⟨a, h⟩ <;> rw [h] <;> rfl

/-! ## the dispatcher -/

def ruleOf (r : Rule) : SfntV.Otl.Ctx.Rule := ⟨[], r.input, [], r.actions⟩

def setsOf (ss : Sets) : List (Option (List SfntV.Otl.Ctx.Rule)) :=
  ss.map (Option.map (List.map ruleOf))

/-- the value of the dispatcher as the value-level model of C08 presents it -/
def eraseSub : Outcome (Sub × Cost) → Outcome SfntV.Otl.Ctx.Sub
  | .ok (.c1 v, _) => .ok (.c1 false v.cov (setsOf v.sets))
  | .ok (.c2 v, _) => .ok (.c2 false v.cov [v.classes] (setsOf v.sets))
  | .ok (.c3 v, _) => .ok (.c3 [] v.covs [] v.actions false)
  | .err e => .err e
  | .panic s => .panic s

/-- BRIDGE, dispatcher level: `readGsubSubtable` with lookup type 5 as repaired — on every input
whose format word is not 1 or 2 (format 3, every invalid format word, a missing format word) the
checked-index model without sites and cost is `SfntV.Otl.Ctx.readSubtable 5` on the bytes from the
subtable position on.  No side condition on colliding format words any more.  (Formats 1 and 2:
the top-level bridges `readSeqContext1/2 ↔ Ctx.read1/2` are not proved yet.) -/
theorem gsub5_erase (b : Bytes) (pos : Nat) (h1 : wordAt b pos ≠ some 1)
    (h2 : wordAt b pos ≠ some 2) :
    eraseSub (gsub5 b pos) = SfntV.Otl.Ctx.readSubtable 5 (b.drop pos) := by
  unfold gsub5 gsub5G SfntV.Otl.Ctx.readSubtable
  rcases word_cases "gsub.go:36#ReadUint16" b pos with ⟨f, hf, hws⟩ | ⟨hf, hws⟩
  · obtain ⟨hw, _, _⟩ := readU16_ok hf
    have hf1 : f ≠ 1 := fun h => h1 (by rw [hw, h])
    have hf2 : f ≠ 2 := fun h => h2 (by rw [hw, h])
    rw [hf, hws, ok_bind]
    dsimp only
    by_cases hf3 : f = 3
    · subst hf3
      have k := readSeqContext3_erase b pos
      rw [← k, if_neg (by decide), if_neg (by decide), if_neg (by decide), if_pos rfl,
        if_neg (by decide), if_neg (by decide), if_pos (by decide)]
      cases readSeqContext3 b (pos + 2) pos with
      | ok v => obtain ⟨v, c⟩ := v; rfl
      | err e => rfl
      | panic s => rfl
    · have e1 : (f == 1) = false := by simp [hf1]
      have e2 : (f == 2) = false := by simp [hf2]
      have e3 : (f == 3) = false := by simp [hf3]
      simp only [e1, e2, e3, Bool.and_false, Bool.false_eq_true, if_false]
      rw [if_neg hf1, if_neg hf2, if_neg hf3]
      split
      · rfl
      · simp only [false_and, if_false]
        rfl
  · rw [hf, hws]
    rfl

/-- format 3 in particular -/
theorem gsub5_erase_fmt3 (b : Bytes) (pos : Nat) (h : wordAt b pos = some 3) :
    eraseSub (gsub5 b pos) = SfntV.Otl.Ctx.readSubtable 5 (b.drop pos) :=
  gsub5_erase b pos (by rw [h]; decide) (by rw [h]; decide)

end SfntV.Total.SeqCtx
