/-
C02 (decoders are total): proofs about the checked-index models of the CFF set readers
`readCharset`, `readEncoding`, `readFDSelect` and of the lazy accessor returned by the latter
(`SfntV.Total.CffSets`): no panic, explicit cost bounds, safety of the accessor on every glyph
below `nGlyphs`, and the bridging lemmas to the value-level models of C13.
-/
import SfntV.Model.TotalCffSets
import SfntV.Proofs.TotalGdef

namespace SfntV.Total.CffSets
open SfntV SfntV.Total
open SfntV.Total.Gdef (idx_ok ok_bind bind_noPanic bind_eq_ok)

/-! ## the parser reads -/

theorem u8_eq (site : String) (b : Bytes) (pos : Nat) :
    u8 site b pos = if h : pos < b.length then .ok b[pos].toNat else .err "eof" := by
  unfold u8 rdBytes readBytes
  rw [if_neg (by omega)]
  by_cases h : pos < b.length
  · rw [if_pos (by omega), dif_pos h, List.drop_eq_getElem_cons h]
    rfl
  · rw [if_neg (by omega), dif_neg h]
    rfl

theorem u16_eq (site : String) (b : Bytes) (pos : Nat) :
    u16 site b pos =
      if h : pos + 1 < b.length then .ok (b[pos].toNat * 256 + b[pos + 1].toNat) else .err "eof" := by
  unfold u16 rdBytes readBytes
  rw [if_neg (by omega)]
  by_cases h : pos + 1 < b.length
  · rw [if_pos (by omega), dif_pos h, List.drop_eq_getElem_cons (by omega : pos < b.length),
      List.drop_eq_getElem_cons h]
    rfl
  · rw [if_neg (by omega), dif_neg h]
    rfl

theorem u8_noPanic (site : String) (b : Bytes) (pos : Nat) : (u8 site b pos).noPanic := by
  rw [u8_eq]; split <;> exact True.intro

theorem u16_noPanic (site : String) (b : Bytes) (pos : Nat) : (u16 site b pos).noPanic := by
  rw [u16_eq]; split <;> exact True.intro

theorem u8_ok {site : String} {b : Bytes} {pos v : Nat} (h : u8 site b pos = .ok v) :
    v < 256 ∧ pos + 1 ≤ b.length := by
  rw [u8_eq] at h
  split at h
  · rename_i hl
    cases h
    exact ⟨b[pos].toNat_lt, hl⟩
  · cases h

theorem u16_ok {site : String} {b : Bytes} {pos v : Nat} (h : u16 site b pos = .ok v) :
    v < 65536 ∧ pos + 2 ≤ b.length := by
  rw [u16_eq] at h
  split at h
  · rename_i hl
    cases h
    have h1 := b[pos].toNat_lt
    have h2 := b[pos + 1].toNat_lt
    exact ⟨by omega, hl⟩
  · cases h

theorem u8_err {site : String} {b : Bytes} {pos : Nat} {e : String} (h : u8 site b pos = .err e) :
    e = "eof" := by
  rw [u8_eq] at h
  split at h
  · cases h
  · cases h; rfl

theorem u16_err {site : String} {b : Bytes} {pos : Nat} {e : String} (h : u16 site b pos = .err e) :
    e = "eof" := by
  rw [u16_eq] at h
  split at h
  · cases h
  · cases h; rfl

theorem bind_eq_err {x : Outcome α} {f : α → Outcome β} {e : String} (h : (x >>= f) = .err e) :
    x = .err e ∨ ∃ a, x = .ok a ∧ f a = .err e := by
  cases x with
  | ok a => exact Or.inr ⟨a, rfl, h⟩
  | err e' => cases h; exact Or.inl rfl
  | panic s => cases h

theorem err_ne {a b : String} (hab : a ≠ b) : (Outcome.err a : Outcome α) ≠ .err b :=
  fun h => hab (Outcome.err.inj h)

theorem pRead_noPanic (b : Bytes) (pos n : Nat) : (pRead b pos n).noPanic := by
  unfold pRead
  split
  · exact True.intro
  · split <;> exact True.intro

theorem pRead_ok {b : Bytes} {pos n : Nat} {w : Bytes} (h : pRead b pos n = .ok w) :
    w.length = n ∧ (n = 0 ∨ pos + n ≤ b.length) := by
  unfold pRead at h
  split at h
  · rename_i h0
    cases h
    exact ⟨h0.symm, Or.inl h0⟩
  · split at h
    · rename_i hle
      cases h
      refine ⟨?_, Or.inr hle⟩
      simp only [List.length_take, List.length_drop]
      omega
    · cases h

theorem setAt_ok (site : String) (xs : List α) (i : Nat) (v : α) (h : i < xs.length) :
    setAt site xs i v = .ok (xs.set i v) := by
  unfold setAt
  rw [if_pos h]

/-! ## `readCharset` -/

theorem names0_noPanic (b : Bytes) : ∀ (k pos : Nat) (c : Cost), (names0 b k pos c).noPanic
  | 0, _, _ => True.intro
  | k+1, pos, c => by
    unfold names0
    refine bind_noPanic (u16_noPanic _ _ _) (fun xi _ => ?_)
    refine bind_noPanic (names0_noPanic b k _ _) (fun r _ => ?_)
    exact True.intro

theorem run_noPanic (n first : Nat) : ∀ (k i len : Nat) (c : Cost), (run n first k i len c).noPanic
  | 0, _, _, _ => True.intro
  | k+1, i, len, c => by
    unfold run
    split
    · exact True.intro
    · refine bind_noPanic (run_noPanic n first k _ _ _) (fun r _ => ?_)
      exact True.intro

theorem ranges_noPanic (b : Bytes) (w n : Nat) : ∀ (fuel len pos : Nat) (c : Cost),
    (ranges b w n fuel len pos c).noPanic
  | 0, len, pos, c => by
    unfold ranges
    split <;> exact True.intro
  | fuel+1, len, pos, c => by
    unfold ranges
    split
    · refine bind_noPanic (u16_noPanic _ _ _) (fun first _ => ?_)
      refine bind_noPanic (by split <;> first | exact u8_noPanic _ _ _ | exact u16_noPanic _ _ _)
        (fun nLeft _ => ?_)
      refine bind_noPanic (run_noPanic _ _ _ _ _ _) (fun r1 _ => ?_)
      refine bind_noPanic (ranges_noPanic b w n fuel _ _ _) (fun r2 _ => ?_)
      exact True.intro
    · exact True.intro

/-- `readCharset` never panics: for ALL bytes and ALL values of the caller's `nGlyphs` (negative,
0 and ≥ 65536 are rejected by charset.go:29 before anything is read or allocated) -/
theorem readCharset_noPanic (b : Bytes) (nGlyphs : Int) : (readCharset b nGlyphs).noPanic := by
  unfold readCharset
  split
  · exact True.intro
  · rename_i hn
    dsimp only
    refine bind_noPanic (u8_noPanic _ _ _) (fun format _ => ?_)
    rw [Gdef.mkSlice_ok _ _ _ (by omega), ok_bind]
    split
    · refine bind_noPanic (names0_noPanic b _ _ _) (fun r _ => ?_)
      exact True.intro
    · split
      · refine bind_noPanic (ranges_noPanic b _ _ _ _ _ _) (fun r _ => ?_)
        obtain ⟨⟨l, pos⟩, c⟩ := r
        dsimp only
        split <;> exact True.intro
      · exact True.intro

theorem names0_ok (b : Bytes) : ∀ (k pos : Nat) (c : Cost) (l : List Int) (c' : Cost),
    names0 b k pos c = .ok (l, c') →
      l.length = k ∧ c'.steps = c.steps + k ∧ c'.alloc = c.alloc ∧ (k = 0 ∨ pos + 2 * k ≤ b.length)
  | 0, _, c, l, c', h => by
    unfold names0 at h
    cases h
    simp
  | k+1, pos, c, l, c', h => by
    unfold names0 at h
    obtain ⟨xi, hxi, h⟩ := bind_eq_ok h
    obtain ⟨⟨l1, c1⟩, h1, h⟩ := bind_eq_ok h
    have ih := names0_ok b k (pos + 2) c.tick l1 c1 h1
    cases h
    have hx := (u16_ok hxi).2
    simp only [List.length_cons, Cost.tick] at ih ⊢
    omega

theorem run_ok (n first : Nat) : ∀ (k i len : Nat) (c : Cost) (l : List Int) (c' : Cost),
    run n first k i len c = .ok (l, c') →
      l.length = k ∧ c'.steps = c.steps + k ∧ c'.alloc ≤ c.alloc + k ∧
      (len ≤ n → c'.alloc ≤ c.alloc + (len + k - n)) ∧ (len + k ≤ n → c'.alloc = c.alloc)
  | 0, _, _, c, l, c', h => by
    unfold run at h
    cases h
    simp
  | k+1, i, len, c, l, c', h => by
    unfold run at h
    split at h
    · cases h
    · obtain ⟨⟨l1, c1⟩, h1, h⟩ := bind_eq_ok h
      obtain ⟨i1, i2, i3, i4, i5⟩ := run_ok n first k (i + 1) (len + 1) _ l1 c1 h1
      cases h
      by_cases hl : len ≥ n
      · rw [if_pos hl] at i2 i3 i4 i5
        simp only [List.length_cons, Cost.tick, Cost.mem] at i1 i2 i3 ⊢
        exact ⟨by omega, by omega, by omega, fun _ => by omega, fun _ => by omega⟩
      · rw [if_neg hl] at i2 i3 i4 i5
        simp only [List.length_cons, Cost.tick] at i1 i2 i3 i4 i5 ⊢
        refine ⟨by omega, by omega, by omega, fun _ => ?_, fun hle => ?_⟩
        · have := i4 (by omega)
          omega
        · exact i5 (by omega)

theorem run_err {n first k i len : Nat} {c : Cost} {e : String} :
    run n first k i len c = .err e → e = "other" := by
  induction k generalizing i len c with
  | zero => intro h; unfold run at h; cases h
  | succ k ih =>
    intro h
    unfold run at h
    split at h
    · cases h; rfl
    · rcases bind_eq_err h with h | ⟨r, _, h⟩
      · exact ih h
      · cases h

/-- the cost of the range loops: two reads per range and one step per name; every range yields
at least one name -/
theorem ranges_ok (b : Bytes) (w n : Nat) : ∀ (fuel len pos : Nat) (c : Cost) (l : List Int)
    (pos' : Nat) (c' : Cost), ranges b w n fuel len pos c = .ok ((l, pos'), c') →
      c'.steps ≤ c.steps + 3 * l.length ∧ (len ≤ n → c'.alloc ≤ c.alloc + (len + l.length - n)) ∧
      (n ≤ len → c'.alloc ≤ c.alloc + l.length) ∧
      (len + l.length ≤ n → c'.alloc = c.alloc) ∧ n ≤ len + l.length
  | 0, len, pos, c, l, pos', c', h => by
    unfold ranges at h
    split at h
    · cases h
    · rename_i hlt
      cases h
      simp only [List.length_nil]
      exact ⟨by omega, fun _ => by omega, fun _ => by omega, fun _ => by trivial, by omega⟩
  | fuel+1, len, pos, c, l, pos', c', h => by
    unfold ranges at h
    split at h
    · rename_i hlt
      obtain ⟨first, _, h⟩ := bind_eq_ok h
      obtain ⟨nLeft, _, h⟩ := bind_eq_ok h
      obtain ⟨⟨l1, c1⟩, h1, h⟩ := bind_eq_ok h
      obtain ⟨⟨⟨l2, p2⟩, c2⟩, h2, h⟩ := bind_eq_ok h
      obtain ⟨r1, r2, r0, r3, r4⟩ := run_ok n first (nLeft + 1) 0 len _ l1 c1 h1
      have r3 := r3 (by omega)
      obtain ⟨j1, j2, j3, j4, j5⟩ := ranges_ok b w n fuel _ _ c1 l2 p2 c2 h2
      cases h
      simp only [List.length_append, Cost.tick] at r1 r2 r0 r3 r4 j1 j2 j3 j4 j5 ⊢
      refine ⟨by omega, fun _ => ?_, fun _ => by omega, fun hle => ?_, by omega⟩
      · by_cases hc : len + (nLeft + 1) ≤ n
        · have := r4 hc
          have := j2 hc
          omega
        · have := j3 (by omega)
          omega
      · have := r4 (by omega)
        have := j4 (by omega)
        omega
    · rename_i hlt
      cases h
      simp only [List.length_nil]
      exact ⟨by omega, fun _ => by omega, fun _ => by omega, fun _ => by trivial, by omega⟩

/-- the fuel of the range loop is never exhausted -/
theorem ranges_fuel (b : Bytes) (w n : Nat) : ∀ (fuel len pos : Nat) (c : Cost) (e : String),
    n ≤ len + fuel → ranges b w n fuel len pos c = .err e → e ≠ "fuel"
  | 0, len, pos, c, e, hf, h => by
    unfold ranges at h
    rw [if_neg (by omega)] at h
    cases h
  | fuel+1, len, pos, c, e, hf, h => by
    unfold ranges at h
    split at h
    · rcases bind_eq_err h with h | ⟨first, _, h⟩
      · rw [u16_err h]; decide
      rcases bind_eq_err h with h | ⟨nLeft, _, h⟩
      · split at h
        · rw [u8_err h]; decide
        · rw [u16_err h]; decide
      rcases bind_eq_err h with h | ⟨⟨l1, c1⟩, _, h⟩
      · rw [run_err h]; decide
      rcases bind_eq_err h with h | ⟨r2, _, h⟩
      · exact ranges_fuel b w n fuel _ _ _ e (by omega) h
      · cases h
    · cases h

/-- cost of `readCharset`: at most 3 steps per glyph (format 0: one read per glyph; formats 1/2:
two reads per range and one step per name, every range has ≥ 1 name) and exactly `nGlyphs`
allocated elements.  NOT bounded by the input length: a 5-byte format-2 table describes 65534
names (`readCharset_cost_witness`); bounded by the caller's `nGlyphs < 65536`. -/
theorem readCharset_cost (b : Bytes) (nGlyphs : Int) (l : List Int) (pos : Nat) (c : Cost)
    (h : readCharset b nGlyphs = .ok ((l, pos), c)) :
    1 ≤ nGlyphs ∧ nGlyphs < 65536 ∧ l.length = nGlyphs.toNat ∧
    c.steps ≤ 3 * nGlyphs.toNat ∧ c.alloc = nGlyphs.toNat ∧ c.steps ≤ 196605 := by
  unfold readCharset at h
  split at h
  · cases h
  · rename_i hn
    dsimp only at h
    obtain ⟨format, _, h⟩ := bind_eq_ok h
    rw [Gdef.mkSlice_ok _ _ _ (by omega), ok_bind] at h
    split at h
    · obtain ⟨⟨l1, c1⟩, h1, h⟩ := bind_eq_ok h
      obtain ⟨n1, n2, n3, _⟩ := names0_ok b _ _ _ l1 c1 h1
      cases h
      simp only [List.length_cons, Cost.tick, Cost.mem, Cost.zero] at n1 n2 n3 ⊢
      omega
    · split at h
      · obtain ⟨⟨⟨l1, p1⟩, c1⟩, h1, h⟩ := bind_eq_ok h
        dsimp only at h
        split at h
        · cases h
        · rename_i hlen
          cases h
          obtain ⟨j1, j2, _, j4, j5⟩ := ranges_ok b _ _ _ _ _ _ l1 pos c h1
          have := j4 (by omega)
          simp only [List.length_cons, Cost.tick, Cost.mem, Cost.zero] at j1 this ⊢
          omega
      · cases h

/-- `readCharset` returns an error of the model's artificial class "fuel" on no input -/
theorem readCharset_no_fuel (b : Bytes) (nGlyphs : Int) : readCharset b nGlyphs ≠ .err "fuel" := by
  intro h
  unfold readCharset at h
  split at h
  · exact err_ne (by decide) h
  · rename_i hn
    dsimp only at h
    rcases bind_eq_err h with h | ⟨format, _, h⟩
    · exact absurd (u8_err h) (by decide)
    rw [Gdef.mkSlice_ok _ _ _ (by omega), ok_bind] at h
    split at h
    · rcases bind_eq_err h with h | ⟨r, _, h⟩
      · -- names0 errors are "eof"
        have : ∀ (k pos : Nat) (c : Cost) (e : String), names0 b k pos c = .err e → e = "eof" := by
          intro k
          induction k with
          | zero => intro pos c e h; unfold names0 at h; cases h
          | succ k ih =>
            intro pos c e h
            unfold names0 at h
            rcases bind_eq_err h with h | ⟨xi, _, h⟩
            · exact u16_err h
            rcases bind_eq_err h with h | ⟨r, _, h⟩
            · exact ih _ _ _ h
            · cases h
        exact absurd (this _ _ _ _ h) (by decide)
      · cases h
    · split at h
      · rcases bind_eq_err h with h | ⟨⟨⟨l1, p1⟩, c1⟩, _, h⟩
        · exact ranges_fuel b _ _ _ _ _ _ _ (by omega) h rfl
        · dsimp only at h
          split at h
          · exact err_ne (by decide) h
          · cases h
      · exact err_ne (by decide) h

/-! ## `readEncoding` -/

theorem setAt_length {site : String} {xs ys : List α} {i : Nat} {v : α}
    (h : setAt site xs i v = .ok ys) : ys.length = xs.length := by
  unfold setAt at h
  split at h
  · cases h; exact List.length_set
  · cases h

/-- format 0 loop: no panic (a byte indexes the 256-entry vector), the vector keeps its length,
one step per code -/
theorem codes0_spec : ∀ (codes : List UInt8) (res : List Nat) (cur : Nat) (c : Cost),
    res.length = 256 → (codes0 codes res cur c).noPanic ∧
      ∀ res' cur' c', codes0 codes res cur c = .ok ((res', cur'), c') →
        res'.length = 256 ∧ c'.steps = c.steps + codes.length ∧ c'.alloc = c.alloc
  | [], res, cur, c, hl => by
    unfold codes0
    refine ⟨True.intro, fun res' cur' c' h => ?_⟩
    cases h
    exact ⟨hl, rfl, rfl⟩
  | x :: rest, res, cur, c, hl => by
    have hx := x.toNat_lt
    unfold codes0
    rw [idx_ok _ res x.toNat (by omega), ok_bind]
    split
    · exact ⟨True.intro, fun _ _ _ h => by cases h⟩
    · rw [setAt_ok _ _ _ _ (by omega), ok_bind]
      have ih := codes0_spec rest (res.set x.toNat cur) ((cur + 1) % 65536) c.tick
        (by rw [List.length_set]; exact hl)
      refine ⟨ih.1, fun res' cur' c' h => ?_⟩
      have := ih.2 res' cur' c' h
      simp only [List.length_cons, Cost.tick] at this ⊢
      omega

theorem range1_spec (nCs : Nat) : ∀ (k j : Nat) (res : List Nat) (cur : Nat) (c : Cost),
    res.length = 256 → j + k ≤ 256 → (range1 nCs k j res cur c).noPanic ∧
      ∀ res' cur' c', range1 nCs k j res cur c = .ok ((res', cur'), c') →
        res'.length = 256 ∧ c'.steps = c.steps + k ∧ c'.alloc = c.alloc
  | 0, j, res, cur, c, hl, _ => by
    unfold range1
    refine ⟨True.intro, fun res' cur' c' h => ?_⟩
    cases h
    exact ⟨hl, rfl, rfl⟩
  | k+1, j, res, cur, c, hl, hj => by
    unfold range1
    split
    · exact ⟨True.intro, fun _ _ _ h => by cases h⟩
    · rw [idx_ok _ res j (by omega), ok_bind]
      split
      · exact ⟨True.intro, fun _ _ _ h => by cases h⟩
      · rw [setAt_ok _ _ _ _ (by omega), ok_bind]
        have ih := range1_spec nCs k (j + 1) (res.set j cur) ((cur + 1) % 65536) c.tick
          (by rw [List.length_set]; exact hl) (by omega)
        refine ⟨ih.1, fun res' cur' c' h => ?_⟩
        have := ih.2 res' cur' c' h
        simp only [Cost.tick] at this ⊢
        omega

theorem ranges1_spec (b : Bytes) (nCs : Nat) : ∀ (k pos : Nat) (res : List Nat) (cur : Nat)
    (c : Cost), res.length = 256 → (ranges1 b nCs k pos res cur c).noPanic ∧
      ∀ res' cur' pos' c', ranges1 b nCs k pos res cur c = .ok ((res', cur', pos'), c') →
        res'.length = 256 ∧ c'.steps ≤ c.steps + 258 * k ∧ c'.alloc = c.alloc
  | 0, pos, res, cur, c, hl => by
    unfold ranges1
    refine ⟨True.intro, fun res' cur' pos' c' h => ?_⟩
    cases h
    exact ⟨hl, by omega, rfl⟩
  | k+1, pos, res, cur, c, hl => by
    unfold ranges1
    constructor
    · refine bind_noPanic (u8_noPanic _ _ _) (fun first hf => ?_)
      refine bind_noPanic (u8_noPanic _ _ _) (fun nLeft hn => ?_)
      split
      · exact True.intro
      · have h1 := (u8_ok hf).1
        have h2 := (u8_ok hn).1
        dsimp only
        have hr := range1_spec nCs ((first + nLeft) % 256 + 1 - first) first res cur (c.tick 2) hl
          (by omega)
        refine bind_noPanic hr.1 (fun r hr' => ?_)
        obtain ⟨⟨res1, cur1⟩, c1⟩ := r
        exact (ranges1_spec b nCs k (pos + 2) res1 cur1 c1 (hr.2 _ _ _ hr').1).1
    · intro res' cur' pos' c' h
      obtain ⟨first, hf, h⟩ := bind_eq_ok h
      obtain ⟨nLeft, hn, h⟩ := bind_eq_ok h
      have h1 := (u8_ok hf).1
      have h2 := (u8_ok hn).1
      split at h
      · cases h
      · dsimp only at h
        obtain ⟨⟨⟨res1, cur1⟩, c1⟩, hr', h⟩ := bind_eq_ok h
        obtain ⟨r1, r2, r3⟩ := (range1_spec nCs ((first + nLeft) % 256 + 1 - first) first res cur
          (c.tick 2) hl (by omega)).2 _ _ _ hr'
        obtain ⟨i1, i2, i3⟩ := (ranges1_spec b nCs k (pos + 2) res1 cur1 c1 r1).2 _ _ _ _ h
        simp only [Cost.tick] at r2 r3 i2 i3 ⊢
        exact ⟨i1, by omega, by omega⟩

theorem sups_spec (b : Bytes) (charset : List Int) : ∀ (k pos : Nat) (res : List Nat) (cur : Nat)
    (c : Cost), res.length = 256 → (sups b charset k pos res cur c).noPanic ∧
      ∀ res' c', sups b charset k pos res cur c = .ok (res', c') →
        res'.length = 256 ∧ c'.steps = c.steps + 2 * k ∧ c'.alloc = c.alloc
  | 0, pos, res, cur, c, hl => by
    unfold sups
    refine ⟨True.intro, fun res' c' h => ?_⟩
    cases h
    exact ⟨hl, by omega, rfl⟩
  | k+1, pos, res, cur, c, hl => by
    unfold sups
    constructor
    · refine bind_noPanic (u8_noPanic _ _ _) (fun code hc => ?_)
      have h1 := (u8_ok hc).1
      rw [idx_ok _ res code (by omega), ok_bind]
      split
      · exact True.intro
      · refine bind_noPanic (u16_noPanic _ _ _) (fun sid _ => ?_)
        dsimp only
        split
        · exact True.intro
        · split
          · rw [setAt_ok _ _ _ _ (by omega), ok_bind]
            exact (sups_spec b charset k (pos + 3) _ cur (c.tick 2)
              (by rw [List.length_set]; exact hl)).1
          · rw [ok_bind]
            exact (sups_spec b charset k (pos + 3) res cur (c.tick 2) hl).1
    · intro res' c' h
      obtain ⟨code, hc, h⟩ := bind_eq_ok h
      have h1 := (u8_ok hc).1
      rw [idx_ok _ res code (by omega), ok_bind] at h
      split at h
      · cases h
      · obtain ⟨sid, _, h⟩ := bind_eq_ok h
        dsimp only at h
        split at h
        · cases h
        · split at h
          · rw [setAt_ok _ _ _ _ (by omega), ok_bind] at h
            obtain ⟨i1, i2, i3⟩ := (sups_spec b charset k (pos + 3) _ cur (c.tick 2)
              (by rw [List.length_set]; exact hl)).2 _ _ h
            simp only [Cost.tick] at i2 i3 ⊢
            exact ⟨i1, by omega, by omega⟩
          · rw [ok_bind] at h
            obtain ⟨i1, i2, i3⟩ := (sups_spec b charset k (pos + 3) res cur (c.tick 2) hl).2 _ _ h
            simp only [Cost.tick] at i2 i3 ⊢
            exact ⟨i1, by omega, by omega⟩

theorem primary_spec (b : Bytes) (nCs format : Nat) (c : Cost) :
    (primary b nCs format c).noPanic ∧
      ∀ res cur pos c', primary b nCs format c = .ok ((res, cur, pos), c') →
        res.length = 256 ∧ c'.steps ≤ c.steps + 65791 ∧ c'.alloc ≤ c.alloc + 255 := by
  have h0 : (List.replicate 256 (0 : Nat)).length = 256 := List.length_replicate
  unfold primary
  dsimp only
  split
  · constructor
    · refine bind_noPanic (u8_noPanic _ _ _) (fun nCodes hn => ?_)
      have h1 := (u8_ok hn).1
      split
      · exact True.intro
      · rw [Gdef.mkSlice_ok _ _ _ (by omega), ok_bind]
        refine bind_noPanic (pRead_noPanic _ _ _) (fun codes _ => ?_)
        refine bind_noPanic (codes0_spec codes _ 1 _ h0).1 (fun r _ => ?_)
        exact True.intro
    · intro res cur pos c' h
      obtain ⟨nCodes, hn, h⟩ := bind_eq_ok h
      have h1 := (u8_ok hn).1
      split at h
      · cases h
      · rw [Gdef.mkSlice_ok _ _ _ (by omega), ok_bind] at h
        obtain ⟨codes, hcodes, h⟩ := bind_eq_ok h
        obtain ⟨⟨⟨res1, cur1⟩, c1⟩, hc, h⟩ := bind_eq_ok h
        obtain ⟨i1, i2, i3⟩ := (codes0_spec codes _ 1 _ h0).2 _ _ _ hc
        have hl := (pRead_ok hcodes).1
        cases h
        simp only [Cost.tick, Cost.mem] at i2 i3 ⊢
        exact ⟨i1, by omega, by omega⟩
  · split
    · constructor
      · refine bind_noPanic (u8_noPanic _ _ _) (fun nRanges _ => ?_)
        exact (ranges1_spec b nCs nRanges 2 _ 1 _ h0).1
      · intro res cur pos c' h
        obtain ⟨nRanges, hn, h⟩ := bind_eq_ok h
        have h1 := (u8_ok hn).1
        obtain ⟨i1, i2, i3⟩ := (ranges1_spec b nCs nRanges 2 _ 1 _ h0).2 _ _ _ _ h
        simp only [Cost.tick] at i2 i3 ⊢
        exact ⟨i1, by omega, by omega⟩
    · exact ⟨True.intro, fun _ _ _ _ h => by cases h⟩

/-- `readEncoding` never panics: for ALL bytes and ALL charsets (any length including 0 and
> 65535, any int32 entries) -/
theorem readEncoding_noPanic (b : Bytes) (charset : List Int) : (readEncoding b charset).noPanic := by
  unfold readEncoding
  refine bind_noPanic (u8_noPanic _ _ _) (fun format _ => ?_)
  rw [Gdef.mkSlice_ok _ _ _ (by omega), ok_bind]
  have hp := primary_spec b charset.length format ((Cost.zero.tick).mem 256)
  refine bind_noPanic hp.1 (fun r hr => ?_)
  obtain ⟨⟨res, cur, pos⟩, c⟩ := r
  dsimp only
  split
  · refine bind_noPanic (u8_noPanic _ _ _) (fun nSups _ => ?_)
    exact (sups_spec b charset nSups _ res cur _ (hp.2 _ _ _ _ hr).1).1
  · exact True.intro

/-- cost of `readEncoding`: a constant plus (only with a supplement) one step and one map entry
per charset element; the result always has 256 entries.  The constant 66304 = 1 + 1 + 255·258
(format 1: at most 255 ranges of two reads and at most 256 codes) + 1 + 2·255 (supplement). -/
theorem readEncoding_cost (b : Bytes) (charset : List Int) (res : List Nat) (c : Cost)
    (h : readEncoding b charset = .ok (res, c)) :
    res.length = 256 ∧ c.steps ≤ charset.length + 66304 ∧ c.alloc ≤ charset.length + 511 := by
  unfold readEncoding at h
  obtain ⟨format, _, h⟩ := bind_eq_ok h
  rw [Gdef.mkSlice_ok _ _ _ (by omega), ok_bind] at h
  have hp := primary_spec b charset.length format ((Cost.zero.tick).mem 256)
  obtain ⟨⟨⟨res1, cur, pos⟩, c1⟩, hr, h⟩ := bind_eq_ok h
  obtain ⟨p1, p2, p3⟩ := hp.2 _ _ _ _ hr
  dsimp only at h
  simp only [Cost.tick, Cost.mem, Cost.zero] at p2 p3
  split at h
  · obtain ⟨nSups, hn, h⟩ := bind_eq_ok h
    have h1 := (u8_ok hn).1
    obtain ⟨i1, i2, i3⟩ := (sups_spec b charset nSups _ res1 cur _ p1).2 _ _ h
    simp only [Cost.tick, Cost.mem] at i2 i3
    exact ⟨i1, by omega, by omega⟩
  · cases h
    exact ⟨p1, by omega, by omega⟩

/-! ## `readFDSelect` -/

theorem mkSliceInt_ok (site : String) (n : Int) (c : Cost) (h0 : 0 ≤ n) (h1 : n < 2 ^ 47) :
    mkSliceInt site n c = .ok (c.mem n.toNat) := by
  unfold mkSliceInt
  rw [if_neg (by omega)]

/-- the check loop of format 0: no panic while `i + k ≤ len(buf)`; on success every byte in
`[i, i+k)` is below `nPrivate`; one step per glyph -/
theorem check0_spec (buf : Bytes) (nPrivate : Int) : ∀ (k i : Nat) (c : Cost),
    i + k ≤ buf.length → (check0 buf nPrivate k i c).noPanic ∧
      ∀ c', check0 buf nPrivate k i c = .ok c' →
        c'.steps = c.steps + k ∧ c'.alloc = c.alloc ∧
        ∀ j (hj : j < buf.length), i ≤ j → j < i + k → (buf[j].toNat : Int) < nPrivate
  | 0, i, c, _ => by
    unfold check0
    refine ⟨True.intro, fun c' h => ?_⟩
    cases h
    exact ⟨rfl, rfl, fun j _ h1 h2 => by omega⟩
  | k+1, i, c, hi => by
    unfold check0
    rw [idx_ok _ buf i (by omega), ok_bind]
    split
    · exact ⟨True.intro, fun _ h => by cases h⟩
    · rename_i hlt
      have ih := check0_spec buf nPrivate k (i + 1) c.tick (by omega)
      refine ⟨ih.1, fun c' h => ?_⟩
      obtain ⟨i1, i2, i3⟩ := ih.2 c' h
      simp only [Cost.tick] at i1 i2 ⊢
      refine ⟨by omega, by omega, fun j hj h1 h2 => ?_⟩
      by_cases hji : j = i
      · subst hji
        omega
      · exact i3 j hj (by omega) (by omega)

theorem ranges3_noPanic (b : Bytes) (nPrivate : Int) : ∀ (k i pos prev : Nat) (c : Cost),
    (ranges3 b nPrivate k i pos prev c).noPanic
  | 0, _, _, _, _ => True.intro
  | k+1, i, pos, prev, c => by
    unfold ranges3
    refine bind_noPanic (u16_noPanic _ _ _) (fun first _ => ?_)
    split
    · exact True.intro
    · refine bind_noPanic (u8_noPanic _ _ _) (fun fd _ => ?_)
      split
      · exact True.intro
      · dsimp only
        refine bind_noPanic (ranges3_noPanic b nPrivate k _ _ _ _) (fun r _ => ?_)
        exact True.intro

/-- the range loop of format 3: `end` gets one entry per range after the first, `fdIdx` one per
range, every stored FD is below `nPrivate`; two reads per range, three bytes per range -/
theorem ranges3_ok (b : Bytes) (nPrivate : Int) : ∀ (k i pos prev : Nat) (c : Cost)
    (es fs : List Nat) (c' : Cost), ranges3 b nPrivate k i pos prev c = .ok ((es, fs), c') →
      fs.length = k ∧ (0 < i → es.length = k) ∧ (i = 0 → es.length = k - 1) ∧
      (∀ fd ∈ fs, (fd : Int) < nPrivate) ∧
      c'.steps = c.steps + 2 * k ∧ c'.alloc ≤ c.alloc + 2 * k ∧ (k = 0 ∨ pos + 3 * k ≤ b.length)
  | 0, _, _, _, c, es, fs, c', h => by
    unfold ranges3 at h
    cases h
    exact ⟨rfl, fun _ => rfl, fun _ => rfl, (fun _ h => by cases h), by omega, by omega, Or.inl rfl⟩
  | k+1, i, pos, prev, c, es, fs, c', h => by
    unfold ranges3 at h
    obtain ⟨first, hfirst, h⟩ := bind_eq_ok h
    split at h
    · cases h
    · obtain ⟨fd, hfd, h⟩ := bind_eq_ok h
      split at h
      · cases h
      · rename_i hlt
        dsimp only at h
        obtain ⟨⟨⟨es1, fs1⟩, c1⟩, h1, h⟩ := bind_eq_ok h
        obtain ⟨i1, i2, _, i4, i5, i6, i7⟩ := ranges3_ok b nPrivate k (i + 1) (pos + 3) first _ es1 fs1 c1 h1
        have i2 := i2 (by omega)
        have hp := (u8_ok hfd).2
        cases h
        simp only [Cost.tick, Cost.mem] at i5 i6
        dsimp only
        refine ⟨by simp only [List.length_cons]; omega, fun hi => ?_, fun hi => ?_, ?_, ?_, ?_, ?_⟩
        · rw [if_pos hi, List.length_cons]; omega
        · rw [if_neg (by omega)]; omega
        · intro x hx
          rcases List.mem_cons.mp hx with hx | hx
          · subst hx; omega
          · exact i4 x hx
        · omega
        · split at i6 <;> omega
        · right; omega

/-- `readFDSelect` does not panic when `0 ≤ nGlyphs < 2^47`.  The caller `cff.Read` passes
`nGlyphs = len(charStrings)`, the count of an INDEX (≤ 65535), and `nPrivate = len(cff.Private)`;
`nPrivate` may be ANY int here.  For negative `nGlyphs` the `make` of format 0 panics
(`readFDSelect_neg_panics`): a guard of the unexported function, not reachable from `cff.Read`. -/
theorem readFDSelect_noPanic (b : Bytes) (nGlyphs nPrivate : Int) (h0 : 0 ≤ nGlyphs)
    (h1 : nGlyphs < 2 ^ 47) : (readFDSelect b nGlyphs nPrivate).noPanic := by
  unfold readFDSelect
  refine bind_noPanic (u8_noPanic _ _ _) (fun format _ => ?_)
  dsimp only
  split
  · rw [mkSliceInt_ok _ _ _ h0 h1, ok_bind]
    refine bind_noPanic (pRead_noPanic _ _ _) (fun buf hbuf => ?_)
    have hl := (pRead_ok hbuf).1
    refine bind_noPanic (check0_spec buf nPrivate _ 0 _ (by omega)).1 (fun c _ => ?_)
    exact True.intro
  · split
    · refine bind_noPanic (u16_noPanic _ _ _) (fun nRanges _ => ?_)
      split
      · exact True.intro
      · refine bind_noPanic (ranges3_noPanic b nPrivate _ _ _ _ _) (fun r _ => ?_)
        obtain ⟨⟨es, fs⟩, c⟩ := r
        dsimp only
        refine bind_noPanic (u16_noPanic _ _ _) (fun sentinel _ => ?_)
        split <;> exact True.intro
    · exact True.intro

/-- format 3 never panics, whatever the two ints are (a negative `nGlyphs` can not equal the
sentinel: error) -/
theorem readFDSelect_noPanic_fmt3 (b : Bytes) (nGlyphs nPrivate : Int) (hb : b.head? ≠ some 0) :
    (readFDSelect b nGlyphs nPrivate).noPanic := by
  unfold readFDSelect
  refine bind_noPanic (u8_noPanic _ _ _) (fun format hf => ?_)
  dsimp only
  split
  · rename_i h0
    exfalso
    rw [u8_eq] at hf
    split at hf
    · rename_i hl
      cases hf
      apply hb
      cases b with
      | nil => cases hl
      | cons x rest =>
        simp only [List.getElem_cons_zero] at h0
        simp only [List.head?_cons]
        congr 1
        exact UInt8.toNat_inj.mp h0
    · cases hf
  · split
    · refine bind_noPanic (u16_noPanic _ _ _) (fun nRanges _ => ?_)
      split
      · exact True.intro
      · refine bind_noPanic (ranges3_noPanic b nPrivate _ _ _ _ _) (fun r _ => ?_)
        obtain ⟨⟨es, fs⟩, c⟩ := r
        dsimp only
        refine bind_noPanic (u16_noPanic _ _ _) (fun sentinel _ => ?_)
        split <;> exact True.intro
    · exact True.intro

/-- the guard: format 0 with a negative glyph count panics at the `make` (Go: "makeslice: len out
of range"; confirmed on the real code, case `tmcffsets.fdselect bytes=00 n=-1 np=1`) -/
theorem readFDSelect_neg_panics (rest : Bytes) (nGlyphs nPrivate : Int) (h : nGlyphs < 0) :
    readFDSelect (0 :: rest) nGlyphs nPrivate = .panic "fdselect.go:39#make([]uint8, nGlyphs)" := by
  unfold readFDSelect
  rw [u8_eq, dif_pos (by simp)]
  simp only [List.getElem_cons_zero, ok_bind]
  unfold mkSliceInt
  rw [if_pos (Or.inl h)]
  rfl

/-- what a successful `readFDSelect` returns -/
theorem readFDSelect_ok (b : Bytes) (nGlyphs nPrivate : Int) (fn : FdSel) (c : Cost)
    (h : readFDSelect b nGlyphs nPrivate = .ok (fn, c)) :
    0 ≤ nGlyphs ∧
    ((∃ buf, fn = .f0 buf ∧ buf.length = nGlyphs.toNat ∧ nGlyphs.toNat + 1 ≤ b.length ∧
        (∀ j (hj : j < buf.length), (buf[j].toNat : Int) < nPrivate) ∧
        c.steps = nGlyphs.toNat + nGlyphs.toNat / 1024 + 2 ∧ c.alloc = nGlyphs.toNat) ∨
     (∃ nR ends fdIdx, fn = .f3 nR ends fdIdx ∧ fdIdx.length = nR ∧ (∀ fd ∈ fdIdx, (fd : Int) < nPrivate) ∧
        (0 < nR → ends.length = nR ∧ ends[nR - 1]? = some nGlyphs.toNat) ∧
        (nR = 0 → nGlyphs = 0) ∧ nGlyphs < 65536 ∧ 3 * nR + 5 ≤ b.length ∧
        c.steps = 2 * nR + 3 ∧ c.alloc ≤ 2 * nR + 1)) := by
  unfold readFDSelect at h
  obtain ⟨format, hfmt, h⟩ := bind_eq_ok h
  have hb1 := (u8_ok hfmt).2
  dsimp only at h
  split at h
  · obtain ⟨c1, hc1, h⟩ := bind_eq_ok h
    unfold mkSliceInt at hc1
    split at hc1
    · cases hc1
    · rename_i hn
      cases hc1
      obtain ⟨buf, hbuf, h⟩ := bind_eq_ok h
      obtain ⟨c2, hc2, h⟩ := bind_eq_ok h
      cases h
      obtain ⟨hl, hle⟩ := pRead_ok hbuf
      obtain ⟨k1, k2, k3⟩ := (check0_spec buf nPrivate _ 0 _ (by omega)).2 _ hc2
      simp only [Cost.tick, Cost.mem, Cost.zero] at k1 k2
      refine ⟨by omega, Or.inl ⟨buf, rfl, hl, by omega, fun j hj => k3 j hj (by omega) (by omega), by omega, by omega⟩⟩
  · split at h
    · obtain ⟨nRanges, hnr, h⟩ := bind_eq_ok h
      split at h
      · cases h
      · rename_i hz
        obtain ⟨⟨⟨es, fs⟩, c1⟩, hr, h⟩ := bind_eq_ok h
        dsimp only at h
        obtain ⟨sentinel, hs, h⟩ := bind_eq_ok h
        split at h
        · cases h
        · rename_i hsent
          cases h
          obtain ⟨r1, _, r3, r4, r5, r6, r7⟩ := ranges3_ok b nPrivate nRanges 0 3 0 _ es fs c1 hr
          have r3 := r3 rfl
          have hs1 := (u16_ok hs).1
          have hs2 := (u16_ok hs).2
          have hsn : nGlyphs = (sentinel : Int) := by
            by_cases hx : (sentinel : Int) = nGlyphs
            · exact hx.symm
            · exact absurd hx hsent
          have htn : nGlyphs.toNat = sentinel := by rw [hsn]; rfl
          simp only [Cost.tick, Cost.mem, Cost.zero] at r5 r6 ⊢
          refine ⟨by omega, Or.inr ⟨nRanges, es ++ [sentinel], fs, rfl, r1, r4, fun hpos => ?_, fun h0 => ?_,
            by omega, by omega, by omega, by omega⟩⟩
          · refine ⟨by rw [List.length_append, List.length_singleton]; omega, ?_⟩
            rw [htn, List.getElem?_append_right (by omega)]
            have : nRanges - 1 - es.length = 0 := by omega
            rw [this]
            rfl
          · by_cases hg : nGlyphs > 0
            · exact absurd ⟨hg, h0⟩ hz
            · omega
    · cases h

/-- cost of `readFDSelect`: LINEAR in the input (format 0 reads `nGlyphs` bytes that must be
present; format 3 spends two reads per 3-byte range) -/
theorem readFDSelect_cost (b : Bytes) (nGlyphs nPrivate : Int) (fn : FdSel) (c : Cost)
    (h : readFDSelect b nGlyphs nPrivate = .ok (fn, c)) :
    c.steps ≤ 2 * b.length + 1 ∧ c.alloc ≤ b.length := by
  obtain ⟨_, h | h⟩ := readFDSelect_ok b nGlyphs nPrivate fn c h
  · obtain ⟨buf, _, _, h1, _, h2, h3⟩ := h
    have := Nat.div_le_self nGlyphs.toNat 1024
    omega
  · obtain ⟨nR, ends, fdIdx, _, _, _, _, _, _, h1, h2, h3⟩ := h
    omega

/-! ## the lazy accessor -/

/-- the binary search with the possibly NON-monotone predicate `gid < end[i]` (the sentinel is
not compared with the last `first`, so `end` need not be sorted): as long as the predicate holds
at the last index the result is a valid index -/
theorem search_lt (ends : List Nat) (gid N n : Nat) (hlen : ends.length = N)
    (hlast : ends[N - 1]? = some n) (hg : gid < n) : ∀ (fuel i j : Nat), i ≤ j → j ≤ N → i < N →
    ∃ r, search ends gid fuel i j = .ok r ∧ r < N
  | 0, i, j, _, _, hi => ⟨i, rfl, hi⟩
  | fuel+1, i, j, hij, hj, hi => by
    unfold search
    split
    · rename_i hlt
      dsimp only
      rw [idx_ok _ ends ((i + j) / 2) (by omega), ok_bind]
      split
      · exact search_lt ends gid N n hlen hlast hg fuel i _ (by omega) (by omega) hi
      · rename_i hge
        refine search_lt ends gid N n hlen hlast hg fuel _ j (by omega) hj ?_
        by_cases hh : (i + j) / 2 + 1 < N
        · exact hh
        · exfalso
          have he : (i + j) / 2 = N - 1 := by omega
          rw [List.getElem?_eq_getElem (by omega)] at hlast
          have := Option.some.inj hlast
          apply hge
          have h2 : ends[(i + j) / 2]'(by omega) = ends[N - 1]'(by omega) := by congr 1
          omega
    · exact ⟨i, rfl, hi⟩

/-- LAZY-ACCESSOR SAFETY: on every glyph below `nGlyphs` the function returned by a successful
`readFDSelect` does not panic and returns an FD below `nPrivate` (so `decoders[fdIdx]` in
read.go:281 is in range) -/
theorem lookup_safe (b : Bytes) (nGlyphs nPrivate : Int) (fn : FdSel) (c : Cost)
    (h : readFDSelect b nGlyphs nPrivate = .ok (fn, c)) (gid : Nat) (hg : (gid : Int) < nGlyphs) :
    ∃ fd, lookup fn gid = .ok fd ∧ (fd : Int) < nPrivate := by
  obtain ⟨h0, h | h⟩ := readFDSelect_ok b nGlyphs nPrivate fn c h
  · obtain ⟨buf, rfl, hl, _, hall, _⟩ := h
    have hgl : gid < buf.length := by omega
    refine ⟨buf[gid].toNat, ?_, hall gid hgl⟩
    rw [lookup, idx_ok _ buf gid hgl]
    rfl
  · obtain ⟨nR, ends, fdIdx, rfl, hfl, hfd, hends, hzero, _⟩ := h
    have hpos : 0 < nR := by
      by_cases hz : nR = 0
      · have := hzero hz; omega
      · omega
    obtain ⟨hel, hlast⟩ := hends hpos
    obtain ⟨r, hr, hrlt⟩ := search_lt ends gid nR nGlyphs.toNat hel hlast (by omega) (nR + 1) 0 nR
      (by omega) (by omega) hpos
    refine ⟨fdIdx[r]'(by omega), ?_, hfd _ (List.getElem_mem _)⟩
    rw [lookup, hr, ok_bind, idx_ok _ fdIdx r (by omega)]

/-- for ANY glyph id the accessor never yields an error, and a value it yields is an FD below
`nPrivate`; out of range (`gid ≥ nGlyphs`) it may panic (index out of range) -/
theorem lookup_value (b : Bytes) (nGlyphs nPrivate : Int) (fn : FdSel) (c : Cost)
    (h : readFDSelect b nGlyphs nPrivate = .ok (fn, c)) (gid : Nat) :
    (∃ s, lookup fn gid = .panic s) ∨ ∃ fd, lookup fn gid = .ok fd ∧ (fd : Int) < nPrivate := by
  obtain ⟨h0, h | h⟩ := readFDSelect_ok b nGlyphs nPrivate fn c h
  · obtain ⟨buf, rfl, hl, _, hall, _⟩ := h
    rw [lookup]
    by_cases hgl : gid < buf.length
    · rw [idx_ok _ buf gid hgl]
      exact Or.inr ⟨_, rfl, hall gid hgl⟩
    · left
      unfold idx
      rw [List.getElem?_eq_none (by omega)]
      exact ⟨_, rfl⟩
  · obtain ⟨nR, ends, fdIdx, rfl, hfl, hfd, _⟩ := h
    rw [lookup]
    cases hs : search ends gid (nR + 1) 0 nR with
    | panic s => exact Or.inl ⟨s, rfl⟩
    | err e =>
      exfalso
      -- `search` has no error exit
      have : ∀ (fuel i j : Nat) (e : String), search ends gid fuel i j ≠ .err e := by
        intro fuel
        induction fuel with
        | zero => intro i j e h; cases h
        | succ fuel ih =>
          intro i j e h
          unfold search at h
          split at h
          · dsimp only at h
            rcases bind_eq_err h with h | ⟨v, hv, h⟩
            · unfold idx at h
              split at h <;> cases h
            · split at h
              · exact ih _ _ _ h
              · exact ih _ _ _ h
          · cases h
      exact this _ _ _ _ hs
    | ok r =>
      rw [ok_bind]
      by_cases hr : r < fdIdx.length
      · rw [idx_ok _ fdIdx r hr]
        exact Or.inr ⟨_, rfl, hfd _ (List.getElem_mem _)⟩
      · left
        unfold idx
        rw [List.getElem?_eq_none (by omega)]
        exact ⟨_, rfl⟩

/-- format 0 out of range: the accessor ALWAYS panics for `gid ≥ nGlyphs` -/
theorem lookup_f0_oob (b : Bytes) (nGlyphs nPrivate : Int) (buf : Bytes) (c : Cost)
    (h : readFDSelect b nGlyphs nPrivate = .ok (.f0 buf, c)) (gid : Nat) (hg : nGlyphs ≤ (gid : Int)) :
    lookup (.f0 buf) gid = .panic "fdselect.go:50#buf[gid]" := by
  obtain ⟨h0, h | h⟩ := readFDSelect_ok b nGlyphs nPrivate _ c h
  · obtain ⟨buf', heq, hl, _⟩ := h
    cases heq
    rw [lookup]
    unfold idx
    rw [List.getElem?_eq_none (by omega)]
    rfl
  · obtain ⟨_, _, _, heq, _⟩ := h
    cases heq

/-! ## the cost of `readCharset` is not bounded by the input length -/

theorem ranges_done (b : Bytes) (w n : Nat) (fuel len pos : Nat) (c : Cost) (h : ¬ len < n) :
    ranges b w n fuel len pos c = .ok (([], pos), c) := by
  cases fuel with
  | zero => unfold ranges; rw [if_neg h]
  | succ fuel => unfold ranges; rw [if_neg h]

theorem run_total (n first : Nat) : ∀ (k i len : Nat) (c : Cost), first + i + k ≤ 0x10000 →
    ∃ l c', run n first k i len c = .ok (l, c')
  | 0, _, _, c, _ => ⟨[], c, rfl⟩
  | k+1, i, len, c, h => by
    unfold run
    rw [if_neg (by omega)]
    dsimp only
    obtain ⟨l, c', hr⟩ := run_total n first k (i + 1) (len + 1)
      (if len ≥ n then (c.tick).mem 1 else c.tick) (by omega)
    rw [hr, ok_bind]
    exact ⟨_, _, rfl⟩

/-- WITNESS: a 5-byte format-2 charset (one range `first = 1`, `nLeft = N`) costs `N + 4` steps
and `N + 2` allocated elements for every `N ≤ 65533`: the cost of `readCharset` is bounded by the
caller's glyph count (`readCharset_cost`), not by the number of input bytes. -/
theorem readCharset_cost_witness (hi lo : UInt8) (N : Nat) (hNdef : hi.toNat * 256 + lo.toNat = N)
    (hN : N ≤ 65533) :
    ∃ l pos c, readCharset [2, 0, 1, hi, lo] ((N + 2 : Nat) : Int) = .ok ((l, pos), c) ∧
      c.steps = N + 4 ∧ c.alloc = N + 2 := by
  have hlen : ([2, 0, 1, hi, lo] : Bytes).length = 5 := rfl
  unfold readCharset
  rw [if_neg (by omega)]
  dsimp only
  rw [Int.toNat_natCast, u8_eq, dif_pos (by rw [hlen]; omega), ok_bind,
    Gdef.mkSlice_ok _ _ _ (by omega), ok_bind]
  have h2 : (([2, 0, 1, hi, lo] : Bytes)[0]'(by rw [hlen]; omega)).toNat = 2 := rfl
  rw [h2, if_neg (by omega), if_pos (Or.inr rfl)]
  unfold ranges
  rw [if_pos (by omega), u16_eq, dif_pos (by rw [hlen]; omega), ok_bind, if_neg (by omega),
    u16_eq, dif_pos (by rw [hlen]; omega), ok_bind]
  have hf : (([2, 0, 1, hi, lo] : Bytes)[1]'(by rw [hlen]; omega)).toNat * 256 +
      (([2, 0, 1, hi, lo] : Bytes)[1 + 1]'(by rw [hlen]; omega)).toNat = 1 := by simp
  have hn : (([2, 0, 1, hi, lo] : Bytes)[1 + 2]'(by rw [hlen]; omega)).toNat * 256 +
      (([2, 0, 1, hi, lo] : Bytes)[1 + 2 + 1]'(by rw [hlen]; omega)).toNat = N := hNdef
  rw [hf, hn]
  obtain ⟨l1, c1, hr⟩ := run_total (N + 2) 1 (N + 1) 0 1 (((Cost.zero.tick).mem (N + 2)).tick 2)
    (by omega)
  obtain ⟨r1, r2, _, _, r5⟩ := run_ok _ _ _ _ _ _ _ _ hr
  have r5 := r5 (by omega)
  rw [hr, ok_bind]
  dsimp only
  rw [ranges_done _ _ _ _ _ _ _ (by omega), ok_bind, ok_bind]
  dsimp only
  rw [if_neg (by rw [List.length_append, r1, List.length_nil]; omega)]
  refine ⟨_, _, _, rfl, ?_, ?_⟩
  · rw [r2]; simp only [Cost.tick, Cost.mem, Cost.zero]; omega
  · rw [r5]; simp only [Cost.tick, Cost.mem, Cost.zero]; omega

/-! ## non-vacuity -/

example : readCharset [0, 0, 7] 2 = .ok (([0, 7], 3), ⟨2, 2⟩) := by decide +kernel
example : readCharset [1, 0, 5, 1, 1, 0, 0] 4 = .ok (([0, 5, 6, 256], 7), ⟨8, 4⟩) := by decide +kernel
example : readCharset [2, 0, 5, 0, 2] 4 = .ok (([0, 5, 6, 7], 5), ⟨6, 4⟩) := by decide +kernel
example : (readEncoding [0, 2, 65, 66] [0, 34, 35]).isOk = true := by decide +kernel
/-- format 1 with a supplement: glyph 1 at codes 65 and 70, glyph 2 at code 66 -/
example : (match readEncoding [0x81, 1, 65, 1, 1, 70, 0, 34] [0, 34, 35] with
    | .ok (r, _) => (r.drop 64).take 8 == [0, 1, 2, 0, 0, 0, 1, 0]
    | _ => false) = true := by decide +kernel
example : readFDSelect [0, 1, 0, 1] 3 2 = .ok (.f0 [1, 0, 1], ⟨5, 3⟩) := by decide +kernel
example : readFDSelect [3, 0, 2, 0, 0, 0, 0, 2, 1, 0, 3] 3 2 = .ok (.f3 2 [2, 3] [0, 1], ⟨7, 4⟩) := by
  decide +kernel
example : lookups (.f3 2 [2, 3] [0, 1]) [0, 1, 2] = .ok [0, 0, 1] := by decide +kernel
/-- out of range the accessor panics … -/
example : lookup (.f3 2 [2, 3] [0, 1]) 3 = .panic "fdselect.go:95#fdIdx[idx]" := by decide +kernel
/-- … or, when the sentinel lies below an earlier boundary (accepted: `end` is not sorted),
returns a value: glyph 7 of a 5-glyph font -/
example : readFDSelect [3, 0, 3, 0, 0, 0, 0, 10, 1, 0, 20, 0, 0, 5] 5 2
    = .ok (.f3 3 [10, 20, 5] [0, 1, 0], ⟨9, 6⟩) := by decide +kernel
example : lookup (.f3 3 [10, 20, 5] [0, 1, 0]) 7 = .ok 0 := by decide +kernel
example : lookup (.f3 3 [10, 20, 5] [0, 1, 0]) 30 = .panic "fdselect.go:95#fdIdx[idx]" := by
  decide +kernel

end SfntV.Total.CffSets
