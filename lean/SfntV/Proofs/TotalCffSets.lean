/-
C02 (decoders are total): proofs about the checked-index models of the CFF set readers
`readCharset`, `readEncoding`, `readFDSelect` and of the lazy accessor returned by the latter
(`SfntV.Total.CffSets`): no panic, explicit cost bounds, safety of the accessor on every glyph
below `nGlyphs`, and the bridging lemmas to the value-level models of C13.
-/
import SfntV.Model.TotalCffSets
import SfntV.Proofs.TotalGdef

namespace SfntV.Total.CffSets
open SfntV SfntV.Total
open SfntV.Total.Gdef (idx_ok ok_bind bind_noPanic bind_eq_ok)

/-! ## the parser reads -/

theorem u8_eq (site : String) (b : Bytes) (pos : Nat) :
    u8 site b pos = if h : pos < b.length then .ok b[pos].toNat else .err "eof" := by
  unfold u8 rdBytes readBytes
  rw [if_neg (by omega)]
  by_cases h : pos < b.length
  · rw [if_pos (by omega), dif_pos h, List.drop_eq_getElem_cons h]
    rfl
  · rw [if_neg (by omega), dif_neg h]
    rfl

theorem u16_eq (site : String) (b : Bytes) (pos : Nat) :
    u16 site b pos =
      if h : pos + 1 < b.length then .ok (b[pos].toNat * 256 + b[pos + 1].toNat) else .err "eof" := by
  unfold u16 rdBytes readBytes
  rw [if_neg (by omega)]
  by_cases h : pos + 1 < b.length
  · rw [if_pos (by omega), dif_pos h, List.drop_eq_getElem_cons (by omega : pos < b.length),
      List.drop_eq_getElem_cons h]
    rfl
  · rw [if_neg (by omega), dif_neg h]
    rfl

theorem u8_noPanic (site : String) (b : Bytes) (pos : Nat) : (u8 site b pos).noPanic := by
  rw [u8_eq]; split <;> exact True.intro

theorem u16_noPanic (site : String) (b : Bytes) (pos : Nat) : (u16 site b pos).noPanic := by
  rw [u16_eq]; split <;> exact True.intro

theorem u8_ok {site : String} {b : Bytes} {pos v : Nat} (h : u8 site b pos = .ok v) :
    v < 256 ∧ pos + 1 ≤ b.length := by
  rw [u8_eq] at h
  split at h
  · rename_i hl
    cases h
    exact ⟨b[pos].toNat_lt, hl⟩
  · cases h

theorem u16_ok {site : String} {b : Bytes} {pos v : Nat} (h : u16 site b pos = .ok v) :
    v < 65536 ∧ pos + 2 ≤ b.length := by
  rw [u16_eq] at h
  split at h
  · rename_i hl
    cases h
    have h1 := b[pos].toNat_lt
    have h2 := b[pos + 1].toNat_lt
    exact ⟨by omega, hl⟩
  · cases h

theorem u8_err {site : String} {b : Bytes} {pos : Nat} {e : String} (h : u8 site b pos = .err e) :
    e = "eof" := by
  rw [u8_eq] at h
  split at h
  · cases h
  · cases h; rfl

theorem u16_err {site : String} {b : Bytes} {pos : Nat} {e : String} (h : u16 site b pos = .err e) :
    e = "eof" := by
  rw [u16_eq] at h
  split at h
  · cases h
  · cases h; rfl

theorem bind_eq_err {x : Outcome α} {f : α → Outcome β} {e : String} (h : (x >>= f) = .err e) :
    x = .err e ∨ ∃ a, x = .ok a ∧ f a = .err e := by
  cases x with
  | ok a => exact Or.inr ⟨a, rfl, h⟩
  | err e' => cases h; exact Or.inl rfl
  | panic s => cases h

theorem err_ne {a b : String} (hab : a ≠ b) : (Outcome.err a : Outcome α) ≠ .err b :=
  fun h => hab (Outcome.err.inj h)

theorem pRead_noPanic (b : Bytes) (pos n : Nat) : (pRead b pos n).noPanic := by
  unfold pRead
  split
  · exact True.intro
  · split <;> exact True.intro

theorem pRead_ok {b : Bytes} {pos n : Nat} {w : Bytes} (h : pRead b pos n = .ok w) :
    w.length = n ∧ (n = 0 ∨ pos + n ≤ b.length) := by
  unfold pRead at h
  split at h
  · rename_i h0
    cases h
    exact ⟨h0.symm, Or.inl h0⟩
  · split at h
    · rename_i hle
      cases h
      refine ⟨?_, Or.inr hle⟩
      simp only [List.length_take, List.length_drop]
      omega
    · cases h

theorem setAt_ok (site : String) (xs : List α) (i : Nat) (v : α) (h : i < xs.length) :
    setAt site xs i v = .ok (xs.set i v) := by
  unfold setAt
  rw [if_pos h]

/-! ## `readCharset` -/

theorem names0_noPanic (b : Bytes) : ∀ (k pos : Nat) (c : Cost), (names0 b k pos c).noPanic
  | 0, _, _ => True.intro
  | k+1, pos, c => by
    unfold names0
    refine bind_noPanic (u16_noPanic _ _ _) (fun xi _ => ?_)
    refine bind_noPanic (names0_noPanic b k _ _) (fun r _ => ?_)
    exact True.intro

theorem run_noPanic (n first : Nat) : ∀ (k i len : Nat) (c : Cost), (run n first k i len c).noPanic
  | 0, _, _, _ => True.intro
  | k+1, i, len, c => by
    unfold run
    split
    · exact True.intro
    · refine bind_noPanic (run_noPanic n first k _ _ _) (fun r _ => ?_)
      exact True.intro

theorem ranges_noPanic (b : Bytes) (w n : Nat) : ∀ (fuel len pos : Nat) (c : Cost),
    (ranges b w n fuel len pos c).noPanic
  | 0, len, pos, c => by
    unfold ranges
    split <;> exact True.intro
  | fuel+1, len, pos, c => by
    unfold ranges
    split
    · refine bind_noPanic (u16_noPanic _ _ _) (fun first _ => ?_)
      refine bind_noPanic (by split <;> first | exact u8_noPanic _ _ _ | exact u16_noPanic _ _ _)
        (fun nLeft _ => ?_)
      refine bind_noPanic (run_noPanic _ _ _ _ _ _) (fun r1 _ => ?_)
      refine bind_noPanic (ranges_noPanic b w n fuel _ _ _) (fun r2 _ => ?_)
      exact True.intro
    · exact True.intro

/-- `readCharset` never panics: for ALL bytes and ALL values of the caller's `nGlyphs` (negative,
0 and ≥ 65536 are rejected by charset.go:29 before anything is read or allocated) -/
theorem readCharset_noPanic (b : Bytes) (nGlyphs : Int) : (readCharset b nGlyphs).noPanic := by
  unfold readCharset
  split
  · exact True.intro
  · rename_i hn
    dsimp only
    refine bind_noPanic (u8_noPanic _ _ _) (fun format _ => ?_)
    rw [Gdef.mkSlice_ok _ _ _ (by omega), ok_bind]
    split
    · refine bind_noPanic (names0_noPanic b _ _ _) (fun r _ => ?_)
      exact True.intro
    · split
      · refine bind_noPanic (ranges_noPanic b _ _ _ _ _ _) (fun r _ => ?_)
        obtain ⟨⟨l, pos⟩, c⟩ := r
        dsimp only
        split <;> exact True.intro
      · exact True.intro

theorem names0_ok (b : Bytes) : ∀ (k pos : Nat) (c : Cost) (l : List Int) (c' : Cost),
    names0 b k pos c = .ok (l, c') →
      l.length = k ∧ c'.steps = c.steps + k ∧ c'.alloc = c.alloc ∧ (k = 0 ∨ pos + 2 * k ≤ b.length)
  | 0, _, c, l, c', h => by
    unfold names0 at h
    cases h
    simp
  | k+1, pos, c, l, c', h => by
    unfold names0 at h
    obtain ⟨xi, hxi, h⟩ := bind_eq_ok h
    obtain ⟨⟨l1, c1⟩, h1, h⟩ := bind_eq_ok h
    have ih := names0_ok b k (pos + 2) c.tick l1 c1 h1
    cases h
    have hx := (u16_ok hxi).2
    simp only [List.length_cons, Cost.tick] at ih ⊢
    omega

theorem run_ok (n first : Nat) : ∀ (k i len : Nat) (c : Cost) (l : List Int) (c' : Cost),
    run n first k i len c = .ok (l, c') →
      l.length = k ∧ c'.steps = c.steps + k ∧ c'.alloc ≤ c.alloc + (len + k - n) ∧
      (len + k ≤ n → c'.alloc = c.alloc)
  | 0, _, _, c, l, c', h => by
    unfold run at h
    cases h
    simp
  | k+1, i, len, c, l, c', h => by
    unfold run at h
    split at h
    · cases h
    · obtain ⟨⟨l1, c1⟩, h1, h⟩ := bind_eq_ok h
      have ih := run_ok n first k (i + 1) (len + 1) _ l1 c1 h1
      cases h
      by_cases hl : len ≥ n
      · rw [if_pos hl] at ih
        simp only [List.length_cons, Cost.tick, Cost.mem] at ih ⊢
        omega
      · rw [if_neg hl] at ih
        simp only [List.length_cons, Cost.tick] at ih ⊢
        omega

theorem run_err {n first k i len : Nat} {c : Cost} {e : String} :
    run n first k i len c = .err e → e = "other" := by
  induction k generalizing i len c with
  | zero => intro h; unfold run at h; cases h
  | succ k ih =>
    intro h
    unfold run at h
    split at h
    · cases h; rfl
    · rcases bind_eq_err h with h | ⟨r, _, h⟩
      · exact ih h
      · cases h

/-- the cost of the range loops: two reads per range and one step per name; every range yields
at least one name -/
theorem ranges_ok (b : Bytes) (w n : Nat) : ∀ (fuel len pos : Nat) (c : Cost) (l : List Int)
    (pos' : Nat) (c' : Cost), ranges b w n fuel len pos c = .ok ((l, pos'), c') →
      c'.steps ≤ c.steps + 3 * l.length ∧ (len ≤ n → c'.alloc ≤ c.alloc + (len + l.length - n)) ∧
      (n ≤ len → c'.alloc ≤ c.alloc + l.length) ∧
      (len + l.length ≤ n → c'.alloc = c.alloc) ∧ n ≤ len + l.length
  | 0, len, pos, c, l, pos', c', h => by
    unfold ranges at h
    split at h
    · cases h
    · rename_i hlt
      cases h
      simp only [List.length_nil]
      omega
  | fuel+1, len, pos, c, l, pos', c', h => by
    unfold ranges at h
    split at h
    · obtain ⟨first, _, h⟩ := bind_eq_ok h
      obtain ⟨nLeft, _, h⟩ := bind_eq_ok h
      obtain ⟨⟨l1, c1⟩, h1, h⟩ := bind_eq_ok h
      obtain ⟨⟨⟨l2, p2⟩, c2⟩, h2, h⟩ := bind_eq_ok h
      cases h
      have hr := run_ok n first (nLeft + 1) 0 len _ l1 c1 h1
      have ih := ranges_ok b w n fuel _ _ c1 l2 pos' c' h2
      simp only [List.length_append, Cost.tick] at hr ih ⊢
      omega
    · rename_i hlt
      cases h
      simp only [List.length_nil]
      omega

/-- the fuel of the range loop is never exhausted -/
theorem ranges_fuel (b : Bytes) (w n : Nat) : ∀ (fuel len pos : Nat) (c : Cost) (e : String),
    n ≤ len + fuel → ranges b w n fuel len pos c = .err e → e ≠ "fuel"
  | 0, len, pos, c, e, hf, h => by
    unfold ranges at h
    rw [if_neg (by omega)] at h
    cases h
  | fuel+1, len, pos, c, e, hf, h => by
    unfold ranges at h
    split at h
    · rcases bind_eq_err h with h | ⟨first, _, h⟩
      · rw [u16_err h]; decide
      rcases bind_eq_err h with h | ⟨nLeft, _, h⟩
      · split at h
        · rw [u8_err h]; decide
        · rw [u16_err h]; decide
      rcases bind_eq_err h with h | ⟨⟨l1, c1⟩, _, h⟩
      · rw [run_err h]; decide
      rcases bind_eq_err h with h | ⟨r2, _, h⟩
      · exact ranges_fuel b w n fuel _ _ _ e (by omega) h
      · cases h
    · cases h

/-- cost of `readCharset`: at most 3 steps per glyph (format 0: one read per glyph; formats 1/2:
two reads per range and one step per name, every range has ≥ 1 name) and exactly `nGlyphs`
allocated elements.  NOT bounded by the input length: a 5-byte format-2 table describes 65534
names (`readCharset_cost_witness`); bounded by the caller's `nGlyphs < 65536`. -/
theorem readCharset_cost (b : Bytes) (nGlyphs : Int) (l : List Int) (pos : Nat) (c : Cost)
    (h : readCharset b nGlyphs = .ok ((l, pos), c)) :
    1 ≤ nGlyphs ∧ nGlyphs < 65536 ∧ l.length = nGlyphs.toNat ∧
    c.steps ≤ 3 * nGlyphs.toNat ∧ c.alloc = nGlyphs.toNat ∧ c.steps ≤ 196605 := by
  unfold readCharset at h
  split at h
  · cases h
  · rename_i hn
    dsimp only at h
    obtain ⟨format, _, h⟩ := bind_eq_ok h
    rw [Gdef.mkSlice_ok _ _ _ (by omega), ok_bind] at h
    split at h
    · obtain ⟨⟨l1, c1⟩, h1, h⟩ := bind_eq_ok h
      cases h
      have := names0_ok b _ _ _ l1 c1 h1
      simp only [List.length_cons, Cost.tick, Cost.mem, Cost.zero] at this ⊢
      omega
    · split at h
      · obtain ⟨⟨⟨l1, p1⟩, c1⟩, h1, h⟩ := bind_eq_ok h
        dsimp only at h
        split at h
        · cases h
        · rename_i hlen
          cases h
          have := ranges_ok b _ _ _ _ _ _ l1 pos c h1
          simp only [List.length_cons, Cost.tick, Cost.mem, Cost.zero] at this ⊢
          omega
      · cases h

/-- `readCharset` returns an error of the model's artificial class "fuel" on no input -/
theorem readCharset_no_fuel (b : Bytes) (nGlyphs : Int) : readCharset b nGlyphs ≠ .err "fuel" := by
  intro h
  unfold readCharset at h
  split at h
  · exact err_ne (by decide) h
  · rename_i hn
    dsimp only at h
    rcases bind_eq_err h with h | ⟨format, _, h⟩
    · exact absurd (u8_err h) (by decide)
    rw [Gdef.mkSlice_ok _ _ _ (by omega), ok_bind] at h
    split at h
    · rcases bind_eq_err h with h | ⟨r, _, h⟩
      · -- names0 errors are "eof"
        have : ∀ (k pos : Nat) (c : Cost) (e : String), names0 b k pos c = .err e → e = "eof" := by
          intro k
          induction k with
          | zero => intro pos c e h; unfold names0 at h; cases h
          | succ k ih =>
            intro pos c e h
            unfold names0 at h
            rcases bind_eq_err h with h | ⟨xi, _, h⟩
            · exact u16_err h
            rcases bind_eq_err h with h | ⟨r, _, h⟩
            · exact ih _ _ _ h
            · cases h
        exact absurd (this _ _ _ _ h) (by decide)
      · cases h
    · split at h
      · rcases bind_eq_err h with h | ⟨⟨⟨l1, p1⟩, c1⟩, _, h⟩
        · exact ranges_fuel b _ _ _ _ _ _ _ (by omega) h rfl
        · dsimp only at h
          split at h
          · exact err_ne (by decide) h
          · cases h
      · exact err_ne (by decide) h

end SfntV.Total.CffSets
