/-
C02, group `gpossub`: non-vacuity examples (a concrete valid input per modelled function decodes
to `.ok`) and the evaluated aliasing family of `readGpos2_1`.
-/
import SfntV.Proofs.TotalGposSub51

namespace SfntV.Total.GposSub
open SfntV SfntV.Total SfntV.Total.Otl

/-! ## non-vacuity -/

/-- GPOS 1.1: value format 5 (XPlacement 100, XAdvance −10), coverage {3, 5} -/
example : read11 [0,1, 0,10, 0,5, 0,100, 0xff,0xf6, 0,1, 0,2, 0,3, 0,5] 0 =
    .ok (([(3, 0), (5, 1)], some [100, 0, 65526, 0, 0, 0, 0, 0]), ⟨7, 5⟩) := by decide +kernel

/-- GPOS 1.2: two records for a coverage of three glyphs: the coverage is pruned to two -/
example : read12 [0,2, 0,12, 0,4, 0,2, 0,100, 0,101, 0,1, 0,3, 0,3, 0,5, 0,9] 0 =
    .ok (([(3, 0), (5, 1)], [some [0, 0, 100, 0, 0, 0, 0, 0], some [0, 0, 101, 0, 0, 0, 0, 0]]),
      ⟨13, 9⟩) := by decide +kernel

/-- GPOS 2.1: two pair-set offsets pointing at ONE pair set (both visits are charged) -/
example : costOf (read21 ([0,1, 0,14, 0,4, 0,4, 0,2, 0,22, 0,22, 0,1, 0,2, 0,3, 0,5] ++
      [0,2, 0,20, 0,1, 0,2, 0,21, 0,3, 0xff,0xfc]) 0) = some ⟨33, 28⟩ := by decide +kernel

/-- GPOS 2.2: 2 × 2 classes -/
example : costOf (read22 ([0,2, 0,24, 0,4, 0,0, 0,32, 0,32, 0,2, 0,2, 0,1, 0,2, 0,3, 0,4] ++
      [0,1, 0,2, 0,3, 0,4, 0,1, 0,3, 0,2, 0,1, 0,1]) 0) = some ⟨23, 22⟩ := by decide +kernel

/-- GPOS 3.1: two records, anchors of formats 1 and 2, one offset 0, one anchor used twice -/
example : read31 ([0,1, 0,28, 0,2, 0,14, 0,0, 0,14, 0,20, 0,1, 0,10, 0,20] ++
      [0,2, 0,30, 0,40, 0,5, 0,1, 0,2, 0,3, 0,5]) 0 =
    .ok (([(3, 0), (5, 1)], [((10, 20), (0, 0)), ((10, 20), (30, 40))]), ⟨14, 10⟩) := by decide +kernel

example : anchorRead [0,1, 0,10, 0xff,0xec] 0 = .ok ((10, 65516), ⟨1, 0⟩) := by decide +kernel

/-- mark array: two marks (classes 0 and 5) sharing one anchor -/
example : markarrayRead [0,2, 0,0, 0,10, 0,5, 0,10, 0,1, 0,10, 0,20] 0 5 =
    .ok ([(0, 10, 20), (5, 10, 20)], ⟨11, 4⟩) := by decide +kernel

/-- the dispatcher: lookup type 1, format 1 -/
example : (readSubtable [0,1, 0,10, 0,5, 0,100, 0xff,0xf6, 0,1, 0,2, 0,3, 0,5] 0 1).isOk = true := by
  decide +kernel

/-- error class of an outcome ("" when it is not an error) -/
def errOf : Outcome α → String
  | .err e => e
  | _ => ""

/-- FINDING (repaired in /repo 8867078): before the repair the key `10*type+format` wrapped in uint16
— lookup type 3 with format 65517 was read by `readGpos1_1`, lookup type 1 with format 11 (the bytes
of a 2.1 header) reached `readGpos2_1`; the repaired dispatcher rejects both -/
example : (readSubtableOld [0xff,0xed, 0,10, 0,5, 0,100, 0xff,0xf6, 0,1, 0,2, 0,3, 0,5] 0 3).isOk = true ∧
    errOf (readSubtable [0xff,0xed, 0,10, 0,5, 0,100, 0xff,0xf6, 0,1, 0,2, 0,3, 0,5] 0 3) = "invalid" := by
  decide +kernel

example : (readSubtableOld [0,11, 0,10, 0,0, 0,0, 0,0, 0,1, 0,0] 0 1).isOk = true ∧
    errOf (readSubtable [0,11, 0,10, 0,0, 0,0, 0,0, 0,1, 0,0] 0 1) = "invalid" := by
  decide +kernel

/-! ## GPOS 5.1 -/

/-- GPOS 5.1: one mark (class 0), one ligature with two components and one mark class; the second
component has no anchor (offset 0) -/
def ex51 : Bytes := [0,1, 0,12, 0,18, 0,1, 0,24, 0,36] ++ [0,1, 0,1, 0,5] ++ [0,1, 0,1, 0,100] ++
  [0,1, 0,0, 0,6, 0,1, 0,7, 0,8] ++ [0,1, 0,4, 0,2, 0,6, 0,0, 0,1, 0,9, 0,10]

example : costOf (read51 ex51 0) = some ⟨25, 15⟩ := by decide +kernel
example : (readSubtable ex51 0 5).isOk = true := by decide +kernel

/-- the site of a panic ("" when the outcome is not a panic) -/
def panicSite : Outcome α → String
  | .panic s => s
  | _ => ""

/-- a 40-byte GPOS 5.1 subtable with markClassCount = 2 > ligCount = 1 whose LigatureAttach offset
is 0 (so `offsets[0] = 0` is skipped and `offsets[1]` is evaluated) -/
def ex51old : Bytes := [0,1, 0,12, 0,18, 0,2, 0,24, 0,36] ++ [0,1, 0,1, 0,5] ++ [0,1, 0,1, 0,100] ++
  [0,1, 0,0, 0,6, 0,1, 0,7, 0,8] ++ [0,1, 0,0]

/-- FINDING (repaired in /repo 33f30d8): the code before the repair indexed the LigatureArray's
per-ligature `offsets` (length ligCount) with the mark class: index out of range at
gpos5.go:109 `offsets[j]`.  The repaired reader answers with an error (the two anchor offsets of
the component record are not there). -/
theorem read51Old_panics :
    ex51old.length = 40 ∧ panicSite (read51Old ex51old 0) = "gpos5.go:109#offsets[j]" ∧
      errOf (read51 ex51old 0) = "io" := by decide +kernel

/-! ## the aliasing family of GPOS 2.1

`aliased K`: `K` pair-set offsets all pointing at ONE pair set of `K` records (value formats 0), the
coverage a single range of `K` glyphs: `4·K + 22` bytes.  Every offset is followed, so the reader
executes `3·K² + 5·K + 4` steps and allocates `3·K² + 3·K + 2` elements (evaluated below for
`K = 8, 16, 32`; `#eval` gives 3005004 steps for `K = 1000`, a 4022-byte input): doubling the input quadruples the
cost. -/

def be16' (n : Nat) : Bytes := [UInt8.ofNat (n / 256), UInt8.ofNat (n % 256)]

def aliased (K : Nat) : Bytes :=
  [0,1] ++ be16' (10 + 2 * K) ++ [0,0, 0,0] ++ be16' K ++
  (List.replicate K (be16' (20 + 2 * K))).flatten ++
  [0,2, 0,1, 0,0] ++ be16' (K - 1) ++ [0,0] ++
  be16' K ++ ((List.range K).map be16').flatten

example : (aliased 8).length = 54 ∧ costOf (read21 (aliased 8) 0) = some ⟨236, 218⟩ := by decide +kernel
example : (aliased 16).length = 86 ∧ costOf (read21 (aliased 16) 0) = some ⟨852, 818⟩ := by decide +kernel
example : (aliased 32).length = 150 ∧ costOf (read21 (aliased 32) 0) = some ⟨3236, 3170⟩ := by decide +kernel

end SfntV.Total.GposSub
