import SfntV.Proofs.DslChainLook
import SfntV.Proofs.DslGsub1
/-! C19: the round trips of the contextual forms and of descriptions mixing all lookup types. -/
set_option linter.unusedSimpArgs false
set_option linter.unusedVariables false
namespace SfntV.Dsl

/-- GSUB lookups of any type 1–6 -/
def GsubAllOk (f : Font) (l : Lookup) : Prop := Gsub14Ok f l ∨ LookupCtxOk f 5 l ∨ LookupChainOk f 6 l

/-- descriptions mixing GSUB lookups of all types -/
theorem roundtrip_gsub_all (f : Font) (hf : FontOk f) (ls : List Lookup)
    (h : ∀ l ∈ ls, GsubAllOk f l) : parseBytes f (explainGsub f ls) = .ok (normalize ls) := by
  have hne : ∀ l ∈ ls, l.subtables ≠ [] := by
    intro l hl
    rcases h l hl with (h1 | h2) | h5 | h6
    · exact h1.ne
    · exact gsubLookOk_ne f l h2
    · exact h5.ne
    · exact h6.ne
  refine roundtrip_of_items f ls hne ?_
  intro l hl
  have hb : tokCount (bodyP f l) + 5 ≤ tokCount (gsubText f ls) + 3 := by
    have := tokCount_flatMap_mem (fun l => tk tIdentifier ([71, 83, 85, 66] ++ decimal l.typ) :: (bodyP f l ++ [eolP])) ls l hl
    simp only [gsubText]
    simp [tokCount_append, tokCount, tk, eolP] at this ⊢
    omega
  rcases h l hl with (h1 | h2 | h3 | h4) | h5 | h6
  · exact item_of_form f 1 _ _ _ (form1 f hf) l h1.typ h1.flags h1.ne h1.subs _ hb
  · exact item_of_form f 2 _ _ _ (form2 f hf) l h2.typ h2.flags h2.ne h2.subs _ hb
  · exact item_of_form f 3 _ _ _ (form3 f hf) l h3.typ h3.flags h3.ne h3.subs _ hb
  · exact item_of_form f 4 _ _ _ (form4 f hf) l h4.typ h4.flags h4.ne h4.subs _ hb
  · exact item_gsub5 f hf l h5 _ (by omega)
  · exact item_gsub6 f hf l h6 _ (by omega)

theorem roundtrip_gsub5 (f : Font) (hf : FontOk f) (ls : List Lookup)
    (h : ∀ l ∈ ls, LookupCtxOk f 5 l) : parseBytes f (explainGsub f ls) = .ok ls := by
  have := roundtrip_gsub_all f hf ls (fun l hl => Or.inr (Or.inl (h l hl)))
  have hn : normalize ls = ls := by
    unfold normalize
    rw [List.map_congr_left (g := id)]
    · simp
    · intro l hl
      have : l.subtables.map normSub = l.subtables := by
        rw [List.map_congr_left (g := id)]
        · simp
        · intro st hst; exact (ctx_first f st ((h l hl).subs st hst)).2
      simp [this]
  rw [hn] at this; exact this

theorem roundtrip_gsub6 (f : Font) (hf : FontOk f) (ls : List Lookup)
    (h : ∀ l ∈ ls, LookupChainOk f 6 l) : parseBytes f (explainGsub f ls) = .ok ls := by
  have := roundtrip_gsub_all f hf ls (fun l hl => Or.inr (Or.inr (h l hl)))
  have hn : normalize ls = ls := by
    unfold normalize
    rw [List.map_congr_left (g := id)]
    · simp
    · intro l hl
      have : l.subtables.map normSub = l.subtables := by
        rw [List.map_congr_left (g := id)]
        · simp
        · intro st hst; exact (chain_first f st ((h l hl).subs st hst)).2
      simp [this]
  rw [hn] at this; exact this

/-- GPOS lookups of any type 1–4, 7, 8 -/
def GposAllOk (f : Font) (l : Lookup) : Prop := GposLook4Ok f l ∨ LookupCtxOk f 7 l ∨ LookupChainOk f 8 l

/-- descriptions mixing GPOS lookups of all types -/
theorem roundtrip_gpos_all (f : Font) (hf : FontOk f) (ls : List Lookup)
    (h : ∀ l ∈ ls, GposAllOk f l) : parseBytes f (explainGpos f ls) = .ok (normalize ls) := by
  refine roundtrip_pos2_of_items f ls (fun l hl => by
    rcases h l hl with (h1 | h2 | h3 | h4) | h7 | h8
    · exact h1.ne
    · exact h2.ne
    · exact h3.ne
    · exact h4.ne
    · exact h7.ne
    · exact h8.ne) ?_
  intro l hl
  have hb := body_le_posText f ls l hl
  rcases h l hl with (h1 | h2 | h3 | h4) | h7 | h8
  · obtain ⟨hc, hfr⟩ := body_of_form4 f 1 (readGpos1 f) (gpos1Sub f) (Gpos1Sub f) (gpos1_form f hf)
      (fun _ => rfl) l h1.typ h1.flags h1.ne h1.subs (tokCount (posText f ls) + 3) (by omega)
    exact ⟨readGpos1 f _, by rw [h1.typ]; exact pos_kw_ok 1 (by decide), by rw [h1.typ]; exact gpos1_dispatch f _, hc, Or.inl hfr⟩
  · exact item2_of_p2 f hf l h2 _ (by omega)
  · obtain ⟨hc, hfr⟩ := body3 f hf l h3 (tokCount (posText f ls) + 3) (by omega)
    exact ⟨readGpos3 f _, by rw [h3.typ]; exact pos_kw_ok 3 (by decide), by rw [h3.typ]; exact gpos3_dispatch f _, hc, Or.inl hfr⟩
  · exact item4_of_p4 f hf l h4 _ (by omega)
  · exact item_gpos7 f hf l h7 _ (by omega)
  · exact item_gpos8 f hf l h8 _ (by omega)

theorem roundtrip_gpos7 (f : Font) (hf : FontOk f) (ls : List Lookup)
    (h : ∀ l ∈ ls, LookupCtxOk f 7 l) : parseBytes f (explainGpos f ls) = .ok ls := by
  have := roundtrip_gpos_all f hf ls (fun l hl => Or.inr (Or.inl (h l hl)))
  have hn : normalize ls = ls := by
    unfold normalize
    rw [List.map_congr_left (g := id)]
    · simp
    · intro l hl
      have : l.subtables.map normSub = l.subtables := by
        rw [List.map_congr_left (g := id)]
        · simp
        · intro st hst; exact (ctx_first f st ((h l hl).subs st hst)).2
      simp [this]
  rw [hn] at this; exact this

theorem roundtrip_gpos8 (f : Font) (hf : FontOk f) (ls : List Lookup)
    (h : ∀ l ∈ ls, LookupChainOk f 8 l) : parseBytes f (explainGpos f ls) = .ok ls := by
  have := roundtrip_gpos_all f hf ls (fun l hl => Or.inr (Or.inr (h l hl)))
  have hn : normalize ls = ls := by
    unfold normalize
    rw [List.map_congr_left (g := id)]
    · simp
    · intro l hl
      have : l.subtables.map normSub = l.subtables := by
        rw [List.map_congr_left (g := id)]
        · simp
        · intro st hst; exact (chain_first f st ((h l hl).subs st hst)).2
      simp [this]
  rw [hn] at this; exact this

end SfntV.Dsl
