/-
C06, contextual lookups with pointwise nested lookups: definitions shared by the proofs.
-/
import SfntV.Proofs.ShapeSpecSimple

namespace SfntV.C06
open SfntV
open SfntV.Shape (Glyph Gdef Lookup LookupList Subtable Action)
open SfntV.Spec.Shape (TG gl)

/-- subtables that only rewrite the glyph they are applied to (the sequence keeps its length,
no other glyph changes, no nested lookups): single and alternate substitution, reverse chaining
substitution, single adjustment, mark-to-base and mark-to-mark attachment -/
def pointwise : Subtable → Bool
  | .gsub11 _ _ | .gsub12 _ _ | .gsub31 _ _ | .gsub81 _ _ _ _
  | .gpos11 _ _ | .gpos12 _ _ | .gpos41 _ _ _ _ _ | .gpos61 _ _ _ _ => true
  | _ => false

def pointwiseLookup (lk : Lookup) : Bool := lk.subtables.all pointwise

/-- the lookup an action names, if it exists, is pointwise -/
def actPointwise (ll : LookupList) (act : Action) : Bool :=
  match ll[act.lookup]? with
  | some lk => pointwiseLookup lk
  | none => true

/-- every nested lookup of every contextual subtable of the list is pointwise -/
def nestedPointwiseLL (ll : LookupList) : Bool :=
  ll.all fun lk => lk.subtables.all fun s => s.actions.all (actPointwise ll)

/-- a glyph without tags (the state of every glyph between two top-level applications) -/
def Clean (t : TG) : Prop := t.inp = [] ∧ t.win = []

def AllClean (ts : List TG) : Prop := ∀ t ∈ ts, Clean t

end SfntV.C06
