/-
Lemmas for property C18: `header.Read` against sources that show only the first `k` bytes
of a file (truncation, failing reader).
-/
import SfntV.Model.Faults
import SfntV.Proofs.Header

namespace SfntV.Faults
open SfntV SfntV.Header

/-- `ra` delivers nothing beyond the first `k` bytes of `f`, and what it delivers are bytes of `f` -/
def Limited (f : Bytes) (k : Nat) (ra : ReaderAt) : Prop :=
  ∀ off n b, ra off n = .ok b → off + n ≤ k ∧ off + n ≤ f.length ∧ b = (f.drop off).take n

theorem memReader_ok {f : Bytes} {off n : Nat} {b : Bytes} (h : memReader f off n = .ok b) :
    off + n ≤ f.length ∧ b = (f.drop off).take n := by
  simp only [memReader] at h
  split at h
  · rename_i hc
    injection h with h
    exact ⟨hc.2, h.symm⟩
  · cases h

theorem limited_trunc (f : Bytes) (k : Nat) : Limited f k (memReader (f.take k)) := by
  intro off n b h
  obtain ⟨h1, h2⟩ := memReader_ok h
  rw [List.length_take] at h1
  refine ⟨by omega, by omega, ?_⟩
  rw [h2, List.drop_take, List.take_take]
  congr 1
  omega

theorem limited_fault (f : Bytes) (k : Nat) : Limited f k (faultReader f k) := by
  intro off n b h
  simp only [faultReader] at h
  split at h
  · cases h
  · obtain ⟨h1, h2⟩ := memReader_ok h
    exact ⟨by omega, h1, h2⟩

/-- the directory as `header.Read` decodes it from the bytes of `f` -/
def dirFrom (f : Bytes) (i cnt : Nat) : List TocRec :=
  (List.range' i cnt).map fun j => decodeRec ((f.drop (12 + 16 * j)).take 16)

theorem dirFrom_succ (f : Bytes) (i cnt : Nat) :
    dirFrom f i (cnt + 1) = decodeRec ((f.drop (12 + 16 * i)).take 16) :: dirFrom f (i + 1) cnt := by
  simp [dirFrom, List.range'_succ]

theorem length_dirFrom (f : Bytes) (i cnt : Nat) : (dirFrom f i cnt).length = cnt := by
  simp [dirFrom]

theorem readDir_limited {f : Bytes} {k : Nat} {ra : ReaderAt} (hl : Limited f k ra) :
    ∀ (fuel i : Nat) (acc recs : List TocRec), readDir ra i fuel acc = .ok recs →
      recs = acc.reverse ++ dirFrom f i fuel ∧ (fuel ≠ 0 → 12 + 16 * (i + fuel) ≤ k) := by
  intro fuel
  induction fuel with
  | zero =>
    intro i acc recs h
    simp only [readDir] at h
    injection h with h
    exact ⟨by simp [dirFrom, h], fun h => absurd rfl h⟩
  | succ fuel ih =>
    intro i acc recs h
    unfold readDir at h
    cases hra : ra (12 + 16 * i) 16 with
    | eof => rw [hra] at h; cases h
    | fault => rw [hra] at h; cases h
    | ok e =>
      rw [hra] at h
      simp only at h
      obtain ⟨hk, _, he⟩ := hl _ _ _ hra
      split at h
      · cases h
      · split at h
        · cases h
        · obtain ⟨h1, h2⟩ := ih (i + 1) _ recs h
          refine ⟨?_, fun _ => ?_⟩
          · rw [h1, dirFrom_succ, he]
            simp
          · by_cases h0 : fuel = 0
            · subst h0; omega
            · have := h2 h0; omega

/-- consecutive allocations do not overlap and none wraps: the last one ends last -/
theorem ends_le_last : ∀ (l : List (Nat × Nat)), overlapping l = false → (∀ a ∈ l, a.1 ≤ a.2) →
    ∀ last, l.getLast? = some last → ∀ a ∈ l, a.2 ≤ last.2
  | [], _, _, _, _, a, ha => by cases ha
  | [x], _, _, last, hl, a, ha => by
    simp only [List.getLast?_singleton, Option.some.injEq] at hl
    simp only [List.mem_singleton] at ha
    subst hl; subst ha; exact Nat.le_refl _
  | x :: y :: r, ho, hw, last, hl, a, ha => by
    simp only [overlapping, Bool.or_eq_false_iff, decide_eq_false_iff_not] at ho
    have hl' : (y :: r).getLast? = some last := by
      rw [List.getLast?_cons_cons] at hl; exact hl
    have ih := ends_le_last (y :: r) ho.2 (fun a ha => hw a (List.mem_cons_of_mem _ ha)) last hl'
    rcases List.mem_cons.mp ha with rfl | ha'
    · have hy := ih y List.mem_cons_self
      have := hw y (List.mem_cons_of_mem _ List.mem_cons_self)
      omega
    · exact ih a ha'

theorem rd16_take6 (f : Bytes) : beVal ((((f.drop 0).take 6).drop 4).take 2) = rd16 f 4 := by
  simp only [rd16, List.drop_zero, List.drop_take, List.take_take]
  rfl

/-- what an accepting run of `header.Read` on a limited view of `f` implies -/
theorem readR_limited {f : Bytes} {k : Nat} {ra : ReaderAt} (hl : Limited f k ra) {m sc : Nat}
    {recs : List TocRec} (h : readR m ra = .ok (sc, recs)) :
    recs = dirFrom f 0 (rd16 f 4) ∧
    ∃ last, (coverage recs).getLast? = some last ∧ overlapping (coverage recs) = false ∧
      last.2 ≤ k ∧ last.2 ≤ f.length := by
  unfold readR readRG at h
  cases h0 : ra 0 6 with
  | eof => rw [h0] at h; cases h
  | fault => rw [h0] at h; cases h
  | ok b =>
    rw [h0] at h
    simp only at h
    obtain ⟨_, _, hb⟩ := hl _ _ _ h0
    split at h
    · cases h
    · split at h
      · cases h
      · cases hd : readDir ra 0 (beVal ((b.drop 4).take 2)) [] with
        | err e => rw [hd] at h; cases h
        | panic p => rw [hd] at h; cases h
        | ok rs =>
          rw [hd] at h
          simp only at h
          have hrs := (readDir_limited hl _ _ _ _ hd).1
          rw [hb, rd16_take6] at hrs
          simp only [List.reverse_nil, List.nil_append] at hrs
          split at h
          · rename_i first last hf hlast
            split at h
            · cases h
            · split at h
              · cases h
              · rename_i hov
                split at h
                · cases h
                · rename_i hz
                  cases hx : ra (last.2 - 1) 1 with
                  | eof => rw [hx] at h; cases h
                  | fault => rw [hx] at h; cases h
                  | ok x =>
                    rw [hx] at h
                    simp only at h
                    injection h with h
                    injection h with h1 h2
                    subst h2
                    obtain ⟨hk, hlen, _⟩ := hl _ _ _ hx
                    refine ⟨hrs, last, hlast, by simpa using hov, by omega, by omega⟩
          · cases h

/-- A limited view that hides part of a table is rejected: if some directory entry of `f`
ends beyond `k` (and no entry wraps around 2^32), `header.Read` does not succeed. -/
theorem limited_reject {f : Bytes} {k : Nat} {ra : ReaderAt} (hl : Limited f k ra)
    (hnw : ∀ r ∈ dirFrom f 0 (rd16 f 4), r.2.1 + r.2.2 < 4294967296)
    (r : TocRec) (hr : r ∈ dirFrom f 0 (rd16 f 4)) (hk : k < r.2.1 + r.2.2) (m : Nat) :
    (readR m ra).isOk = false := by
  cases h : readR m ra with
  | err e => rfl
  | panic p => rfl
  | ok v =>
    obtain ⟨sc, recs⟩ := v
    obtain ⟨hrecs, last, hlast, hov, hlk, _⟩ := readR_limited hl h
    subst hrecs
    have hmem : (r.2.1, (r.2.1 + r.2.2) % 4294967296) ∈ coverage (dirFrom f 0 (rd16 f 4)) := by
      simp only [coverage, List.mem_mergeSort]
      exact List.mem_map.mpr ⟨r, hr, rfl⟩
    have hw : ∀ a ∈ coverage (dirFrom f 0 (rd16 f 4)), a.1 ≤ a.2 := by
      intro a ha
      simp only [coverage, List.mem_mergeSort] at ha
      obtain ⟨q, hq, rfl⟩ := List.mem_map.mp ha
      have := hnw q hq
      simp only
      rw [Nat.mod_eq_of_lt this]
      omega
    have := ends_le_last _ hov hw last hlast _ hmem
    simp only at this
    rw [Nat.mod_eq_of_lt (hnw r hr)] at this
    omega

/-! ## the directory of a written file -/

theorem decodeRec_entAt (f : Bytes) (o : Nat) :
    decodeRec ((f.drop o).take 16) = ((entAt f o).tag, (entAt f o).off, (entAt f o).len) := by
  simp only [decodeRec, entAt, rd32, List.take_take, List.drop_take, List.drop_drop]
  rfl

theorem dirFrom_specDir (f : Bytes) :
    dirFrom f 0 (rd16 f 4) = (specDir f).map fun e => (e.tag, e.off, e.len) := by
  rw [specDir_eq, dirFrom, List.map_map, List.range_eq_range']
  apply List.map_congr_left
  intro j _
  exact decodeRec_entAt f _

/-- every table record of a laid-out file is a directory entry that `header.Read` decodes,
it does not wrap, and it lies inside the file -/
theorem layout_dirFrom_file {l0 : List (Bytes × Bytes)} {g : Bytes → Bytes} (L : Layout l0 g) (sc : Nat) :
    (∀ r ∈ recsOf l0, (r.tag, r.off, r.len) ∈ dirFrom (fileOf sc l0 g) 0 (rd16 (fileOf sc l0 g) 4)) ∧
    (∀ q ∈ dirFrom (fileOf sc l0 g) 0 (rd16 (fileOf sc l0 g) 4), q.2.1 + q.2.2 < 4294967296) := by
  rw [dirFrom_specDir, L.specDir_file sc, List.map_map]
  constructor
  · intro r hr
    exact List.mem_map.mpr ⟨r, (mem_dirOf l0 r).mpr hr, rfl⟩
  · intro q hq
    obtain ⟨r, hr, rfl⟩ := List.mem_map.mp hq
    rw [mem_dirOf] at hr
    have hb := mkRecs_bounds _ _ r hr
    have hs := L.size
    simp only [fileSize] at hs
    simp only [padSum] at hb
    simp only [Function.comp, toDir]
    omega

/-- offsets and lengths of the tables, from the length of the header and of the bodies in the
order they are written: each body starts where the previous one, padded to a multiple of 4, ends -/
def spans : Nat → List Nat → List (Nat × Nat)
  | _, [] => []
  | o, l :: r => (o, l) :: spans (o + 4 * ((l + 3) / 4)) r

def tableSpans (w : Written) : List (Nat × Nat) := spans w.header.length (w.bodies.map (·.2.length))

theorem mkRecs_spans (o : Nat) (l : List (Bytes × Bytes)) :
    (mkRecs o l).map (fun r => (r.off, r.len)) = spans o (l.map (·.2.length)) := by
  induction l generalizing o with
  | nil => rfl
  | cons t l ih => simp only [mkRecs, List.map_cons, spans, ih]

/-- the written file, whichever of the two ways `write` succeeded, is a laid-out file -/
theorem written_layout (sc : Nat) (ts : List Entry) (keys_nodup : (ts.map (·.name)).Nodup)
    (size_ok : fileSize (named ts) < 4294967296) (count_ok : (named ts).length < 4096)
    (w : Written) (hw : write sc ts = .ok w) :
    ∃ l0 g, Layout l0 g ∧ w.bytes = fileOf sc l0 g ∧ w.header.length = 12 + 16 * l0.length ∧
      w.bodies.map (·.2.length) = l0.map (·.2.length) := by
  obtain ⟨hne, ⟨d, hd, hlen, rfl⟩ | ⟨hno, rfl⟩⟩ := write_ok_cases sc ts w hw
  · have hl := heads_long ts keys_nodup d hd hlen
    have L := layout_head ts keys_nodup size_ok count_ok hne hl (adjOf sc (mapHead clearAdj (orderOf ts)))
    refine ⟨_, _, L, bytes_head _ _ _, L.length_header sc, ?_⟩
    simp only
    rw [mapHead_eq _ (mapHead clearAdj (orderOf ts)), List.map_map]
    apply List.map_congr_left
    intro t ht
    exact onHead_len _ _ L.flen t ht
  · have L := layout_noHead ts keys_nodup size_ok count_ok hne
    exact ⟨_, _, L, bytes_noHead sc _ hno, L.length_header sc, rfl⟩

/-- Truncation and failing sources for written files: a view limited to `k` bytes, where `k`
lies before the end of some table, is rejected by `header.Read`. -/
theorem written_reject (sc : Nat) (ts : List Entry) (keys_nodup : (ts.map (·.name)).Nodup)
    (size_ok : fileSize (named ts) < 4294967296) (count_ok : (named ts).length < 4096)
    (w : Written) (hw : write sc ts = .ok w) (k : Nat) (ra : ReaderAt) (hl : Limited w.bytes k ra)
    (sp : Nat × Nat) (hsp : sp ∈ tableSpans w) (hk : k < sp.1 + sp.2) (m : Nat) :
    (readR m ra).isOk = false := by
  obtain ⟨l0, g, L, hb, hh, hbl⟩ := written_layout sc ts keys_nodup size_ok count_ok w hw
  rw [hb] at hl
  have hd := layout_dirFrom_file L sc
  rw [tableSpans, hh, hbl, ← mkRecs_spans] at hsp
  obtain ⟨r, hr, rfl⟩ := List.mem_map.mp hsp
  exact limited_reject hl hd.2 (r.tag, r.off, r.len) (hd.1 r hr) hk m

theorem sfntRead_reject {decode : Nat × List TocRec → ReaderAt → Outcome α} {ra : ReaderAt}
    (h : (readR Gen.headerMaxTables ra).isOk = false) : (sfntRead decode ra).isOk = false := by
  unfold sfntRead
  cases hr : readR Gen.headerMaxTables ra with
  | ok v => rw [hr] at h; cases h
  | err e => rfl
  | panic p => rfl

end SfntV.Faults
