/-
Helper lemmas for C16 (footprint / interleaving model, Model/Conc.lean).
-/
import SfntV.Model.Conc

namespace SfntV.Conc

/-! ### stores -/

theorem Agree.refl (S : Loc → Bool) (σ : Store) : Agree S σ σ := fun _ _ => rfl

theorem Agree.symm {S : Loc → Bool} {σ σ' : Store} (h : Agree S σ σ') : Agree S σ' σ :=
  fun l hl => (h l hl).symm

theorem Agree.trans {S : Loc → Bool} {a b c : Store} (h₁ : Agree S a b) (h₂ : Agree S b c) :
    Agree S a c := fun l hl => (h₁ l hl).trans (h₂ l hl)

theorem applyWrites_of_not_mem (ws : List (Loc × Val)) (σ : Store) (l : Loc)
    (h : ∀ w ∈ ws, w.1 ≠ l) : applyWrites σ ws l = σ l := by
  induction ws generalizing σ with
  | nil => rfl
  | cons w ws ih =>
    obtain ⟨x, v⟩ := w
    have hx : x ≠ l := h (x, v) (List.mem_cons_self ..)
    have : applyWrites (update σ x v) ws l = update σ x v l :=
      ih (update σ x v) (fun w hw => h w (List.mem_cons_of_mem _ hw))
    simp only [applyWrites, this, update]
    rw [if_neg (fun e => hx e.symm)]

theorem applyWrites_agree (S : Loc → Bool) (ws : List (Loc × Val)) (σ : Store)
    (h : ∀ w ∈ ws, S w.1 = false) : Agree S (applyWrites σ ws) σ := by
  intro l hl
  apply applyWrites_of_not_mem
  intro w hw e
  have := h w hw
  rw [e, hl] at this
  exact Bool.noConfusion this

/-! ### one thread step -/

/-- the thread part of a step against the frozen initial store -/
def stepF (σ0 : Store) (t : Thread) : Thread := (stepT σ0 t).1

theorem stepT_confined (S : Loc → Bool) (σ σ0 : Store) (t : Thread)
    (ht : ThreadConfined S t) (ha : Agree S σ σ0) :
    (stepT σ t).1 = stepF σ0 t ∧ (∀ w ∈ (stepT σ t).2, S w.1 = false) ∧
    ThreadConfined S (stepT σ t).1 := by
  obtain ⟨prog, acc, outs⟩ := t
  cases prog with
  | nil => exact ⟨rfl, fun w hw => by simp [stepT] at hw, ht⟩
  | cons i p =>
    have hp : ThreadConfined S ⟨p, acc, outs⟩ → ∀ a o, ThreadConfined S ⟨p, a, o⟩ :=
      fun h _ _ => h
    have htail : ∀ a o, ThreadConfined S ⟨p, a, o⟩ :=
      fun a o j hj => ht j (List.mem_cons_of_mem _ hj)
    cases i with
    | ret => exact ⟨rfl, fun w hw => by simp [stepT] at hw, htail _ _⟩
    | atomic a =>
      have hc : Confined S a := ht (.atomic a) (List.mem_cons_self ..)
      refine ⟨?_, ?_, htail _ _⟩
      · simp only [stepF, stepT]
        rw [hc.2 acc σ σ0 ha]
      · intro w hw
        exact hc.1 acc _ w hw

/-! ### the frozen interleaving: every thread steps against the initial store -/

def stepAtF (σ0 : Store) (ts : List Thread) (i : Nat) : List Thread :=
  match ts[i]? with
  | none => ts
  | some t => ts.set i (stepF σ0 t)

def execF (σ0 : Store) : List Nat → List Thread → List Thread
  | [], ts => ts
  | i :: s, ts => execF σ0 s (stepAtF σ0 ts i)

theorem step_confined (S : Loc → Bool) (σ0 : Store) (c : Config) (i : Nat)
    (hc : ∀ t ∈ c.ts, ThreadConfined S t) (ha : Agree S c.σ σ0) :
    Agree S (step c i).σ σ0 ∧ (step c i).ts = stepAtF σ0 c.ts i ∧
    (∀ t ∈ (step c i).ts, ThreadConfined S t) := by
  unfold step stepAtF
  cases h : c.ts[i]? with
  | none => exact ⟨ha, rfl, hc⟩
  | some t =>
    have ht : ThreadConfined S t := hc t (List.mem_of_getElem? h)
    obtain ⟨h1, h2, h3⟩ := stepT_confined S c.σ σ0 t ht ha
    refine ⟨(applyWrites_agree S _ c.σ h2).trans ha, ?_, ?_⟩
    · simp only [h1]
    · intro u hu
      rcases List.mem_or_eq_of_mem_set hu with hu | hu
      · exact hc u hu
      · rw [hu]; exact h3

theorem exec_eq_frozen (S : Loc → Bool) (σ0 : Store) (s : List Nat) (c : Config)
    (hc : ∀ t ∈ c.ts, ThreadConfined S t) (ha : Agree S c.σ σ0) :
    Agree S (exec s c).σ σ0 ∧ (exec s c).ts = execF σ0 s c.ts := by
  induction s generalizing c with
  | nil => exact ⟨ha, rfl⟩
  | cons i s ih =>
    obtain ⟨h1, h2, h3⟩ := step_confined S σ0 c i hc ha
    have := ih (step c i) h3 h1
    simp only [exec, execF]
    rw [← h2]
    exact this

theorem iter_add (f : α → α) (n k : Nat) (a : α) : iter f (n + k) a = iter f k (iter f n a) := by
  induction n generalizing a with
  | zero => simp [iter]
  | succ n ih =>
    have : n + 1 + k = (n + k) + 1 := by omega
    rw [this]
    simp only [iter]
    exact ih (f a)

theorem iter_succ' (f : α → α) (n : Nat) (a : α) : iter f (n + 1) a = f (iter f n a) := by
  rw [iter_add f n 1 a]; rfl

/-- in the frozen interleaving thread `j` has simply taken as many steps as it was scheduled -/
theorem execF_get (σ0 : Store) (s : List Nat) (ts : List Thread) (j : Nat) :
    (execF σ0 s ts)[j]? = ts[j]?.map (iter (stepF σ0) (s.count j)) := by
  induction s generalizing ts with
  | nil => cases h : ts[j]? <;> simp [execF, iter, h]
  | cons i s ih =>
    simp only [execF]
    rw [ih]
    unfold stepAtF
    by_cases hij : i = j
    · subst hij
      cases h : ts[i]? with
      | none => simp [h]
      | some t =>
        have hlt : i < ts.length := by
          rcases Nat.lt_or_ge i ts.length with h' | h'
          · exact h'
          · rw [List.getElem?_eq_none h'] at h; cases h
        simp only [List.getElem?_set_self hlt, Option.map_some, List.count_cons_self]
        rfl
    · have hc : (i :: s).count j = s.count j := by
        rw [List.count_cons]; simp [hij]
      rw [hc]
      cases h : ts[i]? with
      | none => rfl
      | some t => simp only [List.getElem?_set_ne hij]

/-! ### finished threads -/

theorem stepF_done (σ0 : Store) (t : Thread) (h : t.prog = []) : stepF σ0 t = t := by
  obtain ⟨p, a, o⟩ := t
  simp only at h
  subst h
  rfl

theorem iter_done (σ0 : Store) (k : Nat) (t : Thread) (h : t.prog = []) :
    iter (stepF σ0) k t = t := by
  induction k with
  | zero => rfl
  | succ k ih => simp only [iter]; rw [stepF_done σ0 t h]; exact ih

/-- two finished runs of the same thread are the same -/
theorem iter_done_unique (σ0 : Store) (t : Thread) (n m : Nat)
    (hn : (iter (stepF σ0) n t).prog = []) (hm : (iter (stepF σ0) m t).prog = []) :
    iter (stepF σ0) n t = iter (stepF σ0) m t := by
  rcases Nat.le_total n m with h | h
  · obtain ⟨k, rfl⟩ := Nat.exists_eq_add_of_le h
    rw [iter_add, iter_done σ0 k _ hn]
  · obtain ⟨k, rfl⟩ := Nat.exists_eq_add_of_le h
    rw [iter_add, iter_done σ0 k _ hm]

/-! ### operations: results against the frozen store -/

/-- the result of an operation whose every read sees the initial store -/
def frozenAcc (σ0 : Store) (op : Op) (acc : Acc) : Acc :=
  op.foldl (fun acc a => (a.act acc (a.reads.map σ0)).1) acc

theorem iter_op (σ0 : Store) (op : Op) (rest : List Instr) (acc : Acc) (outs : List Acc) :
    iter (stepF σ0) op.length ⟨op.map Instr.atomic ++ rest, acc, outs⟩ =
      ⟨rest, frozenAcc σ0 op acc, outs⟩ := by
  induction op generalizing acc with
  | nil => rfl
  | cons a op ih =>
    simp only [List.length_cons, iter, List.map_cons, List.cons_append]
    have : stepF σ0 ⟨Instr.atomic a :: (op.map Instr.atomic ++ rest), acc, outs⟩ =
        ⟨op.map Instr.atomic ++ rest, (a.act acc (a.reads.map σ0)).1, outs⟩ := rfl
    rw [this, ih]
    rfl

theorem iter_compile (σ0 : Store) (ops : List Op) (outs : List Acc) :
    iter (stepF σ0) (compile ops).length ⟨compile ops, [], outs⟩ =
      ⟨[], [], outs ++ ops.map (fun op => frozenAcc σ0 op [])⟩ := by
  induction ops generalizing outs with
  | nil => simp [compile, iter]
  | cons op ops ih =>
    simp only [compile, List.length_append, List.length_map, List.length_cons]
    rw [iter_add, iter_op]
    have : (compile ops).length + 1 = 1 + (compile ops).length := by omega
    rw [this, iter_add]
    have h1 : iter (stepF σ0) 1 ⟨Instr.ret :: compile ops, frozenAcc σ0 op [], outs⟩ =
        ⟨compile ops, [], outs ++ [frozenAcc σ0 op []]⟩ := rfl
    rw [h1, ih]
    simp

/-- a confined operation run alone (with its own writes) returns the frozen result and leaves
the shared part of the store as it was -/
theorem runOp_confined (S : Loc → Bool) (σ0 : Store) (op : Op) (hop : OpConfined S op)
    (σ : Store) (acc : Acc) (ha : Agree S σ σ0) :
    Agree S (runOp σ op acc).1 σ0 ∧ (runOp σ op acc).2 = frozenAcc σ0 op acc := by
  induction op generalizing σ acc with
  | nil => exact ⟨ha, rfl⟩
  | cons a op ih =>
    have hc : Confined S a := hop a (List.mem_cons_self ..)
    have hrest : OpConfined S op := fun b hb => hop b (List.mem_cons_of_mem _ hb)
    have e := hc.2 acc σ σ0 ha
    have hw := applyWrites_agree S (a.act acc (a.reads.map σ)).2 σ (hc.1 acc _)
    simp only [runOp, frozenAcc, List.foldl_cons]
    rw [e]
    exact ih hrest (applyWrites σ (a.act acc (a.reads.map σ)).2) (a.act acc (a.reads.map σ0)).1
      (hw.trans ha)

theorem resultAlone_eq_frozen (S : Loc → Bool) (σ0 : Store) (op : Op) (hop : OpConfined S op) :
    resultAlone σ0 op = frozenAcc σ0 op [] :=
  (runOp_confined S σ0 op hop σ0 [] (Agree.refl S σ0)).2

theorem compile_confined (S : Loc → Bool) (ops : List Op) (h : ∀ op ∈ ops, OpConfined S op) :
    ThreadConfined S (Thread.ofOps ops) := by
  unfold Thread.ofOps ThreadConfined
  simp only
  induction ops with
  | nil => intro i hi; cases hi
  | cons op ops ih =>
    intro i hi
    simp only [compile, List.mem_append, List.mem_map, List.mem_cons] at hi
    rcases hi with ⟨a, ha, rfl⟩ | rfl | hi
    · exact h op (List.mem_cons_self ..) a ha
    · trivial
    · exact ih (fun o ho => h o (List.mem_cons_of_mem _ ho)) i hi

/-! ### complete schedules -/

theorem stepF_prog (σ0 : Store) (t : Thread) : (stepF σ0 t).prog = t.prog.drop 1 := by
  obtain ⟨p, a, o⟩ := t
  cases p with
  | nil => rfl
  | cons i p => cases i <;> rfl

theorem iter_prog (σ0 : Store) (n : Nat) (t : Thread) :
    (iter (stepF σ0) n t).prog = t.prog.drop n := by
  induction n generalizing t with
  | zero => simp [iter]
  | succ n ih =>
    simp only [iter]
    rw [ih, stepF_prog, List.drop_drop]
    congr 1; omega

/-- for confined threads, a schedule that gives every thread at least as many turns as it has
instructions runs everything to completion -/
theorem done_of_counts (S : Loc → Bool) (ts : List Thread) (hts : ∀ t ∈ ts, ThreadConfined S t)
    (σ0 : Store) (s : List Nat)
    (h : ∀ i t, ts[i]? = some t → t.prog.length ≤ s.count i) : (exec s ⟨σ0, ts⟩).done := by
  intro t' ht'
  obtain ⟨i, hi⟩ := List.getElem?_of_mem ht'
  have e := (exec_eq_frozen S σ0 s ⟨σ0, ts⟩ hts (Agree.refl S σ0)).2
  rw [e, execF_get] at hi
  cases hti : ts[i]? with
  | none => simp [hti] at hi
  | some t =>
    simp only [hti, Option.map_some, Option.some.injEq] at hi
    rw [← hi, iter_prog]
    exact List.drop_eq_nil_of_le (h i t hti)

end SfntV.Conc
