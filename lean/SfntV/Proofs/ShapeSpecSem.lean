/-
C06: semantic lemmas of the reference shaper (Spec/Shape.lean) — one per clause of the
property.  They are statements about the REFERENCE; `C06_engine_eq_spec_*` transfers them to
the engine model.
-/
import SfntV.Proofs.ShapeSpecBase

namespace SfntV.C06sem
open SfntV
open SfntV.Shape (Glyph Gdef Lookup LookupList Subtable ValueRec Anchor MarkRec Lig Cov)
open SfntV.Spec.Shape

/-! ### lookups run in lookup-list order -/

theorem runLookups_append (B : Nat) (ll : LookupList) (gd : Gdef) : ∀ (is js : List Nat) (ts : List TG),
    runLookups B ll gd (is ++ js) ts = runLookups B ll gd is ts >>= runLookups B ll gd js := by
  intro is
  induction is with
  | nil => intro js ts; simp [runLookups, bind, Except.bind, pure, Except.pure]
  | cons i is ih =>
    intro js ts
    simp only [List.cons_append, runLookups]
    cases hn : need ll[i]? "lookup index outside the lookup list" with
    | error e => simp [bind, Except.bind]
    | ok lk =>
      simp only [bind, Except.bind]
      cases hr : runLookup B ll gd lk ts with
      | error e => simp
      | ok ts' =>
        simp only
        have := ih js ts'
        simp only [bind, Except.bind] at this
        exact this

/-! ### the first subtable that applies is used -/

theorem firstHit_first (kp : Nat → Bool) (gd : Gdef) (pre : List TG) (cur : TG) (post : List TG) (lim : Nat) :
    ∀ (ss₁ : List Subtable) (s : Subtable) (ss₂ : List Subtable) (h : Hit),
    (∀ s' ∈ ss₁, matchSub kp gd pre cur post lim s' = .ok none) →
    matchSub kp gd pre cur post lim s = .ok (some h) →
    firstHit kp gd pre cur post lim (ss₁ ++ s :: ss₂) = .ok (some h) := by
  intro ss₁
  induction ss₁ with
  | nil =>
    intro s ss₂ h _ hs
    simp only [List.nil_append, firstHit, hs, bind, Except.bind, pure, Except.pure]
  | cons a ss₁ ih =>
    intro s ss₂ h hnone hs
    simp only [List.cons_append, firstHit, hnone a List.mem_cons_self, bind, Except.bind]
    exact ih s ss₂ h (fun s' hs' => hnone s' (List.mem_cons_of_mem _ hs')) hs

theorem firstHit_none (kp : Nat → Bool) (gd : Gdef) (pre : List TG) (cur : TG) (post : List TG) (lim : Nat) :
    ∀ (ss : List Subtable), (∀ s ∈ ss, matchSub kp gd pre cur post lim s = .ok none) →
    firstHit kp gd pre cur post lim ss = .ok none := by
  intro ss
  induction ss with
  | nil => intro _; rfl
  | cons a ss ih =>
    intro h
    simp only [firstHit, h a List.mem_cons_self, bind, Except.bind]
    exact ih (fun s hs => h s (List.mem_cons_of_mem _ hs))

/-! ### value records and anchors are applied exactly -/

theorem addValue_exact (v : ValueRec) (g g' : Glyph) (h : addValue (some v) g = .ok g') :
    g'.xoff = g.xoff + v.xPlacement ∧ g'.yoff = g.yoff + v.yPlacement ∧ g'.adv = g.adv + v.xAdvance
    ∧ g'.gid = g.gid ∧ g'.text = g.text := by
  unfold addValue at h
  simp only at h
  split at h
  · cases h
  · cases hx : fit16 (g.xoff + v.xPlacement) with
    | error e => rw [hx] at h; simp [bind, Except.bind] at h
    | ok x =>
      cases hy : fit16 (g.yoff + v.yPlacement) with
      | error e => rw [hx, hy] at h; simp [bind, Except.bind] at h
      | ok y =>
        cases ha : fit16 (g.adv + v.xAdvance) with
        | error e => rw [hx, hy, ha] at h; simp [bind, Except.bind] at h
        | ok a =>
          rw [hx, hy, ha] at h
          simp only [bind, Except.bind, pure, Except.pure] at h
          injection h with h; subst h
          exact ⟨(fit16_ok hx).1, (fit16_ok hy).1, (fit16_ok ha).1, rfl, rfl⟩

theorem addValue_none (g : Glyph) : addValue none g = .ok g := rfl

/-- after a mark attachment the two attachment points coincide: `advs` is the distance between
the pen positions of base and mark -/
theorem attach_exact (base : Glyph) (a : Anchor) (mark : Glyph) (mr : MarkRec) (advs : Int) (g' : Glyph)
    (h : attach base a mark mr advs = .ok g') :
    advs + g'.xoff + mr.x = base.xoff + a.x ∧ g'.yoff + mr.y = base.yoff + a.y
    ∧ g'.gid = mark.gid ∧ g'.text = mark.text ∧ g'.adv = mark.adv := by
  unfold attach at h
  cases hx : fit16 (base.xoff + a.x - mr.x - advs) with
  | error e => rw [hx] at h; simp [bind, Except.bind] at h
  | ok x =>
    cases hy : fit16 (base.yoff + a.y - mr.y) with
    | error e => rw [hx, hy] at h; simp [bind, Except.bind] at h
    | ok y =>
      rw [hx, hy] at h
      simp only [bind, Except.bind, pure, Except.pure] at h
      injection h with h; subst h
      have h1 := (fit16_ok hx).1
      have h2 := (fit16_ok hy).1
      refine ⟨?_, ?_, rfl, rfl, rfl⟩
      · simp only; omega
      · simp only; omega


/-! ### facts about `matchSeq` -/

theorem matchSeq_facts (kp : Nat → Bool) : ∀ (ts : List TG) (pats : List (Nat → Bool)) (i : Nat) (offs : List Nat),
    matchSeq kp pats ts i = some offs →
    offs.length = pats.length ∧ (∀ o ∈ offs, i ≤ o ∧ o < i + ts.length) := by
  intro ts
  induction ts with
  | nil =>
    intro pats i offs h
    cases pats with
    | nil => simp only [matchSeq] at h; injection h with h; subst h; simp
    | cons p ps => simp [matchSeq] at h
  | cons t ts ih =>
    intro pats i offs h
    cases pats with
    | nil => simp only [matchSeq] at h; injection h with h; subst h; simp
    | cons p ps =>
      simp only [matchSeq] at h
      split at h
      · split at h
        · cases hm : matchSeq kp ps ts (i + 1) with
          | none => rw [hm] at h; simp at h
          | some offs' =>
            rw [hm] at h
            simp only [Option.map_some] at h
            injection h with h; subst h
            obtain ⟨h1, h2⟩ := ih ps (i + 1) offs' hm
            refine ⟨by simp [h1], ?_⟩
            intro o ho
            rcases List.mem_cons.mp ho with ho | ho
            · subst ho; simp only [List.length_cons]; omega
            · have := h2 o ho; simp only [List.length_cons]; omega
        · cases h
      · obtain ⟨h1, h2⟩ := ih (p :: ps) (i + 1) offs h
        refine ⟨h1, ?_⟩
        intro o ho
        have := h2 o ho; simp only [List.length_cons]; omega

/-- number of glyphs from index `i` up to and including the last matched one -/
def usedFrom (i : Nat) (offs : List Nat) : Nat :=
  match offs.getLast? with
  | some o => o + 1 - i
  | none => 0

theorem usedFrom_zero (offs : List Nat) : usedFrom 0 offs = usedLen offs := by
  unfold usedFrom usedLen; cases offs.getLast? <;> simp

theorem usedFrom_cons_self (i : Nat) (offs : List Nat) (h : ∀ o ∈ offs, i + 1 ≤ o) :
    usedFrom i (i :: offs) = 1 + usedFrom (i + 1) offs := by
  unfold usedFrom
  cases offs with
  | nil => simp
  | cons a b =>
    have hl : ((i :: a :: b).getLast?) = (a :: b).getLast? := by simp [List.getLast?_cons_cons]
    rw [hl]
    cases hg : (a :: b).getLast? with
    | none => simp at hg
    | some o =>
      have := h o (List.mem_of_getLast? hg)
      simp only; omega

theorem usedFrom_succ (i : Nat) (offs : List Nat) (hne : offs ≠ []) (h : ∀ o ∈ offs, i + 1 ≤ o) :
    usedFrom i offs = 1 + usedFrom (i + 1) offs := by
  unfold usedFrom
  cases hg : offs.getLast? with
  | none => exact absurd (List.getLast?_eq_none_iff.mp hg) hne
  | some o =>
    have := h o (List.mem_of_getLast? hg)
    simp only; omega

/-- In the matched region every glyph that is not skipped was matched by its pattern, in order:
for ligature components, the kept glyphs of the region are exactly the components. -/
theorem matchSeq_comps (kp : Nat → Bool) : ∀ (ts : List TG) (comps : List Nat) (i : Nat) (offs : List Nat),
    matchSeq kp (comps.map fun c g => g == c) ts i = some offs →
    ((ts.take (usedFrom i offs)).filter fun t => kp t.g.gid).map (·.g.gid) = comps := by
  intro ts
  induction ts with
  | nil =>
    intro comps i offs h
    cases comps with
    | nil => simp
    | cons c cs => simp [matchSeq] at h
  | cons t ts ih =>
    intro comps i offs h
    cases comps with
    | nil =>
      simp only [List.map_nil, matchSeq] at h
      injection h with h; subst h
      simp [usedFrom]
    | cons c cs =>
      simp only [List.map_cons, matchSeq] at h
      split at h
      · rename_i hk
        split at h
        · rename_i hc
          cases hm : matchSeq kp (cs.map fun c g => g == c) ts (i + 1) with
          | none => rw [hm] at h; simp at h
          | some offs' =>
            rw [hm] at h
            simp only [Option.map_some] at h
            injection h with h; subst h
            have hf := (matchSeq_facts kp ts _ (i + 1) offs' hm).2
            rw [usedFrom_cons_self i offs' (fun o ho => (hf o ho).1)]
            have hc' : t.g.gid = c := by simpa using hc
            rw [show 1 + usedFrom (i + 1) offs' = usedFrom (i + 1) offs' + 1 from Nat.add_comm _ _]
            simp only [List.take_succ_cons, List.filter_cons, hk, if_true, List.map_cons]
            rw [ih cs (i + 1) offs' hm, hc']
        · cases h
      · rename_i hk
        have hk' : kp t.g.gid = false := by simpa using hk
        have hf := matchSeq_facts kp ts _ (i + 1) offs h
        have hne : offs ≠ [] := by
          intro he; subst he; have := hf.1; simp at this
        rw [usedFrom_succ i offs hne (fun o ho => (hf.2 o ho).1)]
        rw [show 1 + usedFrom (i + 1) offs = usedFrom (i + 1) offs + 1 from Nat.add_comm _ _]
        simp only [List.take_succ_cons, List.filter_cons, hk', Bool.false_eq_true, if_false]
        have := ih (c :: cs) (i + 1) offs (by simpa using h)
        exact this

/-! ### ligature substitution -/

/-- What a ligature substitution does: the glyphs of the matched region that are not skipped are
exactly the component glyphs of one ligature of the set (they are consumed), the new glyph
carries the text of the first glyph and of all components in order, the skipped glyphs of the
region follow the ligature in their original order, and the rest of the string is untouched. -/
theorem ligature_hit (kp : Nat → Bool) (gd : Gdef) (pre : List TG) (cur : TG) (post : List TG) (lim : Nat)
    (cov : Cov) (ligs : List (List Lig)) (dn rest : List TG)
    (h : matchSub kp gd pre cur post lim (.gsub41 cov ligs) = .ok (some (.done dn rest))) :
    ∃ (i : Nat) (set : List Lig) (l : Lig) (used : Nat),
      Shape.covGet cov cur.g.gid = some i ∧ ligs[i]? = some set ∧ l ∈ set ∧ used ≤ lim ∧
      (((post.take used).filter fun t => kp t.g.gid).map (·.g.gid) = l.comps) ∧
      dn = { cur with g := ⟨l.out, cur.g.text ++ ((post.take used).filter fun t => kp t.g.gid).flatMap (fun t => t.g.text), 0, 0, 0⟩ }
            :: ((post.take used).filter fun t => !kp t.g.gid) ∧
      rest = post.drop used := by
  simp only [matchSub] at h
  cases hc : Shape.covGet cov cur.g.gid with
  | none => rw [hc] at h; simp [pure, Except.pure] at h
  | some i =>
    rw [hc] at h
    simp only at h
    cases hs : ligs[i]? with
    | none => rw [hs] at h; simp [need, undef, bind, Except.bind] at h
    | some set =>
      rw [hs] at h
      simp only [need, bind, Except.bind, pure, Except.pure] at h
      generalize hcands : (set.filterMap fun (l : Lig) =>
        (matchSeq kp (l.comps.map fun c g => g == c) (post.take lim) 0).map fun offs => (l, usedLen offs)) = cands at h
      cases cands with
      | nil => simp at h
      | cons c cs =>
        obtain ⟨l, used⟩ := c
        simp only at h
        split at h
        · injection h with h; injection h with h; injection h with h1 h2
          have hmem : (l, used) ∈ set.filterMap fun (l : Lig) =>
              (matchSeq kp (l.comps.map fun c g => g == c) (post.take lim) 0).map fun offs => (l, usedLen offs) := by
            rw [hcands]; exact List.mem_cons_self
          obtain ⟨l0, hl0, hm⟩ := List.mem_filterMap.mp hmem
          cases hq : matchSeq kp (l0.comps.map fun c g => g == c) (post.take lim) 0 with
          | none => rw [hq] at hm; simp at hm
          | some offs =>
            rw [hq] at hm
            simp only [Option.map_some] at hm
            injection hm with hm; injection hm with hm1 hm2
            subst hm1
            have hcomps := matchSeq_comps kp (post.take lim) l0.comps 0 offs hq
            rw [usedFrom_zero, hm2] at hcomps
            have hfacts := (matchSeq_facts kp (post.take lim) _ 0 offs hq).2
            have hused : used ≤ lim := by
              rw [← hm2]; unfold usedLen
              cases hg : offs.getLast? with
              | none => simp
              | some o =>
                have := hfacts o (List.mem_of_getLast? hg)
                simp only [List.length_take] at this
                simp only; omega
            have htake : (post.take lim).take used = post.take used := by
              rw [List.take_take]; congr 1; omega
            rw [htake] at hcomps
            exact ⟨i, set, l0, used, rfl, hs, hl0, hused, hcomps, h1.symm, h2.symm⟩
        · simp [undef] at h


/-! ### a skipped glyph is never touched -/

theorem sub_of_rest_eq {p : TG → Bool} {post dn rest : List TG} (hrest : rest = post) :
    (post.filter p).Sublist (dn ++ rest) := by
  subst hrest
  exact (List.filter_sublist).trans (List.sublist_append_right _ _)

/-- every subtable except ligature and pair adjustment leaves all following glyphs alone -/
theorem simple_rest (kp : Nat → Bool) (gd : Gdef) (pre : List TG) (cur : TG) (post : List TG) (lim : Nat)
    (s : Subtable) (dn rest : List TG)
    (h : matchSub kp gd pre cur post lim s = .ok (some (.done dn rest))) :
    (match s with | .gsub41 _ _ | .gpos21 _ | .gpos22 _ _ _ _ => True | _ => rest = post) := by
  cases s <;> simp only [matchSub, markAttach, attachTarget, need, undef, bind, Except.bind, pure, Except.pure, Option.map] at h ⊢
  all_goals (repeat' (split at h))
  all_goals (first | (cases h; done) | (cases h; rfl) | skip)

theorem nextKept_facts (kp : Nat → Bool) : ∀ (ts : List TG) (i j : Nat) (t : TG),
    nextKept kp ts i = some (j, t) → i ≤ j ∧ ts[j - i]? = some t ∧ kp t.g.gid = true
      ∧ (ts.take (j - i)).filter (fun t => !kp t.g.gid) = ts.take (j - i) := by
  intro ts
  induction ts with
  | nil => intro i j t h; simp [nextKept] at h
  | cons a ts ih =>
    intro i j t h
    simp only [nextKept] at h
    split at h
    · rename_i hk
      injection h with h; injection h with h1 h2; subst h1 h2
      simp [hk]
    · rename_i hk
      obtain ⟨h1, h2, h3, h4⟩ := ih (i + 1) j t h
      have hji : j - i = (j - (i + 1)) + 1 := by omega
      refine ⟨by omega, ?_, h3, ?_⟩
      · rw [hji]; simpa using h2
      · rw [hji]
        have hk' : kp a.g.gid = false := by simpa using hk
        simp only [List.take_succ_cons, List.filter_cons, hk', Bool.not_false, if_true]
        rw [h4]

theorem pairAdjust_shape (adj : Shape.PairAdj) (cur : TG) (post : List TG) (j : Nat) (second : TG) (dn rest : List TG)
    (h : pairAdjust adj cur post j second = .ok (some (.done dn rest))) :
    ∃ c', (dn = c' :: post.take j ∧ rest = post.drop j) ∨
          (∃ s', dn = c' :: post.take j ++ [s'] ∧ rest = post.drop (j + 1)) := by
  unfold pairAdjust at h
  cases h1 : addValue adj.first cur.g with
  | error e => rw [h1] at h; simp [bind, Except.bind] at h
  | ok g1 =>
    rw [h1] at h
    simp only [bind, Except.bind, pure, Except.pure] at h
    split at h
    · injection h with h; injection h with h; injection h with ha hb
      exact ⟨_, Or.inl ⟨ha.symm, hb.symm⟩⟩
    · rename_i v hv
      cases h2 : addValue (some v) second.g with
      | error e => rw [h2] at h; simp at h
      | ok g2 =>
        rw [h2] at h
        simp only at h
        injection h with h; injection h with h; injection h with ha hb
        exact ⟨_, Or.inr ⟨_, ha.symm, hb.symm⟩⟩

theorem pair_keeps_skipped (kp : Nat → Bool) (adj : Shape.PairAdj) (cur : TG) (post : List TG) (lim j : Nat) (second : TG)
    (dn rest : List TG) (hn : nextKept kp (post.take lim) 0 = some (j, second))
    (h : pairAdjust adj cur post j second = .ok (some (.done dn rest))) :
    (post.filter fun t => !kp t.g.gid).Sublist (dn ++ rest) := by
  obtain ⟨_, h2, h3, _⟩ := nextKept_facts kp _ 0 j second hn
  simp only [Nat.sub_zero] at h2
  have hj : post[j]? = some second := by
    rw [List.getElem?_take] at h2
    split at h2
    · exact h2
    · cases h2
  obtain ⟨c', hs | ⟨s', hs⟩⟩ := pairAdjust_shape adj cur post j second dn rest h
  · rw [hs.1, hs.2]
    simp only [List.cons_append, List.take_append_drop]
    exact (List.filter_sublist).trans (List.sublist_cons_self _ _)
  · rw [hs.1, hs.2]
    have hlt : j < post.length := by
      rcases Nat.lt_or_ge j post.length with h' | h'
      · exact h'
      · rw [List.getElem?_eq_none h'] at hj; cases hj
    have hsplit : post = post.take j ++ second :: post.drop (j + 1) := by
      have hg : post[j] = second := by
        rw [List.getElem?_eq_getElem hlt] at hj; injection hj
      rw [← hg, List.getElem_cons_drop, List.take_append_drop]
    have hfil : (post.filter fun t => !kp t.g.gid)
        = (post.take j).filter (fun t => !kp t.g.gid) ++ (post.drop (j + 1)).filter (fun t => !kp t.g.gid) := by
      conv => lhs; rw [hsplit]
      simp [List.filter_append, h3]
    rw [hfil]
    simp only [List.cons_append, List.append_assoc]
    refine List.Sublist.cons _ ?_
    exact (List.filter_sublist).append ((List.filter_sublist).trans (List.sublist_cons_self _ _))

/-- **A glyph the lookup flags say to skip is never modified**: after ANY subtable has been
applied at a position, the skipped glyphs that followed the position are all still there,
unchanged and in their order (new glyphs may stand between them). The glyphs before the
position are not part of the result at all. -/
theorem done_keeps_skipped (kp : Nat → Bool) (gd : Gdef) (pre : List TG) (cur : TG) (post : List TG) (lim : Nat)
    (s : Subtable) (dn rest : List TG)
    (h : matchSub kp gd pre cur post lim s = .ok (some (.done dn rest))) :
    (post.filter fun t => !kp t.g.gid).Sublist (dn ++ rest) := by
  have hsimple := simple_rest kp gd pre cur post lim s dn rest h
  cases s with
  | gsub41 cov ligs =>
    obtain ⟨i, set, l, used, _, _, _, _, _, hdn, hrest⟩ := ligature_hit kp gd pre cur post lim cov ligs dn rest h
    rw [hdn, hrest]
    have : (post.filter fun t => !kp t.g.gid)
        = (post.take used).filter (fun t => !kp t.g.gid) ++ (post.drop used).filter (fun t => !kp t.g.gid) := by
      rw [← List.filter_append, List.take_append_drop]
    rw [this]
    simp only [List.cons_append]
    refine List.Sublist.cons _ ?_
    exact (List.Sublist.refl _).append List.filter_sublist
  | gpos21 pairs =>
    simp only [matchSub] at h
    split at h
    · simp [pure, Except.pure] at h
    · rename_i j second hn
      split at h
      · simp [pure, Except.pure] at h
      · simp [undef] at h
      · exact pair_keeps_skipped kp _ cur post lim j second dn rest hn h
  | gpos22 cov cls1 cls2 adj =>
    simp only [matchSub] at h
    split at h
    · simp [pure, Except.pure] at h
    · split at h
      · simp [pure, Except.pure] at h
      · rename_i j second hn
        split at h
        · simp [pure, Except.pure] at h
        · split at h
          · simp [pure, Except.pure] at h
          · simp [undef] at h
          · exact pair_keeps_skipped kp _ cur post lim j second dn rest hn h
  | gsub11 _ _ => exact sub_of_rest_eq hsimple
  | gsub12 _ _ => exact sub_of_rest_eq hsimple
  | gsub21 _ _ => exact sub_of_rest_eq hsimple
  | gsub31 _ _ => exact sub_of_rest_eq hsimple
  | gsub81 _ _ _ _ => exact sub_of_rest_eq hsimple
  | ctx1 _ _ => exact sub_of_rest_eq hsimple
  | ctx2 _ _ _ => exact sub_of_rest_eq hsimple
  | ctx3 _ _ => exact sub_of_rest_eq hsimple
  | chain1 _ _ => exact sub_of_rest_eq hsimple
  | chain2 _ _ _ _ _ => exact sub_of_rest_eq hsimple
  | chain3 _ _ _ _ => exact sub_of_rest_eq hsimple
  | gpos11 _ _ => exact sub_of_rest_eq hsimple
  | gpos12 _ _ => exact sub_of_rest_eq hsimple
  | gpos31 _ _ => exact sub_of_rest_eq hsimple
  | gpos41 _ _ _ _ _ => exact sub_of_rest_eq hsimple
  | gpos61 _ _ _ _ => exact sub_of_rest_eq hsimple

end SfntV.C06sem
