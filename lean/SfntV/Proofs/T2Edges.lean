/-
Soundness of the edge proposals of the charstring compiler (C04): operator-level semantics.
-/
import SfntV.Model.T2Compile
import SfntV.Proofs.T2Progress

set_option linter.unusedSimpArgs false
set_option linter.unusedVariables false

namespace SfntV.T2Enc
open SfntV SfntV.T2 SfntV.Spec.T2

/-- what a drawing segment means to the decoder -/
def drawSeg (q : Quirks) (s : St) : Seg → St
  | .line dx dy => rLineTo q s dx.val dy.val
  | .curve a0 a1 a2 a3 a4 a5 => rCurveTo q s a0.val a1.val a2.val a3.val a4.val a5.val

def drawSegs (q : Quirks) (s : St) (segs : List Seg) : St := segs.foldl (drawSeg q) s

theorem drawSegs_nil (q : Quirks) (s : St) : drawSegs q s [] = s := rfl
theorem drawSegs_cons (q : Quirks) (s : St) (g : Seg) (t : List Seg) :
    drawSegs q s (g :: t) = drawSegs q (drawSeg q s g) t := rfl
theorem drawSegs_append (q : Quirks) (s : St) (a b : List Seg) :
    drawSegs q s (a ++ b) = drawSegs q (drawSegs q s a) b := by simp [drawSegs, List.foldl_append]

def vals (l : List EncNum) : List Int := l.map (·.val)

def Seg.isLine : Seg → Bool
  | .line _ _ => true
  | _ => false
def Seg.isCurve : Seg → Bool
  | .curve .. => true
  | _ => false

/-! ### decoder loops on the operands of whole segments -/

theorem rlineLoop_segs (q : Quirks) (s : St) (segs : List Seg) (h : ∀ g ∈ segs, g.isLine = true) :
    rlineLoop q s (vals (segs.flatMap Seg.args)) = drawSegs q s segs := by
  induction segs generalizing s with
  | nil => simp [vals, rlineLoop, drawSegs]
  | cons g t ih =>
    cases g with
    | line dx dy =>
      simp only [List.flatMap_cons, Seg.args, vals, List.map_append, List.map_cons, List.map_nil,
        List.cons_append, List.nil_append, rlineLoop, drawSegs_cons, drawSeg]
      exact ih _ (fun g hg => h g (List.mem_cons_of_mem _ hg))
    | curve a0 a1 a2 a3 a4 a5 => exact absurd (h _ (List.mem_cons_self)) (by simp [Seg.isLine])

theorem curveLoop_segs (q : Quirks) (s : St) (segs : List Seg) (tail : List Int)
    (h : ∀ g ∈ segs, g.isCurve = true) (ht : tail.length < 6) :
    curveLoop q s (vals (segs.flatMap Seg.args) ++ tail) = (drawSegs q s segs, tail) := by
  induction segs generalizing s with
  | nil =>
    simp only [List.flatMap_nil, vals, List.map_nil, List.nil_append, drawSegs_nil]
    rw [curveLoop.eq_2]
    intro a b c d e f t heq
    subst heq
    simp at ht
    omega
  | cons g t ih =>
    cases g with
    | curve a0 a1 a2 a3 a4 a5 =>
      simp only [List.flatMap_cons, Seg.args, vals, List.map_append, List.map_cons, List.map_nil,
        List.cons_append, List.nil_append, curveLoop, drawSegs_cons, drawSeg]
      exact ih _ (fun g hg => h g (List.mem_cons_of_mem _ hg))
    | line dx dy => exact absurd (h _ (List.mem_cons_self)) (by simp [Seg.isCurve])

/-- alternating axis-parallel lines: `h` = the next line is horizontal; the operand list holds the
one non-zero delta of each line -/
inductive AltLines : Bool → List Seg → List EncNum → Prop
  | nil (h : Bool) : AltLines h [] []
  | hor (dx dy : EncNum) (t : List Seg) (as : List EncNum) : dy.val = 0 → AltLines false t as →
      AltLines true (.line dx dy :: t) (dx :: as)
  | ver (dx dy : EncNum) (t : List Seg) (as : List EncNum) : dx.val = 0 → AltLines true t as →
      AltLines false (.line dx dy :: t) (dy :: as)

theorem altLineLoop_segs (q : Quirks) (s : St) (h : Bool) (segs : List Seg) (as : List EncNum)
    (ha : AltLines h segs as) : altLineLoop q h s (vals as) = drawSegs q s segs := by
  induction ha generalizing s with
  | nil h => simp [vals, altLineLoop, drawSegs]
  | hor dx dy t as hz _ ih =>
    simp only [vals, List.map_cons, altLineLoop, drawSegs_cons, drawSeg, if_true, hz]
    exact ih _
  | ver dx dy t as hz _ ih =>
    simp only [vals, List.map_cons, altLineLoop, drawSegs_cons, drawSeg, hz]
    exact ih _

theorem AltLines.length {h : Bool} {segs : List Seg} {as : List EncNum} (ha : AltLines h segs as) :
    segs.length = as.length := by
  induction ha <;> simp [*]


/-! ### the edge-producing loops -/

theorem maxStack_48 : maxStack = 48 := rfl

/-- an edge that covers the first `n` commands with operator `op`, its operands being all the
arguments of these commands, all of one kind -/
def RunEdge (frm : Nat) (cmds : List Seg) (op : Op) (kind : Seg → Bool) (e : Edge) : Prop :=
  ∃ n, 0 < n ∧ n ≤ cmds.length ∧ e.to = frm + n ∧ e.op = op ∧
    e.args = (cmds.take n).flatMap Seg.args ∧ (∀ g ∈ cmds.take n, kind g = true) ∧ e.args.length ≤ 48

/-- state of the rlineto / rrcurveto loop after it ended -/
def RunEnd (cmds : List Seg) (kind : Seg → Bool) (lo : Nat) (r : List EncNum × Nat × List Seg) : Prop :=
  ∃ p, lo ≤ p ∧ p ≤ cmds.length ∧ r.1 = (cmds.take p).flatMap Seg.args ∧ r.2.1 = p ∧
    r.2.2 = cmds.drop p ∧ ∀ g ∈ cmds.take p, kind g = true

theorem take_append_len {α : Type} (pre rest : List α) : (pre ++ rest).take pre.length = pre := by
  simp

theorem ite_edges {β : Type} (c : Bool) (r : List Edge × β) (x : Edge) :
    (if c = true then r else (x :: r.1, r.2)).2 = r.2 ∧
    ∀ e ∈ (if c = true then r else (x :: r.1, r.2)).1, e = x ∨ e ∈ r.1 := by
  cases c
  · simp
  · exact ⟨rfl, fun e he => Or.inr he⟩

theorem rlineEdges_spec (frm : Nat) (rest pre : List Seg) (hpre : ∀ g ∈ pre, g.isLine = true) :
    (∀ e ∈ (rlineEdges frm rest (pre.flatMap Seg.args) pre.length).1,
        RunEdge frm (pre ++ rest) .rlineto Seg.isLine e) ∧
    RunEnd (pre ++ rest) Seg.isLine pre.length (rlineEdges frm rest (pre.flatMap Seg.args) pre.length).2 := by
  induction rest generalizing pre with
  | nil =>
    simp only [rlineEdges]
    refine ⟨by simp, pre.length, Nat.le_refl _, by simp, by simp, by simp, by simp, ?_⟩
    simpa using hpre
  | cons g t ih =>
    cases g with
    | curve a0 a1 a2 a3 a4 a5 =>
      simp only [rlineEdges]
      refine ⟨by simp, pre.length, Nat.le_refl _, by simp, by simp, by simp, by simp, ?_⟩
      simpa using hpre
    | line dx dy =>
      simp only [rlineEdges]
      split
      · rename_i hlen
        have hpre' : ∀ g ∈ pre ++ [Seg.line dx dy], g.isLine = true := by
          intro g hg
          rcases List.mem_append.mp hg with h | h
          · exact hpre g h
          · simp at h; subst h; rfl
        have hcode : pre.flatMap Seg.args ++ [dx, dy] = (pre ++ [Seg.line dx dy]).flatMap Seg.args := by
          simp [Seg.args]
        have hpos : pre.length + 1 = (pre ++ [Seg.line dx dy]).length := by simp
        have hc : pre ++ Seg.line dx dy :: t = (pre ++ [Seg.line dx dy]) ++ t := by simp
        have ih' := ih (pre ++ [Seg.line dx dy]) hpre'
        rw [← hcode, ← hpos, ← hc] at ih'
        obtain ⟨ihE, p, hp1, hp2, hp3, hp4, hp5, hp6⟩ := ih'
        have hEnd : RunEnd (pre ++ Seg.line dx dy :: t) Seg.isLine pre.length
            (rlineEdges frm t (pre.flatMap Seg.args ++ [dx, dy]) (pre.length + 1)).2 :=
          ⟨p, by omega, hp2, hp3, hp4, hp5, hp6⟩
        obtain ⟨k2, k1⟩ := ite_edges
          (lineGoOn t (pre.flatMap Seg.args ++ [dx, dy]).length)
          (rlineEdges frm t (pre.flatMap Seg.args ++ [dx, dy]) (pre.length + 1))
          ⟨pre.flatMap Seg.args ++ [dx, dy], .rlineto, frm + pre.length + 1⟩
        refine ⟨?_, by rw [k2]; exact hEnd⟩
        intro e he
        rcases k1 e he with h | h
        · subst h
          refine ⟨pre.length + 1, by omega, by simp, rfl, rfl, ?_, ?_, ?_⟩
          · rw [hc, hpos, take_append_len, hcode]
          · rw [hc, hpos, take_append_len]; exact hpre'
          · simp only [List.length_append, List.length_cons, List.length_nil]
            rw [maxStack_48] at hlen; omega
        · exact ihE e h
      · refine ⟨by simp, pre.length, Nat.le_refl _, by simp, by simp, by simp, by simp, ?_⟩
        simpa using hpre

theorem rrcurveEdges_spec (frm : Nat) (rest pre : List Seg) (hpre : ∀ g ∈ pre, g.isCurve = true) :
    (∀ e ∈ (rrcurveEdges frm rest (pre.flatMap Seg.args) pre.length).1,
        RunEdge frm (pre ++ rest) .rrcurveto Seg.isCurve e) ∧
    RunEnd (pre ++ rest) Seg.isCurve pre.length (rrcurveEdges frm rest (pre.flatMap Seg.args) pre.length).2 := by
  induction rest generalizing pre with
  | nil =>
    simp only [rrcurveEdges]
    refine ⟨by simp, pre.length, Nat.le_refl _, by simp, by simp, by simp, by simp, ?_⟩
    simpa using hpre
  | cons g t ih =>
    cases g with
    | line dx0 dy0 =>
      simp only [rrcurveEdges]
      refine ⟨by simp, pre.length, Nat.le_refl _, by simp, by simp, by simp, by simp, ?_⟩
      simpa using hpre
    | curve a0 a1 a2 a3 a4 a5 =>
      simp only [rrcurveEdges]
      split
      · rename_i hlen
        have hpre' : ∀ g ∈ pre ++ [Seg.curve a0 a1 a2 a3 a4 a5], g.isCurve = true := by
          intro g hg
          rcases List.mem_append.mp hg with h | h
          · exact hpre g h
          · simp at h; subst h; rfl
        have hcode : pre.flatMap Seg.args ++ [a0, a1, a2, a3, a4, a5] = (pre ++ [Seg.curve a0 a1 a2 a3 a4 a5]).flatMap Seg.args := by
          simp [Seg.args]
        have hpos : pre.length + 1 = (pre ++ [Seg.curve a0 a1 a2 a3 a4 a5]).length := by simp
        have hc : pre ++ Seg.curve a0 a1 a2 a3 a4 a5 :: t = (pre ++ [Seg.curve a0 a1 a2 a3 a4 a5]) ++ t := by simp
        have ih' := ih (pre ++ [Seg.curve a0 a1 a2 a3 a4 a5]) hpre'
        rw [← hcode, ← hpos, ← hc] at ih'
        obtain ⟨ihE, p, hp1, hp2, hp3, hp4, hp5, hp6⟩ := ih'
        have hEnd : RunEnd (pre ++ Seg.curve a0 a1 a2 a3 a4 a5 :: t) Seg.isCurve pre.length
            (rrcurveEdges frm t (pre.flatMap Seg.args ++ [a0, a1, a2, a3, a4, a5]) (pre.length + 1)).2 :=
          ⟨p, by omega, hp2, hp3, hp4, hp5, hp6⟩
        obtain ⟨k2, k1⟩ := ite_edges
          (curveGoOn t (pre.flatMap Seg.args ++ [a0, a1, a2, a3, a4, a5]).length)
          (rrcurveEdges frm t (pre.flatMap Seg.args ++ [a0, a1, a2, a3, a4, a5]) (pre.length + 1))
          ⟨pre.flatMap Seg.args ++ [a0, a1, a2, a3, a4, a5], .rrcurveto, frm + pre.length + 1⟩
        refine ⟨?_, by rw [k2]; exact hEnd⟩
        intro e he
        rcases k1 e he with h | h
        · subst h
          refine ⟨pre.length + 1, by omega, by simp, rfl, rfl, ?_, ?_, ?_⟩
          · rw [hc, hpos, take_append_len, hcode]
          · rw [hc, hpos, take_append_len]; exact hpre'
          · simp only [List.length_append, List.length_cons, List.length_nil]
            rw [maxStack_48] at hlen; omega
        · exact ihE e h
      · refine ⟨by simp, pre.length, Nat.le_refl _, by simp, by simp, by simp, by simp, ?_⟩
        simpa using hpre



theorem isZero_val {e : EncNum} (h : e.isZero = true) : e.val = 0 := by
  simpa [EncNum.isZero] using h

theorem altLineArgs_spec (cmds : List Seg) (ci : Nat) (code : List EncNum) (hci : ci = 0 ∨ ci = 1)
    (hc : code.length ≤ 48) :
    ∃ as, altLineArgs ci cmds code = code ++ as ∧ AltLines (ci == 1) (cmds.take as.length) as ∧
      code.length + as.length ≤ 48 ∧ as.length ≤ cmds.length := by
  induction cmds generalizing ci code with
  | nil => exact ⟨[], by simp [altLineArgs], AltLines.nil _, by simpa using hc, by simp⟩
  | cons g t ih =>
    cases g with
    | curve a0 a1 a2 a3 a4 a5 => exact ⟨[], by simp [altLineArgs], AltLines.nil _, by simpa using hc, by simp⟩
    | line dx dy =>
      simp only [altLineArgs]
      split
      · rename_i hlen
        rw [maxStack_48] at hlen
        split
        · exact ⟨[], by simp, AltLines.nil _, by simpa using hc, by simp⟩
        · rename_i hz
          have hz' : ((Seg.line dx dy).arg ci).isZero = true := by simpa using hz
          have hci' : 1 - ci = 0 ∨ 1 - ci = 1 := by omega
          obtain ⟨as, h1, h2, h3, h4⟩ := ih (1 - ci) (code ++ [(Seg.line dx dy).arg (1 - ci)]) hci' (by simp; omega)
          refine ⟨(Seg.line dx dy).arg (1 - ci) :: as, by rw [h1]; simp, ?_, by simp at h3 ⊢; omega, by simp; omega⟩
          rcases hci with rfl | rfl
          · have : dx.val = 0 := isZero_val (by simpa [Seg.arg, Seg.args] using hz')
            simpa [Seg.arg, Seg.args] using AltLines.ver dx dy _ as this (by simpa using h2)
          · have : dy.val = 0 := isZero_val (by simpa [Seg.arg, Seg.args] using hz')
            simpa [Seg.arg, Seg.args] using AltLines.hor dx dy _ as this (by simpa using h2)
      · exact ⟨[], by simp, AltLines.nil _, by simpa using hc, by simp⟩


/-! ### soundness of an edge, at operator level -/

/-- An edge is sound: it advances, stays inside the sub-path, needs at most 48 operands, gives its
operator a legal operand count, takes its operands from the commands, and — executed by the
specification interpreter on exactly these operands — draws exactly the commands it covers. -/
structure EdgeSound (frm : Nat) (cmds : List Seg) (e : Edge) : Prop where
  to_gt : frm < e.to
  to_le : e.to ≤ frm + cmds.length
  len : e.args.length ≤ 48
  legal : legalCount e.op e.args.length = true
  isPath : isPathOp e.op = true
  argsFrom : ∀ a ∈ e.args, ∃ g ∈ cmds, a ∈ g.args
  exec : ∀ (env : Env) (s : St) (code : List Nat), s.stack = vals e.args →
    T2.exec strict env s e.op code = .ok (.cont (clear (drawSegs strict s (cmds.take (e.to - frm)))) code)

theorem args_len_lines (l : List Seg) (h : ∀ g ∈ l, g.isLine = true) :
    (l.flatMap Seg.args).length = 2 * l.length := by
  induction l with
  | nil => rfl
  | cons g t ih =>
    cases g with
    | line dx dy => simp [Seg.args, ih (fun g hg => h g (List.mem_cons_of_mem _ hg))]; omega
    | curve a0 a1 a2 a3 a4 a5 => exact absurd (h _ List.mem_cons_self) (by simp [Seg.isLine])

theorem args_len_curves (l : List Seg) (h : ∀ g ∈ l, g.isCurve = true) :
    (l.flatMap Seg.args).length = 6 * l.length := by
  induction l with
  | nil => rfl
  | cons g t ih =>
    cases g with
    | curve a0 a1 a2 a3 a4 a5 => simp [Seg.args, ih (fun g hg => h g (List.mem_cons_of_mem _ hg))]; omega
    | line dx dy => exact absurd (h _ List.mem_cons_self) (by simp [Seg.isCurve])

theorem argsFrom_take (cmds : List Seg) (n : Nat) :
    ∀ a ∈ (cmds.take n).flatMap Seg.args, ∃ g ∈ cmds, a ∈ g.args := by
  intro a ha
  obtain ⟨g, hg, hag⟩ := List.mem_flatMap.mp ha
  exact ⟨g, List.mem_of_mem_take hg, hag⟩

theorem vals_length (l : List EncNum) : (vals l).length = l.length := by simp [vals]

theorem sound_rlineto (frm : Nat) (cmds : List Seg) (e : Edge) (h : RunEdge frm cmds .rlineto Seg.isLine e) :
    EdgeSound frm cmds e := by
  obtain ⟨n, hn0, hn1, hto, hop, hargs, hkind, hlen⟩ := h
  have hl := args_len_lines _ hkind
  have htl : (cmds.take n).length = n := by simp; omega
  refine ⟨by omega, by omega, hlen, ?_, by rw [hop]; rfl, by rw [hargs]; exact argsFrom_take _ _, ?_⟩
  · rw [hop, hargs, hl, htl]; simp [legalCount]; omega
  · intro env s code hs
    have hsl : s.stack.length = 2 * n := by rw [hs, vals_length, hargs, hl, htl]
    rw [hop]
    simp only [T2.exec]
    rw [pathOp_ok s code _ _ _ (by omega) (by simp; omega)]
    rw [hs, hargs, rlineLoop_segs _ _ _ hkind, hto]
    simp

theorem sound_rrcurveto (frm : Nat) (cmds : List Seg) (e : Edge) (h : RunEdge frm cmds .rrcurveto Seg.isCurve e) :
    EdgeSound frm cmds e := by
  obtain ⟨n, hn0, hn1, hto, hop, hargs, hkind, hlen⟩ := h
  have hl := args_len_curves _ hkind
  have htl : (cmds.take n).length = n := by simp; omega
  refine ⟨by omega, by omega, hlen, ?_, by rw [hop]; rfl, by rw [hargs]; exact argsFrom_take _ _, ?_⟩
  · rw [hop, hargs, hl, htl]; simp [legalCount]; omega
  · intro env s code hs
    have hsl : s.stack.length = 6 * n := by rw [hs, vals_length, hargs, hl, htl]
    rw [hop]
    simp only [T2.exec]
    rw [pathOp_ok s code _ _ _ (by omega) (by simp; omega)]
    have := curveLoop_segs strict s (cmds.take n) [] hkind (by simp)
    rw [List.append_nil] at this
    rw [hs, hargs, this, hto]
    simp


theorem AltLines.argsFrom {h : Bool} {segs : List Seg} {as : List EncNum} (ha : AltLines h segs as) :
    ∀ a ∈ as, ∃ g ∈ segs, a ∈ g.args := by
  induction ha with
  | nil h => simp
  | hor dx dy t as hz _ ih =>
    intro a ha
    rcases List.mem_cons.mp ha with rfl | h
    · exact ⟨_, List.mem_cons_self, by simp [Seg.args]⟩
    · obtain ⟨g, hg, hag⟩ := ih a h
      exact ⟨g, List.mem_cons_of_mem _ hg, hag⟩
  | ver dx dy t as hz _ ih =>
    intro a ha
    rcases List.mem_cons.mp ha with rfl | h
    · exact ⟨_, List.mem_cons_self, by simp [Seg.args]⟩
    · obtain ⟨g, hg, hag⟩ := ih a h
      exact ⟨g, List.mem_cons_of_mem _ hg, hag⟩

theorem sound_altlines (frm : Nat) (cmds : List Seg) (h : Bool) (as : List EncNum)
    (ha : AltLines h (cmds.take as.length) as) (h0 : 0 < as.length) (h48 : as.length ≤ 48)
    (hle : as.length ≤ cmds.length) :
    EdgeSound frm cmds ⟨as, if h then .hlineto else .vlineto, frm + as.length⟩ := by
  refine ⟨by simp; omega, by simp; omega, h48, ?_, by cases h <;> rfl, ?_, ?_⟩
  · cases h <;> simp [legalCount] <;> omega
  · intro a haa
    obtain ⟨g, hg, hag⟩ := ha.argsFrom a haa
    exact ⟨g, List.mem_of_mem_take hg, hag⟩
  · intro env s code hs
    simp only at hs
    have hsl : s.stack.length = as.length := by rw [hs, vals_length]
    cases h
    · simp only [Bool.false_eq_true, if_false, T2.exec]
      rw [pathOp_ok s code _ _ _ (by omega) rfl, hs, altLineLoop_segs _ _ _ _ _ ha]
      simp
    · simp only [if_true, T2.exec]
      rw [pathOp_ok s code _ _ _ (by omega) rfl, hs, altLineLoop_segs _ _ _ _ _ ha]
      simp

/-- rlinecurve: `p` lines, then one curve -/
theorem sound_rlinecurve (frm : Nat) (cmds : List Seg) (p : Nat) (a0 a1 a2 a3 a4 a5 : EncNum)
    (hp : p ≤ cmds.length) (hkind : ∀ g ∈ cmds.take p, g.isLine = true) (hp0 : 0 < p)
    (hnext : cmds.drop p = .curve a0 a1 a2 a3 a4 a5 :: cmds.drop (p + 1))
    (hlen : ((cmds.take p).flatMap Seg.args).length + 6 ≤ 48) :
    EdgeSound frm cmds ⟨(cmds.take p).flatMap Seg.args ++ [a0, a1, a2, a3, a4, a5], .rlinecurve, frm + p + 1⟩ := by
  have hl := args_len_lines _ hkind
  have htl : (cmds.take p).length = p := by simp; omega
  have hlt : p < cmds.length := by
    rcases Nat.lt_or_ge p cmds.length with h | h
    · exact h
    · rw [List.drop_eq_nil_of_le h] at hnext; cases hnext
  have htake : cmds.take (p + 1) = cmds.take p ++ [.curve a0 a1 a2 a3 a4 a5] := by
    rw [List.take_succ_eq_append_getElem hlt]
    congr
    have := List.getElem_cons_drop hlt
    rw [hnext] at this
    simpa using (List.cons.inj this).1
  refine ⟨by simp; omega, by simp; omega, by simp at hlen ⊢; omega, ?_, rfl, ?_, ?_⟩
  · simp [legalCount, hl, htl]; omega
  · intro a ha
    rcases List.mem_append.mp ha with h | h
    · exact argsFrom_take _ _ a h
    · exact ⟨.curve a0 a1 a2 a3 a4 a5, by
        have : Seg.curve a0 a1 a2 a3 a4 a5 ∈ cmds.drop p := by rw [hnext]; exact List.mem_cons_self
        exact List.mem_of_mem_drop this, by simpa [Seg.args] using h⟩
  · intro env s code hs
    simp only at hs
    have hsl : s.stack.length = 2 * p + 6 := by rw [hs, vals_length]; simp [hl, htl]
    simp only [T2.exec]
    rw [pathOp_ok s code _ _ _ (by omega) (by simp; omega)]
    have hk : 2 * ((s.stack.length - 6) / 2) = (vals ((cmds.take p).flatMap Seg.args)).length := by
      rw [hsl, vals_length, hl, htl]; omega
    have hsplit : s.stack = vals ((cmds.take p).flatMap Seg.args) ++ vals [a0, a1, a2, a3, a4, a5] := by
      rw [hs]; simp [vals]
    rw [hk]
    rw [hsplit, List.take_left, List.drop_left, rlineLoop_segs _ _ _ hkind]
    have : frm + p + 1 - frm = p + 1 := by omega
    simp only [this, htake, drawSegs_append, vals, List.map_cons, List.map_nil, curveLoop, drawSegs_cons,
      drawSegs_nil, drawSeg]


theorem take_succ_of_drop (cmds : List Seg) (p : Nat) (g : Seg) (hnext : cmds.drop p = g :: cmds.drop (p + 1)) :
    p < cmds.length ∧ cmds.take (p + 1) = cmds.take p ++ [g] := by
  have hlt : p < cmds.length := by
    rcases Nat.lt_or_ge p cmds.length with h | h
    · exact h
    · rw [List.drop_eq_nil_of_le h] at hnext; cases hnext
  refine ⟨hlt, ?_⟩
  rw [List.take_succ_eq_append_getElem hlt]
  congr
  have := List.getElem_cons_drop hlt
  rw [hnext] at this
  simpa using (List.cons.inj this).1

/-- rcurveline: `p` curves, then one line -/
theorem sound_rcurveline (frm : Nat) (cmds : List Seg) (p : Nat) (dx dy : EncNum)
    (hkind : ∀ g ∈ cmds.take p, g.isCurve = true) (hp0 : 0 < p)
    (hnext : cmds.drop p = .line dx dy :: cmds.drop (p + 1))
    (hlen : ((cmds.take p).flatMap Seg.args).length + 2 ≤ 48) :
    EdgeSound frm cmds ⟨(cmds.take p).flatMap Seg.args ++ [dx, dy], .rcurveline, frm + p + 1⟩ := by
  have hl := args_len_curves _ hkind
  obtain ⟨hlt, htake⟩ := take_succ_of_drop cmds p _ hnext
  have htl : (cmds.take p).length = p := by simp; omega
  refine ⟨by simp; omega, by simp; omega, by simp at hlen ⊢; omega, ?_, rfl, ?_, ?_⟩
  · simp [legalCount, hl, htl]; omega
  · intro a ha
    rcases List.mem_append.mp ha with h | h
    · exact argsFrom_take _ _ a h
    · exact ⟨.line dx dy, by
        have : Seg.line dx dy ∈ cmds.drop p := by rw [hnext]; exact List.mem_cons_self
        exact List.mem_of_mem_drop this, by simpa [Seg.args] using h⟩
  · intro env s code hs
    simp only at hs
    have hsl : s.stack.length = 6 * p + 2 := by rw [hs, vals_length]; simp [hl, htl]
    simp only [T2.exec]
    rw [pathOp_ok s code _ _ _ (by omega) (by simp; omega)]
    have hsplit : s.stack = vals ((cmds.take p).flatMap Seg.args) ++ [dx.val, dy.val] := by
      rw [hs]; simp [vals]
    have := curveLoop_segs strict s (cmds.take p) [dx.val, dy.val] hkind (by simp)
    rw [hsplit, this]
    have e : frm + p + 1 - frm = p + 1 := by omega
    simp only [e, htake, drawSegs_append, drawSegs_cons, drawSegs_nil, drawSeg]

theorem sound_hflex (frm : Nat) (a0 a1 a2 a3 a4 a5 b0 b1 b2 b3 b4 b5 : EncNum) (t : List Seg)
    (h1 : a1.val = 0) (h5 : a5.val = 0) (g1 : b1.val = 0) (g5 : b5.val = 0) (hd : a3.val + b3.val = 0) :
    EdgeSound frm (.curve a0 a1 a2 a3 a4 a5 :: .curve b0 b1 b2 b3 b4 b5 :: t)
      ⟨[a0, a2, a3, a4, b0, b2, b4], .hflex, frm + 2⟩ := by
  refine ⟨by simp, by simp, by simp, rfl, rfl, ?_, ?_⟩
  · intro a ha
    have key : a ∈ (Seg.curve a0 a1 a2 a3 a4 a5).args ∨ a ∈ (Seg.curve b0 b1 b2 b3 b4 b5).args := by
      simp only [List.mem_cons, List.not_mem_nil, or_false] at ha
      simp only [Seg.args, List.mem_cons, List.not_mem_nil, or_false]
      rcases ha with h | h | h | h | h | h | h <;> simp [h]
    rcases key with h | h
    · exact ⟨_, List.mem_cons_self, h⟩
    · exact ⟨_, List.mem_cons_of_mem _ List.mem_cons_self, h⟩
  · intro env s code hs
    simp only [vals, List.map_cons, List.map_nil] at hs
    simp only [T2.exec]
    rw [pathOp_ok s code _ _ _ (by rw [hs]; simp) (by rw [hs]; rfl)]
    have e : frm + 2 - frm = 2 := by omega
    have hb3 : b3.val = -a3.val := by omega
    simp only [hs, e, List.take, drawSegs_cons, drawSegs_nil, drawSeg, h1, h5, g1, g5, hb3]

theorem sound_hflex1 (frm : Nat) (a0 a1 a2 a3 a4 a5 b0 b1 b2 b3 b4 b5 : EncNum) (t : List Seg)
    (h5 : a5.val = 0) (g1 : b1.val = 0) (hd : a3.val + b3.val + a1.val + b5.val = 0) :
    EdgeSound frm (.curve a0 a1 a2 a3 a4 a5 :: .curve b0 b1 b2 b3 b4 b5 :: t)
      ⟨[a0, a1, a2, a3, a4, b0, b2, b3, b4], .hflex1, frm + 2⟩ := by
  refine ⟨by simp, by simp, by simp, rfl, rfl, ?_, ?_⟩
  · intro a ha
    have key : a ∈ (Seg.curve a0 a1 a2 a3 a4 a5).args ∨ a ∈ (Seg.curve b0 b1 b2 b3 b4 b5).args := by
      simp only [List.mem_cons, List.not_mem_nil, or_false] at ha
      simp only [Seg.args, List.mem_cons, List.not_mem_nil, or_false]
      rcases ha with h | h | h | h | h | h | h | h | h <;> simp [h]
    rcases key with h | h
    · exact ⟨_, List.mem_cons_self, h⟩
    · exact ⟨_, List.mem_cons_of_mem _ List.mem_cons_self, h⟩
  · intro env s code hs
    simp only [vals, List.map_cons, List.map_nil] at hs
    simp only [T2.exec]
    rw [pathOp_ok s code _ _ _ (by rw [hs]; simp) (by rw [hs]; rfl)]
    have e : frm + 2 - frm = 2 := by omega
    have hb5 : b5.val = -(a1.val + a3.val + b3.val) := by omega
    simp only [hs, e, List.take, drawSegs_cons, drawSegs_nil, drawSeg, h5, g1, hb5]


/-! ### all proposals of `appendEdges` -/

theorem hhvvEdges_op (frm offs : Nat) (op : Op) (rest : List Seg) (code : List EncNum) (pos : Nat) :
    ∀ e ∈ hhvvEdges frm offs op rest code pos, e.op = op := by
  induction rest generalizing code pos with
  | nil => simp [hhvvEdges]
  | cons g t ih =>
    cases g with
    | line dx dy => simp [hhvvEdges]
    | curve a0 a1 a2 a3 a4 a5 =>
      simp only [hhvvEdges]
      split
      · split
        · simp
        · split
          · simp
          · intro e he
            rcases List.mem_cons.mp he with rfl | h
            · rfl
            · exact ih _ _ e h
      · simp

theorem hvvhEdges_op (frm orig : Nat) (op : Op) (offs : Nat) (rest : List Seg) (code : List EncNum) (pos : Nat) :
    ∀ e ∈ hvvhEdges frm orig op offs rest code pos, e.op = op := by
  induction rest generalizing offs code pos with
  | nil => simp [hvvhEdges]
  | cons g t ih =>
    cases g with
    | line dx dy => simp [hvvhEdges]
    | curve a0 a1 a2 a3 a4 a5 =>
      simp only [hvvhEdges]
      split
      · simp
      · split
        · simp
        · split
          · simp
          · split
            · exact ih _ _ _
            · intro e he
              rcases List.mem_cons.mp he with rfl | h
              · rfl
              · split at h
                · exact ih _ _ _ e h
                · simp at h

theorem drop_succ_of_cons {α : Type} (l : List α) (p : Nat) (x : α) (tl : List α) (h : l.drop p = x :: tl) :
    l.drop p = x :: l.drop (p + 1) := by
  have := congrArg List.tail h
  simp only [List.tail_drop, List.tail_cons] at this
  rw [h, this]

/-- the operators whose edges are proved sound here -/
def coreOp (o : Op) : Bool := !(o == .hhcurveto || o == .vvcurveto || o == .hvcurveto || o == .vhcurveto)

theorem appendEdges_sound_core (frm : Nat) (cmds : List Seg) :
    ∀ e ∈ appendEdges frm cmds, coreOp e.op = true → EdgeSound frm cmds e := by
  intro e he hcore
  cases cmds with
  | nil => simp [appendEdges] at he
  | cons g t =>
    cases g with
    | line dx dy =>
      simp only [appendEdges] at he
      obtain ⟨hE, p, hp0, hp1, hp2, hp3, hp4, hp5⟩ := rlineEdges_spec frm (.line dx dy :: t) [] (by simp)
      simp only [List.flatMap_nil, List.length_nil, List.nil_append] at hE hp2 hp3 hp4 hp5 hp1
      rcases List.mem_append.mp he with he | he
      · rcases List.mem_append.mp he with he | he
        · rcases List.mem_append.mp he with he | he
          · exact sound_rlineto _ _ _ (hE e he)
          · -- rlinecurve
            rw [hp4] at he
            split at he
            · rename_i a0 a1 a2 a3 a4 a5 tl hdrop
              split at he
              · rename_i hlen
                simp only [List.mem_cons, List.not_mem_nil, or_false] at he
                subst he
                rw [hp2, hp3]
                have hnext := drop_succ_of_cons _ _ _ _ hdrop
                have hp : 0 < p := by
                  rcases Nat.eq_zero_or_pos p with h | h
                  · subst h; simp at hdrop
                  · exact h
                rw [hp2, maxStack_48] at hlen
                exact sound_rlinecurve frm _ p a0 a1 a2 a3 a4 a5 hp1 hp5 hp hnext hlen
              · simp at he
            · simp at he
        · -- vlineto
          obtain ⟨as, h1, h2, h3, h4⟩ := altLineArgs_spec (.line dx dy :: t) 0 [] (Or.inl rfl) (by simp)
          simp only [List.nil_append] at h1
          rw [h1] at he
          split at he
          · rename_i hpos
            simp only [List.mem_cons, List.not_mem_nil, or_false] at he
            subst he
            have := sound_altlines frm (.line dx dy :: t) false as (by simpa using h2) hpos (by simpa using h3) h4
            simpa using this
          · simp at he
      · -- hlineto
        obtain ⟨as, h1, h2, h3, h4⟩ := altLineArgs_spec (.line dx dy :: t) 1 [] (Or.inr rfl) (by simp)
        simp only [List.nil_append] at h1
        rw [h1] at he
        split at he
        · rename_i hpos
          simp only [List.mem_cons, List.not_mem_nil, or_false] at he
          subst he
          have := sound_altlines frm (.line dx dy :: t) true as (by simpa using h2) hpos (by simpa using h3) h4
          simpa using this
        · simp at he
    | curve c0 c1 c2 c3 c4 c5 =>
      simp only [appendEdges] at he
      obtain ⟨hE, p, hp0, hp1, hp2, hp3, hp4, hp5⟩ := rrcurveEdges_spec frm (.curve c0 c1 c2 c3 c4 c5 :: t) [] (by simp)
      simp only [List.flatMap_nil, List.length_nil, List.nil_append] at hE hp2 hp3 hp4 hp5 hp1
      rcases List.mem_append.mp he with he | he
      · rcases List.mem_append.mp he with he | he
        · rcases List.mem_append.mp he with he | he
          · rcases List.mem_append.mp he with he | he
            · rcases List.mem_append.mp he with he | he
              · rcases List.mem_append.mp he with he | he
                · exact sound_rrcurveto _ _ _ (hE e he)
                · -- rcurveline
                  rw [hp4] at he
                  split at he
                  · rename_i dx dy tl hdrop
                    split at he
                    · rename_i hlen
                      simp only [List.mem_cons, List.not_mem_nil, or_false] at he
                      subst he
                      rw [hp2, hp3]
                      have hnext := drop_succ_of_cons _ _ _ _ hdrop
                      have hp : 0 < p := by
                        rcases Nat.eq_zero_or_pos p with h | h
                        · subst h; simp at hdrop
                        · exact h
                      rw [hp2, maxStack_48] at hlen
                      exact sound_rcurveline frm _ p dx dy hp5 hp hnext hlen
                    · simp at he
                  · simp at he
              · have := hhvvEdges_op _ _ _ _ _ _ e he
                rw [this] at hcore; simp [coreOp] at hcore
            · have := hhvvEdges_op _ _ _ _ _ _ e he
              rw [this] at hcore; simp [coreOp] at hcore
          · have := hvvhEdges_op _ _ _ _ _ _ _ e he
            rw [this] at hcore; simp [coreOp] at hcore
        · have := hvvhEdges_op _ _ _ _ _ _ _ e he
          rw [this] at hcore; simp [coreOp] at hcore
      · -- flex
        cases t with
        | nil => simp [flexEdges] at he
        | cons g2 t2 =>
          cases g2 with
          | line dx dy => simp [flexEdges] at he
          | curve b0 b1 b2 b3 b4 b5 =>
            simp only [flexEdges] at he
            split at he
            · rename_i hz
              simp only [Bool.and_eq_true] at hz
              have h5 := isZero_val hz.1
              have g1 := isZero_val hz.2
              split at he
              · rename_i hf
                simp only [Bool.and_eq_true, beq_iff_eq] at hf
                simp only [List.mem_cons, List.not_mem_nil, or_false] at he
                subst he
                exact sound_hflex frm _ _ _ _ _ _ _ _ _ _ _ _ t2 (isZero_val hf.1.1) h5 g1 (isZero_val hf.1.2) hf.2
              · split at he
                · rename_i hf
                  simp only [beq_iff_eq] at hf
                  simp only [List.mem_cons, List.not_mem_nil, or_false] at he
                  subst he
                  exact sound_hflex1 frm _ _ _ _ _ _ _ _ _ _ _ _ t2 h5 g1 hf
                · simp at he
            · simp at he

end SfntV.T2Enc
