import SfntV.Model.GNames

/-! C20 — helper lemmas: generated names are injective in their counter, the search for an
unused name succeeds within its fuel, and every pass of `MakeGlyphNames` only fills empty slots
with unused names. -/
namespace SfntV.GNames

/-! ### generated names -/

theorem dec_inj {a b : Nat} (h : dec a = dec b) : a = b := by
  have := congrArg (fun l => Nat.ofDigitChars 10 l 0) h
  simpa [dec] using this

theorem dec_ne_nil (a : Nat) : dec a ≠ [] := Nat.toDigits_ne_nil

theorem pad3_val (k : Nat) : Nat.ofDigitChars 10 (pad3 k) 0 = k := by
  simp [pad3, Nat.ofDigitChars_append, dec]

theorem ornName_inj {a b : Nat} (h : ornName a = ornName b) : a = b := by
  have h' : pad3 a = pad3 b := by
    unfold ornName at h
    exact List.append_cancel_left h
  have := congrArg (fun l => Nat.ofDigitChars 10 l 0) h'
  simpa [pad3_val] using this

theorem ornName_ne_nil (k : Nat) : ornName k ≠ [] := by simp [ornName]

theorem variantName_inj (base : Name) {i j : Nat} (h : variantName base i = variantName base j) :
    i = j := by
  unfold variantName at h
  by_cases hi : i = 0 <;> by_cases hj : j = 0
  · omega
  · simp only [hi, hj, if_true, if_false] at h
    have := congrArg List.length h
    simp at this
  · simp only [hi, hj, if_true, if_false] at h
    have := congrArg List.length h
    simp at this
  · simp only [hi, hj, if_false] at h
    have := List.append_cancel_left h
    exact dec_inj (List.cons.inj this).2

theorem variantName_ne_nil {base : Name} (hb : base ≠ []) (t : Nat) : variantName base t ≠ [] := by
  unfold variantName
  split
  · exact hb
  · simp

theorem joinU_ne_nil {a : Name} (ha : a ≠ []) (rest : List Name) : joinU (a :: rest) ≠ [] := by
  cases rest with
  | nil => simpa [joinU] using ha
  | cons b r => simp [joinU, ha]

/-! ### the search for an unused candidate -/

theorem firstFresh_aux (cand : Nat → Name) (hinj : ∀ i j, cand i = cand j → i = j)
    (used : List Name) :
    ∀ (fuel t : Nat) (S : List Name), S.length < fuel →
      (∀ j, t ≤ j → cand j ∈ used → cand j ∈ S) →
      cand (firstFresh cand used fuel t) ∉ used ∧ t ≤ firstFresh cand used fuel t ∧
      ∀ j, t ≤ j → j < firstFresh cand used fuel t → cand j ∈ used := by
  intro fuel
  induction fuel with
  | zero => intro t S h; omega
  | succ fuel ih =>
    intro t S hS hsub
    unfold firstFresh
    by_cases hc : cand t ∈ used
    · rw [if_pos hc]
      have hm : cand t ∈ S := hsub t (Nat.le_refl _) hc
      have hlen : (S.erase (cand t)).length < fuel := by
        rw [List.length_erase_of_mem hm]
        have : 0 < S.length := List.length_pos_of_mem hm
        omega
      have := ih (t + 1) (S.erase (cand t)) hlen (by
        intro j hj hju
        have hne : cand j ≠ cand t := fun e => by have := hinj _ _ e; omega
        exact (List.mem_erase_of_ne hne).2 (hsub j (by omega) hju))
      refine ⟨this.1, by omega, ?_⟩
      intro j hj hlt
      by_cases hjt : j = t
      · subst hjt; exact hc
      · exact this.2.2 j (by omega) hlt
    · rw [if_neg hc]
      exact ⟨hc, Nat.le_refl _, fun j h1 h2 => by omega⟩

theorem firstFresh_spec (cand : Nat → Name) (hinj : ∀ i j, cand i = cand j → i = j)
    (used : List Name) (t : Nat) :
    cand (firstFresh cand used (used.length + 1) t) ∉ used ∧
    t ≤ firstFresh cand used (used.length + 1) t ∧
    ∀ j, t ≤ j → j < firstFresh cand used (used.length + 1) t → cand j ∈ used :=
  firstFresh_aux cand hinj used (used.length + 1) t used (by omega) (fun _ _ h => h)

/-! ### states -/

/-- every non-empty name in the slice is recorded in `used`, and no non-empty name occurs twice -/
def Inv (st : St) : Prop :=
  (∀ i, st.nameAt i ≠ [] → st.nameAt i ∈ st.used) ∧
  (∀ i j, st.nameAt i ≠ [] → st.nameAt i = st.nameAt j → i = j)

/-- `b` arises from `a` by filling empty slots and recording names -/
def Ext (a b : St) : Prop :=
  b.n = a.n ∧ (∀ i, a.nameAt i ≠ [] → b.nameAt i = a.nameAt i) ∧ (∀ x, x ∈ a.used → x ∈ b.used)

def Step (a b : St) : Prop := Ext a b ∧ (Inv a → Inv b)

theorem Step.refl (a : St) : Step a a := ⟨⟨rfl, fun _ _ => rfl, fun _ h => h⟩, id⟩

theorem Step.trans {a b c : St} (h1 : Step a b) (h2 : Step b c) : Step a c := by
  obtain ⟨⟨n1, k1, u1⟩, i1⟩ := h1
  obtain ⟨⟨n2, k2, u2⟩, i2⟩ := h2
  refine ⟨⟨n2.trans n1, ?_, fun x h => u2 x (u1 x h)⟩, fun h => i2 (i1 h)⟩
  intro i hi
  have := k1 i hi
  rw [k2 i (by rw [this]; exact hi), this]

theorem nameAt_lt {st : St} {i : Nat} (h : st.nameAt i ≠ []) : i < st.n := by
  unfold St.nameAt at h
  unfold St.n
  by_cases hi : i < st.names.length
  · exact hi
  · exfalso; apply h
    simp [List.getD_eq_getElem?_getD, List.getElem?_eq_none (Nat.le_of_not_lt hi)]

theorem nameAt_fill {st : St} {g : Nat} (hg : g < st.n) (nm : Name) (i : Nat) :
    (st.fill g nm).nameAt i = if i = g then nm else st.nameAt i := by
  unfold St.n at hg
  simp only [St.nameAt, St.fill, List.getD_eq_getElem?_getD, List.getElem?_set]
  by_cases h : g = i
  · subst h; simp [hg]
  · have : ¬ i = g := fun e => h e.symm
    simp [h, this]

theorem step_fill {st : St} {g : Nat} {nm : Name} (hg : g < st.n) (he : st.nameAt g = [])
    (hf : nm ∉ st.used) : Step st (st.fill g nm) := by
  refine ⟨⟨by simp [St.n, St.fill], ?_, fun x h => by simp [St.fill, h]⟩, ?_⟩
  · intro i hi
    rw [nameAt_fill hg]
    have : i ≠ g := fun e => hi (e ▸ he)
    simp [this]
  · intro ⟨hu, hd⟩
    refine ⟨?_, ?_⟩
    · intro i
      rw [nameAt_fill hg]
      by_cases h : i = g
      · simp [h, St.fill]
      · simp only [h, if_false]
        intro hi
        simp [St.fill, hu i hi]
    · intro i j
      rw [nameAt_fill hg, nameAt_fill hg]
      by_cases h1 : i = g <;> by_cases h2 : j = g
      · intros; omega
      · simp only [h1, h2, if_true, if_false]
        intro hne heq
        exact absurd (heq ▸ hu j (heq ▸ hne)) hf
      · simp only [h1, h2, if_true, if_false]
        intro hne heq
        exact absurd (heq ▸ hu i hne) hf
      · simp only [h1, h2, if_false]
        exact hd i j

theorem step_fillVariant {st : St} {g : Nat} (base : Name) (hg : g < st.n)
    (he : st.nameAt g = []) : Step st (st.fillVariant g base) :=
  step_fill hg he (firstFresh_spec _ (fun _ _ => variantName_inj base) st.used 0).1

theorem step_foldl {α : Type} (f : St → α → St) (l : List α)
    (h : ∀ st a, a ∈ l → Step st (f st a)) : ∀ st, Step st (l.foldl f st) := by
  induction l with
  | nil => intro st; exact Step.refl st
  | cons a l ih =>
    intro st
    simp only [List.foldl_cons]
    exact (h st a (by simp)).trans (ih (fun st b hb => h st b (by simp [hb])) _)

/-! ### the passes are steps -/

theorem step_cmapStep (fromU : Nat → Name) (cm : CMap) (st : St) (r : Nat) :
    Step st (cmapStep fromU cm st r) := by
  unfold cmapStep
  simp only
  split
  · rename_i h
    split
    · exact Step.refl st
    · rename_i hu; exact step_fill h.1 h.2 hu
  · exact Step.refl st

theorem step_cmapPass (fromU : Nat → Name) (cm : Option CMap) (st : St) :
    Step st (cmapPass fromU cm st) := by
  unfold cmapPass
  cases cm with
  | none => exact Step.refl st
  | some cm => exact step_foldl _ _ (fun st a _ => step_cmapStep fromU cm st a) st

theorem step_singleStep (st : St) (o nw : Nat) : Step st (singleStep st o nw) := by
  unfold singleStep
  split
  · rename_i h
    split
    · exact Step.refl st
    · rename_i h2
      have : st.nameAt nw = [] := by
        by_cases e : st.nameAt nw = []
        · exact e
        · exact absurd (Or.inr e) h2
      exact step_fillVariant _ h.2 this
  · exact Step.refl st

theorem step_altStep (o : Nat) (st : St) (nw : Nat) : Step st (altStep o st nw) := by
  unfold altStep
  split
  · rename_i h; exact step_fillVariant _ h.1 h.2
  · exact Step.refl st

theorem step_ligStep (name : Name) (st : St) (l : List Nat × Nat) :
    Step st (ligStep name st l) := by
  unfold ligStep
  split
  · rename_i h
    split
    · exact step_fillVariant _ h.1 h.2
    · exact Step.refl st
  · exact Step.refl st

theorem step_subStepSorted (st : St) (s : Sub) : Step st (subStepSorted st s) := by
  cases s with
  | single1 cov delta => exact step_foldl _ _ (fun st o _ => step_singleStep st o _) st
  | single2 cov subst =>
    refine step_foldl _ _ (fun st p _ => ?_) st
    split
    · exact step_singleStep _ _ _
    · exact Step.refl _
  | alt cov alts =>
    refine step_foldl _ _ (fun st p _ => ?_) st
    split
    · split
      · exact step_foldl _ _ (fun st a _ => step_altStep _ st a) _
      · exact Step.refl _
    · exact Step.refl _
  | lig cov repl =>
    refine step_foldl _ _ (fun st p _ => ?_) st
    split
    · split
      · exact step_foldl _ _ (fun st a _ => step_ligStep _ st a) _
      · exact Step.refl _
    · exact Step.refl _
  | other => exact Step.refl st

theorem step_gsubPass (subs : List Sub) (st : St) : Step st (gsubPass subs st) := by
  unfold gsubPass
  exact step_foldl _ _ (fun st s _ => step_subStepSorted st s) st

theorem step_ornStep (s : St × Nat) (i : Nat) : Step s.1 (ornStep s i).1 := by
  unfold ornStep
  split
  · exact Step.refl _
  · rename_i h
    by_cases hi : i < s.1.n
    · have he : s.1.nameAt i = [] := by
        by_cases e : s.1.nameAt i = []
        · exact e
        · exact absurd e h
      exact step_fill hi he (firstFresh_spec _ (fun _ _ => ornName_inj) s.1.used s.2).1
    · -- out of range: `set` does nothing to the slice; only `used` grows
      refine ⟨⟨by simp [St.n, St.fill], ?_, fun x hx => by simp [St.fill, hx]⟩, ?_⟩
      · intro j hj
        have := nameAt_lt hj
        simp only [St.nameAt, St.fill]
        rw [List.set_eq_of_length_le (by unfold St.n at hi; omega)]
      · intro ⟨hu, hd⟩
        have hs : ∀ j, (s.1.fill i (ornName (firstFresh ornName s.1.used (s.1.used.length + 1) s.2))).nameAt j
            = s.1.nameAt j := by
          intro j
          simp only [St.nameAt, St.fill]
          rw [List.set_eq_of_length_le (by unfold St.n at hi; omega)]
        refine ⟨fun j hj => ?_, fun j k hj hk => ?_⟩
        · rw [hs] at hj ⊢
          simp [St.fill, hu j hj]
        · rw [hs] at hj hk
          rw [hs] at hk
          exact hd j k hj hk

theorem step_ornFold (l : List Nat) : ∀ s : St × Nat, Step s.1 (l.foldl ornStep s).1 := by
  induction l with
  | nil => intro s; exact Step.refl _
  | cons a l ih =>
    intro s
    simp only [List.foldl_cons]
    exact (step_ornStep s a).trans (ih _)

theorem step_ornPass (st : St) : Step st (ornPass st) := step_ornFold _ (st, 1)

end SfntV.GNames
