/-
`readLookupList` (model `LL.readLL`: the Go reader with its 6000-entry budget and its two-pass
extension resolution, subtables represented by the positions they are read from) against the
specification reader `LL.specRead`: on every byte string the Go reader accepts, the specification
reader finds the same lookups.
-/
import SfntV.Proofs.OtlLookupList

namespace SfntV.Otl.LL
open SfntV SfntV.Otl

/-- a lookup as the Go reader returns it, in the vocabulary of the specification reader
(`markFilteringSet` is only present with the flag 0x0010; the Go struct holds 0 otherwise) -/
def toSpec (l : ReadLookup Nat) : SpecLookup :=
  ⟨l.type, l.flags, if l.flags / 16 % 2 == 1 then some l.mfs else none, l.subs⟩

theorem rdAt_u16at {b : Bytes} {p v : Nat} (h : rdAt b p = .ok v) : u16at b p = some v := by
  unfold rdAt at h
  cases hu : u16at b p with
  | some x => rw [hu] at h; simp only [Outcome.ok.injEq] at h; rw [h]
  | none => rw [hu] at h; simp at h

theorem rdAtN_get (b : Bytes) : ∀ (n p : Nat) (ws : List Nat), rdAtN b p n = .ok ws →
    ws.length = n ∧ ∀ j, j < n → u16at b (p + 2 * j) = some (ws.getD j 0)
  | 0, _, ws, h => by
    simp only [rdAtN, Outcome.ok.injEq] at h
    subst h
    exact ⟨rfl, fun j hj => by omega⟩
  | n + 1, p, ws, h => by
    simp only [rdAtN] at h
    cases h1 : rdAt b p with
    | ok v =>
      rw [h1] at h
      cases h2 : rdAtN b (p + 2) n with
      | ok r =>
        rw [h2] at h
        simp only [Outcome.ok.injEq] at h
        subst h
        obtain ⟨i1, i2⟩ := rdAtN_get b n (p + 2) r h2
        refine ⟨by simp [i1], ?_⟩
        intro j hj
        cases j with
        | zero => simpa using rdAt_u16at h1
        | succ j =>
          have := i2 j (by omega)
          have e : p + 2 * (j + 1) = p + 2 + 2 * j := by omega
          rw [e, this]
          simp
      | err e => rw [h2] at h; simp at h
      | panic s => rw [h2] at h; simp at h
    | err e => rw [h1] at h; simp at h
    | panic s => rw [h1] at h; simp at h

theorem range_map_getD0 (ws : List Nat) : (List.range ws.length).map (fun j => ws.getD j 0) = ws := by
  apply List.ext_getElem
  · simp
  · intro i h1 h2
    simp only [List.getElem_map, List.getElem_range, List.getD_eq_getElem?_getD]
    rw [List.getElem?_eq_getElem (by simpa using h1)]
    rfl

theorem rdAtN_u16s {b : Bytes} {p n : Nat} {ws : List Nat} (h : rdAtN b p n = .ok ws) : u16s b p n = some ws := by
  obtain ⟨hl, hg⟩ := rdAtN_get b n p ws h
  unfold u16s
  rw [mapM_some (fun j => u16at b (p + 2 * j)) (fun j => ws.getD j 0) (List.range n)
    (fun j hj => hg j (by simpa using hj)), ← hl, range_map_getD0]

/-- a lookup that is not an extension lookup: every subtable is the position it is read from -/
theorem srAll_plain (b : Bytes) (extType tp lp : Nat) (hne : (tp == extType) = false) :
    ∀ (offs : List Nat), srAll (fun (_ : Nat) (p : Nat) => Outcome.ok p) b extType tp lp offs =
      .ok (offs.map fun o => Sum.inr (lp + o))
  | [] => rfl
  | o :: os => by
    simp only [srAll, srWith, hne, Bool.false_eq_true, if_false, srAll_plain b extType tp lp hne os, List.map_cons]

/-- an extension record as the verification hook's subtable reader and as the specification see it -/
theorem srWith_ext (b : Bytes) (extType p : Nat) (x : Sum (Nat × Nat) Nat)
    (h : srWith (fun (_ : Nat) (q : Nat) => Outcome.ok q) b extType extType p = .ok x) :
    ∃ et eo, x = .inl (et, eo) ∧ specExtRec b p = some (et, p + eo) := by
  simp only [srWith, beq_self_eq_true, if_true] at h
  cases h1 : rdAt b p with
  | ok fmt =>
    rw [h1] at h
    simp only at h
    by_cases hfmt : (fmt != 1) = true
    · rw [if_pos hfmt] at h; simp at h
    · rw [if_neg hfmt] at h
      have hfmt1 : fmt = 1 := by simpa using hfmt
      cases h2 : rdAtN b (p + 2) 3 with
      | ok ws =>
        rw [h2] at h
        obtain ⟨hl, hg⟩ := rdAtN_get b 3 _ ws h2
        match ws, hl with
        | [et, hi, lo], _ =>
          simp only [Outcome.ok.injEq] at h
          have g0 := hg 0 (by omega)
          have g1 := hg 1 (by omega)
          have g2 := hg 2 (by omega)
          simp only [Nat.mul_zero, Nat.add_zero, List.getD_cons_zero, Nat.mul_one,
            List.getD_cons_succ] at g0 g1 g2
          have e1 : p + 2 + 2 = p + 4 := by omega
          have e2 : p + 2 + 2 * 2 = p + 6 := by omega
          rw [e1] at g1
          rw [e2] at g2
          refine ⟨et, hi * 65536 + lo, h.symm, ?_⟩
          simp only [specExtRec, rdAt_u16at h1, g0, g1, g2, hfmt1, beq_self_eq_true, if_true]
      | err e => rw [h2] at h; simp at h
      | panic s => rw [h2] at h; simp at h
  | err e => rw [h1] at h; simp at h
  | panic s => rw [h1] at h; simp at h

/-- an extension lookup: if both passes of the reader succeed, the specification finds the same
extension records -/
theorem ext_lookup (b : Bytes) (extType lp et : Nat) : ∀ (offs : List Nat) (subs : List (Sum (Nat × Nat) Nat))
    (ps : List Nat),
    srAll (fun (_ : Nat) (p : Nat) => Outcome.ok p) b extType extType lp offs = .ok subs →
    resolveExt (fun (_ : Nat) (p : Nat) => Outcome.ok p) lp et offs subs = .ok ps →
    offs.mapM (fun o => specExtRec b (lp + o)) = some (ps.map fun p => (et, p))
  | [], subs, ps, h, hr => by
    simp only [srAll, Outcome.ok.injEq] at h
    subst h
    simp only [resolveExt, Outcome.ok.injEq] at hr
    subst hr
    rfl
  | o :: os, subs, ps, h, hr => by
    simp only [srAll] at h
    cases h1 : srWith (fun (_ : Nat) (p : Nat) => Outcome.ok p) b extType extType (lp + o) with
    | ok x =>
      rw [h1] at h
      cases h3 : srAll (fun (_ : Nat) (p : Nat) => Outcome.ok p) b extType extType lp os with
      | ok xs =>
        rw [h3] at h
        simp only [Outcome.ok.injEq] at h
        subst h
        obtain ⟨et', eo, rfl, hs⟩ := srWith_ext b extType (lp + o) x h1
        simp only [resolveExt] at hr
        by_cases het : (et' != et) = true
        · rw [if_pos het] at hr; simp at hr
        · rw [if_neg het] at hr
          have hete : et' = et := by simpa using het
          cases h4 : resolveExt (fun (_ : Nat) (p : Nat) => Outcome.ok p) lp et os xs with
          | ok r =>
            rw [h4] at hr
            simp only [Outcome.ok.injEq] at hr
            subst hr
            rw [List.mapM_cons, ext_lookup b extType lp et os xs r h3 h4, hs, hete]
            rfl
          | err e => rw [h4] at hr; simp at hr
          | panic s => rw [h4] at hr; simp at hr
      | err e => rw [h3] at h; simp at h
      | panic s => rw [h3] at h; simp at h
    | err e => rw [h1] at h; simp at h
    | panic s => rw [h1] at h; simp at h

theorem inrOnly_map_inr (lp : Nat) : ∀ (offs : List Nat),
    inrOnly (offs.map fun o => (Sum.inr (lp + o) : Sum (Nat × Nat) Nat)) = offs.map (lp + ·)
  | [] => rfl
  | o :: os => by
    have := inrOnly_map_inr lp os
    simp only [inrOnly] at this
    simp [inrOnly, this]

/-- one lookup: what the reader returns is what the specification finds -/
theorem finish_spec (b : Bytes) (extType lp tp flags mfs : Nat) (mfsO : Option Nat) (offs : List Nat)
    (subs : List (Sum (Nat × Nat) Nat)) (l : ReadLookup Nat)
    (hs : srAll (fun (_ : Nat) (p : Nat) => Outcome.ok p) b extType tp lp offs = .ok subs)
    (hf : finishLookup (fun (_ : Nat) (p : Nat) => Outcome.ok p) lp tp flags mfs offs subs = .ok l) :
    specFinish b extType lp tp flags mfsO offs = some ⟨l.type, l.flags, mfsO, l.subs⟩ := by
  by_cases hx : (tp == extType) = true
  · have htp : tp = extType := by simpa using hx
    subst htp
    cases offs with
    | nil =>
      simp only [srAll, Outcome.ok.injEq] at hs
      subst hs
      simp only [finishLookup, inrOnly, List.filterMap_nil, Outcome.ok.injEq] at hf
      subst hf
      simp [specFinish]
    | cons o os =>
      simp only [srAll] at hs
      cases h1 : srWith (fun (_ : Nat) (p : Nat) => Outcome.ok p) b tp tp (lp + o) with
      | ok x =>
        cases h3 : srAll (fun (_ : Nat) (p : Nat) => Outcome.ok p) b tp tp lp os with
        | ok xs =>
          obtain ⟨et, eo, rfl, _⟩ := srWith_ext b tp (lp + o) x h1
          have hs' : srAll (fun (_ : Nat) (p : Nat) => Outcome.ok p) b tp tp lp (o :: os) = .ok (.inl (et, eo) :: xs) := by
            simp only [srAll, h1, h3]
          rw [h1, h3] at hs
          simp only [Outcome.ok.injEq] at hs
          subst hs
          simp only [finishLookup] at hf
          by_cases het : (et == tp) = true
          · rw [if_pos het] at hf; simp at hf
          · rw [if_neg het] at hf
            cases h4 : resolveExt (fun (_ : Nat) (p : Nat) => Outcome.ok p) lp et (o :: os) (.inl (et, eo) :: xs) with
            | ok ps =>
              rw [h4] at hf
              simp only [Outcome.ok.injEq] at hf
              subst hf
              have hm := ext_lookup b tp lp et (o :: os) _ ps hs' h4
              cases ps with
              | nil =>
                -- the second pass returns one entry per record
                simp only [resolveExt] at h4
                split at h4
                · simp at h4
                · cases h5 : resolveExt (fun (_ : Nat) (p : Nat) => Outcome.ok p) lp et os xs with
                  | ok r => rw [h5] at h4; simp at h4
                  | err e => rw [h5] at h4; simp at h4
                  | panic s => rw [h5] at h4; simp at h4
              | cons p0 ps' =>
                simp only [specFinish, beq_self_eq_true, if_true, hm, List.map_cons]
                have hall : (((et, p0) :: ps'.map fun p => (et, p)).all fun x => x.1 == et) = true := by
                  simp [List.all_eq_true]
                have hne : (et != tp) = true := by simpa using het
                rw [hall, hne]
                have hid : ((fun x : Nat × Nat => x.2) ∘ fun p => (et, p)) = id := rfl
                simp [List.map_map, hid]
            | err e => rw [h4] at hf; simp at hf
            | panic s => rw [h4] at hf; simp at hf
        | err e => rw [h1, h3] at hs; simp at hs
        | panic s => rw [h1, h3] at hs; simp at hs
      | err e => rw [h1] at hs; simp at hs
      | panic s => rw [h1] at hs; simp at hs
  · have hx' : (tp == extType) = false := by simpa using hx
    rw [srAll_plain b extType tp lp hx' offs] at hs
    simp only [Outcome.ok.injEq] at hs
    subst hs
    have hfin : finishLookup (fun (_ : Nat) (p : Nat) => Outcome.ok p) lp tp flags mfs offs
        (offs.map fun o => Sum.inr (lp + o)) = .ok ⟨tp, flags, mfs, offs.map (lp + ·)⟩ := by
      cases offs with
      | nil => rfl
      | cons o os =>
        have := inrOnly_map_inr lp (o :: os)
        simp only [List.map_cons] at this
        simp only [finishLookup, List.map_cons, this]
    rw [hfin] at hf
    simp only [Outcome.ok.injEq] at hf
    subst hf
    simp [specFinish, hx']

theorem lookups_spec (b : Bytes) (extType : Nat) : ∀ (lps : List Nat) (numL numS : Nat) (ls : List (ReadLookup Nat)),
    readLookups (fun (_ : Nat) (p : Nat) => Outcome.ok p) b extType lps numL numS = .ok ls →
    lps.mapM (specLookup b extType) = some (ls.map toSpec)
  | [], _, _, ls, h => by
    simp only [readLookups, Outcome.ok.injEq] at h
    subst h
    rfl
  | lp :: lps, numL, numS, ls, h => by
    simp only [readLookups] at h
    cases h1 : rdAtN b lp 3 with
    | ok ws =>
      obtain ⟨hl, hg⟩ := rdAtN_get b 3 _ ws h1
      match ws, hl with
      | [tp, flags, cnt], _ =>
        rw [h1] at h
        simp only at h
        split at h
        · simp at h
        · cases h2 : rdAtN b (lp + 6) cnt with
          | ok offs =>
            rw [h2] at h
            simp only at h
            have g0 := hg 0 (by omega)
            have g1 := hg 1 (by omega)
            have g2 := hg 2 (by omega)
            simp only [Nat.mul_zero, Nat.add_zero, List.getD_cons_zero, Nat.mul_one,
              List.getD_cons_succ] at g0 g1 g2
            -- the mark filtering set
            obtain ⟨mfs, mfsO, hm1, hm2, hm3⟩ : ∃ mfs mfsO,
                (if flags / 16 % 2 == 1 then rdAt b (lp + 6 + 2 * cnt) else Outcome.ok 0) = .ok mfs ∧
                (if flags / 16 % 2 == 1 then (u16at b (lp + 6 + 2 * cnt)).map some else some none) = some mfsO ∧
                mfsO = (if flags / 16 % 2 == 1 then some mfs else none) := by
              by_cases hfl : (flags / 16 % 2 == 1) = true
              · simp only [hfl, if_true] at h ⊢
                cases h3 : rdAt b (lp + 6 + 2 * cnt) with
                | ok v => exact ⟨v, some v, rfl, by rw [rdAt_u16at h3]; rfl, rfl⟩
                | err e => rw [h3] at h; simp at h
                | panic s => rw [h3] at h; simp at h
              · simp only [hfl, Bool.false_eq_true, if_false]
                exact ⟨0, none, rfl, rfl, rfl⟩
            subst hm3
            rw [hm1] at h
            simp only at h
            cases h4 : srAll (fun (_ : Nat) (p : Nat) => Outcome.ok p) b extType tp lp offs with
            | ok subs =>
              rw [h4] at h
              simp only at h
              cases h5 : finishLookup (fun (_ : Nat) (p : Nat) => Outcome.ok p) lp tp flags mfs offs subs with
              | ok l =>
                rw [h5] at h
                simp only at h
                cases h6 : readLookups (fun (_ : Nat) (p : Nat) => Outcome.ok p) b extType lps (numL + 1) (numS + cnt) with
                | ok ls' =>
                  rw [h6] at h
                  simp only [Outcome.ok.injEq] at h
                  subst h
                  have hfin := finish_spec b extType lp tp flags mfs (if flags / 16 % 2 == 1 then some mfs else none) offs subs l h4 h5
                  -- flags and mark filtering set of the result are those read
                  have hlf : l.flags = flags ∧ l.mfs = mfs := by
                    unfold finishLookup at h5
                    split at h5
                    · split at h5
                      · simp at h5
                      · cases h7 : resolveExt (fun (_ : Nat) (p : Nat) => Outcome.ok p) lp _ offs _ with
                        | ok ps => rw [h7] at h5; simp only [Outcome.ok.injEq] at h5; subst h5; exact ⟨rfl, rfl⟩
                        | err e => rw [h7] at h5; simp at h5
                        | panic s => rw [h7] at h5; simp at h5
                    · simp only [Outcome.ok.injEq] at h5; subst h5; exact ⟨rfl, rfl⟩
                  rw [List.mapM_cons, lookups_spec b extType lps _ _ ls' h6]
                  simp only [specLookup, g0, g1, g2, rdAtN_u16s h2, hm2, hfin, List.map_cons, toSpec,
                    hlf.1, hlf.2]
                  rfl
                | err e => rw [h6] at h; simp at h
                | panic s => rw [h6] at h; simp at h
              | err e => rw [h5] at h; simp at h
              | panic s => rw [h5] at h; simp at h
            | err e => rw [h4] at h; simp at h
            | panic s => rw [h4] at h; simp at h
          | err e => rw [h2] at h; simp at h
          | panic s => rw [h2] at h; simp at h
    | err e => rw [h1] at h; simp at h
    | panic s => rw [h1] at h; simp at h

/-- **`readLookupList` against the specification**: on every byte string the Go reader accepts (with
the verification hook's subtable reader: a subtable is the position it is read from), the
specification reader finds the same lookups - types (after extension resolution), flags, mark
filtering sets and subtable positions -/
theorem readLL_spec (b : Bytes) (extType : Nat) (ls : List (ReadLookup Nat)) (h : readLL b extType = .ok ls) :
    specRead b extType = some (ls.map toSpec) := by
  unfold readLL readLLWith at h
  cases h1 : rdAt b 0 with
  | ok cnt =>
    rw [h1] at h
    simp only at h
    cases h2 : rdAtN b 2 cnt with
    | ok lps =>
      rw [h2] at h
      simp only at h
      unfold specRead
      rw [rdAt_u16at h1]
      simp only [rdAtN_u16s h2]
      exact lookups_spec b extType lps 0 0 ls h
    | err e => rw [h2] at h; simp at h
    | panic s => rw [h2] at h; simp at h
  | err e => rw [h1] at h; simp at h
  | panic s => rw [h1] at h; simp at h

end SfntV.Otl.LL
