/-
Helper lemmas for C15 (feature selection).  Property theorems are in Props/C15.lean.
-/
import SfntV.Model.LayoutFind

namespace SfntV.Layout

theorem mem_insertU (a x : Nat) (l : List Nat) : a ∈ insertU x l ↔ a = x ∨ a ∈ l := by
  induction l with
  | nil => simp [insertU]
  | cons y r ih =>
    unfold insertU
    split
    · simp
    · split
      · rename_i h; subst h; simp
      · simp only [List.mem_cons, ih]
        constructor
        · rintro (h | h | h)
          · exact Or.inr (Or.inl h)
          · exact Or.inl h
          · exact Or.inr (Or.inr h)
        · rintro (h | h | h)
          · exact Or.inr (Or.inl h)
          · exact Or.inl h
          · exact Or.inr (Or.inr h)

theorem insertU_sorted (x : Nat) (l : List Nat) (h : l.Pairwise (· < ·)) :
    (insertU x l).Pairwise (· < ·) := by
  induction l with
  | nil => simp [insertU]
  | cons y r ih =>
    unfold insertU
    rw [List.pairwise_cons] at h
    split
    · rename_i hxy
      refine List.pairwise_cons.mpr ⟨?_, List.pairwise_cons.mpr h⟩
      intro a ha
      rcases List.mem_cons.mp ha with ha | ha
      · omega
      · have := h.1 a ha; omega
    · split
      · exact List.pairwise_cons.mpr h
      · refine List.pairwise_cons.mpr ⟨?_, ih h.2⟩
        intro a ha
        rcases (mem_insertU a x r).mp ha with ha | ha
        · omega
        · exact h.1 a ha

theorem mem_toSet (a : Nat) (l : List Nat) : a ∈ toSet l ↔ a ∈ l := by
  induction l with
  | nil => simp [toSet]
  | cons y r ih =>
    have : toSet (y :: r) = insertU y (toSet r) := rfl
    rw [this, mem_insertU, ih]; simp

theorem toSet_sorted (l : List Nat) : (toSet l).Pairwise (· < ·) := by
  induction l with
  | nil => simp [toSet]
  | cons y r ih => exact insertU_sorted y _ ih

theorem nodup_of_strict (l : List Nat) (h : l.Pairwise (· < ·)) : l.Nodup :=
  h.imp (fun hab => Nat.ne_of_lt hab)

def natLe (a b : Nat) : Bool := decide (a ≤ b)

/-- Whatever order the Go runtime ranges over the `includeLookup` map in (`ks`: its keys, each
once), filtering and `sort.Slice` produce the model's `toSet`. -/
theorem mapOrder_irrelevant (sel ks : List Nat) (n : Nat) (hnd : ks.Nodup)
    (hk : ∀ a, a ∈ ks ↔ a ∈ sel) :
    (ks.filter (· < n)).mergeSort natLe = toSet (sel.filter (· < n)) := by
  have hs1 : ((ks.filter (· < n)).mergeSort natLe).Pairwise (fun a b => natLe a b = true) :=
    List.pairwise_mergeSort (by intro a b c; simp only [natLe, decide_eq_true_eq]; omega)
      (by intro a b; simp only [natLe, Bool.or_eq_true, decide_eq_true_eq]; omega) _
  have hs2 : (toSet (sel.filter (· < n))).Pairwise (fun a b => natLe a b = true) :=
    (toSet_sorted _).imp (by intro a b h; simp only [natLe, decide_eq_true_eq]; omega)
  have hp : ((ks.filter (· < n)).mergeSort natLe).Perm (toSet (sel.filter (· < n))) := by
    refine (List.mergeSort_perm _ _).trans ?_
    refine (List.perm_ext_iff_of_nodup (hnd.filter _) (nodup_of_strict _ (toSet_sorted _))).mpr ?_
    intro a
    rw [mem_toSet, List.mem_filter, List.mem_filter, hk]
  refine List.Perm.eq_of_pairwise (le := fun a b => natLe a b = true) ?_ hs1 hs2 hp
  intro a b _ _ h1 h2
  simp only [natLe, decide_eq_true_eq] at h1 h2
  omega

theorem mem_featLookups (fl : List Feature) (i l : Nat) :
    l ∈ featLookups fl i ↔ ∃ f, fl[i]? = some f ∧ l ∈ f.lookups := by
  unfold featLookups
  cases fl[i]? <;> simp

theorem mem_optLookups (fl : List Feature) (sw : String → Bool) (i l : Nat) :
    l ∈ optLookups fl sw i ↔ ∃ f, fl[i]? = some f ∧ sw f.tag = true ∧ l ∈ f.lookups := by
  unfold optLookups
  cases fl[i]? with
  | none => simp
  | some f => by_cases h : sw f.tag <;> simp [h]

theorem mem_selected (fl : List Feature) (sw : String → Bool) (ls : LangSys) (l : Nat) :
    l ∈ selected fl sw ls ↔
      (∃ f, fl[ls.required]? = some f ∧ l ∈ f.lookups) ∨
      (∃ i ∈ ls.optional, ∃ f, fl[i]? = some f ∧ sw f.tag = true ∧ l ∈ f.lookups) := by
  unfold selected
  rw [List.mem_append, mem_featLookups, List.mem_flatMap]
  simp only [mem_optLookups]

theorem mem_lookupsOf (fl : List Feature) (n : Nat) (sw : String → Bool) (ls : LangSys) (l : Nat) :
    l ∈ lookupsOf fl n sw ls ↔ l < n ∧ l ∈ selected fl sw ls := by
  unfold lookupsOf
  rw [mem_toSet, List.mem_filter]
  simp only [decide_eq_true_eq]
  exact And.comm

theorem strictAsc_iff (r : List Nat) : strictAsc r = true ↔ r.Pairwise (· < ·) := by
  induction r with
  | nil => simp [strictAsc]
  | cons a t ih =>
    cases t with
    | nil => simp [strictAsc]
    | cons b t =>
      simp only [strictAsc, Bool.and_eq_true, decide_eq_true_eq, ih]
      constructor
      · rintro ⟨hab, ht⟩
        refine List.pairwise_cons.mpr ⟨?_, ht⟩
        intro c hc
        rcases List.mem_cons.mp hc with hc | hc
        · omega
        · have := (List.pairwise_cons.mp ht).1 c hc; omega
      · intro h
        have h' := List.pairwise_cons.mp h
        exact ⟨h'.1 b (List.mem_cons_self), h'.2⟩

/-- a strictly ascending list is determined by its members -/
theorem eq_of_strict_of_mem (r s : List Nat) (hr : r.Pairwise (· < ·)) (hs : s.Pairwise (· < ·))
    (h : ∀ a, a ∈ r ↔ a ∈ s) : r = s := by
  have hp : r.Perm s :=
    (List.perm_ext_iff_of_nodup (nodup_of_strict _ hr) (nodup_of_strict _ hs)).mpr h
  refine List.Perm.eq_of_pairwise (le := fun a b => a ≤ b) ?_
    (hr.imp (by intro a b h; omega)) (hs.imp (by intro a b h; omega)) hp
  intro a b _ _ h1 h2; omega

/-- the executable postcondition characterises the model's answer -/
theorem postOk_iff (fl : List Feature) (n : Nat) (sw : String → Bool) (ls : LangSys) (r : List Nat) :
    postOk fl n sw ls r = true ↔ r = lookupsOf fl n sw ls := by
  constructor
  · intro h
    simp only [postOk, Bool.and_eq_true, List.all_eq_true, decide_eq_true_eq, Bool.or_eq_true,
      Bool.not_eq_true', decide_eq_false_iff_not, List.contains_iff_mem] at h
    obtain ⟨⟨h1, h2⟩, h3⟩ := h
    refine eq_of_strict_of_mem _ _ ((strictAsc_iff r).mp h1) (by unfold lookupsOf; exact toSet_sorted _) ?_
    intro a
    rw [mem_lookupsOf]
    constructor
    · intro ha; exact h2 a ha
    · rintro ⟨ha1, ha2⟩
      rcases h3 a ha2 with h | h
      · omega
      · exact h
  · intro h
    subst h
    simp only [postOk, Bool.and_eq_true, List.all_eq_true, decide_eq_true_eq, Bool.or_eq_true,
      Bool.not_eq_true', decide_eq_false_iff_not, List.contains_iff_mem]
    refine ⟨⟨(strictAsc_iff _).mpr (by unfold lookupsOf; exact toSet_sorted _), ?_⟩, ?_⟩
    · intro a ha; exact (mem_lookupsOf fl n sw ls a).mp ha
    · intro a ha
      by_cases hn : a < n
      · exact Or.inr ((mem_lookupsOf fl n sw ls a).mpr ⟨hn, ha⟩)
      · exact Or.inl hn

/-! ### independence of the range order -/

theorem tagLe_trans (a b c : String) (h1 : tagLe a b = true) (h2 : tagLe b c = true) : tagLe a c = true := by
  simp only [tagLe, decide_eq_true_eq] at *
  exact String.le_trans h1 h2

theorem tagLe_total (a b : String) : (tagLe a b || tagLe b a) = true := by
  simp only [tagLe, Bool.or_eq_true, decide_eq_true_eq]
  exact String.le_total a b

theorem sortedTags_perm {s₁ s₂ : List (String × Option LangSys)} (hp : s₁.Perm s₂) :
    sortedTags s₁ = sortedTags s₂ := by
  unfold sortedTags
  have hperm : ((s₁.map (·.1)).mergeSort tagLe).Perm ((s₂.map (·.1)).mergeSort tagLe) :=
    (List.mergeSort_perm _ _).trans ((hp.map _).trans (List.mergeSort_perm _ _).symm)
  refine List.Perm.eq_of_pairwise (le := fun a b => tagLe a b = true) ?_
    (List.pairwise_mergeSort tagLe_trans tagLe_total _)
    (List.pairwise_mergeSort tagLe_trans tagLe_total _) hperm
  intro a b _ _ h1 h2
  simp only [tagLe, decide_eq_true_eq] at h1 h2
  exact String.le_antisymm h1 h2

theorem find_key_unique (s : List (String × Option LangSys)) (hnd : (s.map (·.1)).Nodup)
    (e : String × Option LangSys) (he : e ∈ s) : s.find? (·.1 == e.1) = some e := by
  induction s with
  | nil => cases he
  | cons x r ih =>
    rw [List.map_cons, List.nodup_cons] at hnd
    rcases List.mem_cons.mp he with h | h
    · subst h; simp [List.find?]
    · have hne : x.1 ≠ e.1 := by
        intro heq
        exact hnd.1 (heq ▸ List.mem_map_of_mem h)
      have : (x.1 == e.1) = false := by simpa using hne
      rw [List.find?_cons, this]
      exact ih hnd.2 h

theorem scriptGet_perm {s₁ s₂ : List (String × Option LangSys)} (hp : s₁.Perm s₂)
    (hnd : (s₁.map (·.1)).Nodup) (t : String) : scriptGet s₁ t = scriptGet s₂ t := by
  have hnd2 : (s₂.map (·.1)).Nodup := (hp.map _).nodup_iff.mp hnd
  unfold scriptGet
  cases h1 : s₁.find? (·.1 == t) with
  | some e =>
    have he := List.mem_of_find?_eq_some h1
    have hk : e.1 = t := by simpa using List.find?_some h1
    have := find_key_unique s₂ hnd2 e (hp.mem_iff.mp he)
    rw [hk] at this
    rw [this]
  | none =>
    cases h2 : s₂.find? (·.1 == t) with
    | none => rfl
    | some e =>
      have he := List.mem_of_find?_eq_some h2
      have hk : e.1 = t := by simpa using List.find?_some h2
      have := find_key_unique s₁ hnd e (hp.mem_iff.mpr he)
      rw [hk, h1] at this
      cases this

theorem findLookups_perm (m : Matcher) (s₁ s₂ : List (String × Option LangSys)) (fl : List Feature)
    (n : Nat) (sw : String → Bool) (hnd : (s₁.map (·.1)).Nodup) (hp : s₁.Perm s₂) :
    findLookups m s₁ fl n sw = findLookups m s₂ fl n sw := by
  unfold findLookups
  have he : s₁.isEmpty = s₂.isEmpty := by
    cases s₁ with
    | nil => rw [List.nil_perm.mp hp]
    | cons a r =>
      cases s₂ with
      | nil => exact absurd (List.perm_nil.mp hp) (by simp)
      | cons b t => rfl
  rw [he, sortedTags_perm hp]
  have : chosen m s₁ (sortedTags s₂) = chosen m s₂ (sortedTags s₂) := by
    unfold chosen
    cases (sortedTags s₂)[m.pick (sortedTags s₂)]? with
    | none => rfl
    | some t => exact scriptGet_perm hp hnd t
  rw [this]

/-- for a non-empty script list the matcher's answer names one of the script records -/
theorem chosen_tag_mem (m : Matcher) (s : List (String × Option LangSys)) (hne : s ≠ []) :
    ∃ t, (sortedTags s)[m.pick (sortedTags s)]? = some t ∧ t ∈ s.map (·.1) := by
  have hlen : (sortedTags s).length = s.length := by
    unfold sortedTags; rw [List.length_mergeSort, List.length_map]
  have hne' : sortedTags s ≠ [] := by
    intro h; rw [h] at hlen; exact hne (List.eq_nil_of_length_eq_zero hlen.symm)
  have hlt := m.lt _ hne'
  refine ⟨(sortedTags s)[m.pick (sortedTags s)], List.getElem?_eq_getElem hlt, ?_⟩
  have : (sortedTags s)[m.pick (sortedTags s)] ∈ sortedTags s := List.getElem_mem hlt
  exact (List.mergeSort_perm _ _).mem_iff.mp this

end SfntV.Layout
