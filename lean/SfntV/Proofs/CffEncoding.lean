/-
Helper lemmas about the encoding model (cff/encoding.go).  Property theorems: Props/C13.lean.
-/
import SfntV.Model.CffEncoding
import SfntV.Proofs.CffIndex
import SfntV.Proofs.CffCharset

namespace SfntV.Cff
open SfntV

/-! ### vectors as functions -/

theorem getD_set (l : List Nat) (i j v : Nat) :
    (l.set i v).getD j 0 = if i = j ∧ i < l.length then v else l.getD j 0 := by
  simp only [List.getD_eq_getElem?_getD, List.getElem?_set]
  by_cases h : i = j
  · subst h
    by_cases hl : i < l.length
    · simp [hl]
    · simp [hl, List.getElem?_eq_none (Nat.le_of_not_lt hl)]
  · simp [h]

theorem ext_getD (a b : List Nat) (hl : a.length = b.length) (h : ∀ c, c < a.length → a.getD c 0 = b.getD c 0) :
    a = b := by
  apply List.ext_getElem hl
  intro i h1 h2
  have := h i h1
  simpa [List.getD_eq_getElem?_getD, List.getElem?_eq_getElem h1, List.getElem?_eq_getElem h2] using this

/-! ### format 0: `readCodes` on a list of distinct codes -/

/-- processing codes `P` (all `< res.length`), glyph ids `cur, cur+1, …`: if every code is still
free, every code gets its glyph id and nothing else changes -/
theorem readCodes_spec : ∀ (P : List UInt8) (res : List Nat) (cur : Nat),
    (∀ b ∈ P, b.toNat < res.length) → (∀ b ∈ P, res.getD b.toNat 0 = 0) →
    (P.map (·.toNat)).Nodup → 0 < cur → cur + P.length < 65536 →
    ∃ res', readCodes P res cur = .ok (res', cur + P.length) ∧ res'.length = res.length ∧
      ∀ c, res'.getD c 0 =
        match (P.map (·.toNat)).idxOf? c with
        | some i => cur + i
        | none => res.getD c 0 := by
  intro P
  induction P with
  | nil => intro res cur _ _ _ _ _; exact ⟨res, rfl, rfl, fun c => by simp⟩
  | cons b bs ih =>
    intro res cur hlt hfree hnd hcur hmax
    have hb := hfree b (List.mem_cons_self ..)
    have hbl := hlt b (List.mem_cons_self ..)
    simp only [List.map_cons, List.nodup_cons] at hnd
    simp only [readCodes, hb, ne_eq, not_true_eq_false, if_false]
    have hmod : (cur + 1) % 65536 = cur + 1 := Nat.mod_eq_of_lt (by simp at hmax; omega)
    rw [hmod]
    obtain ⟨res', h1, h2, h3⟩ := ih (res.set b.toNat cur) (cur + 1)
      (fun x hx => by rw [List.length_set]; exact hlt x (List.mem_cons_of_mem _ hx))
      (fun x hx => by
        rw [getD_set]
        have hne : ¬ (b.toNat = x.toNat ∧ b.toNat < res.length) := by
          intro h
          exact hnd.1 (by rw [h.1]; exact List.mem_map_of_mem hx)
        simp only [hne, if_false]
        exact hfree x (List.mem_cons_of_mem _ hx))
      hnd.2 (by omega) (by simp at hmax ⊢; omega)
    refine ⟨res', by rw [h1]; simp; omega, by rw [h2, List.length_set], ?_⟩
    intro c
    rw [h3 c]
    simp only [List.map_cons, List.idxOf?_cons]
    by_cases hc : b.toNat = c
    · subst hc
      have : (bs.map (·.toNat)).idxOf? b.toNat = none := by
        rw [List.idxOf?_eq_none_iff]; exact hnd.1
      simp [this, getD_set, hbl]
    · have hc' : ¬ (b.toNat == c) = true := by simpa using hc
      simp only [hc', Bool.false_eq_true, if_false]
      cases hh : (bs.map (·.toNat)).idxOf? c with
      | none => simp [getD_set, hc]
      | some i =>
        simp only [Option.map_some]
        show cur + 1 + i = cur + (i + 1)
        omega


/-! ### format 1 reduces to format 0 -/

theorem readCodes_append : ∀ (A B : List UInt8) (res : List Nat) (cur : Nat),
    readCodes (A ++ B) res cur =
      match readCodes A res cur with
      | .ok (r, c) => readCodes B r c
      | .err e => .err e
      | .panic s => .panic s := by
  intro A
  induction A with
  | nil => intro B res cur; rfl
  | cons a as ih =>
    intro B res cur
    simp only [List.cons_append, readCodes]
    split
    · rfl
    · exact ih B _ _

theorem readCodes_cur : ∀ (P : List UInt8) (res : List Nat) (cur : Nat) (r : List Nat) (cu : Nat),
    readCodes P res cur = .ok (r, cu) → cur + P.length < 65536 → cu = cur + P.length := by
  intro P
  induction P with
  | nil =>
    intro res cur r cu h _
    simp only [readCodes] at h
    injection h with h
    injection h with _ h2
    simp [← h2]
  | cons b bs ih =>
    intro res cur r cu h hl
    simp only [readCodes] at h
    split at h
    · cases h
    · have hmod : (cur + 1) % 65536 = cur + 1 := Nat.mod_eq_of_lt (by simp at hl; omega)
      rw [hmod] at h
      have := ih _ _ _ _ h (by simp at hl ⊢; omega)
      simp; omega

/-- codes `j, j+1, …` (`k` of them) as bytes -/
def codeRange (j k : Nat) : List UInt8 := (List.range' j k).map UInt8.ofNat

theorem readRange_eq (n : Nat) : ∀ (k j : Nat) (res : List Nat) (cur : Nat),
    j + k ≤ 256 → cur + k ≤ n →
    readRange n k j res cur = readCodes (codeRange j k) res cur := by
  intro k
  induction k with
  | zero => intro j res cur _ _; rfl
  | succ k ih =>
    intro j res cur hj hc
    have hb : (UInt8.ofNat j).toNat = j := by simp [UInt8.toNat_ofNat']; omega
    simp only [readRange, codeRange, List.range'_succ, List.map_cons, readCodes, hb]
    have : ¬ cur ≥ n := by omega
    simp only [this, if_false]
    split
    · rfl
    · exact ih (j + 1) _ _ (by omega) (by omega)

def segCodes (ss : List (Nat × Nat)) : List UInt8 := ss.flatMap fun s => codeRange s.1 (s.2 + 1)

/-- reading the ranges of format 1 = assigning the listed codes one after the other -/
theorem readEncRanges_eq (n : Nat) (ss : List (Nat × Nat)) :
    ∀ (A B : Bytes) (c : Nat) (res : List Nat) (cur : Nat), c = A.length →
      (∀ s ∈ ss, s.1 + s.2 ≤ 255) → cur + (segCodes ss).length ≤ n → n < 65536 →
      readEncRanges (A ++ ss.flatMap (fun s => [UInt8.ofNat s.1, UInt8.ofNat s.2]) ++ B) n ss.length c res cur =
        match readCodes (segCodes ss) res cur with
        | .ok (r, cu) => .ok (r, cu, c + 2 * ss.length)
        | .err e => .err e
        | .panic s => .panic s := by
  induction ss with
  | nil =>
    intro A B c res cur _ _ _ _
    simp [readEncRanges, segCodes, readCodes]
  | cons s ss ih =>
    intro A B c res cur hc hb hn hn6
    have hs := hb s (List.mem_cons_self ..)
    simp only [List.length_cons, readEncRanges]
    have hd1 : A ++ (s :: ss).flatMap (fun s => [UInt8.ofNat s.1, UInt8.ofNat s.2]) ++ B
        = A ++ [UInt8.ofNat s.1] ++ ([UInt8.ofNat s.2] ++ ss.flatMap (fun s => [UInt8.ofNat s.1, UInt8.ofNat s.2]) ++ B) := by
      simp [List.flatMap_cons, List.append_assoc]
    have hd2 : A ++ (s :: ss).flatMap (fun s => [UInt8.ofNat s.1, UInt8.ofNat s.2]) ++ B
        = (A ++ [UInt8.ofNat s.1]) ++ [UInt8.ofNat s.2] ++ (ss.flatMap (fun s => [UInt8.ofNat s.1, UInt8.ofNat s.2]) ++ B) := by
      simp [List.flatMap_cons, List.append_assoc]
    have hd3 : A ++ (s :: ss).flatMap (fun s => [UInt8.ofNat s.1, UInt8.ofNat s.2]) ++ B
        = (A ++ [UInt8.ofNat s.1, UInt8.ofNat s.2]) ++ ss.flatMap (fun s => [UInt8.ofNat s.1, UInt8.ofNat s.2]) ++ B := by
      simp [List.flatMap_cons, List.append_assoc]
    have hr1 : rd (A ++ (s :: ss).flatMap (fun s => [UInt8.ofNat s.1, UInt8.ofNat s.2]) ++ B) c 1 = some [UInt8.ofNat s.1] := by
      rw [hd1]; exact rd_mid _ _ _ _ _ hc rfl
    have hr2 : rd (A ++ (s :: ss).flatMap (fun s => [UInt8.ofNat s.1, UInt8.ofNat s.2]) ++ B) (c + 1) 1 = some [UInt8.ofNat s.2] := by
      rw [hd2]; exact rd_mid _ _ _ _ _ (by simp [hc]) rfl
    rw [hr1]; simp only
    rw [hr2]; simp only
    have hv1 : beVal [UInt8.ofNat s.1] = s.1 := by rw [beVal_single]; omega
    have hv2 : beVal [UInt8.ofNat s.2] = s.2 := by rw [beVal_single]; omega
    rw [hv1, hv2]
    have : ¬ s.1 + s.2 > 255 := by omega
    simp only [this, if_false]
    have hlen : (segCodes (s :: ss)).length = (s.2 + 1) + (segCodes ss).length := by
      simp [segCodes, codeRange, List.flatMap_cons]
    rw [readRange_eq n (s.2 + 1) s.1 res cur (by omega) (by omega)]
    have hsc : segCodes (s :: ss) = codeRange s.1 (s.2 + 1) ++ segCodes ss := by
      simp [segCodes, List.flatMap_cons]
    rw [hsc, readCodes_append]
    cases hrc : readCodes (codeRange s.1 (s.2 + 1)) res cur with
    | err e => rfl
    | panic p => rfl
    | ok v =>
      obtain ⟨r, cu⟩ := v
      simp only
      have hcu := readCodes_cur _ _ _ _ _ hrc (by simp [codeRange]; omega)
      have hcl : (codeRange s.1 (s.2 + 1)).length = s.2 + 1 := by simp [codeRange]
      rw [hcl] at hcu
      rw [hd3, ih (A ++ [UInt8.ofNat s.1, UInt8.ofNat s.2]) B (c + 2) r cu (by simp [hc])
        (fun x hx => hb x (List.mem_cons_of_mem _ hx)) (by omega) hn6]
      cases readCodes (segCodes ss) r cu with
      | err e => rfl
      | panic p => rfl
      | ok w =>
        obtain ⟨r2, cu2⟩ := w
        simp only
        congr 3
        omega


/-! ### supplements -/

theorem sidLookup_go_none (sid : Nat) : ∀ (l : List Int) (off found : Nat),
    (∀ x ∈ l, (x % 65536).toNat ≠ sid) → sidLookup.go sid l off found = found := by
  intro l
  induction l with
  | nil => intro off found _; rfl
  | cons x xs ih =>
    intro off found h
    simp only [sidLookup.go]
    have := h x (List.mem_cons_self ..)
    simp only [this, if_false]
    exact ih _ _ (fun y hy => h y (List.mem_cons_of_mem _ hy))

theorem sidLookup_go_skip (sid : Nat) : ∀ (A l : List Int) (off found : Nat),
    (∀ x ∈ A, (x % 65536).toNat ≠ sid) →
    sidLookup.go sid (A ++ l) off found = sidLookup.go sid l (off + A.length) found := by
  intro A
  induction A with
  | nil => intro l off found _; simp
  | cons a as ih =>
    intro l off found h
    simp only [List.cons_append, sidLookup.go]
    have := h a (List.mem_cons_self ..)
    simp only [this, if_false]
    rw [ih l (off + 1) found (fun y hy => h y (List.mem_cons_of_mem _ hy))]
    simp only [List.length_cons]
    congr 1
    omega

/-- with pairwise distinct 16-bit names, the SID of glyph `g` leads back to `g` -/
theorem sidLookup_names (names : List Int) (g : Nat) (hg : g < names.length) (hg16 : g < 65536)
    (hnd : names.Nodup) (hr : ∀ x ∈ names, 0 ≤ x ∧ x ≤ 65535) :
    sidLookup names (names.getD g 0).toNat = g := by
  have hsplit : names = names.take g ++ (names.getD g 0 :: names.drop (g + 1)) := by
    have h1 : names.getD g 0 = names[g] := by
      simp [List.getD_eq_getElem?_getD, List.getElem?_eq_getElem hg]
    rw [h1, List.getElem_cons_drop_succ_eq_drop, List.take_append_drop]
  have hx := hr (names.getD g 0) (by
    rw [List.getD_eq_getElem?_getD, List.getElem?_eq_getElem hg]; simp)
  have hne : ∀ y ∈ names, y ≠ names.getD g 0 → (y % 65536).toNat ≠ (names.getD g 0).toNat := by
    intro y hy hyne h
    have := hr y hy
    apply hyne
    omega
  have hnd' := hnd
  rw [hsplit] at hnd'
  have hA : ∀ y ∈ names.take g, y ≠ names.getD g 0 := by
    intro y hy heq
    have := (List.nodup_append.mp hnd').2.2 y hy (names.getD g 0) (List.mem_cons_self ..)
    exact this heq
  have hB : ∀ y ∈ names.drop (g + 1), y ≠ names.getD g 0 := by
    intro y hy heq
    have := (List.nodup_cons.mp (List.nodup_append.mp hnd').2.1).1
    exact this (heq ▸ hy)
  unfold sidLookup
  conv => lhs; arg 2; rw [hsplit]
  rw [sidLookup_go_skip _ _ _ _ _ (fun y hy => hne y (List.mem_of_mem_take hy) (hA y hy))]
  simp only [sidLookup.go]
  have hself : ((names.getD g 0) % 65536).toNat = (names.getD g 0).toNat := by omega
  simp only [hself, if_true]
  rw [sidLookup_go_none _ _ _ _ (fun y hy => hne y (List.mem_of_mem_drop hy) (hB y hy))]
  simp only [List.length_take, Nat.zero_add]
  rw [Nat.min_eq_left (by omega), Nat.mod_eq_of_lt hg16]

/-- the supplement bytes of a list of (code, gid) entries -/
def supBytes (names : List Int) (X : List (Nat × Nat)) : Bytes :=
  X.flatMap fun e => UInt8.ofNat e.1 :: u16Bytes (names.getD e.2 0)

theorem extraBytes_eq (names : List Int) : ∀ (X : List (Nat × Nat)), (∀ e ∈ X, e.2 < names.length) →
    extraBytes names X = .ok (supBytes names X) := by
  intro X
  induction X with
  | nil => intro _; rfl
  | cons e es ih =>
    intro h
    obtain ⟨c, g⟩ := e
    have hg : g < names.length := h (c, g) (List.mem_cons_self ..)
    simp only [extraBytes, List.getElem?_eq_getElem hg, ih (fun x hx => h x (List.mem_cons_of_mem _ hx))]
    simp [supBytes, List.flatMap_cons, List.getD_eq_getElem?_getD, List.getElem?_eq_getElem hg]

theorem u16Bytes_eq (v : Int) : u16Bytes v = nameBytes v := rfl

theorem length_supBytes (names : List Int) (X : List (Nat × Nat)) : (supBytes names X).length = 3 * X.length := by
  induction X with
  | nil => rfl
  | cons e es ih =>
    have : supBytes names (e :: es) = (UInt8.ofNat e.1 :: u16Bytes (names.getD e.2 0)) ++ supBytes names es := by
      simp [supBytes, List.flatMap_cons]
    rw [this, List.length_append, ih]
    simp only [u16Bytes, List.length_cons, List.length_nil]
    omega

theorem lookup_none_of_not_mem (es : List (Nat × Nat)) (c : Nat) (h : c ∉ es.map (·.1)) :
    es.lookup c = none := by
  induction es with
  | nil => rfl
  | cons e es ih =>
    obtain ⟨k, v⟩ := e
    simp only [List.map_cons, List.mem_cons, not_or] at h
    simp only [List.lookup_cons]
    have : (c == k) = false := by simpa using h.1
    simp only [this]
    exact ih h.2

theorem readSups_spec (names : List Int) (hnd : names.Nodup) (hr : ∀ x ∈ names, 0 ≤ x ∧ x ≤ 65535)
    (hn16 : names.length ≤ 65536) :
    ∀ (X : List (Nat × Nat)) (A B : Bytes) (pos : Nat) (res : List Nat) (cur : Nat), pos = A.length →
      (∀ e ∈ X, e.1 < 256 ∧ e.1 < res.length ∧ e.2 ≠ 0 ∧ e.2 < cur ∧ e.2 < names.length ∧ res.getD e.1 0 = 0) →
      (X.map (·.1)).Nodup →
      ∃ res', readSups (A ++ supBytes names X ++ B) names X.length pos res cur = .ok res' ∧
        res'.length = res.length ∧
        ∀ c, res'.getD c 0 = match X.lookup c with
          | some g => g
          | none => res.getD c 0 := by
  intro X
  induction X with
  | nil => intro A B pos res cur _ _ _; exact ⟨res, rfl, rfl, fun c => rfl⟩
  | cons e es ih =>
    intro A B pos res cur hpos hX hnodup
    obtain ⟨cd, g⟩ := e
    obtain ⟨h1, h2, h3, h4, h5, h6⟩ := hX (cd, g) (List.mem_cons_self ..)
    simp only [List.map_cons, List.nodup_cons] at hnodup
    simp only [List.length_cons, readSups]
    have hd1 : A ++ supBytes names ((cd, g) :: es) ++ B
        = A ++ [UInt8.ofNat cd] ++ (u16Bytes (names.getD g 0) ++ supBytes names es ++ B) := by
      simp [supBytes, List.flatMap_cons, List.append_assoc]
    have hd2 : A ++ supBytes names ((cd, g) :: es) ++ B
        = (A ++ [UInt8.ofNat cd]) ++ u16Bytes (names.getD g 0) ++ (supBytes names es ++ B) := by
      simp [supBytes, List.flatMap_cons, List.append_assoc]
    have hd3 : A ++ supBytes names ((cd, g) :: es) ++ B
        = (A ++ (UInt8.ofNat cd :: u16Bytes (names.getD g 0))) ++ supBytes names es ++ B := by
      simp [supBytes, List.flatMap_cons, List.append_assoc]
    have hr1 : rd (A ++ supBytes names ((cd, g) :: es) ++ B) pos 1 = some [UInt8.ofNat cd] := by
      rw [hd1]; exact rd_mid _ _ _ _ _ hpos rfl
    have hr2 : rd (A ++ supBytes names ((cd, g) :: es) ++ B) (pos + 1) 2 = some (u16Bytes (names.getD g 0)) := by
      rw [hd2]; exact rd_mid _ _ _ _ _ (by simp [hpos]) rfl
    rw [hr1]; simp only
    have hv1 : beVal [UInt8.ofNat cd] = cd := by rw [beVal_single]; omega
    rw [hv1]
    simp only [h6, ne_eq, not_true_eq_false, if_false]
    rw [hr2]; simp only
    have hx := hr (names.getD g 0) (by
      rw [List.getD_eq_getElem?_getD, List.getElem?_eq_getElem h5]; simp)
    rw [u16Bytes_eq, beVal_nameBytes _ hx, sidLookup_names names g h5 (by omega) hnd hr]
    have : ¬ g ≥ cur := by omega
    simp only [this, if_false, h3, ne_eq, not_false_eq_true, if_true]
    obtain ⟨res', q1, q2, q3⟩ := ih (A ++ (UInt8.ofNat cd :: u16Bytes (names.getD g 0))) B (pos + 3)
      (res.set cd g) cur (by simp [u16Bytes, hpos])
      (fun x hx => by
        obtain ⟨a1, a2, a3, a4, a5, a6⟩ := hX x (List.mem_cons_of_mem _ hx)
        refine ⟨a1, by rw [List.length_set]; exact a2, a3, a4, a5, ?_⟩
        rw [getD_set]
        have : ¬ (cd = x.1 ∧ cd < res.length) := by
          intro h; exact hnodup.1 (by rw [h.1]; exact List.mem_map_of_mem hx)
        simp only [this, if_false]; exact a6)
      hnodup.2
    rw [hd3, q1]
    refine ⟨res', rfl, by rw [q2, List.length_set], ?_⟩
    intro c
    rw [q3 c]
    simp only [List.lookup_cons]
    by_cases hc : c = cd
    · subst hc
      have : es.lookup c = none := lookup_none_of_not_mem es c hnodup.1
      simp [this, getD_set, h2]
    · have hc' : (c == cd) = false := by simpa using hc
      simp only [hc']
      cases es.lookup c with
      | some g' => rfl
      | none =>
        simp only
        rw [getD_set]
        have : ¬ (cd = c ∧ cd < res.length) := fun h => hc h.1.symm
        simp [this]


/-! ### the scan of `encodeEncoding` -/

theorem getD_snoc_lt (l : List Nat) (g c : Nat) (h : c < l.length) : (l ++ [g]).getD c 0 = l.getD c 0 := by
  simp [List.getD_eq_getElem?_getD, List.getElem?_append_left h]

theorem getD_snoc_eq (l : List Nat) (g : Nat) : (l ++ [g]).getD l.length 0 = g := by
  simp [List.getD_eq_getElem?_getD]

/-- what the scan has established after the codes `0 … l.length-1` -/
structure ScanInv (l : List Nat) (codes extra : List (Nat × Nat)) (mx : Nat) : Prop where
  some_iff : ∀ g c, codes.lookup g = some c ↔
    (c < l.length ∧ l.getD c 0 = g ∧ g ≠ 0 ∧ ∀ c', c' < c → l.getD c' 0 ≠ g)
  none_imp : ∀ g, g ≠ 0 → codes.lookup g = none → ∀ c, c < l.length → l.getD c 0 ≠ g
  extra_mem : ∀ e ∈ extra, e.1 < l.length ∧ l.getD e.1 0 = e.2 ∧ e.2 ≠ 0 ∧ ∃ c0, c0 < e.1 ∧ l.getD c0 0 = e.2
  extra_nodup : (extra.map (·.1)).Nodup
  complete : ∀ c, c < l.length → l.getD c 0 ≠ 0 →
    (∀ c', c' < c → l.getD c' 0 ≠ l.getD c 0) ∨ (c, l.getD c 0) ∈ extra
  mx_ge : ∀ c, c < l.length → l.getD c 0 ≤ mx
  mx_att : mx = 0 ∨ ∃ c, c < l.length ∧ l.getD c 0 = mx
  count : extra.length + codes.length ≤ l.length

theorem scanInv_nil : ScanInv [] [] [] 0 where
  some_iff := by intro g c; simp
  none_imp := by intro g _ _ c hc; simp at hc
  extra_mem := by intro e he; simp at he
  extra_nodup := by simp
  complete := by intro c hc; simp at hc
  mx_ge := by intro c hc; simp at hc
  mx_att := Or.inl rfl
  count := by simp

theorem scanInv_step (l : List Nat) (codes extra : List (Nat × Nat)) (mx g : Nat)
    (hl : l.length < 256) (inv : ScanInv l codes extra mx) :
    let st := scanEncoding l.length [g] codes extra mx
    ScanInv (l ++ [g]) st.1 st.2.1 st.2.2 := by
  have hlen : (l ++ [g]).length = l.length + 1 := by simp
  have hmod : l.length % 256 = l.length := Nat.mod_eq_of_lt hl
  by_cases hg : g = 0
  · subst hg
    simp only [scanEncoding, if_true]
    exact {
      some_iff := by
        intro g c
        rw [inv.some_iff g c, hlen]
        constructor
        · rintro ⟨h1, h2, h3, h4⟩
          refine ⟨by omega, by rw [getD_snoc_lt l 0 c h1]; exact h2, h3, ?_⟩
          intro c' hc'; rw [getD_snoc_lt l 0 c' (by omega)]; exact h4 c' hc'
        · rintro ⟨h1, h2, h3, h4⟩
          have hc : c < l.length := by
            rcases Nat.lt_or_ge c l.length with h | h
            · exact h
            · have : c = l.length := by omega
              subst this; rw [getD_snoc_eq] at h2; exact absurd h2.symm h3
          refine ⟨hc, by rw [← getD_snoc_lt l 0 c hc]; exact h2, h3, ?_⟩
          intro c' hc'; rw [← getD_snoc_lt l 0 c' (by omega)]; exact h4 c' hc'
      none_imp := by
        intro g hg hn c hc
        rw [hlen] at hc
        rcases Nat.lt_or_ge c l.length with h | h
        · rw [getD_snoc_lt l 0 c h]; exact inv.none_imp g hg hn c h
        · have : c = l.length := by omega
          subst this; rw [getD_snoc_eq]; exact fun h => hg h.symm
      extra_mem := by
        intro e he
        obtain ⟨h1, h2, h3, c0, h4, h5⟩ := inv.extra_mem e he
        refine ⟨by rw [hlen]; omega, by rw [getD_snoc_lt l 0 _ h1]; exact h2, h3, c0, h4, ?_⟩
        rw [getD_snoc_lt l 0 _ (by omega)]; exact h5
      extra_nodup := inv.extra_nodup
      complete := by
        intro c hc hne
        rw [hlen] at hc
        rcases Nat.lt_or_ge c l.length with h | h
        · rw [getD_snoc_lt l 0 c h] at hne ⊢
          rcases inv.complete c h hne with h' | h'
          · left; intro c' hc'; rw [getD_snoc_lt l 0 c' (by omega)]; exact h' c' hc'
          · right; exact h'
        · have : c = l.length := by omega
          subst this; rw [getD_snoc_eq] at hne; exact absurd rfl hne
      mx_ge := by
        intro c hc
        rw [hlen] at hc
        rcases Nat.lt_or_ge c l.length with h | h
        · rw [getD_snoc_lt l 0 c h]; exact inv.mx_ge c h
        · have : c = l.length := by omega
          subst this; rw [getD_snoc_eq]; omega
      mx_att := by
        rcases inv.mx_att with h | ⟨c, h1, h2⟩
        · exact Or.inl h
        · exact Or.inr ⟨c, by rw [hlen]; omega, by rw [getD_snoc_lt l 0 c h1]; exact h2⟩
      count := by have := inv.count; rw [hlen]; omega }
  · cases hlk : codes.lookup g with
    | some c0 =>
      simp only [scanEncoding, hg, if_false, hlk, hmod]
      obtain ⟨k1, k2, k3, k4⟩ := (inv.some_iff g c0).mp hlk
      exact {
        some_iff := by
          intro g' c
          rw [inv.some_iff g' c, hlen]
          constructor
          · rintro ⟨h1, h2, h3, h4⟩
            refine ⟨by omega, by rw [getD_snoc_lt l g c h1]; exact h2, h3, ?_⟩
            intro c' hc'; rw [getD_snoc_lt l g c' (by omega)]; exact h4 c' hc'
          · rintro ⟨h1, h2, h3, h4⟩
            have hc : c < l.length := by
              rcases Nat.lt_or_ge c l.length with h | h
              · exact h
              · have : c = l.length := by omega
                subst this
                rw [getD_snoc_eq] at h2
                subst h2
                have := h4 c0 k1
                rw [getD_snoc_lt l g c0 k1] at this
                exact absurd k2 this
            refine ⟨hc, by rw [← getD_snoc_lt l g c hc]; exact h2, h3, ?_⟩
            intro c' hc'; rw [← getD_snoc_lt l g c' (by omega)]; exact h4 c' hc'
        none_imp := by
          intro g' hg' hn c hc
          rw [hlen] at hc
          rcases Nat.lt_or_ge c l.length with h | h
          · rw [getD_snoc_lt l g c h]; exact inv.none_imp g' hg' hn c h
          · have : c = l.length := by omega
            subst this; rw [getD_snoc_eq]
            intro heq; subst heq; rw [hlk] at hn; cases hn
        extra_mem := by
          intro e he
          rcases List.mem_append.mp he with he | he
          · obtain ⟨h1, h2, h3, c1, h4, h5⟩ := inv.extra_mem e he
            refine ⟨by rw [hlen]; omega, by rw [getD_snoc_lt l g _ h1]; exact h2, h3, c1, h4, ?_⟩
            rw [getD_snoc_lt l g _ (by omega)]; exact h5
          · simp only [List.mem_singleton] at he
            subst he
            refine ⟨by rw [hlen]; exact Nat.lt_succ_self _, getD_snoc_eq l g, hg, c0, k1, ?_⟩
            rw [getD_snoc_lt l g c0 k1]; exact k2
        extra_nodup := by
          rw [List.map_append, List.nodup_append]
          refine ⟨inv.extra_nodup, by simp, ?_⟩
          intro a ha b hb
          simp only [List.map_cons, List.map_nil, List.mem_singleton] at hb
          obtain ⟨e, he, rfl⟩ := List.mem_map.mp ha
          have := (inv.extra_mem e he).1
          omega
        complete := by
          intro c hc hne
          rw [hlen] at hc
          rcases Nat.lt_or_ge c l.length with h | h
          · rw [getD_snoc_lt l g c h] at hne ⊢
            rcases inv.complete c h hne with h' | h'
            · left; intro c' hc'; rw [getD_snoc_lt l g c' (by omega)]; exact h' c' hc'
            · right; exact List.mem_append_left _ h'
          · have : c = l.length := by omega
            subst this
            right
            rw [getD_snoc_eq]
            exact List.mem_append_right _ (List.mem_singleton.mpr rfl)
        mx_ge := by
          intro c hc
          rw [hlen] at hc
          rcases Nat.lt_or_ge c l.length with h | h
          · rw [getD_snoc_lt l g c h]; exact inv.mx_ge c h
          · have : c = l.length := by omega
            subst this; rw [getD_snoc_eq]
            have := inv.mx_ge c0 k1; omega
        mx_att := by
          rcases inv.mx_att with h | ⟨c, h1, h2⟩
          · exact Or.inl h
          · exact Or.inr ⟨c, by rw [hlen]; omega, by rw [getD_snoc_lt l g c h1]; exact h2⟩
        count := by have := inv.count; rw [hlen]; simp only [List.length_append, List.length_cons, List.length_nil]; omega }
    | none =>
      simp only [scanEncoding, hg, if_false, hlk, hmod]
      have hnone := inv.none_imp g hg hlk
      exact {
        some_iff := by
          intro g' c
          rw [List.lookup_append, hlen]
          constructor
          · intro h
            cases hl' : codes.lookup g' with
            | some c1 =>
              rw [hl'] at h
              simp only [Option.or] at h
              injection h with h; subst h
              obtain ⟨h1, h2, h3, h4⟩ := (inv.some_iff g' c1).mp hl'
              refine ⟨by omega, by rw [getD_snoc_lt l g c1 h1]; exact h2, h3, ?_⟩
              intro c' hc'; rw [getD_snoc_lt l g c' (by omega)]; exact h4 c' hc'
            | none =>
              rw [hl'] at h
              simp only [Option.or, List.lookup_cons, List.lookup_nil] at h
              by_cases hgg : g' = g
              · subst hgg
                simp at h
                subst h
                refine ⟨Nat.lt_succ_self _, getD_snoc_eq l g', hg, ?_⟩
                intro c' hc'; rw [getD_snoc_lt l g' c' hc']; exact hnone c' hc'
              · have : (g' == g) = false := by simpa using hgg
                simp [this] at h
          · rintro ⟨h1, h2, h3, h4⟩
            rcases Nat.lt_or_ge c l.length with h | h
            · have : codes.lookup g' = some c := (inv.some_iff g' c).mpr
                ⟨h, by rw [← getD_snoc_lt l g c h]; exact h2, h3,
                 fun c' hc' => by rw [← getD_snoc_lt l g c' (by omega)]; exact h4 c' hc'⟩
              rw [this]; rfl
            · have hc : c = l.length := by omega
              subst hc
              rw [getD_snoc_eq] at h2
              subst h2
              rw [hlk]
              simp
        none_imp := by
          intro g' hg' hn c hc
          rw [List.lookup_append] at hn
          have hn1 : codes.lookup g' = none := by
            cases h : codes.lookup g' with
            | none => rfl
            | some v => rw [h] at hn; simp at hn
          have hgg : g' ≠ g := by
            intro heq; subst heq
            rw [hn1] at hn; simp at hn
          rw [hlen] at hc
          rcases Nat.lt_or_ge c l.length with h | h
          · rw [getD_snoc_lt l g c h]; exact inv.none_imp g' hg' hn1 c h
          · have : c = l.length := by omega
            subst this; rw [getD_snoc_eq]; exact fun h => hgg h.symm
        extra_mem := by
          intro e he
          obtain ⟨h1, h2, h3, c1, h4, h5⟩ := inv.extra_mem e he
          refine ⟨by rw [hlen]; omega, by rw [getD_snoc_lt l g _ h1]; exact h2, h3, c1, h4, ?_⟩
          rw [getD_snoc_lt l g _ (by omega)]; exact h5
        extra_nodup := inv.extra_nodup
        complete := by
          intro c hc hne
          rw [hlen] at hc
          rcases Nat.lt_or_ge c l.length with h | h
          · rw [getD_snoc_lt l g c h] at hne ⊢
            rcases inv.complete c h hne with h' | h'
            · left; intro c' hc'; rw [getD_snoc_lt l g c' (by omega)]; exact h' c' hc'
            · right; exact h'
          · have : c = l.length := by omega
            subst this
            left
            intro c' hc'
            rw [getD_snoc_eq, getD_snoc_lt l g c' hc']
            exact hnone c' hc'
        mx_ge := by
          intro c hc
          rw [hlen] at hc
          rcases Nat.lt_or_ge c l.length with h | h
          · rw [getD_snoc_lt l g c h]
            have := inv.mx_ge c h
            split <;> omega
          · have : c = l.length := by omega
            subst this; rw [getD_snoc_eq]
            split <;> omega
        mx_att := by
          right
          by_cases hgm : g > mx
          · simp only [hgm, if_true]
            exact ⟨l.length, by rw [hlen]; exact Nat.lt_succ_self _, getD_snoc_eq l g⟩
          · simp only [hgm, if_false]
            rcases inv.mx_att with h | ⟨c, h1, h2⟩
            · exfalso; omega
            · exact ⟨c, by rw [hlen]; omega, by rw [getD_snoc_lt l g c h1]; exact h2⟩
        count := by have := inv.count; rw [hlen]; simp only [List.length_append, List.length_cons, List.length_nil]; omega }


theorem scan_cons (p g : Nat) (rest : List Nat) (codes extra : List (Nat × Nat)) (mx : Nat) :
    scanEncoding p (g :: rest) codes extra mx =
      scanEncoding (p + 1) rest (scanEncoding p [g] codes extra mx).1
        (scanEncoding p [g] codes extra mx).2.1 (scanEncoding p [g] codes extra mx).2.2 := by
  simp only [scanEncoding]
  split
  · rfl
  · split <;> rfl

theorem scanInv_all : ∀ (rest l : List Nat) (codes extra : List (Nat × Nat)) (mx : Nat),
    l.length + rest.length ≤ 256 → ScanInv l codes extra mx →
    ScanInv (l ++ rest) (scanEncoding l.length rest codes extra mx).1
      (scanEncoding l.length rest codes extra mx).2.1 (scanEncoding l.length rest codes extra mx).2.2 := by
  intro rest
  induction rest with
  | nil => intro l codes extra mx _ inv; simpa [scanEncoding] using inv
  | cons g rest ih =>
    intro l codes extra mx hlen inv
    rw [scan_cons]
    have hstep := scanInv_step l codes extra mx g (by simp at hlen; omega) inv
    have := ih (l ++ [g]) _ _ _ (by simp at hlen ⊢; omega) hstep
    simp only [List.length_append, List.length_cons, List.length_nil, Nat.zero_add, List.append_assoc,
      List.singleton_append] at this
    exact this

/-- the state of `encodeEncoding` after its first loop -/
theorem scanInv_enc (enc : List Nat) (h : enc.length ≤ 256) :
    ScanInv enc (scanEncoding 0 enc [] [] 0).1 (scanEncoding 0 enc [] [] 0).2.1 (scanEncoding 0 enc [] [] 0).2.2 := by
  have := scanInv_all enc [] [] [] 0 (by simpa using h) scanInv_nil
  simpa using this


/-! ### the segment loop -/

/-- the codes covered by a list of format-1 ranges, in order -/
def expandN (ss : List (Nat × Nat)) : List Nat := ss.flatMap fun s => List.range' s.1 (s.2 + 1)

theorem expandN_snoc (acc : List (Nat × Nat)) (s : Nat × Nat) :
    expandN (acc ++ [s]) = expandN acc ++ List.range' s.1 (s.2 + 1) := by
  simp [expandN, List.flatMap_append]

theorem segCodes_eq (ss : List (Nat × Nat)) : segCodes ss = (expandN ss).map UInt8.ofNat := by
  simp [segCodes, expandN, codeRange, List.map_flatMap]

theorem sub16u8_eq (a b : Nat) (hb : b ≤ a) (ha : a < 65536) (hd : a - b < 256) : sub16u8 a b = a - b := by
  unfold sub16u8
  have h1 : b % 65536 = b := Nat.mod_eq_of_lt (by omega)
  rw [h1]
  have h2 : (a + 65536 - b) % 65536 = a - b := by
    have : a + 65536 - b = (a - b) + 65536 := by omega
    rw [this, Nat.add_mod_right, Nat.mod_eq_of_lt (by omega)]
  rw [h2, Nat.mod_eq_of_lt hd]

theorem segLoop_spec (codes : List (Nat × Nat)) (K : Nat) (cf : Nat → Nat) (hK : 1 ≤ K) (hK16 : K < 65536)
    (hlook : ∀ g, 1 ≤ g → g ≤ K → codes.lookup g = some (cf g) ∧ cf g < 256) :
    ∀ (fuel gid startGid startCode : Nat) (acc : List (Nat × Nat)),
      fuel + gid = K + 1 → 1 ≤ startGid → startGid ≤ gid → startGid ≤ K →
      cf startGid = startCode →
      (∀ g, startGid ≤ g → g < gid → cf g = startCode + (g - startGid)) →
      expandN acc ++ List.range' startCode (gid - startGid) = (List.range' 1 (gid - 1)).map cf →
      (∀ s ∈ acc, s.1 + s.2 ≤ 255) →
      ∃ ss, segLoop codes K fuel gid startGid startCode acc = .ok ss ∧
        expandN ss = (List.range' 1 K).map cf ∧ (∀ s ∈ ss, s.1 + s.2 ≤ 255) := by
  intro fuel
  induction fuel with
  | zero =>
    intro gid startGid startCode acc hf h1 h2 h3 hsc hrun hexp hacc
    have hg : gid = K + 1 := by omega
    subst hg
    have hKr := hrun K h3 (by omega)
    have hKc := (hlook K hK (Nat.le_refl _)).2
    have hsub : sub16u8 K startGid = K - startGid := sub16u8_eq K startGid h3 hK16 (by omega)
    refine ⟨_, rfl, ?_, ?_⟩
    · rw [expandN_snoc, hsub]
      simp only
      have : K - startGid + 1 = K + 1 - startGid := by omega
      rw [this, hexp]
      simp
    · intro s hs
      rcases List.mem_append.mp hs with h | h
      · exact hacc s h
      · simp only [List.mem_singleton] at h
        subst h
        simp only [hsub]; omega
  | succ fuel ih =>
    intro gid startGid startCode acc hf h1 h2 h3 hsc hrun hexp hacc
    have hgK : gid ≤ K := by omega
    have hg1 : 1 ≤ gid := by omega
    obtain ⟨hl, hc⟩ := hlook gid hg1 hgK
    simp only [segLoop, hl]
    by_cases hcmp : ((gid : Int) - startGid) ≠ (cf gid : Int) - startCode
    · rw [if_pos hcmp]
      have hgt : startGid < gid := by
        rcases Nat.lt_or_ge startGid gid with h | h
        · exact h
        · have : gid = startGid := by omega
          subst this
          exfalso; apply hcmp; rw [hsc]; omega
      have hprev := hrun (gid - 1) (by omega) (by omega)
      have hprevc := (hlook (gid - 1) (by omega) (by omega)).2
      have hsub : sub16u8 gid (startGid + 1) = gid - startGid - 1 := by
        rw [sub16u8_eq gid (startGid + 1) (by omega) (by omega) (by omega)]; omega
      rw [hsub]
      apply ih (gid + 1) gid (cf gid) (acc ++ [(startCode, gid - startGid - 1)]) (by omega) hg1 (by omega) hgK rfl
      · intro g hg hg'
        have : g = gid := by omega
        subst this; simp
      · rw [expandN_snoc]
        simp only
        have e1 : gid - startGid - 1 + 1 = gid - startGid := by omega
        have e2 : gid + 1 - gid = 1 := by omega
        have e3 : gid + 1 - 1 = (gid - 1) + 1 := by omega
        rw [e1, hexp, e2, e3]
        have r1 : List.range' (cf gid) 1 = [cf gid] := by simp [List.range']
        have r2 : List.range' 1 (gid - 1 + 1) = List.range' 1 (gid - 1) ++ [gid] := by
          rw [List.range'_concat]; simp; omega
        rw [r1, r2, List.map_append]
        rfl
      · intro s hs
        rcases List.mem_append.mp hs with h | h
        · exact hacc s h
        · simp only [List.mem_singleton] at h
          subst h
          simp only; omega
    · rw [if_neg hcmp]
      have heq : cf gid = startCode + (gid - startGid) := by
        have : ((gid : Int) - startGid) = (cf gid : Int) - startCode := by
          rcases Classical.em (((gid : Int) - startGid) = (cf gid : Int) - startCode) with h | h
          · exact h
          · exact absurd h hcmp
        omega
      apply ih (gid + 1) startGid startCode acc (by omega) h1 (by omega) h3 hsc
      · intro g hg hg'
        rcases Nat.lt_or_ge g gid with h | h
        · exact hrun g hg h
        · have : g = gid := by omega
          subst this; exact heq
      · have e1 : gid + 1 - startGid = (gid - startGid) + 1 := by omega
        have e3 : gid + 1 - 1 = (gid - 1) + 1 := by omega
        rw [e1, e3]
        have r1 : List.range' startCode (gid - startGid + 1)
            = List.range' startCode (gid - startGid) ++ [startCode + (gid - startGid)] := by
          rw [List.range'_concat]; simp
        have r2 : List.range' 1 (gid - 1 + 1) = List.range' 1 (gid - 1) ++ [gid] := by
          rw [List.range'_concat]; simp; omega
        rw [r1, r2, ← List.append_assoc, hexp, List.map_append, ← heq]
        rfl
      · exact hacc

end SfntV.Cff
