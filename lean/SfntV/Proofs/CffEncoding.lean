/-
Helper lemmas about the encoding model (cff/encoding.go).  Property theorems: Props/C13.lean.
-/
import SfntV.Model.CffEncoding
import SfntV.Proofs.CffIndex

namespace SfntV.Cff
open SfntV

/-! ### vectors as functions -/

theorem getD_set (l : List Nat) (i j v : Nat) :
    (l.set i v).getD j 0 = if i = j ∧ i < l.length then v else l.getD j 0 := by
  simp only [List.getD_eq_getElem?_getD, List.getElem?_set]
  by_cases h : i = j
  · subst h
    by_cases hl : i < l.length
    · simp [hl]
    · simp [hl, List.getElem?_eq_none (Nat.le_of_not_lt hl)]
  · simp [h]

theorem ext_getD (a b : List Nat) (hl : a.length = b.length) (h : ∀ c, c < a.length → a.getD c 0 = b.getD c 0) :
    a = b := by
  apply List.ext_getElem hl
  intro i h1 h2
  have := h i h1
  simpa [List.getD_eq_getElem?_getD, List.getElem?_eq_getElem h1, List.getElem?_eq_getElem h2] using this

/-! ### format 0: `readCodes` on a list of distinct codes -/

/-- processing codes `P` (all `< res.length`), glyph ids `cur, cur+1, …`: if every code is still
free, every code gets its glyph id and nothing else changes -/
theorem readCodes_spec : ∀ (P : List UInt8) (res : List Nat) (cur : Nat),
    (∀ b ∈ P, b.toNat < res.length) → (∀ b ∈ P, res.getD b.toNat 0 = 0) →
    (P.map (·.toNat)).Nodup → 0 < cur → cur + P.length ≤ 65536 →
    ∃ res', readCodes P res cur = .ok (res', cur + P.length) ∧ res'.length = res.length ∧
      ∀ c, res'.getD c 0 =
        match (P.map (·.toNat)).idxOf? c with
        | some i => cur + i
        | none => res.getD c 0 := by
  intro P
  induction P with
  | nil => intro res cur _ _ _ _ _; exact ⟨res, rfl, rfl, fun c => by simp⟩
  | cons b bs ih =>
    intro res cur hlt hfree hnd hcur hmax
    have hb := hfree b (List.mem_cons_self ..)
    have hbl := hlt b (List.mem_cons_self ..)
    simp only [List.map_cons, List.nodup_cons] at hnd
    simp only [readCodes, hb, ne_eq, not_true_eq_false, if_false]
    have hmod : (cur + 1) % 65536 = cur + 1 := Nat.mod_eq_of_lt (by simp at hmax; omega)
    rw [hmod]
    obtain ⟨res', h1, h2, h3⟩ := ih (res.set b.toNat cur) (cur + 1)
      (fun x hx => by rw [List.length_set]; exact hlt x (List.mem_cons_of_mem _ hx))
      (fun x hx => by
        rw [getD_set]
        have hne : ¬ (b.toNat = x.toNat ∧ b.toNat < res.length) := by
          intro h
          exact hnd.1 (by rw [h.1]; exact List.mem_map_of_mem hx)
        simp only [hne, if_false]
        exact hfree x (List.mem_cons_of_mem _ hx))
      hnd.2 (by omega) (by simp at hmax ⊢; omega)
    refine ⟨res', by rw [h1]; simp; omega, by rw [h2, List.length_set], ?_⟩
    intro c
    rw [h3 c]
    simp only [List.map_cons, List.idxOf?_cons]
    by_cases hc : b.toNat = c
    · subst hc
      have : (bs.map (·.toNat)).idxOf? b.toNat = none := by
        rw [List.idxOf?_eq_none_iff]; exact hnd.1
      simp [this, getD_set, hbl]
    · have hc' : ¬ (b.toNat == c) = true := by simpa using hc
      simp only [hc', Bool.false_eq_true, if_false]
      cases hh : (bs.map (·.toNat)).idxOf? c with
      | none => simp [getD_set, hc]
      | some i => simp; omega

end SfntV.Cff
