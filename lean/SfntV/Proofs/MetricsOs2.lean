/-
C12 — OS/2 codec round trip (generated proof script: one read lemma per field of the 96-byte table).
-/
import SfntV.Proofs.MetricsHead
import SfntV.Model.Os2

namespace SfntV.Metrics
open SfntV

theorem range10 : List.range 10 = [0, 1, 2, 3, 4, 5, 6, 7, 8, 9] := by decide

theorem perm_bits (perm : Int) (hp : 0 ≤ perm ∧ perm ≤ 3) (a b : Bool) :
    let pb := (if perm = 3 then 2 else if perm = 2 then 4 else if perm = 1 then 8 else 0) +
      (if a then 0x0100 else 0) + (if b then 0x0200 else 0)
    pb < 65536 ∧ (if bit pb 3 then (1 : Int) else if bit pb 2 then 2 else if bit pb 1 then 3 else 0) = perm ∧
      bit pb 8 = a ∧ bit pb 9 = b := by
  have : perm = 0 ∨ perm = 1 ∨ perm = 2 ∨ perm = 3 := by omega
  rcases this with rfl | rfl | rfl | rfl <;> cases a <;> cases b <;> decide

theorem sel_bits (regular bold italic oblique : Bool) (h : regular = true → bold = false ∧ italic = false) :
    let sel := (if regular then 0x0040 else (if italic then 0x0001 else 0) + (if bold then 0x0020 else 0)) +
      (if oblique then 0x0200 else 0) + 0x0080
    sel < 65536 ∧ (bit sel 5 && !regular) = bold ∧ (bit sel 0 && !regular) = italic ∧
      bit sel 6 = regular ∧ bit sel 9 = oblique := by
  cases regular <;> cases bold <;> cases italic <;> cases oblique <;> simp at h <;> decide

theorem ur_fix (u : Nat) (set : Bool) (h : bit u 25 = set) :
    (if set then setBit u 25 else clearBit u 25) = u := by
  cases set <;> simp [setBit, clearBit, h]

set_option linter.unusedSimpArgs false

set_option maxHeartbeats 1000000 in
theorem os2_roundtrip_explicit (wc wd : Nat) (bold italic regular oblique : Bool) (first last : Nat)
    (asc desc wasc wdesc gap cap xh avg : Int) (s0 s1 s2 s3 s4 s5 s6 s7 s8 s9 : Int) (fam : Int) (p0 p1 p2 p3 p4 p5 p6 p7 p8 p9 : Nat)
    (v0 v1 v2 v3 : UInt8) (u0 u1 u2 u3 : Nat) (cpr : Nat) (perm : Int) (nosub bitmap : Bool)
    (hwc : wc < 65536) (hwd : wd < 65536) (hreg : regular = true → bold = false ∧ italic = false)
    (hfirst : first < 65536) (hlast : last < 65536)
    (hasc : I16 asc) (hdesc : I16 desc) (hwasc : I16 wasc) (hwdesc : I16 wdesc) (hgap : I16 gap)
    (hcap : I16 cap) (hxh : I16 xh) (hcap0 : 0 ≤ cap) (hxh0 : 0 ≤ xh) (havg : I16 avg) (hfam : I16 fam)
    (hs0 : I16 s0) (hs1 : I16 s1) (hs2 : I16 s2) (hs3 : I16 s3) (hs4 : I16 s4) (hs5 : I16 s5) (hs6 : I16 s6) (hs7 : I16 s7) (hs8 : I16 s8) (hs9 : I16 s9) (hp0 : p0 < 256) (hp1 : p1 < 256) (hp2 : p2 < 256) (hp3 : p3 < 256) (hp4 : p4 < 256) (hp5 : p5 < 256) (hp6 : p6 < 256) (hp7 : p7 < 256) (hp8 : p8 < 256) (hp9 : p9 < 256) (hu0 : u0 < 4294967296) (hu1 : u1 < 4294967296) (hu2 : u2 < 4294967296) (hu3 : u3 < 4294967296)
    (hbit57 : bit u1 25 = (last == 0xFFFF)) (hcpr : cpr < 18446744073709551616)
    (hperm : 0 ≤ perm ∧ perm ≤ 3) :
    decodeOs2 (encodeOs2 ⟨wc, wd, bold, italic, regular, oblique, first, last, asc, desc, wasc, wdesc, gap, cap, xh, avg, [s0, s1, s2, s3, s4, s5, s6, s7, s8, s9], fam, [p0, p1, p2, p3, p4, p5, p6, p7, p8, p9], [v0, v1, v2, v3], [u0, u1, u2, u3], cpr, perm, nosub, bitmap⟩) =
      .ok ⟨wc, wd, bold, italic, regular, oblique, first, last, asc, desc, wasc, wdesc, gap, cap, xh, avg, [s0, s1, s2, s3, s4, s5, s6, s7, s8, s9], fam, [p0, p1, p2, p3, p4, p5, p6, p7, p8, p9], [v0, v1, v2, v3], [u0, u1, u2, u3], cpr, perm, nosub, bitmap⟩ := by
  generalize ho : (⟨wc, wd, bold, italic, regular, oblique, first, last, asc, desc, wasc, wdesc, gap, cap, xh, avg, [s0, s1, s2, s3, s4, s5, s6, s7, s8, s9], fam, [p0, p1, p2, p3, p4, p5, p6, p7, p8, p9], [v0, v1, v2, v3], [u0, u1, u2, u3], cpr, perm, nosub, bitmap⟩ : Os2) = o
  obtain ⟨hpb, hpu, hp8, hp9⟩ := perm_bits perm hperm nosub bitmap
  obtain ⟨hsel, hsb, hsi, hsr, hso⟩ := sel_bits regular bold italic oblique hreg
  have hpb' : os2PermBits o < 65536 := by rw [← ho]; exact hpb
  have hsel' : os2Sel o < 65536 := by rw [← ho]; exact hsel
  have hurf := ur_fix u1 (last == 0xFFFF) hbit57
  have hlen : (encodeOs2 o).length = 96 := by
    rw [← ho]
    unfold encodeOs2
    simp [os2Vendor, urBool57, be16, be32, i16enc]
  have r0 : rdU16 (encodeOs2 o) 0 = 4 := by
    rw [← ho]
    unfold encodeOs2
    simp only [os2Vendor, urBool57, hurf, be16, be32, i16enc, List.flatMap_cons, List.flatMap_nil, List.map_cons, List.map_nil, List.append_nil, List.length_cons, List.length_nil, if_true, rdI16, rdU32, rdU16, rdU8, List.cons_append, List.nil_append, List.getD_cons_succ, List.getD_cons_zero, Nat.reduceAdd, Nat.reduceMul]
    simp
  have r2 : rdI16 (encodeOs2 o) 2 = avg := by
    rw [← ho]
    unfold encodeOs2
    simp only [os2Vendor, urBool57, hurf, be16, be32, i16enc, List.flatMap_cons, List.flatMap_nil, List.map_cons, List.map_nil, List.append_nil, List.length_cons, List.length_nil, if_true, rdI16, rdU32, rdU16, rdU8, List.cons_append, List.nil_append, List.getD_cons_succ, List.getD_cons_zero, Nat.reduceAdd, Nat.reduceMul]
    exact i16_rt _ havg
  have r4 : rdU16 (encodeOs2 o) 4 = wc := by
    rw [← ho]
    unfold encodeOs2
    simp only [os2Vendor, urBool57, hurf, be16, be32, i16enc, List.flatMap_cons, List.flatMap_nil, List.map_cons, List.map_nil, List.append_nil, List.length_cons, List.length_nil, if_true, rdI16, rdU32, rdU16, rdU8, List.cons_append, List.nil_append, List.getD_cons_succ, List.getD_cons_zero, Nat.reduceAdd, Nat.reduceMul]
    exact u16_rt _ hwc
  have r6 : rdU16 (encodeOs2 o) 6 = wd := by
    rw [← ho]
    unfold encodeOs2
    simp only [os2Vendor, urBool57, hurf, be16, be32, i16enc, List.flatMap_cons, List.flatMap_nil, List.map_cons, List.map_nil, List.append_nil, List.length_cons, List.length_nil, if_true, rdI16, rdU32, rdU16, rdU8, List.cons_append, List.nil_append, List.getD_cons_succ, List.getD_cons_zero, Nat.reduceAdd, Nat.reduceMul]
    exact u16_rt _ hwd
  have r8 : rdU16 (encodeOs2 o) 8 = os2PermBits o := by
    rw [← ho]
    unfold encodeOs2
    simp only [os2Vendor, urBool57, hurf, be16, be32, i16enc, List.flatMap_cons, List.flatMap_nil, List.map_cons, List.map_nil, List.append_nil, List.length_cons, List.length_nil, if_true, rdI16, rdU32, rdU16, rdU8, List.cons_append, List.nil_append, List.getD_cons_succ, List.getD_cons_zero, Nat.reduceAdd, Nat.reduceMul]
    exact u16_rt _ hpb
  have rs0 : rdI16 (encodeOs2 o) 10 = s0 := by
    rw [← ho]
    unfold encodeOs2
    simp only [os2Vendor, urBool57, hurf, be16, be32, i16enc, List.flatMap_cons, List.flatMap_nil, List.map_cons, List.map_nil, List.append_nil, List.length_cons, List.length_nil, if_true, rdI16, rdU32, rdU16, rdU8, List.cons_append, List.nil_append, List.getD_cons_succ, List.getD_cons_zero, Nat.reduceAdd, Nat.reduceMul]
    exact i16_rt _ hs0
  have rs1 : rdI16 (encodeOs2 o) 12 = s1 := by
    rw [← ho]
    unfold encodeOs2
    simp only [os2Vendor, urBool57, hurf, be16, be32, i16enc, List.flatMap_cons, List.flatMap_nil, List.map_cons, List.map_nil, List.append_nil, List.length_cons, List.length_nil, if_true, rdI16, rdU32, rdU16, rdU8, List.cons_append, List.nil_append, List.getD_cons_succ, List.getD_cons_zero, Nat.reduceAdd, Nat.reduceMul]
    exact i16_rt _ hs1
  have rs2 : rdI16 (encodeOs2 o) 14 = s2 := by
    rw [← ho]
    unfold encodeOs2
    simp only [os2Vendor, urBool57, hurf, be16, be32, i16enc, List.flatMap_cons, List.flatMap_nil, List.map_cons, List.map_nil, List.append_nil, List.length_cons, List.length_nil, if_true, rdI16, rdU32, rdU16, rdU8, List.cons_append, List.nil_append, List.getD_cons_succ, List.getD_cons_zero, Nat.reduceAdd, Nat.reduceMul]
    exact i16_rt _ hs2
  have rs3 : rdI16 (encodeOs2 o) 16 = s3 := by
    rw [← ho]
    unfold encodeOs2
    simp only [os2Vendor, urBool57, hurf, be16, be32, i16enc, List.flatMap_cons, List.flatMap_nil, List.map_cons, List.map_nil, List.append_nil, List.length_cons, List.length_nil, if_true, rdI16, rdU32, rdU16, rdU8, List.cons_append, List.nil_append, List.getD_cons_succ, List.getD_cons_zero, Nat.reduceAdd, Nat.reduceMul]
    exact i16_rt _ hs3
  have rs4 : rdI16 (encodeOs2 o) 18 = s4 := by
    rw [← ho]
    unfold encodeOs2
    simp only [os2Vendor, urBool57, hurf, be16, be32, i16enc, List.flatMap_cons, List.flatMap_nil, List.map_cons, List.map_nil, List.append_nil, List.length_cons, List.length_nil, if_true, rdI16, rdU32, rdU16, rdU8, List.cons_append, List.nil_append, List.getD_cons_succ, List.getD_cons_zero, Nat.reduceAdd, Nat.reduceMul]
    exact i16_rt _ hs4
  have rs5 : rdI16 (encodeOs2 o) 20 = s5 := by
    rw [← ho]
    unfold encodeOs2
    simp only [os2Vendor, urBool57, hurf, be16, be32, i16enc, List.flatMap_cons, List.flatMap_nil, List.map_cons, List.map_nil, List.append_nil, List.length_cons, List.length_nil, if_true, rdI16, rdU32, rdU16, rdU8, List.cons_append, List.nil_append, List.getD_cons_succ, List.getD_cons_zero, Nat.reduceAdd, Nat.reduceMul]
    exact i16_rt _ hs5
  have rs6 : rdI16 (encodeOs2 o) 22 = s6 := by
    rw [← ho]
    unfold encodeOs2
    simp only [os2Vendor, urBool57, hurf, be16, be32, i16enc, List.flatMap_cons, List.flatMap_nil, List.map_cons, List.map_nil, List.append_nil, List.length_cons, List.length_nil, if_true, rdI16, rdU32, rdU16, rdU8, List.cons_append, List.nil_append, List.getD_cons_succ, List.getD_cons_zero, Nat.reduceAdd, Nat.reduceMul]
    exact i16_rt _ hs6
  have rs7 : rdI16 (encodeOs2 o) 24 = s7 := by
    rw [← ho]
    unfold encodeOs2
    simp only [os2Vendor, urBool57, hurf, be16, be32, i16enc, List.flatMap_cons, List.flatMap_nil, List.map_cons, List.map_nil, List.append_nil, List.length_cons, List.length_nil, if_true, rdI16, rdU32, rdU16, rdU8, List.cons_append, List.nil_append, List.getD_cons_succ, List.getD_cons_zero, Nat.reduceAdd, Nat.reduceMul]
    exact i16_rt _ hs7
  have rs8 : rdI16 (encodeOs2 o) 26 = s8 := by
    rw [← ho]
    unfold encodeOs2
    simp only [os2Vendor, urBool57, hurf, be16, be32, i16enc, List.flatMap_cons, List.flatMap_nil, List.map_cons, List.map_nil, List.append_nil, List.length_cons, List.length_nil, if_true, rdI16, rdU32, rdU16, rdU8, List.cons_append, List.nil_append, List.getD_cons_succ, List.getD_cons_zero, Nat.reduceAdd, Nat.reduceMul]
    exact i16_rt _ hs8
  have rs9 : rdI16 (encodeOs2 o) 28 = s9 := by
    rw [← ho]
    unfold encodeOs2
    simp only [os2Vendor, urBool57, hurf, be16, be32, i16enc, List.flatMap_cons, List.flatMap_nil, List.map_cons, List.map_nil, List.append_nil, List.length_cons, List.length_nil, if_true, rdI16, rdU32, rdU16, rdU8, List.cons_append, List.nil_append, List.getD_cons_succ, List.getD_cons_zero, Nat.reduceAdd, Nat.reduceMul]
    exact i16_rt _ hs9
  have r30 : rdI16 (encodeOs2 o) 30 = fam := by
    rw [← ho]
    unfold encodeOs2
    simp only [os2Vendor, urBool57, hurf, be16, be32, i16enc, List.flatMap_cons, List.flatMap_nil, List.map_cons, List.map_nil, List.append_nil, List.length_cons, List.length_nil, if_true, rdI16, rdU32, rdU16, rdU8, List.cons_append, List.nil_append, List.getD_cons_succ, List.getD_cons_zero, Nat.reduceAdd, Nat.reduceMul]
    exact i16_rt _ hfam
  have rp0 : rdU8 (encodeOs2 o) 32 = p0 := by
    rw [← ho]
    unfold encodeOs2
    simp only [os2Vendor, urBool57, hurf, be16, be32, i16enc, List.flatMap_cons, List.flatMap_nil, List.map_cons, List.map_nil, List.append_nil, List.length_cons, List.length_nil, if_true, rdI16, rdU32, rdU16, rdU8, List.cons_append, List.nil_append, List.getD_cons_succ, List.getD_cons_zero, Nat.reduceAdd, Nat.reduceMul]
    simp only [u8n]; omega
  have rp1 : rdU8 (encodeOs2 o) 33 = p1 := by
    rw [← ho]
    unfold encodeOs2
    simp only [os2Vendor, urBool57, hurf, be16, be32, i16enc, List.flatMap_cons, List.flatMap_nil, List.map_cons, List.map_nil, List.append_nil, List.length_cons, List.length_nil, if_true, rdI16, rdU32, rdU16, rdU8, List.cons_append, List.nil_append, List.getD_cons_succ, List.getD_cons_zero, Nat.reduceAdd, Nat.reduceMul]
    simp only [u8n]; omega
  have rp2 : rdU8 (encodeOs2 o) 34 = p2 := by
    rw [← ho]
    unfold encodeOs2
    simp only [os2Vendor, urBool57, hurf, be16, be32, i16enc, List.flatMap_cons, List.flatMap_nil, List.map_cons, List.map_nil, List.append_nil, List.length_cons, List.length_nil, if_true, rdI16, rdU32, rdU16, rdU8, List.cons_append, List.nil_append, List.getD_cons_succ, List.getD_cons_zero, Nat.reduceAdd, Nat.reduceMul]
    simp only [u8n]; omega
  have rp3 : rdU8 (encodeOs2 o) 35 = p3 := by
    rw [← ho]
    unfold encodeOs2
    simp only [os2Vendor, urBool57, hurf, be16, be32, i16enc, List.flatMap_cons, List.flatMap_nil, List.map_cons, List.map_nil, List.append_nil, List.length_cons, List.length_nil, if_true, rdI16, rdU32, rdU16, rdU8, List.cons_append, List.nil_append, List.getD_cons_succ, List.getD_cons_zero, Nat.reduceAdd, Nat.reduceMul]
    simp only [u8n]; omega
  have rp4 : rdU8 (encodeOs2 o) 36 = p4 := by
    rw [← ho]
    unfold encodeOs2
    simp only [os2Vendor, urBool57, hurf, be16, be32, i16enc, List.flatMap_cons, List.flatMap_nil, List.map_cons, List.map_nil, List.append_nil, List.length_cons, List.length_nil, if_true, rdI16, rdU32, rdU16, rdU8, List.cons_append, List.nil_append, List.getD_cons_succ, List.getD_cons_zero, Nat.reduceAdd, Nat.reduceMul]
    simp only [u8n]; omega
  have rp5 : rdU8 (encodeOs2 o) 37 = p5 := by
    rw [← ho]
    unfold encodeOs2
    simp only [os2Vendor, urBool57, hurf, be16, be32, i16enc, List.flatMap_cons, List.flatMap_nil, List.map_cons, List.map_nil, List.append_nil, List.length_cons, List.length_nil, if_true, rdI16, rdU32, rdU16, rdU8, List.cons_append, List.nil_append, List.getD_cons_succ, List.getD_cons_zero, Nat.reduceAdd, Nat.reduceMul]
    simp only [u8n]; omega
  have rp6 : rdU8 (encodeOs2 o) 38 = p6 := by
    rw [← ho]
    unfold encodeOs2
    simp only [os2Vendor, urBool57, hurf, be16, be32, i16enc, List.flatMap_cons, List.flatMap_nil, List.map_cons, List.map_nil, List.append_nil, List.length_cons, List.length_nil, if_true, rdI16, rdU32, rdU16, rdU8, List.cons_append, List.nil_append, List.getD_cons_succ, List.getD_cons_zero, Nat.reduceAdd, Nat.reduceMul]
    simp only [u8n]; omega
  have rp7 : rdU8 (encodeOs2 o) 39 = p7 := by
    rw [← ho]
    unfold encodeOs2
    simp only [os2Vendor, urBool57, hurf, be16, be32, i16enc, List.flatMap_cons, List.flatMap_nil, List.map_cons, List.map_nil, List.append_nil, List.length_cons, List.length_nil, if_true, rdI16, rdU32, rdU16, rdU8, List.cons_append, List.nil_append, List.getD_cons_succ, List.getD_cons_zero, Nat.reduceAdd, Nat.reduceMul]
    simp only [u8n]; omega
  have rp8 : rdU8 (encodeOs2 o) 40 = p8 := by
    rw [← ho]
    unfold encodeOs2
    simp only [os2Vendor, urBool57, hurf, be16, be32, i16enc, List.flatMap_cons, List.flatMap_nil, List.map_cons, List.map_nil, List.append_nil, List.length_cons, List.length_nil, if_true, rdI16, rdU32, rdU16, rdU8, List.cons_append, List.nil_append, List.getD_cons_succ, List.getD_cons_zero, Nat.reduceAdd, Nat.reduceMul]
    simp only [u8n]; omega
  have rp9 : rdU8 (encodeOs2 o) 41 = p9 := by
    rw [← ho]
    unfold encodeOs2
    simp only [os2Vendor, urBool57, hurf, be16, be32, i16enc, List.flatMap_cons, List.flatMap_nil, List.map_cons, List.map_nil, List.append_nil, List.length_cons, List.length_nil, if_true, rdI16, rdU32, rdU16, rdU8, List.cons_append, List.nil_append, List.getD_cons_succ, List.getD_cons_zero, Nat.reduceAdd, Nat.reduceMul]
    simp only [u8n]; omega
  have ru0 : rdU32 (encodeOs2 o) 42 = u0 := by
    rw [← ho]
    unfold encodeOs2
    simp only [os2Vendor, urBool57, hurf, be16, be32, i16enc, List.flatMap_cons, List.flatMap_nil, List.map_cons, List.map_nil, List.append_nil, List.length_cons, List.length_nil, if_true, rdI16, rdU32, rdU16, rdU8, List.cons_append, List.nil_append, List.getD_cons_succ, List.getD_cons_zero, Nat.reduceAdd, Nat.reduceMul]
    exact u32_rt _ hu0
  have ru1 : rdU32 (encodeOs2 o) 46 = u1 := by
    rw [← ho]
    unfold encodeOs2
    simp only [os2Vendor, urBool57, hurf, be16, be32, i16enc, List.flatMap_cons, List.flatMap_nil, List.map_cons, List.map_nil, List.append_nil, List.length_cons, List.length_nil, if_true, rdI16, rdU32, rdU16, rdU8, List.cons_append, List.nil_append, List.getD_cons_succ, List.getD_cons_zero, Nat.reduceAdd, Nat.reduceMul]
    exact u32_rt _ hu1
  have ru2 : rdU32 (encodeOs2 o) 50 = u2 := by
    rw [← ho]
    unfold encodeOs2
    simp only [os2Vendor, urBool57, hurf, be16, be32, i16enc, List.flatMap_cons, List.flatMap_nil, List.map_cons, List.map_nil, List.append_nil, List.length_cons, List.length_nil, if_true, rdI16, rdU32, rdU16, rdU8, List.cons_append, List.nil_append, List.getD_cons_succ, List.getD_cons_zero, Nat.reduceAdd, Nat.reduceMul]
    exact u32_rt _ hu2
  have ru3 : rdU32 (encodeOs2 o) 54 = u3 := by
    rw [← ho]
    unfold encodeOs2
    simp only [os2Vendor, urBool57, hurf, be16, be32, i16enc, List.flatMap_cons, List.flatMap_nil, List.map_cons, List.map_nil, List.append_nil, List.length_cons, List.length_nil, if_true, rdI16, rdU32, rdU16, rdU8, List.cons_append, List.nil_append, List.getD_cons_succ, List.getD_cons_zero, Nat.reduceAdd, Nat.reduceMul]
    exact u32_rt _ hu3
  have rv0 : (encodeOs2 o).getD 58 0 = v0 := by
    rw [← ho]
    unfold encodeOs2
    simp only [os2Vendor, urBool57, hurf, be16, be32, i16enc, List.flatMap_cons, List.flatMap_nil, List.map_cons, List.map_nil, List.append_nil, List.length_cons, List.length_nil, if_true, List.cons_append, List.nil_append, List.getD_cons_succ, List.getD_cons_zero, Nat.reduceAdd, Nat.reduceMul]
  have rv1 : (encodeOs2 o).getD 59 0 = v1 := by
    rw [← ho]
    unfold encodeOs2
    simp only [os2Vendor, urBool57, hurf, be16, be32, i16enc, List.flatMap_cons, List.flatMap_nil, List.map_cons, List.map_nil, List.append_nil, List.length_cons, List.length_nil, if_true, List.cons_append, List.nil_append, List.getD_cons_succ, List.getD_cons_zero, Nat.reduceAdd, Nat.reduceMul]
  have rv2 : (encodeOs2 o).getD 60 0 = v2 := by
    rw [← ho]
    unfold encodeOs2
    simp only [os2Vendor, urBool57, hurf, be16, be32, i16enc, List.flatMap_cons, List.flatMap_nil, List.map_cons, List.map_nil, List.append_nil, List.length_cons, List.length_nil, if_true, List.cons_append, List.nil_append, List.getD_cons_succ, List.getD_cons_zero, Nat.reduceAdd, Nat.reduceMul]
  have rv3 : (encodeOs2 o).getD 61 0 = v3 := by
    rw [← ho]
    unfold encodeOs2
    simp only [os2Vendor, urBool57, hurf, be16, be32, i16enc, List.flatMap_cons, List.flatMap_nil, List.map_cons, List.map_nil, List.append_nil, List.length_cons, List.length_nil, if_true, List.cons_append, List.nil_append, List.getD_cons_succ, List.getD_cons_zero, Nat.reduceAdd, Nat.reduceMul]
  have r62 : rdU16 (encodeOs2 o) 62 = os2Sel o := by
    rw [← ho]
    unfold encodeOs2
    simp only [os2Vendor, urBool57, hurf, be16, be32, i16enc, List.flatMap_cons, List.flatMap_nil, List.map_cons, List.map_nil, List.append_nil, List.length_cons, List.length_nil, if_true, rdI16, rdU32, rdU16, rdU8, List.cons_append, List.nil_append, List.getD_cons_succ, List.getD_cons_zero, Nat.reduceAdd, Nat.reduceMul]
    exact u16_rt _ hsel
  have r64 : rdU16 (encodeOs2 o) 64 = first := by
    rw [← ho]
    unfold encodeOs2
    simp only [os2Vendor, urBool57, hurf, be16, be32, i16enc, List.flatMap_cons, List.flatMap_nil, List.map_cons, List.map_nil, List.append_nil, List.length_cons, List.length_nil, if_true, rdI16, rdU32, rdU16, rdU8, List.cons_append, List.nil_append, List.getD_cons_succ, List.getD_cons_zero, Nat.reduceAdd, Nat.reduceMul]
    exact u16_rt _ hfirst
  have r66 : rdU16 (encodeOs2 o) 66 = last := by
    rw [← ho]
    unfold encodeOs2
    simp only [os2Vendor, urBool57, hurf, be16, be32, i16enc, List.flatMap_cons, List.flatMap_nil, List.map_cons, List.map_nil, List.append_nil, List.length_cons, List.length_nil, if_true, rdI16, rdU32, rdU16, rdU8, List.cons_append, List.nil_append, List.getD_cons_succ, List.getD_cons_zero, Nat.reduceAdd, Nat.reduceMul]
    exact u16_rt _ hlast
  have r68 : rdI16 (encodeOs2 o) 68 = asc := by
    rw [← ho]
    unfold encodeOs2
    simp only [os2Vendor, urBool57, hurf, be16, be32, i16enc, List.flatMap_cons, List.flatMap_nil, List.map_cons, List.map_nil, List.append_nil, List.length_cons, List.length_nil, if_true, rdI16, rdU32, rdU16, rdU8, List.cons_append, List.nil_append, List.getD_cons_succ, List.getD_cons_zero, Nat.reduceAdd, Nat.reduceMul]
    exact i16_rt _ hasc
  have r70 : rdI16 (encodeOs2 o) 70 = desc := by
    rw [← ho]
    unfold encodeOs2
    simp only [os2Vendor, urBool57, hurf, be16, be32, i16enc, List.flatMap_cons, List.flatMap_nil, List.map_cons, List.map_nil, List.append_nil, List.length_cons, List.length_nil, if_true, rdI16, rdU32, rdU16, rdU8, List.cons_append, List.nil_append, List.getD_cons_succ, List.getD_cons_zero, Nat.reduceAdd, Nat.reduceMul]
    exact i16_rt _ hdesc
  have r72 : rdI16 (encodeOs2 o) 72 = gap := by
    rw [← ho]
    unfold encodeOs2
    simp only [os2Vendor, urBool57, hurf, be16, be32, i16enc, List.flatMap_cons, List.flatMap_nil, List.map_cons, List.map_nil, List.append_nil, List.length_cons, List.length_nil, if_true, rdI16, rdU32, rdU16, rdU8, List.cons_append, List.nil_append, List.getD_cons_succ, List.getD_cons_zero, Nat.reduceAdd, Nat.reduceMul]
    exact i16_rt _ hgap
  have r74 : rdI16 (encodeOs2 o) 74 = wasc := by
    rw [← ho]
    unfold encodeOs2
    simp only [os2Vendor, urBool57, hurf, be16, be32, i16enc, List.flatMap_cons, List.flatMap_nil, List.map_cons, List.map_nil, List.append_nil, List.length_cons, List.length_nil, if_true, rdI16, rdU32, rdU16, rdU8, List.cons_append, List.nil_append, List.getD_cons_succ, List.getD_cons_zero, Nat.reduceAdd, Nat.reduceMul]
    exact i16_rt _ hwasc
  have r76 : rdI16 (encodeOs2 o) 76 = wdesc := by
    rw [← ho]
    unfold encodeOs2
    simp only [os2Vendor, urBool57, hurf, be16, be32, i16enc, List.flatMap_cons, List.flatMap_nil, List.map_cons, List.map_nil, List.append_nil, List.length_cons, List.length_nil, if_true, rdI16, rdU32, rdU16, rdU8, List.cons_append, List.nil_append, List.getD_cons_succ, List.getD_cons_zero, Nat.reduceAdd, Nat.reduceMul]
    exact i16_rt _ hwdesc
  have r86 : rdI16 (encodeOs2 o) 86 = xh := by
    rw [← ho]
    unfold encodeOs2
    simp only [os2Vendor, urBool57, hurf, be16, be32, i16enc, List.flatMap_cons, List.flatMap_nil, List.map_cons, List.map_nil, List.append_nil, List.length_cons, List.length_nil, if_true, rdI16, rdU32, rdU16, rdU8, List.cons_append, List.nil_append, List.getD_cons_succ, List.getD_cons_zero, Nat.reduceAdd, Nat.reduceMul]
    exact i16_rt _ hxh
  have r88 : rdI16 (encodeOs2 o) 88 = cap := by
    rw [← ho]
    unfold encodeOs2
    simp only [os2Vendor, urBool57, hurf, be16, be32, i16enc, List.flatMap_cons, List.flatMap_nil, List.map_cons, List.map_nil, List.append_nil, List.length_cons, List.length_nil, if_true, rdI16, rdU32, rdU16, rdU8, List.cons_append, List.nil_append, List.getD_cons_succ, List.getD_cons_zero, Nat.reduceAdd, Nat.reduceMul]
    exact i16_rt _ hcap
  have r78 : rdU32 (encodeOs2 o) 78 = cpr % 4294967296 := by
    rw [← ho]
    unfold encodeOs2
    simp only [os2Vendor, urBool57, hurf, be16, be32, i16enc, List.flatMap_cons, List.flatMap_nil, List.map_cons, List.map_nil, List.append_nil, List.length_cons, List.length_nil, if_true, rdI16, rdU32, rdU16, rdU8, List.cons_append, List.nil_append, List.getD_cons_succ, List.getD_cons_zero, Nat.reduceAdd, Nat.reduceMul]
    exact u32_rt' _
  have r82 : rdU32 (encodeOs2 o) 82 = cpr / 4294967296 := by
    rw [← ho]
    unfold encodeOs2
    simp only [os2Vendor, urBool57, hurf, be16, be32, i16enc, List.flatMap_cons, List.flatMap_nil, List.map_cons, List.map_nil, List.append_nil, List.length_cons, List.length_nil, if_true, rdI16, rdU32, rdU16, rdU8, List.cons_append, List.nil_append, List.getD_cons_succ, List.getD_cons_zero, Nat.reduceAdd, Nat.reduceMul]
    exact u32_rt _ (by omega)

  unfold decodeOs2
  simp only [hlen, show ¬ (96 < 68) by decide, if_false, r0, show ¬ (4 > 5) by decide, show ¬ (4 < 3) by decide,
    show ¬ (4 ≤ 3) by decide, show ¬ (4 < 2) by decide, show ¬ (96 = 68) by decide,
    show ¬ (96 < 78) by decide, show ¬ (96 < 86) by decide, show ¬ (96 < 96) by decide,
    range10, List.map_cons, List.map_nil, Nat.reduceAdd, Nat.reduceMul, Nat.add_zero,
    r2, r4, r6, r8, rs0, rs1, rs2, rs3, rs4, rs5, rs6, rs7, rs8, rs9, r30, rp0, rp1, rp2, rp3, rp4, rp5, rp6, rp7, rp8, rp9, ru0, ru1, ru2, ru3, rv0, rv1, rv2, rv3, r62, r64, r66, r68, r70, r72, r74, r76, r86, r88, r78, r82, urBool57, hurf]
  rw [← ho]
  simp only [os2PermBits, os2Sel] 
  simp only [hpu, hp8, hp9, hsb, hsi, hsr, hso]
  have hx : (if xh > 0 then xh else 0) = xh := by split <;> omega
  have hc : (if cap > 0 then cap else 0) = cap := by split <;> omega
  have hcp : cpr % 4294967296 + 4294967296 * (cpr / 4294967296) = cpr := by omega
  simp only [hx, hc, hcp]


/-- the explicit domain of `os2.Info` on which `Read ∘ Encode` is the identity -/
structure Os2Dom (o : Os2) : Prop where
  wc : o.weightClass < 65536
  wd : o.widthClass < 65536
  /-- `IsRegular` excludes bold and italic (fsSelection bit 6 must not be combined with bits 0, 5) -/
  reg : o.isRegular = true → o.isBold = false ∧ o.isItalic = false
  first : o.firstCharIndex < 65536
  last : o.lastCharIndex < 65536
  asc : I16 o.ascent
  desc : I16 o.descent
  wasc : I16 o.winAscent
  wdesc : I16 o.winDescent
  gap : I16 o.lineGap
  cap : I16 o.capHeight
  xh : I16 o.xHeight
  /-- `Read` keeps sxHeight / sCapHeight only when positive -/
  cap0 : 0 ≤ o.capHeight
  xh0 : 0 ≤ o.xHeight
  avg : I16 o.avgGlyphWidth
  fam : I16 o.familyClass
  sub_len : o.sub.length = 10
  sub_rng : ∀ x ∈ o.sub, I16 x
  panose_len : o.panose.length = 10
  panose_rng : ∀ x ∈ o.panose, x < 256
  /-- a vendor id of any other length is replaced by four spaces -/
  vendor_len : o.vendor.length = 4
  ur_len : o.unicodeRange.length = 4
  ur_rng : ∀ x ∈ o.unicodeRange, x < 4294967296
  /-- bit 57 ("Non-Plane 0") is not free: both `Encode` and `Read` force it to `last = 0xFFFF` -/
  bit57 : ∀ u, o.unicodeRange[1]? = some u → bit u 25 = (o.lastCharIndex == 0xFFFF)
  cpr : o.codePageRange < 18446744073709551616
  perm : 0 ≤ o.permUse ∧ o.permUse ≤ 3

theorem os2_roundtrip (o : Os2) (d : Os2Dom o) : decodeOs2 (encodeOs2 o) = .ok o := by
  obtain ⟨wc, wd, bold, italic, regular, oblique, first, last, asc, desc, wasc, wdesc, gap, cap, xh, avg,
    sub, fam, panose, vendor, ur, cpr, perm, nosub, bitmap⟩ := o
  obtain ⟨hwc, hwd, hreg, hfirst, hlast, hasc, hdesc, hwasc, hwdesc, hgap, hcap, hxh, hcap0, hxh0, havg, hfam,
    hsl, hsr, hpl, hpr, hvl, hul, hur, hb57, hcpr, hperm⟩ := d
  simp only at hwc hwd hreg hfirst hlast hasc hdesc hwasc hwdesc hgap hcap hxh hcap0 hxh0 havg hfam hsl hsr hpl hpr hvl hul hur hb57 hcpr hperm
  match sub, hsl, hsr with
  | [s0, s1, s2, s3, s4, s5, s6, s7, s8, s9], _, hsr =>
  match panose, hpl, hpr with
  | [p0, p1, p2, p3, p4, p5, p6, p7, p8, p9], _, hpr =>
  match vendor, hvl with
  | [v0, v1, v2, v3], _ =>
  match ur, hul, hur, hb57 with
  | [u0, u1, u2, u3], _, hur, hb57 =>
    exact os2_roundtrip_explicit wc wd bold italic regular oblique first last asc desc wasc wdesc gap cap xh avg
      s0 s1 s2 s3 s4 s5 s6 s7 s8 s9 fam p0 p1 p2 p3 p4 p5 p6 p7 p8 p9 v0 v1 v2 v3 u0 u1 u2 u3 cpr perm nosub bitmap
      hwc hwd hreg hfirst hlast hasc hdesc hwasc hwdesc hgap hcap hxh hcap0 hxh0 havg hfam
      (hsr s0 (by simp)) (hsr s1 (by simp)) (hsr s2 (by simp)) (hsr s3 (by simp)) (hsr s4 (by simp)) (hsr s5 (by simp)) (hsr s6 (by simp)) (hsr s7 (by simp)) (hsr s8 (by simp)) (hsr s9 (by simp))
      (hpr p0 (by simp)) (hpr p1 (by simp)) (hpr p2 (by simp)) (hpr p3 (by simp)) (hpr p4 (by simp)) (hpr p5 (by simp)) (hpr p6 (by simp)) (hpr p7 (by simp)) (hpr p8 (by simp)) (hpr p9 (by simp))
      (hur u0 (by simp)) (hur u1 (by simp)) (hur u2 (by simp)) (hur u3 (by simp))
      (hb57 u1 rfl) hcpr hperm

end SfntV.Metrics
