/-
C02 (decoders are total): proofs about the checked-index model of `readLookupList`,
`readExtensionSubtable` and the dispatchers `readGsubSubtable` / `readGposSubtable`
(`SfntV.Total.LookupList`, Model/TotalLookupList.lean).

* no panic: `readLookupList_noPanic` (ALL bytes, ALL positions, any non-panicking subtable reader),
  `readExtensionSubtable_noPanic`, `dispatch_noPanic` / `readGsubSubtable_noPanic` /
  `readGposSubtable_noPanic` (an unknown (type, format) is an error, never a nil call), and the
  compositions `readLookupList_gsub_noPanic`, `readLookupList_gpos_noPanic`, `readLookupList_hook_noPanic`.
* cost, the TRUE bound: `readLookupList_cost'`: steps, alloc ≤ |b| + 6000·(C + K + 3)
  (`readLookupList_cost`: ≤ 2·|b| + 6000·(C + (K + 3))), NOT linear in |b|: `lookup_alias_cost`
  (n ≤ 3000 aliased offsets decode ONE subtable n times), `readLookupList_cost_not_linear`.
  The list reader itself (tied instance) is linear: `readLookupList_hook_cost`.
* finding C02-lookuplist-ext-ext, about the PRE-REPAIR dispatchers (`dispatchOld`): `ext_ext_survives`
  (an extension record resolving to an extension record was accepted and left in the lookup; its
  `apply` panics), `dispatch_key_wraps` (uint16 wrap of the reader key); and its repair (/repo
  8867078): `ext_ext_rejected`, `dispatch_key_no_wrap`, `dispatch_no_ext_ext` (+ `_gpos`).
-/
import SfntV.Model.TotalLookupList
import SfntV.Proofs.TotalGdef

namespace SfntV.Total.LookupList
open SfntV SfntV.Total
open SfntV.Total.Gdef (idx_ok ok_bind bind_noPanic bind_eq_ok readBytes_noPanic readBytes_ok_length
  w16_ok w16_lt w32_ok mkSlice_ok)

/-! ## elementary reads -/

theorem rd16_noPanic (site : String) (b : Bytes) (pos : Nat) : (rd16 site b pos).noPanic := by
  unfold rd16
  refine bind_noPanic (readBytes_noPanic _ _ _ _ (by omega)) (fun w hw => ?_)
  obtain ⟨hl, _⟩ := readBytes_ok_length hw
  obtain ⟨v, hv, _⟩ := w16_ok site w 0 (by omega)
  rw [hv]
  exact True.intro

theorem rd16_ok {site : String} {b : Bytes} {pos v : Nat} (h : rd16 site b pos = .ok v) :
    v < 65536 ∧ pos + 2 ≤ b.length := by
  unfold rd16 at h
  obtain ⟨w, hw, h⟩ := bind_eq_ok h
  exact ⟨w16_lt h, (readBytes_ok_length hw).2⟩

theorem readU16s_noPanic (site : String) (b : Bytes) : ∀ (n pos : Nat),
    (readU16s site b n pos).noPanic
  | 0, _ => True.intro
  | n+1, pos => by
    unfold readU16s
    refine bind_noPanic (rd16_noPanic _ _ _) (fun v _ => ?_)
    refine bind_noPanic (readU16s_noPanic site b n (pos + 2)) (fun ⟨r, c⟩ _ => ?_)
    exact True.intro

theorem readU16s_ok (site : String) (b : Bytes) : ∀ (n pos : Nat) (r : List Nat) (c : Cost),
    readU16s site b n pos = .ok (r, c) →
    r.length = n ∧ c.steps = n ∧ c.alloc = 0 ∧ (n = 0 ∨ pos + 2 * n ≤ b.length)
  | 0, _, r, c, h => by
    unfold readU16s at h
    cases h
    simp [Cost.zero]
  | n+1, pos, r, c, h => by
    unfold readU16s at h
    obtain ⟨v, hv, h⟩ := bind_eq_ok h
    obtain ⟨⟨r', c'⟩, hr, h⟩ := bind_eq_ok h
    cases h
    have ih := readU16s_ok site b n (pos + 2) r' c' hr
    have := (rd16_ok hv).2
    simp only [List.length_cons, Cost.tick]
    omega

/-! ## `readExtensionSubtable` -/

theorem readExtensionSubtable_noPanic {σ : Type} (b : Bytes) (pos : Nat) :
    (readExtensionSubtable (σ := σ) b pos).noPanic := by
  unfold readExtensionSubtable
  refine bind_noPanic (readBytes_noPanic _ _ _ _ (by omega)) (fun buf hbuf => ?_)
  obtain ⟨hl, _⟩ := readBytes_ok_length hbuf
  obtain ⟨tp, htp, _⟩ := w16_ok "lookup.go:553#buf[0],buf[1]" buf 0 (by omega)
  obtain ⟨off, hoff⟩ := w32_ok "lookup.go:554#buf[2],buf[3],buf[4],buf[5]" buf 2 (by omega)
  rw [htp, ok_bind, hoff, ok_bind]
  exact True.intro

theorem readExtensionSubtable_ok {σ : Type} {b : Bytes} {pos : Nat} {v : SubV σ} {d : Cost}
    (h : readExtensionSubtable (σ := σ) b pos = .ok (v, d)) :
    (∃ tp off, v = .ext tp off) ∧ d = ⟨1, 1⟩ ∧ pos + 6 ≤ b.length := by
  unfold readExtensionSubtable at h
  obtain ⟨buf, hbuf, h⟩ := bind_eq_ok h
  obtain ⟨tp, _, h⟩ := bind_eq_ok h
  obtain ⟨off, _, h⟩ := bind_eq_ok h
  cases h
  exact ⟨⟨tp, off, rfl⟩, rfl, (readBytes_ok_length hbuf).2⟩

/-! ## `isExtension` -/

theorem isExtension_noPanic {σ : Type} (ss : List (SubV σ)) : (isExtension ss).noPanic := by
  unfold isExtension
  split
  · exact True.intro
  · rename_i h
    rw [idx_ok _ ss 0 (by omega), ok_bind]
    split <;> exact True.intro

/-! ## the two subtable loops -/

theorem store_ok (site : String) (len i : Nat) (h : i < len) : store site len i = .ok () := by
  unfold store
  rw [if_pos h]

theorem readSubs_noPanic {σ : Type} (sr : Reader σ) (hsr : ∀ tp p, (sr tp p).noPanic)
    (tp lp n : Nat) : ∀ (os : List Nat) (j : Nat), j + os.length ≤ n →
    (readSubs sr tp lp n os j).noPanic
  | [], _, _ => True.intro
  | o :: os, j, h => by
    unfold readSubs
    simp only [List.length_cons] at h
    refine bind_noPanic (hsr _ _) (fun ⟨v, d⟩ _ => ?_)
    dsimp only
    rw [store_ok _ _ _ (by omega), ok_bind]
    refine bind_noPanic (readSubs_noPanic sr hsr tp lp n os (j + 1) (by omega)) (fun ⟨r, c⟩ _ => ?_)
    exact True.intro

theorem readSubs_length {σ : Type} (sr : Reader σ) (tp lp n : Nat) :
    ∀ (os : List Nat) (j : Nat) (r : List (SubV σ)) (c : Cost),
    readSubs sr tp lp n os j = .ok (r, c) → r.length = os.length
  | [], _, r, c, h => by
    unfold readSubs at h
    cases h
    rfl
  | o :: os, j, r, c, h => by
    unfold readSubs at h
    obtain ⟨⟨v, d⟩, _, h⟩ := bind_eq_ok h
    obtain ⟨_, _, h⟩ := bind_eq_ok h
    obtain ⟨⟨r', c'⟩, hr, h⟩ := bind_eq_ok h
    cases h
    simp only [List.length_cons]
    rw [readSubs_length sr tp lp n os (j + 1) r' c' hr]

theorem resolveExt_noPanic {σ : Type} (sr : Reader σ) (hsr : ∀ tp p, (sr tp p).noPanic)
    (tp lp : Nat) (so : List Nat) (n : Nat) : ∀ (ss : List (SubV σ)) (j : Nat),
    j + ss.length ≤ n → j + ss.length ≤ so.length → (resolveExt sr tp lp so n ss j).noPanic
  | [], _, _, _ => True.intro
  | s :: ss, j, h1, h2 => by
    unfold resolveExt
    simp only [List.length_cons] at h1 h2
    cases s with
    | other v => exact True.intro
    | ext et eo =>
      dsimp only
      split
      · exact True.intro
      · rw [idx_ok _ so j (by omega), ok_bind]
        refine bind_noPanic (hsr _ _) (fun ⟨v, d⟩ _ => ?_)
        dsimp only
        rw [store_ok _ _ _ (by omega), ok_bind]
        refine bind_noPanic (resolveExt_noPanic sr hsr tp lp so n ss (j + 1) (by omega) (by omega))
          (fun ⟨r, c⟩ _ => ?_)
        exact True.intro

/-! ## one lookup, the list -/

theorem readLookup_noPanic {σ : Type} (sr : Reader σ) (hsr : ∀ tp p, (sr tp p).noPanic)
    (b : Bytes) (lp numL numS : Nat) (prev : List Nat) :
    (readLookup sr b lp numL numS prev).noPanic := by
  unfold readLookup
  refine bind_noPanic (readBytes_noPanic _ _ _ _ (by omega)) (fun buf hbuf => ?_)
  obtain ⟨hl, _⟩ := readBytes_ok_length hbuf
  obtain ⟨tp, htp, _⟩ := w16_ok "lookup.go:196#buf[0],buf[1]" buf 0 (by omega)
  obtain ⟨flags, hflags, _⟩ := w16_ok "lookup.go:197#buf[2],buf[3]" buf 2 (by omega)
  obtain ⟨cnt, hcnt, hcntlt⟩ := w16_ok "lookup.go:198#buf[4],buf[5]" buf 4 (by omega)
  rw [htp, ok_bind, hflags, ok_bind, hcnt, ok_bind]
  split
  · exact True.intro
  have hs : sliceTo "lookup.go:210#subtableOffsets[:0]" prev 0 = .ok (prev.take 0) := by
    unfold sliceTo
    rw [if_pos (Nat.zero_le _)]
  rw [hs, ok_bind]
  refine bind_noPanic (readU16s_noPanic _ _ _ _) (fun ⟨so, c1⟩ hso => ?_)
  obtain ⟨hsol, _, _, _⟩ := readU16s_ok _ _ _ _ _ _ hso
  refine bind_noPanic ?_ (fun ⟨mfs, c2⟩ _ => ?_)
  · split
    · refine bind_noPanic (rd16_noPanic _ _ _) (fun _ _ => True.intro)
    · exact True.intro
  dsimp only
  rw [mkSlice_ok _ _ _ hcntlt, ok_bind]
  refine bind_noPanic (readSubs_noPanic sr hsr tp lp cnt so 0 (by omega)) (fun ⟨subs, c3⟩ hsubs => ?_)
  have hsl := readSubs_length sr tp lp cnt so 0 subs c3 hsubs
  dsimp only
  refine bind_noPanic (isExtension_noPanic subs) (fun ext _ => ?_)
  cases ext with
  | none => exact True.intro
  | some et =>
    dsimp only
    split
    · exact True.intro
    · refine bind_noPanic (resolveExt_noPanic sr hsr et lp so cnt subs 0 (by omega) (by omega))
        (fun ⟨r, c⟩ _ => ?_)
      exact True.intro

theorem readLookups_noPanic {σ : Type} (sr : Reader σ) (hsr : ∀ tp p, (sr tp p).noPanic)
    (b : Bytes) (pos n : Nat) : ∀ (os : List Nat) (i numL numS : Nat) (prev : List Nat),
    i + os.length ≤ n → (readLookups sr b pos n os i numL numS prev).noPanic
  | [], _, _, _, _, _ => True.intro
  | o :: os, i, numL, numS, prev, h => by
    unfold readLookups
    simp only [List.length_cons] at h
    refine bind_noPanic (readLookup_noPanic sr hsr b _ _ _ _) (fun ⟨⟨l, cnt, so⟩, d⟩ _ => ?_)
    dsimp only
    rw [store_ok _ _ _ (by omega), ok_bind]
    refine bind_noPanic (readLookups_noPanic sr hsr b pos n os (i + 1) _ _ _ (by omega))
      (fun ⟨r, c⟩ _ => ?_)
    exact True.intro

/-- `readLookupList` never panics: ALL bytes, ALL positions, any non-panicking subtable reader -/
theorem readLookupList_noPanic {σ : Type} (sr : Reader σ) (hsr : ∀ tp p, (sr tp p).noPanic)
    (b : Bytes) (pos : Nat) : (readLookupList sr b pos).noPanic := by
  unfold readLookupList
  refine bind_noPanic (rd16_noPanic _ _ _) (fun n hn => ?_)
  have hnlt := (rd16_ok hn).1
  rw [mkSlice_ok _ _ _ hnlt, ok_bind]
  refine bind_noPanic (readU16s_noPanic _ _ _ _) (fun ⟨offs, c1⟩ hoffs => ?_)
  obtain ⟨hol, _, _, _⟩ := readU16s_ok _ _ _ _ _ _ hoffs
  dsimp only
  rw [mkSlice_ok _ _ _ (by omega), ok_bind]
  refine bind_noPanic (readLookups_noPanic sr hsr b pos offs.length offs 0 0 0 [] (by omega))
    (fun ⟨r, c2⟩ _ => ?_)
  exact True.intro

/-! ## the dispatchers and the hook reader never panic -/

/-- `readGsubSubtable` / `readGposSubtable`: an unknown (type, format) is an error (the map read is
comma-ok; there is no call of a nil function), whatever the table of keys -/
theorem dispatch_noPanic {σ : Type} (site : String) (keys : List Nat) (extKey : Nat)
    (sub : SubReaders σ) (hsub : ∀ t f p, (sub t f p).noPanic) (b : Bytes) (tp pos : Nat) :
    (dispatch site keys extKey sub b tp pos).noPanic := by
  unfold dispatch
  refine bind_noPanic (rd16_noPanic _ _ _) (fun format _ => ?_)
  dsimp only
  split
  · exact True.intro
  · split
    · refine bind_noPanic (readExtensionSubtable_noPanic b _) (fun ⟨v, d⟩ _ => True.intro)
    · refine bind_noPanic (hsub _ _ _) (fun ⟨v, d⟩ _ => True.intro)

theorem readGsubSubtable_noPanic {σ : Type} (sub : SubReaders σ)
    (hsub : ∀ t f p, (sub t f p).noPanic) (b : Bytes) (tp pos : Nat) :
    (gsubReader sub b tp pos).noPanic := dispatch_noPanic _ _ _ sub hsub b tp pos

theorem readGposSubtable_noPanic {σ : Type} (sub : SubReaders σ)
    (hsub : ∀ t f p, (sub t f p).noPanic) (b : Bytes) (tp pos : Nat) :
    (gposReader sub b tp pos).noPanic := dispatch_noPanic _ _ _ sub hsub b tp pos

theorem hookReader_noPanic {σ : Type} (leaf : Nat → Nat → Outcome (σ × Cost))
    (hleaf : ∀ t p, (leaf t p).noPanic) (b : Bytes) (extType tp pos : Nat) :
    (hookReader leaf b extType tp pos).noPanic := by
  unfold hookReader
  split
  · refine bind_noPanic (rd16_noPanic _ _ _) (fun format _ => ?_)
    split
    · exact True.intro
    · refine bind_noPanic (readExtensionSubtable_noPanic b _) (fun ⟨v, d⟩ _ => True.intro)
  · refine bind_noPanic (hleaf _ _) (fun ⟨v, d⟩ _ => True.intro)

/-- `gtab.Read` for GSUB: the lookup list reader with the real dispatcher never panics, for any
non-panicking individual subtable readers -/
theorem readLookupList_gsub_noPanic {σ : Type} (sub : SubReaders σ)
    (hsub : ∀ t f p, (sub t f p).noPanic) (b : Bytes) (pos : Nat) :
    (readLookupList (gsubReader sub b) b pos).noPanic :=
  readLookupList_noPanic _ (readGsubSubtable_noPanic sub hsub b) b pos

theorem readLookupList_gpos_noPanic {σ : Type} (sub : SubReaders σ)
    (hsub : ∀ t f p, (sub t f p).noPanic) (b : Bytes) (pos : Nat) :
    (readLookupList (gposReader sub b) b pos).noPanic :=
  readLookupList_noPanic _ (readGposSubtable_noPanic sub hsub b) b pos

/-- the tied instance (`gtab.VerifReadLookupList`) never panics -/
theorem readLookupList_hook_noPanic (b : Bytes) (extType pos : Nat) :
    (readLookupList (hookReader refLeaf b extType) b pos).noPanic :=
  readLookupList_noPanic _ (hookReader_noPanic refLeaf (fun _ _ => True.intro) b extType) b pos

/-! ## cost -/

def SubV.isExt {σ : Type} : SubV σ → Prop
  | .ext _ _ => True
  | .other _ => False

section cost
variable {σ : Type} (sr : Reader σ) (C K : Nat)
  (hC : ∀ tp p v d, sr tp p = .ok (v, d) → d.steps ≤ C ∧ d.alloc ≤ C)
  (hK : ∀ tp p v d, sr tp p = .ok (v, d) → v.isExt → d.steps ≤ K ∧ d.alloc ≤ K)

include hC in
/-- first pass: at most `C` per call -/
theorem readSubs_cost_any (tp lp n : Nat) :
    ∀ (os : List Nat) (j : Nat) (r : List (SubV σ)) (c : Cost),
    readSubs sr tp lp n os j = .ok (r, c) →
    c.steps ≤ os.length + os.length * C ∧ c.alloc ≤ os.length * C
  | [], _, r, c, h => by
    unfold readSubs at h
    cases h
    simp [Cost.zero]
  | o :: os, j, r, c, h => by
    unfold readSubs at h
    obtain ⟨⟨v, d⟩, hd, h⟩ := bind_eq_ok h
    obtain ⟨_, _, h⟩ := bind_eq_ok h
    obtain ⟨⟨r', c'⟩, hr, h⟩ := bind_eq_ok h
    cases h
    have ih := readSubs_cost_any tp lp n os (j + 1) r' c' hr
    have hb := hC _ _ _ _ hd
    simp only [List.length_cons, addCost, Cost.tick, Nat.succ_mul]
    omega

include hK in
/-- first pass of an extension lookup: every call returned an extension record, at most `K` each -/
theorem readSubs_cost_ext (tp lp n : Nat) :
    ∀ (os : List Nat) (j : Nat) (r : List (SubV σ)) (c : Cost),
    readSubs sr tp lp n os j = .ok (r, c) → (∀ s ∈ r, s.isExt) →
    c.steps ≤ os.length + os.length * K ∧ c.alloc ≤ os.length * K
  | [], _, r, c, h, _ => by
    unfold readSubs at h
    cases h
    simp [Cost.zero]
  | o :: os, j, r, c, h, hall => by
    unfold readSubs at h
    obtain ⟨⟨v, d⟩, hd, h⟩ := bind_eq_ok h
    obtain ⟨_, _, h⟩ := bind_eq_ok h
    obtain ⟨⟨r', c'⟩, hr, h⟩ := bind_eq_ok h
    cases h
    have ih := readSubs_cost_ext tp lp n os (j + 1) r' c' hr
      (fun s hs => hall s (List.mem_cons_of_mem _ hs))
    have hb := hK _ _ _ _ hd (hall v List.mem_cons_self)
    simp only [List.length_cons, addCost, Cost.tick, Nat.succ_mul]
    omega

include hC in
/-- second pass: it succeeds only on extension records; at most `C` per call -/
theorem resolveExt_ok (tp lp : Nat) (so : List Nat) (n : Nat) :
    ∀ (ss : List (SubV σ)) (j : Nat) (r : List (SubV σ)) (c : Cost),
    resolveExt sr tp lp so n ss j = .ok (r, c) →
    (∀ s ∈ ss, s.isExt) ∧ r.length = ss.length ∧
      c.steps ≤ ss.length + ss.length * C ∧ c.alloc ≤ ss.length * C
  | [], _, r, c, h => by
    unfold resolveExt at h
    cases h
    simp [Cost.zero]
  | s :: ss, j, r, c, h => by
    unfold resolveExt at h
    cases s with
    | other v => cases h
    | ext et eo =>
      dsimp only at h
      split at h
      · cases h
      · obtain ⟨o, _, h⟩ := bind_eq_ok h
        obtain ⟨⟨v, d⟩, hd, h⟩ := bind_eq_ok h
        obtain ⟨_, _, h⟩ := bind_eq_ok h
        obtain ⟨⟨r', c'⟩, hr, h⟩ := bind_eq_ok h
        cases h
        obtain ⟨ih1, ih2, ih3, ih4⟩ := resolveExt_ok tp lp so n ss (j + 1) r' c' hr
        have hb := hC _ _ _ _ hd
        refine ⟨?_, ?_, ?_, ?_⟩
        · intro s hs
          cases hs with
          | head => exact True.intro
          | tail _ hs => exact ih1 s hs
        · simp only [List.length_cons, ih2]
        · simp only [List.length_cons, addCost, Cost.tick, Nat.succ_mul]
          omega
        · simp only [List.length_cons, addCost, Cost.tick, Nat.succ_mul]
          omega

theorem isExtension_some {σ : Type} {ss : List (SubV σ)} {et : Nat}
    (h : isExtension ss = .ok (some et)) : ∃ eo rest, ss = .ext et eo :: rest := by
  unfold isExtension at h
  split at h
  · cases h
  · cases ss with
    | nil => simp at *
    | cons s rest =>
      rw [idx_ok _ _ 0 (by simp), ok_bind] at h
      cases s with
      | ext tp eo =>
        simp only [List.getElem_cons_zero] at h
        cases h
        exact ⟨eo, rest, rfl⟩
      | other v =>
        simp only [List.getElem_cons_zero] at h
        cases h

include hC hK in
/-- one lookup: the budget holds afterwards, and the lookup costs at most
`2 + 3·cnt + cnt·C + cnt·K` steps and `2 + 2·cnt + cnt·C + cnt·K` allocated elements -/
theorem readLookup_cost (b : Bytes) (lp numL numS : Nat) (prev : List Nat)
    (l : Lookup σ) (cnt : Nat) (so : List Nat) (c : Cost)
    (h : readLookup sr b lp numL numS prev = .ok ((l, cnt, so), c)) :
    (numL + 1) + (numS + cnt) ≤ 6000 ∧ l.subs.length = cnt ∧
      c.steps ≤ 2 + 3 * cnt + cnt * C + cnt * K ∧ c.alloc ≤ 2 + 2 * cnt + cnt * C + cnt * K := by
  unfold readLookup at h
  obtain ⟨buf, _, h⟩ := bind_eq_ok h
  obtain ⟨tp, _, h⟩ := bind_eq_ok h
  obtain ⟨flags, _, h⟩ := bind_eq_ok h
  obtain ⟨cnt', hcnt, h⟩ := bind_eq_ok h
  have hlt := w16_lt hcnt
  split at h
  · cases h
  rename_i hbud
  obtain ⟨_, _, h⟩ := bind_eq_ok h
  obtain ⟨⟨so', c1⟩, hso, h⟩ := bind_eq_ok h
  obtain ⟨hsol, hc1s, hc1a, _⟩ := readU16s_ok _ _ _ _ _ _ hso
  obtain ⟨⟨mfs, c2⟩, hmfs, h⟩ := bind_eq_ok h
  have hc2 : c2.steps ≤ 1 ∧ c2.alloc = 0 := by
    split at hmfs
    · obtain ⟨v, _, hmfs⟩ := bind_eq_ok hmfs
      cases hmfs
      simp [Cost.zero, Cost.tick]
    · cases hmfs
      simp [Cost.zero]
  dsimp only at h
  rw [mkSlice_ok _ _ _ hlt, ok_bind] at h
  obtain ⟨⟨subs, c3⟩, hsubs, h⟩ := bind_eq_ok h
  have hsl := readSubs_length sr tp lp cnt' so' 0 subs c3 hsubs
  dsimp only at h
  obtain ⟨ext, hext, h⟩ := bind_eq_ok h
  cases ext with
  | none =>
    dsimp only at h
    have hc3 := readSubs_cost_any sr C hC tp lp cnt' so' 0 subs c3 hsubs
    rw [hsol] at hc3
    cases h
    refine ⟨by omega, by dsimp only; omega, ?_, ?_⟩
    · simp only [addCost, Cost.tick, Cost.mem, Cost.zero]
      omega
    · simp only [addCost, Cost.tick, Cost.mem, Cost.zero]
      omega
  | some et =>
    dsimp only at h
    split at h
    · cases h
    · obtain ⟨⟨subs', c4⟩, hres, h⟩ := bind_eq_ok h
      obtain ⟨hall, hrl, hc4s, hc4a⟩ := resolveExt_ok sr C hC et lp so' cnt' subs 0 subs' c4 hres
      have hc3 := readSubs_cost_ext sr K hK tp lp cnt' so' 0 subs c3 hsubs hall
      rw [hsol] at hc3
      rw [hsl, hsol] at hc4s hc4a hrl
      cases h
      refine ⟨by omega, by dsimp only; omega, ?_, ?_⟩
      · simp only [addCost, Cost.tick, Cost.mem, Cost.zero]
        omega
      · simp only [addCost, Cost.tick, Cost.mem, Cost.zero]
        omega

include hC hK in
/-- the loop: `m` = lookups + subtables visited from here on stays inside the budget of 6000, and
every unit of it costs at most `C + K + 3` -/
theorem readLookups_cost (b : Bytes) (pos n : Nat) :
    ∀ (os : List Nat) (i numL numS : Nat) (prev : List Nat) (r : List (Lookup σ)) (c : Cost),
    readLookups sr b pos n os i numL numS prev = .ok (r, c) → numL + numS ≤ 6000 →
    ∃ m, numL + numS + m ≤ 6000 ∧ c.steps ≤ m * (C + K + 3) ∧ c.alloc ≤ m * (C + K + 3)
  | [], _, _, _, _, r, c, h, hb => by
    unfold readLookups at h
    cases h
    exact ⟨0, by omega, by simp [Cost.zero], by simp [Cost.zero]⟩
  | o :: os, i, numL, numS, prev, r, c, h, hb => by
    unfold readLookups at h
    obtain ⟨⟨⟨l, cnt, so⟩, d⟩, hd, h⟩ := bind_eq_ok h
    dsimp only at h
    obtain ⟨_, _, h⟩ := bind_eq_ok h
    obtain ⟨⟨r', c'⟩, hr, h⟩ := bind_eq_ok h
    cases h
    obtain ⟨hbud, _, hds, hda⟩ := readLookup_cost sr C K hC hK b _ _ _ _ l cnt so d hd
    obtain ⟨m, hm, hs, ha⟩ := readLookups_cost b pos n os (i + 1) (numL + 1) (numS + cnt) so r' c' hr hbud
    refine ⟨m + (1 + cnt), by omega, ?_, ?_⟩
    · simp only [addCost, Nat.add_mul, Nat.mul_add, Nat.one_mul] at hs ⊢
      omega
    · simp only [addCost, Nat.add_mul, Nat.mul_add, Nat.one_mul] at ha ⊢
      omega

include hC hK in
/-- **cost of `readLookupList`** — the TRUE bound.  The budget `numLookups + numSubTables ≤ 6000`
bounds the number of subtable-reader calls whatever the input, but NOT by the input size: lookup
offsets and subtable offsets may alias one record (`lookup_alias_cost`).  With `C` the maximal
cost of one subtable-reader call and `K` that of a call returning an extension record:
steps, alloc ≤ |b| + 6000·(C + K + 3). -/
theorem readLookupList_cost' (b : Bytes) (pos : Nat) (r : List (Lookup σ)) (c : Cost)
    (h : readLookupList sr b pos = .ok (r, c)) :
    c.steps ≤ b.length + 6000 * (C + K + 3) ∧ c.alloc ≤ b.length + 6000 * (C + K + 3) := by
  unfold readLookupList at h
  obtain ⟨n, hn, h⟩ := bind_eq_ok h
  obtain ⟨hnlt, hnb⟩ := rd16_ok hn
  rw [mkSlice_ok _ _ _ hnlt, ok_bind] at h
  obtain ⟨⟨offs, c1⟩, hoffs, h⟩ := bind_eq_ok h
  obtain ⟨hol, hc1s, hc1a, hob⟩ := readU16s_ok _ _ _ _ _ _ hoffs
  dsimp only at h
  rw [mkSlice_ok _ _ _ (by omega), ok_bind] at h
  obtain ⟨⟨r', c2⟩, hr, h⟩ := bind_eq_ok h
  cases h
  obtain ⟨m, hm, hs, ha⟩ := readLookups_cost sr C K hC hK b pos offs.length offs 0 0 0 [] r' c2 hr (by omega)
  have hmW : m * (C + K + 3) ≤ 6000 * (C + K + 3) := Nat.mul_le_mul_right _ (by omega)
  simp only [addCost, Cost.tick, Cost.mem, Cost.zero]
  omega

include hC hK in
/-- the same in the shape `steps ≤ 2·|b| + 6000·(C + k)` with `k = K + 3` -/
theorem readLookupList_cost (b : Bytes) (pos : Nat) (r : List (Lookup σ)) (c : Cost)
    (h : readLookupList sr b pos = .ok (r, c)) :
    c.steps ≤ 2 * b.length + 6000 * (C + (K + 3)) ∧ c.alloc ≤ 2 * b.length + 6000 * (C + (K + 3)) := by
  have := readLookupList_cost' sr C K hC hK b pos r c h
  have e : C + (K + 3) = C + K + 3 := by omega
  rw [e]
  generalize 6000 * (C + K + 3) = X at this ⊢
  omega

end cost

/-! ## the finding: aliased lookup offsets (known finding C02-gsub-lookup-alias) -/

theorem pure_bind_ok {α β : Type} (a : α) (f : α → Outcome β) : (pure a >>= f) = f a := rfl

theorem rd16_at {site : String} {b : Bytes} {pos : Nat} {hi lo : UInt8}
    (h0 : b[pos]? = some hi) (h1 : b[pos + 1]? = some lo) : rd16 site b pos = .ok (be hi lo) := by
  obtain ⟨hlt, _⟩ := List.getElem?_eq_some_iff.mp h1
  unfold rd16 readBytes
  rw [if_neg (by omega), if_pos (by omega), ok_bind]
  unfold w16 idx
  simp only [List.getElem?_take, List.getElem?_drop, Nat.add_zero, h0, h1]
  rfl

/-- `hi lo` repeated `n` times -/
def rep2 (hi lo : UInt8) : Nat → Bytes
  | 0 => []
  | n+1 => hi :: lo :: rep2 hi lo n

theorem rep2_length (hi lo : UInt8) : ∀ n, (rep2 hi lo n).length = 2 * n
  | 0 => rfl
  | n+1 => by simp only [rep2, List.length_cons, rep2_length hi lo n]; omega

theorem rep2_get (hi lo : UInt8) : ∀ (n j : Nat), j < n →
    (rep2 hi lo n)[2 * j]? = some hi ∧ (rep2 hi lo n)[2 * j + 1]? = some lo
  | 0, _, h => by omega
  | n+1, 0, _ => by simp [rep2]
  | n+1, j+1, h => by
    have ih := rep2_get hi lo n j (by omega)
    have e1 : 2 * (j + 1) = 2 * j + 1 + 1 := by omega
    rw [e1]
    simp only [rep2, List.getElem?_cons_succ]
    exact ih

theorem readU16s_const (site : String) (b : Bytes) (hi lo : UInt8) : ∀ (n pos : Nat),
    (∀ j, j < n → b[pos + 2 * j]? = some hi ∧ b[pos + 2 * j + 1]? = some lo) →
    readU16s site b n pos = .ok (List.replicate n (be hi lo), ⟨n, 0⟩)
  | 0, _, _ => rfl
  | n+1, pos, h => by
    unfold readU16s
    have h0 := h 0 (by omega)
    rw [rd16_at (by simpa using h0.1) (by simpa using h0.2), ok_bind]
    rw [readU16s_const site b hi lo n (pos + 2) (fun j hj => by
      have := h (j + 1) (by omega)
      have e : pos + 2 * (j + 1) = pos + 2 + 2 * j := by omega
      rw [e] at this
      exact this), ok_bind]
    rfl

/-- the aliased record: lookup type 1, no flags, one subtable at offset 8 -/
def aliasRec : Bytes := [0, 1, 0, 0, 0, 1, 0, 8]

theorem readLookup_aliasRec {σ : Type} (sr : Reader σ) (b : Bytes) (lp numL numS : Nat)
    (prev : List Nat) (v : SubV σ) (d : Cost) (hv : ¬ v.isExt)
    (hb : ∀ k (hk : k < 8), b[lp + k]? = some aliasRec[k])
    (hbud : numL + numS + 2 ≤ 6000) (hsr : sr 1 (lp + 8) = .ok (v, d)) :
    readLookup sr b lp numL numS prev =
      .ok ((⟨1, 0, 0, [v]⟩, 1, [8]), ⟨3 + d.steps, 4 + d.alloc⟩) := by
  have h0 := hb 0 (by omega)
  have h1 := hb 1 (by omega)
  have h2 := hb 2 (by omega)
  have h3 := hb 3 (by omega)
  have h4 := hb 4 (by omega)
  have h5 := hb 5 (by omega)
  have h6 := hb 6 (by omega)
  have h7 := hb 7 (by omega)
  simp only [aliasRec, List.getElem_cons_zero, List.getElem_cons_succ, Nat.add_zero] at h0 h1 h2 h3 h4 h5 h6 h7
  obtain ⟨hlt, _⟩ := List.getElem?_eq_some_iff.mp h7
  unfold readLookup readBytes
  rw [if_neg (by omega), if_pos (by omega), ok_bind]
  have e0 : w16 "lookup.go:196#buf[0],buf[1]" (List.take 6 (List.drop lp b)) 0 = .ok 1 := by
    unfold w16 idx
    simp only [List.getElem?_take, List.getElem?_drop, Nat.add_zero, h0, h1]
    rfl
  have e2 : w16 "lookup.go:197#buf[2],buf[3]" (List.take 6 (List.drop lp b)) 2 = .ok 0 := by
    unfold w16 idx
    simp only [List.getElem?_take, List.getElem?_drop, h2, h3]
    rfl
  have e4 : w16 "lookup.go:198#buf[4],buf[5]" (List.take 6 (List.drop lp b)) 4 = .ok 1 := by
    unfold w16 idx
    simp only [List.getElem?_take, List.getElem?_drop, h4, h5]
    rfl
  rw [e0, ok_bind, e2, ok_bind, e4, ok_bind, if_neg (by omega)]
  have hs : sliceTo "lookup.go:210#subtableOffsets[:0]" prev 0 = .ok (prev.take 0) := by
    unfold sliceTo
    rw [if_pos (Nat.zero_le _)]
  rw [hs, ok_bind]
  have eso : readU16s "lookup.go:212#ReadUint16" b 1 (lp + 6) = .ok ([8], ⟨1, 0⟩) := by
    have := readU16s_const "lookup.go:212#ReadUint16" b 0 8 1 (lp + 6) (fun j hj => by
      have : j = 0 := by omega
      subst this
      exact ⟨h6, h7⟩)
    exact this
  rw [eso, ok_bind]
  dsimp only
  rw [if_neg (by decide), pure_bind_ok]
  dsimp only
  rw [mkSlice_ok _ _ _ (by omega), ok_bind]
  unfold readSubs
  rw [hsr, ok_bind]
  dsimp only
  rw [store_ok _ _ _ (by omega), ok_bind]
  unfold readSubs
  rw [ok_bind]
  dsimp only
  have hie : isExtension [v] = .ok none := by
    unfold isExtension
    rw [if_neg (by simp), idx_ok _ _ 0 (by simp), ok_bind]
    cases v with
    | ext _ _ => exact absurd True.intro hv
    | other _ => rfl
  rw [ok_bind]
  dsimp only
  rw [hie, ok_bind]
  simp only [addCost, Cost.tick, Cost.mem, Cost.zero]
  congr 3 <;> omega

theorem readLookups_alias {σ : Type} (sr : Reader σ) (b : Bytes) (o N : Nat)
    (v : SubV σ) (d : Cost) (hv : ¬ v.isExt)
    (hb : ∀ k (hk : k < 8), b[o + k]? = some aliasRec[k])
    (hsr : sr 1 (o + 8) = .ok (v, d)) :
    ∀ (k i numL numS : Nat) (prev : List Nat), numL + numS + 2 * k ≤ 6000 → i + k ≤ N →
    readLookups sr b 0 N (List.replicate k o) i numL numS prev =
      .ok (List.replicate k ⟨1, 0, 0, [v]⟩, ⟨k * (3 + d.steps), k * (4 + d.alloc)⟩)
  | 0, _, _, _, _, _, _ => by
    simp only [List.replicate, readLookups, Nat.zero_mul]
    rfl
  | k+1, i, numL, numS, prev, h1, h2 => by
    simp only [List.replicate]
    unfold readLookups
    rw [Nat.zero_add, readLookup_aliasRec sr b o numL numS prev v d hv hb (by omega) hsr, ok_bind]
    dsimp only
    rw [store_ok _ _ _ (by omega), ok_bind,
      readLookups_alias sr b o N v d hv hb hsr k (i + 1) (numL + 1) (numS + 1) [8] (by omega) (by omega),
      ok_bind]
    simp only [addCost, Nat.succ_mul]

/-- `n` lookup offsets, all pointing at ONE lookup record with one subtable, then `tail` (the
subtable): 2·n + 10 + |tail| bytes -/
def aliasBytes (n : Nat) (tail : Bytes) : Bytes :=
  (UInt8.ofNat (n / 256) :: UInt8.ofNat (n % 256) ::
    rep2 (UInt8.ofNat ((2 + 2 * n) / 256)) (UInt8.ofNat ((2 + 2 * n) % 256)) n) ++ (aliasRec ++ tail)

theorem aliasBytes_length (n : Nat) (tail : Bytes) :
    (aliasBytes n tail).length = 2 * n + 10 + tail.length := by
  simp only [aliasBytes, List.length_append, List.length_cons, rep2_length, aliasRec, List.length_nil]
  omega

theorem be_ofNat (x : Nat) (h : x < 65536) : be (UInt8.ofNat (x / 256)) (UInt8.ofNat (x % 256)) = x := by
  unfold be
  simp only [UInt8.toNat_ofNat']
  omega

/-- **the aliasing family** (finding C02-gsub-lookup-alias as a theorem): for every `n ≤ 3000` the
`2·n + 10 + |tail|` bytes `aliasBytes n tail` decode without error, and the ONE subtable (cost `d`) is
decoded `n` times: the cost is `n·d`, not `d + O(|b|)`. -/
theorem lookup_alias_cost {σ : Type} (sr : Reader σ) (n : Nat) (hn : n ≤ 3000) (tail : Bytes)
    (v : SubV σ) (d : Cost) (hv : ¬ v.isExt) (hsr : sr 1 (2 + 2 * n + 8) = .ok (v, d)) :
    readLookupList sr (aliasBytes n tail) 0 =
      .ok (List.replicate n ⟨1, 0, 0, [v]⟩, ⟨1 + n + n * (3 + d.steps), 2 * n + n * (4 + d.alloc)⟩) := by
  have hlen : (UInt8.ofNat (n / 256) :: UInt8.ofNat (n % 256) ::
      rep2 (UInt8.ofNat ((2 + 2 * n) / 256)) (UInt8.ofNat ((2 + 2 * n) % 256)) n).length = 2 + 2 * n := by
    simp only [List.length_cons, rep2_length]
    omega
  unfold readLookupList
  rw [rd16_at (hi := UInt8.ofNat (n / 256)) (lo := UInt8.ofNat (n % 256)) (by simp [aliasBytes])
    (by simp [aliasBytes]), ok_bind, be_ofNat n (by omega), mkSlice_ok _ _ _ (by omega), ok_bind]
  rw [readU16s_const _ _ (UInt8.ofNat ((2 + 2 * n) / 256)) (UInt8.ofNat ((2 + 2 * n) % 256)) n (0 + 2)
    (fun j hj => by
      have hg := rep2_get (UInt8.ofNat ((2 + 2 * n) / 256)) (UInt8.ofNat ((2 + 2 * n) % 256)) n j hj
      have e1 : 0 + 2 + 2 * j = 2 * j + 1 + 1 := by omega
      rw [e1]
      simp only [aliasBytes, List.cons_append, List.getElem?_cons_succ]
      rw [List.getElem?_append_left (by rw [rep2_length]; omega),
        List.getElem?_append_left (by rw [rep2_length]; omega)]
      exact hg), ok_bind]
  dsimp only
  rw [be_ofNat _ (by omega), List.length_replicate, mkSlice_ok _ _ _ (by omega), ok_bind]
  have hb : ∀ k (hk : k < 8), (aliasBytes n tail)[2 + 2 * n + k]? = some aliasRec[k] := by
    intro k hk
    unfold aliasBytes
    rw [List.getElem?_append_right (by rw [hlen]; omega), hlen, Nat.add_sub_cancel_left,
      List.getElem?_append_left (by simp [aliasRec]; omega)]
    exact List.getElem?_eq_getElem _
  rw [readLookups_alias sr _ (2 + 2 * n) n v d hv hb hsr n 0 0 0 [] (by omega) (by omega), ok_bind]
  simp only [addCost, Cost.tick, Cost.mem, Cost.zero]
  congr 3 <;> omega

/-- hence NO bound of the form `alloc ≤ 4096·|b| + 2^24` (nor for steps) for the lookup list reader,
even when every single subtable costs at most 65536 (e.g. one coverage table 0..65535): 6010
bytes cost more than 196 million. -/
theorem readLookupList_cost_not_linear :
    ∃ (sr : Reader Unit) (b : Bytes), (∀ tp p, (sr tp p).noPanic) ∧
      (∀ tp p v d, sr tp p = .ok (v, d) → d.steps ≤ 65536 ∧ d.alloc ≤ 65536) ∧
      ∃ r c, readLookupList sr b 0 = .ok (r, c) ∧
        ¬ c.alloc ≤ 4096 * b.length + 2 ^ 24 ∧ ¬ c.steps ≤ 4096 * b.length + 2 ^ 24 := by
  refine ⟨fun _ _ => .ok (.other (), ⟨65536, 65536⟩), aliasBytes 3000 [], fun _ _ => True.intro, ?_, ?_⟩
  · intro tp p v d h
    cases h
    exact ⟨Nat.le_refl _, Nat.le_refl _⟩
  · refine ⟨_, _, lookup_alias_cost _ 3000 (by omega) [] (.other ()) ⟨65536, 65536⟩ (fun h => h) rfl, ?_, ?_⟩
    · rw [aliasBytes_length]
      simp only [List.length_nil]
      omega
    · rw [aliasBytes_length]
      simp only [List.length_nil]
      omega

/-! ## cost of the instances -/

/-- one dispatcher call: the format read, then either the extension record (2 steps, 1 object) or
the selected subtable reader -/
theorem dispatch_cost {σ : Type} (site : String) (keys : List Nat) (extKey : Nat)
    (sub : SubReaders σ) (C : Nat)
    (hsub : ∀ t f p v d, sub t f p = .ok (v, d) → d.steps ≤ C ∧ d.alloc ≤ C)
    (b : Bytes) (tp pos : Nat) (v : SubV σ) (d : Cost)
    (h : dispatch site keys extKey sub b tp pos = .ok (v, d)) :
    (d.steps ≤ C + 2 ∧ d.alloc ≤ C + 2) ∧ (v.isExt → d.steps ≤ 2 ∧ d.alloc ≤ 2) := by
  unfold dispatch at h
  obtain ⟨format, _, h⟩ := bind_eq_ok h
  dsimp only at h
  split at h
  · cases h
  · split at h
    · obtain ⟨⟨v', d'⟩, hd, h⟩ := bind_eq_ok h
      cases h
      obtain ⟨_, hd', _⟩ := readExtensionSubtable_ok hd
      subst hd'
      simp only [Cost.tick]
      omega
    · obtain ⟨⟨v', d'⟩, hd, h⟩ := bind_eq_ok h
      cases h
      have := hsub _ _ _ _ _ hd
      simp only [Cost.tick]
      refine ⟨by omega, fun hx => absurd hx (fun hx => hx)⟩

/-- `gtab.Read` (GSUB): with `C` the maximal cost of an individual subtable reader,
steps, alloc ≤ |b| + 6000·(C + 7) — and this is attained up to the constant (`lookup_alias_cost`) -/
theorem readLookupList_gsub_cost {σ : Type} (sub : SubReaders σ) (C : Nat)
    (hsub : ∀ t f p v d, sub t f p = .ok (v, d) → d.steps ≤ C ∧ d.alloc ≤ C)
    (b : Bytes) (pos : Nat) (r : List (Lookup σ)) (c : Cost)
    (h : readLookupList (gsubReader sub b) b pos = .ok (r, c)) :
    c.steps ≤ b.length + 6000 * (C + 7) ∧ c.alloc ≤ b.length + 6000 * (C + 7) := by
  have := readLookupList_cost' (gsubReader sub b) (C + 2) 2
    (fun tp p v d hd => (dispatch_cost _ _ _ sub C hsub b tp p v d hd).1)
    (fun tp p v d hd => (dispatch_cost _ _ _ sub C hsub b tp p v d hd).2) b pos r c h
  have e : C + 2 + 2 + 3 = C + 7 := by omega
  rw [e] at this
  exact this

theorem readLookupList_gpos_cost {σ : Type} (sub : SubReaders σ) (C : Nat)
    (hsub : ∀ t f p v d, sub t f p = .ok (v, d) → d.steps ≤ C ∧ d.alloc ≤ C)
    (b : Bytes) (pos : Nat) (r : List (Lookup σ)) (c : Cost)
    (h : readLookupList (gposReader sub b) b pos = .ok (r, c)) :
    c.steps ≤ b.length + 6000 * (C + 7) ∧ c.alloc ≤ b.length + 6000 * (C + 7) := by
  have := readLookupList_cost' (gposReader sub b) (C + 2) 2
    (fun tp p v d hd => (dispatch_cost _ _ _ sub C hsub b tp p v d hd).1)
    (fun tp p v d hd => (dispatch_cost _ _ _ sub C hsub b tp p v d hd).2) b pos r c h
  have e : C + 2 + 2 + 3 = C + 7 := by omega
  rw [e] at this
  exact this

theorem hookReader_cost (b : Bytes) (extType tp pos : Nat) (v : SubV (Nat × Nat)) (d : Cost)
    (h : hookReader refLeaf b extType tp pos = .ok (v, d)) : d.steps ≤ 2 ∧ d.alloc ≤ 2 := by
  unfold hookReader at h
  split at h
  · obtain ⟨format, _, h⟩ := bind_eq_ok h
    split at h
    · cases h
    · obtain ⟨⟨v', d'⟩, hd, h⟩ := bind_eq_ok h
      cases h
      obtain ⟨_, hd', _⟩ := readExtensionSubtable_ok hd
      subst hd'
      simp only [Cost.tick]
      omega
  · obtain ⟨⟨v', d'⟩, hd, h⟩ := bind_eq_ok h
    cases h
    unfold refLeaf at hd
    cases hd
    exact ⟨by decide, by decide⟩

/-- the list reader ITSELF (the tied instance: subtables are not decoded) is linear:
steps, alloc ≤ |b| + 42000 -/
theorem readLookupList_hook_cost (b : Bytes) (extType pos : Nat) (r : List (Lookup (Nat × Nat)))
    (c : Cost) (h : readLookupList (hookReader refLeaf b extType) b pos = .ok (r, c)) :
    c.steps ≤ b.length + 42000 ∧ c.alloc ≤ b.length + 42000 :=
  readLookupList_cost' (hookReader refLeaf b extType) 2 2
    (fun tp p v d hd => hookReader_cost b extType tp p v d hd)
    (fun tp p v d hd _ => hookReader_cost b extType tp p v d hd) b pos r c h

/-! ## the finding C02-lookuplist-ext-ext (pre-repair dispatchers) and its repair

`readLookupList` checks `tp == meta.LookupType` (extension → the SAME type) but not that the
subtable decoded in the second pass is again an extension record.  With the dispatchers BEFORE
/repo 8867078 (`dispatchOld`) this was reachable because the reader key `10*meta.LookupType+format`
is computed in `uint16`: extension type 6560, format 7 gives key 65607 mod 65536 = 71 =
`readExtensionSubtable` (likewise type 0 with format 71).  The 28-byte lookup list below (42 bytes
as a GSUB table) was ACCEPTED and yielded a lookup of type 6560 holding an `*extensionSubtable`,
whose `apply` is `panic("unreachable")`: `Context.Apply` panicked on the decoded table
(`total.lookuplist-apply table=gsub bytes=00010000000a000c000e00000000000100040007000000010008000119a0000000080007000100000000`).
The repaired dispatchers refuse lookup types and formats above 9; then only lookup type 7 (GSUB) /
9 (GPOS) yields extension records and nothing else does, so no extension record is left in a
successfully read lookup list (`readLookupList_no_ext`, `dispatch_no_ext_ext`). -/

def extExtBytes : Bytes :=
  [0, 1, 0, 4,                       -- one lookup at +4
   0, 7, 0, 0, 0, 1, 0, 8,           -- type 7, no flags, one subtable at +8
   0, 1, 0x19, 0xa0, 0, 0, 0, 8,     -- extension record: type 6560, offset 8
   0, 7, 0, 1, 0, 0, 0, 0]           -- "type 6560 format 7" = key 71: an extension record again

set_option maxRecDepth 20000 in
/-- PRE-REPAIR dispatcher: the extension → extension list is accepted -/
theorem ext_ext_survives {σ : Type} (sub : SubReaders σ) :
    ∃ c, readLookupList (gsubReaderOld sub extExtBytes) extExtBytes 0 =
      .ok ([⟨6560, 0, 0, [.ext 1 0]⟩], c) :=
  ⟨_, rfl⟩

set_option maxRecDepth 20000 in
/-- REPAIRED dispatcher: the same bytes are refused -/
theorem ext_ext_rejected {σ : Type} (sub : SubReaders σ) :
    readLookupList (gsubReader sub extExtBytes) extExtBytes 0 = .err "invalid" :=
  rfl

/-- PRE-REPAIR dispatcher, the uint16 wrap of the reader key: lookup type 6554 with format word 7
was decoded by the reader of GSUB 1.1 (key 11) — not rejected as unknown -/
theorem dispatch_key_wraps {σ : Type} (sub : SubReaders σ) (b : Bytes) (hb : rd16 "gsub.go:36#ReadUint16" b 0 = .ok 7) :
    gsubReaderOld sub b 6554 0 = (do let (v, d) ← sub 1 1 0; .ok (.other v, d.tick)) := by
  unfold gsubReaderOld dispatchOld
  rw [hb, ok_bind]
  rfl

/-- REPAIRED dispatcher: the same call is an error -/
theorem dispatch_key_no_wrap {σ : Type} (sub : SubReaders σ) (b : Bytes) (hb : rd16 "gsub.go:36#ReadUint16" b 0 = .ok 7) :
    gsubReader sub b 6554 0 = .err "invalid" := by
  unfold gsubReader dispatch
  rw [hb, ok_bind]
  rfl

/-- every result of the first pass comes from a call of `sr` with the lookup's type -/
theorem readSubs_mem {σ : Type} (sr : Reader σ) (tp lp n : Nat) :
    ∀ (os : List Nat) (j : Nat) (r : List (SubV σ)) (c : Cost),
    readSubs sr tp lp n os j = .ok (r, c) → ∀ s ∈ r, ∃ p d, sr tp p = .ok (s, d)
  | [], _, r, c, h => by
    unfold readSubs at h
    cases h
    intro s hs
    cases hs
  | o :: os, j, r, c, h => by
    unfold readSubs at h
    obtain ⟨⟨v, d⟩, hd, h⟩ := bind_eq_ok h
    obtain ⟨_, _, h⟩ := bind_eq_ok h
    obtain ⟨⟨r', c'⟩, hr, h⟩ := bind_eq_ok h
    cases h
    intro s hs
    cases hs with
    | head => exact ⟨_, _, hd⟩
    | tail _ hs => exact readSubs_mem sr tp lp n os (j + 1) r' c' hr s hs

/-- every result of the second pass comes from a call of `sr` with the extension lookup type -/
theorem resolveExt_mem {σ : Type} (sr : Reader σ) (tp lp : Nat) (so : List Nat) (n : Nat) :
    ∀ (ss : List (SubV σ)) (j : Nat) (r : List (SubV σ)) (c : Cost),
    resolveExt sr tp lp so n ss j = .ok (r, c) → ∀ s ∈ r, ∃ p d, sr tp p = .ok (s, d)
  | [], _, r, c, h => by
    unfold resolveExt at h
    cases h
    intro s hs
    cases hs
  | s0 :: ss, j, r, c, h => by
    unfold resolveExt at h
    cases s0 with
    | other v => cases h
    | ext et eo =>
      dsimp only at h
      split at h
      · cases h
      · obtain ⟨o, _, h⟩ := bind_eq_ok h
        obtain ⟨⟨v, d⟩, hd, h⟩ := bind_eq_ok h
        obtain ⟨_, _, h⟩ := bind_eq_ok h
        obtain ⟨⟨r', c'⟩, hr, h⟩ := bind_eq_ok h
        cases h
        intro s hs
        cases hs with
        | head => exact ⟨_, _, hd⟩
        | tail _ hs => exact resolveExt_mem sr tp lp so n ss (j + 1) r' c' hr s hs

section noext
variable {σ : Type} (sr : Reader σ) (E : Nat)
  (hE : ∀ tp p v d, sr tp p = .ok (v, d) → (v.isExt ↔ tp = E))

include hE in
theorem readLookup_no_ext (b : Bytes) (lp numL numS : Nat) (prev : List Nat)
    (l : Lookup σ) (cnt : Nat) (so : List Nat) (c : Cost)
    (h : readLookup sr b lp numL numS prev = .ok ((l, cnt, so), c)) : ∀ s ∈ l.subs, ¬ s.isExt := by
  unfold readLookup at h
  obtain ⟨buf, _, h⟩ := bind_eq_ok h
  obtain ⟨tp, _, h⟩ := bind_eq_ok h
  obtain ⟨flags, _, h⟩ := bind_eq_ok h
  obtain ⟨cnt', hcnt, h⟩ := bind_eq_ok h
  split at h
  · cases h
  obtain ⟨_, _, h⟩ := bind_eq_ok h
  obtain ⟨⟨so', c1⟩, _, h⟩ := bind_eq_ok h
  obtain ⟨⟨mfs, c2⟩, _, h⟩ := bind_eq_ok h
  dsimp only at h
  obtain ⟨_, _, h⟩ := bind_eq_ok h
  obtain ⟨⟨subs, c3⟩, hsubs, h⟩ := bind_eq_ok h
  have hmem := readSubs_mem sr tp lp cnt' so' 0 subs c3 hsubs
  dsimp only at h
  obtain ⟨ext, hext, h⟩ := bind_eq_ok h
  cases ext with
  | none =>
    dsimp only at h
    cases h
    dsimp only
    -- the first subtable (if any) is not an extension record: the lookup type is not `E`
    intro s hs hx
    obtain ⟨p, d, hp⟩ := hmem s hs
    have htp : tp = E := (hE _ _ _ _ hp).mp hx
    cases subs with
    | nil => cases hs
    | cons s0 rest =>
      obtain ⟨p0, d0, hp0⟩ := hmem s0 List.mem_cons_self
      have h0 : s0.isExt := (hE _ _ _ _ hp0).mpr htp
      unfold isExtension at hext
      rw [if_neg (by simp), idx_ok _ _ 0 (by simp), ok_bind] at hext
      cases s0 with
      | ext _ _ =>
        simp only [List.getElem_cons_zero] at hext
        cases hext
      | other _ => exact h0
  | some et =>
    dsimp only at h
    split at h
    · cases h
    · rename_i hne
      obtain ⟨⟨subs', c4⟩, hres, h⟩ := bind_eq_ok h
      have hmem2 := resolveExt_mem sr et lp so' cnt' subs 0 subs' c4 hres
      cases h
      dsimp only
      obtain ⟨eo, rest, hsubs'⟩ := isExtension_some hext
      subst hsubs'
      obtain ⟨p0, d0, hp0⟩ := hmem _ List.mem_cons_self
      have htp : tp = E := (hE _ _ _ _ hp0).mp True.intro
      intro s hs hx
      obtain ⟨p, d, hp⟩ := hmem2 s hs
      have : et = E := (hE _ _ _ _ hp).mp hx
      omega

include hE in
theorem readLookups_no_ext (b : Bytes) (pos n : Nat) :
    ∀ (os : List Nat) (i numL numS : Nat) (prev : List Nat) (r : List (Lookup σ)) (c : Cost),
    readLookups sr b pos n os i numL numS prev = .ok (r, c) → ∀ l ∈ r, ∀ s ∈ l.subs, ¬ s.isExt
  | [], _, _, _, _, r, c, h => by
    unfold readLookups at h
    cases h
    intro l hl
    cases hl
  | o :: os, i, numL, numS, prev, r, c, h => by
    unfold readLookups at h
    obtain ⟨⟨⟨l, cnt, so⟩, d⟩, hd, h⟩ := bind_eq_ok h
    dsimp only at h
    obtain ⟨_, _, h⟩ := bind_eq_ok h
    obtain ⟨⟨r', c'⟩, hr, h⟩ := bind_eq_ok h
    cases h
    intro l' hl'
    cases hl' with
    | head => exact readLookup_no_ext sr E hE b _ _ _ _ l cnt so d hd
    | tail _ hl' => exact readLookups_no_ext b pos n os (i + 1) _ _ so r' c' hr l' hl'

include hE in
/-- if exactly the lookup type `E` yields extension records (and yields nothing else), every
subtable of a successfully read lookup list is a non-extension subtable -/
theorem readLookupList_no_ext (b : Bytes) (pos : Nat) (r : List (Lookup σ)) (c : Cost)
    (h : readLookupList sr b pos = .ok (r, c)) : ∀ l ∈ r, ∀ s ∈ l.subs, ¬ s.isExt := by
  unfold readLookupList at h
  obtain ⟨n, _, h⟩ := bind_eq_ok h
  obtain ⟨_, _, h⟩ := bind_eq_ok h
  obtain ⟨⟨offs, c1⟩, _, h⟩ := bind_eq_ok h
  dsimp only at h
  obtain ⟨_, _, h⟩ := bind_eq_ok h
  obtain ⟨⟨r', c2⟩, hr, h⟩ := bind_eq_ok h
  cases h
  exact readLookups_no_ext sr E hE b pos offs.length offs 0 0 0 [] r' c2 hr

end noext

/-- the repaired GSUB dispatcher returns an extension record exactly for lookup type 7 -/
theorem gsubReader_isExt_iff {σ : Type} (sub : SubReaders σ) (b : Bytes) (tp p : Nat) (v : SubV σ)
    (d : Cost) (h : gsubReader sub b tp p = .ok (v, d)) : v.isExt ↔ tp = 7 := by
  unfold gsubReader dispatch at h
  obtain ⟨format, _, h⟩ := bind_eq_ok h
  dsimp only at h
  split at h
  · cases h
  · rename_i hg
    simp only [Bool.or_eq_true, Bool.not_eq_true', decide_eq_true_eq, not_or, Bool.not_eq_false,
      Nat.not_lt] at hg
    obtain ⟨⟨hk, htp⟩, hf⟩ := hg
    have hkey : (10 * tp + format) % 65536 = 10 * tp + format := Nat.mod_eq_of_lt (by omega)
    rw [hkey] at hk h
    simp only [gsubKeys, List.contains_cons, List.contains_nil, Bool.or_false, Bool.or_eq_true,
      beq_iff_eq] at hk
    split at h
    · obtain ⟨⟨v', d'⟩, hd, h⟩ := bind_eq_ok h
      cases h
      obtain ⟨⟨et, eo, hv⟩, _, _⟩ := readExtensionSubtable_ok hd
      subst hv
      exact ⟨fun _ => by omega, fun _ => True.intro⟩
    · obtain ⟨⟨v', d'⟩, hd, h⟩ := bind_eq_ok h
      cases h
      exact ⟨fun hx => absurd hx (fun hx => hx), fun h7 => by omega⟩

/-- the repaired GPOS dispatcher returns an extension record exactly for lookup type 9 -/
theorem gposReader_isExt_iff {σ : Type} (sub : SubReaders σ) (b : Bytes) (tp p : Nat) (v : SubV σ)
    (d : Cost) (h : gposReader sub b tp p = .ok (v, d)) : v.isExt ↔ tp = 9 := by
  unfold gposReader dispatch at h
  obtain ⟨format, _, h⟩ := bind_eq_ok h
  dsimp only at h
  split at h
  · cases h
  · rename_i hg
    simp only [Bool.or_eq_true, Bool.not_eq_true', decide_eq_true_eq, not_or, Bool.not_eq_false,
      Nat.not_lt] at hg
    obtain ⟨⟨hk, htp⟩, hf⟩ := hg
    have hkey : (10 * tp + format) % 65536 = 10 * tp + format := Nat.mod_eq_of_lt (by omega)
    rw [hkey] at hk h
    simp only [gposKeys, List.contains_cons, List.contains_nil, Bool.or_false, Bool.or_eq_true,
      beq_iff_eq] at hk
    split at h
    · obtain ⟨⟨v', d'⟩, hd, h⟩ := bind_eq_ok h
      cases h
      obtain ⟨⟨et, eo, hv⟩, _, _⟩ := readExtensionSubtable_ok hd
      subst hv
      exact ⟨fun _ => by omega, fun _ => True.intro⟩
    · obtain ⟨⟨v', d'⟩, hd, h⟩ := bind_eq_ok h
      cases h
      exact ⟨fun hx => absurd hx (fun hx => hx), fun h9 => by omega⟩

/-- **the repair of C02-lookuplist-ext-ext** (GSUB): with the repaired dispatcher no extension record
is left in a successfully read lookup list — an extension record whose target is again an
extension record is impossible (ExtensionLookupType 7 is refused by `readLookupList`, and no other
lookup type reaches `readExtensionSubtable`).  This is what makes the `panic("unreachable")` of
`extensionSubtable.apply` unreachable from `gtab.Read`. -/
theorem dispatch_no_ext_ext {σ : Type} (sub : SubReaders σ) (b : Bytes) (pos : Nat)
    (r : List (Lookup σ)) (c : Cost) (h : readLookupList (gsubReader sub b) b pos = .ok (r, c)) :
    ∀ l ∈ r, ∀ s ∈ l.subs, ¬ s.isExt :=
  readLookupList_no_ext (gsubReader sub b) 7 (gsubReader_isExt_iff sub b) b pos r c h

/-- the same for GPOS (extension lookup type 9) -/
theorem dispatch_no_ext_ext_gpos {σ : Type} (sub : SubReaders σ) (b : Bytes) (pos : Nat)
    (r : List (Lookup σ)) (c : Cost) (h : readLookupList (gposReader sub b) b pos = .ok (r, c)) :
    ∀ l ∈ r, ∀ s ∈ l.subs, ¬ s.isExt :=
  readLookupList_no_ext (gposReader sub b) 9 (gposReader_isExt_iff sub b) b pos r c h

/-! ## non-vacuity -/

/-- the decoded value, if any -/
def value {α : Type} : Outcome (α × Cost) → Option α
  | .ok (r, _) => some r
  | _ => none

/-- two lookups (the second an extension lookup resolving to type 2) through the tied reader -/
example : value (readLookupList (hookReader refLeaf
      [0, 2, 0, 6, 0, 14,  0, 1, 0, 0, 0, 1, 0, 20,  0, 7, 0, 16, 0, 1, 0, 10, 0, 5,
       0, 1, 0, 2, 0, 0, 0, 8, 0, 1] 7)
      [0, 2, 0, 6, 0, 14,  0, 1, 0, 0, 0, 1, 0, 20,  0, 7, 0, 16, 0, 1, 0, 10, 0, 5,
       0, 1, 0, 2, 0, 0, 0, 8, 0, 1] 0) =
    some [⟨1, 0, 0, [.other (26, 1)]⟩, ⟨2, 16, 5, [.other (32, 2)]⟩] := by decide +kernel

example : readExtensionSubtable (σ := Unit) [9, 9, 0, 2, 0, 1, 0, 8] 2 = .ok (.ext 2 65544, ⟨1, 1⟩) := by
  decide +kernel

example : gsubReader (σ := Unit) (fun _ _ _ => .ok ((), ⟨5, 5⟩)) [0, 1, 0, 6] 4 0 =
    .ok (.other (), ⟨6, 5⟩) := by decide +kernel

example : gposReader (σ := Unit) (fun _ _ _ => .ok ((), ⟨5, 5⟩)) [0, 1, 0, 2, 0, 0, 0, 8] 9 0 =
    .ok (.ext 2 8, ⟨2, 1⟩) := by decide +kernel

/-- an unknown (type, format) is an error -/
example : gsubReader (σ := Unit) (fun _ _ _ => .ok ((), ⟨5, 5⟩)) [0, 2, 0, 6] 4 0 = .err "invalid" := by
  decide +kernel

end SfntV.Total.LookupList
