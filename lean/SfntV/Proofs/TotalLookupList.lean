import SfntV.Model.TotalLookupList
import SfntV.Proofs.TotalGdef

namespace SfntV.Total.LookupList
open SfntV SfntV.Total
open SfntV.Total.Gdef (idx_ok ok_bind bind_noPanic bind_eq_ok readBytes_noPanic readBytes_ok_length
  w16_ok w16_lt w32_ok mkSlice_ok)

/-! ## elementary reads -/

theorem rd16_noPanic (site : String) (b : Bytes) (pos : Nat) : (rd16 site b pos).noPanic := by
  unfold rd16
  refine bind_noPanic (readBytes_noPanic _ _ _ _ (by omega)) (fun w hw => ?_)
  obtain ⟨hl, _⟩ := readBytes_ok_length hw
  obtain ⟨v, hv, _⟩ := w16_ok site w 0 (by omega)
  rw [hv]
  exact True.intro

theorem rd16_ok {site : String} {b : Bytes} {pos v : Nat} (h : rd16 site b pos = .ok v) :
    v < 65536 ∧ pos + 2 ≤ b.length := by
  unfold rd16 at h
  obtain ⟨w, hw, h⟩ := bind_eq_ok h
  exact ⟨w16_lt h, (readBytes_ok_length hw).2⟩

theorem readU16s_noPanic (site : String) (b : Bytes) : ∀ (n pos : Nat),
    (readU16s site b n pos).noPanic
  | 0, _ => True.intro
  | n+1, pos => by
    unfold readU16s
    refine bind_noPanic (rd16_noPanic _ _ _) (fun v _ => ?_)
    refine bind_noPanic (readU16s_noPanic site b n (pos + 2)) (fun ⟨r, c⟩ _ => ?_)
    exact True.intro

theorem readU16s_ok (site : String) (b : Bytes) : ∀ (n pos : Nat) (r : List Nat) (c : Cost),
    readU16s site b n pos = .ok (r, c) →
    r.length = n ∧ c.steps = n ∧ c.alloc = 0 ∧ (n = 0 ∨ pos + 2 * n ≤ b.length)
  | 0, _, r, c, h => by
    unfold readU16s at h
    cases h
    simp [Cost.zero]
  | n+1, pos, r, c, h => by
    unfold readU16s at h
    obtain ⟨v, hv, h⟩ := bind_eq_ok h
    obtain ⟨⟨r', c'⟩, hr, h⟩ := bind_eq_ok h
    cases h
    have ih := readU16s_ok site b n (pos + 2) r' c' hr
    have := (rd16_ok hv).2
    simp only [List.length_cons, Cost.tick]
    omega

/-! ## `readExtensionSubtable` -/

theorem readExtensionSubtable_noPanic {σ : Type} (b : Bytes) (pos : Nat) :
    (readExtensionSubtable (σ := σ) b pos).noPanic := by
  unfold readExtensionSubtable
  refine bind_noPanic (readBytes_noPanic _ _ _ _ (by omega)) (fun buf hbuf => ?_)
  obtain ⟨hl, _⟩ := readBytes_ok_length hbuf
  obtain ⟨tp, htp, _⟩ := w16_ok "lookup.go:553#buf[0],buf[1]" buf 0 (by omega)
  obtain ⟨off, hoff⟩ := w32_ok "lookup.go:554#buf[2],buf[3],buf[4],buf[5]" buf 2 (by omega)
  rw [htp, ok_bind, hoff, ok_bind]
  exact True.intro

theorem readExtensionSubtable_ok {σ : Type} {b : Bytes} {pos : Nat} {v : SubV σ} {d : Cost}
    (h : readExtensionSubtable (σ := σ) b pos = .ok (v, d)) :
    (∃ tp off, v = .ext tp off) ∧ d = ⟨1, 1⟩ ∧ pos + 6 ≤ b.length := by
  unfold readExtensionSubtable at h
  obtain ⟨buf, hbuf, h⟩ := bind_eq_ok h
  obtain ⟨tp, _, h⟩ := bind_eq_ok h
  obtain ⟨off, _, h⟩ := bind_eq_ok h
  cases h
  exact ⟨⟨tp, off, rfl⟩, rfl, (readBytes_ok_length hbuf).2⟩

/-! ## `isExtension` -/

theorem isExtension_noPanic {σ : Type} (ss : List (SubV σ)) : (isExtension ss).noPanic := by
  unfold isExtension
  split
  · exact True.intro
  · rename_i h
    rw [idx_ok _ ss 0 (by omega), ok_bind]
    split <;> exact True.intro

/-! ## the two subtable loops -/

theorem store_ok (site : String) (len i : Nat) (h : i < len) : store site len i = .ok () := by
  unfold store
  rw [if_pos h]

theorem readSubs_noPanic {σ : Type} (sr : Reader σ) (hsr : ∀ tp p, (sr tp p).noPanic)
    (tp lp n : Nat) : ∀ (os : List Nat) (j : Nat), j + os.length ≤ n →
    (readSubs sr tp lp n os j).noPanic
  | [], _, _ => True.intro
  | o :: os, j, h => by
    unfold readSubs
    simp only [List.length_cons] at h
    refine bind_noPanic (hsr _ _) (fun ⟨v, d⟩ _ => ?_)
    dsimp only
    rw [store_ok _ _ _ (by omega), ok_bind]
    refine bind_noPanic (readSubs_noPanic sr hsr tp lp n os (j + 1) (by omega)) (fun ⟨r, c⟩ _ => ?_)
    exact True.intro

theorem readSubs_length {σ : Type} (sr : Reader σ) (tp lp n : Nat) :
    ∀ (os : List Nat) (j : Nat) (r : List (SubV σ)) (c : Cost),
    readSubs sr tp lp n os j = .ok (r, c) → r.length = os.length
  | [], _, r, c, h => by
    unfold readSubs at h
    cases h
    rfl
  | o :: os, j, r, c, h => by
    unfold readSubs at h
    obtain ⟨⟨v, d⟩, _, h⟩ := bind_eq_ok h
    obtain ⟨_, _, h⟩ := bind_eq_ok h
    obtain ⟨⟨r', c'⟩, hr, h⟩ := bind_eq_ok h
    cases h
    simp only [List.length_cons]
    rw [readSubs_length sr tp lp n os (j + 1) r' c' hr]

theorem resolveExt_noPanic {σ : Type} (sr : Reader σ) (hsr : ∀ tp p, (sr tp p).noPanic)
    (tp lp : Nat) (so : List Nat) (n : Nat) : ∀ (ss : List (SubV σ)) (j : Nat),
    j + ss.length ≤ n → j + ss.length ≤ so.length → (resolveExt sr tp lp so n ss j).noPanic
  | [], _, _, _ => True.intro
  | s :: ss, j, h1, h2 => by
    unfold resolveExt
    simp only [List.length_cons] at h1 h2
    cases s with
    | other v => exact True.intro
    | ext et eo =>
      dsimp only
      split
      · exact True.intro
      · rw [idx_ok _ so j (by omega), ok_bind]
        refine bind_noPanic (hsr _ _) (fun ⟨v, d⟩ _ => ?_)
        dsimp only
        rw [store_ok _ _ _ (by omega), ok_bind]
        refine bind_noPanic (resolveExt_noPanic sr hsr tp lp so n ss (j + 1) (by omega) (by omega))
          (fun ⟨r, c⟩ _ => ?_)
        exact True.intro

/-! ## one lookup, the list -/

theorem readLookup_noPanic {σ : Type} (sr : Reader σ) (hsr : ∀ tp p, (sr tp p).noPanic)
    (b : Bytes) (lp numL numS : Nat) (prev : List Nat) :
    (readLookup sr b lp numL numS prev).noPanic := by
  unfold readLookup
  refine bind_noPanic (readBytes_noPanic _ _ _ _ (by omega)) (fun buf hbuf => ?_)
  obtain ⟨hl, _⟩ := readBytes_ok_length hbuf
  obtain ⟨tp, htp, _⟩ := w16_ok "lookup.go:196#buf[0],buf[1]" buf 0 (by omega)
  obtain ⟨flags, hflags, _⟩ := w16_ok "lookup.go:197#buf[2],buf[3]" buf 2 (by omega)
  obtain ⟨cnt, hcnt, hcntlt⟩ := w16_ok "lookup.go:198#buf[4],buf[5]" buf 4 (by omega)
  rw [htp, ok_bind, hflags, ok_bind, hcnt, ok_bind]
  split
  · exact True.intro
  have hs : sliceTo "lookup.go:210#subtableOffsets[:0]" prev 0 = .ok (prev.take 0) := by
    unfold sliceTo
    rw [if_pos (Nat.zero_le _)]
  rw [hs, ok_bind]
  refine bind_noPanic (readU16s_noPanic _ _ _ _) (fun ⟨so, c1⟩ hso => ?_)
  obtain ⟨hsol, _, _, _⟩ := readU16s_ok _ _ _ _ _ _ hso
  refine bind_noPanic ?_ (fun ⟨mfs, c2⟩ _ => ?_)
  · split
    · refine bind_noPanic (rd16_noPanic _ _ _) (fun _ _ => True.intro)
    · exact True.intro
  dsimp only
  rw [mkSlice_ok _ _ _ hcntlt, ok_bind]
  refine bind_noPanic (readSubs_noPanic sr hsr tp lp cnt so 0 (by omega)) (fun ⟨subs, c3⟩ hsubs => ?_)
  have hsl := readSubs_length sr tp lp cnt so 0 subs c3 hsubs
  dsimp only
  refine bind_noPanic (isExtension_noPanic subs) (fun ext _ => ?_)
  cases ext with
  | none => exact True.intro
  | some et =>
    dsimp only
    split
    · exact True.intro
    · refine bind_noPanic (resolveExt_noPanic sr hsr et lp so cnt subs 0 (by omega) (by omega))
        (fun ⟨r, c⟩ _ => ?_)
      exact True.intro

theorem readLookups_noPanic {σ : Type} (sr : Reader σ) (hsr : ∀ tp p, (sr tp p).noPanic)
    (b : Bytes) (pos n : Nat) : ∀ (os : List Nat) (i numL numS : Nat) (prev : List Nat),
    i + os.length ≤ n → (readLookups sr b pos n os i numL numS prev).noPanic
  | [], _, _, _, _, _ => True.intro
  | o :: os, i, numL, numS, prev, h => by
    unfold readLookups
    simp only [List.length_cons] at h
    refine bind_noPanic (readLookup_noPanic sr hsr b _ _ _ _) (fun ⟨⟨l, cnt, so⟩, d⟩ _ => ?_)
    dsimp only
    rw [store_ok _ _ _ (by omega), ok_bind]
    refine bind_noPanic (readLookups_noPanic sr hsr b pos n os (i + 1) _ _ _ (by omega))
      (fun ⟨r, c⟩ _ => ?_)
    exact True.intro

/-- `readLookupList` never panics: ALL bytes, ALL positions, any non-panicking subtable reader -/
theorem readLookupList_noPanic {σ : Type} (sr : Reader σ) (hsr : ∀ tp p, (sr tp p).noPanic)
    (b : Bytes) (pos : Nat) : (readLookupList sr b pos).noPanic := by
  unfold readLookupList
  refine bind_noPanic (rd16_noPanic _ _ _) (fun n hn => ?_)
  have hnlt := (rd16_ok hn).1
  rw [mkSlice_ok _ _ _ hnlt, ok_bind]
  refine bind_noPanic (readU16s_noPanic _ _ _ _) (fun ⟨offs, c1⟩ hoffs => ?_)
  obtain ⟨hol, _, _, _⟩ := readU16s_ok _ _ _ _ _ _ hoffs
  dsimp only
  rw [mkSlice_ok _ _ _ (by omega), ok_bind]
  refine bind_noPanic (readLookups_noPanic sr hsr b pos offs.length offs 0 0 0 [] (by omega))
    (fun ⟨r, c2⟩ _ => ?_)
  exact True.intro

/-! ## the dispatchers and the hook reader never panic -/

/-- `readGsubSubtable` / `readGposSubtable`: an unknown (type, format) is an error (the map read is
comma-ok; there is no call of a nil function), whatever the table of keys -/
theorem dispatch_noPanic {σ : Type} (site : String) (keys : List Nat) (extKey : Nat)
    (sub : SubReaders σ) (hsub : ∀ t f p, (sub t f p).noPanic) (b : Bytes) (tp pos : Nat) :
    (dispatch site keys extKey sub b tp pos).noPanic := by
  unfold dispatch
  refine bind_noPanic (rd16_noPanic _ _ _) (fun format _ => ?_)
  dsimp only
  split
  · split
    · refine bind_noPanic (readExtensionSubtable_noPanic b _) (fun ⟨v, d⟩ _ => True.intro)
    · refine bind_noPanic (hsub _ _ _) (fun ⟨v, d⟩ _ => True.intro)
  · exact True.intro

theorem readGsubSubtable_noPanic {σ : Type} (sub : SubReaders σ)
    (hsub : ∀ t f p, (sub t f p).noPanic) (b : Bytes) (tp pos : Nat) :
    (gsubReader sub b tp pos).noPanic := dispatch_noPanic _ _ _ sub hsub b tp pos

theorem readGposSubtable_noPanic {σ : Type} (sub : SubReaders σ)
    (hsub : ∀ t f p, (sub t f p).noPanic) (b : Bytes) (tp pos : Nat) :
    (gposReader sub b tp pos).noPanic := dispatch_noPanic _ _ _ sub hsub b tp pos

theorem hookReader_noPanic {σ : Type} (leaf : Nat → Nat → Outcome (σ × Cost))
    (hleaf : ∀ t p, (leaf t p).noPanic) (b : Bytes) (extType tp pos : Nat) :
    (hookReader leaf b extType tp pos).noPanic := by
  unfold hookReader
  split
  · refine bind_noPanic (rd16_noPanic _ _ _) (fun format _ => ?_)
    split
    · exact True.intro
    · refine bind_noPanic (readExtensionSubtable_noPanic b _) (fun ⟨v, d⟩ _ => True.intro)
  · refine bind_noPanic (hleaf _ _) (fun ⟨v, d⟩ _ => True.intro)

/-- `gtab.Read` for GSUB: the lookup list reader with the real dispatcher never panics, for any
non-panicking individual subtable readers -/
theorem readLookupList_gsub_noPanic {σ : Type} (sub : SubReaders σ)
    (hsub : ∀ t f p, (sub t f p).noPanic) (b : Bytes) (pos : Nat) :
    (readLookupList (gsubReader sub b) b pos).noPanic :=
  readLookupList_noPanic _ (readGsubSubtable_noPanic sub hsub b) b pos

theorem readLookupList_gpos_noPanic {σ : Type} (sub : SubReaders σ)
    (hsub : ∀ t f p, (sub t f p).noPanic) (b : Bytes) (pos : Nat) :
    (readLookupList (gposReader sub b) b pos).noPanic :=
  readLookupList_noPanic _ (readGposSubtable_noPanic sub hsub b) b pos

/-- the tied instance (`gtab.VerifReadLookupList`) never panics -/
theorem readLookupList_hook_noPanic (b : Bytes) (extType pos : Nat) :
    (readLookupList (hookReader refLeaf b extType) b pos).noPanic :=
  readLookupList_noPanic _ (hookReader_noPanic refLeaf (fun _ _ => True.intro) b extType) b pos

/-! ## cost -/

def SubV.isExt {σ : Type} : SubV σ → Prop
  | .ext _ _ => True
  | .other _ => False

section cost
variable {σ : Type} (sr : Reader σ) (C K : Nat)
  (hC : ∀ tp p v d, sr tp p = .ok (v, d) → d.steps ≤ C ∧ d.alloc ≤ C)
  (hK : ∀ tp p v d, sr tp p = .ok (v, d) → v.isExt → d.steps ≤ K ∧ d.alloc ≤ K)

include hC in
/-- first pass: at most `C` per call -/
theorem readSubs_cost_any (tp lp n : Nat) :
    ∀ (os : List Nat) (j : Nat) (r : List (SubV σ)) (c : Cost),
    readSubs sr tp lp n os j = .ok (r, c) →
    c.steps ≤ os.length + os.length * C ∧ c.alloc ≤ os.length * C
  | [], _, r, c, h => by
    unfold readSubs at h
    cases h
    simp [Cost.zero]
  | o :: os, j, r, c, h => by
    unfold readSubs at h
    obtain ⟨⟨v, d⟩, hd, h⟩ := bind_eq_ok h
    obtain ⟨_, _, h⟩ := bind_eq_ok h
    obtain ⟨⟨r', c'⟩, hr, h⟩ := bind_eq_ok h
    cases h
    have ih := readSubs_cost_any tp lp n os (j + 1) r' c' hr
    have hb := hC _ _ _ _ hd
    simp only [List.length_cons, addCost, Cost.tick, Nat.succ_mul]
    omega

include hK in
/-- first pass of an extension lookup: every call returned an extension record, at most `K` each -/
theorem readSubs_cost_ext (tp lp n : Nat) :
    ∀ (os : List Nat) (j : Nat) (r : List (SubV σ)) (c : Cost),
    readSubs sr tp lp n os j = .ok (r, c) → (∀ s ∈ r, s.isExt) →
    c.steps ≤ os.length + os.length * K ∧ c.alloc ≤ os.length * K
  | [], _, r, c, h, _ => by
    unfold readSubs at h
    cases h
    simp [Cost.zero]
  | o :: os, j, r, c, h, hall => by
    unfold readSubs at h
    obtain ⟨⟨v, d⟩, hd, h⟩ := bind_eq_ok h
    obtain ⟨_, _, h⟩ := bind_eq_ok h
    obtain ⟨⟨r', c'⟩, hr, h⟩ := bind_eq_ok h
    cases h
    have ih := readSubs_cost_ext tp lp n os (j + 1) r' c' hr
      (fun s hs => hall s (List.mem_cons_of_mem _ hs))
    have hb := hK _ _ _ _ hd (hall v List.mem_cons_self)
    simp only [List.length_cons, addCost, Cost.tick, Nat.succ_mul]
    omega

include hC in
/-- second pass: it succeeds only on extension records; at most `C` per call -/
theorem resolveExt_ok (tp lp : Nat) (so : List Nat) (n : Nat) :
    ∀ (ss : List (SubV σ)) (j : Nat) (r : List (SubV σ)) (c : Cost),
    resolveExt sr tp lp so n ss j = .ok (r, c) →
    (∀ s ∈ ss, s.isExt) ∧ r.length = ss.length ∧
      c.steps ≤ ss.length + ss.length * C ∧ c.alloc ≤ ss.length * C
  | [], _, r, c, h => by
    unfold resolveExt at h
    cases h
    simp [Cost.zero]
  | s :: ss, j, r, c, h => by
    unfold resolveExt at h
    cases s with
    | other v => cases h
    | ext et eo =>
      dsimp only at h
      split at h
      · cases h
      · obtain ⟨o, _, h⟩ := bind_eq_ok h
        obtain ⟨⟨v, d⟩, hd, h⟩ := bind_eq_ok h
        obtain ⟨_, _, h⟩ := bind_eq_ok h
        obtain ⟨⟨r', c'⟩, hr, h⟩ := bind_eq_ok h
        cases h
        obtain ⟨ih1, ih2, ih3, ih4⟩ := resolveExt_ok tp lp so n ss (j + 1) r' c' hr
        have hb := hC _ _ _ _ hd
        refine ⟨?_, ?_, ?_, ?_⟩
        · intro s hs
          cases hs with
          | head => exact True.intro
          | tail _ hs => exact ih1 s hs
        · simp only [List.length_cons, ih2]
        · simp only [List.length_cons, addCost, Cost.tick, Nat.succ_mul]
          omega
        · simp only [List.length_cons, addCost, Cost.tick, Nat.succ_mul]
          omega

theorem isExtension_some {σ : Type} {ss : List (SubV σ)} {et : Nat}
    (h : isExtension ss = .ok (some et)) : ∃ eo rest, ss = .ext et eo :: rest := by
  unfold isExtension at h
  split at h
  · cases h
  · cases ss with
    | nil => simp at *
    | cons s rest =>
      rw [idx_ok _ _ 0 (by simp), ok_bind] at h
      cases s with
      | ext tp eo =>
        simp only [List.getElem_cons_zero] at h
        cases h
        exact ⟨eo, rest, rfl⟩
      | other v =>
        simp only [List.getElem_cons_zero] at h
        cases h

include hC hK in
/-- one lookup: the budget holds afterwards, and the lookup costs at most
`2 + 3·cnt + cnt·C + cnt·K` steps and `2 + 2·cnt + cnt·C + cnt·K` allocated elements -/
theorem readLookup_cost (b : Bytes) (lp numL numS : Nat) (prev : List Nat)
    (l : Lookup σ) (cnt : Nat) (so : List Nat) (c : Cost)
    (h : readLookup sr b lp numL numS prev = .ok ((l, cnt, so), c)) :
    (numL + 1) + (numS + cnt) ≤ 6000 ∧ l.subs.length = cnt ∧
      c.steps ≤ 2 + 3 * cnt + cnt * C + cnt * K ∧ c.alloc ≤ 2 + 2 * cnt + cnt * C + cnt * K := by
  unfold readLookup at h
  obtain ⟨buf, _, h⟩ := bind_eq_ok h
  obtain ⟨tp, _, h⟩ := bind_eq_ok h
  obtain ⟨flags, _, h⟩ := bind_eq_ok h
  obtain ⟨cnt', hcnt, h⟩ := bind_eq_ok h
  have hlt := w16_lt hcnt
  split at h
  · cases h
  rename_i hbud
  obtain ⟨_, _, h⟩ := bind_eq_ok h
  obtain ⟨⟨so', c1⟩, hso, h⟩ := bind_eq_ok h
  obtain ⟨hsol, hc1s, hc1a, _⟩ := readU16s_ok _ _ _ _ _ _ hso
  obtain ⟨⟨mfs, c2⟩, hmfs, h⟩ := bind_eq_ok h
  have hc2 : c2.steps ≤ 1 ∧ c2.alloc = 0 := by
    split at hmfs
    · obtain ⟨v, _, hmfs⟩ := bind_eq_ok hmfs
      cases hmfs
      simp [Cost.zero, Cost.tick]
    · cases hmfs
      simp [Cost.zero]
  dsimp only at h
  rw [mkSlice_ok _ _ _ hlt, ok_bind] at h
  obtain ⟨⟨subs, c3⟩, hsubs, h⟩ := bind_eq_ok h
  have hsl := readSubs_length sr tp lp cnt' so' 0 subs c3 hsubs
  dsimp only at h
  obtain ⟨ext, hext, h⟩ := bind_eq_ok h
  cases ext with
  | none =>
    dsimp only at h
    have hc3 := readSubs_cost_any sr C hC tp lp cnt' so' 0 subs c3 hsubs
    rw [hsol] at hc3
    cases h
    refine ⟨by omega, by dsimp only; omega, ?_, ?_⟩
    · simp only [addCost, Cost.tick, Cost.mem, Cost.zero]
      omega
    · simp only [addCost, Cost.tick, Cost.mem, Cost.zero]
      omega
  | some et =>
    dsimp only at h
    split at h
    · cases h
    · obtain ⟨⟨subs', c4⟩, hres, h⟩ := bind_eq_ok h
      obtain ⟨hall, hrl, hc4s, hc4a⟩ := resolveExt_ok sr C hC et lp so' cnt' subs 0 subs' c4 hres
      have hc3 := readSubs_cost_ext sr K hK tp lp cnt' so' 0 subs c3 hsubs hall
      rw [hsol] at hc3
      rw [hsl, hsol] at hc4s hc4a hrl
      cases h
      refine ⟨by omega, by dsimp only; omega, ?_, ?_⟩
      · simp only [addCost, Cost.tick, Cost.mem, Cost.zero]
        omega
      · simp only [addCost, Cost.tick, Cost.mem, Cost.zero]
        omega

include hC hK in
/-- the loop: `m` = lookups + subtables visited from here on stays inside the budget of 6000, and
every unit of it costs at most `C + K + 3` -/
theorem readLookups_cost (b : Bytes) (pos n : Nat) :
    ∀ (os : List Nat) (i numL numS : Nat) (prev : List Nat) (r : List (Lookup σ)) (c : Cost),
    readLookups sr b pos n os i numL numS prev = .ok (r, c) → numL + numS ≤ 6000 →
    ∃ m, numL + numS + m ≤ 6000 ∧ c.steps ≤ m * (C + K + 3) ∧ c.alloc ≤ m * (C + K + 3)
  | [], _, _, _, _, r, c, h, hb => by
    unfold readLookups at h
    cases h
    exact ⟨0, by omega, by simp [Cost.zero], by simp [Cost.zero]⟩
  | o :: os, i, numL, numS, prev, r, c, h, hb => by
    unfold readLookups at h
    obtain ⟨⟨⟨l, cnt, so⟩, d⟩, hd, h⟩ := bind_eq_ok h
    dsimp only at h
    obtain ⟨_, _, h⟩ := bind_eq_ok h
    obtain ⟨⟨r', c'⟩, hr, h⟩ := bind_eq_ok h
    cases h
    obtain ⟨hbud, _, hds, hda⟩ := readLookup_cost sr C K hC hK b _ _ _ _ l cnt so d hd
    obtain ⟨m, hm, hs, ha⟩ := readLookups_cost b pos n os (i + 1) (numL + 1) (numS + cnt) so r' c' hr hbud
    refine ⟨m + (1 + cnt), by omega, ?_, ?_⟩
    · simp only [addCost, Nat.add_mul, Nat.mul_add, Nat.one_mul] at hs ⊢
      omega
    · simp only [addCost, Nat.add_mul, Nat.mul_add, Nat.one_mul] at ha ⊢
      omega

include hC hK in
/-- **cost of `readLookupList`** — the TRUE bound.  The budget `numLookups + numSubTables ≤ 6000`
bounds the number of subtable-reader calls whatever the input, but NOT by the input size: lookup
offsets and subtable offsets may alias one record (`lookup_alias_cost`).  With `C` the maximal
cost of one subtable-reader call and `K` that of a call returning an extension record:
steps, alloc ≤ |b| + 6000·(C + K + 3). -/
theorem readLookupList_cost' (b : Bytes) (pos : Nat) (r : List (Lookup σ)) (c : Cost)
    (h : readLookupList sr b pos = .ok (r, c)) :
    c.steps ≤ b.length + 6000 * (C + K + 3) ∧ c.alloc ≤ b.length + 6000 * (C + K + 3) := by
  unfold readLookupList at h
  obtain ⟨n, hn, h⟩ := bind_eq_ok h
  obtain ⟨hnlt, hnb⟩ := rd16_ok hn
  rw [mkSlice_ok _ _ _ hnlt, ok_bind] at h
  obtain ⟨⟨offs, c1⟩, hoffs, h⟩ := bind_eq_ok h
  obtain ⟨hol, hc1s, hc1a, hob⟩ := readU16s_ok _ _ _ _ _ _ hoffs
  dsimp only at h
  rw [mkSlice_ok _ _ _ (by omega), ok_bind] at h
  obtain ⟨⟨r', c2⟩, hr, h⟩ := bind_eq_ok h
  cases h
  obtain ⟨m, hm, hs, ha⟩ := readLookups_cost sr C K hC hK b pos offs.length offs 0 0 0 [] r' c2 hr (by omega)
  have hmW : m * (C + K + 3) ≤ 6000 * (C + K + 3) := Nat.mul_le_mul_right _ (by omega)
  simp only [addCost, Cost.tick, Cost.mem, Cost.zero]
  omega

include hC hK in
/-- the same in the shape `steps ≤ 2·|b| + 6000·(C + k)` with `k = K + 3` -/
theorem readLookupList_cost (b : Bytes) (pos : Nat) (r : List (Lookup σ)) (c : Cost)
    (h : readLookupList sr b pos = .ok (r, c)) :
    c.steps ≤ 2 * b.length + 6000 * (C + (K + 3)) ∧ c.alloc ≤ 2 * b.length + 6000 * (C + (K + 3)) := by
  have := readLookupList_cost' sr C K hC hK b pos r c h
  have e : C + (K + 3) = C + K + 3 := by omega
  rw [e]
  generalize 6000 * (C + K + 3) = X at this ⊢
  omega

end cost

end SfntV.Total.LookupList
