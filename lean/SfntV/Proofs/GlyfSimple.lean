/-
Proofs for C11, part 4: the model of `SimpleGlyph.Decode` agrees with the specification decoder.
-/
import SfntV.Model.Glyf
import SfntV.Spec.Glyf

namespace SfntV.Glyf
open SfntV SfntV.GlyfSpec

/-! ### lists and indices -/

theorem drop_cases (b : Bytes) (k : Nat) :
    (b[k]? = none ∧ b.drop k = []) ∨ (∃ x, b[k]? = some x ∧ b.drop k = x :: b.drop (k + 1)) := by
  induction b generalizing k with
  | nil => left; simp
  | cons a l ih =>
    cases k with
    | zero => right; exact ⟨a, by simp, by simp⟩
    | succ k =>
      rcases ih k with h | ⟨x, h1, h2⟩
      · left; simpa using h
      · right; exact ⟨x, by simpa using h1, by simpa using h2⟩

theorem getElem?_none_len (b : Bytes) (k : Nat) (h : b[k]? = none) : b.length ≤ k := by
  simpa using h

theorem getElem?_some_len (b : Bytes) (k : Nat) (x : UInt8) (h : b[k]? = some x) : k < b.length :=
  (List.getElem?_eq_some_iff.mp h).1

theorem u16At_eq (b : Bytes) (k : Nat) :
    u16At b k = if k + 1 < b.length then some (rd16 b k) else none := by
  unfold u16At rd16
  split
  · rename_i hi lo h1 h2
    have := getElem?_some_len b (k+1) lo h2
    rw [if_pos this, h1, h2]; rfl
  · rename_i hne
    split
    · rename_i hlt
      have h1 : k < b.length := by omega
      exfalso
      apply hne (b[k]) (b[k+1])
      · exact List.getElem?_eq_getElem h1
      · exact List.getElem?_eq_getElem hlt
    · rfl

theorem rd16_drop (b : Bytes) (k j : Nat) : rd16 (b.drop k) j = rd16 b (k + j) := by
  simp [rd16, List.getElem?_drop, Nat.add_assoc]

/-! ### contour end points -/

theorem words16_take_succ (b : Bytes) (k n : Nat) (h : k + 1 < b.length) :
    words16 ((b.drop k).take (2 * (n + 1))) =
      rd16 b k :: words16 ((b.drop (k + 2)).take (2 * n)) := by
  rcases drop_cases b k with ⟨h1, _⟩ | ⟨x, hx, hd⟩
  · have := getElem?_none_len b k h1; omega
  · rcases drop_cases b (k + 1) with ⟨h1, _⟩ | ⟨y, hy, hd2⟩
    · have := getElem?_none_len b (k+1) h1; omega
    · rw [hd, hd2]
      have : 2 * (n + 1) = 2 * n + 1 + 1 := by omega
      rw [this, List.take_succ_cons, List.take_succ_cons, words16]
      simp [rd16, hx, hy]

theorem readEndPts_eq (b : Bytes) (n : Nat) :
    ∀ k, k ≤ b.length → readEndPts b n k =
      if k + 2 * n ≤ b.length then some (words16 ((b.drop k).take (2 * n))) else none := by
  induction n with
  | zero => intro k hk; simp [readEndPts, words16, hk]
  | succ n ih =>
    intro k hk
    unfold readEndPts
    rw [u16At_eq]
    by_cases h1 : k + 1 < b.length
    · simp only [h1, if_true]
      rw [ih (k + 2) (by omega)]
      by_cases h2 : k + 2 + 2 * n ≤ b.length
      · have h3 : k + 2 * (n + 1) ≤ b.length := by omega
        simp only [h2, h3, if_true]
        rw [words16_take_succ b k n h1]
      · have h3 : ¬ k + 2 * (n + 1) ≤ b.length := by omega
        simp only [h2, h3, if_false]
    · have h3 : ¬ k + 2 * (n + 1) ≤ b.length := by omega
      simp only [h1, h3, if_false]

/-! ### flags -/

theorem bit_testBit (f : UInt8) (mask k : Nat) (h : mask = 2 ^ k) : bit f.toNat mask = testBit f k := by
  subst h; rfl

theorem logicalFlags_cur (b : Bytes) (n k : Nat) (c1 c2 : UInt8) :
    logicalFlags b n k 0 c1 = logicalFlags b n k 0 c2 := by
  cases n with
  | zero => rfl
  | succ n => simp [logicalFlags]

/-- a pending repetition yields `min pending n` copies and is then dropped -/
theorem logicalFlags_pending (b : Bytes) (cur : UInt8) :
    ∀ n k p, logicalFlags b n k p cur =
      match logicalFlags b (n - min p n) k 0 cur with
      | none => none
      | some (fs, k') => some (List.replicate (min p n) cur ++ fs, k') := by
  intro n
  induction n with
  | zero => intro k p; simp [logicalFlags]
  | succ n ih =>
    intro k p
    cases p with
    | zero =>
      simp only [Nat.zero_min, Nat.sub_zero, List.replicate_zero, List.nil_append]
      cases logicalFlags b (n + 1) k 0 cur with
      | none => rfl
      | some r => rfl
    | succ p =>
      rw [logicalFlags]
      simp only [Nat.succ_pos, if_true, Nat.add_sub_cancel, gt_iff_lt]
      rw [ih k p]
      have h1 : n + 1 - min (p + 1) (n + 1) = n - min p n := by omega
      have h2 : min (p + 1) (n + 1) = min p n + 1 := by omega
      rw [h1, h2]
      cases logicalFlags b (n - min p n) k 0 cur with
      | none => rfl
      | some r => simp [List.replicate_succ]

theorem flagLoop_eq (b : Bytes) :
    ∀ fuel n k cur, n ≤ fuel →
      flagLoop fuel (b.drop k) n =
        match logicalFlags b n k 0 cur with
        | none => none
        | some (fs, k') => some (fs.map UInt8.toNat, b.drop k') := by
  intro fuel
  induction fuel with
  | zero =>
    intro n k cur h
    have : n = 0 := by omega
    subst this
    simp [flagLoop, logicalFlags]
  | succ fuel ih =>
    intro n k cur h
    cases n with
    | zero => simp [flagLoop, logicalFlags]
    | succ n =>
      rw [logicalFlags]
      simp only [Nat.lt_irrefl, gt_iff_lt, if_false]
      rcases drop_cases b k with ⟨h1, h2⟩ | ⟨f, h1, h2⟩
      · rw [h1, h2]; simp [flagLoop]
      · rw [h1, h2]
        simp only [flagLoop]
        rw [bit_testBit f flagRepeat 3 rfl]
        by_cases hr : testBit f 3 = true
        · simp only [hr, if_true]
          rcases drop_cases b (k + 1) with ⟨h3, h4⟩ | ⟨c, h3, h4⟩
          · rw [h3, h4]
          · rw [h3, h4]
            simp only
            rw [ih (n - min c.toNat n) (k + 1 + 1) f (by omega)]
            rw [logicalFlags_pending b f n (k + 2) c.toNat]
            cases logicalFlags b (n - min c.toNat n) (k + 1 + 1) 0 f with
            | none => rfl
            | some r =>
              simp [List.replicate_succ]
        · simp only [hr, if_false, Bool.false_eq_true]
          rw [ih n (k + 1) f (by omega)]
          cases logicalFlags b n (k + 1) 0 f with
          | none => rfl
          | some r => rfl

/-! ### coordinates -/

theorem wrap16_wrap16_add (a d : Int) : wrap16 (wrap16 a + d) = wrap16 (a + d) := by
  unfold wrap16; omega

theorem wrap16_idem (a : Int) : wrap16 (wrap16 a) = wrap16 a := by
  unfold wrap16; omega

theorem wrap16_toInt16 (w : Nat) (h : w < 65536) : wrap16 (w : Int) = toInt16 w := by
  unfold wrap16 toInt16; split <;> omega

/-- the Go loop: every new value is wrapped to 16 bits -/
def accum (x : Int) : List Int → List Int
  | [] => []
  | d :: ds => wrap16 (x + d) :: accum (wrap16 (x + d)) ds

theorem accum_eq (a : Int) (ds : List Int) :
    accum (wrap16 a) ds = (runningSums a ds).map wrap16 := by
  induction ds generalizing a with
  | nil => rfl
  | cons d ds ih =>
    simp only [accum, runningSums, List.map_cons, wrap16_wrap16_add]
    rw [ih]

theorem coordLoop_eq (b : Bytes) (short same sb mb : Nat) (hs : short = 2 ^ sb) (hm : same = 2 ^ mb) :
    ∀ (fs : List UInt8) (k : Nat) (a : Int),
      coordLoop short same (fs.map UInt8.toNat) (b.drop k) (wrap16 a) =
        match deltas b sb mb fs k with
        | none => none
        | some (ds, k') => some (accum (wrap16 a) ds, b.drop k') := by
  intro fs
  induction fs with
  | nil => intro k a; simp [coordLoop, deltas, accum]
  | cons f fs ih =>
    intro k a
    simp only [List.map_cons, coordLoop, deltas]
    rw [bit_testBit f short sb hs, bit_testBit f same mb hm]
    by_cases h1 : testBit f sb = true
    · simp only [h1, if_true]
      rcases drop_cases b k with ⟨h3, h4⟩ | ⟨v, h3, h4⟩
      · rw [h3, h4]
      · rw [h3, h4]
        simp only
        by_cases h2 : testBit f mb = true
        · simp only [h2, if_true]
          rw [wrap16_wrap16_add, ih (k + 1) (a + v.toNat)]
          cases deltas b sb mb fs (k + 1) with
          | none => rfl
          | some r => simp [accum, wrap16_wrap16_add]
        · simp only [h2, if_false, Bool.false_eq_true]
          have : wrap16 (wrap16 a - (v.toNat : Int)) = wrap16 (a + -(v.toNat : Int)) := by
            unfold wrap16; omega
          rw [this, ih (k + 1) (a + -(v.toNat : Int))]
          cases deltas b sb mb fs (k + 1) with
          | none => rfl
          | some r => simp [accum, wrap16_wrap16_add]
    · simp only [h1, if_false, Bool.false_eq_true]
      by_cases h2 : testBit f mb = true
      · simp only [h2, Bool.not_true, if_false, if_true, Bool.false_eq_true]
        rw [ih k a]
        cases deltas b sb mb fs k with
        | none => rfl
        | some r => simp [accum, wrap16_idem]
      · simp only [h2, Bool.not_false, if_true, Bool.false_eq_true, if_false]
        rw [u16At_eq]
        rcases drop_cases b k with ⟨h3, h4⟩ | ⟨v0, h3, h4⟩
        · have := getElem?_none_len b k h3
          have hlt : ¬ k + 1 < b.length := by omega
          rw [h4]; simp only [hlt, if_false]
        · rcases drop_cases b (k + 1) with ⟨h5, h6⟩ | ⟨v1, h5, h6⟩
          · have := getElem?_none_len b (k + 1) h5
            have hlt : ¬ k + 1 < b.length := by omega
            rw [h4, h6]; simp only [hlt, if_false]
          · have hlt := getElem?_some_len b (k + 1) v1 h5
            rw [h4, h6]
            simp only [hlt, if_true]
            have hw : rd16 b k = v0.toNat * 256 + v1.toNat := by simp [rd16, h3, h5]
            have hlt2 : v0.toNat * 256 + v1.toNat < 65536 := by
              have := v0.toNat_lt; have := v1.toNat_lt; omega
            have hcast : ((v0.toNat : Int) * 256 + (v1.toNat : Int)) = ((v0.toNat * 256 + v1.toNat : Nat) : Int) := by
              simp
            rw [hcast, wrap16_toInt16 _ hlt2, wrap16_wrap16_add, hw,
              ih (k + 1 + 1) (a + toInt16 (v0.toNat * 256 + v1.toNat))]
            cases deltas b sb mb fs (k + 2) with
            | none => rfl
            | some r => simp [accum, wrap16_wrap16_add]

/-! ### points and contours -/

/-- the 16-bit view of a specification point -/
def wrapPt (p : Pt) : Point := ⟨wrap16 p.x, wrap16 p.y, p.onCurve⟩

theorem mkPoints_eq (xs ys : List Int) (fs : List UInt8) :
    mkPoints (xs.map wrap16) (ys.map wrap16) (fs.map UInt8.toNat) = (zip3 xs ys fs).map wrapPt := by
  induction xs generalizing ys fs with
  | nil => simp [mkPoints, zip3]
  | cons x xs ih =>
    cases ys with
    | nil => simp [mkPoints, zip3]
    | cons y ys =>
      cases fs with
      | nil => simp [mkPoints, zip3]
      | cons f fs =>
        simp only [List.map_cons, mkPoints, zip3, ih, wrapPt]
        rw [bit_testBit f flagOnCurve 0 rfl]

/-- the contour loop succeeds exactly on chains `start ≤ e₁+1 ≤ e₂+1 ≤ … ≤ numPoints` -/
def chainFrom (np : Nat) : Nat → List Nat → Bool
  | _, [] => true
  | start, e :: es => decide (start ≤ e + 1) && decide (e + 1 ≤ np) && chainFrom np (e + 1) es

theorem contourLoop_eq (pts : List Pt) (np : Nat) :
    ∀ (es : List Nat) (start : Nat),
      contourLoop (pts.map wrapPt) np es start =
        if chainFrom np start es then some ((splitContours pts start es).map (·.map wrapPt)) else none := by
  intro es
  induction es with
  | nil => intro start; simp [contourLoop, chainFrom, splitContours]
  | cons e es ih =>
    intro start
    simp only [contourLoop, chainFrom, splitContours]
    by_cases h : (e + 1 < start ∨ e + 1 > np)
    · have : (decide (start ≤ e + 1) && decide (e + 1 ≤ np)) = false := by
        rcases h with h | h
        · have : ¬ start ≤ e + 1 := by omega
          simp [this]
        · have : ¬ e + 1 ≤ np := by omega
          simp [this]
      simp [h, this]
    · have h1 : start ≤ e + 1 := by omega
      have h2 : e + 1 ≤ np := by omega
      simp only [h, if_false, h1, h2, decide_true, Bool.true_and]
      rw [ih (e + 1)]
      by_cases hc : chainFrom np (e + 1) es = true
      · simp only [hc, if_true, List.map_cons, slicePts_eq, List.map_take, List.map_drop]
      · simp only [hc, if_false, Bool.false_eq_true]

theorem nonDecreasing_le_last (es : List Nat) (h : nonDecreasing es = true) :
    ∀ e ∈ es, ∀ l, es.getLast? = some l → e ≤ l := by
  induction es with
  | nil => intro e he; simp at he
  | cons a es ih =>
    intro e he l hl
    cases es with
    | nil => simp at he hl; omega
    | cons b es' =>
      simp only [nonDecreasing, Bool.and_eq_true, decide_eq_true_eq] at h
      have hl' : (b :: es').getLast? = some l := by
        rw [List.getLast?_cons_cons] at hl; exact hl
      simp only [List.mem_cons] at he
      rcases he with he | he
      · have := ih h.2 b (by simp) l hl'; omega
      · exact ih h.2 e (by simpa using he) l hl'

def headOk (start : Nat) : List Nat → Bool
  | [] => true
  | e :: _ => decide (start ≤ e + 1)

theorem chainFrom_eq (es : List Nat) (start : Nat) (np : Nat)
    (hnp : np = match es.getLast? with | none => 0 | some e => e + 1) :
    chainFrom np start es = (headOk start es && nonDecreasing es) := by
  induction es generalizing start with
  | nil => simp [chainFrom, nonDecreasing, headOk]
  | cons a es ih =>
    cases es with
    | nil =>
      simp at hnp
      simp [chainFrom, nonDecreasing, hnp, headOk]
    | cons b es' =>
      have hnp' : np = match (b :: es').getLast? with | none => 0 | some e => e + 1 := by
        rw [List.getLast?_cons_cons] at hnp; exact hnp
      have := ih (a + 1) hnp'
      simp only [chainFrom, headOk] at this ⊢
      rw [this]
      simp only [nonDecreasing]
      by_cases hs : start ≤ a + 1
      · by_cases hab : a ≤ b
        · by_cases hnd : nonDecreasing (b :: es') = true
          · have hle : a + 1 ≤ np := by
              cases hl : (b :: es').getLast? with
              | none => simp at hl
              | some l =>
                have := nonDecreasing_le_last (b :: es') hnd b (by simp) l hl
                rw [hl] at hnp'
                simp at hnp'
                omega
            simp [hs, hab, hnd, hle]
          · simp [hnd]
        · simp [hab]
      · simp [hs]

/-! ### the decoder -/

/-- a specification outline as the Go types can hold it: coordinates reduced to `int16` -/
def wrapOutline (o : Outline) : GlyphInfo := ⟨o.contours.map (·.map wrapPt), o.instructions⟩

theorem headOk_zero (es : List Nat) : headOk 0 es = true := by
  cases es <;> simp [headOk]

theorem simpleDecode_eq_spec (nc : Int) (enc : Bytes) :
    simpleDecode nc enc = (decodeSimple nc enc).map wrapOutline := by
  unfold simpleDecode decodeSimple
  by_cases hneg : nc < 0
  · simp [hneg]
  · simp only [hneg, if_false]
    generalize nc.toNat = n
    rw [readEndPts_eq enc n 0 (Nat.zero_le _)]
    by_cases hlen : enc.length < 2 * n + 2
    · simp only [hlen, if_true]
      by_cases h2 : 0 + 2 * n ≤ enc.length
      · simp only [h2, if_true]
        rw [u16At_eq]
        have : ¬ (2 * n + 1 < enc.length) := by omega
        simp only [this, if_false]
        split <;> rfl
      · simp only [h2, if_false]; rfl
    · have h2 : 0 + 2 * n ≤ enc.length := by omega
      have h3 : 2 * n + 1 < enc.length := by omega
      simp only [hlen, if_false, h2, if_true, List.drop_zero, u16At_eq, h3, rd16_drop, Nat.add_zero,
        List.length_drop, List.drop_drop]
      generalize hes : words16 (enc.take (2 * n)) = es
      rw [show pointCount es = numPointsOf es from rfl]
      generalize hnp : numPointsOf es = np
      generalize rd16 enc (2 * n) = il
      have hl : (enc.length - 2 * n < 2 + il) ↔ (enc.length < 2 * n + 2 + il) := by omega
      by_cases hil : enc.length < 2 * n + 2 + il
      · have := hl.mpr hil
        simp only [this, hil, if_true]
        split <;> rfl
      · have hil' : ¬ (enc.length - 2 * n < 2 + il) := fun h => hil (hl.mp h)
        simp only [hil', hil, if_false]
        have e1 : 2 * n + (2 + il) = 2 * n + 2 + il := by omega
        rw [e1, flagLoop_eq enc np np (2 * n + 2 + il) 0 (Nat.le_refl _)]
        cases hfl : logicalFlags enc np (2 * n + 2 + il) 0 0 with
        | none => simp only; split <;> rfl
        | some r1 =>
          obtain ⟨flags, k1⟩ := r1
          simp only
          rw [show (0 : Int) = wrap16 0 from rfl,
            coordLoop_eq enc flagXShortVec flagXSameOrPos 1 4 rfl rfl flags k1 0]
          cases hdx : deltas enc 1 4 flags k1 with
          | none => simp only; split <;> rfl
          | some r2 =>
            obtain ⟨dx, k2⟩ := r2
            simp only
            rw [coordLoop_eq enc flagYShortVec flagYSameOrPos 2 5 rfl rfl flags k2 0]
            cases hdy : deltas enc 2 5 flags k2 with
            | none => simp only; split <;> rfl
            | some r3 =>
              obtain ⟨dy, k3⟩ := r3
              simp only
              rw [accum_eq, accum_eq, mkPoints_eq, contourLoop_eq,
                chainFrom_eq es 0 np (by rw [← hnp]; rfl), headOk_zero, Bool.true_and]
              by_cases hnd : nonDecreasing es = true
              · have hw0 : wrap16 0 = 0 := by decide
                simp [hnd, wrapOutline, hw0]
              · simp [hnd]

end SfntV.Glyf
