/-
C06: common definitions and small facts for the equivalence of the engine model
(Model/ShapeEngine.lean) and the reference shaper (Spec/Shape.lean).
-/
import SfntV.Model.ShapeEngine
import SfntV.Model.ShapeGuard
import SfntV.Spec.Shape
import SfntV.Proofs.ShapeBasic

namespace SfntV.Spec.Shape
open SfntV SfntV.Shape

/-- the glyphs of a tagged buffer -/
def gl (ts : List TG) : List Glyph := ts.map (·.g)

@[simp] theorem gl_nil : gl [] = [] := rfl
@[simp] theorem gl_cons (t : TG) (ts : List TG) : gl (t :: ts) = t.g :: gl ts := rfl
@[simp] theorem gl_append (a b : List TG) : gl (a ++ b) = gl a ++ gl b := by simp [gl]
@[simp] theorem gl_length (a : List TG) : (gl a).length = a.length := by simp [gl]
theorem gl_reverse (a : List TG) : gl a.reverse = (gl a).reverse := by simp [gl]
theorem gl_take (a : List TG) (n : Nat) : gl (a.take n) = (gl a).take n := by simp [gl]
theorem gl_drop (a : List TG) (n : Nat) : gl (a.drop n) = (gl a).drop n := by simp [gl]

/-- a value inside the int16 range is not changed by the wrapping of `funit.Int16` -/
theorem wrap16_id {x : Int} (h : -32768 ≤ x ∧ x < 32768) : wrap16 x = x := by
  unfold wrap16; omega

theorem fit16_ok {x y : Int} (h : fit16 x = .ok y) : y = x ∧ wrap16 x = x := by
  unfold fit16 at h
  split at h
  · rename_i hr
    cases h
    exact ⟨rfl, wrap16_id hr⟩
  · cases h

/-- in a set that lists only members, presence of the key and the stored value agree -/
theorem setHas_eq_setVal {s : GSet} (h : setOk s = true) (g : Nat) : setHas s g = setVal s g := by
  unfold setHas setVal setOk at *
  induction s with
  | nil => simp [List.lookup]
  | cons e es ih =>
    obtain ⟨k, v⟩ := e
    simp only [List.all_cons, Bool.and_eq_true] at h
    simp only [List.lookup]
    split
    · have : v = true := h.1
      subst this; rfl
    · exact ih h.2

/-! ## the lookup-flag filter -/

theorem hasBit_eq (flags bit : Nat) : hasBit flags bit = flagSet flags bit := rfl

/-- The engine's filter `keep` (filter.go) is the OpenType rule. -/
theorem keep_eq_keepRule (gd : Gdef) (flags markSet gid : Nat) :
    Shape.keep gd flags markSet gid = keepRule gd flags markSet gid := by
  unfold Shape.keep keepRule skipRule
  simp only [Gen.shapeClassBase, Gen.shapeClassLigature, Gen.shapeClassMark, Gen.shapeFlagIgnoreBase,
    Gen.shapeFlagIgnoreLigatures, Gen.shapeFlagIgnoreMarks, Gen.shapeFlagUseMarkFilteringSet,
    Gen.shapeFlagMarkAttachTypeMask, hasBit_eq]
  by_cases h0 : flags = 0
  · subst h0
    simp [flagSet]
  · have hne : (flags == 0) = false := by simpa using h0
    simp only [hne]
    by_cases h1 : classOf gd.glyphClass gid = 1
    · simp [h1]
    · by_cases h2 : classOf gd.glyphClass gid = 2
      · simp [h2]
      · by_cases h3 : classOf gd.glyphClass gid = 3
        · simp only [h3]
          by_cases hm : flagSet flags 8 = true
          · simp [hm]
          · by_cases hf : flagSet flags 16 = true
            · simp [hm, hf]
              cases gd.markSets[markSet]? <;> simp
            · by_cases ha : flagSet flags 65280 = true
              · have ha' : ¬ (flags &&& 65280 = 0) := by simpa [flagSet] using ha
                simp [hm, hf, ha, ha']
                simp [bne, Bool.not_not]
              · have ha' : flags &&& 65280 = 0 := by simpa [flagSet] using ha
                simp [hm, hf, ha, ha']
        · simp [h1, h2, h3]

theorem keepOf_eq (gd : Gdef) (lk : Lookup) : keepOf gd lk = lk.keep gd := by
  funext g; exact (keep_eq_keepRule gd lk.flags lk.markSet g).symm

/-! ## agreement of one subtable application -/

/-- The engine's `applySub` at position `pre.length` of the untagged sequence, on an empty
stack and with the whole rest of the sequence available, gives what the reference `matchSub`
gives: "does not apply" ↔ `none`; finished glyphs `dn` and remaining glyphs `rest` ↔ the
sequence `pre.reverse ++ dn ++ rest`, continuing behind `dn`.  Where the reference is undefined
nothing is claimed. -/
def SubEq (kp : Nat → Bool) (gd : Gdef) (pre : List TG) (cur : TG) (post : List TG) (s : Subtable) : Prop :=
  let seq := gl (pre.reverse ++ cur :: post)
  match matchSub kp gd pre cur post post.length s with
  | .error _ => True
  | .ok none => applySub kp ⟨seq, []⟩ pre.length seq.length s = .ok none
  | .ok (some (.done dn rest)) =>
    applySub kp ⟨seq, []⟩ pre.length seq.length s
      = .ok (some (⟨gl (pre.reverse ++ dn ++ rest), []⟩, pre.length + dn.length))
  | .ok (some (.ctx _ _)) => False

end SfntV.Spec.Shape
