/-
C19 — GPOS 2, format 2 (class pairs): sorting lemmas, class lists and class tables, the adjust
matrix, and the subtable fragment `frag_gpos22` (with and without the swallowed line break).
-/
import SfntV.Proofs.DslGpos2
set_option linter.unusedSimpArgs false
set_option linter.unusedVariables false
namespace SfntV.Dsl

/-! ### sorting lemmas for class tables -/

theorem mem_insertAsc (x y : Nat) (l : List Nat) : y ∈ insertAsc x l ↔ y = x ∨ y ∈ l := by
  induction l with
  | nil => simp [insertAsc]
  | cons z l ih =>
    unfold insertAsc
    split
    · simp
    · split
      · rename_i h; have : x = z := by simpa using h
        subst this; simp
      · simp [ih]; constructor
        · rintro (h | h | h) <;> simp [h]
        · rintro (h | h | h) <;> simp [h]

theorem mem_sortUnique (y : Nat) (l : List Nat) : y ∈ sortUnique l ↔ y ∈ l := by
  induction l with
  | nil => simp [sortUnique]
  | cons x l ih =>
    show y ∈ insertAsc x (sortUnique l) ↔ _
    rw [mem_insertAsc, ih]; simp

theorem insertAsc_asc (x : Nat) (l : List Nat) (h : Asc l) : Asc (insertAsc x l) := by
  induction l with
  | nil => simp [insertAsc, Asc]
  | cons z l ih =>
    have h' := List.pairwise_cons.mp h
    unfold insertAsc
    split
    · rename_i hlt
      apply List.pairwise_cons.mpr
      refine ⟨?_, h⟩
      intro a ha
      simp at ha
      rcases ha with rfl | ha
      · exact hlt
      · have := h'.1 a ha; omega
    · split
      · exact h
      · rename_i h1 h2
        apply List.pairwise_cons.mpr
        refine ⟨?_, ih h'.2⟩
        intro a ha
        rw [mem_insertAsc] at ha
        rcases ha with rfl | ha
        · have : ¬ a = z := by simpa using h2
          omega
        · exact h'.1 a ha

theorem sortUnique_isAsc (l : List Nat) : Asc (sortUnique l) := by
  induction l with
  | nil => simp [sortUnique, Asc]
  | cons x l ih => exact insertAsc_asc x _ ih

theorem asc_ext : ∀ (a b : List Nat), Asc a → Asc b → (∀ x, x ∈ a ↔ x ∈ b) → a = b := by
  intro a
  induction a with
  | nil =>
    intro b _ _ h
    cases b with
    | nil => rfl
    | cons y b => have := (h y).mpr (by simp); cases this
  | cons x a ih =>
    intro b ha hb h
    cases b with
    | nil => have := (h x).mp (by simp); cases this
    | cons y b =>
      have ha' := List.pairwise_cons.mp ha
      have hb' := List.pairwise_cons.mp hb
      have hxy : x = y := by
        have h1 := (h x).mp (by simp)
        have h2 := (h y).mpr (by simp)
        simp at h1 h2
        rcases h1 with h1 | h1
        · exact h1
        · rcases h2 with h2 | h2
          · exact h2.symm
          · have := hb'.1 x h1; have := ha'.1 y h2; omega
      subst hxy
      congr 1
      apply ih b ha'.2 hb'.2
      intro z
      constructor
      · intro hz
        have := (h z).mp (by simp [hz])
        simp at this
        rcases this with rfl | this
        · have := ha'.1 z hz; omega
        · exact this
      · intro hz
        have := (h z).mpr (by simp [hz])
        simp at this
        rcases this with rfl | this
        · have := hb'.1 z hz; omega
        · exact this

theorem aget_of_mem_nodup {β : Type} (l : List (Nat × β)) (g : Nat) (v : β) (hm : (g, v) ∈ l)
    (hn : (l.map (·.1)).Nodup) : aget l g = some v := by
  unfold aget
  induction l with
  | nil => cases hm
  | cons p l ih =>
    simp only [List.map_cons, List.nodup_cons] at hn
    simp only [List.mem_cons] at hm
    rcases hm with rfl | hm
    · simp
    · have : p.1 ≠ g := by
        intro e
        apply hn.1
        rw [e]
        exact List.mem_map.mpr ⟨(g, v), hm, rfl⟩
      rw [List.find?_cons_of_neg (by simpa using this)]
      exact ih hm hn.2

/-- sorting a table by glyph: any arrangement `tbl` of the entries of a table `c` that is sorted
by glyph gives `c` back -/
theorem sortByGlyph_perm (tbl c : List (Nat × Nat)) (hc : Asc (c.map (·.1)))
    (hmem : ∀ p, p ∈ tbl ↔ p ∈ c) (hnd : (tbl.map (·.1)).Nodup) : sortByGlyph tbl = c := by
  unfold sortByGlyph keysAsc
  have hk : sortUnique (tbl.map (·.1)) = c.map (·.1) := by
    apply asc_ext _ _ (sortUnique_isAsc _) hc
    intro x
    rw [mem_sortUnique]
    simp only [List.mem_map]
    constructor
    · rintro ⟨p, hp, rfl⟩; exact ⟨p, (hmem p).mp hp, rfl⟩
    · rintro ⟨p, hp, rfl⟩; exact ⟨p, (hmem p).mpr hp, rfl⟩
  rw [hk, List.map_map]
  have : ∀ p ∈ c, ((fun g => (g, (aget tbl g).getD 0)) ∘ fun x => x.1) p = p := by
    intro p hp
    simp only [Function.comp_apply]
    rw [aget_of_mem_nodup tbl p.1 p.2 ((hmem p).mpr hp) hnd]
    rfl
  rw [List.map_congr_left this]
  simp

/-! ### class lists `first …;` / `second …;` -/

def assign : Nat → List (List Nat) → List (Nat × Nat)
  | _, [] => []
  | cnt, gg :: more => gg.map (fun g => (g, cnt)) ++ assign (cnt + 1) more

theorem classInsert_ok : ∀ (gs : List Nat) (c : Nat) (tbl : List (Nat × Nat)) (s : PS),
    (∀ g ∈ gs, aget tbl g = none) → gs.Nodup →
    classInsert gs c tbl s = .ok (tbl ++ gs.map (fun g => (g, c)), s) := by
  intro gs
  induction gs with
  | nil => intro c tbl s _ _; simp [classInsert, pure_run]
  | cons g gs ih =>
    intro c tbl s hfresh hnd
    unfold classInsert
    have hg := hfresh g (by simp)
    simp only [hg, Option.isSome_none, Bool.false_eq_true, if_false]
    rw [ih c (tbl ++ [(g, c)]) s ?_ (List.nodup_cons.mp hnd).2]
    · simp
    · intro x hx
      have hx1 := hfresh x (by simp [hx])
      have hne : g ≠ x := fun e => (List.nodup_cons.mp hnd).1 (e ▸ hx)
      unfold aget at hx1 ⊢
      simp only [List.find?_append]
      cases hf : tbl.find? (·.1 == x) with
      | some p => rw [hf] at hx1; simp at hx1
      | none => simp [List.find?_cons, hne]

def restPieces (f : Font) (ggs : List (List Nat)) : List Piece :=
  ggs.flatMap fun gg => [commaP, sp] ++ (newExplainer f).writeGlyphList gg

theorem semi_tokOk (nx : Option Nat) : TokOk tSemicolon (ascii [59]) nx := by
  right; right; right; left; exact ⟨59, rfl, by decide⟩

theorem safe_semi : Safe (some 59) := safe_ascii 59 (by decide) (by decide) (by decide)

theorem aget_none_of_not_mem (tbl : List (Nat × Nat)) (g : Nat) (h : g ∉ tbl.map (·.1)) : aget tbl g = none := by
  unfold aget
  cases hf : tbl.find? (·.1 == g) with
  | none => rfl
  | some p =>
    exfalso
    apply h
    have hm := List.mem_of_find?_eq_some hf
    have he := List.find?_some hf
    simp at he
    exact List.mem_map.mpr ⟨p, hm, he⟩

/-- the class loop after the first class: `{", " glyphs} ";"` -/
theorem frag_classRest (f : Font) (hf : FontOk f) (fuel : Nat) : ∀ (ggs : List (List Nat)) (n : Nat)
    (tbl : List (Nat × Nat)) (cnt : Nat), ggs.length < n →
    (∀ gg ∈ ggs, gg ≠ [] ∧ (∀ g ∈ gg, g < f.numGlyphs) ∧ tokCount ((newExplainer f).writeGlyphList gg) < fuel) →
    (tbl.map (·.1) ++ ggs.flatten).Nodup →
    Frag (classLoop f fuel n false tbl cnt) (restPieces f ggs ++ [semiP]) (tbl ++ assign cnt ggs) anyTok anyNext := by
  intro ggs
  induction ggs with
  | nil =>
    intro n tbl cnt hn _ _
    cases n with
    | zero => omega
    | succ m =>
      unfold classLoop
      have hp : restPieces f [] ++ [semiP] = [.tok tSemicolon (ascii [59])] ++ [] := by simp [restPieces, semiP, tk]
      rw [hp]
      refine frag_bind (frag_optional_yes [tSemicolon] tSemicolon (ascii [59]) anyNext (by decide)
        (fun nx _ => semi_tokOk nx) (tk_canon tSemicolon _ (by decide))) ?_ (fun _ _ => trivial) (fun _ _ _ => trivial)
      simp only [if_true, assign, List.append_nil]
      exact frag_pure _ _
  | cons gg more ih =>
    intro n tbl cnt hn hall hnd
    cases n with
    | zero => omega
    | succ m =>
      obtain ⟨hne, hin, hfu⟩ := hall gg (by simp)
      have hnd' : (tbl.map (·.1) ++ (gg ++ more.flatten)).Nodup := by simpa using hnd
      have hfresh : ∀ g ∈ gg, aget tbl g = none := by
        intro g hg
        apply aget_none_of_not_mem
        intro hmem
        have := (List.nodup_append.mp hnd').2.2 g hmem g (by simp [hg])
        exact this rfl
      have hggnd : gg.Nodup := ((List.nodup_append.mp ((List.nodup_append.mp hnd').2.1)).1)
      have hih := ih m (tbl ++ gg.map (fun g => (g, cnt))) (cnt + 1) (by simp at hn; omega)
        (fun x hx => hall x (by simp [hx])) (by
          simp only [List.map_append, List.map_map, Function.comp_def, List.map_id', List.append_assoc]
          exact hnd')
      unfold classLoop
      have hp : restPieces f (gg :: more) ++ [semiP] =
          [] ++ ([.tok tComma (ascii [44])] ++ (.ws [a1 32] :: ((newExplainer f).writeGlyphList gg ++ ([] ++ (restPieces f more ++ [semiP]))))) := by
        simp [restPieces, commaP, sp, tk]
      rw [hp]
      refine frag_bind (frag_optional_no [tSemicolon]) ?_ (fun _ _ => trivial)
        (fun line t _ => by simp [mkToks, tComma, tSemicolon])
      simp only [Bool.false_eq_true, if_false, Bool.not_false, if_true]
      refine frag_then (fragU_required tComma (ascii [44]) anyNext (fun nx _ => comma_tokOk nx)
        (tk_canon tComma _ (by decide))) ?_ (fun _ _ => trivial) (fun _ _ _ => trivial)
      apply frag_ws [a1 32] ws_sp
      -- what follows the glyph list is a comma or the semicolon
      have hnext : ∃ c, (c = 44 ∨ c = 59) ∧ ∀ nx, nextRune ([] ++ (restPieces f more ++ [semiP])) nx = some c := by
        cases more with
        | nil => exact ⟨59, Or.inr rfl, fun nx => by simp [restPieces, nextRune, render, semiP, tk, ascii, Piece.rbs]⟩
        | cons g2 m2 => exact ⟨44, Or.inl rfl, fun nx => by simp [restPieces, nextRune, render, commaP, tk, ascii, Piece.rbs]⟩
      obtain ⟨c, hc, hcn⟩ := hnext
      refine frag_bind (frag_glyphList f hf gg hin fuel hfu) ?_ (fun nx _ => by
          rw [hcn nx]; rcases hc with rfl | rfl
          · exact safe_comma
          · exact safe_semi)
        (fun line t _ => by
          cases more with
          | nil => simp [restPieces, mkToks, semiP, tk, glyphItem, tSemicolon, tIdentifier, tString, tInteger, tHyphen]
          | cons g2 m2 => simp [restPieces, mkToks, commaP, tk, glyphItem, tComma, tIdentifier, tString, tInteger, tHyphen])
      have hci : ∀ s, classInsert gg cnt tbl s = .ok (tbl ++ gg.map (fun g => (g, cnt)), s) :=
        fun s => classInsert_ok gg cnt tbl s hfresh hggnd
      have hins : Frag (classInsert gg cnt tbl) [] (tbl ++ gg.map (fun g => (g, cnt))) anyTok anyNext :=
        ⟨fun _ _ => trivial, by simp [render], fun line s t rest hs _ => ⟨s, hci s, by simpa [mkToks] using hs⟩⟩
      refine frag_bind hins ?_ (fun _ _ => trivial) (fun _ _ _ => trivial)
      have : tbl ++ assign cnt (gg :: more) = (tbl ++ gg.map (fun g => (g, cnt))) ++ assign (cnt + 1) more := by
        simp [assign]
      rw [this]
      exact hih

theorem assign_fst : ∀ (ggs : List (List Nat)) (cnt : Nat), (assign cnt ggs).map (·.1) = ggs.flatten := by
  intro ggs
  induction ggs with
  | nil => intro cnt; rfl
  | cons gg more ih => intro cnt; simp [assign, ih, List.map_map, Function.comp_def]

theorem mem_assign : ∀ (ggs : List (List Nat)) (cnt g cl : Nat),
    (g, cl) ∈ assign cnt ggs ↔ ∃ i, ∃ h : i < ggs.length, cl = cnt + i ∧ g ∈ ggs[i] := by
  intro ggs
  induction ggs with
  | nil => intro cnt g cl; simp [assign]
  | cons gg more ih =>
    intro cnt g cl
    simp only [assign, List.mem_append, List.mem_map, Prod.mk.injEq, ih]
    constructor
    · rintro (⟨a, ha, rfl, rfl⟩ | ⟨i, hi, rfl, hg⟩)
      · exact ⟨0, by simp, by simp, by simpa using ha⟩
      · exact ⟨i + 1, by simp; omega, by omega, by simpa using hg⟩
    · rintro ⟨i, hi, hcl, hg⟩
      cases i with
      | zero => left; exact ⟨g, by simpa using hg, rfl, by omega⟩
      | succ j => right; exact ⟨j, by simp at hi; omega, by omega, by simpa using hg⟩

/-- class tables of the domain: sorted by glyph, glyphs of the font, classes 1 … k all used -/
structure ClassOk (f : Font) (c : List (Nat × Nat)) : Prop where
  asc : Asc (c.map (·.1))
  inFont : ∀ p ∈ c, p.1 < f.numGlyphs ∧ 1 ≤ p.2
  full : ∀ i, i < (c.map (·.2)).foldl max 0 → ∃ p ∈ c, p.2 = i + 1

theorem le_foldl_max (l : List Nat) : ∀ (a x : Nat), x ∈ l ∨ x ≤ a → x ≤ l.foldl max a := by
  induction l with
  | nil => intro a x h; simpa using h
  | cons y l ih =>
    intro a x h
    simp only [List.foldl_cons]
    apply ih
    simp only [List.mem_cons] at h
    rcases h with (rfl | h) | h
    · right; exact Nat.le_max_right _ _
    · left; exact h
    · right; exact Nat.le_trans h (Nat.le_max_left _ _)

theorem asc_fst_unique (c : List (Nat × Nat)) (h : Asc (c.map (·.1))) (g a b : Nat) (ha : (g, a) ∈ c) (hb : (g, b) ∈ c) :
    a = b := by
  induction c with
  | nil => cases ha
  | cons p c ih =>
    simp only [List.map_cons] at h
    have h' := List.pairwise_cons.mp h
    simp only [List.mem_cons] at ha hb
    rcases ha with rfl | ha <;> rcases hb with hb | hb
    · simp at hb; exact hb.symm
    · have := h'.1 g (List.mem_map.mpr ⟨(g, b), hb, rfl⟩); simp at this
    · subst hb; have := h'.1 g (List.mem_map.mpr ⟨(g, a), ha, rfl⟩); simp at this
    · exact ih h'.2 ha hb

def classAt (c : List (Nat × Nat)) (i : Nat) : List Nat :=
  sortUnique ((c.filter fun p => p.2 == i + 1).map (·.1))

theorem classGlyphs_eq (c : List (Nat × Nat)) :
    classGlyphs c = (List.range ((c.map (·.2)).foldl max 0)).map (classAt c) := rfl

theorem mem_classAt (c : List (Nat × Nat)) (i g : Nat) : g ∈ classAt c i ↔ (g, i + 1) ∈ c := by
  unfold classAt
  simp only [mem_sortUnique, List.mem_map, List.mem_filter]
  constructor
  · rintro ⟨p, ⟨hp, hc⟩, rfl⟩
    have : p.2 = i + 1 := by simpa using hc
    rw [← this]; exact hp
  · intro h; exact ⟨(g, i + 1), ⟨h, by simp⟩, rfl⟩

theorem mem_classGlyphs (c : List (Nat × Nat)) (i : Nat) (hi : i < (classGlyphs c).length) (g : Nat) :
    g ∈ (classGlyphs c)[i] ↔ (g, i + 1) ∈ c := by
  have : (classGlyphs c)[i] = classAt c i := by simp [classGlyphs_eq]
  rw [this]; exact mem_classAt c i g

theorem nodup_flatten_of (L : List (List Nat)) (h1 : ∀ l ∈ L, l.Nodup)
    (h2 : L.Pairwise fun a b => ∀ x, x ∈ a → x ∈ b → False) : L.flatten.Nodup := by
  induction L with
  | nil => simp
  | cons l L ih =>
    have h2' := List.pairwise_cons.mp h2
    simp only [List.flatten_cons]
    rw [List.nodup_append]
    refine ⟨h1 l (by simp), ih (fun x hx => h1 x (by simp [hx])) h2'.2, ?_⟩
    intro a ha b hb hab
    subst hab
    simp only [List.mem_flatten] at hb
    obtain ⟨l', hl', hb'⟩ := hb
    exact h2'.1 l' hl' a ha hb'

theorem classGlyphs_length (c : List (Nat × Nat)) : (classGlyphs c).length = (c.map (·.2)).foldl max 0 := by
  simp [classGlyphs]

theorem classGlyphs_facts (f : Font) (c : List (Nat × Nat)) (h : ClassOk f c) :
    (∀ gg ∈ classGlyphs c, gg ≠ [] ∧ ∀ g ∈ gg, g < f.numGlyphs) ∧ (classGlyphs c).flatten.Nodup ∧
    (∀ p, p ∈ assign 1 (classGlyphs c) ↔ p ∈ c) := by
  obtain ⟨hasc, hin, hfull⟩ := h
  refine ⟨?_, ?_, ?_⟩
  · intro gg hgg
    obtain ⟨i, hi, rfl⟩ := List.getElem_of_mem hgg
    refine ⟨?_, ?_⟩
    · obtain ⟨p, hp, hpc⟩ := hfull i (by rw [← classGlyphs_length]; exact hi)
      intro he
      have : p.1 ∈ (classGlyphs c)[i] := (mem_classGlyphs c i hi p.1).mpr (by rw [← hpc]; exact hp)
      rw [he] at this; cases this
    · intro g hg
      exact (hin _ ((mem_classGlyphs c i hi g).mp hg)).1
  · apply nodup_flatten_of
    · intro gg hgg
      rw [classGlyphs_eq] at hgg
      simp only [List.mem_map, List.mem_range] at hgg
      obtain ⟨i, _, rfl⟩ := hgg
      exact (sortUnique_isAsc _).imp (fun h => Nat.ne_of_lt h)
    · rw [classGlyphs_eq, List.pairwise_map]
      refine (List.pairwise_lt_range).imp ?_
      intro i j hij g h1 h2
      rw [mem_classAt] at h1 h2
      have := asc_fst_unique c hasc g (i + 1) (j + 1) h1 h2
      omega
  · rintro ⟨g, cl⟩
    rw [mem_assign]
    constructor
    · rintro ⟨i, hi, rfl, hg⟩
      have := (mem_classGlyphs c i hi g).mp hg
      rw [Nat.add_comm]; exact this
    · intro hp
      have h1 := (hin _ hp).2
      simp only at h1
      have hle : cl ≤ (c.map (·.2)).foldl max 0 := le_foldl_max _ 0 cl (Or.inl (List.mem_map.mpr ⟨(g, cl), hp, rfl⟩))
      have hi : cl - 1 < (classGlyphs c).length := by rw [classGlyphs_length]; omega
      refine ⟨cl - 1, hi, by omega, ?_⟩
      rw [mem_classGlyphs c (cl - 1) hi g]
      have : cl - 1 + 1 = cl := by omega
      rw [this]; exact hp

theorem max_of_same_members (a b : List Nat) (h : ∀ x, x ∈ a → x ∈ b) : a.foldl max 0 ≤ b.foldl max 0 := by
  rcases foldl_max_mem a 0 with h0 | hm
  · rw [h0]; exact Nat.zero_le _
  · exact le_foldl_max b 0 _ (Or.inl (h _ hm))

theorem numClasses_same (a b : List (Nat × Nat)) (h : ∀ p, p ∈ a ↔ p ∈ b) : numClasses a = numClasses b := by
  unfold numClasses
  have h1 := max_of_same_members (a.map (·.2)) (b.map (·.2)) (by
    intro x hx; simp only [List.mem_map] at hx ⊢
    obtain ⟨p, hp, rfl⟩ := hx; exact ⟨p, (h p).mp hp, rfl⟩)
  have h2 := max_of_same_members (b.map (·.2)) (a.map (·.2)) (by
    intro x hx; simp only [List.mem_map] at hx ⊢
    obtain ⟨p, hp, rfl⟩ := hx; exact ⟨p, (h p).mpr hp, rfl⟩)
  omega

/-- `first …;` / `second …;` read by the class loop: the table it builds is the printed table up
to the order of its entries -/
theorem frag_classTable (f : Font) (hf : FontOk f) (c : List (Nat × Nat)) (hc : ClassOk f c) (fuel n : Nat)
    (hfuel : (classGlyphs c).length < n ∧ ∀ gg ∈ classGlyphs c, tokCount ((newExplainer f).writeGlyphList gg) < fuel) :
    ∃ tbl, sortByGlyph tbl = c ∧ numClasses tbl = numClasses c ∧
      Frag (classLoop f fuel (n + 1) true [] 1) ((newExplainer f).classList c ++ [semiP]) tbl anyTok anyNext := by
  obtain ⟨hfacts1, hfacts2, hfacts3⟩ := classGlyphs_facts f c hc
  refine ⟨assign 1 (classGlyphs c), ?_, numClasses_same _ _ hfacts3, ?_⟩
  · exact sortByGlyph_perm _ c hc.asc hfacts3 (by rw [assign_fst]; exact hfacts2)
  · unfold Explainer.classList
    cases hg : classGlyphs c with
    | nil =>
      unfold classLoop
      have hp : ([] : List Piece) ++ [semiP] = [.tok tSemicolon (ascii [59])] ++ [] := by simp [semiP, tk]
      simp only []
      rw [hp]
      refine frag_bind (frag_optional_yes [tSemicolon] tSemicolon (ascii [59]) anyNext (by decide)
        (fun nx _ => semi_tokOk nx) (tk_canon tSemicolon _ (by decide))) ?_ (fun _ _ => trivial) (fun _ _ _ => trivial)
      simp only [if_true, assign]
      exact frag_pure _ _
    | cons gg more =>
      rw [hg] at hfacts1 hfacts2 hfuel
      obtain ⟨hne, hin⟩ := hfacts1 gg (by simp)
      have hggnd : gg.Nodup := by
        simp only [List.flatten_cons] at hfacts2
        exact (List.nodup_append.mp hfacts2).1
      have hrest := frag_classRest f hf fuel more n (gg.map fun g => (g, 1)) 2 (by simp at hfuel; omega)
        (fun x hx => ⟨(hfacts1 x (by simp [hx])).1, (hfacts1 x (by simp [hx])).2, hfuel.2 x (by simp [hx])⟩)
        (by simpa [List.map_map, Function.comp_def] using hfacts2)
      obtain ⟨typ, val, ps, hw, hty⟩ := writeGlyphList_head (newExplainer f) gg hne
      simp only []
      unfold classLoop
      have hp : [sp] ++ (newExplainer f).writeGlyphList gg ++
          (more.flatMap fun gg' => [commaP, sp] ++ (newExplainer f).writeGlyphList gg') ++ [semiP] =
          [] ++ (.ws [a1 32] :: ((newExplainer f).writeGlyphList gg ++ ([] ++ (restPieces f more ++ [semiP])))) := by
        simp [restPieces, sp]
      rw [hp]
      refine frag_bind (frag_optional_no [tSemicolon]) ?_ (fun _ _ => trivial) (fun line t _ => by
        rw [hw]
        rcases hty with h | h | h <;> simp [mkToks, h, tSemicolon, tIdentifier, tInteger, tString])
      simp only [Bool.false_eq_true, if_false, Bool.not_true]
      apply frag_ws [a1 32] ws_sp
      have hnext : ∃ c', (c' = 44 ∨ c' = 59) ∧ ∀ nx, nextRune ([] ++ (restPieces f more ++ [semiP])) nx = some c' := by
        cases more with
        | nil => exact ⟨59, Or.inr rfl, fun nx => by simp [restPieces, nextRune, render, semiP, tk, ascii, Piece.rbs]⟩
        | cons g2 m2 => exact ⟨44, Or.inl rfl, fun nx => by simp [restPieces, nextRune, render, commaP, tk, ascii, Piece.rbs]⟩
      obtain ⟨c', hc', hcn⟩ := hnext
      refine frag_bind (frag_glyphList f hf gg hin fuel (hfuel.2 gg (by simp))) ?_ (fun nx _ => by
          rw [hcn nx]; rcases hc' with rfl | rfl
          · exact safe_comma
          · exact safe_semi)
        (fun line t _ => by
          cases more with
          | nil => simp [restPieces, mkToks, semiP, tk, glyphItem, tSemicolon, tIdentifier, tString, tInteger, tHyphen]
          | cons g2 m2 => simp [restPieces, mkToks, commaP, tk, glyphItem, tComma, tIdentifier, tString, tInteger, tHyphen])
      have hci : ∀ s, classInsert gg 1 [] s = .ok (gg.map (fun g => (g, 1)), s) := by
        intro s
        have := classInsert_ok gg 1 [] s (by intro g _; rfl) hggnd
        simpa using this
      have hins : Frag (classInsert gg 1 []) [] (gg.map (fun g => (g, 1))) anyTok anyNext :=
        ⟨fun _ _ => trivial, by simp [render], fun line s t rest hs _ => ⟨s, hci s, by simpa [mkToks] using hs⟩⟩
      refine frag_bind hins ?_ (fun _ _ => trivial) (fun _ _ _ => trivial)
      simpa [assign] using hrest

/-! ### the adjust matrix -/

def restCells (more : List PairAdj) : List Piece := more.flatMap fun p => [commaP, sp] ++ writePairAdjust p

def cellsP (row : List PairAdj) : List Piece := ((row.map writePairAdjust).intersperse [commaP, sp]).flatten

theorem cellsP_cons (p : PairAdj) (more : List PairAdj) : cellsP (p :: more) = writePairAdjust p ++ restCells more := by
  induction more generalizing p with
  | nil => simp [cellsP, restCells]
  | cons q more ih =>
    have := ih q
    simp only [cellsP, List.map_cons, List.intersperse_cons_cons, List.flatten_cons] at this ⊢
    rw [this]; simp [restCells]

def RowStop (t : Tok) : Prop := t.typ = tSemicolon

theorem rowStop_cell (t : Tok) (h : t.typ = tSemicolon ∨ t.typ = tComma) :
    valueItem t = false ∧ [tAmpersand].contains t.typ = false := by
  rcases h with h | h
  · exact ⟨valueItem_false_of_typ t (by rw [h]; decide), by simp [h, tSemicolon, tAmpersand]⟩
  · exact ⟨valueItem_false_of_typ t (by rw [h]; decide), by simp [h, tComma, tAmpersand]⟩

theorem frag_restCells (fuel : Nat) (hfuel : 5 ≤ fuel) : ∀ (more : List PairAdj) (j : Nat), 0 < j →
    (∀ p ∈ more, PAOk p) →
    Frag (adjustRow fuel more.length j) (restCells more) (more.map normPA) RowStop (fun nx => nx = some 59) := by
  intro more
  induction more with
  | nil =>
    intro j _ _
    simp only [List.length_nil, adjustRow, restCells, List.flatMap_nil, List.map_nil]
    exact frag_weaken (frag_pure _ _) (fun _ h => h) (fun _ _ => trivial)
  | cons p more ih =>
    intro j hj hall
    have hih := ih (j + 1) (by omega) (fun x hx => hall x (by simp [hx]))
    simp only [List.length_cons]
    unfold adjustRow
    rw [if_pos hj]
    have hp : restCells (p :: more) = [.tok tComma (ascii [44])] ++ (.ws [a1 32] :: (writePairAdjust p ++ (restCells more ++ []))) := by
      simp [restCells, commaP, sp, tk]
    rw [hp]
    refine frag_then (frag_optional_yes [tComma] tComma (ascii [44]) anyNext (by decide)
      (fun nx _ => comma_tokOk nx) (tk_canon tComma _ (by decide))).toU ?_ (fun _ _ => trivial) (fun _ _ _ => trivial)
    apply frag_ws [a1 32] ws_sp
    refine frag_bind (frag_pairAdjust p (hall p (by simp)) fuel hfuel) ?_ ?_ ?_
    · refine frag_bind hih ?_ (fun nx h => by simpa [nextRune, render] using h)
        (fun line t ht => by simpa [mkToks] using ht)
      simp only [List.map_cons]
      exact frag_weaken (frag_pure _ _) (fun _ h => h) (fun _ _ => trivial)
    · intro nx hnx
      subst hnx
      cases more with
      | nil => simpa [restCells, nextRune, render] using safe_semi
      | cons q m => simpa [restCells, nextRune, render, commaP, tk, ascii, Piece.rbs] using safe_comma
    · intro line t ht
      cases more with
      | nil => simpa [restCells, mkToks] using rowStop_cell t (Or.inl ht)
      | cons q m => exact rowStop_cell _ (Or.inr (by simp [restCells, mkToks, commaP, tk]))

theorem frag_adjustRow (fuel : Nat) (hfuel : 5 ≤ fuel) (p : PairAdj) (more : List PairAdj)
    (hall : ∀ q ∈ p :: more, PAOk q) :
    Frag (adjustRow fuel (more.length + 1) 0) (cellsP (p :: more)) ((p :: more).map normPA) RowStop
      (fun nx => nx = some 59) := by
  rw [cellsP_cons]
  unfold adjustRow
  rw [if_neg (by omega)]
  have hih := frag_restCells fuel hfuel more 1 (by omega) (fun x hx => hall x (by simp [hx]))
  have hp : writePairAdjust p ++ restCells more = writePairAdjust p ++ (restCells more ++ []) := by simp
  rw [hp]
  refine frag_bind (frag_pairAdjust p (hall p (by simp)) fuel hfuel) ?_ ?_ ?_
  · refine frag_bind hih ?_ (fun nx h => by simpa [nextRune, render] using h)
      (fun line t ht => by simpa [mkToks] using ht)
    simp only [List.map_cons]
    exact frag_weaken (frag_pure _ _) (fun _ h => h) (fun _ _ => trivial)
  · intro nx hnx
    subst hnx
    cases more with
    | nil => simpa [restCells, nextRune, render] using safe_semi
    | cons q m => simpa [restCells, nextRune, render, commaP, tk, ascii, Piece.rbs] using safe_comma
  · intro line t ht
    cases more with
    | nil => simpa [restCells, mkToks] using rowStop_cell t (Or.inl ht)
    | cons q m => exact rowStop_cell _ (Or.inr (by simp [restCells, mkToks, commaP, tk]))

def restRows (rows : List (List PairAdj)) : List Piece :=
  rows.flatMap fun r => [eolP, tab] ++ cellsP r ++ [semiP]

/-- the rows of the matrix; with `swallow` the line break that follows the last row is part of
the fragment (`readGpos2` takes it with `p.optional(itemEOL)`) -/
theorem frag_adjustRows (fuel : Nat) (hfuel : 5 ≤ fuel) (cols : Nat) (hcols : 1 ≤ cols) (swallow : Bool) :
    ∀ (more : List (List PairAdj)) (r0 : List PairAdj),
    (∀ r ∈ r0 :: more, r.length = cols ∧ ∀ q ∈ r, PAOk q) →
    Frag (adjustRows fuel cols (more.length + 1))
      (cellsP r0 ++ ([semiP] ++ (restRows more ++ (if swallow then [eolP] else []))))
      ((r0 :: more).map fun r => r.map normPA)
      (fun t => swallow = true ∨ [tEOL].contains t.typ = false) anyNext := by
  intro more
  induction more with
  | nil =>
    intro r0 hall
    obtain ⟨hlen, hok⟩ := hall r0 (by simp)
    cases r0 with
    | nil => simp at hlen; omega
    | cons p m =>
      have hrow := frag_adjustRow fuel hfuel p m hok
      have hl : m.length + 1 = cols := by simpa using hlen
      rw [hl] at hrow
      simp only [List.length_nil, Nat.zero_add]
      unfold adjustRows
      refine frag_bind hrow ?_ (fun nx _ => by simp [nextRune, render, semiP, tk, ascii, Piece.rbs])
        (fun line t _ => by simp [mkToks, semiP, tk, RowStop])
      have hsemi := (frag_optional_yes [tComma, tSemicolon] tSemicolon (ascii [59]) anyNext (by decide)
        (fun nx _ => semi_tokOk nx) (tk_canon tSemicolon _ (by decide))).toU
      have hp : [semiP] ++ (restRows [] ++ (if swallow = true then [eolP] else [])) =
          [.tok tSemicolon (ascii [59])] ++ ((if swallow = true then [eolP] else []) ++ []) := by
        simp [restRows, semiP, tk]
      rw [hp]
      refine frag_then hsemi ?_ (fun _ _ => trivial) (fun _ _ _ => trivial)
      cases swallow with
      | true =>
        simp only [if_true]
        have hy := (frag_optional_yes [tEOL] tEOL (ascii [10]) anyNext (by decide)
          (fun nx _ => eol_tokOk nx) (tk_canon tEOL _ (by decide))).toU
        have : [eolP] = [.tok tEOL (ascii [10])] := by simp [eolP, tk]
        rw [this]
        refine frag_then hy ?_ (fun _ _ => trivial) (fun _ _ _ => trivial)
        simp only [adjustRows, pure_bind, List.map_cons, List.map_nil]
        exact frag_weaken (frag_pure _ _) (fun _ _ => trivial) (fun _ _ => trivial)
      | false =>
        simp only [Bool.false_eq_true, if_false]
        refine frag_then (frag_optional_no [tEOL]).toU ?_ (fun _ _ => trivial)
          (fun line t ht => by
            rcases ht with h | h
            · cases h
            · simpa [mkToks] using h)
        simp only [adjustRows, pure_bind, List.map_cons, List.map_nil]
        exact frag_weaken (frag_pure _ _) (fun _ _ => trivial) (fun _ _ => trivial)
  | cons r1 more ih =>
    intro r0 hall
    obtain ⟨hlen, hok⟩ := hall r0 (by simp)
    have hih := ih r1 (fun r hr => hall r (by simp at hr ⊢; rcases hr with rfl | hr <;> simp [*]))
    cases r0 with
    | nil => simp at hlen; omega
    | cons p m =>
      have hrow := frag_adjustRow fuel hfuel p m hok
      have hl : m.length + 1 = cols := by simpa using hlen
      rw [hl] at hrow
      simp only [List.length_cons]
      unfold adjustRows
      refine frag_bind hrow ?_ (fun nx _ => by simp [nextRune, render, semiP, tk, ascii, Piece.rbs])
        (fun line t _ => by simp [mkToks, semiP, tk, RowStop])
      have hsemi := (frag_optional_yes [tComma, tSemicolon] tSemicolon (ascii [59]) anyNext (by decide)
        (fun nx _ => semi_tokOk nx) (tk_canon tSemicolon _ (by decide))).toU
      have hp : [semiP] ++ (restRows (r1 :: more) ++ (if swallow = true then [eolP] else [])) =
          [.tok tSemicolon (ascii [59])] ++ ([.tok tEOL (ascii [10])] ++ (.ws [a1 9] ::
            ((cellsP r1 ++ ([semiP] ++ (restRows more ++ (if swallow = true then [eolP] else [])))) ++ []))) := by
        simp [restRows, semiP, eolP, tab, tk]
      rw [hp]
      refine frag_then hsemi ?_ (fun _ _ => trivial) (fun _ _ _ => trivial)
      have hy := (frag_optional_yes [tEOL] tEOL (ascii [10]) anyNext (by decide)
        (fun nx _ => eol_tokOk nx) (tk_canon tEOL _ (by decide))).toU
      refine frag_then hy ?_ (fun _ _ => trivial) (fun _ _ _ => trivial)
      apply frag_ws [a1 9] ws_tab
      refine frag_bind hih ?_ (fun nx h => by simpa [nextRune, render] using h)
        (fun line t ht => by simpa [mkToks] using ht)
      simp only [List.map_cons]
      exact frag_weaken (frag_pure _ _) (fun _ _ => trivial) (fun _ _ => trivial)

/-! ### the class-pair subtable -/

structure Gpos22Ok (f : Font) (cov : List Nat) (c1 c2 : List (Nat × Nat)) (adjust : List (List PairAdj)) : Prop where
  asc : Asc cov
  covIn : ∀ g ∈ cov, g < f.numGlyphs
  c1ok : ClassOk f c1
  c2ok : ClassOk f c2
  rows : adjust.length = numClasses c1
  cells : ∀ row ∈ adjust, row.length = numClasses c2 ∧ ∀ q ∈ row, PAOk q

theorem classList_counts (f : Font) (c : List (Nat × Nat)) (hne : ∀ gg ∈ classGlyphs c, gg ≠ []) :
    (classGlyphs c).length ≤ tokCount ((newExplainer f).classList c) ∧
    ∀ gg ∈ classGlyphs c, tokCount ((newExplainer f).writeGlyphList gg) ≤ tokCount ((newExplainer f).classList c) := by
  unfold Explainer.classList
  have hpos : ∀ gg, gg ≠ [] → 1 ≤ tokCount ((newExplainer f).writeGlyphList gg) := by
    intro gg h
    obtain ⟨typ, val, ps, hw, _⟩ := writeGlyphList_head (newExplainer f) gg h
    rw [hw]; simp [tokCount]
  cases hg : classGlyphs c with
  | nil => simp
  | cons gg more =>
    rw [hg] at hne
    simp only [tokCount_append, tokCount, sp, List.length_cons]
    have h1 := hpos gg (hne gg (by simp))
    have h2 := length_le_tokCount_flatMap (fun gg' => [commaP, sp] ++ (newExplainer f).writeGlyphList gg') more (by
      intro x _; simp [tokCount_append, tokCount, commaP, tk])
    refine ⟨by simp [sp] at h2 ⊢; omega, ?_⟩
    intro x hx
    simp only [List.mem_cons] at hx
    rcases hx with rfl | hx
    · simp [sp]
    · have := tokCount_flatMap_mem (fun gg' => [commaP, sp] ++ (newExplainer f).writeGlyphList gg') more x hx
      simp only [tokCount_append] at this
      simp [sp] at this ⊢; omega

theorem fragU_reqIdent (kw : List Nat) (hne : kw ≠ []) (hs : ∀ c ∈ kw, inR 97 122 c = true) :
    FragU (requiredIdentifier kw) [tk tIdentifier kw] anyTok (fun nx => ∀ r, nx = some r → isIdentChar r = false) := by
  have hid := frag_readIdentifier kw hne hs
  refine ⟨hid.chain, hid.canon, fun line => ⟨(), ?_⟩⟩
  intro s t rest hs' _
  obtain ⟨s1, e1, hs1⟩ := readItem_stream s { typ := tIdentifier, val := ascii kw, line := line } _
    (by simpa [mkToks, tk] using hs')
  refine ⟨s1, ?_, hs1⟩
  unfold requiredIdentifier
  rw [bind_run, e1]
  simp [isIdent, Tok.bytes, ascii_bytes, pure_run]

theorem slash_tokOk (nx : Option Nat) : TokOk tSlash (ascii [47]) nx := by
  right; right; right; left; exact ⟨47, rfl, by decide⟩

theorem safe_slash : Safe (some 47) := safe_ascii 47 (by decide) (by decide) (by decide)

theorem classList_next (f : Font) (c : List (Nat × Nat)) (rest : List Piece) (nx : Option Nat) (r : Nat)
    (h : nextRune ((newExplainer f).classList c ++ (semiP :: rest)) nx = some r) : isIdentChar r = false := by
  unfold Explainer.classList at h
  cases hg : classGlyphs c with
  | nil => rw [hg] at h; simp [nextRune, render, semiP, tk, ascii, Piece.rbs] at h; subst h; decide
  | cons gg more => rw [hg] at h; simp [nextRune, render, sp, Piece.rbs, a1] at h; subst h; decide

theorem numClasses_pos (c : List (Nat × Nat)) : 1 ≤ numClasses c := by unfold numClasses; omega

theorem first_lower : ∀ c ∈ kwFirst, inR 97 122 c = true := by decide
theorem second_lower : ∀ c ∈ kwSecond, inR 97 122 c = true := by decide

/-- the class-pair subtable as it is written after a `||` separator (or after the header's line
break); with `swallow` the line break after the last row is included -/
theorem frag_gpos22 (f : Font) (hf : FontOk f) (cov : List Nat) (c1 c2 : List (Nat × Nat))
    (adjust : List (List PairAdj)) (h : Gpos22Ok f cov c1 c2 adjust) (swallow : Bool) (fuel : Nat)
    (hfuel : tokCount ((newExplainer f).subtable false (.gpos2_2 cov c1 c2 adjust)) + 4 < fuel) :
    Frag (gpos2Sub f fuel)
      ((newExplainer f).subtable false (.gpos2_2 cov c1 c2 adjust) ++ (if swallow then [eolP] else []))
      (normSub (.gpos2_2 cov c1 c2 adjust))
      (fun t => swallow = true ∨ [tEOL].contains t.typ = false) anyNext := by
  obtain ⟨hasc, hcov, hc1, hc2, hrows, hcells⟩ := h
  have hn1 := numClasses_pos c1
  cases hadj : adjust with
  | nil => rw [hadj] at hrows; simp at hrows; omega
  | cons r0 more =>
    rw [hadj] at hrows hcells
    have hpiecesG : ∀ sw : Bool, (newExplainer f).subtable false (.gpos2_2 cov c1 c2 (r0 :: more)) ++ (if sw = true then [eolP] else []) =
        .tok tSlash (ascii [47]) :: ((newExplainer f).writeGlyphList cov ++ ([.tok tSlash (ascii [47])] ++ ([.tok tEOL (ascii [10])] ++ (.ws [a1 9] :: ([tk tIdentifier kwFirst] ++ (((newExplainer f).classList c1 ++ [semiP]) ++ ([.tok tEOL (ascii [10])] ++ (.ws [a1 9] :: ([tk tIdentifier kwSecond] ++ (((newExplainer f).classList c2 ++ [semiP]) ++ ([.tok tEOL (ascii [10])] ++ (.ws [a1 9] :: ((cellsP r0 ++ ([semiP] ++ (restRows more ++ (if sw = true then [eolP] else [])))) ++ []))))))))))))) := by
      intro sw
      simp [Explainer.subtable, eolP, tab, tk, semiP, restRows, cellsP, List.flatMap_def]
    have hpieces := hpiecesG swallow
    have hcount : tokCount ((newExplainer f).subtable false (.gpos2_2 cov c1 c2 (r0 :: more))) =
        tokCount ((newExplainer f).writeGlyphList cov) + tokCount ((newExplainer f).classList c1) +
        tokCount ((newExplainer f).classList c2) + tokCount (cellsP r0 ++ ([semiP] ++ restRows more)) + 9 := by
      have := congrArg tokCount (hpiecesG false)
      simp only [Bool.false_eq_true, if_false, List.append_nil] at this
      rw [this]
      simp [tokCount_append, tokCount, tk, semiP]
      omega
    rw [hadj] at hfuel
    rw [hcount] at hfuel
    rw [hpieces]
    obtain ⟨n, rfl⟩ : ∃ n, fuel = n + 1 := ⟨fuel - 1, by omega⟩
    obtain ⟨hf1a, hf1b, hf1c⟩ := classGlyphs_facts f c1 hc1
    obtain ⟨hf2a, hf2b, hf2c⟩ := classGlyphs_facts f c2 hc2
    have hcl1 := classList_counts f c1 (fun gg hgg => (hf1a gg hgg).1)
    have hcl2 := classList_counts f c2 (fun gg hgg => (hf2a gg hgg).1)
    obtain ⟨tbl1, hs1, hnc1, hfr1⟩ := frag_classTable f hf c1 hc1 (n + 1) n
      ⟨by omega, fun gg hgg => by have := hcl1.2 gg hgg; omega⟩
    obtain ⟨tbl2, hs2, hnc2, hfr2⟩ := frag_classTable f hf c2 hc2 (n + 1) n
      ⟨by omega, fun gg hgg => by have := hcl2.2 gg hgg; omega⟩
    unfold gpos2Sub
    refine frag_peek_then _ _ _ _ _ _ _ (fun line => ?_)
    simp only [beq_self_eq_true, if_true]
    refine frag_then (a := [.tok tSlash (ascii [47])]) (fragU_required tSlash (ascii [47]) anyNext (fun nx _ => slash_tokOk nx)
      (tk_canon tSlash _ (by decide))) ?_ (fun _ _ => trivial) (fun _ _ _ => trivial)
    refine frag_bind (frag_glyphList f hf cov hcov (n + 1) (by omega)) ?_ (fun nx _ => by
        have : ∀ X : List Piece, nextRune ([Piece.tok tSlash (ascii [47])] ++ X) nx = some 47 := by
          intro X; simp [nextRune, render, ascii, Piece.rbs]
        rw [this]; exact safe_slash)
      (fun line t _ => by simp [mkToks, glyphItem, tSlash, tIdentifier, tString, tInteger, tHyphen])
    refine frag_then (fragU_required tSlash (ascii [47]) anyNext (fun nx _ => slash_tokOk nx)
      (tk_canon tSlash _ (by decide))) ?_ (fun _ _ => trivial) (fun _ _ _ => trivial)
    have hy := (frag_optional_yes [tEOL] tEOL (ascii [10]) anyNext (by decide)
      (fun nx _ => eol_tokOk nx) (tk_canon tEOL _ (by decide))).toU
    refine frag_then hy ?_ (fun _ _ => trivial) (fun _ _ _ => trivial)
    apply frag_ws [a1 9] ws_tab
    refine frag_then (fragU_reqIdent kwFirst (by decide) first_lower) ?_ (fun nx _ r hr => by
        simp only [List.append_assoc, List.singleton_append] at hr
        exact classList_next f c1 _ nx r hr) (fun _ _ _ => trivial)
    refine frag_bind hfr1 ?_ (fun _ _ => trivial) (fun _ _ _ => trivial)
    refine frag_then hy ?_ (fun _ _ => trivial) (fun _ _ _ => trivial)
    apply frag_ws [a1 9] ws_tab
    refine frag_then (fragU_reqIdent kwSecond (by decide) second_lower) ?_ (fun nx _ r hr => by
        simp only [List.append_assoc, List.singleton_append] at hr
        exact classList_next f c2 _ nx r hr) (fun _ _ _ => trivial)
    refine frag_bind hfr2 ?_ (fun _ _ => trivial) (fun _ _ _ => trivial)
    refine frag_then hy ?_ (fun _ _ => trivial) (fun _ _ _ => trivial)
    apply frag_ws [a1 9] ws_tab
    have hrowsF := frag_adjustRows (n + 1) (by omega) (numClasses c2) (numClasses_pos c2) swallow more r0 hcells
    have hk : numClasses tbl1 = more.length + 1 := by rw [hnc1]; simpa using hrows.symm
    rw [hnc2, hk]
    refine frag_bind hrowsF ?_ (fun _ _ => trivial) (fun line t ht => by simpa [mkToks] using ht)
    rw [hs1, hs2, sortUnique_asc cov hasc]
    simp only [normSub]
    exact frag_weaken (frag_pure _ _) (fun _ _ => trivial) (fun _ _ => trivial)

end SfntV.Dsl
