/-
C02 (decoders are total), group `chainctx`: non-vacuity examples, the `inputGlyphCount = 0`
finding as a theorem (the uint16 wrap accepts a 65535-entry input), and the aliasing witness of
format 3.
-/
import SfntV.Proofs.TotalChainCtxCost

namespace SfntV.Total.ChainCtx
open SfntV SfntV.Total SfntV.Total.Gdef SfntV.Total.Otl

/-! ## non-vacuity: concrete valid subtables decode -/

def hexB (s : String) : Bytes := (fromHex s).getD []

/-- format 1: coverage {5, 9}; set 0 = one rule (backtrack [20], no input, no lookahead, one action
(1, 2)); set 1 = no rules -/
def ex1 : Bytes := hexB "0001000a00020012002400010002000500090001000400010014000100000001000100020000"

example : (read1 ex1 0).isOk = true := by decide
example : (readChained ex1 0).isOk = true := by decide

/-- format 2: coverage {5, 9}, three class tables {1-3 ↦ 1, 7-9 ↦ 2}, three rule-set offsets -/
def ex2 : Bytes := hexB "00020012001a002a003a0003004a005c000000010002000500090002000200010003000100070009000200020002000100030001000700090002000200020001000300010007000900020001000400010014000100000001000100020000"

example : (read2 ex2 0).isOk = true := by decide +kernel

/-- format 3: no backtrack, one input coverage {1, 2, 3}, no lookahead, one action (0, 1) -/
def ex3 : Bytes := hexB "0003000000010010000000010000000100010003000100020003"

example : (read3 ex3 0).isOk = true := by decide
example : (read3 (0xec :: ex3) 1).isOk = true := by decide

/-! ## `inputGlyphCount = 0`: the uint16 subtraction wraps, 65535 input entries are read -/

theorem readU16_of_drop {site : String} {b : Bytes} {q : Nat} {x y : UInt8} {rest : Bytes}
    (h : b.drop q = x :: y :: rest) : readU16 site b q = .ok (be x y) := by
  rw [readU16_eq]
  unfold wordAt
  rw [h]

theorem wordsLoop_zeros (site : String) (b : Bytes) (post : Bytes) : ∀ (n q : Nat) (acc : List Nat)
    (c : Cost), b.drop q = List.replicate (2 * n) (0 : UInt8) ++ post →
    wordsLoop site b n q acc c = .ok (acc.reverse ++ List.replicate n 0, ⟨c.steps + n, c.alloc⟩)
  | 0, _, acc, c, _ => by
    unfold wordsLoop
    simp
  | n+1, q, acc, c, h => by
    unfold wordsLoop
    have h2 : 2 * (n + 1) = (2 * n + 1) + 1 := by omega
    rw [h2, List.replicate_succ, List.replicate_succ, List.cons_append, List.cons_append] at h
    rw [readU16_of_drop h, ok_bind]
    have h3 : b.drop (q + 2) = List.replicate (2 * n) (0 : UInt8) ++ post := by
      rw [← List.drop_drop, h]
      simp only [List.drop_succ_cons, List.drop_zero]
    rw [wordsLoop_zeros site b post n (q + 2) _ _ h3]
    have hbe : be 0 0 = 0 := by decide
    rw [hbe, List.reverse_cons, List.append_assoc, List.singleton_append, ← List.replicate_succ]
    simp only [Cost.tick]
    have : c.steps + 1 + n = c.steps + (n + 1) := by omega
    rw [this]

theorem readSlice_zero {tag : String} {b : Bytes} {q : Nat} {c : Cost}
    (h : readU16 (tag ++ "#ReadUint16(count)") b q = .ok 0) :
    readSlice tag b q c = .ok ([], q + 2 + 2 * 0, (c.tick).mem 0) := by
  unfold readSlice
  rw [h, ok_bind, mkSlice_ok _ _ _ (by omega), ok_bind]
  unfold wordsLoop
  rfl

theorem readNested_zero (b : Bytes) (q : Nat) (c : Cost) : readNested b q 0 c = .ok ([], c.mem 0) := by
  unfold readNested
  rw [mkSlice_ok _ _ _ (by omega), ok_bind]
  unfold nestedLoop
  rfl

theorem zero_count_aux (N : Nat) (hN : (0 + 65535) % 65536 = N) (S : RuleSites) (b : Bytes) (q : Nat) (c : Cost) (post : Bytes)
    (h : b.drop q = [0, 0, 0, 0] ++ (List.replicate (2 * N) (0 : UInt8) ++ (0 :: 0 :: 0 :: 0 :: post))) :
    ∃ c', readCRuleOld S b q c = .ok (⟨[], List.replicate N 0, [], []⟩, c') ∧
      c'.alloc = c.alloc + N + 1 := by
  have hbe : be 0 0 = 0 := by decide
  have h0 : readU16 (S.back ++ "#ReadUint16(count)") b q = .ok 0 := by
    rw [readU16_of_drop (x := 0) (y := 0) h, hbe]
  have h1 : readU16 S.count b (q + 2) = .ok 0 := by
    have : b.drop (q + 2) = 0 :: 0 :: (List.replicate (2 * N) (0 : UInt8) ++ (0 :: 0 :: 0 :: 0 :: post)) := by
      rw [← List.drop_drop, h]; rfl
    rw [readU16_of_drop this, hbe]
  have h2 : b.drop (q + 2 + 2) = List.replicate (2 * N) (0 : UInt8) ++ (0 :: 0 :: 0 :: 0 :: post) := by
    rw [show q + 2 + 2 = q + 4 by omega, ← List.drop_drop, h]; rfl
  have hd : ∀ k, b.drop (q + 2 + 2 + 2 * N + k) = (0 :: 0 :: 0 :: 0 :: post).drop k := by
    intro k
    rw [show q + 2 + 2 + 2 * N + k = (q + 2 + 2) + (2 * N + k) by omega, ← List.drop_drop, h2,
      ← List.drop_drop, List.drop_left' (List.length_replicate ..)]
  have h3 : readU16 (S.look ++ "#ReadUint16(count)") b (q + 2 + 2 + 2 * N) = .ok 0 := by
    have := hd 0
    rw [Nat.add_zero, List.drop_zero] at this
    rw [readU16_of_drop this, hbe]
  have h4 : readU16 S.nact b (q + 2 + 2 + 2 * N + 2) = .ok 0 := by
    have := hd 2
    rw [readU16_of_drop (x := 0) (y := 0) (rest := post) this, hbe]
  refine ⟨⟨c.steps + N + 4, c.alloc + N + 1⟩, ?_, rfl⟩
  unfold readCRuleOld readCRuleG
  rw [readSlice_zero h0, ok_bind]
  dsimp only
  rw [h1, ok_bind, if_neg (by decide)]
  have hlt : N < 65536 := by omega
  rw [hN, mkSlice_ok _ _ _ hlt, ok_bind, wordsLoop_zeros S.input b _ N (q + 2 + 2) [] _ h2, ok_bind]
  dsimp only
  rw [readSlice_zero h3, ok_bind]
  dsimp only
  rw [h4, ok_bind, readNested_zero, ok_bind]
  simp only [Cost.tick, Cost.mem, List.reverse_nil, List.nil_append]
  have e1 : c.steps + 1 + 1 + N + 1 + 1 = c.steps + N + 4 := by omega
  have e2 : c.alloc + 0 + N + 0 + 0 + 1 = c.alloc + N + 1 := by omega
  rw [e1, e2]
  rfl

/-- FINDING C02-zero-count (BEFORE the repair, `readCRuleOld`): a chained rule whose
`inputGlyphCount` word is 0 was ACCEPTED with 65535 input entries whenever 131070 bytes follow
(`inputGlyphCount-1` in uint16, no zero check) — here the rule
`00 00 | 00 00 | 65535 × 00 00 | 00 00 | 00 00` (no backtrack, count 0, 65535 zero glyphs, no
lookahead, no actions) anywhere in any data, for both formats.  Confirmed on the code before the
repair (V line `igc0-full`: `ok:c1|…|bi#65535~…la`).  The code as it is now refuses the count:
`chained_zero_count_rejected`. -/
theorem chained1_zero_count_accepted (S : RuleSites) (b : Bytes) (q : Nat) (c : Cost) (post : Bytes)
    (h : b.drop q = [0, 0, 0, 0] ++ (List.replicate (2 * 65535) (0 : UInt8) ++ (0 :: 0 :: 0 :: 0 :: post))) :
    ∃ c', readCRuleOld S b q c = .ok (⟨[], List.replicate 65535 0, [], []⟩, c') ∧
      c'.alloc = c.alloc + 65535 + 1 :=
  zero_count_aux 65535 (by decide) S b q c post h

/-- AFTER the repair (nested.go:742, 1079): a rule whose `inputGlyphCount` word is 0 is refused as
invalid, whatever follows it, in both formats -/
theorem chained_zero_count_rejected (S : RuleSites) (b : Bytes) (q : Nat) (c : Cost)
    (back : List Nat) (q' : Nat) (c' : Cost) (h1 : readSlice S.back b q c = .ok (back, q', c'))
    (h2 : readU16 S.count b q' = .ok 0) : readCRule S b q c = .err "invalid" := by
  unfold readCRule readCRuleG
  rw [h1, ok_bind]
  dsimp only
  rw [h2, ok_bind, if_pos ⟨rfl, rfl⟩]

/-- the same on the concrete rule of `chained1_zero_count_accepted` -/
theorem chained_zero_count_rejected' (S : RuleSites) (b : Bytes) (q : Nat) (c : Cost) (rest : Bytes)
    (h : b.drop q = 0 :: 0 :: 0 :: 0 :: rest) : readCRule S b q c = .err "invalid" := by
  have hbe : be 0 0 = 0 := by decide
  have h0 : readU16 (S.back ++ "#ReadUint16(count)") b q = .ok 0 := by
    rw [readU16_of_drop (x := 0) (y := 0) h, hbe]
  refine chained_zero_count_rejected S b q c [] _ _ (readSlice_zero h0) ?_
  have : b.drop (q + 2 + 2 * 0) = 0 :: 0 :: rest := by
    rw [show q + 2 + 2 * 0 = q + 2 by omega, ← List.drop_drop, h]; rfl
  rw [readU16_of_drop this, hbe]

/-! ## format 3: aliased coverage offsets are decoded once per offset -/

/-- WITNESS (loop level): `k` coverage offsets that all point at ONE table cost `k` times that
table — `k·cs.alloc` map entries (up to 131072 each) for `2·k` bytes of offsets. -/
theorem covSetsLoop_alias (site : String) (b : Bytes) (pos n o : Nat) (s : List Nat) (cs : Cost)
    (hs : readSet b (pos + o) = .ok (s, cs)) : ∀ (k i : Nat) (acc : List (List Nat)) (c : Cost),
    i + k ≤ n → ∃ r c', covSetsLoop site b pos n (List.replicate k o) i acc c = .ok (r, c') ∧
      r.length = acc.length + k ∧ c'.alloc = c.alloc + k * cs.alloc ∧
      c'.steps = c.steps + k * (1 + cs.steps)
  | 0, i, acc, c, _ => by
    refine ⟨acc.reverse, c, ?_, by simp, by simp, by simp⟩
    unfold covSetsLoop
    rfl
  | k+1, i, acc, c, hi => by
    obtain ⟨r, c', h, hl, ha, hst⟩ := covSetsLoop_alias site b pos n o s cs hs k (i + 1) (s :: acc)
      (Cost.add c.tick cs) (by omega)
    refine ⟨r, c', ?_, ?_, ?_, ?_⟩
    · rw [List.replicate_succ]
      unfold covSetsLoop
      rw [hs, ok_bind]
      dsimp only
      rw [chkIdx_ok _ _ _ (by omega), ok_bind]
      exact h
    · simp only [List.length_cons] at hl; omega
    · simp only [Cost.add, Cost.tick] at ha
      rw [ha, Nat.succ_mul]; omega
    · simp only [Cost.add, Cost.tick] at hst
      rw [hst, Nat.succ_mul]; omega

/-! ## the dispatch key collision (finding C02-dispatch-key) and its repair -/

/-- the error class of an outcome -/
def errOf : Outcome α → Option String
  | .err e => some e
  | _ => none

/-- BEFORE the repair: for lookup type 6 the format words 21 and 0xFFCF had the uint16 keys 81
(`readGsub8_1`) and 11 (`readGsub1_1`): the dispatcher ran a reader of another lookup type -/
theorem readChainedOld_collision :
    errOf (readChainedOld (hexB "0015000a00000000") 0) = some "other-reader" ∧
    errOf (readChainedOld (hexB "ffcf000600050001") 0) = some "other-reader" := by
  decide +kernel

/-- AFTER the repair (gsub.go:42) both are refused as invalid -/
theorem readChained_collision_refused :
    errOf (readChained (hexB "0015000a00000000") 0) = some "invalid" ∧
    errOf (readChained (hexB "ffcf000600050001") 0) = some "invalid" := by
  decide +kernel

end SfntV.Total.ChainCtx
