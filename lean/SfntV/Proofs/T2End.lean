/-
The only normal exit of the Type 2 interpreter is an executed `endchar` (C05, "missing endchar").
-/
import SfntV.Proofs.T2Calls

set_option linter.unusedSimpArgs false
set_option linter.unusedVariables false

namespace SfntV.T2
open SfntV

theorem exec_done (q : Quirks) (env : Env) (s s' : St) (op : Op) (code : List Nat)
    (h : exec q env s op code = .ok (.done s')) : op = .endchar := by
  cases op
  case endchar => rfl
  case rlineto | hlineto | vlineto | rrcurveto | rcurveline | rlinecurve | hhcurveto | vvcurveto | hvcurveto
     | vhcurveto | flex | flex1 | hflex | hflex1 =>
    exfalso
    simp only [exec, pathOp] at h
    repeat' split at h
    all_goals cases h
  all_goals
    exfalso
    simp only [exec] at h
    repeat' split at h
    all_goals cases h

theorem opTable_endchar : ∀ pr ∈ opTable, pr.2 = Op.endchar → pr.1 = 14 := by decide

theorem opOfCode_endchar (n : Nat) (h : opOfCode n = some .endchar) : n = 14 := by
  unfold opOfCode at h
  cases hf : opTable.find? (fun p => p.1 == n) with
  | none => rw [hf] at h; cases h
  | some pr =>
    rw [hf] at h
    simp only [Option.map_some, Option.some.injEq] at h
    have hm := List.mem_of_find?_eq_some hf
    have hp := List.find?_some hf
    simp only [beq_iff_eq] at hp
    rw [← hp]
    exact opTable_endchar pr hm h

/-- a step that ends the glyph executes the operator byte 14 (`endchar`) -/
theorem step_done (q : Quirks) (env : Env) (s s' : St) (c : List Nat)
    (h : T2.step q env s c = .ok (.done s')) : ∃ rest, c = 14 :: rest := by
  cases c with
  | nil => simp [T2.step] at h
  | cons b0 rest =>
    simp only [T2.step, pushNum] at h
    repeat' split at h
    all_goals first
      | (cases h; done)
      | (rename_i op hop
         have hx := exec_done _ _ _ _ _ _ (checkMove_ok _ _ h)
         subst hx
         have := opOfCode_endchar _ hop
         first
           | (exfalso; omega)
           | exact ⟨_, by rw [this]⟩)

/-- if the loop ends the glyph, some step did (here or inside the subroutine handler) -/
theorem loop_done (q : Quirks) (env : Env) (call : St → Bool → Int → Outcome Fin) (f : Nat) :
    ∀ (s : St) (c : List Nat) (s2 : St), loop q env call f s c = .ok (.done s2) →
      (∃ s1 c1, T2.step q env s1 c1 = .ok (.done s2)) ∨ (∃ s' g b, call s' g b = .ok (.done s2)) := by
  induction f with
  | zero => intro s c s2 h; simp [loop] at h
  | succ f ih =>
    intro s c s2 h
    cases c with
    | nil =>
      simp only [loop] at h
      split at h <;> cases h
    | cons b rest =>
      simp only [loop] at h
      cases hst : T2.step q env s (b :: rest) with
      | err e => rw [hst] at h; cases h
      | panic p => rw [hst] at h; cases h
      | ok r =>
        rw [hst] at h
        cases r with
        | cont s' c' => exact ih s' c' s2 h
        | call s' rest' g bi =>
          simp only at h
          cases hc : call s' g bi with
          | err e => rw [hc] at h; cases h
          | panic p => rw [hc] at h; cases h
          | ok fin =>
            rw [hc] at h
            cases fin with
            | ret s'' => exact ih s'' rest' s2 h
            | done s'' =>
              simp only [Outcome.ok.injEq, Fin.done.injEq] at h
              subst h
              exact Or.inr ⟨s', g, bi, hc⟩
        | ret s' => cases h
        | done s' =>
          simp only [Outcome.ok.injEq, Fin.done.injEq] at h
          subst h
          exact Or.inl ⟨s, b :: rest, hst⟩

theorem runAt_done (q : Quirks) (env : Env) (d : Nat) :
    ∀ (s : St) (c : List Nat) (s2 : St), runAt q env d s c = .ok (.done s2) →
      ∃ s1 c1, T2.step q env s1 c1 = .ok (.done s2) := by
  induction d with
  | zero =>
    intro s c s2 h
    rw [runAt_eq] at h
    rcases loop_done q env _ _ s c s2 h with h1 | ⟨s', g, b, h2⟩
    · exact h1
    · cases h2
  | succ d ih =>
    intro s c s2 h
    rw [runAt_eq] at h
    rcases loop_done q env _ _ s c s2 h with h1 | ⟨s', g, b, h2⟩
    · exact h1
    · have h2' : (match getSubr (if g = true then env.gsubrs else env.subrs) b with
          | .ok body => runAt q env d s' body
          | .err e => .err e
          | .panic p => .panic p) = .ok (.done s2) := h2
      cases hg : getSubr (if g = true then env.gsubrs else env.subrs) b with
      | ok body => rw [hg] at h2'; exact ih s' body s2 h2'
      | err e => rw [hg] at h2'; cases h2'
      | panic p => rw [hg] at h2'; cases h2'

/-- The interpreter returns a glyph only if an `endchar` operator (byte 14) was executed, in the main
program or in a subroutine: running out of code, a top-level `return`, and a subroutine body running
off its end are never a normal exit — for every quirk setting, program and subroutine tables. -/
theorem ok_only_by_endchar (q : Quirks) (env : Env) (code : List Nat) (g : Glyph)
    (h : interp q env code = .ok g) :
    ∃ s1 rest s2, T2.step q env s1 (14 :: rest) = .ok (.done s2) ∧ g = s2.glyph := by
  unfold interp interpSt at h
  cases hr : runAt q env Gen.t2callDepth (St.init env) code with
  | err e => rw [hr] at h; cases h
  | panic p => rw [hr] at h; cases h
  | ok fin =>
    rw [hr] at h
    cases fin with
    | ret s => cases h
    | done s2 =>
      simp only [Outcome.ok.injEq] at h
      obtain ⟨s1, c1, hs⟩ := runAt_done q env _ _ _ _ hr
      obtain ⟨rest, hc⟩ := step_done q env s1 s2 c1 hs
      subst hc
      exact ⟨s1, rest, s2, hs, h.symm⟩

/-- running out of code at top level (or a top-level `return`): the result is the error "incomplete" -/
theorem top_level_ret (q : Quirks) (env : Env) (code : List Nat) (s : St)
    (h : runAt q env Gen.t2callDepth (St.init env) code = .ok (.ret s)) :
    interp q env code = .err "incomplete" := by
  unfold interp interpSt
  rw [h]

end SfntV.T2
