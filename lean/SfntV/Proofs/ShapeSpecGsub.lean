/-
C06: the GSUB subtables 1.1, 1.2, 2.1, 3.1 and 4.1 of the engine model agree with the
reference semantics (`SubEq` of ShapeSpecBase.lean).
-/
import SfntV.Proofs.ShapeSpecBase

namespace SfntV.Spec.Shape
open SfntV SfntV.Shape

/-! ## the sequence around the current glyph -/

private theorem seq_eq (pre : List TG) (cur : TG) (post : List TG) :
    gl (pre.reverse ++ cur :: post) = (gl pre).reverse ++ cur.g :: gl post := by
  simp [gl_reverse]

private theorem seq_get (pre : List TG) (cur : TG) (post : List TG) :
    (gl (pre.reverse ++ cur :: post))[pre.length]? = some cur.g := by
  rw [seq_eq]
  have h : pre.length = (gl pre).reverse.length := by simp
  rw [h, List.getElem?_append_right (Nat.le_refl _)]
  simp

private theorem seq_idx (site : String) (pre : List TG) (cur : TG) (post : List TG) :
    idx site (gl (pre.reverse ++ cur :: post)) pre.length = .ok cur.g := by
  unfold idx
  rw [seq_get]

private theorem seq_take (pre : List TG) (cur : TG) (post : List TG) :
    (gl (pre.reverse ++ cur :: post)).take pre.length = (gl pre).reverse := by
  rw [seq_eq]
  have h : pre.length = (gl pre).reverse.length := by simp
  rw [h, List.take_left]

private theorem seq_drop (pre : List TG) (cur : TG) (post : List TG) :
    (gl (pre.reverse ++ cur :: post)).drop (pre.length + 1) = gl post := by
  rw [seq_eq]
  have h : pre.length = (gl pre).reverse.length := by simp
  rw [h, List.drop_append]
  simp

private theorem seq_set (pre : List TG) (cur : TG) (post : List TG) (g' : Glyph) :
    (gl (pre.reverse ++ cur :: post)).set pre.length g' = (gl pre).reverse ++ g' :: gl post := by
  rw [set_eq (seq_get pre cur post), seq_take, seq_drop]

private theorem seq_len (pre : List TG) (cur : TG) (post : List TG) :
    (gl (pre.reverse ++ cur :: post)).length = pre.length + 1 + post.length := by
  simp; omega

/-! ## GSUB 1.1, 1.2, 2.1, 3.1 -/

theorem subEq_gsub11 (kp : Nat → Bool) (gd : Gdef) (pre : List TG) (cur : TG) (post : List TG)
    (cov : GSet) (delta : Nat) (h : setOk cov = true) :
    SubEq kp gd pre cur post (.gsub11 cov delta) := by
  unfold SubEq
  simp only [matchSub, applySub, seq_idx, bind_ok_eq, setHas_eq_setVal h]
  cases hv : setVal cov cur.g.gid
  · simp [pure, Except.pure]
  · simp [pure, Except.pure, TG.withGid, gl_reverse]

theorem subEq_gsub12 (kp : Nat → Bool) (gd : Gdef) (pre : List TG) (cur : TG) (post : List TG)
    (cov : Cov) (subst : List Nat) :
    SubEq kp gd pre cur post (.gsub12 cov subst) := by
  unfold SubEq
  simp only [matchSub, applySub, seq_idx, bind_ok_eq]
  cases hc : covGet cov cur.g.gid with
  | none => simp [pure, Except.pure]
  | some i =>
    cases hs : subst[i]? with
    | none => simp [need, undef, bind, Except.bind, hs]
    | some n =>
      simp [need, pure, Except.pure, bind, Except.bind, idx, hs, TG.withGid, gl_reverse]

theorem subEq_gsub31 (kp : Nat → Bool) (gd : Gdef) (pre : List TG) (cur : TG) (post : List TG)
    (cov : Cov) (alts : List (List Nat)) :
    SubEq kp gd pre cur post (.gsub31 cov alts) := by
  unfold SubEq
  simp only [matchSub, applySub, seq_idx, bind_ok_eq]
  cases hc : covGet cov cur.g.gid with
  | none => simp [pure, Except.pure]
  | some i =>
    cases hs : alts[i]? with
    | none => simp [need, undef, bind, Except.bind, hs]
    | some alt =>
      cases alt with
      | nil => simp [need, pure, Except.pure, bind, Except.bind, idx, hs]
      | cons n ns =>
        simp [need, pure, Except.pure, bind, Except.bind, idx, hs, TG.withGid, gl_reverse]

theorem subEq_gsub21 (kp : Nat → Bool) (gd : Gdef) (pre : List TG) (cur : TG) (post : List TG)
    (cov : Cov) (repl : List (List Nat)) :
    SubEq kp gd pre cur post (.gsub21 cov repl) := by
  unfold SubEq
  simp only [matchSub, applySub, seq_idx, bind_ok_eq, seq_take, seq_drop]
  cases hc : covGet cov cur.g.gid with
  | none => simp [pure, Except.pure]
  | some i =>
    cases hs : repl[i]? with
    | none => simp [need, undef, bind, Except.bind, hs]
    | some rp =>
      cases rp with
      | nil => simp [need, undef, pure, Except.pure, bind, Except.bind, hs]
      | cons r0 rs =>
        simp [need, pure, Except.pure, bind, Except.bind, idx, hs, TG.withGid, gl]

/-! ## GSUB 4.1 -/

/-- position behind the last matched glyph, `i` when nothing was matched -/
private def endAt (i : Nat) (offs : List Nat) : Nat :=
  match offs.getLast? with
  | some o => o + 1
  | none => i

private theorem endAt_zero (offs : List Nat) : endAt 0 offs = usedLen offs := rfl

private theorem endAt_cons (i j : Nat) (offs : List Nat) : endAt j (i :: offs) = endAt (i + 1) offs := by
  unfold endAt
  rw [List.getLast?_cons]
  cases offs.getLast? <;> rfl

private theorem endAt_ne (i j : Nat) {offs : List Nat} (h : offs ≠ []) : endAt i offs = endAt j offs := by
  cases offs with
  | nil => exact absurd rfl h
  | cons o os => rw [endAt_cons, endAt_cons]

/-- the component loop of the engine on the glyphs behind the current one, with the limit at
the end of the sequence, against the reference matching of the component patterns -/
private theorem matchComps_ref (kp : Nat → Bool) : ∀ (post : List TG) (comps : List Nat) (p i : Nat),
    match matchSeq kp (comps.map fun c g => g == c) post i with
    | none => matchComps kp comps (gl post) p ((p : Int) + (post.length : Int)) = .ok none
    | some offs => ∃ u ps, endAt i offs = i + u ∧ (comps ≠ [] → offs ≠ []) ∧
        matchComps kp comps (gl post) p ((p : Int) + (post.length : Int)) =
          .ok (some (ps, ((post.take u).filter fun t => kp t.g.gid).flatMap (fun t => t.g.text),
            gl ((post.take u).filter fun t => !kp t.g.gid), gl (post.drop u))) := by
  intro post
  induction post with
  | nil =>
    intro comps p i
    cases comps with
    | nil => exact ⟨0, [], rfl, fun h => absurd rfl h, rfl⟩
    | cons c cs => simp [matchSeq, matchComps]
  | cons t ts ih =>
    intro comps p i
    cases comps with
    | nil => exact ⟨0, [], rfl, fun h => absurd rfl h, rfl⟩
    | cons c cs =>
      have hb : (p : Int) + ((t :: ts).length : Int) = ((p + 1 : Nat) : Int) + (ts.length : Int) := by
        simp only [List.length_cons]; omega
      have hlt : ¬ ((p : Int) ≥ ((p + 1 : Nat) : Int) + (ts.length : Int)) := by omega
      rw [hb]
      simp only [List.map_cons, matchSeq, gl_cons, matchComps, hlt, if_false]
      by_cases hk : kp t.g.gid = true
      · simp only [hk, if_true]
        by_cases hc : t.g.gid = c
        · have hc' : (t.g.gid == c) = true := by simp [hc]
          simp only [hc, if_true]
          have ih1 := ih cs (p + 1) (i + 1)
          cases hm : matchSeq kp (cs.map fun c g => g == c) ts (i + 1) with
          | none =>
            rw [hm] at ih1
            simp only [BEq.rfl, if_true, Option.map_none, ih1, bind_ok_eq]
          | some offs =>
            rw [hm] at ih1
            obtain ⟨u, ps, hu, _, he⟩ := ih1
            simp only [BEq.rfl, if_true, Option.map_some, he, bind_ok_eq]
            refine ⟨u + 1, p :: ps, ?_, fun _ => List.cons_ne_nil _ _, ?_⟩
            · rw [endAt_cons, hu]; omega
            · simp [List.take_succ_cons, hk]
        · have hc' : (t.g.gid == c) = false := by simp [hc]
          simp [hc, hc']
      · have hk' : kp t.g.gid = false := by simpa using hk
        simp only [hk', Bool.false_eq_true, if_false]
        have ih1 := ih (c :: cs) (p + 1) (i + 1)
        simp only [List.map_cons] at ih1
        cases hm : matchSeq kp ((fun g => g == c) :: cs.map fun c g => g == c) ts (i + 1) with
        | none =>
          rw [hm] at ih1
          simp only [ih1, bind_ok_eq]
        | some offs =>
          rw [hm] at ih1
          obtain ⟨u, ps, hu, hne, he⟩ := ih1
          simp only [he, bind_ok_eq]
          refine ⟨u + 1, ps, ?_, hne, ?_⟩
          · rw [endAt_ne i (i + 1) (hne (List.cons_ne_nil _ _)), hu]; omega
          · simp [List.take_succ_cons, hk']

/-- the ligature loop of the engine against the head of the reference's candidate list -/
private theorem firstLig_ref (kp : Nat → Bool) (post : List TG) (a : Nat) : ∀ (set : List Lig),
    match set.filterMap fun (l : Lig) =>
        (matchSeq kp (l.comps.map fun c g => g == c) post 0).map fun offs => (l, usedLen offs) with
    | [] => firstLig kp (gl post) a (((a + 1 : Nat) : Int) + (post.length : Int)) set = .ok none
    | (l, u) :: _ => ∃ ps,
        firstLig kp (gl post) a (((a + 1 : Nat) : Int) + (post.length : Int)) set =
          .ok (some (l, ps, ((post.take u).filter fun t => kp t.g.gid).flatMap (fun t => t.g.text),
            gl ((post.take u).filter fun t => !kp t.g.gid), gl (post.drop u))) := by
  intro set
  induction set with
  | nil => simp [firstLig]
  | cons l ls ih =>
    have h := matchComps_ref kp post l.comps (a + 1) 0
    simp only [List.filterMap_cons, firstLig]
    cases hm : matchSeq kp (l.comps.map fun c g => g == c) post 0 with
    | none =>
      rw [hm] at h
      simp only [Option.map_none, h, bind_ok_eq]
      exact ih
    | some offs =>
      rw [hm] at h
      obtain ⟨u, ps, hu, _, he⟩ := h
      rw [endAt_zero, Nat.zero_add] at hu
      simp only [Option.map_some, he, bind_ok_eq, hu]
      exact ⟨ps, rfl⟩

theorem subEq_gsub41 (kp : Nat → Bool) (gd : Gdef) (pre : List TG) (cur : TG) (post : List TG)
    (cov : Cov) (ligs : List (List Lig)) :
    SubEq kp gd pre cur post (.gsub41 cov ligs) := by
  unfold SubEq
  simp only [matchSub, applySub, seq_idx, bind_ok_eq, seq_take, seq_drop, List.take_length]
  cases hc : covGet cov cur.g.gid with
  | none => simp [pure, Except.pure]
  | some i =>
    cases hs : ligs[i]? with
    | none => simp [need, undef, bind, Except.bind, hs]
    | some set =>
      have hlen : (((gl (pre.reverse ++ cur :: post)).length : Nat) : Int)
          = ((pre.length + 1 : Nat) : Int) + (post.length : Int) := by
        rw [seq_len]; omega
      have h := firstLig_ref kp post pre.length set
      simp only [need, pure, Except.pure, bind, Except.bind, idx, hs, hlen]
      generalize (set.filterMap fun (l : Lig) =>
        (matchSeq kp (l.comps.map fun c g => g == c) post 0).map fun offs => (l, usedLen offs)) = cands at h
      cases cands with
      | nil =>
        simp only at h
        simp only [h]
      | cons lu tl =>
        obtain ⟨l, u⟩ := lu
        simp only at h
        obtain ⟨ps, he⟩ := h
        simp only [he]
        by_cases hu : ((post.take u).filter fun t => kp t.g.gid).all
            (fun t => t.win == cur.win && t.inp.all cur.inp.contains) = true
        · simp only [hu, if_true]
          simp [gl_reverse]
          omega
        · simp [hu, undef]

end SfntV.Spec.Shape
