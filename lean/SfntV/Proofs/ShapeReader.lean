/-
C07 ∘ C08: the hypothesis `readerShapedLL` of `C07_no_panic` is DISCHARGED for subtables that
come out of the modelled readers (C08's value-level reader models, Model/Otl*.lean), using the
reader post-conditions of Proofs/OtlCovRange.lean (exported in Props/C08 as
`C08_reader_cov_in_range_*`): whatever byte string a reader accepts, every coverage index it
delivers is inside the array it indexes.

`toShape`-style translations map C08's decoded values to the engine's `Subtable`:
coverage tables are the same association lists `List (gid × index)`; glyph sets become sets with
value `true`; ligatures, rules, actions, anchors and value records are re-packed field by field.
-/
import SfntV.Proofs.OtlCovRange
import SfntV.Proofs.ShapeSafeFull

namespace SfntV.Shape.Reader
open SfntV

/-! ## translations -/

def ligOf (l : Otl.Gsub.Lig) : Lig := ⟨l.inp, l.out⟩

/-- a 16-bit word read as `int16` -/
def toInt16 (n : Nat) : Int := if n < 32768 then (n : Int) else (n : Int) - 65536

/-- `GposValueRecord`: fields 0..2 are XPlacement, YPlacement, XAdvance; fields 3..7 (YAdvance and
the device offsets) are the ones whose application is unimplemented -/
def vrOf (vr : Otl.Gpos.VR) : Option ValueRec :=
  match vr with
  | none => none
  | some _ => some ⟨toInt16 (Otl.Gpos.field vr 0), toInt16 (Otl.Gpos.field vr 1), toInt16 (Otl.Gpos.field vr 2),
      [3, 4, 5, 6, 7].any fun k => Otl.Gpos.field vr k != 0⟩

/-- the value record only uses fields the library implements (the property's domain) -/
def vrImpl (vr : Otl.Gpos.VR) : Prop := ∀ k ∈ [3, 4, 5, 6, 7], Otl.Gpos.field vr k = 0

def anchorOf (a : Otl.GposMark.Anchor) : Anchor := ⟨toInt16 a.1, toInt16 a.2⟩
def markOf (m : Otl.GposMark.Mark) : MarkRec := ⟨m.cls, toInt16 m.anchor.1, toInt16 m.anchor.2⟩
def eeOf (e : Otl.GposMark.EntryExit) : EntryExit := ⟨anchorOf e.1, anchorOf e.2⟩

def setOf (gs : List Nat) : GSet := gs.map fun g => (g, true)
def covSetOf (cov : List (Nat × Nat)) : List Nat := cov.map (·.1)

def actionOf (a : Otl.Ctx.Action) : Action := ⟨a.1, a.2⟩
def ruleOf (r : Otl.Ctx.Rule) : Rule := ⟨r.back, r.input, r.look, r.actions.map actionOf⟩
def rulesOf (sets : List (Option (List Otl.Ctx.Rule))) : List (List Rule) :=
  sets.map fun s => (s.getD []).map ruleOf

/-- a contextual subtable as decoded by C08's readers, as a subtable of the engine.  Format 2
carries one class definition (plain) or three (chained: backtrack, input, lookahead). -/
def ctxOf : Otl.Ctx.Sub → Subtable
  | .c1 false cov sets => .ctx1 cov (rulesOf sets)
  | .c1 true cov sets => .chain1 cov (rulesOf sets)
  | .c2 false cov classes sets => .ctx2 cov (classes.getD 0 []) (rulesOf sets)
  | .c2 true cov classes sets => .chain2 cov (classes.getD 0 []) (classes.getD 1 []) (classes.getD 2 []) (rulesOf sets)
  | .c3 _ input _ acts false => .ctx3 (input.map setOf) (acts.map actionOf)
  | .c3 back input look acts true => .chain3 (back.map setOf) (input.map setOf) (look.map setOf) (acts.map actionOf)

/-- `PairAdjust` built by `readGpos2_1` / `readGpos2_2`: always a non-nil pointer -/
def pairOf (v1 v2 : Otl.Gpos.VR) : Option PairAdj := some ⟨vrOf v1, vrOf v2⟩

/-- `readGpos2_1`: the pair sets are merged into one map keyed by (first, second) glyph, a later
entry overwriting an earlier one.  The engine's association list is searched from the front, so
the coverage entries and the pairs of each set are listed in REVERSE reading order. -/
def pairsOf (cov : List (Nat × Nat)) (sets : List Otl.Gpos.PairSet) : List ((Nat × Nat) × Option PairAdj) :=
  cov.reverse.flatMap fun e => ((sets.getD e.2 []).reverse.map fun p => ((e.1, p.1), pairOf p.2.1 p.2.2))

/-- `readGpos2_2`: the class matrix, every cell a non-nil `*PairAdjust` -/
def rowsOf (rows : List Otl.GposMark.Row) : List (List (Option PairAdj)) :=
  rows.map fun r => r.map fun p => pairOf p.1 p.2

theorem covBelow_of_inRange {cov : List (Nat × Nat)} {n : Nat} (h : Otl.InRange cov n) : covBelow cov n = true := by
  unfold covBelow
  exact List.all_eq_true.mpr fun e he => by simpa using h e he

/-! ## the subtables the modelled readers deliver -/

/-- `FromReader s`: `s` is the image of a value some modelled reader returns on SOME byte string -/
inductive FromReader : Subtable → Prop
  | gsub11 (b : Bytes) (gs : List Nat) (delta : Nat) (h : Otl.Gsub.read11 b = .ok (gs, delta)) :
      FromReader (.gsub11 (setOf gs) delta)
  | gsub12 (b : Bytes) (cov : List (Nat × Nat)) (subs : List Nat) (h : Otl.Gsub.read12 b = .ok (cov, subs)) :
      FromReader (.gsub12 cov subs)
  | gsub21 (b : Bytes) (cov : List (Nat × Nat)) (seqs : List (List Nat)) (h : Otl.Gsub.readSeq b = .ok (cov, seqs)) :
      FromReader (.gsub21 cov seqs)
  | gsub31 (b : Bytes) (cov : List (Nat × Nat)) (seqs : List (List Nat)) (h : Otl.Gsub.readSeq b = .ok (cov, seqs)) :
      FromReader (.gsub31 cov seqs)
  | gsub41 (b : Bytes) (cov : List (Nat × Nat)) (repl : List (List Otl.Gsub.Lig)) (h : Otl.Gsub.read41 b = .ok (cov, repl)) :
      FromReader (.gsub41 cov (repl.map fun set => set.map ligOf))
  | gsub81 (b : Bytes) (r : Otl.Gsub.Rev81) (h : Otl.Gsub.read81 b = .ok r) :
      FromReader (.gsub81 r.input r.back r.look r.subs)
  | ctx1 (b : Bytes) (ch : Bool) (cov : List (Nat × Nat)) (sets : List (Option (List Otl.Ctx.Rule)))
      (h : Otl.Ctx.read1 b = .ok (.c1 ch cov sets)) : FromReader (ctxOf (.c1 ch cov sets))
  | chain1 (b : Bytes) (ch : Bool) (cov : List (Nat × Nat)) (sets : List (Option (List Otl.Ctx.Rule)))
      (h : Otl.Ctx.readC1 b = .ok (.c1 ch cov sets)) : FromReader (ctxOf (.c1 ch cov sets))
  | ctx2 (b : Bytes) (ch : Bool) (cov : List (Nat × Nat)) (classes : List (List (Nat × Nat)))
      (sets : List (Option (List Otl.Ctx.Rule))) (h : Otl.Ctx.read2 b = .ok (.c2 ch cov classes sets)) :
      FromReader (ctxOf (.c2 ch cov classes sets))
  | chain2 (b : Bytes) (ch : Bool) (cov : List (Nat × Nat)) (classes : List (List (Nat × Nat)))
      (sets : List (Option (List Otl.Ctx.Rule))) (h : Otl.Ctx.readC2 b = .ok (.c2 ch cov classes sets)) :
      FromReader (ctxOf (.c2 ch cov classes sets))
  | ctx3 (b : Bytes) (s : Otl.Ctx.Sub) (h : Otl.Ctx.read3 b = .ok s) : FromReader (ctxOf s)
  | chain3 (b : Bytes) (s : Otl.Ctx.Sub) (h : Otl.Ctx.readC3 b = .ok s) : FromReader (ctxOf s)
  | gpos11 (b : Bytes) (cov : List (Nat × Nat)) (vr : Otl.Gpos.VR) (h : Otl.Gpos.read11 b = .ok (cov, vr))
      (himpl : vrImpl vr) : FromReader (.gpos11 cov (vrOf vr))
  | gpos12 (b : Bytes) (cov : List (Nat × Nat)) (vrs : List Otl.Gpos.VR) (h : Otl.Gpos.read12 b = .ok (cov, vrs))
      (himpl : ∀ vr ∈ vrs, vrImpl vr) : FromReader (.gpos12 cov (vrs.map vrOf))
  | gpos21 (b : Bytes) (cov : List (Nat × Nat)) (sets : List Otl.Gpos.PairSet) (h : Otl.Gpos.read21 b = .ok (cov, sets))
      (himpl : ∀ set ∈ sets, ∀ p ∈ set, vrImpl p.2.1 ∧ vrImpl p.2.2) : FromReader (.gpos21 (pairsOf cov sets))
  | gpos22 (b : Bytes) (r : Otl.GposMark.Read22) (h : Otl.GposMark.read22 b = .ok r)
      (himpl : ∀ row ∈ r.rows, ∀ p ∈ row, vrImpl p.1 ∧ vrImpl p.2) :
      FromReader (.gpos22 (setOf r.cov) r.class1 r.class2 (rowsOf r.rows))
  | gpos31 (b : Bytes) (cov : List (Nat × Nat)) (recs : List Otl.GposMark.EntryExit)
      (h : Otl.GposMark.read31 b = .ok (cov, recs)) : FromReader (.gpos31 cov (recs.map eeOf))
  | gpos41 (b : Bytes) (r : Otl.GposMark.MarkBase) (h : Otl.GposMark.read41 b = .ok r) (gclass : ClassDef) :
      FromReader (.gpos41 r.mcov r.bcov (r.marks.map markOf) (r.bases.map fun row => row.map anchorOf) gclass)
  | gpos61 (b : Bytes) (r : Otl.GposMark.MarkBase) (h : Otl.GposMark.read41 b = .ok r) :
      FromReader (.gpos61 r.mcov r.bcov (r.marks.map markOf) (r.bases.map fun row => row.map anchorOf))

/-! ## context format 3: the readers reject an empty input sequence -/

theorem readCovSets_length (b : Bytes) : ∀ (offs : List Nat) (covs : List (List Nat)),
    Otl.Ctx.readCovSets b offs = .ok covs → covs.length = offs.length := by
  intro offs
  induction offs with
  | nil => intro covs h; unfold Otl.Ctx.readCovSets at h; cases h; rfl
  | cons o os ih =>
    intro covs h
    unfold Otl.Ctx.readCovSets at h
    cases hc : Otl.Cov.readSet (b.drop o) with
    | ok c =>
      rw [hc] at h
      cases hr : Otl.Ctx.readCovSets b os with
      | ok r => rw [hr] at h; cases h; simp [ih r hr]
      | err e => rw [hr] at h; cases h
      | panic p => rw [hr] at h; cases h
    | err e => rw [hc] at h; cases h
    | panic p => rw [hc] at h; cases h

theorem takeN_length {ws : List Nat} {n : Nat} {a r : List Nat} (h : Otl.Ctx.takeN ws n = .ok (a, r)) : a.length = n := by
  unfold Otl.Ctx.takeN at h
  split at h
  · cases h
  · cases h; simp only [List.length_take]; omega

/-- `readSeqContext3` delivers at least one input coverage -/
theorem read3_input (b : Bytes) (s : Otl.Ctx.Sub) (h : Otl.Ctx.read3 b = .ok s) :
    ∃ input acts, s = .c3 [] input [] acts false ∧ input ≠ [] := by
  unfold Otl.Ctx.read3 at h
  split at h
  · rename_i gc lc ws _
    split at h
    · cases h
    · rename_i hgc
      cases h1 : Otl.Ctx.takeN ws gc with
      | ok p1 =>
        obtain ⟨offs, r1⟩ := p1
        rw [h1] at h; dsimp only at h
        cases h2 : Otl.Ctx.takeN r1 (2 * lc) with
        | ok p2 =>
          obtain ⟨acts, r2⟩ := p2
          rw [h2] at h; dsimp only at h
          cases h3 : Otl.Ctx.readCovSets b offs with
          | ok covs =>
            rw [h3] at h; dsimp only at h
            cases h
            refine ⟨covs, _, rfl, ?_⟩
            intro hnil
            have hl := readCovSets_length b offs covs h3
            have hn := takeN_length h1
            rw [hnil] at hl
            simp at hl
            omega
          | err e => rw [h3] at h; cases h
          | panic p => rw [h3] at h; cases h
        | err e => rw [h2] at h; cases h
        | panic p => rw [h2] at h; cases h
      | err e => rw [h1] at h; cases h
      | panic p => rw [h1] at h; cases h
  · cases h

/-- `readChainedSeqContext3` delivers at least one input coverage -/
theorem readC3_input (b : Bytes) (s : Otl.Ctx.Sub) (h : Otl.Ctx.readC3 b = .ok s) :
    ∃ back input look acts, s = .c3 back input look acts true ∧ input ≠ [] := by
  unfold Otl.Ctx.readC3 at h
  split at h
  · rename_i ws _
    cases h1 : Otl.Ctx.counted ws with
    | ok p1 =>
      obtain ⟨bo, r1⟩ := p1
      rw [h1] at h; dsimp only at h
      cases h2 : Otl.Ctx.counted r1 with
      | ok p2 =>
        obtain ⟨io, r2⟩ := p2
        rw [h2] at h; dsimp only at h
        cases h3 : Otl.Ctx.counted r2 with
        | ok p3 =>
          obtain ⟨lo, r3⟩ := p3
          rw [h3] at h; dsimp only at h
          split at h
          · cases h
          · rename_i hio
            split at h
            · rename_i lc r4
              cases h4 : Otl.Ctx.takeN r4 (2 * lc) with
              | ok p4 =>
                obtain ⟨acts, r5⟩ := p4
                rw [h4] at h; dsimp only at h
                cases h5 : Otl.Ctx.readCovSets b bo with
                | ok cb =>
                  rw [h5] at h; dsimp only at h
                  cases h6 : Otl.Ctx.readCovSets b io with
                  | ok ci =>
                    rw [h6] at h; dsimp only at h
                    cases h7 : Otl.Ctx.readCovSets b lo with
                    | ok cl =>
                      rw [h7] at h; dsimp only at h
                      cases h
                      refine ⟨cb, ci, cl, _, rfl, ?_⟩
                      intro hnil
                      have hl := readCovSets_length b io ci h6
                      rw [hnil] at hl
                      simp at hl
                      omega
                    | err e => rw [h7] at h; cases h
                    | panic p => rw [h7] at h; cases h
                  | err e => rw [h6] at h; cases h
                  | panic p => rw [h6] at h; cases h
                | err e => rw [h5] at h; cases h
                | panic p => rw [h5] at h; cases h
              | err e => rw [h4] at h; cases h
              | panic p => rw [h4] at h; cases h
            · cases h
        | err e => rw [h3] at h; cases h
        | panic p => rw [h3] at h; cases h
      | err e => rw [h2] at h; cases h
      | panic p => rw [h2] at h; cases h
    | err e => rw [h1] at h; cases h
    | panic p => rw [h1] at h; cases h
  · cases h

/-! ## every delivered subtable is in the shape `C07_no_panic` asks for -/

theorem vrOf_ok {vr : Otl.Gpos.VR} (h : vrImpl vr) : valueOk (vrOf vr) = true := by
  cases vr with
  | none => rfl
  | some fs =>
    simp only [vrOf, valueOk]
    have : ([3, 4, 5, 6, 7].any fun k => Otl.Gpos.field (some fs) k != 0) = false := by
      apply List.any_eq_false.mpr
      intro k hk
      simp [h k hk]
    simp [this]

theorem pairOf_ok {v1 v2 : Otl.Gpos.VR} (h1 : vrImpl v1) (h2 : vrImpl v2) : pairOk (pairOf v1 v2) = true := by
  simp [pairOf, pairOk, vrOf_ok h1, vrOf_ok h2]

theorem rulesOf_length (sets : List (Option (List Otl.Ctx.Rule))) : (rulesOf sets).length = sets.length := by
  simp [rulesOf]

/-- **the reader post-condition in the engine's terms**: a subtable delivered by a modelled
reader is `guarded` and satisfies `chain3Ok` -/
theorem fromReader_shaped {s : Subtable} (h : FromReader s) : s.guarded = true ∧ s.chain3Ok = true := by
  cases h with
  | gsub11 b gs delta h => exact ⟨rfl, rfl⟩
  | gsub12 b cov subs h => exact ⟨covBelow_of_inRange (Otl.Gsub.read12_inRange b cov subs h), rfl⟩
  | gsub21 b cov seqs h => exact ⟨covBelow_of_inRange (Otl.Gsub.readSeq_inRange b cov seqs h), rfl⟩
  | gsub31 b cov seqs h => exact ⟨covBelow_of_inRange (Otl.Gsub.readSeq_inRange b cov seqs h), rfl⟩
  | gsub41 b cov repl h =>
    refine ⟨?_, rfl⟩
    have := covBelow_of_inRange (Otl.Gsub.read41_inRange b cov repl h)
    simpa [Subtable.guarded] using this
  | gsub81 b r h => exact ⟨covBelow_of_inRange (Otl.Gsub.read81_inRange b r h), rfl⟩
  | ctx1 b ch cov sets h =>
    have := covBelow_of_inRange (Otl.Ctx.read1_inRange b ch cov sets h)
    cases ch <;> exact ⟨by simpa [ctxOf, Subtable.guarded, rulesOf_length] using this, rfl⟩
  | chain1 b ch cov sets h =>
    have := covBelow_of_inRange (Otl.Ctx.readC1_inRange b ch cov sets h)
    cases ch <;> exact ⟨by simpa [ctxOf, Subtable.guarded, rulesOf_length] using this, rfl⟩
  | ctx2 b ch cov classes sets h => cases ch <;> exact ⟨rfl, rfl⟩
  | chain2 b ch cov classes sets h => cases ch <;> exact ⟨rfl, rfl⟩
  | ctx3 b s h =>
    obtain ⟨input, acts, rfl, hne⟩ := read3_input b s h
    refine ⟨?_, rfl⟩
    cases input with
    | nil => exact absurd rfl hne
    | cons x xs => rfl
  | chain3 b s h =>
    obtain ⟨back, input, look, acts, rfl, hne⟩ := readC3_input b s h
    refine ⟨rfl, ?_⟩
    cases input with
    | nil => exact absurd rfl hne
    | cons x xs => rfl
  | gpos11 b cov vr h himpl => exact ⟨vrOf_ok himpl, rfl⟩
  | gpos12 b cov vrs h himpl =>
    refine ⟨?_, rfl⟩
    have := covBelow_of_inRange (Otl.Gpos.read12_inRange b cov vrs h)
    simp only [Subtable.guarded, List.length_map, Bool.and_eq_true]
    refine ⟨this, List.all_eq_true.mpr ?_⟩
    intro v hv
    obtain ⟨vr, hvr, rfl⟩ := List.mem_map.mp hv
    exact vrOf_ok (himpl vr hvr)
  | gpos21 b cov sets h himpl =>
    refine ⟨?_, rfl⟩
    simp only [Subtable.guarded]
    refine List.all_eq_true.mpr ?_
    intro e he
    obtain ⟨ce, _, he⟩ := List.mem_flatMap.mp he
    obtain ⟨p, hp, rfl⟩ := List.mem_map.mp he
    have hp' : p ∈ sets.getD ce.2 [] := List.mem_reverse.mp hp
    have hset : sets.getD ce.2 [] ∈ sets := by
      rcases Nat.lt_or_ge ce.2 sets.length with hl | hl
      · simp only [List.getD, List.getElem?_eq_getElem hl, Option.getD_some]
        exact List.getElem_mem hl
      · simp only [List.getD, List.getElem?_eq_none hl, Option.getD_none] at hp'
        cases hp'
    exact pairOf_ok (himpl _ hset p hp').1 (himpl _ hset p hp').2
  | gpos22 b r h himpl =>
    refine ⟨?_, rfl⟩
    simp only [Subtable.guarded, rowsOf]
    refine List.all_eq_true.mpr ?_
    intro row' hrow'
    obtain ⟨row, hrow, rfl⟩ := List.mem_map.mp hrow'
    refine List.all_eq_true.mpr ?_
    intro c hc
    obtain ⟨p, hp, rfl⟩ := List.mem_map.mp hc
    exact pairOf_ok (himpl row hrow p hp).1 (himpl row hrow p hp).2
  | gpos31 b cov recs h =>
    refine ⟨?_, rfl⟩
    have := covBelow_of_inRange (Otl.GposMark.read31_inRange b cov recs h)
    simpa [Subtable.guarded] using this
  | gpos41 b r h gclass =>
    refine ⟨?_, rfl⟩
    have := Otl.GposMark.read41_inRange b r h
    simp only [Subtable.guarded, List.length_map, Bool.and_eq_true]
    exact ⟨covBelow_of_inRange this.1, covBelow_of_inRange this.2⟩
  | gpos61 b r h =>
    refine ⟨?_, rfl⟩
    have := Otl.GposMark.read41_inRange b r h
    simp only [Subtable.guarded, List.length_map, Bool.and_eq_true]
    exact ⟨covBelow_of_inRange this.1, covBelow_of_inRange this.2⟩

/-- a lookup list all of whose subtables come from the modelled readers is in the shape the
reader delivers -/
theorem readerShaped_of_fromReader (ll : LookupList)
    (h : ∀ lk ∈ ll, ∀ s ∈ lk.subtables, FromReader s) : readerShapedLL ll = true := by
  unfold readerShapedLL guardedLL
  simp only [Bool.and_eq_true]
  constructor
  · exact List.all_eq_true.mpr fun lk hlk =>
      List.all_eq_true.mpr fun s hs => (fromReader_shaped (h lk hlk s hs)).1
  · exact List.all_eq_true.mpr fun lk hlk =>
      List.all_eq_true.mpr fun s hs => (fromReader_shaped (h lk hlk s hs)).2

end SfntV.Shape.Reader
