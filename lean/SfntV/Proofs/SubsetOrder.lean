/-
C10 — unpacking a successful run of the `Subset` model into the facts the property theorems use:
the final subsetter state is closed under GSUB rules and composite components and holds exactly the
glyphs reachable from the requested ones — whatever the iteration order.
-/
import SfntV.Proofs.SubsetTotal
import SfntV.Proofs.SubsetMain

namespace SfntV.Subset

theorem ext_eq_of_length {a b : St} (e : Ext a b) (h : b.glyphs.length = a.glyphs.length) :
    b.glyphs = a.glyphs := by
  obtain ⟨x, hx⟩ := e
  rw [hx, List.length_append] at h
  have : x = [] := List.eq_nil_of_length_eq_zero (by omega)
  rw [hx, this, List.append_nil]

theorem fires_of_same_glyphs {a b : St} (ha : Inv a) (hb : Inv b) (h : b.glyphs = a.glyphs)
    {r : Rule} (hf : Fires a r) : Fires b r := by
  intro hins g hg
  have hins' : ∀ x ∈ r.ins, a.has x = true := by
    intro x hx
    rw [ha.has_iff, ← h, ← hb.has_iff]; exact hins x hx
  have := hf hins' g hg
  rw [hb.has_iff, h, ← ha.has_iff]; exact this

/-- one round of `addGsubGlyphs` -/
theorem gsubRound_spec {f : Font} {glyphs : List Gid} {ro : List Rule → List Rule} {s s1 : St}
    (h : Inv s) (hp : ∀ x, (ro x).Perm x)
    (hq : ∀ g ∈ s.glyphs, Reach f glyphs (fontRules f) g) (hr : gsubRound f ro s = some s1) :
    Inv s1 ∧ Ext s s1 ∧ (∀ r ∈ fontRules f, Fires s1 r) ∧
    (∀ g ∈ s1.glyphs, Reach f glyphs (fontRules f) g) := by
  unfold gsubRound at hr
  cases hg : f.gsub with
  | none =>
    rw [hg] at hr; injection hr with hr; subst hr
    have : fontRules f = [] := by unfold fontRules; rw [hg]
    rw [this]
    exact ⟨h, Ext.refl _, by simp, by rw [this] at hq; exact hq⟩
  | some l =>
    rw [hg] at hr
    simp only at hr
    have hfr : fontRules f = rulesOf l := by unfold fontRules; rw [hg]
    rw [hfr] at hq ⊢
    have hgood := gsubClose_good h hr
    refine ⟨hgood.1, hgood.2, gsubClose_closed h hp hr, ?_⟩
    exact gsubClose_sound (Reach f glyphs (rulesOf l)) h hp
      (fun r hrm hins o ho => Reach.rule hrm hins ho) hq hr

/-- one round of `addComponents` -/
theorem glyfRound_spec {f : Font} {glyphs : List Gid} {ps : List Gid} {s1 s2 : St}
    (h : Inv s1) (hq : ∀ g ∈ s1.glyphs, Reach f glyphs (fontRules f) g)
    (hr : glyfRound f ps s1 = some s2) :
    Inv s2 ∧ Ext s1 s2 ∧
    (f.isCFF = false → ∀ g ∈ s2.glyphs, ∀ c ∈ (f.glyph g).comps, c ∈ s2.glyphs) ∧
    (∀ g ∈ s2.glyphs, Reach f glyphs (fontRules f) g) := by
  unfold glyfRound at hr
  cases hc : f.isCFF with
  | true =>
    rw [hc] at hr; simp only [if_true] at hr
    injection hr with hr; subst hr
    exact ⟨h, Ext.refl _, by simp, hq⟩
  | false =>
    rw [hc] at hr; simp only [Bool.false_eq_true, if_false] at hr
    have hd : Done f s1 s1.glyphs := fun g hg hn => absurd hg hn
    have hsp := closeGlyf_spec f ps s1 s1.glyphs s2 h hd hr
    refine ⟨hsp.1, hsp.2.1, fun _ => hsp.2.2, ?_⟩
    exact closeGlyf_sound f (Reach f glyphs (fontRules f))
      (fun p c hp' hc' => Reach.comp hc hp' hc') ps s1 s1.glyphs s2 h hq (fun t ht => ht) hr

theorem closeAll_spec (f : Font) (glyphs : List Gid) (ro : Nat → List Rule → List Rule)
    (hp : ∀ k x, (ro k x).Perm x) :
    ∀ (pss : List (List Gid)) (k : Nat) (s sc : St), Inv s →
    (∀ g ∈ s.glyphs, Reach f glyphs (fontRules f) g) → closeAll f ro k pss s = some sc →
    Inv sc ∧ Ext s sc ∧ (∀ r ∈ fontRules f, Fires sc r) ∧
    (f.isCFF = false → ∀ g ∈ sc.glyphs, ∀ c ∈ (f.glyph g).comps, c ∈ sc.glyphs) ∧
    (∀ g ∈ sc.glyphs, Reach f glyphs (fontRules f) g) := by
  intro pss
  induction pss with
  | nil => intro k s sc _ _ hr; simp [closeAll] at hr
  | cons ps rest ih =>
    intro k s sc h hq hr
    simp only [closeAll] at hr
    split at hr
    · cases hr
    · rename_i s1 hs1
      have g1 := gsubRound_spec h (hp k) hq hs1
      split at hr
      · cases hr
      · rename_i s2 hs2
        have g2 := glyfRound_spec g1.1 g1.2.2.2 hs2
        split at hr
        · rename_i hlen
          injection hr with hr; subst hr
          have hl1 := ext_length g1.2.1
          have hl2 := ext_length g2.2.1
          have e21 : s2.glyphs = s1.glyphs := ext_eq_of_length g2.2.1 (by omega)
          refine ⟨g2.1, g1.2.1.trans g2.2.1, ?_, g2.2.2.1, g2.2.2.2⟩
          intro r hrm
          exact fires_of_same_glyphs g1.1 g2.1 e21 (g1.2.2.1 r hrm)
        · have := ih (k + 1) s2 sc g2.1 g2.2.2.2 hr
          exact ⟨this.1, (g1.2.1.trans g2.2.1).trans this.2.1, this.2.2⟩

/-- facts about a successful run; `s` is the final subsetter state -/
structure RunP (f : Font) (glyphs : List Gid) (sub : Sub) (s : St) : Prop where
  inv : Inv s
  ext : Ext (St.init glyphs) s
  rules : ∀ r ∈ fontRules f, Fires s r
  closed : f.isCFF = false → ∀ g ∈ s.glyphs, ∀ c ∈ (f.glyph g).comps, c ∈ s.glyphs
  reach : ∀ g, g ∈ s.glyphs ↔ Reach f glyphs (fontRules f) g
  inRange : ∀ g ∈ s.glyphs, g < f.glyphs.length
  gsub : (f.gsub = none ∧ sub.gsub = none) ∨
    (∃ l, f.gsub = some l ∧ (subLookups s l.lookups).1 = s ∧
      sub.gsub = some ⟨l.features, (subLookups s l.lookups).2⟩)
  eq : sub = assemble f s sub.gsub

theorem subset_ok {f : Font} {glyphs : List Gid} {o : Order} {sub : Sub}
    (hnd : glyphs.Nodup) (hp : ∀ k x, (o.rules k x).Perm x) (h : subset f glyphs o = .ok sub) :
    ∃ s, RunP f glyphs sub s := by
  have h0 := init_inv hnd
  unfold subset at h
  split at h
  · cases h
  · rename_i sc hsc
    have hq0 : ∀ g ∈ (St.init glyphs).glyphs, Reach f glyphs (fontRules f) g :=
      fun g hg => Reach.base hg
    have hs := closeAll_spec f glyphs o.rules hp o.pops 0 _ sc h0 hq0 hsc
    -- step 3 appends nothing
    have hreb : (rebuildGsub sc f.gsub).1 = sc := by
      unfold rebuildGsub
      cases hg : f.gsub with
      | none => rfl
      | some l =>
        simp only
        have hfr : fontRules f = rulesOf l := by unfold fontRules; rw [hg]
        exact (subLookups_closed sc l.lookups (by
          intro r hrm; apply hs.2.2.1 r; rw [hfr]; simpa [rulesOf] using hrm)).1
    simp only at h
    rw [hreb] at h
    split at h
    · cases h
    · rename_i hrange
      injection h with h
      refine ⟨sc, ⟨hs.1, hs.2.1, hs.2.2.1, hs.2.2.2.1, ?_, ?_, ?_, ?_⟩⟩
      · intro g
        constructor
        · exact hs.2.2.2.2 g
        · intro hr
          induction hr with
          | base hm => exact ext_mem hs.2.1 hm
          | rule hrm _ ho ih =>
            have := hs.2.2.1 _ hrm (fun i hi => (hs.1.has_iff i).2 (ih i hi)) _ ho
            exact (hs.1.has_iff _).1 this
          | comp hc _ hcm ih => exact hs.2.2.2.1 hc _ ih _ hcm
      · intro g hg'
        rcases Nat.lt_or_ge g f.glyphs.length with hlt | hge
        · exact hlt
        · exfalso; apply hrange
          rw [List.any_eq_true]; exact ⟨g, hg', by simpa using hge⟩
      · rw [← h]
        cases hg : f.gsub with
        | none => left; exact ⟨rfl, by simp [assemble, rebuildGsub]⟩
        | some l =>
          right
          have hfr : fontRules f = rulesOf l := by unfold fontRules; rw [hg]
          have hl := subLookups_closed sc l.lookups (by
            intro r hrm; apply hs.2.2.1 r; rw [hfr]; simpa [rulesOf] using hrm)
          exact ⟨l, rfl, hl.1, by simp [assemble, rebuildGsub]⟩
      · rw [← h]; rfl

/-- every run that is not rejected as an illegal oracle ends in a state holding exactly the reachable
glyphs, and its outcome is decided by the range check on that state alone -/
theorem subset_outcome {f : Font} {glyphs : List Gid} {o : Order}
    (hnd : glyphs.Nodup) (hp : ∀ k x, (o.rules k x).Perm x)
    (hne : ∀ e, subset f glyphs o ≠ .err e) :
    ∃ s : St, (∀ g, g ∈ s.glyphs ↔ Reach f glyphs (fontRules f) g) ∧
      subset f glyphs o =
        if s.glyphs.any (fun g => decide (f.glyphs.length ≤ g)) then .panic "index out of range"
        else .ok (assemble f s (rebuildGsub s f.gsub).2) := by
  have h0 := init_inv hnd
  cases hsc : closeAll f o.rules 0 o.pops (St.init glyphs) with
  | none =>
    exfalso
    apply hne "order"
    unfold subset; rw [hsc]
  | some sc =>
    have hq0 : ∀ g ∈ (St.init glyphs).glyphs, Reach f glyphs (fontRules f) g :=
      fun g hg => Reach.base hg
    have hs := closeAll_spec f glyphs o.rules hp o.pops 0 _ sc h0 hq0 hsc
    have hreb : (rebuildGsub sc f.gsub).1 = sc := by
      unfold rebuildGsub
      cases hg : f.gsub with
      | none => rfl
      | some l =>
        simp only
        have hfr : fontRules f = rulesOf l := by unfold fontRules; rw [hg]
        exact (subLookups_closed sc l.lookups (by
          intro r hrm; apply hs.2.2.1 r; rw [hfr]; simpa [rulesOf] using hrm)).1
    refine ⟨sc, ?_, ?_⟩
    · intro g
      constructor
      · exact hs.2.2.2.2 g
      · intro hr
        induction hr with
        | base hm => exact ext_mem hs.2.1 hm
        | rule hrm _ ho ih =>
          have := hs.2.2.1 _ hrm (fun i hi => (hs.1.has_iff i).2 (ih i hi)) _ ho
          exact (hs.1.has_iff _).1 this
        | comp hc _ hcm ih => exact hs.2.2.2.1 hc _ ih _ hcm
    · unfold subset
      rw [hsc]
      simp only [hreb]

theorem perm_of_same_mem {l1 l2 : List Gid} (h1 : l1.Nodup) (h2 : l2.Nodup)
    (h : ∀ g, g ∈ l1 ↔ g ∈ l2) : l1.Perm l2 :=
  (List.perm_ext_iff_of_nodup h1 h2).2 h

end SfntV.Subset
