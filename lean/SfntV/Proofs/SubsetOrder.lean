/-
C10 — order independence: the glyph SETS of a subset are determined by the font and the requested
glyphs alone.
-/
import SfntV.Proofs.SubsetTotal

namespace SfntV.Subset

/-- all GSUB rules of a font (none without a GSUB table) -/
def fontRules (f : Font) : List Rule :=
  match f.gsub with
  | none => []
  | some l => rulesOf l

/-- the facts about the GSUB stage of a successful run (rule order a permutation) -/
theorem run_gsub {f : Font} {glyphs : List Gid} {o : Order} {sub : Sub} {s1 s2 : St}
    (hnd : glyphs.Nodup) (hp : ∀ x, (o.rules x).Perm x) (r : RunP f glyphs o sub s1 s2) :
    (∀ ru ∈ fontRules f, Fires s1 ru) ∧
    (∀ g, g ∈ s1.glyphs ↔ TextReach glyphs (fontRules f) g) := by
  have h0 := init_inv hnd
  rcases r.gsubRun with ⟨h1, _, h3⟩ | ⟨l, lay, h1, h2, _⟩
  · have hr : fontRules f = [] := by unfold fontRules; rw [h1]
    rw [hr]
    refine ⟨by simp, ?_⟩
    intro g
    rw [h3]
    constructor
    · intro hg; exact TextReach.base hg
    · intro hg
      cases hg with
      | base hm => exact hm
      | rule hr' _ _ => cases hr'
  · have hr : fontRules f = rulesOf l := by unfold fontRules; rw [h1]
    rw [hr]
    have hf := subsetGsub_full h0 hp h2
    refine ⟨hf.2.2.1, ?_⟩
    intro g
    constructor
    · intro hg; exact hf.2.2.2.1 g hg
    · intro hg
      exact textReach_mem hf.1 (fun x hx => ext_mem hf.2.1 hx) hf.2.2.1 hg

/-- the final glyph list is exactly the reachable set -/
theorem run_order {f : Font} {glyphs : List Gid} {o : Order} {sub : Sub} {s1 s2 : St}
    (hnd : glyphs.Nodup) (hp : ∀ x, (o.rules x).Perm x) (r : RunP f glyphs o sub s1 s2) :
    ∀ g, g ∈ s2.glyphs ↔ Reach f glyphs (fontRules f) g := by
  have hg := run_gsub hnd hp r
  intro g
  constructor
  · intro hm
    cases hc : f.isCFF with
    | true =>
      rw [r.cff hc] at hm
      exact Reach.text ((hg.2 g).1 hm)
    | false =>
      exact closeGlyf_sound f (Reach f glyphs (fontRules f))
        (fun p c hp' hc' => Reach.comp hc hp' hc') o.pops s1 s1.glyphs s2 r.inv1
        (fun x hx => Reach.text ((hg.2 x).1 hx)) (fun t ht => ht) (r.glyfRun hc) g hm
  · intro hr
    induction hr with
    | text ht => exact ext_mem r.ext2 ((hg.2 _).2 ht)
    | comp hc _ hcm ih => exact r.closed hc _ ih _ hcm

theorem perm_of_same_mem {l1 l2 : List Gid} (h1 : l1.Nodup) (h2 : l2.Nodup)
    (h : ∀ g, g ∈ l1 ↔ g ∈ l2) : l1.Perm l2 :=
  (List.perm_ext_iff_of_nodup h1 h2).2 h

end SfntV.Subset
