/-
Proofs for C11, part 1: offsets, loca encode/decode, the loca facts.
-/
import SfntV.Model.Glyf
import SfntV.Spec.Glyf

namespace SfntV.Glyf
open SfntV

/-! ### alignment -/

theorem alignUp_even (n : Nat) : alignUp n % 2 = 0 := by
  unfold alignUp glyfAlign; split <;> omega

theorem alignUp_ge (n : Nat) : n ≤ alignUp n := by
  unfold alignUp glyfAlign; split <;> omega

theorem alignUp_of_even (n : Nat) (h : n % 2 = 0) : alignUp n = n := by
  unfold alignUp glyfAlign; simp [h]

theorem encodeLen_even (g : Option Glyph) : encodeLen g % 2 = 0 := by
  cases g with
  | none => rfl
  | some g => exact alignUp_even _

theorem glyfSize_cons (g : Option Glyph) (gs : Glyphs) :
    glyfSize (g :: gs) = encodeLen g + glyfSize gs := by
  simp [glyfSize]

theorem glyfSize_even (gs : Glyphs) : glyfSize gs % 2 = 0 := by
  induction gs with
  | nil => rfl
  | cons g gs ih => rw [glyfSize_cons]; have := encodeLen_even g; omega

/-! ### offsets -/

theorem offsets_length (o : Nat) (gs : Glyphs) : (offsets o gs).length = gs.length + 1 := by
  induction gs generalizing o with
  | nil => rfl
  | cons g gs ih => simp [offsets, ih]

theorem offsets_ne_nil (o : Nat) (gs : Glyphs) : offsets o gs ≠ [] := by
  cases gs <;> simp [offsets]

theorem offsets_head (o : Nat) (gs : Glyphs) : (offsets o gs).head? = some o := by
  cases gs <;> simp [offsets]

theorem offsets_getLast (o : Nat) (gs : Glyphs) :
    (offsets o gs).getLast? = some (o + glyfSize gs) := by
  induction gs generalizing o with
  | nil => simp [offsets, glyfSize]
  | cons g gs ih =>
    have hne := offsets_ne_nil (o + encodeLen g) gs
    rw [offsets, List.getLast?_cons_of_ne_nil hne] at *
    · rw [ih, glyfSize_cons]; congr 1; omega
    
theorem offsets_bounds (o : Nat) (gs : Glyphs) :
    ∀ x ∈ offsets o gs, o ≤ x ∧ x ≤ o + glyfSize gs := by
  induction gs generalizing o with
  | nil => intro x hx; simp [offsets] at hx; subst hx; simp [glyfSize]
  | cons g gs ih =>
    intro x hx
    simp only [offsets, List.mem_cons] at hx
    rw [glyfSize_cons]
    rcases hx with hx | hx
    · subst hx; omega
    · have := ih _ x hx; omega

theorem offsets_even (o : Nat) (ho : o % 2 = 0) (gs : Glyphs) :
    ∀ x ∈ offsets o gs, x % 2 = 0 := by
  induction gs generalizing o with
  | nil => intro x hx; simp [offsets] at hx; subst hx; exact ho
  | cons g gs ih =>
    intro x hx
    simp only [offsets, List.mem_cons] at hx
    rcases hx with hx | hx
    · subst hx; exact ho
    · exact ih _ (by have := encodeLen_even g; omega) x hx

theorem offsets_sorted (o : Nat) (gs : Glyphs) : GlyfSpec.sortedLe (offsets o gs) = true := by
  induction gs generalizing o with
  | nil => rfl
  | cons g gs ih =>
    have := ih (o + encodeLen g)
    cases gs with
    | nil => simp [offsets, GlyfSpec.sortedLe]
    | cons g' gs' =>
      simp only [offsets] at this ⊢
      simp only [GlyfSpec.sortedLe, Bool.and_eq_true, decide_eq_true_eq]
      exact ⟨by omega, this⟩

theorem locaCheck_offsets (L o prev : Nat) (gs : Glyphs) (hp : prev ≤ o)
    (hL : o + glyfSize gs ≤ L) : locaCheck L prev (offsets o gs) = true := by
  induction gs generalizing o prev with
  | nil =>
    simp only [offsets, locaCheck]
    simp [glyfSize] at hL
    have : ¬ (o < prev ∨ o > L) := by omega
    simp [this]
  | cons g gs ih =>
    rw [glyfSize_cons] at hL
    simp only [offsets, locaCheck]
    have : ¬ (o < prev ∨ o > L) := by omega
    simp only [this, if_false]
    exact ih (o + encodeLen g) o (by omega) (by omega)

/-! ### loca bytes -/

theorem words16_be16 (n : Nat) (rest : Bytes) :
    words16 (be16 n ++ rest) = (n % 65536) :: words16 rest := by
  simp [be16, words16]; omega

theorem words32_be32 (n : Nat) (rest : Bytes) :
    words32 (be32 n ++ rest) = (n % 4294967296) :: words32 rest := by
  simp [be32, words32]; omega

theorem words16_short (offs : List Nat) (h : ∀ x ∈ offs, x % 2 = 0 ∧ x < 131072) :
    (words16 (offs.flatMap fun o => be16 (o / 2))).map (2 * ·) = offs := by
  induction offs with
  | nil => simp [words16]
  | cons o os ih =>
    have ho := h o (by simp)
    simp only [List.flatMap_cons, words16_be16, List.map_cons]
    rw [ih (fun x hx => h x (by simp [hx]))]
    congr 1; omega

theorem words32_long (offs : List Nat) (h : ∀ x ∈ offs, x < 4294967296) :
    words32 (offs.flatMap be32) = offs := by
  induction offs with
  | nil => simp [words32]
  | cons o os ih =>
    have ho := h o (by simp)
    simp only [List.flatMap_cons, words32_be32]
    rw [ih (fun x hx => h x (by simp [hx]))]
    congr 1; omega

theorem specOffsets16 (offs : List Nat) (h : ∀ x ∈ offs, x % 2 = 0 ∧ x < 131072) :
    GlyfSpec.offsets16 (offs.flatMap fun o => be16 (o / 2)) = offs := by
  induction offs with
  | nil => simp [GlyfSpec.offsets16]
  | cons o os ih =>
    have ho := h o (by simp)
    simp only [List.flatMap_cons]
    have : be16 (o / 2) ++ (os.flatMap fun o => be16 (o / 2)) =
        UInt8.ofNat (o / 2 / 256 % 256) :: UInt8.ofNat (o / 2 % 256) :: (os.flatMap fun o => be16 (o / 2)) := by
      simp [be16]
    rw [this, GlyfSpec.offsets16, ih (fun x hx => h x (by simp [hx]))]
    congr 1
    simp; omega

theorem specOffsets32 (offs : List Nat) (h : ∀ x ∈ offs, x < 4294967296) :
    GlyfSpec.offsets32 (offs.flatMap be32) = offs := by
  induction offs with
  | nil => simp [GlyfSpec.offsets32]
  | cons o os ih =>
    have ho := h o (by simp)
    simp only [List.flatMap_cons]
    have : be32 o ++ os.flatMap be32 =
        UInt8.ofNat (o / 16777216 % 256) :: UInt8.ofNat (o / 65536 % 256) ::
          UInt8.ofNat (o / 256 % 256) :: UInt8.ofNat (o % 256) :: os.flatMap be32 := by
      simp [be32]
    rw [this, GlyfSpec.offsets32, ih (fun x hx => h x (by simp [hx]))]
    congr 1
    simp; omega

theorem flatMap_be16_length (offs : List Nat) (f : Nat → Nat) :
    (offs.flatMap fun o => be16 (f o)).length = 2 * offs.length := by
  induction offs with
  | nil => rfl
  | cons o os ih => simp only [List.flatMap_cons, List.length_append, ih, List.length_cons]; simp [be16]; omega

theorem flatMap_be32_length (offs : List Nat) :
    (offs.flatMap be32).length = 4 * offs.length := by
  induction offs with
  | nil => rfl
  | cons o os ih => simp only [List.flatMap_cons, List.length_append, ih, List.length_cons]; simp [be32]; omega

end SfntV.Glyf
