/-
Helper lemmas for C15 (pipeline over the shaping engine).
-/
import SfntV.Model.LayoutPipe

namespace SfntV.Layout
open SfntV

theorem layoutFull_ok_iff (B : Nat) (cmap : Nat → Nat) (gsub gpos : Option Ctx) (gd : Shape.Gdef)
    (width : Nat → Int) (st : LStacks) (s : List Nat) (out : List Shape.Glyph) (st' : LStacks) :
    layoutFull B cmap gsub gpos gd width st s = .ok (out, st') ↔
      ∃ a b, applyCtx B gsub gd st.gsub (cmapMap cmap s) = .ok a ∧
        applyCtx B gpos gd st.gpos (assignW gd width a.seq) = .ok b ∧
        out = b.seq ∧ st' = ⟨a.stack, b.stack⟩ := by
  unfold layoutFull
  cases ha : applyCtx B gsub gd st.gsub (cmapMap cmap s) with
  | err e => simp [bind]
  | panic p => simp [bind]
  | ok a =>
    cases hb : applyCtx B gpos gd st.gpos (assignW gd width a.seq) with
    | err e => simp [bind, hb]
    | panic p => simp [bind, hb]
    | ok b =>
      simp only [bind, hb, pure]
      constructor
      · intro h
        injection h with h
        injection h with h1 h2
        exact ⟨a, b, rfl, hb, h1.symm, h2.symm⟩
      · rintro ⟨a', b', h1, h2, h3, h4⟩
        injection h1 with h1
        subst h1
        rw [hb] at h2
        injection h2 with h2
        subst h2
        rw [h3, h4]

theorem assignW_cmapMap (gd : Shape.Gdef) (width : Nat → Int) (cmap : Nat → Nat) (s : List Nat) :
    assignW gd width (cmapMap cmap s) =
      s.map fun r => { gid := cmap r, text := [r],
                       adv := if isMarkGd gd (cmap r) then 0 else width (cmap r) } := by
  unfold assignW cmapMap
  rw [List.map_map]
  apply List.map_congr_left
  intro r _
  simp only [Function.comp]
  cases isMarkGd gd (cmap r) <;> simp

theorem applyCtx_no_lookups (B : Nat) (c : Option Ctx) (gd : Shape.Gdef) (stack : List Shape.Nested)
    (seq : List Shape.Glyph) (h : ∀ x, c = some x → x.lookups = []) :
    applyCtx B c gd stack seq = .ok ⟨seq, stack⟩ := by
  cases c with
  | none => rfl
  | some x =>
    have := h x rfl
    simp [applyCtx, Shape.apply, this, Shape.applyLookups]

end SfntV.Layout
