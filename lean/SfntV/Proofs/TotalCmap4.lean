/-
C02 (decoders are total on untrusted bytes): proofs about the checked-index model of
`cmap.decodeFormat4` (`SfntV.Total.Cmap4.decodeFormat4`, format4.go:32-99): no panic on any byte
string, an explicit cost bound (linear in the input plus the constant 65536: the segments must be
increasing, so the inner loops write at most one entry per 16-bit code), the bridging lemma to the
value-level model `SfntV.Cmap4.decode` of property C09, and the safety of the lazy accessors
`Format4.Lookup` / `Format4.CodeRange`.
-/
import SfntV.Model.TotalCmap4
import SfntV.Model.Cmap4
import SfntV.Proofs.TotalGdef

namespace SfntV.Total.Cmap4
open SfntV SfntV.Total
open SfntV.Total.Gdef (idx_ok ok_bind bind_noPanic bind_eq_ok)

theorem slice_ok (site : String) (xs : List α) (a b : Nat) (h1 : a ≤ b) (h2 : b ≤ xs.length) :
    slice site xs a b = .ok ((xs.drop a).take (b - a)) := by
  unfold slice
  rw [if_pos ⟨h1, h2⟩]

/-! ## the `words` loop -/

theorem wordsOf_length : ∀ (n : Nat) (l : Bytes), l.length = n → (SfntV.Cmap4.wordsOf l).length = n / 2
  | 0, [], _ => rfl
  | 1, [_], _ => rfl
  | n+2, a :: b :: r, h => by
    unfold SfntV.Cmap4.wordsOf
    have := wordsOf_length n r (by simpa using h)
    simp only [List.length_cons, this]
    omega

theorem wordsOf_lt : ∀ (n : Nat) (l : Bytes), l.length = n → ∀ x ∈ SfntV.Cmap4.wordsOf l, x < 65536
  | 0, [], _ => by intro x hx; cases hx
  | 1, [_], _ => by intro x hx; cases hx
  | n+2, a :: b :: r, h => by
    intro x hx
    unfold SfntV.Cmap4.wordsOf at hx
    rcases List.mem_cons.mp hx with hx | hx
    · have h1 := a.toNat_lt
      have h2 := b.toNat_lt
      omega
    · exact wordsOf_lt n r (by simpa using h) x hx

theorem wordsOf_cons (a b : UInt8) (r : Bytes) :
    SfntV.Cmap4.wordsOf (a :: b :: r) = (a.toNat * 256 + b.toNat) :: SfntV.Cmap4.wordsOf r := rfl

theorem wordsLoop_eq (b : Bytes) : ∀ (n i : Nat) (acc : List Nat) (c : Cost), i + 2 * n = b.length →
    wordsLoop b n i acc c = .ok (acc.reverse ++ SfntV.Cmap4.wordsOf (b.drop i), ⟨c.steps + n, c.alloc⟩)
  | 0, i, acc, c, h => by
    unfold wordsLoop
    rw [List.drop_eq_nil_of_le (by omega)]
    simp [SfntV.Cmap4.wordsOf]
  | n+1, i, acc, c, h => by
    unfold wordsLoop
    rw [idx_ok _ b i (by omega), ok_bind, idx_ok _ b (i + 1) (by omega), ok_bind,
      wordsLoop_eq b n (i + 2) _ _ (by omega),
      List.drop_eq_getElem_cons (by omega : i < b.length),
      List.drop_eq_getElem_cons (by omega : i + 1 < b.length)]
    rw [wordsOf_cons]
    simp only [List.reverse_cons, List.append_assoc, List.singleton_append, be, Cost.tick]
    congr 3
    omega

/-- the entry written by the `idRangeOffset = 0` loop for code `i` -/
def deltaEntry (delta i : Nat) : Option (Nat × Nat) :=
  let c := (i % 65536 + delta) % 65536
  if c ≠ 0 then some (i % 65536, c) else none

theorem deltaLoop_eq (delta : Nat) : ∀ (n i : Nat) (m : RMap) (c : Cost),
    (deltaLoop delta n i m c).1 = ((List.range' i n).filterMap (deltaEntry delta)).reverse ++ m ∧
    (deltaLoop delta n i m c).2.steps = c.steps + n ∧
    (deltaLoop delta n i m c).2.alloc ≤ c.alloc + n
  | 0, i, m, c => by simp [deltaLoop]
  | n+1, i, m, c => by
    unfold deltaLoop
    rw [List.range'_succ, List.filterMap_cons]
    dsimp only
    by_cases hg : (i % 65536 + delta) % 65536 ≠ 0
    · rw [if_pos hg]
      obtain ⟨h1, h2, h3⟩ := deltaLoop_eq delta n (i + 1) ((i % 65536, (i % 65536 + delta) % 65536) :: m) ((c.tick).mem 1)
      refine ⟨?_, ?_, ?_⟩
      · rw [h1]
        simp only [deltaEntry, hg, if_true, ne_eq, not_false_eq_true, List.reverse_cons,
          List.append_assoc, List.singleton_append]
      · rw [h2]; simp only [Cost.tick, Cost.mem]; omega
      · simp only [Cost.tick, Cost.mem] at h3 ⊢; omega
    · rw [if_neg hg]
      obtain ⟨h1, h2, h3⟩ := deltaLoop_eq delta n (i + 1) m c.tick
      refine ⟨?_, ?_, ?_⟩
      · rw [h1]
        simp only [deltaEntry, hg, if_false]
      · rw [h2]; simp only [Cost.tick]; omega
      · simp only [Cost.tick] at h3 ⊢; omega

/-- the entry written by the glyph-array loop for code `i` -/
def glyphEntry (ga : List Nat) (d start delta i : Nat) : Option (Nat × Nat) :=
  let v := ga.getD (d + (i - start)) 0
  let c := if v ≠ 0 then (v + delta) % 65536 else 0
  if c ≠ 0 then some (i % 65536, c) else none

theorem glyphLoop_eq (ga idDelta : List Nat) (k d start : Nat) (hk : k < idDelta.length) :
    ∀ (n i : Nat) (m : RMap) (c : Cost), d + (i - start) + n ≤ ga.length →
    ∃ c', glyphLoop ga idDelta k d start n i m c =
        .ok (((List.range' i n).filterMap (glyphEntry ga d start idDelta[k])).reverse ++ m, c') ∧
      c'.steps = c.steps + n ∧ c'.alloc ≤ c.alloc + n
  | 0, i, m, c, _ => ⟨c, by simp [glyphLoop]⟩
  | n+1, i, m, c, h => by
    unfold glyphLoop
    have hlt : d + (i - start) < ga.length := by omega
    rw [idx_ok _ ga _ hlt, ok_bind, List.range'_succ, List.filterMap_cons]
    have hgd : ga.getD (d + (i - start)) 0 = ga[d + (i - start)] := by
      rw [List.getD_eq_getElem?_getD, List.getElem?_eq_getElem hlt]; rfl
    by_cases hv : ga[d + (i - start)] ≠ 0
    · rw [if_pos hv, idx_ok _ idDelta k hk]
      show ∃ c', (if (ga[d + (i - start)] + idDelta[k]) % 65536 ≠ 0 then _ else _) = _ ∧ _
      by_cases hg : (ga[d + (i - start)] + idDelta[k]) % 65536 ≠ 0
      · rw [if_pos hg]
        obtain ⟨c', h1, h2, h3⟩ := glyphLoop_eq ga idDelta k d start hk n (i + 1) ((i % 65536, (ga[d + (i - start)] + idDelta[k]) % 65536) :: m) ((c.tick).mem 1) (by omega)
        refine ⟨c', ?_, ?_, ?_⟩
        · rw [h1]
          simp only [glyphEntry, hgd, hv, hg, if_true, ne_eq, not_false_eq_true, List.reverse_cons,
            List.append_assoc, List.singleton_append]
        · simp only [Cost.tick, Cost.mem] at h2; omega
        · simp only [Cost.tick, Cost.mem] at h3; omega
      · rw [if_neg hg]
        obtain ⟨c', h1, h2, h3⟩ := glyphLoop_eq ga idDelta k d start hk n (i + 1) m c.tick (by omega)
        refine ⟨c', ?_, ?_, ?_⟩
        · rw [h1]
          simp only [glyphEntry, hgd, hv, hg, if_true, if_false, ne_eq, not_false_eq_true]
        · simp only [Cost.tick] at h2; omega
        · simp only [Cost.tick] at h3; omega
    · rw [if_neg hv]
      show ∃ c', (if (0 : Nat) ≠ 0 then _ else _) = _ ∧ _
      rw [if_neg (by omega)]
      obtain ⟨c', h1, h2, h3⟩ := glyphLoop_eq ga idDelta k d start hk n (i + 1) m c.tick (by omega)
      refine ⟨c', ?_, ?_, ?_⟩
      · rw [h1]
        simp only [glyphEntry, hgd, hv, if_false, ne_eq, not_true_eq_false]
      · simp only [Cost.tick] at h2; omega
      · simp only [Cost.tick] at h3; omega


/-! ## the segment loop: no panic, cost, and agreement with `SfntV.Cmap4.decodeLoop` in one invariant -/

/-- `o` (checked model, map newest-first) and `v` (value-level model) agree, `o` is not a panic,
and on success the cost grew by at most `n` iterations plus the codes left above `pe` -/
def Good (c : Cost) (n pe : Nat) (o : Outcome (RMap × Cost)) (v : Option (List (Nat × Nat))) : Prop :=
  match o with
  | .ok (m', c') => v = some m'.reverse ∧ c'.steps ≤ c.steps + n + (65536 - pe) ∧
      c'.alloc ≤ c.alloc + (65536 - pe)
  | .err _ => v = none
  | .panic _ => False

theorem Good_mono {c c1 : Cost} {n pe pe1 : Nat} {o : Outcome (RMap × Cost)}
    {v : Option (List (Nat × Nat))} (h : Good c1 n pe1 o v)
    (hs : c1.steps + n + (65536 - pe1) ≤ c.steps + (n + 1) + (65536 - pe))
    (ha : c1.alloc + (65536 - pe1) ≤ c.alloc + (65536 - pe)) : Good c (n + 1) pe o v := by
  unfold Good at h ⊢
  cases o with
  | ok r =>
    obtain ⟨m', c'⟩ := r
    dsimp only at h ⊢
    obtain ⟨h1, h2, h3⟩ := h
    exact ⟨h1, by omega, by omega⟩
  | err e => exact h
  | panic s => exact h

theorem segLoop_good (sc : Nat) (E S D R ga : List Nat) (a : SfntV.Cmap4.Arrays)
    (hga : a.glyphIdArray = ga) (hE : E.length = sc) (hS : S.length = sc) (hD : D.length = sc)
    (hR : R.length = sc) (hlt : ∀ x ∈ E, x < 65536) :
    ∀ (n k pe : Nat) (m : RMap) (c : Cost), k + n = sc → pe ≤ 65536 →
      Good c n pe (segLoop sc E S D R ga n k pe m c)
        (SfntV.Cmap4.decodeLoop a sc k pe (E.drop k) (S.drop k) (D.drop k) (R.drop k) m.reverse)
  | 0, k, pe, m, c, hk, hpe => by
    rw [List.drop_eq_nil_of_le (by omega : E.length ≤ k)]
    unfold segLoop SfntV.Cmap4.decodeLoop Good
    exact ⟨rfl, by omega, by omega⟩
  | n+1, k, pe, m, c, hk, hpe => by
    have hkE : k < E.length := by omega
    have hkS : k < S.length := by omega
    have hkD : k < D.length := by omega
    have hkR : k < R.length := by omega
    have hEk : E[k] < 65536 := hlt _ (List.getElem_mem hkE)
    unfold segLoop
    rw [idx_ok _ S k hkS, ok_bind, idx_ok _ E k hkE, ok_bind,
      List.drop_eq_getElem_cons hkE, List.drop_eq_getElem_cons hkS,
      List.drop_eq_getElem_cons hkD, List.drop_eq_getElem_cons hkR]
    unfold SfntV.Cmap4.decodeLoop
    dsimp only
    by_cases hc : S[k] < pe ∨ E[k] + 1 ≤ S[k]
    · rw [if_pos hc, if_pos hc]
      exact rfl
    · rw [if_neg hc, if_neg hc, idx_ok _ R k hkR, ok_bind]
      unfold SfntV.Cmap4.decodeSeg
      by_cases hro : R[k] = 0
      · rw [if_pos hro, if_pos hro, idx_ok _ D k hkD, ok_bind]
        dsimp only
        obtain ⟨h1, h2, h3⟩ := deltaLoop_eq D[k] (E[k] + 1 - S[k]) S[k] m c.tick
        have ih := segLoop_good sc E S D R ga a hga hE hS hD hR hlt n (k + 1) (E[k] + 1)
          (deltaLoop D[k] (E[k] + 1 - S[k]) S[k] m c.tick).1
          (deltaLoop D[k] (E[k] + 1 - S[k]) S[k] m c.tick).2 (by omega) (by omega)
        rw [h1, List.reverse_append, List.reverse_reverse, ← h1] at ih
        refine Good_mono ih ?_ ?_
        · rw [h2]; simp only [Cost.tick]; omega
        · rw [show c.tick.alloc = c.alloc from rfl] at h3; omega
      · rw [if_neg hro, if_neg hro, idx_ok _ R k hkR, ok_bind]
        subst hga
        dsimp only
        by_cases hd : ((R[k] / 2 : Nat) : Int) - ((sc - k : Nat) : Int) < 0 ∨
            ((R[k] / 2 : Nat) : Int) - ((sc - k : Nat) : Int) + ((E[k] + 1 - S[k] : Nat) : Int) >
              (a.glyphIdArray.length : Int)
        · rw [if_pos hd, if_pos hd]
          by_cases hs : S[k] = 0xFFFF
          · rw [if_pos hs, if_pos hs]
            dsimp only
            have ih := segLoop_good sc E S D R a.glyphIdArray a rfl hE hS hD hR hlt n (k + 1) (E[k] + 1)
              m c.tick (by omega) (by omega)
            rw [List.append_nil]
            refine Good_mono ih ?_ ?_
            · simp only [Cost.tick]; omega
            · simp only [Cost.tick]; omega
          · rw [if_neg hs, if_neg hs]
            exact rfl
        · rw [if_neg hd, if_neg hd]
          obtain ⟨c', hgl, h2, h3⟩ := glyphLoop_eq a.glyphIdArray D k
            (((R[k] / 2 : Nat) : Int) - ((sc - k : Nat) : Int)).toNat S[k] hkD (E[k] + 1 - S[k]) S[k] m c.tick
            (by omega)
          rw [hgl, ok_bind]
          dsimp only
          have ih := segLoop_good sc E S D R a.glyphIdArray a rfl hE hS hD hR hlt n (k + 1) (E[k] + 1)
            ((List.filterMap (glyphEntry a.glyphIdArray (((R[k] / 2 : Nat) : Int) - ((sc - k : Nat) : Int)).toNat S[k] D[k])
              (List.range' S[k] (E[k] + 1 - S[k]))).reverse ++ m) c' (by omega) (by omega)
          rw [List.reverse_append, List.reverse_reverse] at ih
          refine Good_mono ih ?_ ?_
          · rw [h2]; simp only [Cost.tick]; omega
          · simp only [Cost.tick] at h3; omega


/-! ## the whole function -/

/-- forget panic sites, error classes and the cost -/
def erase : Outcome (List (Nat × Nat) × Cost) → Option (List (Nat × Nat))
  | .ok (l, _) => some l
  | _ => none

theorem headD_eq (b : Bytes) (h : 7 < b.length) :
    (SfntV.Cmap4.wordsOf (b.drop 6)).headD 0 = be b[6] b[7] := by
  rw [List.drop_eq_getElem_cons (by omega : 6 < b.length),
    List.drop_eq_getElem_cons (by omega : 6 + 1 < b.length), wordsOf_cons]
  rfl

/-- the combined statement about an outcome `o` of the checked model on an input of `len` bytes
on which the value-level model yields `v`: agreement, no panic, and the cost bound -/
def SpecV (len : Nat) (v : Option (List (Nat × Nat))) (o : Outcome (List (Nat × Nat) × Cost)) : Prop :=
  match o with
  | .ok (l, c) => v = some l ∧ c.steps ≤ len / 2 + len / 8 + 65536 ∧ c.alloc ≤ len / 2 + 65536
  | .err _ => v = none
  | .panic _ => False

theorem decodeFormat4_spec (b : Bytes) : SpecV b.length (SfntV.Cmap4.decode b) (decodeFormat4 b) := by
  unfold decodeFormat4 SfntV.Cmap4.decode
  by_cases h1 : b.length % 2 ≠ 0 ∨ b.length < 16
  · rw [if_pos h1, if_pos h1]
    exact rfl
  rw [if_neg h1, if_neg h1, idx_ok _ b 6 (by omega), ok_bind, idx_ok _ b 7 (by omega), ok_bind,
    ← headD_eq b (by omega)]
  dsimp only
  by_cases h2 : (SfntV.Cmap4.wordsOf (b.drop 6)).headD 0 % 2 ≠ 0 ∨
      4 * (SfntV.Cmap4.wordsOf (b.drop 6)).headD 0 + 16 > b.length
  · rw [if_pos h2, if_pos h2]
    exact rfl
  rw [if_neg h2, if_neg h2, wordsLoop_eq b _ 14 [] _ (by omega), ok_bind]
  unfold SfntV.Cmap4.unpack
  rw [if_neg (by omega : ¬ b.length < 16)]
  dsimp only
  generalize hX : (SfntV.Cmap4.wordsOf (b.drop 6)).headD 0 = X2 at h2 ⊢
  have hwl : (SfntV.Cmap4.wordsOf (b.drop 14)).length = (b.length - 14) / 2 :=
    wordsOf_length _ _ (by rw [List.length_drop])
  have hwlt : ∀ x ∈ SfntV.Cmap4.wordsOf (b.drop 14), x < 65536 := wordsOf_lt _ _ rfl
  generalize hw : SfntV.Cmap4.wordsOf (b.drop 14) = w at hwl hwlt ⊢
  rw [List.reverse_nil, List.nil_append, if_neg (by omega : ¬ w.length < 4 * (X2 / 2) + 1)]
  rw [slice_ok _ w 0 (X2 / 2) (by omega) (by omega), ok_bind,
    slice_ok _ w (X2 / 2 + 1) (2 * (X2 / 2) + 1) (by omega) (by omega), ok_bind,
    slice_ok _ w (2 * (X2 / 2) + 1) (3 * (X2 / 2) + 1) (by omega) (by omega), ok_bind,
    slice_ok _ w (3 * (X2 / 2) + 1) (4 * (X2 / 2) + 1) (by omega) (by omega), ok_bind,
    slice_ok _ w (4 * (X2 / 2) + 1) w.length (by omega) (by omega), ok_bind]
  have e1 : (w.drop 0).take (X2 / 2 - 0) = w.take (X2 / 2) := by simp
  have e2 : 2 * (X2 / 2) + 1 - (X2 / 2 + 1) = X2 / 2 := by omega
  have e3 : 3 * (X2 / 2) + 1 - (2 * (X2 / 2) + 1) = X2 / 2 := by omega
  have e4 : 4 * (X2 / 2) + 1 - (3 * (X2 / 2) + 1) = X2 / 2 := by omega
  have e5 : (w.drop (4 * (X2 / 2) + 1)).take (w.length - (4 * (X2 / 2) + 1)) = w.drop (4 * (X2 / 2) + 1) :=
    List.take_of_length_le (by rw [List.length_drop]; omega)
  rw [e1, e2, e3, e4, e5]
  dsimp only
  have hg := segLoop_good (X2 / 2) (w.take (X2 / 2)) ((w.drop (X2 / 2 + 1)).take (X2 / 2))
    ((w.drop (2 * (X2 / 2) + 1)).take (X2 / 2)) ((w.drop (3 * (X2 / 2) + 1)).take (X2 / 2))
    (w.drop (4 * (X2 / 2) + 1))
    ⟨w.take (X2 / 2), (w.drop (X2 / 2 + 1)).take (X2 / 2), (w.drop (2 * (X2 / 2) + 1)).take (X2 / 2),
      (w.drop (3 * (X2 / 2) + 1)).take (X2 / 2), w.drop (4 * (X2 / 2) + 1)⟩ rfl
    (by rw [List.length_take]; omega)
    (by rw [List.length_take, List.length_drop]; omega)
    (by rw [List.length_take, List.length_drop]; omega)
    (by rw [List.length_take, List.length_drop]; omega)
    (fun x hx => hwlt x (List.mem_of_mem_take hx))
    (X2 / 2) 0 0 []
    ⟨(Cost.zero.tick.mem ((b.length - 14) / 2)).steps + (b.length - 14 + 1) / 2,
      (Cost.zero.tick.mem ((b.length - 14) / 2)).alloc⟩ (by omega) (by omega)
  simp only [List.drop_zero, List.reverse_nil] at hg
  generalize segLoop _ _ _ _ _ _ _ _ _ _ _ = o at hg ⊢
  cases o with
  | ok r =>
    obtain ⟨m', c'⟩ := r
    unfold Good at hg
    dsimp only at hg
    obtain ⟨g1, g2, g3⟩ := hg
    simp only [Cost.zero, Cost.tick, Cost.mem] at g2 g3
    refine ⟨g1, ?_, ?_⟩
    · show c'.steps ≤ _
      omega
    · show c'.alloc ≤ _
      omega
  | err e => exact hg
  | panic s => exact hg

/-! ## the theorems of property C02 -/

/-- `decodeFormat4` never panics, whatever the bytes are -/
theorem decodeFormat4_noPanic (b : Bytes) : (decodeFormat4 b).noPanic := by
  have h := decodeFormat4_spec b
  cases hd : decodeFormat4 b with
  | ok r => exact True.intro
  | err e => exact True.intro
  | panic s => rw [hd] at h; exact h

/-- cost: at most `|in|/2` word reads + `segCount ≤ |in|/8` segments + one inner iteration per
16-bit code; allocation: the `words` array + at most one map entry per 16-bit code.  The constant
65536 is genuine (24 bytes with the single segment 0..0xFFFF yield 65535 map entries). -/
theorem decodeFormat4_cost (b : Bytes) (r : List (Nat × Nat)) (c : Cost)
    (h : decodeFormat4 b = .ok (r, c)) :
    c.steps ≤ b.length / 2 + b.length / 8 + 65536 ∧ c.alloc ≤ b.length / 2 + 65536 := by
  have hs := decodeFormat4_spec b
  rw [h] at hs
  exact hs.2

/-- the same bound in the shape `a·|in| + k` -/
theorem decodeFormat4_cost_linear (b : Bytes) (r : List (Nat × Nat)) (c : Cost)
    (h : decodeFormat4 b = .ok (r, c)) :
    c.steps ≤ 1 * b.length + 65536 ∧ c.alloc ≤ 1 * b.length + 65536 := by
  have := decodeFormat4_cost b r c h
  omega

/-- bridging: erasing panic sites, error classes and costs from the checked model gives the
value-level model of C09 on every input -/
theorem decodeFormat4_erase (b : Bytes) : erase (decodeFormat4 b) = SfntV.Cmap4.decode b := by
  have h := decodeFormat4_spec b
  cases hd : decodeFormat4 b with
  | ok r =>
    obtain ⟨l, c⟩ := r
    rw [hd] at h
    exact h.1.symm
  | err e => rw [hd] at h; exact h.symm
  | panic s => rw [hd] at h; exact h.elim

/-- `Format4.Lookup` is a range check followed by a map read: it cannot panic, for any map and rune -/
theorem lookup_noPanic (m : List (Nat × Nat)) (r : Int) : (lookup m r).noPanic := by
  unfold lookup
  split <;> exact True.intro

/-- `Format4.CodeRange` ranges over the map comparing keys: it cannot panic, for any map -/
theorem codeRange_noPanic (m : List (Nat × Nat)) : (codeRange m).noPanic := by
  unfold codeRange
  split <;> exact True.intro

/-- inside the 16-bit range `Lookup` is the map read of the value-level model -/
theorem lookup_eq (m : List (Nat × Nat)) (r : Int) (h0 : 0 ≤ r) (h1 : r ≤ 0xFFFF) :
    lookup m r = .ok (SfntV.Cmap4.alistGet m r.toNat) := by
  unfold lookup
  rw [if_neg (by omega), Nat.mod_eq_of_lt (by omega)]
  rfl

/-! ## non-vacuity -/

/-- one segment 65..70 with idDelta 0xFFC0 (so 65 ↦ 1) and the terminating 0xFFFF segment
(idDelta 1: 0xFFFF + 1 wraps to glyph 0, no entry) -/
def ex1 : Bytes :=
  [0,4, 0,32, 0,0, 0,4, 0,0, 0,0, 0,0,  0,70, 255,255,  0,0,  0,65, 255,255,  255,192, 0,1,  0,0, 0,0]

example : decodeFormat4 ex1 = .ok ([(65,1),(66,2),(67,3),(68,4),(69,5),(70,6)], ⟨19, 15⟩) := by
  decide +kernel

/-- a segment 65..67 served from the glyph id array (idRangeOffset 4, entries 9, 0, 7, idDelta 1)
and a 0xFFFF segment with an invalid range offset, which is skipped leniently -/
def ex2 : Bytes :=
  [0,4, 0,38, 0,0, 0,4, 0,0, 0,0, 0,0,  0,67, 255,255,  0,0,  0,65, 255,255,  0,1, 0,1,  0,4, 0,200,
   0,9, 0,0, 0,7]

example : decodeFormat4 ex2 = .ok ([(65,10),(67,8)], ⟨18, 14⟩) := by decide +kernel

/-- hence (by `decodeFormat4_erase`) the value-level model accepts `ex1` too -/
example : SfntV.Cmap4.decode ex1 = some [(65,1),(66,2),(67,3),(68,4),(69,5),(70,6)] := by
  rw [← decodeFormat4_erase,
    show decodeFormat4 ex1 = .ok ([(65,1),(66,2),(67,3),(68,4),(69,5),(70,6)], ⟨19, 15⟩) by decide +kernel]
  rfl

example : lookup [(65,1),(66,2)] 66 = .ok 2 := by decide
example : lookup [(65,1),(66,2)] (-5) = .ok 0 := by decide
example : lookup [(65,1),(66,2)] 0x10041 = .ok 0 := by decide
example : codeRange [(65,1),(70,2),(66,3)] = .ok (65, 70) := by decide

end SfntV.Total.Cmap4
