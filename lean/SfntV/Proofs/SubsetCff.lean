/-
C10 — SubsetCFF: the private dictionary (and font matrix) selected for a glyph of the subset is
the one the original font selected for the original glyph.
-/
import SfntV.Model.Subset

namespace SfntV.Subset

def AccOK (f : Font) (a : PrivAcc) : Prop :=
  (∀ (p k : Nat), a.pIdxMap.lookup p = some k →
      a.privates[k]? = some (f.privates.getD p 0) ∧
      (f.cidKeyed = true → a.matrices[k]? = some (f.matrices.getD p 0))) ∧
  (f.cidKeyed = true → a.matrices.length = a.privates.length)

theorem getElem?_lt {α : Type} {l : List α} {k : Nat} {x : α} (h : l[k]? = some x) : k < l.length := by
  rcases Nat.lt_or_ge k l.length with h1 | h1
  · exact h1
  · rw [List.getElem?_eq_none h1] at h; cases h

theorem privLoop_inv (f : Font) : ∀ (gs : List Gid) (a : PrivAcc), AccOK f a →
    AccOK f (privLoop f gs a) ∧
    (∀ (p k : Nat), a.pIdxMap.lookup p = some k → (privLoop f gs a).pIdxMap.lookup p = some k) ∧
    (∀ g ∈ gs, ∃ k : Nat, (privLoop f gs a).pIdxMap.lookup (f.fdSelect.getD g 0) = some k) := by
  intro gs
  induction gs with
  | nil => intro a h; exact ⟨h, fun _ _ h => h, by simp⟩
  | cons g gs ih =>
    intro a h
    simp only [privLoop]
    cases hl : a.pIdxMap.lookup (f.fdSelect.getD g 0) with
    | some k0 =>
      simp only
      have hi := ih a h
      refine ⟨hi.1, hi.2.1, ?_⟩
      intro x hx
      rcases List.mem_cons.1 hx with rfl | hx
      · exact ⟨k0, hi.2.1 _ _ hl⟩
      · exact hi.2.2 x hx
    | none =>
      simp only
      have hok : AccOK f ⟨(f.fdSelect.getD g 0, a.privates.length) :: a.pIdxMap,
          a.privates ++ [f.privates.getD (f.fdSelect.getD g 0) 0],
          if f.cidKeyed then a.matrices ++ [f.matrices.getD (f.fdSelect.getD g 0) 0] else a.matrices⟩ := by
        refine ⟨?_, ?_⟩
        · intro p k hk
          simp only [List.lookup_cons] at hk
          by_cases hp : p = f.fdSelect.getD g 0
          · subst hp
            simp only [BEq.rfl] at hk
            injection hk with hk; subst hk
            refine ⟨by rw [List.getElem?_append_right (Nat.le_refl _)]; simp, ?_⟩
            intro hc
            simp only [hc, if_true]
            rw [← h.2 hc, List.getElem?_append_right (Nat.le_refl _)]; simp
          · have hb : (p == f.fdSelect.getD g 0) = false := by simpa using hp
            simp only [hb] at hk
            have := h.1 p k hk
            refine ⟨by rw [List.getElem?_append_left (getElem?_lt this.1)]; exact this.1, ?_⟩
            intro hc
            simp only [hc, if_true]
            have hm := this.2 hc
            rw [List.getElem?_append_left (getElem?_lt hm)]; exact hm
        · intro hc
          simp only [hc, if_true, List.length_append, List.length_cons, List.length_nil]
          rw [h.2 hc]
      have hi := ih _ hok
      refine ⟨hi.1, ?_, ?_⟩
      · intro p k hk
        apply hi.2.1
        simp only [List.lookup_cons]
        have hb : (p == f.fdSelect.getD g 0) = false := by
          cases hx : (p == f.fdSelect.getD g 0)
          · rfl
          · have : p = f.fdSelect.getD g 0 := by simpa using hx
            rw [this, hl] at hk; cases hk
        simp only [hb]; exact hk
      · intro x hx
        rcases List.mem_cons.1 hx with rfl | hx
        · exact ⟨a.privates.length, hi.2.1 _ _ (by simp [List.lookup_cons])⟩
        · exact hi.2.2 x hx

/-- the private dictionary (and, for CID-keyed fonts, the font matrix) selected for glyph `j` of the
subset is the one the original font selected for the original glyph -/
theorem privLoop_spec (f : Font) (glyphs : List Gid) (j : Nat) (old : Gid)
    (hj : glyphs[j]? = some old) :
    ∃ k : Nat, (subFdSelect f (privLoop f glyphs ⟨[], [], []⟩) glyphs)[j]? = some k ∧
      (privLoop f glyphs ⟨[], [], []⟩).privates[k]? = some (f.privates.getD (f.fdSelect.getD old 0) 0) ∧
      (f.cidKeyed = true →
        (privLoop f glyphs ⟨[], [], []⟩).matrices[k]? = some (f.matrices.getD (f.fdSelect.getD old 0) 0)) := by
  have h0 : AccOK f ⟨[], [], []⟩ := ⟨by simp, by simp⟩
  have hinv := privLoop_inv f glyphs ⟨[], [], []⟩ h0
  obtain ⟨k, hk⟩ := hinv.2.2 old (List.mem_of_getElem? hj)
  have hv := hinv.1.1 _ k hk
  unfold subFdSelect
  split
  · rename_i h1
    have hk0 : k = 0 := by have := getElem?_lt hv.1; omega
    subst hk0
    exact ⟨0, by simp [List.getElem?_map, hj], hv.1, hv.2⟩
  · exact ⟨k, by rw [List.getElem?_map, hj, Option.map_some, hk]; rfl, hv.1, hv.2⟩

end SfntV.Subset
