/-
C02 (decoders are total): the TRUE cost bounds of the checked-index models of the GPOS subtable
readers of lookup types 1–3, `anchor.Read` and `markarray.Read` (`SfntV.Total.GposSub`).
`|b|` is the length of the whole input, `L = |b|/2`.

* `anchor.Read`: 1 step, no allocation.
* `markarray.Read`, `readGpos3_1`: genuinely linear (+ the coverage cap): every record is at least
  4 bytes of sequentially read input and costs a constant, also when all anchor offsets alias ONE
  anchor.
* `readGpos1_1`: constant + coverage.
* `readGpos1_2`, `readGpos2_2`: caps by the 16-bit counts — the record loops run `valueCount`
  (resp. `class1Count·class2Count < 65536`) times and read NOTHING when the value formats select no
  field, so the cost is bounded by a constant but not by the input length.
* `readGpos2_1`: `pairSetCount × (pair-set cost)` — pair-set offsets may all alias ONE pair set,
  every visit is charged: quadratic in `|b|` (see the evaluated family at the end).
-/
import SfntV.Proofs.TotalGposSub

namespace SfntV.Total.GposSub
open SfntV SfntV.Total SfntV.Total.Gdef SfntV.Total.Otl

/-! ## coverage: number of entries -/

theorem covLoop1_len (b : Bytes) (m : Nat) : ∀ (n q i : Nat) (prev : Int) (acc : List (Nat × Nat))
    (c : Cost) (r : List (Nat × Nat)) (c' : Cost), acc.length = i →
    (acc.filter (fun p => p.2 < m)).length ≤ m →
    covLoop1 b n q i prev acc c = .ok (r, c') →
    r.length + c.alloc = acc.length + c'.alloc ∧ (r.filter (fun p => p.2 < m)).length ≤ m
  | 0, _, i, _, acc, _, r, _, hl, hf, h => by
    unfold covLoop1 at h
    cases h
    rw [List.filter_reverse, List.length_reverse, List.length_reverse]
    exact ⟨rfl, hf⟩
  | n+1, q, i, prev, acc, c, r, c', hl, hf, h => by
    unfold covLoop1 at h
    obtain ⟨gid, _, h⟩ := bind_eq_ok h
    split at h
    · cases h
    have ih := covLoop1_len b m n _ (i + 1) _ _ _ r c' (by rw [List.length_cons, hl]) ?_ h
    · simp only [List.length_cons, Cost.tick, Cost.mem] at ih
      exact ⟨by omega, ih.2⟩
    · rw [List.filter_cons]
      have := List.length_filter_le (fun p : Nat × Nat => decide (p.2 < m)) acc
      split
      · rename_i hlt
        have hlt : i < m := of_decide_eq_true hlt
        rw [List.length_cons]; omega
      · exact hf

theorem zipIdx_filter_le : ∀ (l : List α) (pos m : Nat),
    ((l.zipIdx pos).filter (fun p => p.2 < m)).length ≤ m - pos
  | [], _, _ => Nat.zero_le _
  | x :: l, pos, m => by
    rw [List.zipIdx_cons, List.filter_cons]
    have ih := zipIdx_filter_le l (pos + 1) m
    split
    · rename_i hlt
      have hlt : pos < m := of_decide_eq_true hlt
      rw [List.length_cons]; omega
    · omega

theorem covLoop2_len (b : Bytes) (m : Nat) : ∀ (n q pos : Nat) (prev : Int)
    (acc : List (Nat × Nat)) (c : Cost) (r : List (Nat × Nat)) (c' : Cost), acc.length = pos →
    (acc.filter (fun p => p.2 < m)).length ≤ m →
    covLoop2 b n q pos prev acc c = .ok (r, c') →
    r.length + c.alloc = acc.length + c'.alloc ∧ (r.filter (fun p => p.2 < m)).length ≤ m
  | 0, _, pos, _, acc, _, r, _, hl, hf, h => by
    unfold covLoop2 at h
    cases h
    rw [List.filter_reverse, List.length_reverse, List.length_reverse]
    exact ⟨rfl, hf⟩
  | n+1, q, pos, prev, acc, c, r, c', hl, hf, h => by
    unfold covLoop2 at h
    obtain ⟨buf, _, h⟩ := bind_eq_ok h
    obtain ⟨s, _, h⟩ := bind_eq_ok h
    obtain ⟨e, _, h⟩ := bind_eq_ok h
    obtain ⟨sci, _, h⟩ := bind_eq_ok h
    split at h
    · cases h
    have ih := covLoop2_len b m n _ (pos + (e + 1 - s)) _ _ _ r c' ?_ ?_ h
    · simp only [List.length_append, List.length_reverse, List.length_zipIdx, List.length_range',
        Cost.tick, Cost.mem] at ih
      exact ⟨by omega, ih.2⟩
    · rw [List.length_append, List.length_reverse, List.length_zipIdx, List.length_range', hl]
      omega
    · rw [List.filter_append, List.filter_reverse, List.length_append, List.length_reverse]
      have h1 := zipIdx_filter_le (List.range' s (e + 1 - s)) pos m
      have h2 := List.length_filter_le (fun p : Nat × Nat => decide (p.2 < m)) acc
      omega

/-- `coverage.Read` allocates the map and one entry per element of the result; at most `m` of the
entries have a coverage index below `m` -/
theorem coverageRead_len (b : Bytes) (pos m : Nat) (r : List (Nat × Nat)) (c : Cost)
    (h : coverageRead b pos = .ok (r, c)) :
    r.length + 1 = c.alloc ∧ (r.filter (fun p => p.2 < m)).length ≤ m := by
  unfold coverageRead at h
  obtain ⟨format, _, h⟩ := bind_eq_ok h
  dsimp only at h
  split at h
  · obtain ⟨n, _, h⟩ := bind_eq_ok h
    have := covLoop1_len b m n _ 0 _ [] _ r c rfl (Nat.zero_le _) h
    simp only [List.length_nil, Cost.tick, Cost.mem, Cost.zero] at this
    exact ⟨by omega, this.2⟩
  split at h
  · obtain ⟨n, _, h⟩ := bind_eq_ok h
    have := covLoop2_len b m n _ 0 _ [] _ r c rfl (Nat.zero_le _) h
    simp only [List.length_nil, Cost.tick, Cost.mem, Cost.zero] at this
    exact ⟨by omega, this.2⟩
  · cases h

/-! ## value records -/

theorem vrFields_cost (b : Bytes) (fmt : Nat) : ∀ (fuel k q : Nat) (c : Cost) (fs : List Nat)
    (q' : Nat) (c' : Cost), vrFields b fmt fuel k q c = .ok (fs, q', c') →
    q ≤ q' ∧ c'.steps ≤ c.steps + fuel ∧ c.steps ≤ c'.steps ∧ c'.alloc = c.alloc
  | 0, _, _, _, _, _, _, h => by
    unfold vrFields at h
    cases h
    exact ⟨Nat.le_refl _, Nat.le_refl _, Nat.le_refl _, rfl⟩
  | fuel+1, k, q, c, fs, q', c', h => by
    unfold vrFields at h
    split at h
    · obtain ⟨v, _, h⟩ := bind_eq_ok h
      obtain ⟨r, hr, h⟩ := bind_eq_ok h
      obtain ⟨r1, r2, r3⟩ := r
      have ih := vrFields_cost b fmt fuel _ _ _ _ _ _ hr
      cases h
      simp only [Cost.tick] at ih
      dsimp only
      omega
    · obtain ⟨r, hr, h⟩ := bind_eq_ok h
      obtain ⟨r1, r2, r3⟩ := r
      have ih := vrFields_cost b fmt fuel _ _ _ _ _ _ hr
      cases h
      dsimp only
      omega

/-- one value record: at most 8 reads and one object -/
theorem vrRead_cost {b : Bytes} {fmt q : Nat} {c : Cost} {v : VR} {q' : Nat} {c' : Cost}
    (h : vrRead b fmt q c = .ok (v, q', c')) :
    q ≤ q' ∧ c'.steps ≤ c.steps + 8 ∧ c.steps ≤ c'.steps ∧ c'.alloc ≤ c.alloc + 1 ∧
      c.alloc ≤ c'.alloc := by
  unfold vrRead at h
  split at h
  · cases h
    exact ⟨Nat.le_refl _, Nat.le_add_right _ _, Nat.le_refl _, Nat.le_add_right _ _, Nat.le_refl _⟩
  · obtain ⟨r, hr, h⟩ := bind_eq_ok h
    obtain ⟨r1, r2, r3⟩ := r
    have := vrFields_cost b fmt _ _ _ _ _ _ _ hr
    cases h
    simp only [Cost.mem] at this
    dsimp only
    omega

/-! ## anchor.Read, markarray.Read -/

/-- `anchor.Read`: one read, nothing allocated -/
theorem anchorRead_cost (b : Bytes) (pos : Nat) (a : Anchor) (c : Cost)
    (h : anchorRead b pos = .ok (a, c)) : c.steps = 1 ∧ c.alloc = 0 := by
  unfold anchorRead at h
  obtain ⟨buf, _, h⟩ := bind_eq_ok h
  obtain ⟨f, _, h⟩ := bind_eq_ok h
  obtain ⟨x, _, h⟩ := bind_eq_ok h
  obtain ⟨y, _, h⟩ := bind_eq_ok h
  split at h
  · cases h
  · cases h
    exact ⟨rfl, rfl⟩

theorem maLoop2_cost (b : Bytes) (pos : Nat) : ∀ (offs : List Nat) (i : Nat)
    (res : List (Nat × Anchor)) (c : Cost) (r : List (Nat × Anchor)) (c' : Cost),
    maLoop2 b pos offs i res c = .ok (r, c') →
    c'.steps = c.steps + 2 * offs.length ∧ c'.alloc = c.alloc
  | [], _, _, _, _, _, h => by
    unfold maLoop2 at h
    cases h
    exact ⟨rfl, rfl⟩
  | o :: offs, i, res, c, r, c', h => by
    unfold maLoop2 at h
    obtain ⟨a, ha, h⟩ := bind_eq_ok h
    obtain ⟨x, _, h⟩ := bind_eq_ok h
    obtain ⟨res1, _, h⟩ := bind_eq_ok h
    obtain ⟨a1, a2⟩ := a
    have hc := anchorRead_cost _ _ _ _ ha
    have ih := maLoop2_cost b pos offs _ _ _ _ _ h
    simp only [Cost.tick, cadd, List.length_cons] at ih ⊢
    omega

/-- `markarray.Read` is linear: `5·markCount + 1` steps and `2·markCount` elements with
`4·markCount ≤ |b|` (also when all anchor offsets alias one anchor) -/
theorem markarrayRead_cost (b : Bytes) (pos : Nat) (numMarks : Int) (r : List (Nat × Anchor))
    (c : Cost) (h : markarrayRead b pos numMarks = .ok (r, c)) :
    c.steps ≤ 5 * (b.length / 4) + 1 ∧ c.alloc ≤ 2 * (b.length / 4) := by
  unfold markarrayRead at h
  obtain ⟨mc0, hmc0, h⟩ := bind_eq_ok h
  obtain ⟨_, hlt, _⟩ := readU16_ok hmc0
  have hmc := markCount_lt mc0 numMarks hlt
  dsimp only at h
  rw [mkSlice_ok _ _ _ hmc, ok_bind, mkSlice_ok _ _ _ hmc, ok_bind] at h
  obtain ⟨x, hx, h⟩ := bind_eq_ok h
  obtain ⟨res', offs', c'⟩ := x
  obtain ⟨_, h2, h3, h4, h5⟩ := maLoop1_ok b _ _ _ _ _ _ _ _ _ hx
  obtain ⟨h6, h7⟩ := maLoop2_cost _ _ _ _ _ _ _ _ h
  simp only [List.length_replicate, Cost.tick, Cost.mem, Cost.zero] at h2 h3 h4 h6 h7
  omega


/-! ## GPOS 1.1, 1.2 -/

/-- `readGpos1_1`: the header read, at most 8 field reads, one coverage table:
`steps ≤ |b|/2 + 65547`, `alloc ≤ 65539` -/
theorem read11_cost (b : Bytes) (pos : Nat) (r : List (Nat × Nat) × VR) (c : Cost)
    (h : read11 b pos = .ok (r, c)) :
    c.steps ≤ b.length / 2 + 65547 ∧ c.alloc ≤ 65539 := by
  unfold read11 at h
  obtain ⟨buf, _, h⟩ := bind_eq_ok h
  obtain ⟨co, _, h⟩ := bind_eq_ok h
  obtain ⟨vf, _, h⟩ := bind_eq_ok h
  obtain ⟨x, hx, h⟩ := bind_eq_ok h
  obtain ⟨v, q', c1⟩ := x
  obtain ⟨cv, hcv, h⟩ := bind_eq_ok h
  obtain ⟨cvl, cvc⟩ := cv
  have h1 := vrRead_cost hx
  have h2 := coverageRead_cost _ _ _ _ hcv
  cases h
  simp only [Cost.tick, Cost.mem, Cost.zero, cadd] at h1 ⊢
  omega

theorem vrLoop_cost (b : Bytes) (fmt : Nat) : ∀ (n q : Nat) (acc : List VR) (c : Cost)
    (vs : List VR) (c' : Cost), vrLoop b fmt n q acc c = .ok (vs, c') →
    c'.steps ≤ c.steps + 9 * n ∧ c'.alloc ≤ c.alloc + n
  | 0, _, _, _, _, _, h => by
    unfold vrLoop at h
    cases h
    exact ⟨Nat.le_refl _, Nat.le_refl _⟩
  | n+1, q, acc, c, vs, c', h => by
    unfold vrLoop at h
    obtain ⟨x, hx, h⟩ := bind_eq_ok h
    obtain ⟨v, q', c1⟩ := x
    have h1 := vrRead_cost hx
    have ih := vrLoop_cost b fmt n _ _ _ _ _ h
    simp only [Cost.tick] at h1 ih
    omega

/-- `readGpos1_2`, with the count word `n = valueCount` exposed: `9·n` steps and `2·n` elements for
the records (the loop runs `n` times even when the value format selects no field: the cost is
capped by the 16-bit count, not by the input length), plus coverage and pruning -/
theorem read12_cost_n (b : Bytes) (pos : Nat) (r : List (Nat × Nat) × List VR) (c : Cost)
    (h : read12 b pos = .ok (r, c)) :
    ∃ n, n < 65536 ∧ c.steps ≤ 9 * n + b.length / 2 + 131075 ∧ c.alloc ≤ 2 * n + 65538 := by
  unfold read12 at h
  obtain ⟨buf, _, h⟩ := bind_eq_ok h
  obtain ⟨co, _, h⟩ := bind_eq_ok h
  obtain ⟨vf, _, h⟩ := bind_eq_ok h
  obtain ⟨n, hn, h⟩ := bind_eq_ok h
  have hnlt := w16_lt hn
  rw [mkSlice_ok _ _ _ hnlt, ok_bind] at h
  obtain ⟨x, hx, h⟩ := bind_eq_ok h
  obtain ⟨vs, c1⟩ := x
  obtain ⟨cv, hcv, h⟩ := bind_eq_ok h
  obtain ⟨cvl, cvc⟩ := cv
  obtain ⟨p, hp, h⟩ := bind_eq_ok h
  obtain ⟨pp, pc⟩ := p
  have h1 := vrLoop_cost _ _ _ _ _ _ _ _ hx
  have h2 := coverageRead_cost _ _ _ _ hcv
  have h3 := coverageRead_len _ _ 0 _ _ hcv
  obtain ⟨_, _, _, h4, h5⟩ := prune_ok hp (coverageRead_idx _ _ _ _ hcv)
  cases h
  simp only [Cost.tick, Cost.mem, Cost.zero, cadd] at h1 h4 h5 ⊢
  exact ⟨n, hnlt, by omega, by omega⟩

/-- `readGpos1_2`: `steps ≤ |b|/2 + 720890`, `alloc ≤ 196608` -/
theorem read12_cost (b : Bytes) (pos : Nat) (r : List (Nat × Nat) × List VR) (c : Cost)
    (h : read12 b pos = .ok (r, c)) :
    c.steps ≤ b.length / 2 + 720890 ∧ c.alloc ≤ 196608 := by
  obtain ⟨n, _, _, _⟩ := read12_cost_n b pos r c h
  omega

/-! ## GPOS 2.1 -/

theorem pairs_cost (b : Bytes) (f1 f2 : Nat) : ∀ (n q : Nat) (acc : PairSet) (c : Cost)
    (ps : PairSet) (c' : Cost), pairs b f1 f2 n q acc c = .ok (ps, c') →
    ps.length = acc.length + n ∧ 2 * n ≤ b.length - q ∧ c'.steps ≤ c.steps + 18 * n ∧
      c'.alloc ≤ c.alloc + 3 * n
  | 0, _, acc, _, _, _, h => by
    unfold pairs at h
    cases h
    simp
  | n+1, q, acc, c, ps, c', h => by
    unfold pairs at h
    obtain ⟨g, hg, h⟩ := bind_eq_ok h
    obtain ⟨x1, hx1, h⟩ := bind_eq_ok h
    obtain ⟨v1, q1, c1⟩ := x1
    obtain ⟨x2, hx2, h⟩ := bind_eq_ok h
    obtain ⟨v2, q2, c2⟩ := x2
    obtain ⟨_, _, hq⟩ := readU16_ok hg
    have h1 := vrRead_cost hx1
    have h2 := vrRead_cost hx2
    have ih := pairs_cost b f1 f2 n _ _ _ _ _ h
    simp only [Cost.tick, Cost.mem, List.length_cons] at h1 h2 ih
    omega

/-- every pair set visited costs `2 + 18·pvc` steps and `4·pvc` elements with `pvc ≤ L`;
an offset that occurs `k` times is charged `k` times -/
theorem pairSets_cost (b : Bytes) (pos f1 f2 L : Nat) (hL : b.length / 2 ≤ L) :
    ∀ (offs : List Nat) (i : Nat) (adjust : List PairSet) (c : Cost) (a : List PairSet)
    (c' : Cost), (∀ s ∈ adjust, s.length ≤ L) →
    pairSets b pos f1 f2 offs i adjust c = .ok (a, c') →
    (∀ s ∈ a, s.length ≤ L) ∧ c'.steps ≤ c.steps + offs.length * (2 + 18 * L) ∧
      c'.alloc ≤ c.alloc + offs.length * (4 * L)
  | [], _, _, _, _, _, hs, h => by
    unfold pairSets at h
    cases h
    simp only [List.length_nil, Nat.zero_mul, Nat.add_zero]
    exact ⟨hs, Nat.le_refl _, Nat.le_refl _⟩
  | off :: rest, i, adjust, c, a, c', hs, h => by
    unfold pairSets at h
    obtain ⟨pvc, hpvc, h⟩ := bind_eq_ok h
    obtain ⟨_, hlt, _⟩ := readU16_ok hpvc
    rw [mkSlice_ok _ _ _ hlt, ok_bind] at h
    obtain ⟨x, hx, h⟩ := bind_eq_ok h
    obtain ⟨ps, c1⟩ := x
    obtain ⟨adj1, hadj1, h⟩ := bind_eq_ok h
    obtain ⟨hpl, hpq, hps, hpa⟩ := pairs_cost _ _ _ _ _ _ _ _ _ hx
    simp only [List.length_nil, Nat.zero_add] at hpl
    have hpvcL : pvc ≤ L := by omega
    have hs1 : ∀ s ∈ adj1, s.length ≤ L := by
      unfold setAt at hadj1
      split at hadj1
      · cases hadj1
        intro s hs'
        rcases List.mem_or_eq_of_mem_set hs' with h' | h'
        · exact hs s h'
        · rw [h', hpl]; exact hpvcL
      · cases hadj1
    obtain ⟨ih1, ih2, ih3⟩ := pairSets_cost b pos f1 f2 L hL rest _ _ _ _ _ hs1 h
    refine ⟨ih1, ?_, ?_⟩
    · rw [List.length_cons, Nat.succ_mul]
      simp only [Cost.tick, Cost.mem] at hps ih2
      generalize rest.length * (2 + 18 * L) = X at ih2 ⊢
      omega
    · rw [List.length_cons, Nat.succ_mul]
      simp only [Cost.tick, Cost.mem] at hpa ih3
      generalize rest.length * (4 * L) = X at ih3 ⊢
      omega

theorem mergeLoop_cost (adjust : List PairSet) (L : Nat) (hL : ∀ s ∈ adjust, s.length ≤ L) :
    ∀ (cov : List (Nat × Nat)) (c c' : Cost), mergeLoop adjust cov c = .ok c' →
    c'.steps ≤ c.steps + cov.length * (1 + L) ∧ c'.alloc ≤ c.alloc + cov.length * L
  | [], _, _, h => by
    unfold mergeLoop at h
    cases h
    simp
  | p :: rest, c, c', h => by
    unfold mergeLoop at h
    obtain ⟨s, hs, h⟩ := bind_eq_ok h
    have hsl : s.length ≤ L := by
      unfold idx at hs
      split at hs
      · rename_i v hv
        cases hs
        exact hL _ (List.mem_of_getElem? hv)
      · cases hs
    obtain ⟨ih1, ih2⟩ := mergeLoop_cost adjust L hL rest _ _ h
    rw [List.length_cons, Nat.succ_mul, Nat.succ_mul]
    simp only [Cost.tick, Cost.mem] at ih1 ih2
    generalize rest.length * (1 + L) = X at ih1 ⊢
    generalize rest.length * L = Y at ih2 ⊢
    omega

/-- `readGpos2_1`, with `N = pairSetCount` exposed (`N < 65536`, `2·N ≤ |b|`): every one of the `N`
pair-set offsets is followed — they may all point at ONE pair set of up to `|b|/2` records — so
`steps ≤ N·(19·(|b|/2) + 4) + |b|/2 + 131075` and `alloc ≤ N·(5·(|b|/2) + 2) + 65538`:
QUADRATIC in the input length, not linear -/
theorem read21_cost_n (b : Bytes) (pos : Nat) (r : List (Nat × Nat) × List PairSet) (c : Cost)
    (h : read21 b pos = .ok (r, c)) :
    ∃ N, N < 65536 ∧ 2 * N ≤ b.length ∧
      c.steps ≤ N * (19 * (b.length / 2) + 4) + b.length / 2 + 131075 ∧
      c.alloc ≤ N * (5 * (b.length / 2) + 2) + 65538 := by
  unfold read21 at h
  obtain ⟨buf, _, h⟩ := bind_eq_ok h
  obtain ⟨co, _, h⟩ := bind_eq_ok h
  obtain ⟨f1, _, h⟩ := bind_eq_ok h
  obtain ⟨f2, _, h⟩ := bind_eq_ok h
  obtain ⟨n, hn, h⟩ := bind_eq_ok h
  have hnlt := w16_lt hn
  rw [mkSlice_ok _ _ _ hnlt, ok_bind] at h
  obtain ⟨o, ho, h⟩ := bind_eq_ok h
  obtain ⟨ol, oc⟩ := o
  obtain ⟨hol, hos, hoa, hoq⟩ := readWords_ok _ _ _ _ _ _ _ _ ho
  simp only [List.length_nil, Nat.zero_add] at hol
  obtain ⟨cv, hcv, h⟩ := bind_eq_ok h
  obtain ⟨cvl, cvc⟩ := cv
  obtain ⟨p, hp, h⟩ := bind_eq_ok h
  obtain ⟨⟨pc, po⟩, pcost⟩ := p
  have h2 := coverageRead_cost _ _ _ _ hcv
  have h3 := coverageRead_len _ _ ol.length _ _ hcv
  dsimp only at hp
  obtain ⟨_, hpo, hpcl, h4, h5⟩ := prune_ok hp (coverageRead_idx _ _ _ _ hcv)
  dsimp only at h hpo hpcl
  -- the pruned coverage has at most as many entries as pair sets are kept
  have hpc : pc.length ≤ po.length := by
    unfold prune at hp
    split at hp
    · rw [slice_ok _ _ _ _ (by omega), ok_bind] at hp
      cases hp
      simp only [List.drop_zero, Nat.sub_zero, List.length_take]
      omega
    · split at hp
      · cases hp
        exact h3.2
      · cases hp
        omega
  rw [mkSlice_ok' _ _ _ (by omega), ok_bind] at h
  obtain ⟨a, ha, h⟩ := bind_eq_ok h
  obtain ⟨al, ac⟩ := a
  obtain ⟨c2, hc2, h⟩ := bind_eq_ok h
  obtain ⟨hal, has, haa⟩ := pairSets_cost b pos f1 f2 (b.length / 2) (Nat.le_refl _) _ _ _ _ _ _
    (fun s hs => by rw [(List.mem_replicate.mp hs).2]; exact Nat.zero_le _) ha
  obtain ⟨hm1, hm2⟩ := mergeLoop_cost al (b.length / 2) hal _ _ _ hc2
  cases h
  refine ⟨n, hnlt, by omega, ?_, ?_⟩
  · simp only [Cost.tick, Cost.mem, Cost.zero, cadd] at hos h4 has hm1 ⊢
    have e1 : po.length * (2 + 18 * (b.length / 2)) ≤ n * (2 + 18 * (b.length / 2)) :=
      Nat.mul_le_mul_right _ (by omega)
    have e2 : pc.length * (1 + b.length / 2) ≤ n * (1 + b.length / 2) :=
      Nat.mul_le_mul_right _ (by omega)
    have e3 : n * (19 * (b.length / 2) + 4) =
        n * (2 + 18 * (b.length / 2)) + n * (1 + b.length / 2) + n := by
      rw [← Nat.mul_add, ← Nat.mul_succ]
      congr 1
      omega
    generalize po.length * (2 + 18 * (b.length / 2)) = A at *
    generalize pc.length * (1 + b.length / 2) = B at *
    generalize n * (2 + 18 * (b.length / 2)) = A' at *
    generalize n * (1 + b.length / 2) = B' at *
    omega
  · simp only [Cost.tick, Cost.mem, Cost.zero, cadd] at hoa h5 haa hm2 ⊢
    have e1 : po.length * (4 * (b.length / 2)) ≤ n * (4 * (b.length / 2)) :=
      Nat.mul_le_mul_right _ (by omega)
    have e2 : pc.length * (b.length / 2) ≤ n * (b.length / 2) :=
      Nat.mul_le_mul_right _ (by omega)
    have e3 : n * (5 * (b.length / 2) + 2) =
        n * (4 * (b.length / 2)) + n * (b.length / 2) + n + n := by
      rw [← Nat.mul_add, Nat.mul_add n _ 2]
      have : 4 * (b.length / 2) + b.length / 2 = 5 * (b.length / 2) := by omega
      rw [this]
      omega
    generalize po.length * (4 * (b.length / 2)) = A at *
    generalize pc.length * (b.length / 2) = B at *
    generalize n * (4 * (b.length / 2)) = A' at *
    generalize n * (b.length / 2) = B' at *
    omega


/-! ## GPOS 2.2 -/

theorem recLoop_cost (b : Bytes) (f1 f2 : Nat) : ∀ (fuel i q : Nat) (recs : List (VR × VR))
    (c : Cost) (r : List (VR × VR)) (c' : Cost),
    recLoop b f1 f2 fuel i q recs c = .ok (r, c') →
    c'.steps ≤ c.steps + 17 * fuel ∧ c'.alloc ≤ c.alloc + 3 * fuel
  | 0, _, _, _, _, _, _, h => by
    unfold recLoop at h
    cases h
    exact ⟨Nat.le_refl _, Nat.le_refl _⟩
  | fuel+1, i, q, recs, c, r, c', h => by
    unfold recLoop at h
    obtain ⟨x1, hx1, h⟩ := bind_eq_ok h
    obtain ⟨v1, q1, c1⟩ := x1
    obtain ⟨x2, hx2, h⟩ := bind_eq_ok h
    obtain ⟨v2, q2, c2⟩ := x2
    obtain ⟨recs1, _, h⟩ := bind_eq_ok h
    have h1 := vrRead_cost hx1
    have h2 := vrRead_cost hx2
    have ih := recLoop_cost b f1 f2 fuel _ _ _ _ _ _ h
    simp only [Cost.tick, Cost.mem] at h1 h2 ih
    omega

theorem rowLoop_cost (c2 : Nat) (records : List (VR × VR)) : ∀ (fuel i : Nat)
    (adj : List (List (VR × VR))) (c : Cost) (a : List (List (VR × VR))) (c' : Cost),
    rowLoop c2 records fuel i adj c = .ok (a, c') →
    c'.steps = c.steps + fuel ∧ c'.alloc = c.alloc
  | 0, _, _, _, _, _, h => by
    unfold rowLoop at h
    cases h
    exact ⟨rfl, rfl⟩
  | fuel+1, i, adj, c, a, c', h => by
    unfold rowLoop at h
    obtain ⟨row, _, h⟩ := bind_eq_ok h
    obtain ⟨adj1, _, h⟩ := bind_eq_ok h
    have ih := rowLoop_cost c2 records fuel _ _ _ _ _ h
    simp only [Cost.tick] at ih
    omega

/-- `readGpos2_2`, with the class counts exposed: the `make` of `c1·c2` records happens AFTER the
check `c1·c2 < 65536` (gpos.go:517) and before any record is read; the record loop runs `c1·c2`
times and reads nothing when both value formats select no field; `c1` rows.  A cap by the 16-bit
counts (a 16-byte header can cost 17·65535 steps), not proportional to the input -/
theorem read22_cost_n (b : Bytes) (pos : Nat)
    (r : List Nat × List (Nat × Nat) × List (Nat × Nat) × List (List (VR × VR))) (c : Cost)
    (h : read22 b pos = .ok (r, c)) :
    ∃ c1 c2, c1 < 65536 ∧ c1 * c2 < 65536 ∧
      c.steps ≤ 17 * (c1 * c2) + c1 + 3 * (b.length / 2) + 262150 ∧
      c.alloc ≤ 4 * (c1 * c2) + c1 + 262147 := by
  unfold read22 at h
  obtain ⟨buf, _, h⟩ := bind_eq_ok h
  obtain ⟨co, _, h⟩ := bind_eq_ok h
  obtain ⟨f1, _, h⟩ := bind_eq_ok h
  obtain ⟨f2, _, h⟩ := bind_eq_ok h
  obtain ⟨d1, _, h⟩ := bind_eq_ok h
  obtain ⟨d2, _, h⟩ := bind_eq_ok h
  obtain ⟨c1, hc1, h⟩ := bind_eq_ok h
  obtain ⟨c2, _, h⟩ := bind_eq_ok h
  have hc1lt := w16_lt hc1
  split at h
  · cases h
  rename_i hnr
  rw [mkSlice_ok _ _ _ (by omega), ok_bind] at h
  obtain ⟨x, hx, h⟩ := bind_eq_ok h
  obtain ⟨recs, rc⟩ := x
  obtain ⟨cv, hcv, h⟩ := bind_eq_ok h
  obtain ⟨cvl, cvc⟩ := cv
  obtain ⟨t1, ht1, h⟩ := bind_eq_ok h
  obtain ⟨t1l, t1c⟩ := t1
  obtain ⟨t2, ht2, h⟩ := bind_eq_ok h
  obtain ⟨t2l, t2c⟩ := t2
  rw [mkSlice_ok _ _ _ hc1lt, ok_bind] at h
  obtain ⟨a, ha, h⟩ := bind_eq_ok h
  obtain ⟨al, ac⟩ := a
  have h1 := recLoop_cost _ _ _ _ _ _ _ _ _ _ hx
  have h2 := readSet_cost _ _ _ _ hcv
  have h3 := classdefRead_cost _ _ _ _ ht1
  have h4 := classdefRead_cost _ _ _ _ ht2
  have h5 := rowLoop_cost _ _ _ _ _ _ _ _ ha
  cases h
  simp only [Cost.tick, Cost.mem, Cost.zero, cadd] at h1 h5 ⊢
  refine ⟨c1, c2, hc1lt, by omega, ?_, ?_⟩
  · generalize c1 * c2 = X at *
    omega
  · generalize c1 * c2 = X at *
    omega

/-- `readGpos2_2`: `steps ≤ 3·(|b|/2) + 1441780`, `alloc ≤ 589822` -/
theorem read22_cost (b : Bytes) (pos : Nat)
    (r : List Nat × List (Nat × Nat) × List (Nat × Nat) × List (List (VR × VR))) (c : Cost)
    (h : read22 b pos = .ok (r, c)) :
    c.steps ≤ 3 * (b.length / 2) + 1441780 ∧ c.alloc ≤ 589822 := by
  obtain ⟨c1, c2, _, _, _, _⟩ := read22_cost_n b pos r c h
  generalize c1 * c2 = X at *
  omega

/-! ## GPOS 3.1 -/

theorem anchorOpt_cost {b : Bytes} {pos off : Nat} {c : Cost} {a : Anchor} {c' : Cost}
    (h : anchorOpt b pos off c = .ok (a, c')) : c'.steps ≤ c.steps + 1 ∧ c'.alloc = c.alloc := by
  unfold anchorOpt at h
  split at h
  · obtain ⟨x, hx, h⟩ := bind_eq_ok h
    obtain ⟨x1, x2⟩ := x
    have := anchorRead_cost _ _ _ _ hx
    cases h
    simp only [cadd]
    omega
  · cases h
    exact ⟨Nat.le_add_right _ _, rfl⟩

theorem eeLoop_cost (b : Bytes) (pos : Nat) (offsets : List Nat) : ∀ (fuel i : Nat)
    (acc : List (Anchor × Anchor)) (c : Cost) (r : List (Anchor × Anchor)) (c' : Cost),
    eeLoop b pos offsets fuel i acc c = .ok (r, c') →
    c'.steps ≤ c.steps + 3 * fuel ∧ c'.alloc = c.alloc
  | 0, _, _, _, _, _, h => by
    unfold eeLoop at h
    cases h
    exact ⟨Nat.le_refl _, rfl⟩
  | fuel+1, i, acc, c, r, c', h => by
    unfold eeLoop at h
    obtain ⟨o1, _, h⟩ := bind_eq_ok h
    obtain ⟨e, he, h⟩ := bind_eq_ok h
    obtain ⟨e1, e2⟩ := e
    obtain ⟨o2, _, h⟩ := bind_eq_ok h
    obtain ⟨x, hx, h⟩ := bind_eq_ok h
    obtain ⟨x1, x2⟩ := x
    have h1 := anchorOpt_cost he
    have h2 := anchorOpt_cost hx
    have ih := eeLoop_cost b pos offsets fuel _ _ _ _ _ h
    simp only [Cost.tick] at h1 h2 ih
    omega

/-- `readGpos3_1` is linear (+ the coverage cap): each of the `n = entryExitCount` records is 4
bytes of sequentially read offsets and at most two anchor reads, also when all anchor offsets
alias ONE anchor: `steps ≤ 5·(|b|/4) + |b|/2 + 131075`, `alloc ≤ 3·(|b|/4) + 65538` -/
theorem read31_cost (b : Bytes) (pos : Nat)
    (r : List (Nat × Nat) × List (Anchor × Anchor)) (c : Cost)
    (h : read31 b pos = .ok (r, c)) :
    c.steps ≤ 5 * (b.length / 4) + b.length / 2 + 131075 ∧
      c.alloc ≤ 3 * (b.length / 4) + 65538 := by
  unfold read31 at h
  obtain ⟨buf, _, h⟩ := bind_eq_ok h
  obtain ⟨co, _, h⟩ := bind_eq_ok h
  obtain ⟨n, hn, h⟩ := bind_eq_ok h
  have hnlt := w16_lt hn
  rw [mkSlice_ok' _ _ _ (by omega), ok_bind] at h
  obtain ⟨o, ho, h⟩ := bind_eq_ok h
  obtain ⟨ol, oc⟩ := o
  obtain ⟨_, hos, hoa, hoq⟩ := readWords_ok _ _ _ _ _ _ _ _ ho
  rw [mkSlice_ok _ _ _ hnlt, ok_bind] at h
  obtain ⟨x, hx, h⟩ := bind_eq_ok h
  obtain ⟨recs, rc⟩ := x
  obtain ⟨cv, hcv, h⟩ := bind_eq_ok h
  obtain ⟨cvl, cvc⟩ := cv
  obtain ⟨p, hp, h⟩ := bind_eq_ok h
  obtain ⟨pp, pc⟩ := p
  have h1 := eeLoop_cost _ _ _ _ _ _ _ _ _ hx
  have h2 := coverageRead_cost _ _ _ _ hcv
  have h3 := coverageRead_len _ _ 0 _ _ hcv
  obtain ⟨_, _, _, h4, h5⟩ := prune_ok hp (coverageRead_idx _ _ _ _ hcv)
  cases h
  simp only [Cost.tick, Cost.mem, Cost.zero, cadd] at hos hoa h1 h4 h5 ⊢
  omega


end SfntV.Total.GposSub
