/-
C02 (decoders are total): proofs about the checked-index models of `coverage.Read`,
`coverage.ReadSet` and `classdef.Read` (`SfntV.Total.Otl`): no panic on any bytes at any
position, the TRUE cost bounds (linear for the array formats, capped by the 16-bit glyph space
for the range formats, `rangeCount·65536` for `classdef.Read` format 2 BEFORE the repair of finding #36
(`classdefReadOld`, with the zigzag witness family), the bound restored by the repair, and the bridge to the
value-level models of C08 (`SfntV.Otl.Cov.read`, `Cov.readSet`, `SfntV.Otl.ClassDef.read`).
-/
import SfntV.Model.TotalOtl
import SfntV.Model.OtlCoverage
import SfntV.Model.OtlClassDef
import SfntV.Proofs.TotalGdef

namespace SfntV.Total.Otl
open SfntV SfntV.Total SfntV.Total.Gdef

/-! ## reads -/

/-- the big-endian word at byte position `q`, if both bytes are there -/
def wordAt (b : Bytes) (q : Nat) : Option Nat :=
  match b.drop q with
  | x :: y :: _ => some (be x y)
  | _ => none

theorem readU16_eq (site : String) (b : Bytes) (q : Nat) :
    readU16 site b q = match wordAt b q with
      | some v => .ok v
      | none => .err "io" := by
  unfold readU16 wordAt readBytes
  rw [if_neg (by omega)]
  have hlen := List.length_drop (i := q) (l := b)
  match hd : b.drop q with
  | [] =>
    rw [hd] at hlen
    simp only [List.length_nil] at hlen
    rw [if_neg (by omega)]; rfl
  | [x] =>
    rw [hd] at hlen
    simp only [List.length_cons, List.length_nil] at hlen
    rw [if_neg (by omega)]; rfl
  | x :: y :: r =>
    rw [hd] at hlen
    simp only [List.length_cons] at hlen
    rw [if_pos (by omega)]; rfl

theorem wordAt_lt {b : Bytes} {q v : Nat} (h : wordAt b q = some v) :
    v < 65536 ∧ q + 2 ≤ b.length := by
  unfold wordAt at h
  have hlen := List.length_drop (i := q) (l := b)
  match hd : b.drop q with
  | [] => rw [hd] at h; cases h
  | [x] => rw [hd] at h; cases h
  | x :: y :: r =>
    rw [hd] at h hlen
    simp only [List.length_cons] at hlen
    cases h
    unfold be
    have h1 := x.toNat_lt
    have h2 := y.toNat_lt
    omega

theorem readU16_noPanic (site : String) (b : Bytes) (q : Nat) : (readU16 site b q).noPanic := by
  rw [readU16_eq]
  split <;> exact True.intro

theorem readU16_ok {site : String} {b : Bytes} {q v : Nat} (h : readU16 site b q = .ok v) :
    wordAt b q = some v ∧ v < 65536 ∧ q + 2 ≤ b.length := by
  rw [readU16_eq] at h
  split at h
  · rename_i w hw
    cases h
    exact ⟨hw, wordAt_lt hw⟩
  · cases h

/-- a 6-byte record read: three words below 65536 -/
theorem rec6_ok (s1 s2 s3 : String) {site : String} {b : Bytes} {q : Nat} {buf : Bytes}
    (h : readBytes site b q 6 = .ok buf) :
    ∃ s e c, w16 s1 buf 0 = .ok s ∧ w16 s2 buf 2 = .ok e ∧ w16 s3 buf 4 = .ok c ∧
      s < 65536 ∧ e < 65536 ∧ c < 65536 ∧ q + 6 ≤ b.length := by
  obtain ⟨hl, hq⟩ := readBytes_ok_length h
  obtain ⟨s, hs, hs'⟩ := w16_ok s1 buf 0 (by omega)
  obtain ⟨e, he, he'⟩ := w16_ok s2 buf 2 (by omega)
  obtain ⟨c, hc, hc'⟩ := w16_ok s3 buf 4 (by omega)
  exact ⟨s, e, c, hs, he, hc, hs', he', hc', hq⟩

/-! ## no panic -/

theorem covLoop1_noPanic (b : Bytes) : ∀ (n q i : Nat) (prev : Int) (acc : List (Nat × Nat))
    (c : Cost), (covLoop1 b n q i prev acc c).noPanic
  | 0, _, _, _, _, _ => True.intro
  | n+1, q, i, prev, acc, c => by
    unfold covLoop1
    refine bind_noPanic (readU16_noPanic _ _ _) (fun gid _ => ?_)
    split
    · exact True.intro
    · exact covLoop1_noPanic b n _ _ _ _ _

theorem covLoop2_noPanic (b : Bytes) : ∀ (n q pos : Nat) (prev : Int) (acc : List (Nat × Nat))
    (c : Cost), (covLoop2 b n q pos prev acc c).noPanic
  | 0, _, _, _, _, _ => True.intro
  | n+1, q, pos, prev, acc, c => by
    unfold covLoop2
    refine bind_noPanic (readBytes_noPanic _ _ _ _ (by omega)) (fun buf hbuf => ?_)
    obtain ⟨s, e, sci, hs, he, hc, _⟩ := rec6_ok "coverage.go:124#buf[0],buf[1]"
      "coverage.go:125#buf[2],buf[3]" "coverage.go:126#buf[4],buf[5]" hbuf
    rw [hs, ok_bind, he, ok_bind, hc, ok_bind]
    split
    · exact True.intro
    · exact covLoop2_noPanic b n _ _ _ _ _

/-- `coverage.Read` never panics: all bytes, all positions -/
theorem coverageRead_noPanic (b : Bytes) (pos : Nat) : (coverageRead b pos).noPanic := by
  unfold coverageRead
  refine bind_noPanic (readU16_noPanic _ _ _) (fun format _ => ?_)
  dsimp only
  split
  · exact bind_noPanic (readU16_noPanic _ _ _) (fun n _ => covLoop1_noPanic b n _ _ _ _ _)
  split
  · exact bind_noPanic (readU16_noPanic _ _ _) (fun n _ => covLoop2_noPanic b n _ _ _ _ _)
  · exact True.intro

theorem setLoop1_noPanic (b : Bytes) : ∀ (n q : Nat) (acc : List Nat) (c : Cost),
    (setLoop1 b n q acc c).noPanic
  | 0, _, _, _ => True.intro
  | n+1, q, acc, c => by
    unfold setLoop1
    exact bind_noPanic (readU16_noPanic _ _ _) (fun gid _ => setLoop1_noPanic b n _ _ _)

theorem setLoop2_noPanic (b : Bytes) : ∀ (n q pos : Nat) (prev : Int) (acc : List Nat)
    (c : Cost), (setLoop2 b n q pos prev acc c).noPanic
  | 0, _, _, _, _, _ => True.intro
  | n+1, q, pos, prev, acc, c => by
    unfold setLoop2
    refine bind_noPanic (readBytes_noPanic _ _ _ _ (by omega)) (fun buf hbuf => ?_)
    obtain ⟨s, e, sci, hs, he, hc, _⟩ := rec6_ok "set.go:90#buf[0],buf[1]"
      "set.go:91#buf[2],buf[3]" "set.go:92#buf[4],buf[5]" hbuf
    rw [hs, ok_bind, he, ok_bind, hc, ok_bind]
    split
    · exact True.intro
    · exact setLoop2_noPanic b n _ _ _ _ _

/-- `coverage.ReadSet` never panics: all bytes, all positions -/
theorem readSet_noPanic (b : Bytes) (pos : Nat) : (readSet b pos).noPanic := by
  unfold readSet
  refine bind_noPanic (readU16_noPanic _ _ _) (fun format _ => ?_)
  dsimp only
  split
  · exact bind_noPanic (readU16_noPanic _ _ _) (fun n _ => setLoop1_noPanic b n _ _ _)
  split
  · exact bind_noPanic (readU16_noPanic _ _ _) (fun n _ => setLoop2_noPanic b n _ _ _ _ _)
  · exact True.intro

theorem cdLoop1_noPanic (b : Bytes) (start : Nat) : ∀ (n q i : Nat) (acc : List (Nat × Nat))
    (c : Cost), (cdLoop1 b start n q i acc c).noPanic
  | 0, _, _, _, _ => True.intro
  | n+1, q, i, acc, c => by
    unfold cdLoop1
    exact bind_noPanic (readU16_noPanic _ _ _) (fun cv _ => cdLoop1_noPanic b start n _ _ _ _)

theorem cdLoop2_noPanic (fixed : Bool) (b : Bytes) : ∀ (n q i prevEnd : Nat)
    (acc : List (Nat × Nat)) (c : Cost), (cdLoop2 fixed b n q i prevEnd acc c).noPanic
  | 0, _, _, _, _, _ => True.intro
  | n+1, q, i, prevEnd, acc, c => by
    unfold cdLoop2
    refine bind_noPanic (readBytes_noPanic _ _ _ _ (by omega)) (fun buf hbuf => ?_)
    obtain ⟨s, e, cv, hs, he, hc, _⟩ := rec6_ok "classdef.go:116#data[0],data[1]"
      "classdef.go:117#data[2],data[3]" "classdef.go:118#data[4],data[5]" hbuf
    rw [hs, ok_bind, he, ok_bind, hc, ok_bind]
    split
    · exact True.intro
    split
    · exact True.intro
    · exact cdLoop2_noPanic fixed b n _ _ _ _ _

theorem classdefReadG_noPanic (fixed : Bool) (b : Bytes) (pos : Nat) :
    (classdefReadG fixed b pos).noPanic := by
  unfold classdefReadG
  refine bind_noPanic (readU16_noPanic _ _ _) (fun version _ => ?_)
  dsimp only
  split
  · refine bind_noPanic (readBytes_noPanic _ _ _ _ (by omega)) (fun data hdata => ?_)
    obtain ⟨hl, _⟩ := readBytes_ok_length hdata
    obtain ⟨start, hs, _⟩ := w16_ok "classdef.go:82#data[0],data[1]" data 0 (by omega)
    obtain ⟨count, hc, hclt⟩ := w16_ok "classdef.go:83#data[2],data[3]" data 2 (by omega)
    rw [hs, ok_bind, hc, ok_bind]
    split
    · exact True.intro
    rw [mkSlice_ok _ _ _ hclt, ok_bind]
    exact cdLoop1_noPanic b start count _ _ _ _
  split
  · exact bind_noPanic (readU16_noPanic _ _ _) (fun n _ => cdLoop2_noPanic fixed b n _ _ _ _ _)
  · exact True.intro

/-- the code before the repair of #36 did not panic either -/
theorem classdefReadOld_noPanic (b : Bytes) (pos : Nat) : (classdefReadOld b pos).noPanic :=
  classdefReadG_noPanic false b pos

/-- `classdef.Read` never panics: all bytes, all positions -/
theorem classdefRead_noPanic (b : Bytes) (pos : Nat) : (classdefRead b pos).noPanic :=
  classdefReadG_noPanic true b pos

/-! ## cost of the loops -/

theorem covLoop1_ok (b : Bytes) : ∀ (n q i : Nat) (prev : Int) (acc : List (Nat × Nat))
    (c : Cost) (r : List (Nat × Nat)) (c' : Cost), covLoop1 b n q i prev acc c = .ok (r, c') →
    c'.steps = c.steps + n ∧ c'.alloc = c.alloc + n ∧ (n = 0 ∨ q + 2 * n ≤ b.length)
  | 0, _, _, _, _, _, _, _, h => by
    unfold covLoop1 at h
    cases h
    simp
  | n+1, q, i, prev, acc, c, r, c', h => by
    unfold covLoop1 at h
    obtain ⟨gid, hg, h⟩ := bind_eq_ok h
    obtain ⟨_, _, hq⟩ := readU16_ok hg
    split at h
    · cases h
    have ih := covLoop1_ok b n _ _ _ _ _ _ _ h
    simp only [Cost.tick, Cost.mem] at ih
    omega

/-- format 2 of `coverage.Read`: the ranges are increasing and disjoint, so the running coverage
index never exceeds the last glyph + 1: at most 65536 inner iterations IN TOTAL -/
theorem covLoop2_cost (b : Bytes) : ∀ (n q pos : Nat) (prev : Int) (acc : List (Nat × Nat))
    (c : Cost) (r : List (Nat × Nat)) (c' : Cost), (pos : Int) ≤ prev + 1 → prev ≤ 65535 →
    covLoop2 b n q pos prev acc c = .ok (r, c') →
    c'.steps + pos ≤ c.steps + n + 65536 ∧ c'.alloc + pos ≤ c.alloc + 65536 ∧
      (n = 0 ∨ q + 6 * n ≤ b.length)
  | 0, _, _, _, _, _, _, _, hp, hprev, h => by
    unfold covLoop2 at h
    cases h
    omega
  | n+1, q, pos, prev, acc, c, r, c', hp, hprev, h => by
    unfold covLoop2 at h
    obtain ⟨buf, hbuf, h⟩ := bind_eq_ok h
    obtain ⟨s, e, sci, hs, he, hc, hs', he', _, hq⟩ := rec6_ok "coverage.go:124#buf[0],buf[1]"
      "coverage.go:125#buf[2],buf[3]" "coverage.go:126#buf[4],buf[5]" hbuf
    rw [hs, ok_bind, he, ok_bind, hc, ok_bind] at h
    split at h
    · cases h
    rename_i hcond
    dsimp only at h
    have ih := covLoop2_cost b n _ _ _ _ _ _ _ (by omega) (by omega) h
    simp only [Cost.tick, Cost.mem] at ih
    omega

theorem setLoop1_ok (b : Bytes) : ∀ (n q : Nat) (acc : List Nat)
    (c : Cost) (r : List Nat) (c' : Cost), setLoop1 b n q acc c = .ok (r, c') →
    c'.steps = c.steps + n ∧ c'.alloc = c.alloc + n ∧ (n = 0 ∨ q + 2 * n ≤ b.length)
  | 0, _, _, _, _, _, h => by
    unfold setLoop1 at h
    cases h
    simp
  | n+1, q, acc, c, r, c', h => by
    unfold setLoop1 at h
    obtain ⟨gid, hg, h⟩ := bind_eq_ok h
    obtain ⟨_, _, hq⟩ := readU16_ok hg
    have ih := setLoop1_ok b n _ _ _ _ _ h
    simp only [Cost.tick, Cost.mem] at ih
    omega

/-- format 2 of `coverage.ReadSet`: `startCoverageIndex == pos` forces the running index below
65536 at the start of every range, and one range adds at most 65536: at most 131071 inner
iterations in total (ranges may touch: `startGlyphID == prev` is allowed) -/
theorem setLoop2_cost (b : Bytes) : ∀ (n q pos : Nat) (prev : Int) (acc : List Nat)
    (c : Cost) (r : List Nat) (c' : Cost), pos ≤ 131071 →
    setLoop2 b n q pos prev acc c = .ok (r, c') →
    c'.steps + pos ≤ c.steps + n + 131071 ∧ c'.alloc + pos ≤ c.alloc + 131071 ∧
      (n = 0 ∨ q + 6 * n ≤ b.length)
  | 0, _, _, _, _, _, _, _, hp, h => by
    unfold setLoop2 at h
    cases h
    omega
  | n+1, q, pos, prev, acc, c, r, c', hp, h => by
    unfold setLoop2 at h
    obtain ⟨buf, hbuf, h⟩ := bind_eq_ok h
    obtain ⟨s, e, sci, hs, he, hc, hs', he', hc', hq⟩ := rec6_ok "set.go:90#buf[0],buf[1]"
      "set.go:91#buf[2],buf[3]" "set.go:92#buf[4],buf[5]" hbuf
    rw [hs, ok_bind, he, ok_bind, hc, ok_bind] at h
    split at h
    · cases h
    rename_i hcond
    dsimp only at h
    have ih := setLoop2_cost b n _ _ _ _ _ _ _ (by omega) h
    simp only [Cost.tick, Cost.mem] at ih
    omega

theorem cdLoop1_ok (b : Bytes) (start : Nat) : ∀ (n q i : Nat) (acc : List (Nat × Nat))
    (c : Cost) (r : List (Nat × Nat)) (c' : Cost), cdLoop1 b start n q i acc c = .ok (r, c') →
    c'.steps = c.steps + n ∧ c'.alloc = c.alloc ∧ (n = 0 ∨ q + 2 * n ≤ b.length)
  | 0, _, _, _, _, _, _, h => by
    unfold cdLoop1 at h
    cases h
    simp
  | n+1, q, i, acc, c, r, c', h => by
    unfold cdLoop1 at h
    obtain ⟨cv, hg, h⟩ := bind_eq_ok h
    obtain ⟨_, _, hq⟩ := readU16_ok hg
    have ih := cdLoop1_ok b start n _ _ _ _ _ _ h
    simp only [Cost.tick] at ih
    omega

/-- format 2 of `classdef.Read` (either variant): every range costs at most 65536 inner
iterations -/
theorem cdLoop2_cost (fixed : Bool) (b : Bytes) : ∀ (n q i prevEnd : Nat)
    (acc : List (Nat × Nat)) (c : Cost) (r : List (Nat × Nat)) (c' : Cost),
    cdLoop2 fixed b n q i prevEnd acc c = .ok (r, c') →
    c'.steps ≤ c.steps + n * 65537 ∧ c'.alloc ≤ c.alloc + n * 65536 ∧
      (n = 0 ∨ q + 6 * n ≤ b.length)
  | 0, _, _, _, _, _, _, _, h => by
    unfold cdLoop2 at h
    cases h
    simp
  | n+1, q, i, prevEnd, acc, c, r, c', h => by
    unfold cdLoop2 at h
    obtain ⟨buf, hbuf, h⟩ := bind_eq_ok h
    obtain ⟨s, e, cv, hs, he, hc, hs', he', hc', hq⟩ := rec6_ok "classdef.go:116#data[0],data[1]"
      "classdef.go:117#data[2],data[3]" "classdef.go:118#data[4],data[5]" hbuf
    rw [hs, ok_bind, he, ok_bind, hc, ok_bind] at h
    split at h
    · cases h
    split at h
    · cases h
    dsimp only at h
    have hk : (if cv ≠ 0 then e + 1 - s else 0) ≤ 65536 := by split <;> omega
    generalize (if cv ≠ 0 then e + 1 - s else 0) = k at h hk
    have ih := cdLoop2_cost fixed b n _ _ _ _ _ _ _ h
    simp only [Cost.tick, Cost.mem] at ih
    omega

/-- format 2 of the REPAIRED `classdef.Read`: ranges are increasing and disjoint again; `T` is the
number of inner iterations so far -/
theorem cdLoop2_fixed_cost (b : Bytes) : ∀ (n q i prevEnd : Nat)
    (acc : List (Nat × Nat)) (c : Cost) (r : List (Nat × Nat)) (c' : Cost) (T : Nat),
    (i = 0 → T = 0) → (i > 0 → T ≤ prevEnd + 1) → prevEnd < 65536 →
    cdLoop2 true b n q i prevEnd acc c = .ok (r, c') →
    c'.steps + T ≤ c.steps + n + 65536 ∧ c'.alloc + T ≤ c.alloc + 65536 ∧
      (n = 0 ∨ q + 6 * n ≤ b.length)
  | 0, _, _, _, _, _, _, _, T, h0, h1, hpe, h => by
    unfold cdLoop2 at h
    cases h
    omega
  | n+1, q, i, prevEnd, acc, c, r, c', T, h0, h1, hpe, h => by
    unfold cdLoop2 at h
    obtain ⟨buf, hbuf, h⟩ := bind_eq_ok h
    obtain ⟨s, e, cv, hs, he, hc, hs', he', hc', hq⟩ := rec6_ok "classdef.go:116#data[0],data[1]"
      "classdef.go:117#data[2],data[3]" "classdef.go:118#data[4],data[5]" hbuf
    rw [hs, ok_bind, he, ok_bind, hc, ok_bind] at h
    split at h
    · cases h
    rename_i hc1
    split at h
    · cases h
    rename_i hc2
    dsimp only at h
    have hk : (if cv ≠ 0 then e + 1 - s else 0) ≤ e + 1 - s := by split <;> omega
    generalize (if cv ≠ 0 then e + 1 - s else 0) = k at h hk
    have hes : s ≤ e := by
      rcases Nat.lt_or_ge e s with hlt | hge
      · exact absurd ⟨rfl, hlt⟩ hc2
      · exact hge
    have ih := cdLoop2_fixed_cost b n _ _ _ _ _ _ _ (T + k) (by omega)
      (by intro _; rcases Nat.eq_zero_or_pos i with hi | hi
          · have := h0 hi; omega
          · have := h1 hi; omega) he' h
    simp only [Cost.tick, Cost.mem] at ih
    omega

/-! ## cost of the readers (the TRUE bounds) -/

/-- what `coverage.Read` costs, by format: format 1 `2 + glyphCount` steps and `1 + glyphCount`
elements with `glyphCount ≤ (|b| − 4)/2`; format 2 at most `2 + rangeCount + 65536` steps and
`1 + 65536` elements — a cap by a constant, NOT proportional to the input (see `coverage2_full`) -/
theorem coverageRead_cost_fmt (b : Bytes) (pos : Nat) (r : List (Nat × Nat)) (c : Cost)
    (h : coverageRead b pos = .ok (r, c)) :
    (wordAt b pos = some 1 ∧ c.steps ≤ b.length / 2 + 2 ∧ c.alloc ≤ b.length / 2 + 1 ∧
        c.alloc ≤ 65536) ∨
    (wordAt b pos = some 2 ∧ c.steps ≤ b.length / 6 + 65538 ∧ c.alloc ≤ 65537) := by
  unfold coverageRead at h
  obtain ⟨format, hf, h⟩ := bind_eq_ok h
  obtain ⟨hw, _, _⟩ := readU16_ok hf
  dsimp only at h
  split at h
  · rename_i h1
    subst h1
    obtain ⟨n, hn, h⟩ := bind_eq_ok h
    obtain ⟨_, hnlt, _⟩ := readU16_ok hn
    have := covLoop1_ok b n _ _ _ _ _ _ _ h
    simp only [Cost.tick, Cost.mem, Cost.zero] at this
    exact Or.inl ⟨hw, by omega, by omega, by omega⟩
  split at h
  · rename_i _ h2
    subst h2
    obtain ⟨n, hn, h⟩ := bind_eq_ok h
    have := covLoop2_cost b n _ _ _ _ _ _ _ (by omega) (by omega) h
    simp only [Cost.tick, Cost.mem, Cost.zero] at this
    exact Or.inr ⟨hw, by omega, by omega⟩
  · cases h

/-- `coverage.Read`, any format: `steps ≤ |b|/2 + 65538`, `alloc ≤ 65537` -/
theorem coverageRead_cost (b : Bytes) (pos : Nat) (r : List (Nat × Nat)) (c : Cost)
    (h : coverageRead b pos = .ok (r, c)) :
    c.steps ≤ b.length / 2 + 65538 ∧ c.alloc ≤ 65537 := by
  rcases coverageRead_cost_fmt b pos r c h with h | h <;> omega

/-- what `coverage.ReadSet` costs, by format: format 1 as `coverage.Read`; format 2 at most
`2 + rangeCount + 131071` steps and `1 + 131071` map writes (touching ranges are accepted, so the
65536 cap of `coverage.Read` does not hold: see `readSet2_overlap`) -/
theorem readSet_cost_fmt (b : Bytes) (pos : Nat) (r : List Nat) (c : Cost)
    (h : readSet b pos = .ok (r, c)) :
    (wordAt b pos = some 1 ∧ c.steps ≤ b.length / 2 + 2 ∧ c.alloc ≤ b.length / 2 + 1 ∧
        c.alloc ≤ 65536) ∨
    (wordAt b pos = some 2 ∧ c.steps ≤ b.length / 6 + 131073 ∧ c.alloc ≤ 131072) := by
  unfold readSet at h
  obtain ⟨format, hf, h⟩ := bind_eq_ok h
  obtain ⟨hw, _, _⟩ := readU16_ok hf
  dsimp only at h
  split at h
  · rename_i h1
    subst h1
    obtain ⟨n, hn, h⟩ := bind_eq_ok h
    obtain ⟨_, hnlt, _⟩ := readU16_ok hn
    have := setLoop1_ok b n _ _ _ _ _ h
    simp only [Cost.tick, Cost.mem, Cost.zero] at this
    exact Or.inl ⟨hw, by omega, by omega, by omega⟩
  split at h
  · rename_i _ h2
    subst h2
    obtain ⟨n, hn, h⟩ := bind_eq_ok h
    have := setLoop2_cost b n _ _ _ _ _ _ _ (by omega) h
    simp only [Cost.tick, Cost.mem, Cost.zero] at this
    exact Or.inr ⟨hw, by omega, by omega⟩
  · cases h

/-- `coverage.ReadSet`, any format: `steps ≤ |b|/2 + 131073`, `alloc ≤ 131072` -/
theorem readSet_cost (b : Bytes) (pos : Nat) (r : List Nat) (c : Cost)
    (h : readSet b pos = .ok (r, c)) :
    c.steps ≤ b.length / 2 + 131073 ∧ c.alloc ≤ 131072 := by
  rcases readSet_cost_fmt b pos r c h with h | h <;> omega

/-- what `classdef.Read` costs (before the repair of #36, `fixed = false`, or as it is now), by format: format 1
`2 + glyphCount` steps and `glyphCount` elements (charged by the `make`), `glyphCount ≤ (|b|−6)/2`;
format 2 at most `2 + rangeCount·65537` steps with `rangeCount ≤ (|b|−4)/6` -/
theorem classdefReadG_cost_fmt (fixed : Bool) (b : Bytes) (pos : Nat) (r : List (Nat × Nat))
    (c : Cost) (h : classdefReadG fixed b pos = .ok (r, c)) :
    (wordAt b pos = some 1 ∧ c.steps ≤ b.length / 2 + 2 ∧ c.alloc ≤ b.length / 2 ∧
        c.alloc ≤ 65535) ∨
    (wordAt b pos = some 2 ∧ c.steps ≤ (b.length / 6) * 65537 + 2 ∧
        c.alloc ≤ (b.length / 6) * 65536 + 1) := by
  unfold classdefReadG at h
  obtain ⟨version, hf, h⟩ := bind_eq_ok h
  obtain ⟨hw, _, _⟩ := readU16_ok hf
  dsimp only at h
  split at h
  · rename_i h1
    subst h1
    obtain ⟨data, hdata, h⟩ := bind_eq_ok h
    obtain ⟨start, _, h⟩ := bind_eq_ok h
    obtain ⟨count, hcount, h⟩ := bind_eq_ok h
    have hclt := w16_lt hcount
    split at h
    · cases h
    rw [mkSlice_ok _ _ _ hclt, ok_bind] at h
    have := cdLoop1_ok b start count _ _ _ _ _ _ h
    simp only [Cost.tick, Cost.mem, Cost.zero] at this
    exact Or.inl ⟨hw, by omega, by omega, by omega⟩
  split at h
  · rename_i _ h2
    subst h2
    obtain ⟨n, hn, h⟩ := bind_eq_ok h
    have := cdLoop2_cost fixed b n _ _ _ _ _ _ _ h
    simp only [Cost.tick, Cost.mem, Cost.zero] at this
    exact Or.inr ⟨hw, by omega, by omega⟩
  · cases h

/-- `classdef.Read` BEFORE the repair: `steps ≤ (|b|/6)·65537 + |b|/2 + 2` — NOT linear with a
small constant (finding #36, `classdef2_zigzag_cost`) -/
theorem classdefReadOld_cost (b : Bytes) (pos : Nat) (r : List (Nat × Nat)) (c : Cost)
    (h : classdefReadOld b pos = .ok (r, c)) :
    c.steps ≤ (b.length / 6) * 65537 + b.length / 2 + 2 ∧
      c.alloc ≤ (b.length / 6) * 65536 + b.length / 2 + 1 := by
  rcases classdefReadG_cost_fmt false b pos r c h with h | h <;> omega

/-- `classdef.Read` as it is now (repaired), by format: format 2 is back to `|b|/6 + 65536 + 2` steps and
`65537` elements -/
theorem classdefRead_cost_fmt (b : Bytes) (pos : Nat) (r : List (Nat × Nat))
    (c : Cost) (h : classdefRead b pos = .ok (r, c)) :
    (wordAt b pos = some 1 ∧ c.steps ≤ b.length / 2 + 2 ∧ c.alloc ≤ b.length / 2 ∧
        c.alloc ≤ 65535) ∨
    (wordAt b pos = some 2 ∧ c.steps ≤ b.length / 6 + 65538 ∧ c.alloc ≤ 65537) := by
  rcases classdefReadG_cost_fmt true b pos r c h with h1 | ⟨hw, _⟩
  · exact Or.inl h1
  refine Or.inr ⟨hw, ?_⟩
  unfold classdefRead classdefReadG at h
  obtain ⟨version, hf, h⟩ := bind_eq_ok h
  obtain ⟨hw', _, _⟩ := readU16_ok hf
  rw [hw] at hw'
  cases hw'
  dsimp only at h
  rw [if_neg (by omega), if_pos rfl] at h
  obtain ⟨n, hn, h⟩ := bind_eq_ok h
  have := cdLoop2_fixed_cost b n _ _ _ _ _ _ _ 0 (fun _ => rfl) (by omega) (by omega) h
  simp only [Cost.tick, Cost.mem, Cost.zero] at this
  omega

/-- `classdef.Read` as it is now, any format: `steps ≤ |b|/2 + 65538`, `alloc ≤ 65537` -/
theorem classdefRead_cost (b : Bytes) (pos : Nat) (r : List (Nat × Nat)) (c : Cost)
    (h : classdefRead b pos = .ok (r, c)) :
    c.steps ≤ b.length / 2 + 65538 ∧ c.alloc ≤ 65537 := by
  rcases classdefRead_cost_fmt b pos r c h with h | h <;> omega

/-! ## witnesses: the caps are reached, and finding #36 -/

/-- the cost of a successful run -/
def costOf : Outcome (α × Cost) → Option Cost
  | .ok (_, c) => some c
  | _ => none

/-- a 10-byte coverage table (format 2, the single range 0..65535) is accepted and yields 65536
entries: the allocation of `coverage.Read` is capped by a constant, it is not proportional to the
input -/
theorem coverage2_full :
    costOf (coverageRead [0,2, 0,1, 0,0, 0xff,0xff, 0,0] 0) = some ⟨65539, 65537⟩ := by
  decide +kernel

/-- `coverage.ReadSet` accepts touching ranges (`0..32767`, `32767..65535`): 65537 map writes on
16 bytes, beyond the 65536 cap of `coverage.Read` (which rejects this table) -/
theorem readSet2_overlap :
    costOf (readSet [0,2, 0,2, 0,0, 0x7f,0xff, 0,0, 0x7f,0xff, 0xff,0xff, 0x80,0] 0)
      = some ⟨65541, 65538⟩ ∧
    coverageRead [0,2, 0,2, 0,0, 0x7f,0xff, 0,0, 0x7f,0xff, 0xff,0xff, 0x80,0] 0
      = .err "invalid" := by
  decide +kernel

/-- classdef format 1 charges `glyphCount` at the `make`, before any class value is read:
a complete table of 65535 glyphs would be 131076 bytes; this 8-byte one (count 1) costs 1 -/
example : costOf (classdefRead [0,1, 0,5, 0,1, 0,7] 0) = some ⟨3, 1⟩ := by decide +kernel

theorem readBytes_drop (site : String) (b : Bytes) (q n : Nat) (w rest : Bytes)
    (hd : b.drop q = w ++ rest) (hw : w.length = n) (hn0 : 0 < n) (hn : n ≤ 1024) :
    readBytes site b q n = .ok w := by
  have hlen : (b.drop q).length = n + rest.length := by rw [hd, List.length_append, hw]
  rw [List.length_drop] at hlen
  unfold readBytes
  rw [if_neg (by omega), if_pos (by omega), hd, ← hw, List.take_left']
  rfl

/-- one repetition of the zigzag: `(1..65534, class 1)`, `(65535..0, class 1)` -/
def zigPair : Bytes := [0,1, 0xff,0xfe, 0,1,  0xff,0xff, 0,0, 0,1]

/-- classdef format 2 with `2n` ranges: the zigzag pair `n` times (`12n + 4` bytes) -/
def zigzag (n : Nat) : Bytes := [0,2] ++ be16 (2 * n) ++ (List.replicate n zigPair).flatten

theorem cdLoop2_pair (b : Bytes) (n q i prevEnd : Nat) (acc : List (Nat × Nat)) (c : Cost)
    (rest : Bytes) (hd : b.drop q = zigPair ++ rest) (hi : i = 0 ∨ prevEnd = 0) :
    ∃ acc' c', cdLoop2 false b (n + 1 + 1) q i prevEnd acc c
        = cdLoop2 false b n (q + 6 + 6) (i + 1 + 1) 0 acc' c' ∧
      c'.steps = c.steps + 65536 ∧ c'.alloc = c.alloc + 65534 := by
  have hd1 : b.drop q = [0,1,0xff,0xfe,0,1] ++ ([0xff,0xff,0,0,0,1] ++ rest) := by
    rw [hd]; rfl
  have hd2 : b.drop (q + 6) = [0xff,0xff,0,0,0,1] ++ rest := by
    rw [← List.drop_drop, hd1]; rfl
  have hr1 := readBytes_drop "classdef.go:112#ReadBytes(6)" b q 6 _ _ hd1 rfl (by omega) (by omega)
  have hr2 := readBytes_drop "classdef.go:112#ReadBytes(6)" b (q + 6) 6 _ _ hd2 rfl (by omega) (by omega)
  have a1 : w16 "classdef.go:116#data[0],data[1]" [0,1,0xff,0xfe,0,1] 0 = .ok 1 := rfl
  have a2 : w16 "classdef.go:117#data[2],data[3]" [0,1,0xff,0xfe,0,1] 2 = .ok 65534 := rfl
  have a3 : w16 "classdef.go:118#data[4],data[5]" [0,1,0xff,0xfe,0,1] 4 = .ok 1 := rfl
  have b1 : w16 "classdef.go:116#data[0],data[1]" [0xff,0xff,0,0,0,1] 0 = .ok 65535 := rfl
  have b2 : w16 "classdef.go:117#data[2],data[3]" [0xff,0xff,0,0,0,1] 2 = .ok 0 := rfl
  have b3 : w16 "classdef.go:118#data[4],data[5]" [0xff,0xff,0,0,0,1] 4 = .ok 1 := rfl
  rw [cdLoop2, hr1, ok_bind, a1, ok_bind, a2, ok_bind, a3, ok_bind, if_neg (by omega),
    if_neg (by simp)]
  dsimp only
  rw [cdLoop2, hr2, ok_bind, b1, ok_bind, b2, ok_bind, b3, ok_bind, if_neg (by omega),
    if_neg (by simp)]
  dsimp only
  refine ⟨_, _, rfl, ?_, ?_⟩
  · simp [Cost.tick, Cost.mem]
  · simp [Cost.tick, Cost.mem]

theorem cdLoop2_zig (b : Bytes) : ∀ (k q i prevEnd : Nat) (acc : List (Nat × Nat)) (c : Cost),
    b.drop q = (List.replicate k zigPair).flatten → (i = 0 ∨ prevEnd = 0) →
    ∃ r c', cdLoop2 false b (2 * k) q i prevEnd acc c = .ok (r, c') ∧
      c'.steps = c.steps + k * 65536 ∧ c'.alloc = c.alloc + k * 65534
  | 0, q, i, prevEnd, acc, c, _, _ => ⟨acc, c, rfl, by simp, by simp⟩
  | k+1, q, i, prevEnd, acc, c, hd, hi => by
    have hd1 : b.drop q = zigPair ++ (List.replicate k zigPair).flatten := by
      rw [hd, List.replicate_succ, List.flatten_cons]
    have hd3 : b.drop (q + 6 + 6) = (List.replicate k zigPair).flatten := by
      rw [Nat.add_assoc, ← List.drop_drop, hd1]; rfl
    obtain ⟨acc', c1, heq, hs1, ha1⟩ := cdLoop2_pair b (2 * k) q i prevEnd acc c _ hd1 hi
    obtain ⟨r, c', hrec, hs, ha⟩ := cdLoop2_zig b k (q + 6 + 6) (i + 1 + 1) 0 acc' c1 hd3 (Or.inr rfl)
    refine ⟨r, c', ?_, by omega, by omega⟩
    rw [show 2 * (k + 1) = 2 * k + 1 + 1 by omega, heq, hrec]

theorem zigzag_length (n : Nat) : (zigzag n).length = 12 * n + 4 := by
  have : ∀ k, (List.replicate k zigPair).flatten.length = 12 * k := by
    intro k
    induction k with
    | zero => rfl
    | succ k ih =>
      rw [List.replicate_succ, List.flatten_cons, List.length_append, ih]
      simp only [zigPair, List.length_cons, List.length_nil]
      omega
  unfold zigzag
  rw [List.length_append, this]
  simp [be16]
  omega

/-- FINDING #36 as a theorem.  The zigzag table of `2n` ranges (`12n + 4` bytes) is accepted by
`classdef.Read` as it was before the repair, and decoding it costs `2 + n·65536` steps (`n·65534` map writes):
the cost per input byte is unbounded below 5461 -/
theorem classdef2_zigzag_cost (n : Nat) (hn : n < 32768) :
    ∃ r c, classdefReadOld (zigzag n) 0 = .ok (r, c) ∧ c.steps = 2 + n * 65536 ∧
      c.steps ≥ n * 65534 ∧ c.alloc = 1 + n * 65534 ∧ (zigzag n).length = 12 * n + 4 := by
  have hfmt : readU16 "classdef.go:72#ReadUint16" (zigzag n) 0 = .ok 2 := by
    rw [readU16_eq]; rfl
  have hcnt : readU16 "classdef.go:104#ReadUint16" (zigzag n) (0 + 2) = .ok (2 * n) := by
    rw [readU16_eq]
    simp only [wordAt, zigzag, be16, be, List.drop, List.cons_append, List.nil_append,
      UInt8.toNat_ofNat']
    congr 1
    omega
  have hdrop : (zigzag n).drop (0 + 4) = (List.replicate n zigPair).flatten := rfl
  obtain ⟨r, c, hrec, hs, ha⟩ := cdLoop2_zig (zigzag n) n (0 + 4) 0 0 []
    (Cost.zero.tick.tick.mem 1) hdrop (Or.inl rfl)
  refine ⟨r, c, ?_, ?_, ?_, ?_, zigzag_length n⟩
  · unfold classdefReadOld classdefReadG
    rw [hfmt, ok_bind]
    dsimp only
    rw [if_neg (by omega), if_pos rfl, hcnt, ok_bind, hrec]
  · simp only [Cost.tick, Cost.mem, Cost.zero] at hs; omega
  · simp only [Cost.tick, Cost.mem, Cost.zero] at hs; omega
  · simp only [Cost.tick, Cost.mem, Cost.zero] at ha; omega

/-- hence no bound `steps ≤ 2000·|b| + 2000` held for the unrepaired `classdef.Read` (witness: 10 repetitions,
124 bytes, 655 362 steps) -/
theorem classdefReadOld_not_linear :
    ¬ ∀ (b : Bytes) (pos : Nat) (r : List (Nat × Nat)) (c : Cost),
      classdefReadOld b pos = .ok (r, c) → c.steps ≤ 2000 * b.length + 2000 := by
  intro h
  obtain ⟨r, c, hr, hs, _, _, hl⟩ := classdef2_zigzag_cost 10 (by omega)
  have := h _ _ r c hr
  rw [hs, hl] at this
  omega

/-- the reader as it is now rejects the zigzag (already its second range) -/
example : classdefRead (zigzag 1) 0 = .err "invalid" := by decide +kernel

/-! ## non-vacuity -/

/-- coverage format 1: glyphs 5, 6, 9 -/
example : coverageRead [0,1, 0,3, 0,5, 0,6, 0,9] 0 = .ok ([(5,0), (6,1), (9,2)], ⟨5, 4⟩) := by
  decide +kernel
/-- coverage format 2 at position 3: ranges 5..6 and 9..9 -/
example : coverageRead [7,7,7, 0,2, 0,2, 0,5, 0,6, 0,0, 0,9, 0,9, 0,2] 3
    = .ok ([(5,0), (6,1), (9,2)], ⟨7, 4⟩) := by decide +kernel
/-- set format 1 with a duplicate, format 2 with touching ranges -/
example : readSet [0,1, 0,3, 0,5, 0,5, 0,4] 0 = .ok ([5, 5, 4], ⟨5, 4⟩) := by decide +kernel
example : readSet [0,2, 0,2, 0,5, 0,6, 0,0, 0,6, 0,7, 0,2] 0 = .ok ([5, 6, 6, 7], ⟨8, 5⟩) := by
  decide +kernel
/-- classdef format 1 (class 0 is not stored) and format 2 (newest range first) -/
example : classdefRead [0,1, 0,5, 0,3, 0,1, 0,0, 0,2] 0 = .ok ([(5,1), (7,2)], ⟨5, 3⟩) := by
  decide +kernel
example : classdefRead [0,2, 0,2, 0,5, 0,6, 0,1, 0,9, 0,9, 0,3] 0
    = .ok ([(9,3), (5,1), (6,1)], ⟨7, 4⟩) := by decide +kernel
/-- a position beyond the end is an I/O error, not a panic -/
example : classdefRead [0,2, 0,0] 1000 = .err "io" := by decide +kernel
/-- on an increasing table the code before the repair gave the same result -/
example : classdefReadOld [0,2, 0,2, 0,5, 0,6, 0,1, 0,9, 0,9, 0,3] 0
    = .ok ([(9,3), (5,1), (6,1)], ⟨7, 4⟩) := by decide +kernel

end SfntV.Total.Otl
