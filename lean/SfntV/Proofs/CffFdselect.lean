/-
Helper lemmas about the FDSelect model (cff/fdselect.go).  Property theorems: Props/C13.lean.
-/
import SfntV.Model.CffFdselect
import SfntV.Proofs.CffIndex

namespace SfntV.Cff
open SfntV

/-! ### `sort.Search` -/

/-- Binary search over a monotone predicate returns the least index at which it holds
(`n` if there is none). -/
theorem searchLoop_spec (f : Nat → Bool) (n : Nat)
    (hmono : ∀ a b, a ≤ b → b < n → f a = true → f b = true) :
    ∀ (fuel i j : Nat), i ≤ j → j ≤ n → j - i ≤ fuel → (∀ k, k < i → f k = false) →
      (j < n → f j = true) →
      i ≤ searchLoop f fuel i j ∧ searchLoop f fuel i j ≤ j ∧
        (∀ k, k < searchLoop f fuel i j → f k = false) ∧
        (searchLoop f fuel i j < n → f (searchLoop f fuel i j) = true) := by
  intro fuel
  induction fuel with
  | zero =>
    intro i j hij hjn hfu hlo hhi
    have : i = j := by omega
    subst this
    simp only [searchLoop]
    exact ⟨Nat.le_refl _, Nat.le_refl _, hlo, hhi⟩
  | succ fuel ih =>
    intro i j hij hjn hfu hlo hhi
    simp only [searchLoop]
    by_cases hlt : i < j
    · simp only [hlt, if_true]
      have hh1 : i ≤ (i + j) / 2 := by omega
      have hh2 : (i + j) / 2 < j := by omega
      cases hfh : f ((i + j) / 2) with
      | false =>
        simp only [Bool.not_false, if_true]
        have := ih ((i + j) / 2 + 1) j (by omega) hjn (by omega)
          (by
            intro k hk
            cases hfk : f k with
            | false => rfl
            | true =>
              have := hmono k ((i + j) / 2) (by omega) (by omega) hfk
              rw [hfh] at this; cases this)
          hhi
        exact ⟨by omega, this.2.1, this.2.2.1, this.2.2.2⟩
      | true =>
        simp only [Bool.not_true, Bool.false_eq_true, if_false]
        have := ih i ((i + j) / 2) hh1 (by omega) (by omega) hlo (fun _ => hfh)
        exact ⟨this.1, by omega, this.2.2.1, this.2.2.2⟩
    · simp only [hlt, if_false]
      have : i = j := by omega
      subst this
      exact ⟨Nat.le_refl _, Nat.le_refl _, hlo, hhi⟩

theorem sortSearch_spec (f : Nat → Bool) (n : Nat)
    (hmono : ∀ a b, a ≤ b → b < n → f a = true → f b = true) :
    sortSearch n f ≤ n ∧ (∀ k, k < sortSearch n f → f k = false) ∧
      (sortSearch n f < n → f (sortSearch n f) = true) := by
  have := searchLoop_spec f n hmono (n + 1) 0 n (Nat.zero_le _) (Nat.le_refl _) (by omega)
    (fun k hk => absurd hk (Nat.not_lt_zero _)) (fun h => absurd h (Nat.lt_irrefl _))
  exact ⟨this.2.1, this.2.2.1, this.2.2.2⟩


/-! ### segments and the function they describe -/

/-- values from glyph `i` on: `v` until the first segment starts, then the segments; `n` = end -/
def expandC : Nat → Int → List (Nat × Int) → Nat → List Int
  | i, v, [], n => List.replicate (n - i) v
  | i, v, (j, w) :: rest, n => List.replicate (j - i) v ++ expandC j w rest n

/-- the segment starts are strictly increasing, the first one at least `lo` -/
def ChainGe : Nat → List (Nat × Int) → Prop
  | _, [] => True
  | lo, (j, _) :: rest => lo ≤ j ∧ ChainGe (j + 1) rest

theorem ChainGe_mono (lo lo' : Nat) (segs : List (Nat × Int)) (h : lo' ≤ lo) (hc : ChainGe lo segs) :
    ChainGe lo' segs := by
  cases segs with
  | nil => trivial
  | cons s rest => exact ⟨by have := hc.1; omega, hc.2⟩

theorem expandC_step (i : Nat) (v : Int) (segs : List (Nat × Int)) (n : Nat)
    (hc : ChainGe (i + 1) segs) (hn : i < n) :
    expandC i v segs n = v :: expandC (i + 1) v segs n := by
  cases segs with
  | nil =>
    simp only [expandC]
    have : n - i = (n - (i + 1)) + 1 := by omega
    rw [this, List.replicate_succ]
  | cons s rest =>
    obtain ⟨j, w⟩ := s
    simp only [expandC]
    have hj : i + 1 ≤ j := hc.1
    have : j - i = (j - (i + 1)) + 1 := by omega
    rw [this, List.replicate_succ, List.cons_append]

/-- all segment starts are below `n` -/
def StartsLt (n : Nat) (segs : List (Nat × Int)) : Prop := ∀ s ∈ segs, s.1 < n

theorem fdSegs_spec (rest : List Int) : ∀ (i : Nat) (v : Int),
    expandC i v (fdSegs i (some v) rest) (i + rest.length) = rest ∧
      ChainGe i (fdSegs i (some v) rest) ∧ StartsLt (i + rest.length) (fdSegs i (some v) rest) ∧
      (∀ s ∈ fdSegs i (some v) rest, s.2 ∈ rest) := by
  induction rest with
  | nil => intro i v; simp [fdSegs, expandC, ChainGe, StartsLt]
  | cons fd r ih =>
    intro i v
    simp only [fdSegs, List.length_cons]
    have hlen : i + (r.length + 1) = (i + 1) + r.length := by omega
    by_cases hv : v = fd
    · subst hv
      simp only [if_true]
      obtain ⟨h1, h2, h3, h4⟩ := ih (i + 1) v
      rw [hlen]
      refine ⟨?_, ChainGe_mono _ _ _ (by omega) h2, h3, fun s hs => List.mem_cons_of_mem _ (h4 s hs)⟩
      rw [expandC_step i v _ _ h2 (by omega), h1]
    · have hv' : ¬ (some v = some fd) := by simpa using hv
      simp only [hv', if_false]
      obtain ⟨h1, h2, h3, h4⟩ := ih (i + 1) fd
      rw [hlen]
      refine ⟨?_, ⟨Nat.le_refl _, h2⟩, ?_, ?_⟩
      · simp only [expandC, Nat.sub_self, List.replicate_zero, List.nil_append]
        rw [expandC_step i fd _ _ h2 (by omega), h1]
      · intro s hs
        simp only [List.mem_cons] at hs
        rcases hs with rfl | hs
        · simp only; omega
        · exact h3 s hs
      · intro s hs
        simp only [List.mem_cons] at hs
        rcases hs with rfl | hs
        · simp
        · exact List.mem_cons_of_mem _ (h4 s hs)

/-- the segments of a non-empty list: the first starts at 0 with the first value -/
theorem fdSegs_top (fd : Int) (r : List Int) :
    fdSegs 0 none (fd :: r) = (0, fd) :: fdSegs 1 (some fd) r := by
  simp [fdSegs]


/-! ### the lookup function of format 3 -/

/-- `end` in `readFDSelect`: the starts of all segments but the first, then the sentinel -/
def endsOf (tail : List (Nat × Int)) (n : Nat) : List Nat := tail.map (·.1) ++ [n]

theorem length_endsOf (tail : List (Nat × Int)) (n : Nat) : (endsOf tail n).length = tail.length + 1 := by
  simp [endsOf]

/-- `r` is the least index with `gid < ends[r]` -/
def IsFirst (ends : List Nat) (gid r : Nat) : Prop :=
  r < ends.length ∧ gid < ends.getD r 0 ∧ ∀ k, k < r → ends.getD k 0 ≤ gid

theorem length_expandC (tail : List (Nat × Int)) : ∀ (i : Nat) (v : Int) (n : Nat),
    ChainGe i tail → StartsLt n tail → i ≤ n → (expandC i v tail n).length = n - i := by
  induction tail with
  | nil => intro i v n _ _ _; simp [expandC]
  | cons s t ih =>
    intro i v n hc hs hin
    obtain ⟨j, w⟩ := s
    have hj : i ≤ j := hc.1
    have hjn : j < n := hs (j, w) (List.mem_cons_self ..)
    simp only [expandC, List.length_append, List.length_replicate]
    rw [ih j w n (ChainGe_mono _ _ _ (by omega) hc.2) (fun x hx => hs x (List.mem_cons_of_mem _ hx)) (by omega)]
    omega

theorem lookup_segments (tail : List (Nat × Int)) : ∀ (i : Nat) (v : Int) (n gid r : Nat),
    ChainGe (i + 1) tail → StartsLt n tail → i ≤ gid → gid < n → IsFirst (endsOf tail n) gid r →
    (v :: tail.map (·.2))[r]? = (expandC i v tail n)[gid - i]? := by
  induction tail with
  | nil =>
    intro i v n gid r _ _ hig hgn hf
    have hr : r = 0 := by have := hf.1; simp [endsOf] at this; omega
    subst hr
    simp only [expandC, List.map_nil, List.getElem?_cons_zero, List.getElem?_replicate]
    have : gid - i < n - i := by omega
    simp [this]
  | cons s t ih =>
    intro i v n gid r hc hs hig hgn hf
    obtain ⟨j, w⟩ := s
    have hj : i + 1 ≤ j := hc.1
    have hends : endsOf ((j, w) :: t) n = j :: endsOf t n := by simp [endsOf]
    rw [hends] at hf
    simp only [expandC, List.map_cons]
    by_cases hgj : gid < j
    · have hr : r = 0 := by
        cases r with
        | zero => rfl
        | succ r' =>
          have := hf.2.2 0 (by omega)
          simp at this
          omega
      subst hr
      rw [List.getElem?_append_left (by simp; omega)]
      simp only [List.getElem?_cons_zero, List.getElem?_replicate]
      have : gid - i < j - i := by omega
      simp [this]
    · cases r with
      | zero =>
        have := hf.2.1
        simp at this
        omega
      | succ r' =>
        have hf' : IsFirst (endsOf t n) gid r' := by
          refine ⟨?_, ?_, ?_⟩
          · have := hf.1; simp at this; omega
          · have := hf.2.1; simpa using this
          · intro k hk
            have := hf.2.2 (k + 1) (by omega)
            simpa using this
        have := ih j w n gid r' hc.2 (fun x hx => hs x (List.mem_cons_of_mem _ hx)) (by omega) hgn hf'
        rw [List.getElem?_cons_succ, this]
        rw [List.getElem?_append_right (by simp; omega)]
        simp only [List.length_replicate]
        congr 1
        omega

theorem endsOf_sorted (tail : List (Nat × Int)) (n : Nat) : ∀ (lo : Nat),
    ChainGe lo tail → StartsLt n tail → lo ≤ n →
    ∀ a b, a ≤ b → b < (endsOf tail n).length →
      lo ≤ (endsOf tail n).getD a 0 ∧ (endsOf tail n).getD a 0 ≤ (endsOf tail n).getD b 0 := by
  induction tail with
  | nil =>
    intro lo _ _ hlo a b hab hb
    simp [endsOf] at hb
    have : a = 0 := by omega
    subst this; subst hb
    simp [endsOf]; exact hlo
  | cons s t ih =>
    intro lo hc hs hlo a b hab hb
    obtain ⟨j, w⟩ := s
    have hj : lo ≤ j := hc.1
    have hjn : j < n := hs (j, w) (List.mem_cons_self ..)
    have hends : endsOf ((j, w) :: t) n = j :: endsOf t n := by simp [endsOf]
    rw [hends] at hb ⊢
    have ih' := ih (j + 1) hc.2 (fun x hx => hs x (List.mem_cons_of_mem _ hx)) (by omega)
    cases a with
    | zero =>
      cases b with
      | zero => simp; exact hj
      | succ b' =>
        have := ih' b' b' (Nat.le_refl _) (by simp at hb; omega)
        simp only [List.getD_cons_zero, List.getD_cons_succ]
        omega
    | succ a' =>
      cases b with
      | zero => omega
      | succ b' =>
        have := ih' a' b' (by omega) (by simp at hb; omega)
        simp only [List.getD_cons_succ]
        omega

theorem endsOf_last (tail : List (Nat × Int)) (n : Nat) : (endsOf tail n).getD tail.length 0 = n := by
  simp [endsOf, List.getD_eq_getElem?_getD]


/-- The function returned by `readFDSelect` for format 3 (binary search over the range ends),
on the ranges the encoder derived from `fd :: r`, gives back the value of every glyph. -/
theorem fd3Lookup_segments (fd : Int) (r : List Int) (gid : Nat) (hg : gid < (fd :: r).length) :
    fd3Lookup (endsOf (fdSegs 1 (some fd) r) (fd :: r).length)
        ((fd :: (fdSegs 1 (some fd) r).map (·.2)).map Int.toNat) gid
      = .ok ((fd :: r).getD gid 0).toNat := by
  obtain ⟨h1, h2, h3, _⟩ := fdSegs_spec r 1 fd
  generalize htail : fdSegs 1 (some fd) r = tail at *
  have hn : (fd :: r).length = 1 + r.length := by simp; omega
  rw [hn] at hg ⊢
  generalize hnn : 1 + r.length = n at *
  have hfds : expandC 0 fd tail n = fd :: r := by
    rw [expandC_step 0 fd tail n h2 (by omega), h1]
  unfold fd3Lookup
  simp only [List.length_map, List.length_cons]
  have hmono : ∀ a b, a ≤ b → b < tail.length + 1 →
      decide (gid < (endsOf tail n).getD a 0) = true → decide (gid < (endsOf tail n).getD b 0) = true := by
    intro a b hab hb ha
    have := endsOf_sorted tail n 1 h2 h3 (by omega) a b hab (by rw [length_endsOf]; exact hb)
    simp only [decide_eq_true_eq] at ha ⊢
    omega
  have hspec := sortSearch_spec (fun i => decide (gid < (endsOf tail n).getD i 0)) (tail.length + 1) hmono
  generalize hr : sortSearch (tail.length + 1) (fun i => decide (gid < (endsOf tail n).getD i 0)) = rr at *
  have hrlt : rr < tail.length + 1 := by
    rcases Nat.lt_or_ge rr (tail.length + 1) with h | h
    · exact h
    · have := hspec.2.1 tail.length (by omega)
      simp only [endsOf_last, decide_eq_false_iff_not] at this
      omega
  have hfirst : IsFirst (endsOf tail n) gid rr := by
    refine ⟨by rw [length_endsOf]; exact hrlt, ?_, ?_⟩
    · have := hspec.2.2 hrlt; simpa using this
    · intro k hk; have := hspec.2.1 k hk; simpa using this
  have hlook := lookup_segments tail 0 fd n gid rr h2 h3 (Nat.zero_le _) hg hfirst
  rw [hfds, Nat.sub_zero] at hlook
  have hget : (fd :: r)[gid]? = some ((fd :: r).getD gid 0) := by
    rw [List.getD_eq_getElem?_getD]
    have : gid < (fd :: r).length := by simp; omega
    rw [List.getElem?_eq_getElem this]; rfl
  simp only [fd3Lookup.idx', idx]
  have : ((fd :: tail.map (·.2)).map Int.toNat)[rr]? = some ((fd :: r).getD gid 0).toNat := by
    rw [List.getElem?_map, hlook, hget]; rfl
  simp only [List.map_cons, List.map_map] at this ⊢
  rw [this]

/-! ### the bytes of format 3 -/

def seg3 (s : Nat × Int) : Bytes :=
  [UInt8.ofNat (s.1 / 256 % 256), UInt8.ofNat (s.1 % 256), byteOfInt s.2]

theorem length_flatMap_seg3 (segs : List (Nat × Int)) : (segs.flatMap seg3).length = 3 * segs.length := by
  induction segs with
  | nil => rfl
  | cons s t ih => simp only [List.flatMap_cons, List.length_append, ih, seg3, List.length_cons, List.length_nil]; omega

theorem beVal_u16 (v : Nat) (h : v < 65536) :
    beVal [UInt8.ofNat (v / 256 % 256), UInt8.ofNat (v % 256)] = v := by
  simp [beVal, UInt8.toNat_ofNat']
  omega

theorem toNat_byteOfInt (x : Int) (h : 0 ≤ x ∧ x < 256) : (byteOfInt x).toNat = x.toNat := by
  simp [byteOfInt, UInt8.toNat_ofNat']
  omega

theorem readFdRanges_written (np : Nat) (segs : List (Nat × Int)) :
    ∀ (A B : Bytes) (i c prev lo : Nat), c = A.length → ChainGe lo segs →
      (i = 0 → ∀ s rest, segs = s :: rest → s.1 = 0) → (i > 0 → prev < lo) →
      (∀ s ∈ segs, s.1 < 65536 ∧ 0 ≤ s.2 ∧ s.2 < 256 ∧ s.2 < np) →
      readFdRanges (A ++ segs.flatMap seg3 ++ B) np segs.length i c prev
        = .ok (segs.map fun s => (s.1, s.2.toNat)) := by
  induction segs with
  | nil => intro A B i c prev lo _ _ _ _ _; rfl
  | cons s t ih =>
    intro A B i c prev lo hc hch h0 hi hb
    obtain ⟨j, w⟩ := s
    have hs := hb (j, w) (List.mem_cons_self ..)
    simp only [List.length_cons, readFdRanges]
    have hd1 : A ++ ((j, w) :: t).flatMap seg3 ++ B
        = A ++ [UInt8.ofNat (j / 256 % 256), UInt8.ofNat (j % 256)] ++ ([byteOfInt w] ++ t.flatMap seg3 ++ B) := by
      simp [List.flatMap_cons, seg3, List.append_assoc]
    have hd2 : A ++ ((j, w) :: t).flatMap seg3 ++ B
        = (A ++ [UInt8.ofNat (j / 256 % 256), UInt8.ofNat (j % 256)]) ++ [byteOfInt w] ++ (t.flatMap seg3 ++ B) := by
      simp [List.flatMap_cons, seg3, List.append_assoc]
    have hd3 : A ++ ((j, w) :: t).flatMap seg3 ++ B = (A ++ seg3 (j, w)) ++ t.flatMap seg3 ++ B := by
      simp [List.flatMap_cons, List.append_assoc]
    have hr1 : rd (A ++ ((j, w) :: t).flatMap seg3 ++ B) c 2
        = some [UInt8.ofNat (j / 256 % 256), UInt8.ofNat (j % 256)] := by
      rw [hd1]; exact rd_mid _ _ _ _ _ hc rfl
    have hr2 : rd (A ++ ((j, w) :: t).flatMap seg3 ++ B) (c + 2) 1 = some [byteOfInt w] := by
      rw [hd2]; exact rd_mid _ _ _ _ _ (by simp [hc]) rfl
    rw [hr1]; simp only
    rw [beVal_u16 j hs.1]
    have hcond : ¬ ((i > 0 ∧ j ≤ prev) ∨ (i = 0 ∧ j ≠ 0)) := by
      rintro (⟨hi0, hjp⟩ | ⟨hi0, hj0⟩)
      · have := hi hi0; have := hch.1; omega
      · exact hj0 (h0 hi0 (j, w) t rfl)
    simp only [hcond, if_false]
    rw [hr2]; simp only
    have hfd : beVal [byteOfInt w] = w.toNat := by
      simp only [beVal, List.length_nil, Nat.pow_zero, Nat.mul_one, Nat.add_zero]
      exact toNat_byteOfInt w ⟨hs.2.1, hs.2.2.1⟩
    rw [hfd]
    have hnp : ¬ w.toNat ≥ np := by omega
    simp only [hnp, if_false]
    have hrec := ih (A ++ seg3 (j, w)) B (i + 1) (c + 3) j (j + 1) (by simp [seg3, hc]) hch.2
      (by omega) (by omega) (fun x hx => hb x (List.mem_cons_of_mem _ hx))
    rw [hd3, hrec]
    simp


/-! ### write then read -/

theorem length_fdSegs_le (l : List Int) : ∀ (i : Nat) (cur : Option Int), (fdSegs i cur l).length ≤ l.length := by
  induction l with
  | nil => intro i cur; simp [fdSegs]
  | cons x xs ih =>
    intro i cur
    simp only [fdSegs]
    split
    · have := ih (i + 1) cur; simp only [List.length_cons]; omega
    · have := ih (i + 1) (some x); simp only [List.length_cons]; omega

theorem mapOutcome_ok (f : Nat → Outcome Nat) (g : Nat → Nat) (l : List Nat)
    (h : ∀ x ∈ l, f x = .ok (g x)) : mapOutcome f l = .ok (l.map g) := by
  induction l with
  | nil => rfl
  | cons x xs ih =>
    simp only [mapOutcome, h x (List.mem_cons_self ..), ih (fun y hy => h y (List.mem_cons_of_mem _ hy)),
      List.map_cons]

theorem map_range_getD (l : List Int) :
    (List.range l.length).map (fun i => (l.getD i 0).toNat) = l.map Int.toNat := by
  apply List.ext_getElem
  · simp
  · intro i h1 h2
    simp at h1
    simp [List.getD_eq_getElem?_getD, List.getElem?_eq_getElem h1]

theorem any_byteOfInt (fds : List Int) (np : Nat) (hb : ∀ x ∈ fds, 0 ≤ x ∧ x < 256 ∧ x < np) :
    (fds.map byteOfInt).any (fun b => decide (b.toNat ≥ np)) = false := by
  rw [List.any_eq_false]
  intro b hbm
  obtain ⟨x, hx, rfl⟩ := List.mem_map.mp hbm
  have := hb x hx
  rw [toNat_byteOfInt x ⟨this.1, this.2.1⟩]
  simp; omega

theorem map_toNat_byteOfInt (fds : List Int) (hb : ∀ x ∈ fds, 0 ≤ x ∧ x < 256) :
    (fds.map byteOfInt).map (·.toNat) = fds.map Int.toNat := by
  rw [List.map_map]
  apply List.map_congr_left
  intro x hx
  exact toNat_byteOfInt x (hb x hx)

/-- `readFDSelect` followed by evaluating the returned function on every glyph gives back the
FD of every glyph, whichever of the two formats `FDSelectFn.encode` chose. -/
theorem readFDSelect_fdEncode (fds : List Int) (np : Nat) (hne : fds ≠ []) (hlen : fds.length < 65536)
    (hb : ∀ x ∈ fds, 0 ≤ x ∧ x < 256 ∧ x < np) (pre rest : Bytes) :
    readFDSelect (pre ++ fdEncode fds ++ rest) pre.length fds.length np = .ok (fds.map Int.toNat) := by
  unfold fdEncode
  simp only
  split
  · -- format 0
    unfold readFDSelect
    have hd1 : pre ++ (0 :: fds.map byteOfInt) ++ rest = pre ++ [0] ++ (fds.map byteOfInt ++ rest) := by
      simp [List.append_assoc]
    have hd2 : pre ++ (0 :: fds.map byteOfInt) ++ rest = (pre ++ [0]) ++ fds.map byteOfInt ++ rest := by
      simp [List.append_assoc]
    have hr : rd (pre ++ (0 :: fds.map byteOfInt) ++ rest) pre.length 1 = some [0] := by
      rw [hd1]; exact rd_mid _ _ _ _ _ rfl rfl
    rw [hr]; simp only
    have hv : beVal ([0] : Bytes) = 0 := by simp [beVal]
    rw [hv]; simp only [if_true]
    have hr2 : rd (pre ++ (0 :: fds.map byteOfInt) ++ rest) (pre.length + 1) fds.length = some (fds.map byteOfInt) := by
      rw [hd2]; exact rd_mid _ _ _ _ _ (by simp) (by simp)
    rw [hr2]; simp only
    rw [any_byteOfInt fds np hb]
    simp only [Bool.false_eq_true, if_false]
    rw [map_toNat_byteOfInt fds (fun x hx => ⟨(hb x hx).1, (hb x hx).2.1⟩)]
  · -- format 3
    obtain ⟨fd, r, rfl⟩ : ∃ fd r, fds = fd :: r := by
      cases fds with
      | nil => exact absurd rfl hne
      | cons a b => exact ⟨a, b, rfl⟩
    rw [fdSegs_top]
    obtain ⟨h1, h2, h3, h4⟩ := fdSegs_spec r 1 fd
    have hle := length_fdSegs_le r 1 (some fd)
    generalize htail : fdSegs 1 (some fd) r = tail at *
    generalize hn : (fd :: r).length = n at *
    have hn1 : n = 1 + r.length := by rw [← hn]; simp; omega
    rw [← hn1] at h3
    have hS : ((0, fd) :: tail).length < 65536 := by simp only [List.length_cons]; omega
    generalize hsegs : ((0, fd) :: tail) = segs at *
    have hSpos : 1 ≤ segs.length := by rw [← hsegs]; simp
    have hbs : ∀ s ∈ segs, s.1 < 65536 ∧ 0 ≤ s.2 ∧ s.2 < 256 ∧ s.2 < np := by
      intro s hs
      rw [← hsegs] at hs
      simp only [List.mem_cons] at hs
      rcases hs with rfl | hs
      · have := hb fd (List.mem_cons_self ..); simp only; omega
      · have := hb s.2 (List.mem_cons_of_mem _ (h4 s hs)); have := h3 s hs; omega
    unfold readFDSelect
    have hd0 : pre ++ ([3, UInt8.ofNat (segs.length / 256 % 256), UInt8.ofNat (segs.length % 256)]
          ++ segs.flatMap (fun s => [UInt8.ofNat (s.1 / 256 % 256), UInt8.ofNat (s.1 % 256), byteOfInt s.2])
          ++ [UInt8.ofNat (n / 256 % 256), UInt8.ofNat (n % 256)]) ++ rest
        = pre ++ [3] ++ ([UInt8.ofNat (segs.length / 256 % 256), UInt8.ofNat (segs.length % 256)]
          ++ segs.flatMap seg3 ++ [UInt8.ofNat (n / 256 % 256), UInt8.ofNat (n % 256)] ++ rest) := by
      have : seg3 = fun s => [UInt8.ofNat (s.1 / 256 % 256), UInt8.ofNat (s.1 % 256), byteOfInt s.2] := rfl
      rw [this]
      simp [List.append_assoc]
    rw [hd0]
    generalize hdata : pre ++ [3] ++ ([UInt8.ofNat (segs.length / 256 % 256), UInt8.ofNat (segs.length % 256)]
          ++ segs.flatMap seg3 ++ [UInt8.ofNat (n / 256 % 256), UInt8.ofNat (n % 256)] ++ rest) = data
    have hr : rd data pre.length 1 = some [3] := by
      rw [← hdata]; exact rd_mid _ _ _ _ _ rfl rfl
    rw [hr]; simp only
    have hv : beVal ([3] : Bytes) = 3 := by simp [beVal]
    rw [hv]
    simp only [show ¬ (3 = 0) by omega, if_false, if_true]
    have hr2 : rd data (pre.length + 1) 2
        = some [UInt8.ofNat (segs.length / 256 % 256), UInt8.ofNat (segs.length % 256)] := by
      rw [← hdata]
      have : pre ++ [3] ++ ([UInt8.ofNat (segs.length / 256 % 256), UInt8.ofNat (segs.length % 256)]
          ++ segs.flatMap seg3 ++ [UInt8.ofNat (n / 256 % 256), UInt8.ofNat (n % 256)] ++ rest)
          = (pre ++ [3]) ++ [UInt8.ofNat (segs.length / 256 % 256), UInt8.ofNat (segs.length % 256)]
            ++ (segs.flatMap seg3 ++ [UInt8.ofNat (n / 256 % 256), UInt8.ofNat (n % 256)] ++ rest) := by
        simp [List.append_assoc]
      rw [this]; exact rd_mid _ _ _ _ _ (by simp) rfl
    rw [hr2]; simp only
    rw [beVal_u16 _ hS]
    have hc0 : ¬ (n > 0 ∧ segs.length = 0) := by omega
    simp only [hc0, if_false]
    have hrr : readFdRanges data np segs.length 0 (pre.length + 3) 0
        = .ok (segs.map fun s => (s.1, s.2.toNat)) := by
      rw [← hdata]
      have : pre ++ [3] ++ ([UInt8.ofNat (segs.length / 256 % 256), UInt8.ofNat (segs.length % 256)]
          ++ segs.flatMap seg3 ++ [UInt8.ofNat (n / 256 % 256), UInt8.ofNat (n % 256)] ++ rest)
          = (pre ++ [3, UInt8.ofNat (segs.length / 256 % 256), UInt8.ofNat (segs.length % 256)])
            ++ segs.flatMap seg3 ++ ([UInt8.ofNat (n / 256 % 256), UInt8.ofNat (n % 256)] ++ rest) := by
        simp [List.append_assoc]
      rw [this]
      refine readFdRanges_written np segs _ _ 0 _ 0 0 (by simp) ?_ ?_ (by omega) hbs
      · rw [← hsegs]; exact ⟨Nat.le_refl _, h2⟩
      · intro _ s t hst
        rw [← hsegs] at hst
        injection hst with h _
        rw [← h]
    rw [hrr]; simp only
    have hr3 : rd data (pre.length + 3 + 3 * segs.length) 2
        = some [UInt8.ofNat (n / 256 % 256), UInt8.ofNat (n % 256)] := by
      rw [← hdata]
      have : pre ++ [3] ++ ([UInt8.ofNat (segs.length / 256 % 256), UInt8.ofNat (segs.length % 256)]
          ++ segs.flatMap seg3 ++ [UInt8.ofNat (n / 256 % 256), UInt8.ofNat (n % 256)] ++ rest)
          = (pre ++ [3, UInt8.ofNat (segs.length / 256 % 256), UInt8.ofNat (segs.length % 256)]
            ++ segs.flatMap seg3) ++ [UInt8.ofNat (n / 256 % 256), UInt8.ofNat (n % 256)] ++ rest := by
        simp [List.append_assoc]
      rw [this]; exact rd_mid _ _ _ _ _ (by simp only [List.length_append, List.length_cons, List.length_nil, length_flatMap_seg3]) rfl
    rw [hr3]; simp only
    rw [beVal_u16 n (by omega)]
    simp only [ne_eq, not_true_eq_false, if_false]
    -- the lookup function
    have hends : ((segs.map fun s => (s.1, s.2.toNat)).drop 1).map (·.1) ++ [n] = endsOf tail n := by
      rw [← hsegs]; simp [endsOf, List.map_map, Function.comp_def]
    have hfdIdx : (segs.map fun s => (s.1, s.2.toNat)).map (·.2) = (fd :: tail.map (·.2)).map Int.toNat := by
      rw [← hsegs]; simp [List.map_map, Function.comp_def]
    rw [hends, hfdIdx]
    have hlook : ∀ gid ∈ List.range n,
        fd3Lookup (endsOf tail n) ((fd :: tail.map (·.2)).map Int.toNat) gid
          = .ok ((fun i => ((fd :: r).getD i 0).toNat) gid) := by
      intro gid hg
      have hg' : gid < (fd :: r).length := by rw [hn]; exact List.mem_range.mp hg
      have := fd3Lookup_segments fd r gid hg'
      rw [htail, hn] at this
      exact this
    rw [mapOutcome_ok _ _ _ hlook, ← hn, map_range_getD]

end SfntV.Cff
