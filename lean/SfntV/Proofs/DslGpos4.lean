import SfntV.Proofs.DslGpos3
/-! C19, GPOS 4 (mark-to-base attachment): the general round trip. -/
set_option linter.unusedSimpArgs false
set_option linter.unusedVariables false
namespace SfntV.Dsl

theorem at_tokOk (nx : Option Nat) : TokOk tAt (ascii [64]) nx := by
  right; right; right; left; exact ⟨64, rfl, by decide⟩

theorem fragU_at : FragU (required tAt) [.tok tAt (ascii [64])] anyTok anyNext :=
  fragU_required tAt _ anyNext (fun nx _ => at_tokOk nx) (tk_canon tAt _ (by decide))

theorem fragU_comma : FragU (required tComma) [.tok tComma (ascii [44])] anyTok anyNext :=
  fragU_required tComma _ anyNext (fun nx _ => comma_tokOk nx) (tk_canon tComma _ (by decide))

/-- a class number read by `readUint16` -/
theorem frag_readUint16 (c : Nat) (h : c < 65536) :
    Frag readUint16 [.tok tInteger (ascii (decimal c))] c anyTok notDigit := by
  refine ⟨?_, ?_, ?_⟩
  · intro nx hn
    refine ⟨?_, trivial⟩
    right; left
    exact ⟨rfl, plain_shape (Int.ofNat c), hn⟩
  · intro rb hrb
    simp only [render, List.flatMap_cons, Piece.rbs, List.flatMap_nil, List.append_nil] at hrb
    exact ascii_canon _ (plain_ascii (Int.ofNat c)) rb hrb
  · intro line s t rest hs _
    obtain ⟨s1, e1, hs1⟩ := readItem_stream s { typ := tInteger, val := ascii (decimal c), line := line } _
      (by simpa [mkToks] using hs)
    refine ⟨s1, ?_, hs1⟩
    unfold readUint16
    rw [bind_run, e1]
    have ha : atoi (ascii (decimal c) |>.flatMap (·.2)) = some (Int.ofNat c) := by
      rw [ascii_bytes]; exact atoi_decimal c h
    simp only [bne_self_eq_false, Bool.false_eq_true, if_false, Tok.bytes, ha]
    have c1 : (decide (Int.ofNat c > 9223372036854775807) || decide (Int.ofNat c < -9223372036854775808)) = false := by
      simp; omega
    have c2 : (decide (Int.ofNat c < 0) || decide (Int.ofNat c ≥ 65536)) = false := by simp; omega
    simp only [c1, c2, Bool.false_eq_true, if_false, pure_run]
    simp

/-- the part of a mark record after `mark ` and before `;` -/
def markBody (g : Piece) (r : Nat × Int × Int) : List Piece :=
  [g, tk tColon [58], sp, tk tInteger (decimal r.1), tk tAt [64], tk tInteger (plainInt r.2.1), commaP,
    tk tInteger (plainInt r.2.2)]

def anchorP (a : Int × Int) : List Piece :=
  [sp, tk tAt [64], tk tInteger (plainInt a.1), commaP, tk tInteger (plainInt a.2)]

/-- the part of a base record after `base ` and before `;` -/
def baseBody (g : Piece) (as : List (Int × Int)) : List Piece := [g, tk tColon [58]] ++ as.flatMap anchorP

theorem markP_eq (g : Piece) (r : Nat × Int × Int) :
    markP g r = [tk tIdentifier kwMark, sp] ++ markBody g r ++ [semiP] := rfl

theorem baseP_eq (g : Piece) (as : List (Int × Int)) :
    baseP g as = [tk tIdentifier kwBase, sp] ++ baseBody g as ++ [semiP] := by
  simp [baseP, baseBody]
  rfl

theorem frag_markOne (f : Font) (hf : FontOk f) (acc : List (Nat × Nat × Int × Int)) (g : Nat) (hg : g < f.numGlyphs)
    (hlast : lastGe (acc.map (·.1)) g = false)
    (c : Nat) (x y : Int) (hc : c < 65536) (hx : I16 x) (hy : I16 y) (fuel : Nat) (hfuel : 1 < fuel) :
    Frag (markOne f fuel acc) (markBody ((newExplainer f).writeGlyph g) (c, x, y)) (g, c, x, y) anyTok notDigit := by
  unfold markOne
  simp only [markBody, commaP, sp, tk]
  refine frag_bind1 (frag_readGlyph f hf g hg fuel hfuel) ?_ (fun nx _ => by
      simpa [nextRune, render, ascii, Piece.rbs, a1] using safe_colon)
    (fun line t _ => by simp [mkToks, glyphItem, tColon, tIdentifier, tString, tInteger, tHyphen])
  simp only [hlast, Bool.false_eq_true, if_false]
  refine frag_then1 (frag_optional_yes [tColon] tColon (ascii [58]) anyNext (by decide)
    (fun nx _ => colon_tokOk nx) (tk_canon tColon _ (by decide))).toU ?_ (fun _ _ => trivial) (fun _ _ _ => trivial)
  apply frag_ws [a1 32] ws_sp
  refine frag_bind1 (frag_readUint16 c hc) ?_ (fun nx _ r hr => by
      simp [nextRune, render, ascii, Piece.rbs, a1] at hr; subst hr; decide) (fun _ _ _ => trivial)
  refine frag_then1 fragU_at ?_ (fun _ _ => trivial) (fun _ _ _ => trivial)
  refine frag_bind1 (frag_readInt16p x hx) ?_ (fun nx _ r hr => by
      simp [nextRune, render, ascii, Piece.rbs, a1] at hr; subst hr; decide) (fun _ _ _ => trivial)
  refine frag_then1 fragU_comma ?_ (fun _ _ => trivial) (fun _ _ _ => trivial)
  refine frag_bind1 (frag_readInt16p y hy) ?_ (fun nx h => by simpa [nextRune, render] using h) (fun _ _ _ => trivial)
  exact frag_weaken (frag_pure _ _) (fun _ h => h) (fun _ _ => trivial)

theorem frag_anchorsLoop : ∀ (as : List (Int × Int)) (i : Nat) (acc : List (Int × Int)),
    (∀ a ∈ as, I16 a.1 ∧ I16 a.2) →
    Frag (anchorsLoop as.length i acc) (as.flatMap anchorP) (acc ++ as) (fun t => [tComma].contains t.typ = false) notDigit := by
  intro as
  induction as with
  | nil =>
    intro i acc _
    simp only [List.length_nil, anchorsLoop, List.flatMap_nil, List.append_nil]
    exact frag_weaken (frag_pure _ _) (fun _ h => h) (fun _ _ => trivial)
  | cons a rest ih =>
    intro i acc hall
    obtain ⟨ha1, ha2⟩ := hall a (by simp)
    have hih := ih (i + 1) (acc ++ [a]) (fun b hb => hall b (by simp [hb]))
    simp only [List.length_cons, List.flatMap_cons]
    unfold anchorsLoop
    have hr : acc ++ a :: rest = (acc ++ [a]) ++ rest := by simp
    rw [hr]
    simp only [anchorP, commaP, sp, tk, List.cons_append, List.nil_append]
    have hopt : FragU (if (i == 0) = true then (pure false : PM Bool) else optional [tComma]) []
        (fun t => [tComma].contains t.typ = false) anyNext := by
      by_cases hi : (i == 0) = true
      · rw [if_pos hi]
        exact (frag_weaken (frag_pure false (fun t => [tComma].contains t.typ = false)) (fun _ h => h) (fun _ _ => trivial)).toU
      · rw [if_neg hi]
        exact (frag_optional_no [tComma]).toU
    refine frag_then (a := []) hopt ?_ (fun _ _ => trivial) (fun line t _ => by simp [mkToks, tAt, tComma])
    apply frag_ws [a1 32] ws_sp
    refine frag_then1 fragU_at ?_ (fun _ _ => trivial) (fun _ _ _ => trivial)
    refine frag_bind1 (frag_readInt16p a.1 ha1) ?_ (fun nx _ r hr => by
        simp [nextRune, render, ascii, Piece.rbs, a1] at hr; subst hr; decide) (fun _ _ _ => trivial)
    refine frag_then1 fragU_comma ?_ (fun _ _ => trivial) (fun _ _ _ => trivial)
    refine frag_bind1 (frag_readInt16p a.2 ha2) ?_ (fun nx h r hr => ?_) (fun _ _ _ => trivial)
    · exact hih
    · -- what follows the number: the next anchor (a space) or what follows the record
      cases rest with
      | nil => simp [nextRune, render] at hr; exact h r hr
      | cons b rest' =>
        simp [nextRune, render, anchorP, sp, Piece.rbs, a1] at hr; subst hr; decide

theorem frag_baseOne (f : Font) (hf : FontOk f) (acc : List (Nat × List (Int × Int))) (g : Nat) (hg : g < f.numGlyphs)
    (hlast : lastGe (acc.map (·.1)) g = false)
    (as : List (Int × Int)) (has : ∀ a ∈ as, I16 a.1 ∧ I16 a.2) (fuel : Nat) (hfuel : 1 < fuel) :
    Frag (baseOne f fuel as.length acc) (baseBody ((newExplainer f).writeGlyph g) as) (g, as)
      (fun t => [tComma].contains t.typ = false) notDigit := by
  unfold baseOne
  simp only [baseBody, tk, List.cons_append, List.nil_append]
  refine frag_bind1 (frag_readGlyph f hf g hg fuel hfuel) ?_ (fun nx _ => by
      simpa [nextRune, render, ascii, Piece.rbs, a1] using safe_colon)
    (fun line t _ => by simp [mkToks, glyphItem, tColon, tIdentifier, tString, tInteger, tHyphen])
  simp only [hlast, Bool.false_eq_true, if_false]
  refine frag_then1 (frag_optional_yes [tColon] tColon (ascii [58]) anyNext (by decide)
    (fun nx _ => colon_tokOk nx) (tk_canon tColon _ (by decide))).toU ?_ (fun _ _ => trivial) (fun _ _ _ => trivial)
  have := frag_anchorsLoop as 0 [] has
  have hp : as.flatMap anchorP = as.flatMap anchorP ++ [] := by simp
  rw [hp]
  refine frag_bind this ?_ (fun nx h => by simpa [nextRune, render] using h) (fun line t ht => by simpa [mkToks] using ht)
  simp only [List.nil_append]
  exact frag_weaken (frag_pure _ _) (fun _ h => h) (fun _ _ => trivial)

/-- records one per line: every record `kw body;`; between records a line break and a tab.  When the
last record ends the text (`final`), a line break may follow it (`sw`) which the loop takes. -/
def linesP {ι : Type} (kw : List Nat) (pcs : ι → List Piece) : List ι → Bool → Bool → List Piece
  | [], _, _ => []
  | i :: rest, final, sw =>
    [tk tIdentifier kw, sp] ++ pcs i ++ [semiP] ++
      (if rest.isEmpty && final then (if sw then [eolP] else []) else [eolP, tab] ++ linesP kw pcs rest final sw)

theorem frag_recLoop {α ι : Type} (kw : List Nat)
    (hkw : TokOk tIdentifier (ascii kw) (some 32) ∧ ∀ rb ∈ ascii kw, Canon rb)
    (one : List α → PM α) (pcs : ι → List Piece) (val : ι → α) (Pone : Tok → Prop)
    (hsemi : ∀ t, t.typ = tSemicolon → Pone t)
    (N1 : Option Nat → Prop) (hN59 : N1 (some 59)) (final sw : Bool) :
    ∀ (items : List ι) (acc : List α) (n : Nat), items.length < n →
      (∀ pre i post, items = pre ++ i :: post → Frag (one (acc ++ pre.map val)) (pcs i) (val i) Pone N1) →
      Frag (recLoop kw one n acc) (linesP kw pcs items final sw) (acc ++ items.map val)
        (fun t => isIdent t kw = false ∧ (final = true → sw = true ∨ [tEOL].contains t.typ = false)) anyNext := by
  intro items
  induction items with
  | nil =>
    intro acc n hn _
    cases n with
    | zero => omega
    | succ m =>
      unfold recLoop
      simp only [linesP, List.map_nil, List.append_nil]
      have := frag_bind (frag_optIdent_no kw) (b := [])
        (frag_pure acc (fun t => isIdent t kw = false ∧ (final = true → sw = true ∨ [tEOL].contains t.typ = false)))
        (f := fun b => if (!b) = true then pure acc else
          (one acc >>= fun item => optional [tSemicolon] >>= fun _ => optional [tEOL] >>= fun _ => recLoop kw one m (acc ++ [item])))
        (fun _ _ => trivial) (fun line t ht => by simpa [mkToks] using ht.1)
      simpa using this
  | cons i rest ih =>
    intro acc n hn hone
    cases n with
    | zero => omega
    | succ m =>
      have h0 := hone [] i rest rfl
      simp only [List.map_nil, List.append_nil] at h0
      have hih := ih (acc ++ [val i]) m (by simp at hn; omega) (by
        intro pre x post e
        have := hone (i :: pre) x post (by simp [e])
        simpa using this)
      have hr : acc ++ (i :: rest).map val = (acc ++ [val i]) ++ rest.map val := by simp
      rw [hr]
      unfold recLoop
      have hsemiY := (frag_optional_yes [tSemicolon] tSemicolon (ascii [59]) anyNext (by decide)
          (fun nx _ => semi_tokOk nx) (tk_canon tSemicolon _ (by decide))).toU
      have heolY := (frag_optional_yes [tEOL] tEOL (ascii [10]) anyNext (by decide)
          (fun nx _ => eol_tokOk nx) (tk_canon tEOL _ (by decide))).toU
      -- the part after the semicolon
      have htail : Frag (optional [tEOL] >>= fun _ => recLoop kw one m (acc ++ [val i]))
          (if rest.isEmpty && final then (if sw then [eolP] else []) else [eolP, tab] ++ linesP kw pcs rest final sw)
          ((acc ++ [val i]) ++ rest.map val)
          (fun t => isIdent t kw = false ∧ (final = true → sw = true ∨ [tEOL].contains t.typ = false)) anyNext := by
        by_cases hc : (rest.isEmpty && final) = true
        · rw [if_pos hc]
          simp only [Bool.and_eq_true, List.isEmpty_iff] at hc
          obtain ⟨hre, hfin⟩ := hc
          subst hre
          simp only [linesP] at hih
          cases sw with
          | true =>
            simp only [if_true]
            have := frag_then1 heolY hih (fun _ _ => trivial) (fun _ _ _ => trivial)
            simpa [eolP, tk] using this
          | false =>
            simp only [Bool.false_eq_true, if_false]
            refine frag_then (a := []) (frag_optional_no [tEOL]).toU
              (frag_weaken hih (fun t ht => ⟨ht.1, fun hf => by simpa using ht.2 hf⟩) (fun _ h => h))
              (fun _ _ => trivial) (fun line t ht => ?_)
            have := ht.2 hfin
            simpa [mkToks] using this
        · rw [if_neg hc]
          have := frag_then1 heolY (frag_ws [a1 9] ws_tab hih) (fun _ _ => trivial) (fun _ _ _ => trivial)
          simpa [eolP, tab, tk] using this
      have hpc : linesP kw pcs (i :: rest) final sw = .tok tIdentifier (ascii kw) :: .ws [a1 32] :: (pcs i ++
          (.tok tSemicolon (ascii [59]) ::
            (if rest.isEmpty && final then (if sw then [eolP] else []) else [eolP, tab] ++ linesP kw pcs rest final sw))) := by
        simp [linesP, sp, tk, semiP]
      rw [hpc]
      refine frag_bind1 (frag_optIdent_yes kw (fun nx => nx = some 32) (fun nx h => by rw [h]; exact hkw.1) hkw.2) ?_
        (fun nx _ => by simp [nextRune, render, Piece.rbs, a1]) (fun _ _ _ => trivial)
      simp only [Bool.not_true, Bool.false_eq_true, if_false]
      apply frag_ws [a1 32] ws_sp
      refine frag_bind h0 ?_ (fun nx _ => by simpa [nextRune, render, ascii, Piece.rbs, a1] using hN59)
        (fun line t _ => by apply hsemi; simp [mkToks])
      exact frag_then1 hsemiY htail (fun _ _ => trivial) (fun _ _ _ => trivial)

/-- lines joined by a line break and a tab -/
def joinL : List (List Piece) → List Piece
  | [] => []
  | r0 :: rest => r0 ++ rest.flatMap (fun r => [eolP, tab] ++ r)

theorem joinL_cons2 (x y : List Piece) (L : List (List Piece)) :
    joinL (x :: y :: L) = x ++ ([eolP, tab] ++ joinL (y :: L)) := by
  simp [joinL]

def lineOf {ι : Type} (kw : List Nat) (pcs : ι → List Piece) (i : ι) : List Piece :=
  [tk tIdentifier kw, sp] ++ pcs i ++ [semiP]

theorem linesP_final {ι : Type} (kw : List Nat) (pcs : ι → List Piece) (sw : Bool) :
    ∀ (items : List ι), items ≠ [] →
      linesP kw pcs items true sw = joinL (items.map (lineOf kw pcs)) ++ (if sw then [eolP] else []) := by
  intro items
  induction items with
  | nil => intro h; exact absurd rfl h
  | cons i rest ih =>
    intro _
    cases rest with
    | nil => simp [linesP, joinL, lineOf]
    | cons j rest' =>
      have := ih (by simp)
      rw [List.map_cons, List.map_cons, joinL_cons2, ← List.map_cons]
      simp only [List.append_assoc]
      rw [← this]
      simp [linesP, lineOf]

theorem linesP_mid {ι : Type} (kw : List Nat) (pcs : ι → List Piece) (sw : Bool) (y : List Piece) (L : List (List Piece)) :
    ∀ (items : List ι),
      linesP kw pcs items false sw ++ joinL (y :: L) = joinL (items.map (lineOf kw pcs) ++ y :: L) := by
  intro items
  induction items with
  | nil => simp [linesP]
  | cons i rest ih =>
    cases rest with
    | nil =>
      simp only [List.map_cons, List.map_nil, List.cons_append, List.nil_append, joinL_cons2]
      simp [linesP, lineOf]
    | cons j rest' =>
      rw [List.map_cons, List.map_cons, List.cons_append, List.cons_append, joinL_cons2, ← List.cons_append,
        ← List.map_cons, ← ih]
      simp [linesP, lineOf]

theorem lastGe_false (gs : List Nat) (g : Nat) (h : ∀ x ∈ gs, x < g) : lastGe gs g = false := by
  unfold lastGe
  cases hl : gs.getLast? with
  | none => rfl
  | some l =>
    have := h l (List.mem_of_getLast? hl)
    simp; omega

theorem tokCount_joinL_ge : ∀ (L : List (List Piece)), (∀ x ∈ L, 1 ≤ tokCount x) → L.length ≤ tokCount (joinL L) := by
  intro L
  induction L with
  | nil => intro _; simp
  | cons x rest ih =>
    intro h
    cases rest with
    | nil => have := h x (by simp); simp [joinL]; omega
    | cons y rest' =>
      rw [joinL_cons2]
      have h1 := h x (by simp)
      have h2 := ih (fun z hz => h z (by simp [hz]))
      simp only [tokCount_append, List.length_cons] at h2 ⊢
      omega

abbrev MarkRec := Nat × Nat × Int × Int
abbrev BaseRec := Nat × List (Int × Int)

def classesOf (marks : List MarkRec) : List Nat := marks.map (·.2.1)

structure Gpos4Ok (f : Font) (marks : List MarkRec) (bases : List BaseRec) : Prop where
  ne : marks ≠ []
  mAsc : Asc (marks.map (·.1))
  mIn : ∀ r ∈ marks, r.1 < f.numGlyphs ∧ r.2.1 < 65536 ∧ I16 r.2.2.1 ∧ I16 r.2.2.2
  classes : (List.range (classesOf marks).eraseDups.length).all (fun c => (classesOf marks).contains c) = true
  bAsc : Asc (bases.map (·.1))
  bIn : ∀ b ∈ bases, b.1 < f.numGlyphs ∧ b.2.length = (classesOf marks).eraseDups.length ∧ ∀ a ∈ b.2, I16 a.1 ∧ I16 a.2

def sub4P (f : Font) (st : Subtable) : List Piece := (newExplainer f).subtable false st

def mpcs (f : Font) (r : MarkRec) : List Piece := markBody ((newExplainer f).writeGlyph r.1) r.2
def bpcs (f : Font) (r : BaseRec) : List Piece := baseBody ((newExplainer f).writeGlyph r.1) r.2

theorem sub4P_join (f : Font) (marks : List MarkRec) (bases : List BaseRec) (first : Bool) :
    (newExplainer f).subtable first (.gpos4_1 marks bases) =
      (if first && !(marks.map (lineOf kwMark (mpcs f)) ++ bases.map (lineOf kwBase (bpcs f))).isEmpty then [eolP, tab] else []) ++
      joinL (marks.map (lineOf kwMark (mpcs f)) ++ bases.map (lineOf kwBase (bpcs f))) := by
  have e1 : (fun r : MarkRec => markP ((newExplainer f).writeGlyph r.1) r.2) = lineOf kwMark (mpcs f) := by
    funext r; rw [markP_eq]; rfl
  have e2 : (fun r : BaseRec => baseP ((newExplainer f).writeGlyph r.1) r.2) = lineOf kwBase (bpcs f) := by
    funext r; rw [baseP_eq]; rfl
  simp only [Explainer.subtable, e1, e2]
  cases hL : marks.map (lineOf kwMark (mpcs f)) ++ bases.map (lineOf kwBase (bpcs f)) with
  | nil => simp [joinL]
  | cons r0 rest => cases first <;> simp [joinL]

theorem asc_pre_lt (xs : List Nat) (pre : List Nat) (g : Nat) (post : List Nat) (h : Asc xs) (e : xs = pre ++ g :: post) :
    ∀ x ∈ pre, x < g := by
  subst e
  intro x hx
  simp only [Asc, List.pairwise_append] at h
  exact h.2.2 x hx g (by simp)

theorem kwMark_ok : TokOk tIdentifier (ascii kwMark) (some 32) ∧ ∀ rb ∈ ascii kwMark, Canon rb :=
  ⟨Or.inl ⟨rfl, _, _, rfl, by decide, by decide, fun r hr => by cases hr; exact (safe_space 32 rfl).1⟩,
    ascii_canon _ (by decide)⟩

theorem kwBase_ok : TokOk tIdentifier (ascii kwBase) (some 32) ∧ ∀ rb ∈ ascii kwBase, Canon rb :=
  ⟨Or.inl ⟨rfl, _, _, rfl, by decide, by decide, fun r hr => by cases hr; exact (safe_space 32 rfl).1⟩,
    ascii_canon _ (by decide)⟩

/-- the stop of a GPOS 4 subtable: no `mark`/`base` follows, and no line break unless it is part
of the text (`sw`) -/
def Stop4 (sw : Bool) (t : Tok) : Prop :=
  (sw = true ∨ [tEOL].contains t.typ = false) ∧ isIdent t kwMark = false ∧ isIdent t kwBase = false

theorem frag_gpos4 (f : Font) (hf : FontOk f) (marks : List MarkRec) (bases : List BaseRec)
    (h : Gpos4Ok f marks bases) (sw : Bool) (fuel : Nat)
    (hfuel : tokCount (sub4P f (.gpos4_1 marks bases)) + 4 < fuel) :
    Frag (gpos4Sub f fuel) (sub4P f (.gpos4_1 marks bases) ++ (if sw then [eolP] else []))
      (.gpos4_1 marks bases) (Stop4 sw) anyNext := by
  obtain ⟨hne, hmAsc, hmIn, hcls, hbAsc, hbIn⟩ := h
  have hjoin := sub4P_join f marks bases false
  simp only [Bool.false_and, Bool.false_eq_true, if_false, List.nil_append] at hjoin
  have hlen : marks.length + bases.length + 4 < fuel := by
    have := tokCount_joinL_ge (marks.map (lineOf kwMark (mpcs f)) ++ bases.map (lineOf kwBase (bpcs f))) (by
      intro x hx
      simp only [List.mem_append, List.mem_map] at hx
      rcases hx with ⟨r, _, rfl⟩ | ⟨r, _, rfl⟩ <;> simp [lineOf, tokCount_append, tokCount, tk])
    simp only [List.length_append, List.length_map] at this
    unfold sub4P at hfuel
    rw [hjoin] at hfuel
    omega
  -- the text, split into the part of the mark loop and the part of the base loop
  have hT : sub4P f (.gpos4_1 marks bases) ++ (if sw then [eolP] else []) =
      linesP kwMark (mpcs f) marks bases.isEmpty sw ++ linesP kwBase (bpcs f) bases true sw := by
    unfold sub4P
    rw [hjoin]
    cases bases with
    | nil =>
      simp only [List.map_nil, List.append_nil, List.isEmpty_nil]
      rw [linesP_final kwMark (mpcs f) sw marks hne]
      simp [linesP]
    | cons b0 bs =>
      simp only [List.isEmpty_cons]
      rw [linesP_final kwBase (bpcs f) sw (b0 :: bs) (by simp), ← List.append_assoc, List.map_cons,
        linesP_mid kwMark (mpcs f) sw _ _ marks]
  rw [hT]
  unfold gpos4Sub
  have hmarks := frag_recLoop kwMark kwMark_ok (markOne f fuel) (mpcs f) id anyTok (fun _ _ => trivial) notDigit
    (fun r hr => by cases hr; decide) bases.isEmpty sw marks [] fuel (by omega) (by
      intro pre i post e
      have hi : i ∈ marks := by rw [e]; simp
      obtain ⟨h1, h2, h3, h4⟩ := hmIn i hi
      have hl : lastGe (pre.map (·.1)) i.1 = false := by
        apply lastGe_false
        exact asc_pre_lt _ (pre.map (·.1)) i.1 (post.map (·.1)) hmAsc (by rw [e]; simp)
      have := frag_markOne f hf pre i.1 h1 hl i.2.1 i.2.2.1 i.2.2.2 h2 h3 h4 fuel (by omega)
      simpa [mpcs] using this)
  have hbases := frag_recLoop kwBase kwBase_ok (baseOne f fuel (classesOf marks).eraseDups.length) (bpcs f) id
    (fun t => [tComma].contains t.typ = false) (fun t ht => by simp [ht, tSemicolon, tComma]) notDigit
    (fun r hr => by cases hr; decide) true sw bases [] fuel (by omega) (by
      intro pre i post e
      have hi : i ∈ bases := by rw [e]; simp
      obtain ⟨h1, h2, h3⟩ := hbIn i hi
      have hl : lastGe (pre.map (·.1)) i.1 = false := by
        apply lastGe_false
        exact asc_pre_lt _ (pre.map (·.1)) i.1 (post.map (·.1)) hbAsc (by rw [e]; simp)
      have := frag_baseOne f hf pre i.1 h1 hl i.2 h3 fuel (by omega)
      rw [h2] at this
      simpa [bpcs] using this)
  simp only [List.nil_append, List.map_id] at hmarks hbases
  refine frag_bind hmarks ?_ (fun _ _ => trivial) (fun line t ht => ?_)
  · simp only []
    have hc : (List.range (List.map (fun x => x.2.1) marks).eraseDups.length).all
        (fun c => (List.map (fun x => x.2.1) marks).contains c) = true := hcls
    simp only [hc, Bool.not_true, Bool.false_eq_true, if_false]
    have hp : linesP kwBase (bpcs f) bases true sw = linesP kwBase (bpcs f) bases true sw ++ [] := by simp
    rw [hp]
    refine frag_bind hbases ?_ (fun _ _ => trivial) (fun line t ht => by
      simp only [mkToks, List.head?_nil, Option.getD_none]
      exact ⟨ht.2.2, fun _ => ht.1⟩)
    exact frag_weaken (frag_pure _ (Stop4 sw)) (fun _ h => h) (fun _ _ => trivial)
  · cases bases with
    | nil =>
      simp only [linesP, mkToks, List.head?_nil, Option.getD_none, List.isEmpty_nil]
      exact ⟨ht.2.1, fun _ => ht.1⟩
    | cons b0 bs =>
      simp [linesP, mkToks, tk, isIdent, Tok.bytes, ascii_bytes, kwMark, kwBase]

def Gpos4Sub (f : Font) (st : Subtable) : Prop := ∃ marks bases, st = .gpos4_1 marks bases ∧ Gpos4Ok f marks bases

/-- GPOS 4 lookups: any flag set, at least one subtable; in every subtable at least one mark
record, mark and base glyphs ascending and inside the font, the mark classes used are 0 … k-1, one
anchor per class in every base record, int16 coordinates -/
structure LookupP4Ok (f : Font) (l : Lookup) : Prop where
  typ : l.typ = 4
  flags : l.flags < 16
  ne : l.subtables ≠ []
  subs : ∀ st ∈ l.subtables, Gpos4Sub f st

theorem lines_ne (f : Font) (marks : List MarkRec) (bases : List BaseRec) (h : marks ≠ []) :
    ∃ r0 rest, marks.map (lineOf kwMark (mpcs f)) ++ bases.map (lineOf kwBase (bpcs f)) = r0 :: rest ∧
      ∃ ps, r0 = tk tIdentifier kwMark :: ps := by
  cases marks with
  | nil => exact absurd rfl h
  | cons m ms => exact ⟨_, _, rfl, _, rfl⟩

theorem sub4_true (f : Font) (st : Subtable) (h : Gpos4Sub f st) :
    (newExplainer f).subtable true st = [eolP, tab] ++ sub4P f st := by
  obtain ⟨marks, bases, rfl, hok⟩ := h
  obtain ⟨r0, rest, hL, _⟩ := lines_ne f marks bases hok.ne
  unfold sub4P
  rw [sub4P_join, sub4P_join, hL]
  simp

theorem sub4_head (f : Font) (st : Subtable) (h : Gpos4Sub f st) (line : Nat) :
    ∃ t, (mkToks line (sub4P f st)).head? = some t ∧ [tHyphen].contains t.typ = false ∧ [tEOL].contains t.typ = false := by
  obtain ⟨marks, bases, rfl, hok⟩ := h
  obtain ⟨r0, rest, hL, ps, rfl⟩ := lines_ne f marks bases hok.ne
  refine ⟨{ typ := tIdentifier, val := ascii kwMark, line := line }, ?_, by simp [tIdentifier, tHyphen],
    by simp [tIdentifier, tEOL]⟩
  unfold sub4P
  rw [sub4P_join, hL]
  simp [joinL, mkToks, tk]

/-- a GPOS 4 subtable in the middle of a lookup (a `||` follows) -/
theorem sub4_mid (f : Font) (hf : FontOk f) (st : Subtable) (h : Gpos4Sub f st) (fuel : Nat)
    (hfuel : tokCount (sub4P f st) + 4 < fuel) :
    Frag (gpos4Sub f fuel) (sub4P f st) (normSub st) isOr Safe := by
  obtain ⟨marks, bases, rfl, hok⟩ := h
  have := frag_gpos4 f hf marks bases hok false fuel hfuel
  simp only [Bool.false_eq_true, if_false, List.append_nil] at this
  refine frag_weaken this (fun t ht => ?_) (fun _ _ => trivial)
  have ht' : t.typ = tOr := ht
  exact ⟨Or.inr (by simp [ht', tOr, tEOL]), by simp [isIdent, ht', tOr, tIdentifier], by simp [isIdent, ht', tOr, tIdentifier]⟩

theorem hdr4 (f : Font) (hf : FontOk f) (flags : Nat) (hfl : flags < 16) (st0 : Subtable) (h0 : Gpos4Sub f st0)
    (F0 : Nat) (hF : 4 < F0) :
    ∃ (hdr : List Piece) (Nh : Option Nat → Prop),
      Frag (header F0) hdr flags (fun t => [tHyphen].contains t.typ = false ∧ [tEOL].contains t.typ = false) Nh ∧
      (∃ ps, hdr = tk tColon [58] :: ps) ∧
      (∀ X, ([tk tColon [58]] ++ explainFlags flags) ++ (((newExplainer f).subtable true st0 ++ X) ++ []) =
        hdr ++ ((sub4P f st0 ++ X) ++ [])) ∧
      (∀ Y nx, Nh (nextRune (sub4P f st0 ++ Y) nx)) := by
  have h4 : Gen.dslExplainFlagsC.length = 4 := by decide
  refine ⟨([tk tColon [58]] ++ (explainFlags flags ++ [eolP])) ++ [.ws [a1 9]], anyNext,
    frag_ws_end [a1 9] ws_tab (frag_header_eol flags hfl F0 (by omega)), ⟨_, rfl⟩, ?_, fun _ _ => trivial⟩
  intro X
  rw [sub4_true f _ h0]
  simp [tab]

/-- a GPOS 4 lookup body whose last subtable is followed by `tail` -/
theorem body4_gen (f : Font) (hf : FontOk f) (l : Lookup) (h1 : l.typ = 4) (h2 : l.flags < 16)
    (init : List Subtable) (stL : Subtable) (hs : l.subtables = init ++ [stL])
    (hsub : ∀ st ∈ l.subtables, Gpos4Sub f st) (F0 : Nat)
    (hsubF : ∀ st ∈ l.subtables, tokCount (sub4P f st) + 4 < F0) (hlenF : l.subtables.length + 3 < F0)
    (tail : List Piece) (P : Tok → Prop) (N : Option Nat → Prop)
    (hP : ∀ t, P t → [tOr].contains t.typ = false)
    (hlast : Frag (gpos4Sub f F0) (sub4P f stL ++ tail) (normSub stL) P N) :
    Frag (readGpos4 f F0) (bodyP f l ++ tail) (normLookup l) P N := by
  have hrd : readGpos4 f F0 = (header F0 >>= fun flags => subtablesLoop (gpos4Sub f F0) F0 [] >>= fun subs =>
      pure ({ typ := 4, flags := flags, subtables := subs } : Lookup)) := rfl
  have hall : ∀ pre q post,
      init.map (fun st => (sub4P f st, normSub st)) ++ [(sub4P f stL ++ tail, normSub stL)] = pre ++ q :: post →
      Frag (gpos4Sub f F0) q.1 q.2 (fun t => (post = [] ∧ P t) ∨ (post ≠ [] ∧ isOr t))
        (fun nx => (post = [] ∧ N nx) ∨ (post ≠ [] ∧ nx = some 32)) := by
    intro pre q post e
    rcases split_last _ _ pre q post e with ⟨hp, hq⟩ | ⟨hp, hq⟩
    · subst hp; subst hq
      refine frag_weaken hlast ?_ ?_
      · intro t ht; rcases ht with ⟨_, h⟩ | ⟨h, _⟩
        · exact h
        · exact absurd rfl h
      · intro nx hn; rcases hn with ⟨_, h⟩ | ⟨h, _⟩
        · exact h
        · exact absurd rfl h
    · simp only [List.mem_map] at hq
      obtain ⟨st, hst, rfl⟩ := hq
      have hmem : st ∈ l.subtables := by rw [hs]; simp [hst]
      refine frag_weaken (sub4_mid f hf st (hsub st hmem) F0 (hsubF st hmem)) ?_ ?_
      · intro t ht; rcases ht with ⟨h, _⟩ | ⟨_, h⟩
        · exact absurd h hp
        · exact h
      · intro nx hn; rcases hn with ⟨h, _⟩ | ⟨_, h⟩
        · exact absurd h hp
        · rw [h]; exact safe_space
  have h4F : 4 < F0 := by rw [hs] at hlenF; simp at hlenF; omega
  rw [hrd]
  cases init with
  | nil =>
    have hst : Gpos4Sub f stL := hsub stL (by rw [hs]; simp)
    obtain ⟨hdr, Nh, hh, _, heq, hNh⟩ := hdr4 f hf l.flags h2 stL hst F0 (by omega)
    have hb : bodyP f l ++ tail = hdr ++ (((sub4P f stL ++ tail) ++
        ([] : List (List Piece × Subtable)).flatMap (fun q => orSep ++ q.1)) ++ []) := by
      have : bodyP f l ++ tail = ([tk tColon [58]] ++ explainFlags l.flags) ++
          (((newExplainer f).subtable true stL ++ tail) ++ []) := by simp [bodyP, hs]
      rw [this, heq tail]; simp
    rw [hb]
    have := frag_lookupBody' (gpos4Sub f F0) 4 l.flags F0 hdr Nh hh P P N (fun t h => ⟨hP t h, h⟩)
      (sub4P f stL ++ tail) (normSub stL) [] (by simpa using hall)
      (by intro nx; have := hNh tail nx; simpa using this)
      (by
        intro line
        obtain ⟨t, ht, h3⟩ := sub4_head f stL hst line
        exact ⟨t, mkToks_head_append line _ _ t ht, h3⟩)
      (by simp; omega)
    simpa [h1, normLookup, hs] using this
  | cons i0 init' =>
    have hst : Gpos4Sub f i0 := hsub i0 (by rw [hs]; simp)
    obtain ⟨hdr, Nh, hh, _, heq, hNh⟩ := hdr4 f hf l.flags h2 i0 hst F0 (by omega)
    have hb : bodyP f l ++ tail = hdr ++ ((sub4P f i0 ++
        (init'.map (fun st => (sub4P f st, normSub st)) ++ [(sub4P f stL ++ tail, normSub stL)]).flatMap
          (fun q => orSep ++ q.1)) ++ []) := by
      have : bodyP f l ++ tail = ([tk tColon [58]] ++ explainFlags l.flags) ++
          (((newExplainer f).subtable true i0 ++
            ((init'.map (fun st => (sub4P f st, normSub st)) ++ [(sub4P f stL ++ tail, normSub stL)]).flatMap
              (fun q => orSep ++ q.1))) ++ []) := by
        simp [bodyP, hs, sub4P, List.flatMap_append]
      rw [this, heq]
    rw [hb]
    have := frag_lookupBody' (gpos4Sub f F0) 4 l.flags F0 hdr Nh hh P P N (fun t h => ⟨hP t h, h⟩)
      (sub4P f i0) (normSub i0) (init'.map (fun st => (sub4P f st, normSub st)) ++ [(sub4P f stL ++ tail, normSub stL)])
      (by simpa using hall)
      (by intro nx; have := hNh ((init'.map (fun st => (sub4P f st, normSub st)) ++ [(sub4P f stL ++ tail, normSub stL)]).flatMap
              (fun q => orSep ++ q.1)) nx; simpa using this)
      (sub4_head f i0 hst)
      (by rw [hs] at hlenF; simp at hlenF ⊢; omega)
    simpa [h1, normLookup, hs, List.map_map, Function.comp_def] using this

theorem body4_counts (f : Font) (l : Lookup) (hsub : ∀ st ∈ l.subtables, Gpos4Sub f st) :
    (∀ st ∈ l.subtables, tokCount (sub4P f st) + 1 ≤ tokCount (bodyP f l)) ∧
    l.subtables.length ≤ tokCount (bodyP f l) := by
  cases hs : l.subtables with
  | nil => simp
  | cons st0 more =>
    have hb : bodyP f l = ([tk tColon [58]] ++ explainFlags l.flags) ++
        (((newExplainer f).subtable true st0 ++
          (more.map fun st' => (sub4P f st', normSub st')).flatMap (fun q => orSep ++ q.1)) ++ []) := by
      simp [bodyP, hs, sub4P]
    have h0 : tokCount (sub4P f st0) ≤ tokCount ((newExplainer f).subtable true st0) := by
      rw [sub4_true f st0 (hsub st0 (by rw [hs]; simp)), tokCount_append]; omega
    have hflat : ∀ st' ∈ more, tokCount (sub4P f st') ≤
        tokCount ((more.map fun st' => (sub4P f st', normSub st')).flatMap (fun q => orSep ++ q.1)) := by
      intro st' h'
      have := tokCount_flatMap_mem (fun q : List Piece × Subtable => orSep ++ q.1)
        (more.map fun st' => (sub4P f st', normSub st')) (sub4P f st', normSub st')
        (List.mem_map.mpr ⟨st', h', rfl⟩)
      simp only [tokCount_append] at this
      omega
    have hlenm : more.length ≤ tokCount ((more.map fun st' => (sub4P f st', normSub st')).flatMap (fun q => orSep ++ q.1)) := by
      have := length_le_tokCount_flatMap (fun q : List Piece × Subtable => orSep ++ q.1)
        (more.map fun st' => (sub4P f st', normSub st')) (by
          intro x _; simp [tokCount_append, orSep, sp, tab, eolP, tk, tokCount])
      simpa using this
    rw [hb]
    simp only [tokCount_append, tokCount, tk, List.length_cons]
    refine ⟨?_, by omega⟩
    intro st hst
    simp only [List.mem_cons] at hst
    rcases hst with rfl | hst
    · omega
    · have := hflat st hst; omega


theorem gpos4_dispatch (f : Font) (fuel : Nat) (t : Tok) (n : Nat) (acc : List Lookup) (s s1 : PS)
    (h : readItem s = .ok (t, s1)) (ht : t.typ = tIdentifier) (hb : t.bytes = kwPOS ++ decimal 4) :
    parseLoop f fuel (n + 1) acc s = (readGpos4 f fuel >>= fun l => parseLoop f fuel n (acc ++ [l])) s1 := by
  have hd : decimal 4 = [52] := by decide
  rw [hd] at hb
  conv => lhs; unfold parseLoop
  rw [bind_run, h]
  simp [ht, isIdent, hb, kwGSUB, kwGPOS, kwPOS, tIdentifier, tEOF, tError, tSemicolon, tEOL]

theorem item4_of_p4 (f : Font) (hf : FontOk f) (l : Lookup) (h : LookupP4Ok f l) (F0 : Nat)
    (hF : tokCount (bodyP f l) + 4 ≤ F0) : PosItem2 f F0 l := by
  obtain ⟨init, stL, hs⟩ := exists_init_last l.subtables h.ne
  obtain ⟨hc1, hc2⟩ := body4_counts f l h.subs
  have hsubF : ∀ st ∈ l.subtables, tokCount (sub4P f st) + 4 < F0 := fun st hst => by
    have := hc1 st hst; omega
  have hlenF : l.subtables.length + 3 < F0 := by omega
  have hcolon : ∃ ps, bodyP f l = tk tColon [58] :: ps := by
    cases hs' : l.subtables with
    | nil => exact absurd hs' h.ne
    | cons st0 more =>
      refine ⟨explainFlags l.flags ++ (((newExplainer f).subtable true st0 ++
        (more.map fun st' => ((newExplainer f).subtable false st', normSub st')).flatMap (fun q => orSep ++ q.1)) ++ []), ?_⟩
      simp [bodyP, hs']
  have hstL : stL ∈ l.subtables := by rw [hs]; simp
  refine ⟨readGpos4 f F0, by rw [h.typ]; exact pos_kw_ok 4 (by decide), by rw [h.typ]; exact gpos4_dispatch f _, hcolon, ?_⟩
  obtain ⟨marks, bases, rfl, hok⟩ := h.subs stL hstL
  right
  have hl0 := frag_gpos4 f hf marks bases hok false F0 (hsubF _ hstL)
  have hl1 := frag_gpos4 f hf marks bases hok true F0 (hsubF _ hstL)
  simp only [Bool.false_eq_true, if_false, List.append_nil] at hl0
  simp only [if_true] at hl1
  refine ⟨?_, ?_⟩
  · have hl := frag_weaken hl0 (Q := fun t => t.typ = tEOF) (M := Safe)
      (fun t ht => by
        have ht' : t.typ = tEOF := ht
        exact ⟨Or.inr (by simp [ht', tEOF, tEOL]), by simp [isIdent, ht', tEOF, tIdentifier], by simp [isIdent, ht', tEOF, tIdentifier]⟩)
      (fun _ _ => trivial)
    have := body4_gen f hf l h.typ h.flags init _ hs h.subs F0 hsubF hlenF [] (fun t => t.typ = tEOF) Safe
      (by intro t ht; simp [show t.typ = tEOF from ht, tOr, tEOF])
      (by rw [List.append_nil]; exact hl)
    simpa using this
  · have hl := frag_weaken hl1 (Q := isPosKw) (M := anyNext)
      (fun t ht => by
        refine ⟨Or.inl rfl, ?_, ?_⟩
        · have h4 : t.bytes ≠ kwMark := fun e => by have := ht.2; rw [e] at this; revert this; decide
          simp [isIdent, h4]
        · have h4 : t.bytes ≠ kwBase := fun e => by have := ht.2; rw [e] at this; revert this; decide
          simp [isIdent, h4])
      (fun _ _ => trivial)
    exact body4_gen f hf l h.typ h.flags init _ hs h.subs F0 hsubF hlenF [eolP]
      isPosKw anyNext (fun t ht => by simp [ht.1, tOr, tIdentifier]) hl

/-- GPOS lookups of types 1 to 4 -/
def GposLook4Ok (f : Font) (l : Lookup) : Prop := LookupP1Ok f l ∨ LookupP2Ok f l ∨ LookupP3Ok f l ∨ LookupP4Ok f l

/-- descriptions of GPOS 1, 2, 3 and 4 lookups, in any order and number: parsing the printed text
gives back the lookups (all-zero value records as none) -/
theorem roundtrip_gpos1234 (f : Font) (hf : FontOk f) (ls : List Lookup) (h : ∀ l ∈ ls, GposLook4Ok f l) :
    parseBytes f (explainGpos f ls) = .ok (normalize ls) := by
  refine roundtrip_pos2_of_items f ls (fun l hl => by
    rcases h l hl with h1 | h2 | h3 | h4
    · exact h1.ne
    · exact h2.ne
    · exact h3.ne
    · exact h4.ne) ?_
  intro l hl
  have hb := body_le_posText f ls l hl
  rcases h l hl with h1 | h2 | h3 | h4
  · obtain ⟨hc, hfr⟩ := body_of_form4 f 1 (readGpos1 f) (gpos1Sub f) (Gpos1Sub f) (gpos1_form f hf)
      (fun _ => rfl) l h1.typ h1.flags h1.ne h1.subs (tokCount (posText f ls) + 3) (by omega)
    exact ⟨readGpos1 f _, by rw [h1.typ]; exact pos_kw_ok 1 (by decide), by rw [h1.typ]; exact gpos1_dispatch f _, hc, Or.inl hfr⟩
  · exact item2_of_p2 f hf l h2 _ (by omega)
  · obtain ⟨hc, hfr⟩ := body3 f hf l h3 (tokCount (posText f ls) + 3) (by omega)
    exact ⟨readGpos3 f _, by rw [h3.typ]; exact pos_kw_ok 3 (by decide), by rw [h3.typ]; exact gpos3_dispatch f _, hc, Or.inl hfr⟩
  · exact item4_of_p4 f hf l h4 _ (by omega)

theorem roundtrip_gpos4 (f : Font) (hf : FontOk f) (ls : List Lookup) (h : ∀ l ∈ ls, LookupP4Ok f l) :
    parseBytes f (explainGpos f ls) = .ok (normalize ls) :=
  roundtrip_gpos1234 f hf ls (fun l hl => Or.inr (Or.inr (Or.inr (h l hl))))

end SfntV.Dsl
