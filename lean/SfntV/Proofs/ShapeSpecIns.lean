/-
C06: contextual lookups (all six formats) whose nested lookups are insertwise (pointwise or
multiple substitution) — engine model = reference shaper.  The engine repairs the recorded
positions with `fixStackInsert`; the reference lets the new glyphs inherit the tags.
-/
import SfntV.Proofs.ShapeSpecCtx
import SfntV.Proofs.ShapeSpecInsEngine
import SfntV.Proofs.ShapeSpecInsSpec


namespace SfntV.C06
open SfntV
open SfntV.Shape (Glyph Gdef Lookup LookupList Subtable Action St Nested)
open SfntV.Spec.Shape (TG gl Hit matchSub SubEq CtxMatch tagWindow inputPositions windowEnd)

/-! ## an insertwise subtable applied at position `j`, one stack entry -/

def ChildSubEq2 (kp : Nat → Bool) (gd : Gdef) (ts : List TG) (j : Nat) (cur : TG) (ent : Nested) (b : Int) (lim : Nat)
    (s : Subtable) : Prop :=
  match Spec.Shape.matchSub kp gd (ts.take j).reverse cur (ts.drop (j + 1)) lim s with
  | .error _ => True
  | .ok none => Shape.applySub kp ⟨gl ts, [ent]⟩ j b s = .ok none
  | .ok (some (.done dn rest)) => dn ≠ [] ∧ rest = ts.drop (j + 1) ∧ (∀ x ∈ dn, x.inp = cur.inp ∧ x.win = cur.win) ∧
      Shape.applySub kp ⟨gl ts, [ent]⟩ j b s
        = .ok (some (⟨gl (ts.take j ++ dn ++ ts.drop (j + 1)), [Shape.fixInsertOne j dn.length ent]⟩, j + dn.length))
  | .ok (some (.ctx _ _)) => False

theorem childSubEq2 (kp : Nat → Bool) (gd : Gdef) (ts : List TG) (j : Nat) (cur : TG) (hj : ts[j]? = some cur)
    (ent : Nested) (b : Int) (lim : Nat) (s : Subtable) (hs : insertwise s = true)
    (hok : Spec.Shape.subtableOk s = true) : ChildSubEq2 kp gd ts j cur ent b lim s := by
  by_cases hp : pointwise s = true
  · have h := childSubEq kp gd ts j cur hj [ent] b lim s hp hok
    unfold ChildSubEq at h
    unfold ChildSubEq2
    cases hm : Spec.Shape.matchSub kp gd (ts.take j).reverse cur (ts.drop (j + 1)) lim s with
    | error e => trivial
    | ok r =>
      rw [hm] at h
      cases r with
      | none => exact h
      | some hit =>
        cases hit with
        | ctx m a => exact h.elim
        | done dn rest =>
          simp only at h ⊢
          obtain ⟨c', h1, h2, h3, h4, h5⟩ := h
          subst h1
          refine ⟨by simp, h2, ?_, ?_⟩
          · intro x hx
            have : x = c' := by simpa using hx
            subst this; exact ⟨h3, h4⟩
          · rw [h5]
            simp only [List.length_singleton]
            rw [show ((1 : Nat) : Nat) = 1 from rfl, fixInsertOne_one]
  · cases s with
    | gsub21 cov repl =>
      have hse := subEq_simple kp gd (ts.take j).reverse cur (ts.drop (j + 1)) (.gsub21 cov repl)
        (by simp [Subtable.contextual]) hok
      unfold SubEq at hse
      rw [seq_at ts j cur hj] at hse
      have hjl := lt_of_get hj
      have hlen : ((ts.take j).reverse).length = j := by simp; omega
      rw [hlen] at hse
      unfold ChildSubEq2
      rw [matchSub_gsub21_lim kp gd _ cur _ lim (ts.drop (j + 1)).length cov repl]
      rw [applySub_gsub21_stack kp (gl ts) [ent] j b cov repl]
      cases hm : Spec.Shape.matchSub kp gd (ts.take j).reverse cur (ts.drop (j + 1)) (ts.drop (j + 1)).length
          (.gsub21 cov repl) with
      | error e => trivial
      | ok r =>
        rw [hm] at hse
        cases r with
        | none => simp only at hse ⊢; rw [hse]
        | some hit =>
          obtain ⟨dn, hd, hne, htags⟩ := matchSub_gsub21_shape kp gd _ cur _ _ cov repl hit hm
          subst hd
          simp only at hse ⊢
          refine ⟨hne, trivial, htags, ?_⟩
          rw [hse]
          simp only [List.reverse_reverse, Nat.add_sub_cancel_left]
          have hpos : 1 ≤ dn.length := by
            cases dn with
            | nil => exact absurd rfl hne
            | cons _ _ => simp
          by_cases hk : dn.length > 1
          · simp only [hk, if_true, List.map_cons, List.map_nil]
          · have h1 : dn.length = 1 := by omega
            simp only [hk, if_false, h1]
            rw [fixInsertOne_one]
            simp
    | _ => simp [insertwise] at hs <;> exact absurd hs hp

def ChildAtEq2 (kp : Nat → Bool) (gd : Gdef) (ts : List TG) (j : Nat) (cur : TG) (ent : Nested) (b : Int) (lim : Nat)
    (ss : List Subtable) : Prop :=
  match Spec.Shape.firstHit kp gd (ts.take j).reverse cur (ts.drop (j + 1)) lim ss with
  | .error _ => True
  | .ok none => Shape.applyAt kp ⟨gl ts, [ent]⟩ j b ss = .ok none
  | .ok (some (.done dn rest)) => dn ≠ [] ∧ rest = ts.drop (j + 1) ∧ (∀ x ∈ dn, x.inp = cur.inp ∧ x.win = cur.win) ∧
      Shape.applyAt kp ⟨gl ts, [ent]⟩ j b ss
        = .ok (some (⟨gl (ts.take j ++ dn ++ ts.drop (j + 1)), [Shape.fixInsertOne j dn.length ent]⟩, j + dn.length))
  | .ok (some (.ctx _ _)) => False

theorem childAtEq2 (kp : Nat → Bool) (gd : Gdef) (ts : List TG) (j : Nat) (cur : TG) (hj : ts[j]? = some cur)
    (ent : Nested) (b : Int) (lim : Nat) :
    ∀ (ss : List Subtable), ss.all insertwise = true → ss.all Spec.Shape.subtableOk = true →
    ChildAtEq2 kp gd ts j cur ent b lim ss := by
  intro ss
  induction ss with
  | nil => intro _ _; simp [ChildAtEq2, Spec.Shape.firstHit, Shape.applyAt, pure, Except.pure]
  | cons s ss ih =>
    intro hp hok
    simp only [List.all_cons, Bool.and_eq_true] at hp hok
    have hs := childSubEq2 kp gd ts j cur hj ent b lim s hp.1 hok.1
    have hrest := ih hp.2 hok.2
    unfold ChildAtEq2
    unfold ChildSubEq2 at hs
    simp only [Spec.Shape.firstHit, Shape.applyAt]
    cases hm : Spec.Shape.matchSub kp gd (ts.take j).reverse cur (ts.drop (j + 1)) lim s with
    | error e => simp [bind, Except.bind]
    | ok r =>
      rw [hm] at hs
      cases r with
      | none =>
        simp only at hs
        simp only [bind, Except.bind]
        rw [hs]
        exact hrest
      | some hit =>
        cases hit with
        | done dn rest =>
          simp only at hs
          obtain ⟨h1, h2, h3, h5⟩ := hs
          simp only [bind, Except.bind, pure, Except.pure]
          exact ⟨h1, h2, h3, by rw [h5]⟩
        | ctx m a => exact hs.elim

/-! ## the loop over the actions, positions repaired by `fixStackInsert` -/

/-- the stack entry that corresponds to the tagged buffer -/
def entryOf (ts : List TG) (acts : List Action) : Nested :=
  ⟨(inputPositions 0 ts).map Int.ofNat, acts, ((windowEnd 0 ts : Nat) : Int)⟩

theorem entry_after_insert {a : Nat} {P A D ts : List TG} (hF : Form a P A D ts) (hne : A ≠ []) (acts : List Action)
    (j : Nat) (cur : TG) (dn : List TG) (hjm : j ∈ inputPositions 0 ts) (hj : ts[j]? = some cur)
    (hinp : cur.hasInp 0 = true) (hdne : dn ≠ []) (hdn : ∀ x ∈ dn, x.inp = cur.inp ∧ x.win = cur.win) :
    ∃ A', Form a P A' D (ts.take j ++ dn ++ ts.drop (j + 1)) ∧ A' ≠ [] ∧
      Shape.fixInsertOne j dn.length (entryOf ts acts) = entryOf (ts.take j ++ dn ++ ts.drop (j + 1)) acts := by
  have hip := form_inputPositions hF
  have hwe := form_windowEnd hF hne
  have hsA := inputPositions_sorted 0 A
  -- j = i + a with i an input position of A
  rw [hip] at hjm
  obtain ⟨i, hi, hij⟩ := List.mem_map.mp hjm
  have hilt : i < A.length := hsA.2 i hi
  have ha : a ≤ j := by omega
  have hlt : j < a + A.length := by omega
  obtain ⟨hF', hAi⟩ := form_replace hF j cur dn hj ha hlt hdn
  have hji : j - a = i := by omega
  rw [hji] at hF' hAi
  have hne' : A.take i ++ dn ++ A.drop (i + 1) ≠ [] := by
    intro h
    have := congrArg List.length h
    simp only [List.length_append, List.length_nil] at this
    have : dn.length = 0 := by omega
    exact hdne (List.length_eq_zero_iff.mp this)
  refine ⟨_, hF', hne', ?_⟩
  have hpos : 1 ≤ dn.length := by
    cases dn with
    | nil => exact absurd rfl hdne
    | cons _ _ => simp
  unfold entryOf
  rw [form_inputPositions hF', form_windowEnd hF' hne', ip_replace A i cur dn hAi hinp hdne hdn, expand_shift, hij,
    hip, hwe]
  have hsorted : ((inputPositions 0 A).map (· + a)).Pairwise (· < ·) := by
    rw [List.pairwise_map]
    exact hsA.1.imp (by intro x y h; omega)
  have hbound : ∀ p ∈ (inputPositions 0 A).map (· + a), p < a + A.length := by
    intro p hp
    obtain ⟨q, hq, hqp⟩ := List.mem_map.mp hp
    have := hsA.2 q hq; omega
  rw [fixInsertOne_expand _ acts (a + A.length) j dn.length hsorted (by rw [← hij]; exact List.mem_map.mpr ⟨i, hi, rfl⟩)
    hbound hpos]
  congr 2
  simp only [List.length_append, List.length_take, List.length_drop]
  omega

theorem actions_eq2 (B : Nat) (ll : LookupList) (gd : Gdef)
    (hok : ∀ lk ∈ ll, lk.subtables.all Spec.Shape.subtableOk = true)
    (fuel a : Nat) (P D : List TG) :
    ∀ (acts : List Action) (ts : List TG) (ns : Nat) (out : List TG) (n' : Nat) (A : List TG),
      Spec.Shape.runActions (Spec.Shape.applyAt ll gd fuel 1) ll gd 0 acts ts ns = .ok (out, n') →
      Form a P A D ts → A ≠ [] → (∀ act ∈ acts, actInsertwise ll act = true) →
      ∀ (ne : Nat), ne + ns = B → ∀ (fe : Nat), 2 * (B - ne) + 1 ≤ fe → ∀ (next : Int),
      ∃ st2 nx A', Shape.nestedLoop B ll gd fe ⟨gl ts, [entryOf ts acts]⟩ ne next = .ok (st2, nx) ∧
        st2.seq = gl out ∧ Form a P A' D out ∧ A' ≠ [] ∧
        ((st2.stack = [] ∧ nx = ((windowEnd 0 out : Nat) : Int)) ∨ st2.stack = [entryOf out []]) := by
  intro acts
  induction acts with
  | nil =>
    intro ts ns out n' A h hF hne _ ne hn fe hfe next
    simp only [Spec.Shape.runActions, pure, Except.pure] at h
    injection h with h; injection h with h1 h2; subst h1
    cases fe with
    | zero => omega
    | succ f =>
      simp only [Shape.nestedLoop, entryOf]
      by_cases hb : ne ≥ B
      · rw [if_pos hb]
        exact ⟨_, _, A, rfl, rfl, hF, hne, Or.inr rfl⟩
      · rw [if_neg hb]
        rw [Shape.nestedLoop_nil B ll gd f _ ne _ rfl]
        exact ⟨_, _, A, rfl, rfl, hF, hne, Or.inl ⟨rfl, by simp⟩⟩
  | cons act acts ih =>
    intro ts ns out n' A h hF hne hpw ne hn fe hfe next
    simp only [Spec.Shape.runActions] at h
    by_cases hns : ns = 0
    · simp [hns, Spec.Shape.undef] at h
    · simp only [hns, if_false] at h
      have hneB : ¬ (ne ≥ B) := by omega
      cases fe with
      | zero => omega
      | succ f =>
        have hf : 2 * (B - (ne + 1)) + 1 ≤ f := by omega
        have hn' : (ne + 1) + (ns - 1) = B := by omega
        have hpw' : ∀ act ∈ acts, actInsertwise ll act = true := fun x hx => hpw x (List.mem_cons_of_mem _ hx)
        simp only [Shape.nestedLoop, entryOf, hneB, if_false]
        rw [getElem?_map_ofNat]
        cases hj : (inputPositions 0 ts)[act.seqIdx]? with
        | none => rw [hj] at h; simp [Spec.Shape.undef] at h
        | some j =>
          rw [hj] at h
          simp only [Option.map_some] at h ⊢
          cases hl : ll[act.lookup]? with
          | none => rw [hl] at h; simp [Spec.Shape.undef] at h
          | some lk =>
            rw [hl] at h
            have hjm : j ∈ inputPositions 0 ts := List.mem_of_getElem? hj
            obtain ⟨cur, hc, hinp⟩ := inputPositions_get 0 ts j hjm
            rw [hc] at h
            simp only at h ⊢
            rw [idxI_gl _ ts j cur hc]
            simp only [Shape.bind_ok_eq]
            rw [Spec.Shape.keepOf_eq] at h
            have hskip : ∀ out' n'', Spec.Shape.runActions (Spec.Shape.applyAt ll gd fuel 1) ll gd 0 acts ts (ns - 1) = .ok (out', n'') →
                ∃ st2 nx A', Shape.nestedLoop B ll gd f ⟨gl ts, [entryOf ts acts]⟩ (ne + 1) next = .ok (st2, nx) ∧
                  st2.seq = gl out' ∧ Form a P A' D out' ∧ A' ≠ [] ∧
                  ((st2.stack = [] ∧ nx = ((windowEnd 0 out' : Nat) : Int)) ∨ st2.stack = [entryOf out' []]) :=
              fun out' n'' h' => ih ts (ns - 1) out' n'' A h' hF hne hpw' (ne + 1) hn' f hf next
            cases hk : lk.keep gd cur.g.gid with
            | false =>
              simp only [hk, Bool.not_false, if_true] at h
              simp only [Bool.false_eq_true, if_false]
              exact hskip out n' h
            | true =>
              simp only [hk, Bool.not_true, Bool.false_eq_true, if_false] at h
              simp only [if_true]
              have hlkp : insertwiseLookup lk = true := by
                have := hpw act List.mem_cons_self
                unfold actInsertwise at this
                rw [hl] at this
                exact this
              have hlkok := hok lk (List.mem_of_getElem? hl)
              cases fuel with
              | zero => simp [Spec.Shape.applyAt, Spec.Shape.undef, bind, Except.bind] at h
              | succ fuel' =>
                rw [spec_applyAt_succ, Spec.Shape.keepOf_eq] at h
                have hat := childAtEq2 (lk.keep gd) gd ts j cur hc (entryOf ts acts) ((windowEnd 0 ts : Nat) : Int)
                  (Spec.Shape.windowEnd 0 ts - (j + 1)) lk.subtables hlkp hlkok
                unfold ChildAtEq2 at hat
                cases hfh : Spec.Shape.firstHit (lk.keep gd) gd (ts.take j).reverse cur (ts.drop (j + 1))
                    (Spec.Shape.windowEnd 0 ts - (j + 1)) lk.subtables with
                | error e' => rw [hfh] at h; simp [bind, Except.bind] at h
                | ok r =>
                  rw [hfh] at h hat
                  cases r with
                  | none =>
                    simp only [bind, Except.bind, pure, Except.pure] at h
                    simp only at hat
                    rw [show Int.toNat (Int.ofNat j) = j from rfl]
                    simp only [entryOf] at hat
                    rw [hat]
                    simp only [Shape.bind_ok_eq]
                    exact hskip out n' h
                  | some hit =>
                    cases hit with
                    | ctx m ac => exact hat.elim
                    | done dn rest =>
                      simp only [bind, Except.bind, pure, Except.pure] at h
                      simp only at hat
                      obtain ⟨hdne, h2, hdn, h5⟩ := hat
                      subst h2
                      rw [show Int.toNat (Int.ofNat j) = j from rfl]
                      simp only [entryOf] at h5
                      rw [h5]
                      simp only [Shape.bind_ok_eq]
                      obtain ⟨A', hF', hne', hent⟩ := entry_after_insert hF hne acts j cur dn hjm hc hinp hdne hdn
                      simp only [entryOf] at hent
                      rw [hent]
                      exact ih (ts.take j ++ dn ++ ts.drop (j + 1)) (ns - 1) out n' A' h hF' hne' hpw' (ne + 1) hn' f hf next

/-! ## one top-level application -/

theorem stepEq2 (B : Nat) (ll : LookupList) (gd : Gdef) (hok : Spec.Shape.tablesOk ll gd = true)
    (hnp : nestedInsertwiseLL ll = true) (lk : Lookup) (hlk : lk ∈ ll) : StepEq B ll gd lk := by
  intro pre cur post hpre hcur hpost hk
  have hokl : ∀ lk ∈ ll, lk.subtables.all Spec.Shape.subtableOk = true := by
    unfold Spec.Shape.tablesOk at hok
    simp only [Bool.and_eq_true] at hok
    exact fun lk h => List.all_eq_true.mp hok.2 lk h
  cases B with
  | zero => simp [Spec.Shape.applyAt, Spec.Shape.undef]
  | succ B' =>
    rw [spec_applyAt_succ, Spec.Shape.keepOf_eq]
    have hat := atEq2 (lk.keep gd) gd pre cur post lk.subtables (hokl lk hlk)
    unfold AtEq2 at hat
    have hi : Shape.idxI "applyAtRecursively:seq[pos]" (gl (pre.reverse ++ cur :: post)) (pre.length : Int) = .ok cur.g :=
      idxI_mid _ pre cur post
    cases hf : Spec.Shape.firstHit (lk.keep gd) gd pre cur post post.length lk.subtables with
    | error e => simp [bind, Except.bind]
    | ok r =>
      rw [hf] at hat
      cases r with
      | none =>
        simp only [bind, Except.bind, pure, Except.pure]
        simp only at hat
        unfold Shape.applyAtRec
        simp only [hi, Shape.bind_ok_eq, Int.toNat_natCast, hk, Bool.not_true, Bool.false_eq_true, if_false]
        rw [hat]; rfl
      | some hit =>
        cases hit with
        | done dn rest =>
          simp only [bind, Except.bind, pure, Except.pure]
          simp only at hat
          obtain ⟨s, hs, hm⟩ := firstHit_src _ gd pre cur post _ _ _ hf
          refine ⟨?_, matchSub_clean _ gd pre cur post _ s dn rest hcur hpost hm⟩
          unfold Shape.applyAtRec
          simp only [hi, Shape.bind_ok_eq, Int.toNat_natCast, hk, Bool.not_true, Bool.false_eq_true, if_false]
          rw [hat]
          simp only [Shape.bind_ok_eq]
          rw [Shape.nestedLoop_nil (B' + 1) ll gd _ _ 1 _ rfl]
          rfl
        | ctx m acts =>
          simp only at hat
          obtain ⟨s, hs, hm⟩ := firstHit_src _ gd pre cur post _ _ _ hf
          obtain ⟨hacts, hsorted, hbound, _, hw⟩ := ctx_hit_facts _ gd pre cur post _ s m acts hm
          have hpw : ∀ act ∈ acts, actInsertwise ll act = true := by
            intro act ha
            have h1 := List.all_eq_true.mp hnp lk hlk
            have h2 := List.all_eq_true.mp h1 s hs
            exact List.all_eq_true.mp h2 act (hacts act ha)
          simp only [bind, Except.bind, pure, Except.pure, Nat.add_sub_cancel]
          cases hr : Spec.Shape.runActions (Spec.Shape.applyAt ll gd B' (0 + 1)) ll gd 0 acts
              (pre.reverse ++ Spec.Shape.tagWindow 0 m cur post ++ post.drop m.wlen) B' with
          | error e => trivial
          | ok res =>
            obtain ⟨ts', n'⟩ := res
            simp only
            obtain ⟨hF0, hne0, hlen0⟩ := form_init pre post cur m hpre hcur hpost hw
            -- the pushed entry is the entry of the tagged buffer
            have hent : Shape.pushMatch ⟨gl (pre.reverse ++ cur :: post), []⟩ (pre.length :: m.offs.map (· + (pre.length + 1))) acts
                (pre.length + 1 + m.wlen)
                = ⟨gl (pre.reverse ++ Spec.Shape.tagWindow 0 m cur post ++ post.drop m.wlen),
                   [entryOf (pre.reverse ++ Spec.Shape.tagWindow 0 m cur post ++ post.drop m.wlen) acts]⟩ := by
              unfold Shape.pushMatch entryOf
              rw [gl_ts0, inputPositions_ts0 pre post cur m hpre hpost hw hsorted hbound,
                form_windowEnd hF0 hne0, hlen0, ← Nat.add_assoc]
            obtain ⟨st2, nx, A', e1, e2, hF', hne', e5⟩ := actions_eq2 (B' + 1) ll gd hokl B' pre.length pre.reverse
              (post.drop m.wlen) acts _ B' ts' n' _ hr hF0 hne0 hpw 1 (by omega)
              (Shape.nestedFuel (B' + 1)
                (Shape.pushMatch ⟨gl (pre.reverse ++ cur :: post), []⟩ (pre.length :: m.offs.map (· + (pre.length + 1))) acts
                  (pre.length + 1 + m.wlen))) (by unfold Shape.nestedFuel Shape.pushMatch; simp; omega)
              ((pre.length + 1 + m.wlen : Nat) : Int)
            obtain ⟨c1, c2, c3, c4⟩ := form_split hF'
            have hwe' := form_windowEnd hF' hne'
            rw [c1, c2]
            refine ⟨?_, c3, hF'.cleanD⟩
            unfold Shape.applyAtRec
            simp only [hi, Shape.bind_ok_eq, Int.toNat_natCast, hk, Bool.not_true, Bool.false_eq_true, if_false]
            rw [hat]
            simp only [Shape.bind_ok_eq]
            rw [hent] at e1 ⊢
            rw [e1]
            simp only [Shape.bind_ok_eq]
            have hgl : gl (pre.reverse ++ A'.map (TG.untag 0) ++ post.drop m.wlen) = gl ts' := by
              rw [hF'.eq]
              simp only [Spec.Shape.gl_append, gl_untag]
            have hdl : (A'.map (TG.untag 0)).length = A'.length := by simp
            rw [hgl, hdl]
            rcases e5 with ⟨h5, h6⟩ | h5
            · have : st2 = ⟨gl ts', []⟩ := by cases st2; simp_all
              subst this
              simp only [List.getLast?_nil, h6, hwe']
            · have : st2 = ⟨gl ts', [entryOf ts' []]⟩ := by cases st2; simp_all
              subst this
              simp only [List.getLast?_singleton, entryOf, hwe']

/-- **Engine = reference for contextual lookups whose nested lookups are insertwise.** -/
theorem engine_eq_spec_ins (B : Nat) (ll : LookupList) (gd : Gdef) (lookups : List Nat) (seq r : List Glyph)
    (hnp : nestedInsertwiseLL ll = true) (h : Spec.Shape.shape B ll gd lookups seq = .ok r) :
    Shape.apply B ll gd lookups [] seq = .ok ⟨r, []⟩ :=
  shape_eq_of_step B ll gd lookups seq r (fun hok lk hlk => stepEq2 B ll gd hok hnp lk hlk) h

end SfntV.C06
