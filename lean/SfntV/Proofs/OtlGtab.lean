/-
Lemmas about the GSUB/GPOS header model (C08).
-/
import SfntV.Model.OtlGtab
import SfntV.Proofs.OtlBase

namespace SfntV.Otl.Gtab
open SfntV SfntV.Otl

/-- a nil list and an empty list are written alike (the explicit normal form of the repair) -/
theorem encode_nil (sl fl ll : Option Bytes) :
    encode sl fl ll = encode (some (listBytes sl)) (some (listBytes fl)) (some (listBytes ll)) := by
  cases sl <;> cases fl <;> cases ll <;> rfl

/-- the header the encoder writes leads the reader to the three lists -/
theorem header_roundtrip (S F L : Bytes) (hS : S ≠ []) (hF : F ≠ []) (hL : L ≠ []) (b : Bytes)
    (hb : encode (some S) (some F) (some L) = .ok b) :
    readHeader b = .ok (some (10, 10 + S.length, 10 + S.length + F.length)) ∧
    b.drop 10 = S ++ F ++ L ∧ b.drop (10 + S.length) = F ++ L ∧
    b.drop (10 + S.length + F.length) = L := by
  replace hb : (if 10 + S.length > 65535 ∨ 10 + S.length + F.length > 65535 then
      Outcome.panic "script and feature lists too large"
    else Outcome.ok (wordsToBytes [1, 0, 10, w16 (10 + S.length), w16 (10 + S.length + F.length)] ++
      S ++ F ++ L)) = Outcome.ok b := hb
  by_cases hfit : 10 + S.length > 65535 ∨ 10 + S.length + F.length > 65535
  · rw [if_pos hfit] at hb; simp at hb
  rw [if_neg hfit] at hb
  simp only [not_or, Nat.not_lt] at hfit
  simp only [Outcome.ok.injEq] at hb
  rw [w16_of_lt (by omega), w16_of_lt (by omega)] at hb
  have hSl : 0 < S.length := List.length_pos_iff.mpr hS
  have hFl : 0 < F.length := List.length_pos_iff.mpr hF
  have hLl : 0 < L.length := List.length_pos_iff.mpr hL
  have hH : (wordsToBytes [1, 0, 10, 10 + S.length, 10 + S.length + F.length]).length = 10 := by
    rw [length_wordsToBytes]; rfl
  have hlen : b.length = 10 + S.length + F.length + L.length := by
    rw [← hb]; simp only [List.length_append, hH]
  have hw : bytesToWords b = [1, 0, 10, 10 + S.length, 10 + S.length + F.length] ++
      bytesToWords (S ++ F ++ L) := by
    rw [← hb, List.append_assoc, List.append_assoc, bytesToWords_append _ (by
      intro w hw
      simp only [List.mem_cons, List.not_mem_nil, or_false] at hw
      rcases hw with rfl | rfl | rfl | rfl | rfl <;> omega)]
    simp [List.append_assoc]
  have hd10 : b.drop 10 = S ++ F ++ L := by
    have := List.drop_left (l₁ := wordsToBytes [1, 0, 10, 10 + S.length, 10 + S.length + F.length])
      (l₂ := S ++ F ++ L)
    rw [hH] at this
    rw [← hb, ← this]
    simp [List.append_assoc]
  refine ⟨?_, hd10, ?_, ?_⟩
  · unfold readHeader
    rw [if_neg (by omega), hw]
    simp only [List.cons_append, List.nil_append]
    have h1 : ((1 : Nat) != 1 || decide ((0 : Nat) > 1)) = false := by decide
    have h2 : (((0 : Nat) == 1) && decide ((bytesToWords (S ++ F ++ L)).length < 2)) = false := by simp
    simp only [h1, h2, Bool.false_eq_true, if_false]
    have h3 : (((10 : Nat) == 0) || (10 + S.length + F.length == 0)) = false := by
      simp
    have h0 : ((0 : Nat) == 1) = false := by decide
    simp only [h0, h3, Bool.false_eq_true, if_false]
    have h4 : ([10, 10 + S.length, 10 + S.length + F.length].any
        (fun o => decide (o < 10) || decide (o ≥ b.length))) = false := by
      simp only [List.any_cons, List.any_nil, hlen]
      simp
      omega
    simp only [h4, Bool.false_eq_true, if_false]
    have h5 : (((0 : Nat) != 0 && decide ((0 : Nat) < 10)) || decide ((0 : Nat) ≥ b.length)) = false := by
      simp [hlen]
    simp only [h5, Bool.false_eq_true, if_false]
  · rw [← List.drop_drop, hd10, List.append_assoc, List.drop_left]
  · have : 10 + S.length + F.length = 10 + (S.length + F.length) := by omega
    rw [this, ← List.drop_drop, hd10]
    have e : S.length + F.length = (S ++ F).length := by simp
    rw [e, List.drop_left]

/-- the reader also accepts version 1.1 headers: the feature variations offset (which it only
validates: 0, or inside the table behind the header) does not change where the three lists are read -/
theorem header_v11 (so fo lo hi lw : Nat) (hso : so < 65536) (hfo : fo < 65536) (hlo : lo < 65536)
    (hhi : hi < 65536) (hlw : lw < 65536) (rest : Bytes)
    (h1 : 14 ≤ so ∧ so < 14 + rest.length) (h2 : 14 ≤ fo ∧ fo < 14 + rest.length)
    (h3 : 14 ≤ lo ∧ lo < 14 + rest.length)
    (hfv : hi * 65536 + lw = 0 ∨ (14 ≤ hi * 65536 + lw ∧ hi * 65536 + lw < 14 + rest.length)) :
    readHeader (wordsToBytes [1, 1, so, fo, lo, hi, lw] ++ rest) = .ok (some (so, fo, lo)) := by
  have hlt : ∀ w ∈ [1, 1, so, fo, lo, hi, lw], w < 65536 := by
    intro w hw
    simp only [List.mem_cons, List.not_mem_nil, or_false] at hw
    rcases hw with rfl | rfl | rfl | rfl | rfl | rfl | rfl <;> omega
  have hlen : (wordsToBytes [1, 1, so, fo, lo, hi, lw] ++ rest).length = 14 + rest.length := by
    simp [length_wordsToBytes]
  unfold readHeader
  rw [hlen, if_neg (by omega), bytesToWords_append _ hlt]
  simp only [List.cons_append, List.nil_append, List.length_cons, List.getD_cons_zero, List.getD_cons_succ]
  have c1 : ((1 != 1) || decide (1 > 1)) = false := by decide
  rw [c1]
  simp only [Bool.false_eq_true, if_false, beq_self_eq_true, Bool.true_and, if_true]
  rw [if_neg (by simp), if_neg (by simp; omega)]
  rw [if_neg (by
    simp only [List.any_cons, List.any_nil, Bool.or_false, Bool.or_eq_true, decide_eq_true_eq]
    omega)]
  rw [if_neg (by
    simp only [Bool.or_eq_true, Bool.and_eq_true, bne_iff_ne, ne_eq, decide_eq_true_eq]
    omega)]

end SfntV.Otl.Gtab
