/-
C12 — derived hhea fields = definitions; Encode does not panic on its domain; maxp; caret specials.
-/
import SfntV.Proofs.MetricsHead
import SfntV.Model.Caret

namespace SfntV.Metrics
open SfntV SfntV.Metrics.Spec

/-! ## running minimum / maximum with Go's `first` flag -/

def runMin : List Int → Bool → Int → Int
  | [], _, cur => cur
  | x :: xs, first, cur => runMin xs false (if first || x < cur then x else cur)

def runMax : List Int → Bool → Int → Int
  | [], _, cur => cur
  | x :: xs, first, cur => runMax xs false (if first || x > cur then x else cur)

theorem runMin_false (l : List Int) (c : Int) : runMin l false c = l.foldl min c := by
  induction l generalizing c with
  | nil => rfl
  | cons x xs ih =>
    simp only [runMin, Bool.false_or, List.foldl_cons, ih]
    congr 1
    by_cases h : x < c
    · simp [h]; omega
    · simp [h]; omega

theorem runMax_false (l : List Int) (c : Int) : runMax l false c = l.foldl max c := by
  induction l generalizing c with
  | nil => rfl
  | cons x xs ih =>
    simp only [runMax, Bool.false_or, List.foldl_cons, ih]
    congr 1
    by_cases h : x > c
    · simp [h]; omega
    · simp [h]; omega

theorem runMin_true (l : List Int) : runMin l true 0 = minList l := by
  cases l with
  | nil => rfl
  | cons x xs => simp [runMin, minList, runMin_false]

theorem runMax_true (l : List Int) : runMax l true 0 = maxList l := by
  cases l with
  | nil => rfl
  | cons x xs => simp [runMax, maxList, runMax_false]

theorem runMin_mem (l : List Int) (f : Bool) (c : Int) : runMin l f c = c ∨ runMin l f c ∈ l := by
  induction l generalizing f c with
  | nil => left; rfl
  | cons x xs ih =>
    simp only [runMin]
    rcases ih false (if f || x < c then x else c) with h | h
    · rw [h]; split
      · right; simp
      · left; rfl
    · right; exact List.mem_cons_of_mem _ h

theorem runMax_mem (l : List Int) (f : Bool) (c : Int) : runMax l f c = c ∨ runMax l f c ∈ l := by
  induction l generalizing f c with
  | nil => left; rfl
  | cons x xs ih =>
    simp only [runMax]
    rcases ih false (if f || x > c then x else c) with h | h
    · rw [h]; split
      · right; simp
      · left; rfl
    · right; exact List.mem_cons_of_mem _ h

/-! ## the three loops of Encode over a glyph list -/

theorem minLsbLoop_glyphs (f : Glyph → Int) : ∀ (gs : List Glyph) (first : Bool) (cur : Int),
    (∀ g ∈ gs, g.box.isZero = false → f g = g.lsb) →
    minLsbLoop (gs.map f) (some (gs.map (·.box))) first cur =
      .ok (runMin ((inkedG gs).map (·.lsb)) first cur) := by
  intro gs
  induction gs with
  | nil => intro first cur _; simp [minLsbLoop, inkedG, runMin]
  | cons g gs ih =>
    intro first cur h
    have hg := h g (by simp)
    have h' : ∀ x ∈ gs, x.box.isZero = false → f x = x.lsb := fun x hx => h x (by simp [hx])
    simp only [List.map_cons, minLsbLoop, inkedG, List.filter_cons]
    by_cases hz : g.box.isZero = true
    · simp only [hz, if_true, Bool.not_true, Bool.false_eq_true, if_false]
      exact ih first cur h'
    · have hz' : g.box.isZero = false := by simpa using hz
      simp only [hz', Bool.false_eq_true, if_false, Bool.not_false, if_true, List.map_cons, runMin,
        hg hz']
      exact ih _ _ h'

theorem minRsbLoop_glyphs : ∀ (gs : List Glyph) (first : Bool) (cur : Int),
    minRsbLoop (gs.map (·.aw)) (gs.map (·.box)) first cur =
      runMin ((inkedG gs).map fun g => g.aw - g.box.urx) first cur := by
  intro gs
  induction gs with
  | nil => intro first cur; simp [minRsbLoop, inkedG, runMin]
  | cons g gs ih =>
    intro first cur
    simp only [List.map_cons, minRsbLoop, inkedG, List.filter_cons]
    by_cases hz : g.box.isZero = true
    · simp only [hz, if_true, Bool.not_true, Bool.false_eq_true, if_false]
      exact ih first cur
    · have hz' : g.box.isZero = false := by simpa using hz
      simp only [hz', Bool.false_eq_true, if_false, Bool.not_false, if_true, List.map_cons, runMin]
      exact ih _ _

theorem xMaxLoop_glyphs : ∀ (gs : List Glyph) (first : Bool) (cur : Int),
    xMaxLoop (gs.map (·.box)) first cur = runMax ((inkedG gs).map fun g => g.box.urx) first cur := by
  intro gs
  induction gs with
  | nil => intro first cur; simp [xMaxLoop, inkedG, runMax]
  | cons g gs ih =>
    intro first cur
    simp only [List.map_cons, xMaxLoop, inkedG, List.filter_cons]
    by_cases hz : g.box.isZero = true
    · simp only [hz, if_true, Bool.not_true, Bool.false_eq_true, if_false]
      exact ih first cur
    · have hz' : g.box.isZero = false := by simpa using hz
      simp only [hz', Bool.false_eq_true, if_false, Bool.not_false, if_true, List.map_cons, runMax]
      exact ih _ _

theorem advMax_eq (ws : List Int) : advMax ws = ws.foldl max 0 := by
  unfold advMax
  congr 1
  funext m w
  by_cases h : w > m
  · simp [h]; omega
  · simp [h]; omega

theorem foldl_max_range (ws : List Int) (c : Int) (hc : I16 c) (h : ∀ w ∈ ws, I16 w) :
    I16 (ws.foldl max c) := by
  induction ws generalizing c with
  | nil => exact hc
  | cons w ws ih =>
    simp only [List.foldl_cons]
    apply ih
    · have := h w (by simp); unfold I16 at *; omega
    · exact fun x hx => h x (by simp [hx])

theorem clamp16_eq (x : Int) : clamp16 x = sat16 x := by
  unfold clamp16 sat16; split <;> (try split) <;> omega

theorem clamp16_range (x : Int) : I16 (clamp16 x) := by
  unfold clamp16 I16; split <;> (try split) <;> omega

/-- `Info` built from a glyph list; `explicit` = `Info.LSB` is given (else nil) -/
def infoOf (gs : List Glyph) (explicit : Bool) (asc desc gap coff : Int) : Info :=
  ⟨some (gs.map (·.aw)), some (gs.map (·.box)),
    if explicit then some (gs.map (·.lsb)) else none, asc, desc, gap, coff⟩

/-- the bearings that end up in hmtx -/
def lsbF (explicit : Bool) (g : Glyph) : Int := if explicit then g.lsb else g.box.llx

theorem derive_glyphs (gs : List Glyph) (explicit : Bool) (asc desc gap coff rise run : Int)
    (hcons : ∀ g ∈ gs, (g.box.isZero = false ∨ explicit = false) → g.lsb = g.box.llx) :
    derive (infoOf gs explicit asc desc gap coff) rise run =
      .ok (⟨asc, desc, gap, advMax (gs.map (·.aw)),
            runMin ((inkedG gs).map (·.lsb)) true 0,
            clamp16 (runMin ((inkedG gs).map fun g => g.aw - g.box.urx) true 0),
            runMax ((inkedG gs).map fun g => g.box.urx) true 0, rise, run, coff, 0⟩,
           some (gs.map (lsbF explicit))) := by
  have hl : minLsbLoop (gs.map (lsbF explicit)) (some (gs.map (·.box))) true 0 =
      .ok (runMin ((inkedG gs).map (·.lsb)) true 0) := by
    apply minLsbLoop_glyphs
    intro g hg hz
    unfold lsbF
    cases explicit with
    | true => rfl
    | false => exact (hcons g hg (Or.inr rfl)).symm
  have hmap : List.map (fun x => x.llx) (List.map (fun x => x.box) gs) = gs.map (lsbF false) := by
    simp [List.map_map, lsbF, Function.comp_def]
  cases explicit with
  | true =>
    have hT : gs.map (lsbF true) = gs.map (·.lsb) := by simp [lsbF]
    rw [hT] at hl
    rw [hT]
    simp only [derive, infoOf, if_true, Option.getD_some, hl, List.length_map, ne_eq,
      not_true_eq_false, if_false, minRsbLoop_glyphs, xMaxLoop_glyphs]
  | false =>
    simp only [derive, infoOf, Bool.false_eq_true, if_false, Option.getD_some, hmap, hl,
      List.length_map, ne_eq, not_true_eq_false, minRsbLoop_glyphs, xMaxLoop_glyphs]

theorem hhea_derived (gs : List Glyph) (explicit : Bool) (asc desc gap coff rise run : Int)
    (hgs : gs ≠ []) (hn : gs.length < 65536)
    (hcons : ∀ g ∈ gs, (g.box.isZero = false ∨ explicit = false) → g.lsb = g.box.llx)
    (hrange : ∀ g ∈ gs, I16 g.aw ∧ I16 g.lsb ∧ I16 g.box.llx ∧ I16 g.box.urx) :
    ∃ hb m, encode (infoOf gs explicit asc desc gap coff) rise run = .ok (hb, some m) ∧
      hheaDerived hb = (advanceWidthMaxG gs, minLeftSideBearingG gs,
        sat16 (minRightSideBearingG gs), xMaxExtentG gs, numLong (gs.map (·.aw))) := by
  have hd := derive_glyphs gs explicit asc desc gap coff rise run hcons
  have hne : gs.map (·.aw) ≠ [] := by simpa using hgs
  have hk := numLong_le (gs.map (·.aw)) hne
  have hklt : numLong (gs.map (·.aw)) < 65536 := by
    have := hk.2; simp only [List.length_map] at this; omega
  -- inked glyphs: the definitions' summands coincide with what the loops use
  have hin : ∀ g ∈ inkedG gs, g ∈ gs ∧ g.lsb = g.box.llx := by
    intro g hg
    have := List.mem_filter.1 hg
    refine ⟨this.1, hcons g this.1 (Or.inl (by simpa using this.2))⟩
  have e1 : (inkedG gs).map (fun g => g.aw - (g.lsb + g.box.urx - g.box.llx)) =
      (inkedG gs).map fun g => g.aw - g.box.urx := by
    apply List.map_congr_left
    intro g hg; have := (hin g hg).2; omega
  have e2 : (inkedG gs).map (fun g => g.lsb + (g.box.urx - g.box.llx)) =
      (inkedG gs).map fun g => g.box.urx := by
    apply List.map_congr_left
    intro g hg; have := (hin g hg).2; omega
  -- ranges
  have r1 : I16 (advMax (gs.map (·.aw))) := by
    rw [advMax_eq]
    apply foldl_max_range _ _ (by unfold I16; omega)
    intro w hw
    obtain ⟨g, hg, rfl⟩ := List.mem_map.1 hw
    exact (hrange g hg).1
  have r2 : I16 (runMin ((inkedG gs).map (·.lsb)) true 0) := by
    rcases runMin_mem ((inkedG gs).map (·.lsb)) true 0 with h | h
    · rw [h]; unfold I16; omega
    · obtain ⟨g, hg, hgl⟩ := List.mem_map.1 h
      rw [← hgl]; exact (hrange g (hin g hg).1).2.1
  have r4 : I16 (runMax ((inkedG gs).map fun g => g.box.urx) true 0) := by
    rcases runMax_mem ((inkedG gs).map fun g => g.box.urx) true 0 with h | h
    · rw [h]; unfold I16; omega
    · obtain ⟨g, hg, hgl⟩ := List.mem_map.1 h
      rw [← hgl]; exact (hrange g (hin g hg).1).2.2.2
  refine ⟨(⟨asc, desc, gap, advMax (gs.map (·.aw)),
            runMin ((inkedG gs).map (·.lsb)) true 0,
            clamp16 (runMin ((inkedG gs).map fun g => g.aw - g.box.urx) true 0),
            runMax ((inkedG gs).map fun g => g.box.urx) true 0, rise, run, coff,
            numLong (gs.map (·.aw)) % 65536⟩ : Hhea).bytes,
    encHm (numLong (gs.map (·.aw))) (gs.map (·.aw)) (gs.map (lsbF explicit)), ?_, ?_⟩
  · unfold encode
    rw [hd]
    simp only [infoOf, List.length_map, ne_eq, not_true_eq_false, if_false]
  · rw [hhea_read_derived _ r1 r2 (clamp16_range _) r4 (by simp only; omega)]
    simp only [advMax_eq, runMin_true, runMax_true, clamp16_eq, advanceWidthMaxG,
      minLeftSideBearingG, minRightSideBearingG, xMaxExtentG, e1, e2,
      Nat.mod_eq_of_lt hklt]

/-- `Encode` returns on its domain (no index panic, no length panic) -/
theorem minLsbLoop_ok : ∀ (ls : List Int) (es : List Rect) (first : Bool) (cur : Int),
    ls.length ≤ es.length → ∃ v, minLsbLoop ls (some es) first cur = .ok v := by
  intro ls
  induction ls with
  | nil => intro es first cur _; exact ⟨cur, by simp [minLsbLoop]⟩
  | cons l ls ih =>
    intro es first cur h
    cases es with
    | nil => simp at h
    | cons e es =>
      have h' : ls.length ≤ es.length := by simpa using h
      simp only [minLsbLoop]
      split
      · exact ih es _ _ h'
      · exact ih es _ _ h'

theorem encode_ok (info : Info) (rise run : Int) (ws : List Int) (es : List Rect)
    (hws : info.widths = some ws) (hes : info.extents = some es) (hlen : es.length = ws.length)
    (hl : ∀ l, info.lsb = some l → l.length = ws.length) :
    ∃ hb m, encode info rise run = .ok (hb, some m) := by
  obtain ⟨w, e, lsb, a, d, g, c⟩ := info
  simp only at hws hes hl
  subst hws hes
  cases lsb with
  | none =>
    obtain ⟨v, hv⟩ := minLsbLoop_ok (es.map (·.llx)) es true 0 (by simp)
    simp [encode, derive, hv, hlen]
  | some l =>
    have hll := hl l rfl
    obtain ⟨v, hv⟩ := minLsbLoop_ok l es true 0 (by omega)
    simp [encode, derive, hv, hlen, hll]

/-! ## `(*Font).makeHmtx` (the shape the whole-font property C01 cites) -/

/-- write.go `makeHmtx`: `hmtx.Info{Widths, GlyphExtents: f.GlyphBBoxes(), Ascent, Descent, LineGap,
CaretAngle}` — no explicit bearings, caret offset 0; `(rise, run)` = `fromAngle(CaretAngle)` -/
def makeHmtxModel (ws : List Int) (es : List Rect) (asc desc gap rise run : Int) :
    Outcome (Bytes × Option Bytes) :=
  encode ⟨some ws, some es, none, asc, desc, gap, 0⟩ rise run

theorem makeHmtx_roundtrip (ws : List Int) (es : List Rect) (asc desc gap rise run : Int)
    (hne : ws ≠ []) (hn : ws.length < 65536) (hlen : es.length = ws.length)
    (hw : ∀ w ∈ ws, I16 w) (he : ∀ e ∈ es, I16 e.llx)
    (ha : I16 asc) (hd : I16 desc) (hg : I16 gap) (hr : I16 rise) (hu : I16 run) :
    ∃ hhea hmtx d, makeHmtxModel ws es asc desc gap rise run = .ok (hhea, some hmtx) ∧
      decode hhea (some hmtx) = .ok d ∧ d.widths = ws ∧ d.ascent = asc ∧ d.descent = desc ∧
      d.lineGap = gap ∧ d.lsb = es.map (·.llx) ∧ d.caretOffset = 0 ∧ d.rise = rise ∧ d.run = run := by
  obtain ⟨hb, m, hok⟩ := encode_ok ⟨some ws, some es, none, asc, desc, gap, 0⟩ rise run ws es rfl rfl hlen
    (by intro l h; cases h)
  have hl : ∀ l ∈ es.map (·.llx), I16 l := by
    intro l hl
    obtain ⟨e, hee, rfl⟩ := List.mem_map.1 hl
    exact he e hee
  obtain ⟨m', hm', _, hdec⟩ := encode_decode ⟨some ws, some es, none, asc, desc, gap, 0⟩ rise run ws
    (es.map (·.llx)) rfl rfl hne hn hw hl ha hd hg hr hu (by unfold I16; simp only; omega) hb (some m) hok
  cases hm'
  exact ⟨hb, m, _, hok, hdec, rfl, rfl, rfl, rfl, rfl, rfl, rfl, rfl⟩

/-! ## maxp -/

theorem range13 : List.range 13 = [0, 1, 2, 3, 4, 5, 6, 7, 8, 9, 10, 11, 12] := by decide

theorem maxp_roundtrip_cff (n : Int) (hn : 1 ≤ n ∧ n < 65536) :
    ∃ b, encodeMaxp ⟨n, none⟩ = .ok b ∧ decodeMaxp b = .ok ⟨n, none⟩ := by
  refine ⟨be32 0x00005000 ++ be16 n.toNat, ?_, ?_⟩
  · have : ¬ (n < 1 ∨ n ≥ 65536) := by omega
    simp [encodeMaxp, this]
  · have h16 := u16_rt n.toNat (by omega)
    unfold decodeMaxp
    simp only [be32, be16, List.cons_append, List.nil_append, rdU32, rdU16, rdU8,
      List.getD_cons_succ, List.getD_cons_zero, Nat.reduceAdd, h16]
    have : n.toNat ≠ 0 := by omega
    have hc : ((n.toNat : Nat) : Int) = n := by omega
    simp [this, hc]

theorem maxp_roundtrip_ttf (n : Int) (hn : 1 ≤ n ∧ n < 65536) (a0 a1 a2 a3 a4 a5 a6 a7 a8 a9 a10 a11 a12 : Nat)
    (h0 : a0 < 65536)
    (h1 : a1 < 65536)
    (h2 : a2 < 65536)
    (h3 : a3 < 65536)
    (h4 : a4 < 65536)
    (h5 : a5 < 65536)
    (h6 : a6 < 65536)
    (h7 : a7 < 65536)
    (h8 : a8 < 65536)
    (h9 : a9 < 65536)
    (h10 : a10 < 65536)
    (h11 : a11 < 65536)
    (h12 : a12 < 65536) :
    ∃ b, encodeMaxp ⟨n, some [a0, a1, a2, a3, a4, a5, a6, a7, a8, a9, a10, a11, a12]⟩ = .ok b ∧
      decodeMaxp b = .ok ⟨n, some [a0, a1, a2, a3, a4, a5, a6, a7, a8, a9, a10, a11, a12]⟩ := by
  refine ⟨be32 0x00010000 ++ be16 n.toNat ++ ([a0, a1, a2, a3, a4, a5, a6, a7, a8, a9, a10, a11, a12].take 13).flatMap be16, ?_, ?_⟩
  · have : ¬ (n < 1 ∨ n ≥ 65536) := by omega
    simp [encodeMaxp, this]
  · have h16 := u16_rt n.toNat (by omega)
    unfold decodeMaxp
    simp only [be32, be16, List.take, List.flatMap_cons, List.flatMap_nil, List.cons_append,
      List.nil_append, List.append_nil, rdU32, rdU16, rdU8, range13, List.map_cons, List.map_nil,
      List.getD_cons_succ, List.getD_cons_zero, Nat.reduceAdd, Nat.reduceMul, h16,
      u16_rt _ h0, u16_rt _ h1, u16_rt _ h2, u16_rt _ h3, u16_rt _ h4, u16_rt _ h5, u16_rt _ h6, u16_rt _ h7, u16_rt _ h8, u16_rt _ h9, u16_rt _ h10, u16_rt _ h11, u16_rt _ h12]
    have : n.toNat ≠ 0 := by omega
    have hc : ((n.toNat : Nat) : Int) = n := by omega
    simp [this, hc]

theorem maxp_roundtrip (m : Maxp) (hn : 1 ≤ m.numGlyphs ∧ m.numGlyphs < 65536)
    (ht : ∀ vs, m.ttf = some vs → vs.length = 13 ∧ ∀ v ∈ vs, v < 65536) :
    ∃ b, encodeMaxp m = .ok b ∧ decodeMaxp b = .ok m := by
  obtain ⟨n, ttf⟩ := m
  cases ttf with
  | none => exact maxp_roundtrip_cff n hn
  | some vs =>
    obtain ⟨hl, hv⟩ := ht vs rfl
    match vs, hl, hv with
    | [a0, a1, a2, a3, a4, a5, a6, a7, a8, a9, a10, a11, a12], _, hv =>
      exact maxp_roundtrip_ttf n hn a0 a1 a2 a3 a4 a5 a6 a7 a8 a9 a10 a11 a12
        (hv a0 (by simp)) (hv a1 (by simp)) (hv a2 (by simp)) (hv a3 (by simp)) (hv a4 (by simp)) (hv a5 (by simp)) (hv a6 (by simp)) (hv a7 (by simp)) (hv a8 (by simp)) (hv a9 (by simp)) (hv a10 (by simp)) (hv a11 (by simp)) (hv a12 (by simp))

/-! ## caret slope: the special directions -/

theorem toDir_vertical (rise : Int) (h : rise ≠ 0) (hne : rise ≠ -32768) :
    Caret.toDir rise 0 = (rise, 0) := by
  simp [Caret.toDir, hne, h]

theorem fromDir_vertical (s : Int) : Caret.fromDir s 0 = if s ≥ 0 then (1, 0) else (-1, 0) := by
  have hsq : 0 ≤ s * s := by
    rcases Int.le_total 0 s with h | h
    · exact Int.mul_nonneg h h
    · have := Int.mul_nonneg (Int.neg_nonneg_of_nonpos h) (Int.neg_nonneg_of_nonpos h)
      rwa [Int.neg_mul_neg] at this
  simp [Caret.fromDir, hsq]

theorem caret_special :
    Caret.norm 1 0 = (1, 0) ∧ Caret.norm (-1) 0 = (-1, 0) ∧ Caret.norm 0 0 = (0, 1) ∧
    (∀ rise : Int, 0 < rise → rise ≤ 32767 → Caret.norm rise 0 = (1, 0)) ∧
    (∀ rise : Int, -32768 ≤ rise → rise < 0 → Caret.norm rise 0 = (-1, 0)) := by
  refine ⟨by decide, by decide, by decide, ?_, ?_⟩
  · intro rise h1 h2
    have := toDir_vertical rise (by omega) (by omega)
    simp only [Caret.norm, this, fromDir_vertical]
    have : rise ≥ 0 := by omega
    simp [this]
  · intro rise h1 h2
    by_cases hne : rise = -32768
    · subst hne; decide
    · have := toDir_vertical rise (by omega) hne
      simp only [Caret.norm, this, fromDir_vertical]
      have : ¬ rise ≥ 0 := by omega
      simp [this]

end SfntV.Metrics
