/-
C02, lazy part for TrueType glyphs: bridging lemma between the checked-index model of
`(*SimpleGlyph).Decode` (`SfntV.Total.GlyfLazy.decode`) and the value-level model of C11
(`SfntV.Glyf.simpleDecode`): forgetting panic sites and costs gives the C11 model on EVERY input.
-/
import SfntV.Proofs.TotalGlyfLazy

namespace SfntV.Total.GlyfLazy
open SfntV SfntV.Total
open SfntV.Total.Gdef (idx_ok ok_bind bind_noPanic bind_eq_ok w16_ok w16_lt)
open SfntV.Glyf (bit wrap16 Point GlyphInfo Component compSkip flagOnCurve flagXShortVec
  flagYShortVec flagRepeat flagXSameOrPos flagYSameOrPos FlagMoreComponents FlagWeHaveInstructions)

theorem pure_ok (a : α) : (pure a : Outcome α) = .ok a := rfl

/-! ## end points -/

theorem endLoop_eq (buf : Bytes) (n : Nat) : ∀ (k i : Nat), 2 * (i + k) ≤ buf.length → i + k ≤ n →
    endLoop buf n k i = .ok (Glyf.words16 ((buf.drop (2 * i)).take (2 * k)))
  | 0, i, _, _ => by
    unfold endLoop
    rw [Nat.mul_zero, List.take_zero]
    rfl
  | k+1, i, h1, h2 => by
    unfold endLoop
    rw [idx_ok _ buf (2 * i) (by omega), ok_bind, idx_ok _ buf (2 * i + 1) (by omega), ok_bind,
      chk_ok _ _ _ (by omega), ok_bind, endLoop_eq buf n k (i + 1) (by omega) (by omega), ok_bind,
      pure_ok]
    congr 1
    rw [List.drop_eq_getElem_cons (by omega : 2 * i < buf.length),
      List.drop_eq_getElem_cons (by omega : 2 * i + 1 < buf.length),
      show 2 * (k + 1) = (2 * k + 1) + 1 from by omega, List.take_succ_cons, List.take_succ_cons]
    rw [show 2 * i + 1 + 1 = 2 * (i + 1) from by omega]
    rfl

theorem numPoints_eq (endPts : List Nat) (n : Nat) (hl : endPts.length = n) :
    (if n > 0 then do
        let e ← idx "simple.go:61#endPtsOfContours[numContours-1]" endPts (n - 1)
        pure (e + 1)
      else pure 0 : Outcome Nat) = .ok (Glyf.numPointsOf endPts) := by
  unfold Glyf.numPointsOf
  rw [List.getLast?_eq_getElem?, hl]
  split
  · rw [idx_ok _ endPts (n - 1) (by omega), ok_bind, List.getElem?_eq_getElem (by omega)]
    rfl
  · rw [List.getElem?_eq_none (by omega)]
    rfl

/-! ## flags -/

theorem repLoop_eq (np f : Nat) : ∀ (c i : Nat),
    repLoop np f c i = .ok (List.replicate (min c (np - i)) f, i + min c (np - i))
  | 0, i => by
    unfold repLoop
    rw [Nat.zero_min]
    rfl
  | c+1, i => by
    unfold repLoop
    split
    · rename_i h
      rw [chk_ok _ _ _ h, ok_bind, repLoop_eq np f c (i + 1), ok_bind]
      dsimp only
      rw [pure_ok]
      have hm : min (c + 1) (np - i) = min c (np - (i + 1)) + 1 := by omega
      rw [hm, List.replicate_succ]
      congr 2
      omega
    · rename_i h
      have hm : min (c + 1) (np - i) = 0 := by omega
      rw [hm]
      rfl

theorem glyf_flagLoop_zero (fuel : Nat) (buf : Bytes) : Glyf.flagLoop fuel buf 0 = some ([], buf) := by
  cases fuel <;> rfl

/-- the flag loops agree (`n` = points left) -/
theorem flagLoop_bridge (np : Nat) : ∀ (fuel : Nat) (buf : Bytes) (i n : Nat), i + n = np →
    match flagLoop np fuel buf i, Glyf.flagLoop fuel buf n with
    | .ok (ff, b, i', _), some (ff2, b2) => ff = ff2 ∧ b = b2 ∧ i' = np
    | .ok (_, _, i', _), none => i' ≠ np
    | .err _, none => True
    | _, _ => False
  | fuel, buf, i, 0, h => by
    rw [glyf_flagLoop_zero]
    cases fuel with
    | zero =>
      unfold flagLoop
      exact ⟨rfl, rfl, by omega⟩
    | succ fuel =>
      unfold flagLoop
      rw [if_neg (by omega)]
      exact ⟨rfl, rfl, by omega⟩
  | 0, buf, i, n+1, h => by
    unfold flagLoop Glyf.flagLoop
    show i ≠ np
    omega
  | fuel+1, buf, i, n+1, h => by
    unfold flagLoop Glyf.flagLoop
    rw [if_pos (by omega)]
    cases buf with
    | nil => exact True.intro
    | cons fl rest =>
      rw [if_neg (by simp), idx_ok _ (fl :: rest) 0 (by simp), ok_bind,
        sliceFrom_ok _ (fl :: rest) 1 (by simp), ok_bind, chk_ok _ _ _ (by omega), ok_bind]
      simp only [List.getElem_cons_zero, List.drop_succ_cons, List.drop_zero]
      by_cases hr : bit fl.toNat flagRepeat = true
      · rw [if_pos hr, if_pos hr]
        cases rest with
        | nil => exact True.intro
        | cons cnt rest' =>
          rw [if_neg (by simp), idx_ok _ (cnt :: rest') 0 (by simp), ok_bind,
            sliceFrom_ok _ (cnt :: rest') 1 (by simp), ok_bind, repLoop_eq, ok_bind]
          simp only [List.getElem_cons_zero, List.drop_succ_cons, List.drop_zero]
          have hk : min cnt.toNat (np - (i + 1)) = min cnt.toNat n := by omega
          rw [hk]
          have ih := flagLoop_bridge np fuel rest' (i + 1 + min cnt.toNat n) (n - min cnt.toNat n) (by omega)
          revert ih
          cases flagLoop np fuel rest' (i + 1 + min cnt.toNat n) with
          | ok r =>
            obtain ⟨fs, b, i'', s⟩ := r
            cases Glyf.flagLoop fuel rest' (n - min cnt.toNat n) with
            | none => exact fun h => h
            | some p =>
              obtain ⟨fs2, b2⟩ := p
              intro ⟨e1, e2, e3⟩
              subst e1 e2
              rw [ok_bind]
              exact ⟨by rw [List.replicate_succ], rfl, e3⟩
          | err e =>
            cases Glyf.flagLoop fuel rest' (n - min cnt.toNat n) with
            | none => exact fun h => h
            | some p => exact fun h => h
          | panic s =>
            cases Glyf.flagLoop fuel rest' (n - min cnt.toNat n) with
            | none => exact fun h => h
            | some p => exact fun h => h
      · rw [if_neg hr, if_neg hr]
        have ih := flagLoop_bridge np fuel rest (i + 1) n (by omega)
        revert ih
        cases flagLoop np fuel rest (i + 1) with
        | ok r =>
          obtain ⟨fs, b, i'', s⟩ := r
          cases Glyf.flagLoop fuel rest n with
          | none => exact fun h => h
          | some p =>
            obtain ⟨fs2, b2⟩ := p
            intro ⟨e1, e2, e3⟩
            subst e1 e2
            rw [ok_bind]
            exact ⟨rfl, rfl, e3⟩
        | err e =>
          cases Glyf.flagLoop fuel rest n with
          | none => exact fun h => h
          | some p => exact fun h => h
        | panic s =>
          cases Glyf.flagLoop fuel rest n with
          | none => exact fun h => h
          | some p => exact fun h => h

/-! ## coordinates -/

/-- the coordinate loops agree -/
theorem coordLoop_bridge (st : CoordSites) (short same n : Nat) : ∀ (fs : List Nat) (i : Nat)
    (buf : Bytes) (x : Int), i + fs.length ≤ n →
    match coordLoop st short same n fs i buf x, Glyf.coordLoop short same fs buf x with
    | .ok (xs, r, _), some (xs2, r2) => xs = xs2 ∧ r = r2
    | .err _, none => True
    | _, _ => False
  | [], _, _, _, _ => by
    unfold coordLoop Glyf.coordLoop
    exact ⟨rfl, rfl⟩
  | f :: fs, i, buf, x, h => by
    simp only [List.length_cons] at h
    -- the tail of both loops after one step
    have tail : ∀ (x' : Int) (buf' : Bytes) (s : Nat),
        match (do
            let (xs, r, s') ← coordLoop st short same n fs (i + 1) buf' x'
            pure (x' :: xs, r, s + s' + 1) : Outcome (List Int × Bytes × Nat)),
          (match Glyf.coordLoop short same fs buf' x' with
            | none => none
            | some (xs, r) => some (x' :: xs, r)) with
        | .ok (xs, r, _), some (xs2, r2) => xs = xs2 ∧ r = r2
        | .err _, none => True
        | _, _ => False := by
      intro x' buf' s
      have ih := coordLoop_bridge st short same n fs (i + 1) buf' x' (by omega)
      revert ih
      cases coordLoop st short same n fs (i + 1) buf' x' with
      | ok r =>
        obtain ⟨xs, r, s'⟩ := r
        cases Glyf.coordLoop short same fs buf' x' with
        | none => exact fun h => h
        | some p =>
          obtain ⟨xs2, r2⟩ := p
          intro ⟨e1, e2⟩
          subst e1 e2
          exact ⟨rfl, rfl⟩
      | err e =>
        cases Glyf.coordLoop short same fs buf' x' with
        | none => exact fun h => h
        | some p => exact fun h => h
      | panic s =>
        cases Glyf.coordLoop short same fs buf' x' with
        | none => exact fun h => h
        | some p => exact fun h => h
    unfold coordLoop Glyf.coordLoop coordStep
    by_cases hs : bit f short = true
    · rw [if_pos hs, if_pos hs]
      cases buf with
      | nil => exact True.intro
      | cons b rest =>
        rw [if_neg (by simp), idx_ok _ (b :: rest) 0 (by simp), ok_bind,
          sliceFrom_ok _ (b :: rest) 1 (by simp), ok_bind, pure_ok, ok_bind]
        simp only [List.getElem_cons_zero, List.drop_succ_cons, List.drop_zero]
        rw [chk_ok _ _ _ (by omega), ok_bind]
        exact tail _ rest 1
    · rw [if_neg hs, if_neg hs]
      by_cases hm : (!bit f same) = true
      · rw [if_pos hm, if_pos hm]
        match buf with
        | [] => exact True.intro
        | [_] => exact True.intro
        | b0 :: b1 :: rest =>
          rw [if_neg (by simp), idx_ok _ (b0 :: b1 :: rest) 0 (by simp), ok_bind,
            idx_ok _ (b0 :: b1 :: rest) 1 (by simp), ok_bind,
            sliceFrom_ok _ (b0 :: b1 :: rest) 2 (by simp), ok_bind, pure_ok, ok_bind]
          simp only [List.getElem_cons_zero, List.getElem_cons_succ, List.drop_succ_cons, List.drop_zero]
          rw [chk_ok _ _ _ (by omega), ok_bind]
          exact tail _ rest 1
      · rw [if_neg hm, if_neg hm, pure_ok, ok_bind]
        dsimp only
        rw [chk_ok _ _ _ (by omega), ok_bind]
        exact tail x buf 0

/-! ## points and contours -/

theorem mkPoints_getElem? : ∀ (xx yy : List Int) (ff : List Nat) (j : Nat),
    (Glyf.mkPoints xx yy ff)[j]? =
      match xx[j]?, yy[j]?, ff[j]? with
      | some x, some y, some f => some ⟨x, y, bit f flagOnCurve⟩
      | _, _, _ => none
  | [], _, _, j => by simp [Glyf.mkPoints]
  | _ :: _, [], _, j => by
    cases j <;> simp [Glyf.mkPoints]
  | _ :: _, _ :: _, [], j => by
    cases j <;> simp [Glyf.mkPoints]
  | x :: xs, y :: ys, f :: fs, 0 => by simp [Glyf.mkPoints]
  | x :: xs, y :: ys, f :: fs, j+1 => by
    simp only [Glyf.mkPoints, List.getElem?_cons_succ]
    exact mkPoints_getElem? xs ys fs j

theorem idxA_toArray (site : String) (l : List α) (j : Nat) (h : j < l.length) :
    idxA site l.toArray j = .ok l[j] := by
  unfold idxA
  rw [List.getElem?_toArray, List.getElem?_eq_getElem h]

theorem ptLoop_eq (xx yy : List Int) (ff : List Nat) (np : Nat) (hx : xx.length = np)
    (hy : yy.length = np) (hf : ff.length = np) (start len : Nat) : ∀ (k j : Nat), j + k ≤ np →
    start ≤ j → j - start + k ≤ len →
    ptLoop xx.toArray yy.toArray ff.toArray start len k j =
      .ok (((Glyf.mkPoints xx yy ff).drop j).take k)
  | 0, _, _, _, _ => by
    unfold ptLoop
    rw [List.take_zero]
  | k+1, j, h1, h2, h3 => by
    unfold ptLoop
    rw [idxA_toArray _ xx j (by omega), ok_bind, idxA_toArray _ yy j (by omega), ok_bind,
      idxA_toArray _ ff j (by omega), ok_bind, chk_ok _ _ _ (by omega), ok_bind,
      ptLoop_eq xx yy ff np hx hy hf start len k (j + 1) (by omega) (by omega) (by omega), ok_bind, pure_ok]
    have hg : (Glyf.mkPoints xx yy ff)[j]? = some ⟨xx[j], yy[j], bit ff[j] flagOnCurve⟩ := by
      rw [mkPoints_getElem?, List.getElem?_eq_getElem (by omega : j < xx.length),
        List.getElem?_eq_getElem (by omega : j < yy.length),
        List.getElem?_eq_getElem (by omega : j < ff.length)]
    obtain ⟨hj, he⟩ := List.getElem?_eq_some_iff.mp hg
    rw [List.drop_eq_getElem_cons hj, List.take_succ_cons, he]

/-- the contour loops agree -/
theorem contourLoop_bridge (xx yy : List Int) (ff : List Nat) (np : Nat) (hx : xx.length = np)
    (hy : yy.length = np) (hf : ff.length = np) (hnp : np ≤ 65536) (endPts : List Nat) (nc : Nat) :
    ∀ (k i start : Nat) (c : Cost), i + k = endPts.length → i + k ≤ nc →
    match contourLoop xx.toArray yy.toArray ff.toArray endPts np nc k i start c,
      Glyf.contourLoop (Glyf.mkPoints xx yy ff) np (endPts.drop i) start with
    | .ok (cs, _), some cs2 => cs = cs2
    | .err _, none => True
    | _, _ => False
  | 0, i, start, c, h1, _ => by
    rw [List.drop_eq_nil_of_le (by omega)]
    unfold contourLoop Glyf.contourLoop
    exact rfl
  | k+1, i, start, c, h1, h2 => by
    rw [List.drop_eq_getElem_cons (by omega : i < endPts.length)]
    unfold contourLoop Glyf.contourLoop
    rw [idx_ok _ endPts i (by omega), ok_bind]
    dsimp only
    by_cases hg : endPts[i] + 1 < start ∨ endPts[i] + 1 > np
    · rw [if_pos hg, if_pos hg]
      exact True.intro
    · rw [if_neg hg, if_neg hg, mkSlice_ok' _ _ _ (by omega), ok_bind,
        ptLoop_eq xx yy ff np hx hy hf start _ _ start (by omega) (Nat.le_refl _) (by omega), ok_bind,
        chk_ok _ _ _ (by omega), ok_bind]
      have ih := contourLoop_bridge xx yy ff np hx hy hf hnp endPts nc k (i + 1) (endPts[i] + 1)
        ((c.mem (endPts[i] + 1 - start)).tick (1 + (endPts[i] + 1 - start))) (by omega) (by omega)
      revert ih
      cases contourLoop xx.toArray yy.toArray ff.toArray endPts np nc k (i + 1) (endPts[i] + 1)
          ((c.mem (endPts[i] + 1 - start)).tick (1 + (endPts[i] + 1 - start))) with
      | ok r =>
        obtain ⟨cs, c'⟩ := r
        cases Glyf.contourLoop (Glyf.mkPoints xx yy ff) np (endPts.drop (i + 1)) (endPts[i] + 1) with
        | none => exact fun h => h
        | some cs2 =>
          intro e
          subst e
          exact rfl
      | err e =>
        cases Glyf.contourLoop (Glyf.mkPoints xx yy ff) np (endPts.drop (i + 1)) (endPts[i] + 1) with
        | none => exact fun h => h
        | some p => exact fun h => h
      | panic s =>
        cases Glyf.contourLoop (Glyf.mkPoints xx yy ff) np (endPts.drop (i + 1)) (endPts[i] + 1) with
        | none => exact fun h => h
        | some p => exact fun h => h

/-! ## `(*SimpleGlyph).Decode` -/

/-- D_erase over the integer contour count (`nc ≤ 32767`: `NumContours` is an `int16`) -/
theorem decodeI_erase (nc : Int) (enc : Bytes) (hnc : nc ≤ 32767) :
    toOpt (decodeI nc enc) = Glyf.simpleDecode nc enc := by
  unfold decodeI Glyf.simpleDecode
  by_cases h0 : nc < 0
  · rw [if_pos (Or.inl h0), if_pos h0]
    rfl
  rw [if_neg h0]
  dsimp only
  by_cases h1 : enc.length < 2 * nc.toNat + 2
  · rw [if_pos (Or.inr h1), if_pos h1]
    rfl
  rw [if_neg (by omega), if_neg h1]
  have hn2 : nc.toNat ≤ 32767 := by omega
  have hend := endLoop_eq enc nc.toNat nc.toNat 0 (by omega) (by omega)
  rw [Nat.mul_zero, List.drop_zero] at hend
  obtain ⟨hel, hev⟩ := endLoop_ok _ _ _ _ _ hend
  have hnpeq := numPoints_eq _ _ hel
  have hnp : Glyf.numPointsOf (Glyf.words16 (enc.take (2 * nc.toNat))) ≤ 65536 :=
    numPoints_le hel hev hnpeq
  have hdl : (enc.drop (2 * nc.toNat)).length = enc.length - 2 * nc.toNat := List.length_drop
  rw [mkSlice_ok' _ _ _ (by omega), ok_bind, hend, ok_bind, sliceFrom_ok _ enc _ (by omega), ok_bind,
    hnpeq, ok_bind, w16_rd16 _ _ 0 (by omega), ok_bind]
  generalize Glyf.words16 (enc.take (2 * nc.toNat)) = endPts at hel hnp ⊢
  generalize Glyf.numPointsOf endPts = np at hnp ⊢
  generalize enc.drop (2 * nc.toNat) = buf at hdl ⊢
  generalize Glyf.rd16 buf 0 = il
  by_cases h2 : buf.length < 2 + il
  · rw [if_pos h2, if_pos h2]
    rfl
  rw [if_neg h2, if_neg h2, slice_ok _ _ _ _ (by omega), ok_bind, sliceFrom_ok _ _ _ (by omega), ok_bind,
    mkSlice_ok' _ _ _ hnp, ok_bind, Nat.add_sub_cancel_left]
  -- flags
  have hb := flagLoop_bridge np np (buf.drop (2 + il)) 0 np (by omega)
  revert hb
  cases hfl : flagLoop np np (buf.drop (2 + il)) 0 with
  | err e =>
    cases Glyf.flagLoop np (buf.drop (2 + il)) np with
    | none => exact fun _ => rfl
    | some p => exact fun h => h.elim
  | panic s =>
    cases Glyf.flagLoop np (buf.drop (2 + il)) np with
    | none => exact fun h => h.elim
    | some p => exact fun h => h.elim
  | ok r =>
    obtain ⟨ff, buf1, i', s⟩ := r
    obtain ⟨_, f2, _, _, _⟩ := flagLoop_ok _ _ _ _ _ _ _ _ hfl (Nat.zero_le _)
    rw [ok_bind]
    dsimp only
    cases Glyf.flagLoop np (buf.drop (2 + il)) np with
    | none =>
      intro hne
      rw [if_pos hne]
      rfl
    | some p =>
      obtain ⟨ff2, b2⟩ := p
      intro ⟨e1, e2, e3⟩
      subst e1 e2
      have hffl : ff.length = np := by omega
      rw [if_neg (by omega), mkSlice_ok' _ _ _ hnp, ok_bind]
      dsimp only
      -- x coordinates
      have hbx := coordLoop_bridge xSites flagXShortVec flagXSameOrPos np ff 0 buf1 0 (by omega)
      revert hbx
      cases hxl : coordLoop xSites flagXShortVec flagXSameOrPos np ff 0 buf1 0 with
      | err e =>
        cases Glyf.coordLoop flagXShortVec flagXSameOrPos ff buf1 0 with
        | none => exact fun _ => rfl
        | some p => exact fun h => h.elim
      | panic s =>
        cases Glyf.coordLoop flagXShortVec flagXSameOrPos ff buf1 0 with
        | none => exact fun h => h.elim
        | some p => exact fun h => h.elim
      | ok r =>
        obtain ⟨xx, buf2, sx⟩ := r
        obtain ⟨hxlen, _⟩ := coordLoop_ok _ _ _ _ _ _ _ _ _ _ _ hxl
        cases Glyf.coordLoop flagXShortVec flagXSameOrPos ff buf1 0 with
        | none => exact fun h => h.elim
        | some p =>
          obtain ⟨xx2, b2⟩ := p
          intro ⟨e1, e2⟩
          subst e1 e2
          rw [ok_bind]
          dsimp only
          rw [mkSlice_ok' _ _ _ hnp, ok_bind]
          -- y coordinates
          have hby := coordLoop_bridge ySites flagYShortVec flagYSameOrPos np ff 0 buf2 0 (by omega)
          revert hby
          cases hyl : coordLoop ySites flagYShortVec flagYSameOrPos np ff 0 buf2 0 with
          | err e =>
            cases Glyf.coordLoop flagYShortVec flagYSameOrPos ff buf2 0 with
            | none => exact fun _ => rfl
            | some p => exact fun h => h.elim
          | panic s =>
            cases Glyf.coordLoop flagYShortVec flagYSameOrPos ff buf2 0 with
            | none => exact fun h => h.elim
            | some p => exact fun h => h.elim
          | ok r =>
            obtain ⟨yy, buf3, sy⟩ := r
            obtain ⟨hylen, _⟩ := coordLoop_ok _ _ _ _ _ _ _ _ _ _ _ hyl
            cases Glyf.coordLoop flagYShortVec flagYSameOrPos ff buf2 0 with
            | none => exact fun h => h.elim
            | some p =>
              obtain ⟨yy2, b3⟩ := p
              intro ⟨e1, e2⟩
              subst e1 e2
              rw [ok_bind]
              dsimp only
              rw [mkSlice_ok' _ _ _ (by omega), ok_bind]
              -- contours
              have hbc := contourLoop_bridge xx yy ff np (by omega) (by omega) hffl hnp endPts nc.toNat
                nc.toNat 0 0
                (((((((((Cost.zero.mem nc.toNat).tick (3 * nc.toNat)).tick.mem np).tick s).mem np).tick sx).mem np).tick sy).mem
                  nc.toNat) (by omega) (by omega)
              rw [List.drop_zero] at hbc
              revert hbc
              cases contourLoop xx.toArray yy.toArray ff.toArray endPts np nc.toNat nc.toNat 0 0 _ with
              | err e =>
                cases Glyf.contourLoop (Glyf.mkPoints xx yy ff) np endPts 0 with
                | none => exact fun _ => rfl
                | some p => exact fun h => h.elim
              | panic s =>
                cases Glyf.contourLoop (Glyf.mkPoints xx yy ff) np endPts 0 with
                | none => exact fun h => h.elim
                | some p => exact fun h => h.elim
              | ok r =>
                obtain ⟨cc, c'⟩ := r
                cases Glyf.contourLoop (Glyf.mkPoints xx yy ff) np endPts 0 with
                | none => exact fun h => h.elim
                | some cc2 =>
                  intro e
                  subst e
                  rfl

/-- D_erase for `(*SimpleGlyph).Decode`: on EVERY `SimpleGlyph` value, forgetting panic sites and
costs of the checked-index model gives the C11 value-level model `Glyf.simpleDecode` -/
theorem decode_erase (nc : Int16) (buf : Bytes) :
    toOpt (decode nc buf) = Glyf.simpleDecode nc.toInt buf := by
  unfold decode
  have := Int16.toInt_lt nc
  exact decodeI_erase _ _ (by omega)

end SfntV.Total.GlyfLazy
