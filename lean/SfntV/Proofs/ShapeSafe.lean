/-
No panic (C07): for guarded lookup lists without contextual subtables the engine never
reaches a `panic` outcome, on a context whose stack is empty.
-/
import SfntV.Proofs.ShapeLoop

namespace SfntV.Shape
open SfntV

/-- Hoare-style postcondition for the absence of panics: not a panic, and a value satisfies `P` -/
def Safe (P : α → Prop) : Outcome α → Prop
  | .ok a => P a
  | .panic _ => False
  | .err _ => True

theorem Safe.bind {x : Outcome α} {f : α → Outcome β} {Q : α → Prop} {P : β → Prop}
    (hx : Safe Q x) (hf : ∀ a, x = .ok a → Q a → Safe P (f a)) : Safe P (x >>= f) := by
  cases x with
  | ok a => exact hf a rfl hx
  | err e => trivial
  | panic s => exact hx.elim

theorem Safe.mono {x : Outcome α} {P Q : α → Prop} (h : Safe P x) (hpq : ∀ a, P a → Q a) : Safe Q x := by
  cases x with
  | ok a => exact hpq a h
  | err e => trivial
  | panic s => exact h.elim

theorem Safe.noPanic {x : Outcome α} {P : α → Prop} (h : Safe P x) : NoPanic x := by
  intro s hs; subst hs; exact h

theorem idx_safe {site : String} {xs : List α} {i : Nat} (h : i < xs.length) :
    Safe (fun v => xs[i]? = some v) (idx site xs i) := by
  unfold idx
  rw [List.getElem?_eq_getElem h]
  rfl

theorem covBelow_lt {c : Cov} {n g i : Nat} (h : covBelow c n = true) (hg : covGet c g = some i) : i < n := by
  unfold covGet at hg
  unfold covBelow at h
  have hall := List.all_eq_true.mp h
  induction c with
  | nil => simp [List.lookup] at hg
  | cons e es ih =>
    obtain ⟨k, v⟩ := e
    simp only [List.lookup] at hg
    split at hg
    · injection hg with hg; subst hg
      have := hall (k, v) List.mem_cons_self
      simpa using this
    · exact ih (by simpa using (List.all_eq_true.mpr fun x hx => hall x (List.mem_cons_of_mem _ hx))) hg
        (fun x hx => hall x (List.mem_cons_of_mem _ hx))

/-! ## the scanning helpers do not index past the end when the limit is inside the sequence -/

theorem skipFwd_safe (kp : Nat → Bool) : ∀ (rest : List Glyph) (p : Nat) (limit : Int) (needed : Nat),
    limit ≤ ((p + rest.length : Nat) : Int) →
    Safe (fun q => p ≤ q ∧ q ≤ p + rest.length) (skipFwd kp rest p limit needed) := by
  intro rest
  induction rest with
  | nil =>
    intro p limit needed h
    simp only [skipFwd]
    split
    · simp at h; omega
    · exact ⟨Nat.le_refl _, Nat.le_add_right _ _⟩
  | cons g rest ih =>
    intro p limit needed h
    simp only [skipFwd]
    split
    · split
      · exact ⟨Nat.le_refl _, Nat.le_add_right _ _⟩
      · refine (ih (p + 1) limit needed (by simp at h ⊢; omega)).mono ?_
        intro q hq; simp at hq ⊢; omega
    · exact ⟨Nat.le_refl _, Nat.le_add_right _ _⟩

theorem skipFwd_drop_safe (kp : Nat → Bool) (seq : List Glyph) (p : Nat) (limit : Int) (needed : Nat)
    (h : limit ≤ (seq.length : Int)) :
    Safe (fun _ => True) (skipFwd kp (seq.drop p) p limit needed) := by
  refine (skipFwd_safe kp _ p limit needed ?_).mono (fun _ _ => trivial)
  simp only [List.length_drop]
  omega

theorem matchFwd_safe (kp : Nat → Bool) (seq : List Glyph) : ∀ (prs : List (Nat → Bool)) (p : Nat) (limit : Int),
    limit ≤ (seq.length : Int) → Safe (fun _ => True) (matchFwd kp seq prs p limit) := by
  intro prs
  induction prs with
  | nil => intro p limit _; simp only [matchFwd]; trivial
  | cons pr prs ih =>
    intro p limit h
    simp only [matchFwd]
    refine Safe.bind (skipFwd_drop_safe kp seq (p + 1) limit prs.length h) ?_
    intro q _ _
    split
    · trivial
    · rename_i hq
      refine Safe.bind (idx_safe (by omega)) ?_
      intro g _ _
      split
      · refine Safe.bind (ih q limit h) ?_
        intro r _ _
        split <;> trivial
      · trivial

theorem matchComps_safe (kp : Nat → Bool) : ∀ (rest : List Glyph) (cs : List Nat) (p : Nat) (b : Int),
    b ≤ ((p + rest.length : Nat) : Int) → Safe (fun _ => True) (matchComps kp cs rest p b) := by
  intro rest
  induction rest with
  | nil =>
    intro cs p b h
    cases cs with
    | nil => simp only [matchComps]; trivial
    | cons c cs =>
      simp only [matchComps]
      split
      · trivial
      · simp at h; omega
  | cons g rest ih =>
    intro cs p b h
    cases cs with
    | nil => simp only [matchComps]; trivial
    | cons c cs =>
      simp only [matchComps]
      have h' : b ≤ ((p + 1 + rest.length : Nat) : Int) := by simp at h ⊢; omega
      split
      · trivial
      · split
        · split
          · refine Safe.bind (ih cs (p + 1) b h') ?_
            intro r _ _
            split <;> trivial
          · trivial
        · refine Safe.bind (ih (c :: cs) (p + 1) b h') ?_
          intro r _ _
          split <;> trivial

theorem firstLig_safe (kp : Nat → Bool) (rest : List Glyph) (a : Nat) (b : Int)
    (h : b ≤ ((a + 1 + rest.length : Nat) : Int)) : ∀ ligs, Safe (fun _ => True) (firstLig kp rest a b ligs) := by
  intro ligs
  induction ligs with
  | nil => simp only [firstLig]; trivial
  | cons l ls ih =>
    simp only [firstLig]
    refine Safe.bind (matchComps_safe kp rest l.comps (a + 1) b h) ?_
    intro r _ _
    split
    · trivial
    · exact ih

theorem applyValue_safe {v : Option ValueRec} (h : valueOk v = true) (g : Glyph) : Safe (fun _ => True) (applyValue v g) := by
  unfold applyValue
  cases v with
  | none => trivial
  | some v =>
    simp only [valueOk] at h
    simp only
    split
    · rename_i hu; simp [hu] at h
    · trivial

/-! ## subtables -/

/-- the stack of the resulting state (if any) is empty -/
def StackNil : Option (St × Nat) → Prop
  | none => True
  | some r => r.1.stack = []

theorem lookup_mem {α β : Type} [BEq α] : ∀ (l : List (α × β)) (k : α) (v : β), l.lookup k = some v → ∃ k', (k', v) ∈ l := by
  intro l
  induction l with
  | nil => intro k v h; simp [List.lookup] at h
  | cons e es ih =>
    intro k v h
    obtain ⟨k0, v0⟩ := e
    simp only [List.lookup] at h
    split at h
    · injection h with h; subst h; exact ⟨k0, List.mem_cons_self⟩
    · obtain ⟨k', hk'⟩ := ih k v h
      exact ⟨k', List.mem_cons_of_mem _ hk'⟩

theorem applyPair_safe (st : St) (a p : Nat) (g1 g2 : Glyph) (pa : PairAdj)
    (hok : pairOk (some pa) = true) (hst : st.stack = []) : Safe StackNil (applyPair st a p g1 g2 pa) := by
  simp only [pairOk, Bool.and_eq_true] at hok
  unfold applyPair
  refine Safe.bind (applyValue_safe hok.1 g1) ?_
  intro g1' _ _
  split
  · exact hst
  · rename_i v hv
    refine Safe.bind (applyValue_safe (by rw [← hv]; exact hok.2) g2) ?_
    intro g2' _ _
    exact hst

theorem applyMark_safe (add : Nat → Bool) (st : St) (a : Nat) (markCov baseCov : Cov) (marks : List MarkRec)
    (bases : List (List Anchor)) (hm : covBelow markCov marks.length = true)
    (hb : covBelow baseCov bases.length = true) (ha : a < st.seq.length) (hst : st.stack = []) :
    Safe StackNil (applyMark add st a markCov baseCov marks bases) := by
  unfold applyMark
  refine Safe.bind (idx_safe ha) ?_
  intro g _ _
  split
  · trivial
  · rename_i mi hmi
    refine Safe.bind (idx_safe (covBelow_lt hm hmi)) ?_
    intro mr _ _
    split
    · trivial
    · split
      · trivial
      · split
        · trivial
        · rename_i bi hbi
          refine Safe.bind (idx_safe (covBelow_lt hb hbi)) ?_
          intro row _ _
          split
          · trivial
          · split
            · trivial
            · exact hst

theorem applySub_safe (kp : Nat → Bool) (st : St) (a : Nat) (s : Subtable)
    (hg : s.guarded = true) (hs : s.contextual = false) (ha : a < st.seq.length) (hst : st.stack = []) :
    Safe StackNil (applySub kp st a st.seq.length s) := by
  have hlim : ((st.seq.length : Nat) : Int) ≤ (st.seq.length : Int) := Int.le_refl _
  cases s with
  | gsub11 cov delta =>
    simp only [applySub]
    refine Safe.bind (idx_safe ha) ?_
    intro g _ _
    split
    · trivial
    · exact hst
  | gsub12 cov subst =>
    simp only [applySub]
    refine Safe.bind (idx_safe ha) ?_
    intro g _ _
    split
    · trivial
    · rename_i i hi
      refine Safe.bind (idx_safe (covBelow_lt hg hi)) ?_
      intro n _ _
      exact hst
  | gsub21 cov repl =>
    simp only [applySub]
    refine Safe.bind (idx_safe ha) ?_
    intro g _ _
    split
    · trivial
    · rename_i i hi
      refine Safe.bind (idx_safe (covBelow_lt hg hi)) ?_
      intro rp _ _
      split
      · trivial
      · show (if _ then st.stack.map _ else st.stack) = []
        rw [hst]; simp
  | gsub31 cov alts =>
    simp only [applySub]
    refine Safe.bind (idx_safe ha) ?_
    intro g _ _
    split
    · trivial
    · rename_i i hi
      refine Safe.bind (idx_safe (covBelow_lt hg hi)) ?_
      intro alt _ _
      split
      · trivial
      · exact hst
  | gsub41 cov ligs =>
    simp only [applySub]
    refine Safe.bind (idx_safe ha) ?_
    intro g _ _
    split
    · trivial
    · rename_i i hi
      refine Safe.bind (idx_safe (covBelow_lt hg hi)) ?_
      intro ligSet _ _
      refine Safe.bind (firstLig_safe kp _ a _ (by simp only [List.length_drop]; omega) ligSet) ?_
      intro r _ _
      split
      · trivial
      · show st.stack.map _ = []
        rw [hst]; rfl
  | gsub81 input back look subst =>
    simp only [applySub]
    refine Safe.bind (idx_safe ha) ?_
    intro g _ _
    split
    · trivial
    · rename_i i hi
      split
      · trivial
      · refine Safe.bind (matchFwd_safe kp st.seq _ a _ hlim) ?_
        intro r _ _
        split
        · trivial
        · refine Safe.bind (idx_safe (covBelow_lt hg hi)) ?_
          intro n _ _
          exact hst
  | ctx1 cov rules => simp [Subtable.contextual] at hs
  | ctx2 cov cls rules => simp [Subtable.contextual] at hs
  | ctx3 input actions => simp [Subtable.contextual] at hs
  | chain1 cov rules => simp [Subtable.contextual] at hs
  | chain2 cov bcls icls lcls rules => simp [Subtable.contextual] at hs
  | chain3 back input look actions => simp [Subtable.contextual] at hs
  | gpos11 cov adj =>
    simp only [applySub]
    refine Safe.bind (idx_safe ha) ?_
    intro g _ _
    split
    · trivial
    · refine Safe.bind (applyValue_safe hg g) ?_
      intro g' _ _
      exact hst
  | gpos12 cov adj =>
    simp only [Subtable.guarded, Bool.and_eq_true] at hg
    simp only [applySub]
    refine Safe.bind (idx_safe ha) ?_
    intro g _ _
    split
    · trivial
    · rename_i i hi
      refine Safe.bind (idx_safe (covBelow_lt hg.1 hi)) ?_
      intro v hv _
      have hvok : valueOk v = true := List.all_eq_true.mp hg.2 v (List.mem_of_getElem? (idx_ok hv))
      refine Safe.bind (applyValue_safe hvok g) ?_
      intro g' _ _
      exact hst
  | gpos21 pairs =>
    simp only [Subtable.guarded] at hg
    simp only [applySub]
    refine Safe.bind (idx_safe ha) ?_
    intro g1 _ _
    refine Safe.bind (skipFwd_drop_safe kp st.seq (a + 1) _ 0 hlim) ?_
    intro p _ _
    split
    · trivial
    · rename_i hp
      refine Safe.bind (idx_safe (by omega)) ?_
      intro g2 _ _
      split
      · trivial
      · rename_i hl
        obtain ⟨k', hk'⟩ := lookup_mem _ _ _ hl
        have := List.all_eq_true.mp hg _ hk'
        simp [pairOk] at this
      · rename_i pa hl
        obtain ⟨k', hk'⟩ := lookup_mem _ _ _ hl
        exact applyPair_safe st a p g1 g2 pa (List.all_eq_true.mp hg _ hk') hst
  | gpos22 cov cls1 cls2 adj =>
    simp only [Subtable.guarded] at hg
    simp only [applySub]
    refine Safe.bind (idx_safe ha) ?_
    intro g1 _ _
    split
    · trivial
    · refine Safe.bind (skipFwd_drop_safe kp st.seq (a + 1) _ 0 hlim) ?_
      intro p _ _
      split
      · trivial
      · rename_i hp
        refine Safe.bind (idx_safe (by omega)) ?_
        intro g2 _ _
        split
        · trivial
        · rename_i row hrow
          have hrowok := List.all_eq_true.mp hg row (List.mem_of_getElem? hrow)
          split
          · trivial
          · rename_i hx
            have := List.all_eq_true.mp hrowok _ (List.mem_of_getElem? hx)
            simp [pairOk] at this
          · rename_i pa hx
            exact applyPair_safe st a p g1 g2 pa (List.all_eq_true.mp hrowok _ (List.mem_of_getElem? hx)) hst
  | gpos31 cov recs =>
    simp only [Subtable.guarded] at hg
    simp only [applySub]
    refine Safe.bind (idx_safe ha) ?_
    intro g _ _
    split
    · trivial
    · rename_i i hi
      refine Safe.bind (idx_safe (covBelow_lt hg hi)) ?_
      intro r _ _
      refine Safe.bind (Q := fun _ => True) ?_ ?_
      · split
        · refine Safe.bind (idx_safe (by omega)) ?_
          intro prev _ _
          split
          · trivial
          · rename_i pi hpi
            refine Safe.bind (idx_safe (covBelow_lt hg hpi)) ?_
            intro pr _ _
            trivial
        · trivial
      · intro yo _ _
        refine Safe.bind (Q := fun _ => True) ?_ ?_
        · split
          · refine Safe.bind (idx_safe (by omega)) ?_
            intro nx _ _
            split
            · trivial
            · rename_i ni hni
              refine Safe.bind (idx_safe (covBelow_lt hg hni)) ?_
              intro nr _ _
              trivial
          · trivial
        · intro ad _ _
          exact hst
  | gpos41 markCov baseCov marks bases gclass =>
    simp only [Subtable.guarded, Bool.and_eq_true] at hg
    simp only [applySub]
    exact applyMark_safe _ st a _ _ _ _ hg.1 hg.2 ha hst
  | gpos61 markCov baseCov marks bases =>
    simp only [Subtable.guarded, Bool.and_eq_true] at hg
    simp only [applySub]
    exact applyMark_safe _ st a _ _ _ _ hg.1 hg.2 ha hst

theorem applyAt_safe (kp : Nat → Bool) (st : St) (a : Nat) (ha : a < st.seq.length) (hst : st.stack = []) :
    ∀ (ss : List Subtable), (ss.all Subtable.guarded = true) → (ss.all (fun s => !s.contextual) = true) →
    Safe StackNil (applyAt kp st a st.seq.length ss) := by
  intro ss
  induction ss with
  | nil => intro _ _; simp only [applyAt]; trivial
  | cons s ss ih =>
    intro hg hs
    simp only [List.all_cons, Bool.and_eq_true] at hg hs
    simp only [applyAt]
    refine Safe.bind (applySub_safe kp st a s hg.1 (by simpa using hs.1) ha hst) ?_
    intro r _ hr
    cases r with
    | none => exact ih hg.2 hs.2
    | some r => exact hr

/-! ## the loops -/

theorem nestedLoop_nil (B : Nat) (ll : LookupList) (gd : Gdef) (fuel : Nat) (st : St) (n : Nat) (next : Int)
    (hst : st.stack = []) : nestedLoop B ll gd fuel st n next = .ok (st, next) := by
  cases fuel with
  | zero => simp [nestedLoop, hst]
  | succ f => simp [nestedLoop, hst]

theorem applyAtRec_safe (B : Nat) (ll : LookupList) (gd : Gdef) (lk : Lookup)
    (hg : lk.guarded = true) (hs : lk.simple = true) (st : St) (pos : Int)
    (h0 : 0 ≤ pos) (hlt : pos < st.seq.length) (hst : st.stack = []) :
    Safe (fun r => r.1.stack = [] ∧ 0 ≤ r.2) (applyAtRec B ll gd lk st pos) := by
  unfold applyAtRec
  have hnat : pos.toNat < st.seq.length := by omega
  have hidx : Safe (fun _ => True) (idxI "applyAtRecursively:seq[pos]" st.seq pos) := by
    unfold idxI
    split
    · omega
    · exact (idx_safe hnat).mono (fun _ _ => trivial)
  refine Safe.bind hidx ?_
  intro g _ _
  split
  · exact ⟨hst, by omega⟩
  · refine Safe.bind (applyAt_safe _ st pos.toNat hnat hst lk.subtables hg hs) ?_
    intro r _ hr
    cases r with
    | none => exact ⟨hst, by omega⟩
    | some r =>
      obtain ⟨st1, next⟩ := r
      have hst1 : st1.stack = [] := hr
      show Safe _ (nestedLoop B ll gd (nestedFuel B st1) st1 1 next >>= _)
      rw [nestedLoop_nil B ll gd _ st1 1 next hst1]
      show Safe _ (match st1.stack.getLast? with
        | none => Outcome.ok (st1, (next : Int))
        | some bottom => Outcome.ok ({ st1 with stack := [] }, bottom.endPos))
      rw [hst1]
      exact ⟨hst1, by omega⟩

theorem lookupLoop_safe (B : Nat) (ll : LookupList) (gd : Gdef) (lk : Lookup)
    (hg : lk.guarded = true) (hs : lk.simple = true) :
    ∀ (fuel : Nat) (st : St) (pos : Int), 0 ≤ pos → st.stack = [] →
    Safe (fun st' => st'.stack = []) (lookupLoop B ll gd lk fuel st pos) := by
  intro fuel
  induction fuel with
  | zero =>
    intro st pos _ hst
    simp only [lookupLoop]
    split
    · trivial
    · exact hst
  | succ fuel ih =>
    intro st pos h0 hst
    simp only [lookupLoop]
    split
    · rename_i hpos
      refine Safe.bind (applyAtRec_safe B ll gd lk hg hs st pos h0 hpos hst) ?_
      intro r _ hr
      obtain ⟨st1, p1⟩ := r
      simp only at hr
      refine ih st1 _ ?_ hr.1
      have := hr.2
      split <;> omega
    · exact hst

/-- a reverse lookup (all subtables GSUB 8.1) has no contextual subtable -/
theorem rev_simple {ss : List Subtable} (h : ss.all Subtable.isRev81 = true) :
    ss.all (fun s => !s.contextual) = true := by
  apply List.all_eq_true.mpr
  intro s hs
  have := List.all_eq_true.mp h s hs
  cases s <;> simp [Subtable.isRev81, Subtable.contextual] at this ⊢

theorem revLoop_safe (gd : Gdef) (lk : Lookup) (hg : lk.guarded = true) (hrev : lk.reverse = true) :
    ∀ (n : Nat) (st : St), n ≤ st.seq.length → st.stack = [] →
    Safe (fun st' => st'.stack = []) (revLoop gd lk n st) := by
  have hall : lk.subtables.all Subtable.isRev81 = true := by
    unfold Lookup.reverse at hrev; simp only [Bool.and_eq_true] at hrev; exact hrev.2
  intro n
  induction n with
  | zero => intro st _ hst; simp only [revLoop]; exact hst
  | succ n ih =>
    intro st hn hst
    simp only [revLoop]
    refine Safe.bind (idx_safe (by omega : n < st.seq.length)) ?_
    intro g _ _
    split
    · refine Safe.bind (applyAt_safe _ st n (by omega) hst lk.subtables hg (rev_simple hall)) ?_
      intro r hr hnil
      cases r with
      | none => exact ih st (by omega) hst
      | some r =>
        obtain ⟨st1, nx⟩ := r
        have h := applyAt_rev _ _ _ _ _ _ _ hall hr
        exact ih st1 (by rw [h.2.1]; omega) (by rw [h.1]; exact hst)
    · exact ih st (by omega) hst

theorem applyLookup_safe (B : Nat) (ll : LookupList) (gd : Gdef) (lk : Lookup)
    (hg : lk.guarded = true) (hs : lk.simple = true) (st : St) (hst : st.stack = []) :
    Safe (fun st' => st'.stack = []) (applyLookup B ll gd lk st) := by
  unfold applyLookup
  split
  · rename_i hrev
    exact revLoop_safe gd lk hg hrev _ st (Nat.le_refl _) hst
  · exact lookupLoop_safe B ll gd lk hg hs st.seq.length st 0 (Int.le_refl _) hst

theorem applyLookups_safe (B : Nat) (ll : LookupList) (gd : Gdef)
    (hg : guardedLL ll = true) (hs : simpleLL ll = true) :
    ∀ (lookups : List Nat) (st : St), st.stack = [] → Safe (fun st' => st'.stack = []) (applyLookups B ll gd lookups st) := by
  intro lookups
  induction lookups with
  | nil => intro st hst; simp only [applyLookups]; exact hst
  | cons i is ih =>
    intro st hst
    simp only [applyLookups]
    split
    · exact ih st hst
    · rename_i lk hlk
      have hmem : lk ∈ ll := List.mem_of_getElem? hlk
      have hg' : lk.guarded = true := List.all_eq_true.mp hg lk hmem
      have hs' : lk.simple = true := List.all_eq_true.mp hs lk hmem
      refine Safe.bind (applyLookup_safe B ll gd lk hg' hs' st hst) ?_
      intro st1 _ h1
      exact ih st1 h1

end SfntV.Shape
